use linfa_nn::{distance::L2Dist, BallTree, KdTree, LinearSearch, NearestNeighbour};
use ndarray::{array, Array2};

#[test]
fn the_three_indices_agree_on_points_exactly_on_the_radius() {
    let pts: Array2<f64> = array![[0.0, 0.0], [3.0, 4.0], [1.0, 0.0], [6.0, 8.0]];
    let q = array![0.0, 0.0];
    let mut answers = Vec::new();
    for (name, idx) in [
        ("linear", LinearSearch.from_batch(&pts, L2Dist).unwrap()),
        ("kdtree", KdTree.from_batch(&pts, L2Dist).unwrap()),
        ("balltree", BallTree.from_batch(&pts, L2Dist).unwrap()),
    ] {
        let mut found: Vec<usize> = idx.within_range(q.view(), 5.0).unwrap().into_iter().map(|(_, i)| i).collect();
        found.sort();
        println!("{name}: {found:?}");
        answers.push(found);
    }
    // point 1 lies exactly on the radius (distance 5)
    assert_eq!(answers[0], answers[1], "linear vs kd-tree");
    assert_eq!(answers[0], answers[2], "linear vs ball tree");
}
