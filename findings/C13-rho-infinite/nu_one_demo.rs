use linfa::prelude::*;
use linfa_svm::Svm;
use ndarray::{array, Array1, Array2};

#[test]
fn nu_svc_boundary_and_infeasible_nu() {
    let x: Array2<f64> = array![[0.0, 0.0], [0.2, 0.1], [1.0, 1.0], [1.1, 0.9], [0.1, 0.3], [0.9, 1.2]];
    let y: Array1<bool> = array![false, false, true, true, false, true];
    let ds = Dataset::new(x.clone(), y.clone());
    for &nu in &[0.5, 0.9, 1.0] {
        let model = Svm::<f64, bool>::params().nu_weight(nu).gaussian_kernel(1.0).fit(&ds).unwrap();
        let pred = model.predict(&ds);
        println!("balanced nu={nu}: rho={} alpha={:?} pred={:?}", model.rho, model.alpha, pred);
    }
    // imbalanced: 1 positive out of 6, nu = 0.5 -> nu*l/2 = 1.5 > 1 positive (infeasible; libsvm rejects it)
    let y2: Array1<bool> = array![false, false, true, false, false, false];
    let ds2 = Dataset::new(x, y2);
    let model = Svm::<f64, bool>::params().nu_weight(0.5).gaussian_kernel(1.0).fit(&ds2).unwrap();
    println!("imbalanced nu=0.5: rho={} alpha={:?} pred={:?}", model.rho, model.alpha, model.predict(&ds2));
    assert!(model.rho.is_finite());
}
