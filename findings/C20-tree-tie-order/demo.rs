// PLACE AT: algorithms/linfa-trees/tests/c20_tie.rs  RUN: cargo test --offline -p linfa-trees --test c20_tie
// C20: "same data, parameters and seed give bit-identical results on every run ... independently of ... hash-map iteration order".
// A leaf whose two most frequent labels tie took whichever the (per-map random) HashMap iteration order presented last.
use linfa::prelude::*;
use linfa_trees::DecisionTree;
use ndarray::array;

#[test]
fn tied_leaf_predicts_the_same_label_on_every_fit() {
    let x = array![[0.0], [0.0], [0.0], [0.0]];
    let y = array![3usize, 7, 3, 7];
    let mut seen = std::collections::BTreeSet::new();
    for _ in 0..60 {
        let ds = Dataset::new(x.clone(), y.clone());
        let model = DecisionTree::params().fit(&ds).unwrap();
        seen.insert(model.predict(&array![[0.0]])[0]);
    }
    assert_eq!(seen.len(), 1, "tied leaf predicted {:?} over 60 fits of the same data", seen);
}
