// PLACE AT: algorithms/linfa-bayes/tests/C03_anomaly_nb_tie.rs  RUN: cargo test --offline -p linfa-bayes --test C03_anomaly_nb_tie   (FAILS on the UNCHANGED tree)
use linfa::traits::{Fit, Predict};
use linfa::DatasetBase;
use linfa_bayes::GaussianNb;
use ndarray::array;

#[test]
fn probe() {
    let x = array![[-2.0], [-1.0], [1.0], [2.0]];
    let y = array![1usize, 1, 2, 2];
    let ds = DatasetBase::new(x, y);
    let model = GaussianNb::params().fit(&ds).unwrap();
    let q = array![[0.0], [0.0], [0.0], [0.0]];
    let mut seen = std::collections::BTreeSet::new();
    for _ in 0..40 {
        let p = model.predict(&q);
        for l in p.iter() { seen.insert(*l); }
        let single = model.predict(&array![[0.0]]);
        seen.insert(single[0]);
    }
    println!("seen {:?}", seen);
    assert_eq!(seen.len(), 1, "same sample predicted with different labels: {:?}", seen);
}
