use linfa::traits::Transformer;
use linfa_clustering::Optics;
use linfa_nn::{distance::L2Dist, CommonNearestNeighbour};
use ndarray::array;

#[test]
fn optics_core_distance_does_not_depend_on_the_index() {
    let x = array![[0.0f64], [3.0], [1.0], [2.0]];
    for algo in [CommonNearestNeighbour::LinearSearch, CommonNearestNeighbour::KdTree, CommonNearestNeighbour::BallTree] {
        let res = Optics::params_with(2, L2Dist, algo.clone()).tolerance(10.0).transform(x.view()).unwrap();
        for s in res.iter() {
            // every point has a neighbour at distance 1: the distance to the 2nd nearest point (itself included) is 1
            assert_eq!(*s.core_distance(), Some(1.0), "{:?} sample {}", algo, s.index());
        }
    }
}
