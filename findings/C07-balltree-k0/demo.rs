// PLACE AT: algorithms/linfa-nn/tests/c07_k0.rs  RUN: cargo test --offline -p linfa-nn --test c07_k0
// C07: "answers a k-nearest query with exactly min(k,n) stored points" - for k = 0 that is the empty answer, for every index kind.
// Before the fix the ball tree panicked (`out.peek().unwrap()` on an empty heap).
use linfa_nn::{distance::L2Dist, CommonNearestNeighbour, NearestNeighbour};
use ndarray::array;

#[test]
fn k_zero_is_the_empty_answer_for_every_index_kind() {
    let pts = array![[0.0, 2.0], [10.0, 4.0], [4.0, 5.0]];
    for kind in [CommonNearestNeighbour::LinearSearch, CommonNearestNeighbour::KdTree, CommonNearestNeighbour::BallTree] {
        let idx = kind.from_batch(&pts, L2Dist).unwrap();
        let out = idx.k_nearest(array![1.0, 1.0].view(), 0).unwrap();
        assert!(out.is_empty());
    }
}
