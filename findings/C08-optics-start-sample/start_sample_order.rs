// place under algorithms/linfa-clustering/tests/ ; fails before /repo commit 88c227d, passes after
use linfa::traits::Transformer;
use linfa_clustering::Optics;
use ndarray::array;

#[test]
fn reachability_comes_from_a_sample_listed_no_later() {
    let x = array![[0.0f64], [1.0], [3.0], [3.5], [9.0], [20.0]];
    let res = Optics::params(3).tolerance(4.0).transform(x.view()).unwrap();
    let order: Vec<usize> = res.iter().map(|s| s.index()).collect();
    for (pos, s) in res.iter().enumerate() {
        if let Some(r) = s.reachability_distance() {
            // some core sample o listed no later than s explains r = max(core(o), d(o, s))
            let explained = res.iter().take(pos + 1).any(|o| match o.core_distance() {
                Some(c) => {
                    let d = (x[[o.index(), 0]] - x[[s.index(), 0]]).abs();
                    o.index() != s.index() && d <= 4.0 && (c.max(d) - *r).abs() < 1e-12
                }
                None => false,
            });
            assert!(explained, "order {:?}: sample {} at position {} has reachability {} from a sample listed later", order, s.index(), pos, r);
        }
    }
}
