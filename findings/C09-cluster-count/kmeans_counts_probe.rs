// place at: algorithms/linfa-clustering/tests/kmeans_counts_probe.rs ; run: cargo test --offline -p linfa-clustering --test kmeans_counts_probe -- --nocapture
// "the reported inertia and per-cluster counts describe the returned centroids (counts summing to n)"
use linfa::prelude::*;
use linfa_clustering::{KMeans, KMeansInit};
use ndarray::{Array1, Array2};
use rand_xoshiro::rand_core::SeedableRng;
use rand_xoshiro::Xoshiro256Plus;

#[test]
fn cluster_count_describes_returned_centroids() {
    // four blobs of sizes 1, 2, 3, 10 on a line, k = 3: restarts end in different local optima
    let mut pts = vec![];
    for (c, n) in [(0.0, 1usize), (10.0, 2), (20.0, 3), (30.0, 10)] { for i in 0..n { pts.push(c + 0.01 * i as f64); } }
    let n = pts.len();
    let x = Array2::from_shape_vec((n, 1), pts).unwrap();
    let ds = DatasetBase::from(x.clone());
    let mut bad = 0;
    for seed in 0..40u64 {
        let rng = Xoshiro256Plus::seed_from_u64(seed);
        let model = KMeans::params_with_rng(3, rng).n_runs(5).init_method(KMeansInit::Random).fit(&ds).unwrap();
        let pred: Array1<usize> = model.predict(&x);
        let mut counts = vec![0.0f64; 3];
        for &c in pred.iter() { counts[c] += 1.0; }
        let reported: Vec<f64> = model.cluster_count().to_vec();
        if reported != counts { bad += 1; println!("seed {}: reported {:?} but the returned centroids {:?} own {:?}", seed, reported, model.centroids().column(0).to_vec(), counts); }
    }
    assert_eq!(bad, 0);
}
