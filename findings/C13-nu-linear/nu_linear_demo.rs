use linfa::prelude::*;
use linfa_svm::Svm;
use ndarray::{array, Array2, Array1};

#[test]
fn nu_svc_linear_decision_matches_published_coefficients() {
    // two overlapping classes on a line, offset from the origin so that rho != 0
    let x: Array2<f64> = array![[1.0], [2.0], [3.0], [4.0], [3.5], [5.0], [6.0], [7.0], [8.0], [4.5]];
    let y: Array1<bool> = array![false, false, false, false, false, true, true, true, true, true];
    let ds = Dataset::new(x.clone(), y.clone());
    for &nu in &[0.2, 0.5, 0.8] {
        let model = Svm::<f64, bool>::params().nu_weight(nu).linear_kernel().fit(&ds).unwrap();
        let mut worst = 0.0f64;
        for q in [0.0, 2.5, 4.0, 4.2, 6.0, 10.0] {
            let s = array![q];
            let published: f64 = model.alpha.iter().zip(x.outer_iter()).map(|(a, xi)| a * xi[0] * q).sum::<f64>() - model.rho;
            let decision = model.weighted_sum(&s) - model.rho;
            println!("nu={nu} q={q} published={published:.6} decision={decision:.6}");
            worst = worst.max((published - decision).abs());
        }
        assert!(worst < 1e-9, "nu={nu}: decision value differs from sum alpha_i K(x_i,x) - rho by {worst}");
    }
}
