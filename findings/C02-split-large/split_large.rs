use linfa::prelude::*;
use linfa::Dataset;
use ndarray::{Array1, Array2};

// place under /repo/tests/ ; run: cargo test --release --offline -p linfa --test split_large
#[test]
fn split_with_ratio_one_on_a_large_dataset() {
    let n = 16_777_219usize; // n as f32 rounds UP to 16_777_220
    let ds = Dataset::new(Array2::<f32>::zeros((n, 1)), Array1::<u8>::zeros(n));
    {
        let v = ds.view();
        let (a, b) = v.split_with_ratio(1.0);
        assert_eq!(a.nsamples() + b.nsamples(), n);
    }
    let (a, b) = ds.split_with_ratio(1.0);
    assert_eq!(a.nsamples() + b.nsamples(), n);
}
