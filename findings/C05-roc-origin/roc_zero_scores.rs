// place at: tests/roc_zero_scores.rs (root crate `linfa`); run: cargo test --offline -p linfa --test roc_zero_scores
// Boundary score 0 present in both classes: Mann-Whitney AUC with ties counted one half is
// (#pairs pos>neg + 0.5 #ties) / (#pos #neg) = (1 + 0.5*2) / 4 = 0.5, and the curve must start at (0,0).
use linfa::prelude::*;
#[test]
fn roc_starts_at_origin_with_zero_scores() {
    let scores: Vec<Pr> = [0.0f32, 0.0, 0.5, 0.5].iter().map(|x| Pr::new(*x)).collect();
    let truth = [false, true, false, true];
    let roc = scores.as_slice().roc(&truth[..]).unwrap();
    let curve = roc.get_curve();
    assert_eq!(curve[0], (0.0, 0.0), "curve {:?}", curve);
    assert!((roc.area_under_curve() - 0.5).abs() < 1e-6, "auc {}", roc.area_under_curve());
}
