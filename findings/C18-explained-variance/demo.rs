// PLACE AT: algorithms/linfa-reduction/tests/c18_demo.rs  RUN: cargo test --offline -p linfa-reduction --test c18_demo
// before the fix: ev = inf (division by sigma.len() - 1 = 0), ratio NaN; with it: passes.
use linfa::traits::Fit;
use linfa::Dataset;
use linfa_reduction::Pca;
use ndarray::array;

#[test]
fn explained_variance_is_sigma_squared_over_n_minus_1() {
    // 5 samples on a line in 2-D: the single principal axis carries the whole variance
    let x = array![[-2.0, 0.0], [-1.0, 0.0], [0.0, 0.0], [1.0, 0.0], [2.0, 0.0]];
    let ds = Dataset::from(x);
    let model = Pca::params(1).fit(&ds).unwrap();
    let s = model.singular_values()[0];
    let ev = model.explained_variance();
    // sample variance of the first coordinate = 10 / 4 = 2.5
    assert!((ev[0] - s * s / 4.0).abs() < 1e-9, "ev = {}", ev[0]);
    assert!((ev[0] - 2.5).abs() < 1e-6, "ev = {}", ev[0]);
    let r = model.explained_variance_ratio();
    assert!(r[0].is_finite() && (r[0] - 1.0).abs() < 1e-9, "ratio = {}", r[0]);
}
