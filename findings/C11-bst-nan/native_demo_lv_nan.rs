use linfa::prelude::*;
use linfa_elasticnet::MultiTaskElasticNet;
use ndarray::array;

#[test]
fn ridge_orthogonal_feature() {
    // feature 0 is exactly orthogonal to the centred targets, feature 1 explains them
    let x = array![[1.0, 0.0], [-1.0, 0.0], [1.0, 1.0], [-1.0, 1.0]];
    let y = array![[1.0, 3.0], [1.0, 3.0], [2.0, 5.0], [2.0, 5.0]];
    let ds = Dataset::new(x, y);
    for (l1, pen) in [(0.0, 0.1), (0.5, 0.0), (0.5, 0.1)] {
        let m = MultiTaskElasticNet::params().l1_ratio(l1).penalty(pen).fit(&ds).unwrap();
        println!("l1_ratio={} penalty={} hyperplane={:?} intercept={:?} gap={:?}", l1, pen, m.hyperplane(), m.intercept(), m.duality_gap());
    }
    // constant targets
    let x = array![[1.0, 2.0], [3.0, 5.0], [4.0, 1.0]];
    let y = array![[1.0, 2.0], [1.0, 2.0], [1.0, 2.0]];
    let ds = Dataset::new(x, y);
    let m = MultiTaskElasticNet::params().l1_ratio(0.0).penalty(0.1).fit(&ds).unwrap();
    println!("constant targets, ridge: hyperplane={:?}", m.hyperplane());
}
