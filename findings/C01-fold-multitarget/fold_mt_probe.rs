// place at: tests/fold_mt_probe.rs (root crate `linfa`); run: cargo test --offline -p linfa --test fold_mt_probe
// Before the fix `fold(k)` computed fold_size = targets.len() / k, i.e. (n * n_target_columns) / k, so with a
// two-column target array every "fold" was twice too large (and with n*t/k >= n the call panicked in `concatenate`).
use linfa::prelude::*;
use ndarray::{array, Array2};
#[test]
fn fold_multi_target() {
    let rec: Array2<f64> = array![[0.], [1.], [2.], [3.], [4.], [5.]];
    let tar: Array2<f64> = array![[0., 10.], [1., 11.], [2., 12.], [3., 13.], [4., 14.], [5., 15.]];
    let ds = Dataset::new(rec, tar);
    let folds = ds.fold(3);
    assert_eq!(folds.len(), 3);
    for (i, (tr, va)) in folds.iter().enumerate() {
        assert_eq!(va.nsamples(), 2);
        assert_eq!(tr.nsamples(), 4);
        assert_eq!(va.records()[(0, 0)], (2 * i) as f64);
        assert_eq!(va.targets()[(0, 1)], (10 + 2 * i) as f64);
    }
}
