use linfa::prelude::*;
use linfa_clustering::{KMeans, KMeansInit};
use ndarray::{array, Array2};
#[test]
fn inertia_describes_returned_centroids() {
    let x: Array2<f64> = array![[0.0], [1.0], [2.0], [10.0], [11.0], [12.0], [5.0]];
    let ds = DatasetBase::from(x.clone());
    for iters in [1u64, 2, 3, 10] {
        let model = KMeans::params(2).init_method(KMeansInit::Precomputed(array![[0.0], [1.0]])).max_n_iterations(iters).n_runs(1).tolerance(1e-12).fit(&ds).unwrap();
        let c = model.centroids();
        let recomputed: f64 = x.rows().into_iter().map(|r| (0..2).map(|k| (r[0] - c[[k, 0]]).powi(2)).fold(f64::INFINITY, f64::min)).sum::<f64>() / 7.0;
        println!("iters={iters} reported={} recomputed={} centroids={:?}", model.inertia(), recomputed, c);
        assert!((model.inertia() - recomputed).abs() < 1e-9);
    }
}
