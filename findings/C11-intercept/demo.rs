// PLACE AT: algorithms/linfa-elasticnet/tests/c11_intercept.rs  RUN: cargo test --offline -p linfa-elasticnet --test c11_intercept
// C11: the returned point is optimal "jointly in coefficients and intercept, whatever the offsets and scales of the features".
// Optimality in the (unpenalised) intercept means the residuals sum to zero.  Before the fix the intercept was mean(y) with
// un-centred features: residual sum -0.259 (single task), and shifting the intercept lowered the objective below the reported gap.
use linfa::prelude::*;
use linfa_elasticnet::{ElasticNet, MultiTaskElasticNet};
use ndarray::{array, Axis};

#[test]
fn residuals_sum_to_zero_single_task() {
    let x: ndarray::Array2<f64> = array![[10.0, 1.0], [11.0, 3.0], [12.5, 2.0], [14.0, 5.0], [15.0, 4.5]];
    let y: ndarray::Array1<f64> = array![1.0, 2.5, 2.0, 4.5, 4.0];
    let ds = Dataset::new(x.clone(), y.clone());
    let m = ElasticNet::params().l1_ratio(0.5).penalty(0.1).tolerance(1e-10).with_intercept(true).fit(&ds).unwrap();
    let r = &y - &(x.dot(m.hyperplane()) + m.intercept());
    assert!(r.sum().abs() < 1e-6, "residual sum {} (b = {}, w = {})", r.sum(), m.intercept(), m.hyperplane());
}

#[test]
fn residuals_sum_to_zero_multi_task() {
    let x: ndarray::Array2<f64> = array![[10.0, 1.0], [11.0, 3.0], [12.5, 2.0], [14.0, 5.0], [15.0, 4.5]];
    let y: ndarray::Array2<f64> = array![[1.0, 2.0], [2.5, 0.5], [2.0, 1.0], [4.5, -1.0], [4.0, 0.0]];
    let ds = Dataset::new(x.clone(), y.clone());
    let m = MultiTaskElasticNet::params().l1_ratio(0.5).penalty(0.1).tolerance(1e-10).with_intercept(true).fit(&ds).unwrap();
    let r = &y - &(x.dot(m.hyperplane()) + m.intercept());
    let s = r.sum_axis(Axis(0));
    assert!(s.iter().all(|v| v.abs() < 1e-6), "residual sums {}", s);
}
