use linfa::prelude::*;
use linfa_trees::DecisionTree;
use ndarray::{array, Array1, Array2};

#[test]
fn tie_routing() {
    let mut mism = 0;
    for k in 0..8u32 {
        let a = f32::from_bits(200.0f32.to_bits() + k);
        let b = f32::from_bits(a.to_bits() + 1);
        let x = Array2::from_shape_vec((2, 1), vec![a, b]).unwrap();
        let y: Array1<usize> = array![0, 1];
        let ds = Dataset::new(x.clone(), y.clone());
        let tree = DecisionTree::params().fit(&ds).unwrap();
        let p = tree.predict(&x);
        println!("k={} a={:?} b={:?} b-a={:e} split={:?} leaf={} pred={:?}", k, a, b, b - a, tree.root_node().split(), tree.root_node().is_leaf(), p);
        if p != y { mism += 1; }
    }
    // a realistic one: 4 samples, integer-like big values
    let x = Array2::from_shape_vec((4, 1), vec![16777214.0f32, 16777215.0, 16777216.0, 16777218.0]).unwrap();
    let y: Array1<usize> = array![0, 0, 1, 1];
    let ds = Dataset::new(x.clone(), y.clone());
    let tree = DecisionTree::params().fit(&ds).unwrap();
    println!("big: split={:?} pred={:?}", tree.root_node().split(), tree.predict(&x));
    println!("mismatches={}", mism);
}
