use linfa::Dataset;
use linfa::prelude::*;
use ndarray::array;

#[test]
fn target_iter_on_single_target_dataset() {
    let ds = Dataset::new(array![[1.0, 2.0], [3.0, 4.0], [5.0, 6.0]], array![10usize, 20, 30]);
    let items: Vec<_> = ds.target_iter().collect();
    assert_eq!(items.len(), 1);
    assert_eq!(items[0].records(), ds.records());
    assert_eq!(items[0].as_targets(), ds.as_targets());
}

#[test]
fn feature_iter_on_single_target_dataset() {
    let ds = Dataset::new(array![[1.0, 2.0], [3.0, 4.0], [5.0, 6.0]], array![10usize, 20, 30]);
    let items: Vec<_> = ds.feature_iter().collect();
    assert_eq!(items.len(), 2);
    assert_eq!(items[1].as_targets(), ds.as_targets());
}
