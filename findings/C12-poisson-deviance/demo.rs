// PLACE AT: algorithms/linfa-linear/tests/c12_poisson.rs  RUN: cargo test --offline -p linfa-linear --test c12_poisson
//
// C12 (Tweedie clause): the fitted TweedieRegressor must be a stationary point of
//     1/2 * (deviance(y, h(X w + b)) + alpha * ||w||^2)
// for every supported power / link, with and without intercept (the intercept is never
// penalised, every coefficient always is).
//
// NOTE: power = 1 (Poisson) is deliberately left out: on the UNCHANGED tree the Poisson fit is
// already not a stationary point for noisy data (see notes.md, anomaly).
use linfa::traits::Fit;
use linfa::Dataset;
use linfa_linear::{Link, TweedieRegressor};
use ndarray::{array, Array1, Array2};

fn data() -> (Array2<f64>, Array1<f64>) {
    let x = array![
        [0.9, 0.1],
        [0.2, 0.8],
        [0.5, 0.5],
        [1.0, 0.9],
        [0.1, 0.2],
        [0.7, 0.3],
        [0.3, 0.6],
        [0.8, 0.7],
        [0.4, 0.1],
        [0.6, 1.0],
        [0.05, 0.95],
        [0.95, 0.45]
    ];
    // noisy, strictly positive targets: no exact fit exists
    let y = array![2.9, 1.4, 2.3, 3.6, 0.9, 2.0, 1.2, 3.9, 1.1, 2.2, 1.9, 2.4];
    (x, y)
}

/// Gradient of 1/2 * (deviance + alpha * ||w||^2) w.r.t. (intercept, w), computed from scratch.
fn objective_gradient(
    x: &Array2<f64>,
    y: &Array1<f64>,
    power: f64,
    link: Link,
    alpha: f64,
    intercept: f64,
    w: &Array1<f64>,
) -> (f64, Array1<f64>) {
    let eta = x.dot(w) + intercept;
    let mut g0 = 0.0;
    let mut g = Array1::<f64>::zeros(w.len());
    for i in 0..x.nrows() {
        let (mu, dmu) = match link {
            Link::Identity => (eta[i], 1.0),
            Link::Log => (eta[i].exp(), eta[i].exp()),
            Link::Logit => {
                let s = 1.0 / (1.0 + (-eta[i]).exp());
                (s, s * (1.0 - s))
            }
        };
        // 1/2 * d(unit deviance)/d(mu) = -(y - mu) / mu^power
        let t = -(y[i] - mu) / mu.powf(power) * dmu;
        g0 += t;
        for j in 0..w.len() {
            g[j] += t * x[[i, j]];
        }
    }
    for j in 0..w.len() {
        g[j] += alpha * w[j];
    }
    (g0, g)
}

fn check(power: f64, link: Link, fit_intercept: bool, alpha: f64) {
    let (x, y) = data();
    let ds = Dataset::new(x.clone(), y.clone());
    let model = TweedieRegressor::params()
        .power(power)
        .link(link)
        .alpha(alpha)
        .fit_intercept(fit_intercept)
        .tol(1e-7)
        .max_iter(1000)
        .fit(&ds)
        .unwrap_or_else(|e| {
            panic!(
                "fit failed for power={} link={:?} intercept={} alpha={}: {}",
                power, link, fit_intercept, alpha, e
            )
        });
    let (g0, g) = objective_gradient(&x, &y, power, link, alpha, model.intercept, &model.coef);
    let mut worst = g.iter().fold(0.0f64, |a, b| a.max(b.abs()));
    if fit_intercept {
        worst = worst.max(g0.abs());
    } else {
        assert_eq!(model.intercept, 0.0);
    }
    assert!(
        worst < 1e-4,
        "not a stationary point: power={} link={:?} intercept={} alpha={} -> |grad|_inf = {:e} (b={}, w={})",
        power,
        link,
        fit_intercept,
        alpha,
        worst,
        model.intercept,
        model.coef
    );
}

#[test]
fn tweedie_stationary_with_intercept() {
    for &alpha in &[0.0, 0.3, 2.0] {
        check(0.0, Link::Identity, true, alpha);
        check(0.0, Link::Log, true, alpha);
        check(1.2, Link::Log, true, alpha);
        check(1.0, Link::Log, true, alpha);
        check(1.5, Link::Log, true, alpha);
        check(2.0, Link::Log, true, alpha);
        check(3.0, Link::Log, true, alpha);
    }
}

#[test]
fn tweedie_stationary_without_intercept() {
    for &alpha in &[0.0, 0.3, 2.0] {
        check(0.0, Link::Identity, false, alpha);
        check(0.0, Link::Log, false, alpha);
        check(1.2, Link::Log, false, alpha);
        check(1.0, Link::Log, false, alpha);
        check(1.5, Link::Log, false, alpha);
        check(2.0, Link::Log, false, alpha);
        check(3.0, Link::Log, false, alpha);
    }
}
