use linfa::prelude::*;
use linfa_svm::Svm;
use ndarray::{Array1, Array2};

fn lcg(s: &mut u64) -> f64 {
    *s = s.wrapping_mul(6364136223846793005).wrapping_add(1442695040888963407);
    ((*s >> 11) as f64) / ((1u64 << 53) as f64)
}

fn data(seed: u64, n: usize) -> (Array2<f64>, Array1<bool>) {
    let mut s = seed;
    let mut x = Array2::zeros((n, 2));
    let mut y = Array1::from_elem(n, false);
    for i in 0..n {
        let pos = lcg(&mut s) < 0.4;
        let c = if pos { 0.6 } else { -0.6 };
        x[(i, 0)] = c + 2.0 * (lcg(&mut s) - 0.5);
        x[(i, 1)] = c + 2.0 * (lcg(&mut s) - 0.5);
        y[i] = pos;
    }
    (x, y)
}

#[test]
fn probe() {
    let (cpos, cneg) = (8.0, 0.25);
    let mut bad_box = 0;
    let mut bad_dec = 0;
    for seed in 0..60u64 {
        for &n in &[12usize, 20, 35, 60, 150] {
            let (x, y) = data(seed * 7 + 1, n);
            if y.iter().all(|v| *v) || y.iter().all(|v| !*v) { continue; }
            let ds = Dataset::new(x.clone(), y.clone());
            let lin = std::env::var("LIN").is_ok();
            let fit = |shr: bool| -> Svm<f64, bool> {
                let p = Svm::<f64, bool>::params().pos_neg_weights(cpos, cneg).shrinking(shr).eps(1e-9);
                let p = if lin { p.linear_kernel() } else { p.gaussian_kernel(1.0) };
                p.fit(&ds).unwrap()
            };
            let a = fit(false);
            let b = fit(true);
            let viol = |m: &Svm<f64, bool>| (0..n).filter(|&i| { let c = if y[i] { cpos } else { cneg }; m.alpha[i].abs() > c * (1.0 + 1e-9) }).count();
            let (va, vb) = (viol(&a), viol(&b));
            let pa = a.predict(&x); let pb = b.predict(&x);
            let diff = (0..n).filter(|&i| pa[i] != pb[i]).count();
            let adiff = (0..n).map(|i| (a.alpha[i] - b.alpha[i]).abs()).fold(0.0, f64::max);
            if adiff > 1e-2 { println!("seed {} n {} max alpha diff {}", seed, n, adiff); }
            if va > 0 || vb > 0 { bad_box += 1; println!("seed {} n {} box violations: noshrink {} shrink {}", seed, n, va, vb); }
            if diff > 0 { bad_dec += 1; println!("seed {} n {} predictions differ on {} samples", seed, n, diff); }
        }
    }
    println!("bad_box {} bad_dec {}", bad_box, bad_dec);
}
