// PLACE AT: algorithms/linfa-clustering/tests/c10_far.rs  RUN: cargo test --offline -p linfa-clustering --test c10_far
// C10: "For every finite observation - inside the data, or arbitrarily far from it - the predicted membership probabilities are finite,
// non-negative and sum to one".  Before the fix ln(sum(exp(.))) underflowed to ln(0): predict_proba([[30.]]) = [inf, inf].
use linfa::traits::{Fit, Predict};
use linfa::DatasetBase;
use linfa_clustering::GaussianMixtureModel;
use ndarray::{Array1, Array2};

#[test]
fn far_observations_get_valid_probabilities() {
    let mut v: Vec<f64> = (0..90).map(|i| -1.0 + 2.0 * (i as f64) / 89.0).collect();
    v.extend((0..10).map(|i| 3.0 + 2.0 * (i as f64) / 9.0));
    let x = Array2::from_shape_vec((100, 1), v).unwrap();
    let ds = DatasetBase::from(x);
    let model = GaussianMixtureModel::params(2).fit(&ds).unwrap();
    for far in [30.0, 50.0, 100.0, 1e3, 1e6, -1e6] {
        let q = Array2::from_shape_vec((1, 1), vec![far]).unwrap();
        let p = model.predict_proba(&q);
        let row: Array1<f64> = p.row(0).to_owned();
        assert!(row.iter().all(|a| a.is_finite() && *a >= 0.0), "x = {}: {:?}", far, row);
        assert!((row.sum() - 1.0).abs() < 1e-9, "x = {}: {:?}", far, row);
        let c = model.predict(&q)[0];
        assert!(row[c] >= row[1 - c]);
    }
}
