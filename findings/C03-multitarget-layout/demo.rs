// PLACE AT: tests/C03_anomaly_multitarget.rs  RUN: cargo test --offline -p linfa --test C03_anomaly_multitarget   (FAILS on the UNCHANGED tree)
use linfa::traits::{Predict, PredictInplace};
use linfa::MultiTargetModel;
use ndarray::{array, Array1, Array2, Axis};

/// returns x[0] * k, but hands back its result as an array with a negative stride
struct Rev { k: f64 }
impl PredictInplace<Array2<f64>, Array1<f64>> for Rev {
    fn predict_inplace(&self, x: &Array2<f64>, y: &mut Array1<f64>) {
        let mut v: Array1<f64> = x.column(0).iter().rev().map(|a| a * self.k).collect();
        v.invert_axis(Axis(0));
        *y = v;
    }
    fn default_target(&self, x: &Array2<f64>) -> Array1<f64> { Array1::zeros(x.nrows()) }
}

#[test]
fn probe() {
    let x = array![[1.0, 0.], [2.0, 0.], [3.0, 0.]];
    let m0 = Rev { k: 1.0 };
    assert_eq!(m0.predict(&x), array![1.0, 2.0, 3.0]);
    let model: MultiTargetModel<Array2<f64>, f64> = vec![Rev { k: 1.0 }, Rev { k: 10.0 }].into_iter().collect();
    let out = model.predict(&x);
    println!("{:?}", out);
    assert_eq!(out.column(0), array![1.0, 2.0, 3.0]);
}
