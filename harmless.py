#!/usr/bin/env python3
"""Behaviour-preserving edits ("harmless refactorings") of /repo, used to measure false alarms (DESIGN.md section 10).

  harmless.py import ROOT          copy ROOT/<PID>/<n>.diff + <n>.txt into /verif/harmless/<PID>/
  harmless.py check PID N [tier]   apply harmless/<PID>/<N>.diff to a scratch worktree of /repo's HEAD, run `vx check PID` against it
  harmless.py prop PID [tier]      every edit of one property, one after the other
  harmless.py table                markdown table of the recorded outcomes

An edit keeps the property true, so the only acceptable outcomes are exit 0 (all obligations still discharged) and exit 2
(undecided: an extraction anchor was lost or a construct is outside the verifier's reach).  Exit 1 is a false alarm of the machinery.
/repo itself is never touched: the worktree lives under HARMLESS_ROOT (default /tmp/linfa-verif-harmless) and is removed after each run.
"""
import os, sys, json, shutil, subprocess, time, glob

HERE = os.path.dirname(os.path.abspath(__file__))
DIR = os.path.join(HERE, "harmless")
ROOT = os.environ.get("HARMLESS_ROOT", "/tmp/linfa-verif-harmless")


def sh(cmd, cwd=None, timeout=7200):
    p = subprocess.run(cmd, cwd=cwd, stdout=subprocess.PIPE, stderr=subprocess.STDOUT, text=True, timeout=timeout)
    return p.returncode, p.stdout


def cmd_import(root):
    for d in sorted(glob.glob(os.path.join(root, "C??"))):
        pid = os.path.basename(d)
        os.makedirs(os.path.join(DIR, pid), exist_ok=True)
        for f in sorted(glob.glob(os.path.join(d, "*.diff"))):
            n = os.path.basename(f)[:-5]
            shutil.copy(f, os.path.join(DIR, pid, n + ".diff"))
            t = f[:-5] + ".txt"
            if os.path.exists(t):
                shutil.copy(t, os.path.join(DIR, pid, n + ".txt"))
            print("imported", pid, n)


def cmd_check(pid, n, tier="quick"):
    patch = os.path.join(DIR, pid, "%s.diff" % n)
    stage = "%s/%s" % (ROOT, pid)
    wt = "%s/wt-%s-%s" % (ROOT, pid, n)
    os.makedirs(ROOT, exist_ok=True)
    sh(["git", "-C", "/repo", "worktree", "remove", "--force", wt])
    sh(["git", "-C", "/repo", "worktree", "add", "--detach", wt, "HEAD"])
    t0 = time.time()
    res = dict(tier=tier, at=time.strftime("%Y-%m-%d %H:%M"))
    try:
        rca, outa = sh(["git", "-C", wt, "apply", patch])
        if rca != 0:
            res.update(exit=None, note="patch does not apply: " + outa.strip()[:200])
        else:
            env = dict(os.environ, VERIF_REPO=wt, VERIF_STAGE_ROOT=stage, VERIF_KANI_TARGET=stage + "/kani-target",
                       VERIF_EVIDENCE_DIR=os.path.join(HERE, ".cache", "evidence-harmless"))
            p = subprocess.run([os.path.join(HERE, "vx"), "check", pid, "--tier", tier], cwd=HERE, env=env, stdout=subprocess.PIPE,
                               stderr=subprocess.STDOUT, text=True, timeout=7200)
            lines = [l for l in p.stdout.splitlines() if l.startswith(("VIOLATION", "UNDECIDED")) or (l.startswith("UNIT") and "discharged" not in l)]
            res.update(exit=p.returncode, lines=[l[:300] for l in lines[:16]])
    finally:
        sh(["git", "-C", "/repo", "worktree", "remove", "--force", wt])
    res["wall_s"] = round(time.time() - t0)
    res["verif_commit"] = sh(["git", "-C", HERE, "rev-parse", "--short", "HEAD"])[1].strip()
    rp = os.path.join(DIR, pid, "%s.result.json" % n)
    old = json.load(open(rp)) if os.path.exists(rp) else {}
    old[tier] = res
    json.dump(old, open(rp, "w"), indent=1)
    print(pid, n, tier, "exit", res.get("exit"), "%ds" % res["wall_s"])
    for l in res.get("lines", [])[:6]:
        print("   ", l[:220])
    return res.get("exit")


def cmd_prop(pid, tier="quick"):
    for f in sorted(glob.glob(os.path.join(DIR, pid, "*.diff"))):
        cmd_check(pid, os.path.basename(f)[:-5], tier)
    shutil.rmtree("%s/%s" % (ROOT, pid), ignore_errors=True)


def cmd_table():
    print("| property | edit | what | quick | note |")
    print("|---|---|---|---|---|")
    tot = {}
    for d in sorted(glob.glob(os.path.join(DIR, "C??"))):
        pid = os.path.basename(d)
        for f in sorted(glob.glob(os.path.join(d, "*.diff"))):
            n = os.path.basename(f)[:-5]
            txt = open(f[:-5] + ".txt").read().strip().replace("\n", " ").replace("|", "/")[:110] if os.path.exists(f[:-5] + ".txt") else ""
            rp = f[:-5] + ".result.json"
            r = json.load(open(rp)).get("quick", {}) if os.path.exists(rp) else {}
            ex = r.get("exit")
            word = {0: "0 (held)", 2: "2 (undecided)", 1: "1 (FALSE ALARM)", None: "-"}.get(ex, str(ex))
            note = "; ".join(l.split("reason=")[-1][:90] for l in r.get("lines", []) if l.startswith("UNDECIDED"))[:160] or r.get("note", "")
            tot[ex] = tot.get(ex, 0) + 1
            print("| %s | %s | %s | %s | %s |" % (pid, n, txt, word, note.replace("|", "/")))
    print()
    print("totals:", ", ".join("exit %s: %d" % (k, v) for k, v in sorted(tot.items(), key=lambda kv: str(kv[0]))))


if __name__ == "__main__":
    a = sys.argv[1:]
    if not a:
        print(__doc__)
    elif a[0] == "import":
        cmd_import(a[1])
    elif a[0] == "check":
        sys.exit(0 if cmd_check(*a[1:]) in (0, 2) else 1)
    elif a[0] == "prop":
        cmd_prop(*a[1:])
    elif a[0] == "table":
        cmd_table()
