#!/usr/bin/env python3
"""Seeded-change bookkeeping (never touches /repo except in `check`, which applies and undoes a patch).

  seedtool.py import <seed-root> <PROP> <n> [<name>]   copy <seed-root>/out/<n>/{patch.diff,demo.rs,notes.md} to seeded/<PROP>-<name or n>/
  seedtool.py verify <seed-id>                         in a scratch worktree: demo passes without, fails with the patch; touched crates' tests pass with it
  seedtool.py check  <seed-id> [quick|thorough]        git -C /repo apply; ./vx check <PROP>; git -C /repo checkout -- . ; record the verdict
  seedtool.py table                                    markdown table of all seeds
"""
import sys, os, re, json, subprocess, shutil, time
HERE = os.path.dirname(os.path.abspath(__file__))
SEEDED = os.path.join(HERE, "seeded")
WT = "/tmp/seedv"
SEEDROOT = os.environ.get("SEED_ROOT", "/tmp/linfa-verif-seed")


def sh(cmd, cwd=None, timeout=3600):
    p = subprocess.run(cmd, cwd=cwd, shell=isinstance(cmd, str), stdout=subprocess.PIPE, stderr=subprocess.STDOUT, text=True, timeout=timeout)
    return p.returncode, p.stdout


def meta_path(sid):
    return os.path.join(SEEDED, sid, "meta.json")


def load(sid):
    return json.load(open(meta_path(sid)))


def save(sid, m):
    json.dump(m, open(meta_path(sid), "w"), indent=1)


def demo_info(sid):
    head = "".join(open(os.path.join(SEEDED, sid, "demo.rs")).readlines()[:3])
    m = re.search(r"[Pp][Ll][Aa][Cc][Ee] [Aa][Tt]:\s*(\S+)", head)
    c = re.search(r"(cargo test [^\n]*?)\s*$", head, flags=re.M)
    return m.group(1), c.group(1)


def touched_crates(sid):
    crates = set()
    for l in open(os.path.join(SEEDED, sid, "patch.diff")):
        m = re.match(r"\+\+\+ b/(\S+)", l)
        if m:
            f = m.group(1)
            mm = re.match(r"algorithms/([^/]+)/", f)
            crates.add(mm.group(1) if mm else "linfa")
    return sorted(crates)


def cmd_import(root, prop, n, name=None):
    sid = "%s-%s" % (prop, name or n)
    d = os.path.join(SEEDED, sid)
    os.makedirs(d, exist_ok=True)
    for f in ("patch.diff", "demo.rs", "notes.md"):
        shutil.copy(os.path.join(root, "out", str(n), f), os.path.join(d, f))
    for extra in os.listdir(os.path.join(root, "out", str(n))):
        if extra.startswith("demo") and extra != "demo.rs":
            shutil.copy(os.path.join(root, "out", str(n), extra), os.path.join(d, extra))
    m = dict(seed_id=sid, property=prop, source="independent sub-agent given only the property text and a scratch worktree", imported=time.strftime("%Y-%m-%d %H:%M"))
    save(sid, m)
    print("imported", sid)


def ensure_wt():
    if not os.path.exists(WT):
        sh(["git", "-C", "/repo", "worktree", "add", "-q", "--detach", WT, "HEAD"])
        shutil.copy("/repo/Cargo.lock", os.path.join(WT, "Cargo.lock"))
    else:
        sh("git checkout -q -- . && git clean -fdq -e target -e Cargo.lock && git checkout -q --detach $(git -C /repo rev-parse HEAD)", cwd=WT)


def cmd_verify(sid):
    ensure_wt()
    m = load(sid)
    place, run = demo_info(sid)
    dst = os.path.join(WT, place)
    os.makedirs(os.path.dirname(dst), exist_ok=True)
    shutil.copy(os.path.join(SEEDED, sid, "demo.rs"), dst)
    rc0, out0 = sh(run, cwd=WT)
    ok_without = rc0 == 0 and "test result: ok" in out0
    rca, outa = sh(["git", "apply", os.path.join(SEEDED, sid, "patch.diff")], cwd=WT)
    rc1, out1 = sh(run, cwd=WT)
    fails_with = rc1 != 0 and ("FAILED" in out1 or "panicked" in out1) and "error[E" not in out1 and "could not compile" not in out1
    os.remove(dst)
    crates = touched_crates(sid)
    suite = {}
    for c in crates:
        rc, out = sh("cargo test --offline -p %s 2>&1" % c, cwd=WT)
        res = re.findall(r"test result: (\w+)\. (\d+) passed; (\d+) failed", out)
        suite[c] = dict(rc=rc, passed=sum(int(x[1]) for x in res), failed=sum(int(x[2]) for x in res))
    sh("git checkout -q -- . && git clean -fdq -e target -e Cargo.lock", cwd=WT)
    m.update(patch_applies=(rca == 0), demo_place=place, demo_cmd=run, demo_passes_without_change=ok_without, demo_fails_with_change=fails_with,
             existing_tests_with_change=suite, existing_tests_pass=all(v["rc"] == 0 and v["failed"] == 0 for v in suite.values()),
             verified_at=time.strftime("%Y-%m-%d %H:%M"), verified_on_commit=sh(["git", "-C", "/repo", "rev-parse", "--short", "HEAD"])[1].strip(),
             demo_failure_excerpt="\n".join(l for l in out1.splitlines() if "panicked" in l or "assert" in l)[:600])
    m["confirmed"] = bool(m["patch_applies"] and ok_without and fails_with and m["existing_tests_pass"])
    save(sid, m)
    print(sid, "confirmed" if m["confirmed"] else "NOT CONFIRMED", dict(applies=rca == 0, passes_without=ok_without, fails_with=fails_with, suite=suite))


def cmd_check(sid, tier="quick", where="repo", only=None):
    """where=repo: apply to /repo, run, undo (the brief's recipe).  where=worktree: apply to a scratch worktree of /repo's HEAD and point the
    checks at it with VERIF_REPO - same code under check, but /repo is never touched (safe while another pass is reading /repo)."""
    m = load(sid)
    prop = m["property"]
    rc, out = sh(["git", "-C", "/repo", "status", "--porcelain", "--untracked-files=no"])
    if out.strip():
        print("refusing: /repo has uncommitted changes")
        return
    os.environ["VERIF_EVIDENCE_DIR"] = os.path.join(HERE, ".cache", "evidence-seeded")   # never clobber the committed evidence
    t0 = time.time()
    if where == "worktree":
        wt = "%s-wt-%s" % (SEEDROOT, sid)
        sh(["git", "-C", "/repo", "worktree", "remove", "--force", wt])
        sh(["git", "-C", "/repo", "worktree", "add", "--detach", wt, "HEAD"])
        try:
            rca, outa = sh(["git", "-C", wt, "apply", os.path.join(SEEDED, sid, "patch.diff")])
            if rca != 0:
                print("patch does not apply", outa)
                return
            os.environ["VERIF_REPO"] = wt
            os.environ["VERIF_STAGE_ROOT"] = SEEDROOT
            os.environ["VERIF_KANI_TARGET"] = SEEDROOT + "/kani-target"
            rc, out = sh([os.path.join(HERE, "vx"), "check", prop, "--tier", tier] + (["--only", only] if only else []), cwd=HERE, timeout=7200)
        finally:
            sh(["git", "-C", "/repo", "worktree", "remove", "--force", wt])
            shutil.rmtree("%s/%s" % (SEEDROOT, prop), ignore_errors=True)
    else:
        rca, outa = sh(["git", "-C", "/repo", "apply", os.path.join(SEEDED, sid, "patch.diff")])
        try:
            rc, out = sh([os.path.join(HERE, "vx"), "check", prop, "--tier", tier] + (["--only", only] if only else []), cwd=HERE, timeout=7200)
        finally:
            sh(["git", "-C", "/repo", "checkout", "--", "."])
    lines = [l for l in out.splitlines() if l.startswith(("VIOLATION", "UNDECIDED")) or (l.startswith("UNIT") and "discharged" not in l)]
    lines = [l for l in lines if not (l.startswith("UNIT") and any(("property=%s" % prop) in k and False for k in []))]
    m.setdefault("checks", {})[tier] = dict(only_unit=only, exit=rc, wall_s=round(time.time() - t0), lines=lines[:24], at=time.strftime("%Y-%m-%d %H:%M"),
                                            verif_commit=sh(["git", "-C", HERE, "rev-parse", "--short", "HEAD"])[1].strip())
    m["detected"] = any(v["exit"] == 1 for v in m["checks"].values())
    save(sid, m)
    print(sid, tier, "exit", rc)
    print("\n".join(lines[:12]))


def cmd_table():
    print("| seed | property | what it breaks / needs | confirmed | quick | thorough | caught by |")
    print("|---|---|---|---|---|---|---|")
    for sid in sorted(os.listdir(SEEDED)):
        if not os.path.exists(meta_path(sid)):
            continue
        m = load(sid)
        ch = m.get("checks", {})
        def ex(t):
            return {None: "-", 0: "missed", 1: "VIOLATION", 2: "undecided"}.get(ch.get(t, {}).get("exit"), "?") if t in ch else "-"
        units = sorted(set(re.sub(r"_[a-z]*_?\d.*|\.json.*", "", os.path.basename(l.split("replay=")[1].split()[0])) for t in ch.values() for l in t.get("lines", []) if l.startswith("VIOLATION")))
        print("| %s | %s | %s | %s | %s | %s | %s |" % (sid, m["property"], (m.get("summary") or "").replace("|", "\\|")[:170], "yes" if m.get("confirmed") else "no", ex("quick"), ex("thorough"), ", ".join(units)[:120]))


if __name__ == "__main__":
    a = sys.argv[1:]
    if a[0] == "import": cmd_import(*a[1:])
    elif a[0] == "verify": cmd_verify(a[1])
    elif a[0] == "check": cmd_check(*a[1:])
    elif a[0] == "table": cmd_table()
