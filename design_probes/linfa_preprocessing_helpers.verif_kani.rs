use super::*;
fn fmt_stub(_a: std::fmt::Arguments<'_>) -> String { String::new() }
#[kani::proof]
#[kani::unwind(8)]
#[kani::stub(alloc::fmt::format, fmt_stub)]
fn ngram_windows() {
    let min: usize = kani::any(); let max: usize = kani::any(); let idx: usize = kani::any();
    kani::assume(1 <= min && min <= max && max <= 3 && idx < 3);
    let l = NGramList::new(vec!["a", "b", "c"], (min, max));
    let r = l.ngram_items(idx);
    if idx + min > 3 && max != 1 { assert!(r.is_none()); }
    else {
        let items = r.unwrap();
        let hi = if max == 1 { 1 } else { usize::min(idx + max, 3) - idx };
        let lo = if max == 1 { 1 } else { min };
        assert!(items.len() == hi - lo + 1);
        assert!(items[0].len() == 2 * lo - 1);
    }
}
