use crate::permutable_kernel::Permutable;
use crate::solver_smo::{SolverParams, SolverState};
use linfa_kernel::{Kernel, KernelInner, KernelMethod};
use ndarray::Array2;

const N: usize = 3;
fn fmt_stub(_a: std::fmt::Arguments<'_>) -> String { String::new() }

struct StubKernel { k: Kernel<f32>, idx: [usize; N] }
impl Permutable<f32> for StubKernel {
    fn swap_indices(&mut self, i: usize, j: usize) { self.idx.swap(i, j); }
    fn distances(&self, _idx: usize, length: usize) -> Vec<f32> { vec![0.0; length] }
    fn self_distance(&self, _idx: usize) -> f32 { 1.0 }
    fn inner(&self) -> &Kernel<f32> { &self.k }
    fn into_inner(self) -> Kernel<f32> { self.k }
}

fn mk(alpha: [f32; N], bounds: [f32; N], targets: [bool; N], ds: &Array2<f32>) -> SolverState<'_, f32, StubKernel> {
    let k = Kernel { inner: KernelInner::Dense(Array2::zeros((N, N))), method: KernelMethod::Gaussian(1.0) };
    SolverState::new(
        alpha.to_vec(), vec![0.0; N], targets.to_vec(), ds.view(),
        StubKernel { k, idx: [0, 1, 2] }, bounds.to_vec(),
        SolverParams { eps: f32::INFINITY, shrinking: false }, false,
    )
}

// representation invariant: the bound looked up by position belongs to the sample stored there
#[kani::proof]
#[kani::unwind(5)]
#[kani::stub(alloc::fmt::format, fmt_stub)]
fn swap_keeps_bounds_aligned() {
    let bounds: [f32; N] = kani::any();
    let alpha: [f32; N] = kani::any();
    let targets: [bool; N] = kani::any();
    for i in 0..N { kani::assume(bounds[i].is_finite() && bounds[i] > 0.0 && alpha[i] >= 0.0 && alpha[i] <= bounds[i]); }
    let ds = Array2::zeros((N, 1));
    let mut s = mk(alpha, bounds, targets, &ds);
    let i: usize = kani::any(); let j: usize = kani::any();
    kani::assume(i < N && j < N);
    s.swap(i, j);
    // sample at position i is now original j
    assert!(s.bound(i) == bounds[j]);
    assert!(s.bound(j) == bounds[i]);
}


// write-back: after any two swaps, solve() with nothing left to optimise returns each
// sample's own alpha at the sample's original index
#[kani::proof]
#[kani::unwind(5)]
#[kani::stub(alloc::fmt::format, fmt_stub)]
fn solve_puts_back_by_original_index() {
    let alpha: [f32; N] = [1.0, 2.0, 3.0];
    let targets: [bool; N] = [true, true, true];
    let bounds = [10.0f32; N];
    let ds = Array2::zeros((N, 1));
    let mut s = mk(alpha, bounds, targets, &ds);
    let (a, b, c, d): (usize, usize, usize, usize) = kani::any();
    kani::assume(a < N && b < N && c < N && d < N);
    s.swap(a, b);
    s.swap(c, d);
    let svm = s.solve();
    for i in 0..N { assert!(svm.alpha[i] == alpha[i]); }
}
