
use crate::dataset::{Dataset, DatasetBase, Records};
use crate::error::Error;
use crate::param_guard::ParamGuard;
use crate::traits::{Fit, Predict, PredictInplace};
use crate::composing::MultiTargetModel;
use ndarray::{Array1, Array2};
fn fmt_stub(_a: std::fmt::Arguments<'_>) -> String { String::new() }

// ---------- contract witness: arbitrary per-row model ----------
struct MockModel { table: [u8; 4], fill: u8 }
static mut DEFAULT_CALLS: u32 = 0;
static mut INPLACE_CALLS: u32 = 0;
impl PredictInplace<Array2<u8>, Array1<u8>> for MockModel {
    fn predict_inplace<'a>(&'a self, x: &'a Array2<u8>, y: &mut Array1<u8>) {
        unsafe { INPLACE_CALLS += 1; }
        assert!(x.nrows() == y.len());
        for i in 0..x.nrows() { y[i] = self.table[(x[(i, 0)] & 3) as usize]; }
    }
    fn default_target(&self, x: &Array2<u8>) -> Array1<u8> {
        unsafe { DEFAULT_CALLS += 1; }
        Array1::from_elem(x.nrows(), self.fill)
    }
}

#[kani::proof]
#[kani::unwind(4)]
#[kani::stub(alloc::fmt::format, fmt_stub)]
fn blanket_predict_forms_agree() {
    let m = MockModel { table: kani::any(), fill: kani::any() };
    let r: [u8; 2] = kani::any();
    let x = Array2::from_shape_vec((2, 1), r.to_vec()).unwrap();
    let by_ref: Array1<u8> = m.predict(&x);
    assert!(by_ref[0] == m.table[(r[0] & 3) as usize] && by_ref[1] == m.table[(r[1] & 3) as usize]);
    let ds: DatasetBase<Array2<u8>, Array1<u8>> = m.predict(x.clone());
    assert!(ds.records == x);
    assert!(ds.targets == by_ref);
    let d0 = Dataset::new(x.clone(), Array1::from(vec![9u8, 9]));
    let by_ds_ref: Array1<u8> = m.predict(&d0);
    assert!(by_ds_ref == by_ref);
    unsafe { assert!(DEFAULT_CALLS == 3 && INPLACE_CALLS == 3); }
    kani::cover!(by_ref[0] != by_ref[1]);
}

struct ColModel { add: u8 }
impl PredictInplace<Array2<u8>, Array1<u8>> for ColModel {
    fn predict_inplace<'a>(&'a self, x: &'a Array2<u8>, y: &mut Array1<u8>) {
        for i in 0..x.nrows() { y[i] = x[(i, 0)].wrapping_add(self.add); }
    }
    fn default_target(&self, x: &Array2<u8>) -> Array1<u8> { Array1::zeros(x.nrows()) }
}
#[kani::proof]
#[kani::unwind(5)]
#[kani::stub(alloc::fmt::format, fmt_stub)]
fn multi_target_columns() {
    let a: u8 = kani::any(); let b: u8 = kani::any();
    let r: [u8; 3] = kani::any();
    let x = Array2::from_shape_vec((3, 1), r.to_vec()).unwrap();
    let mt: MultiTargetModel<Array2<u8>, u8> = vec![ColModel { add: a }, ColModel { add: b }].into_iter().collect();
    let y: Array2<u8> = mt.predict(&x);
    assert!(y.dim() == (3, 2));
    for i in 0..3 { assert!(y[(i, 0)] == r[i].wrapping_add(a)); assert!(y[(i, 1)] == r[i].wrapping_add(b)); }
}

// ---------- split_with_ratio, owned ----------
#[kani::proof]
#[kani::unwind(5)]
#[kani::stub(alloc::fmt::format, fmt_stub)]
fn split_owned_n3() {
    let ratio: f32 = kani::any();
    kani::assume(ratio >= 0.0 && ratio <= 1.0);
    let rec = Array2::from_shape_vec((3, 2), vec![0u8, 1, 10, 11, 20, 21]).unwrap();
    let tar = Array1::from(vec![100u8, 101, 102]);
    let w = Array1::from(vec![0.5f32, 1.5, 2.5]);
    let ds = Dataset::new(rec, tar).with_weights(w).with_feature_names(vec!["a", "b"]);
    let (d1, d2) = ds.split_with_ratio(ratio);
    let n1 = (3.0f32 * ratio).ceil() as usize;
    assert!(d1.nsamples() == n1 && d2.nsamples() == 3 - n1);
    for i in 0..3 {
        let (d, j) = if i < n1 { (&d1, i) } else { (&d2, i - n1) };
        assert!(d.records[(j, 0)] == (10 * i) as u8 && d.records[(j, 1)] == (10 * i + 1) as u8);
        assert!(d.targets[j] == 100 + i as u8);
        assert!(d.weights[j] == 0.5 + i as f32);
    }
    assert!(d1.feature_names().len() == 2 && d2.feature_names().len() == 2);
    kani::cover!(n1 == 2);
}

// ---------- blanket Fit on an unchecked builder ----------
#[derive(Debug)]
struct MockErr;
impl std::fmt::Display for MockErr { fn fmt(&self, _f: &mut std::fmt::Formatter<'_>) -> std::fmt::Result { Ok(()) } }
impl std::error::Error for MockErr {}
#[derive(Debug)]
enum FitErr { Param, Base }
impl std::fmt::Display for FitErr { fn fmt(&self, _f: &mut std::fmt::Formatter<'_>) -> std::fmt::Result { Ok(()) } }
impl std::error::Error for FitErr {}
impl From<Error> for FitErr { fn from(_e: Error) -> Self { FitErr::Base } }
impl From<MockErr> for FitErr { fn from(_e: MockErr) -> Self { FitErr::Param } }
struct Checked { v: u8 }
struct Unchecked { ok: bool, c: Checked }
static mut FIT_CALLED: bool = false;
impl ParamGuard for Unchecked {
    type Checked = Checked; type Error = MockErr;
    fn check_ref(&self) -> Result<&Checked, MockErr> { if self.ok { Ok(&self.c) } else { Err(MockErr) } }
    fn check(self) -> Result<Checked, MockErr> { if self.ok { Ok(self.c) } else { Err(MockErr) } }
}
impl Fit<Array2<u8>, Array1<u8>, FitErr> for Checked {
    type Object = u8;
    fn fit(&self, _d: &DatasetBase<Array2<u8>, Array1<u8>>) -> Result<u8, FitErr> { unsafe { FIT_CALLED = true; } Ok(self.v) }
}
#[kani::proof]
#[kani::unwind(4)]
#[kani::stub(alloc::fmt::format, fmt_stub)]
fn blanket_fit_checks_first() {
    let p = Unchecked { ok: kani::any(), c: Checked { v: kani::any() } };
    let ds = Dataset::new(Array2::from_shape_vec((1, 1), vec![1u8]).unwrap(), Array1::from(vec![2u8]));
    let r = p.fit(&ds);
    if p.ok { assert!(matches!(r, Ok(v) if v == p.c.v)); unsafe { assert!(FIT_CALLED); } }
    else { assert!(matches!(r, Err(FitErr::Param))); unsafe { assert!(!FIT_CALLED); } }
    kani::cover!(p.ok); kani::cover!(!p.ok);
}

// ---------- batch 3 ----------
use crate::composing::MultiClassModel;
use crate::dataset::Pr;

#[kani::proof]
#[kani::unwind(8)]
#[kani::stub(alloc::fmt::format, fmt_stub)]
fn fold_partitions_n4_k2() {
    let v: [u8; 4] = kani::any();
    let rec = Array2::from_shape_vec((4, 1), v.to_vec()).unwrap();
    let tar = Array1::from(vec![10u8, 11, 12, 13]);
    let ds = Dataset::new(rec, tar);
    let folds = ds.fold(2);
    assert!(folds.len() == 2);
    // fold 0: validation rows 0,1 ; training rows 2,3
    let (tr, va) = (&folds[0].0, &folds[0].1);
    assert!(va.records[(0, 0)] == v[0] && va.records[(1, 0)] == v[1] && va.targets[0] == 10 && va.targets[1] == 11);
    assert!(tr.records[(0, 0)] == v[2] && tr.records[(1, 0)] == v[3] && tr.targets[0] == 12 && tr.targets[1] == 13);
    let (tr, va) = (&folds[1].0, &folds[1].1);
    assert!(va.records[(0, 0)] == v[2] && va.records[(1, 0)] == v[3] && va.targets[0] == 12);
    assert!(tr.records[(0, 0)] == v[0] && tr.records[(1, 0)] == v[1] && tr.targets[1] == 11);
}

#[kani::proof]
#[kani::unwind(6)]
#[kani::stub(alloc::fmt::format, fmt_stub)]
fn feature_iter_keeps_names() {
    let v: [u8; 4] = kani::any();
    let rec = Array2::from_shape_vec((2, 2), v.to_vec()).unwrap();
    let tar = Array1::from(vec![7u8, 8]);
    let ds = Dataset::new(rec, tar).with_feature_names(vec!["a", "b"]);
    let mut it = ds.feature_iter();
    let f0 = it.next().unwrap();
    let f1 = it.next().unwrap();
    assert!(it.next().is_none());
    assert!(f0.records.dim() == (2, 1) && f0.records[(0, 0)] == v[0] && f0.records[(1, 0)] == v[2]);
    assert!(f1.records[(0, 0)] == v[1] && f1.records[(1, 0)] == v[3]);
    assert!(f0.feature_names().len() == 1 && f0.feature_names()[0] == "a" && f1.feature_names()[0] == "b");
    assert!(f1.targets[0] == 7 && f1.targets[1] == 8);
}

struct PrModel { p: [f32; 2] }
impl PredictInplace<Array2<u8>, Array1<Pr>> for PrModel {
    fn predict_inplace<'a>(&'a self, x: &'a Array2<u8>, y: &mut Array1<Pr>) {
        for i in 0..x.nrows() { y[i] = Pr::new_unchecked(self.p[i]); }
    }
    fn default_target(&self, x: &Array2<u8>) -> Array1<Pr> { Array1::default(x.nrows()) }
}
#[kani::proof]
#[kani::unwind(6)]
#[kani::stub(alloc::fmt::format, fmt_stub)]
fn multi_class_argmax() {
    let pa: [f32; 2] = kani::any(); let pb: [f32; 2] = kani::any(); let pc: [f32; 2] = kani::any();
    for i in 0..2 { kani::assume(pa[i] >= 0.0 && pa[i] <= 1.0 && pb[i] >= 0.0 && pb[i] <= 1.0 && pc[i] >= 0.0 && pc[i] <= 1.0); }
    let x = Array2::from_shape_vec((2, 1), vec![0u8, 1]).unwrap();
    let mc: MultiClassModel<Array2<u8>, u8> = vec![(1u8, PrModel { p: pa }), (2u8, PrModel { p: pb }), (3u8, PrModel { p: pc })].into_iter().collect();
    let y: Array1<u8> = mc.predict(&x);
    for i in 0..2 {
        let best = pa[i].max(pb[i]).max(pc[i]);
        let got = if y[i] == 1 { pa[i] } else if y[i] == 2 { pb[i] } else { pc[i] };
        assert!(y[i] >= 1 && y[i] <= 3 && got == best);
    }
}

// ---------- batch 4: cross_validate_single with mock estimator ----------
use ndarray::{ArrayView1, ArrayView2};
struct CvParams { bias: u8 }
struct CvModel { bias: u8 }
impl<'a> Fit<ArrayView2<'a, u8>, ArrayView1<'a, u8>, Error> for CvParams {
    type Object = CvModel;
    fn fit(&self, _d: &DatasetBase<ArrayView2<'a, u8>, ArrayView1<'a, u8>>) -> Result<CvModel, Error> { Ok(CvModel { bias: self.bias }) }
}
impl<'a> PredictInplace<ArrayView2<'a, u8>, Array1<u8>> for CvModel {
    fn predict_inplace<'b>(&'b self, x: &'b ArrayView2<'a, u8>, y: &mut Array1<u8>) {
        for i in 0..x.nrows() { y[i] = x[(i, 0)].wrapping_add(self.bias); }
    }
    fn default_target(&self, x: &ArrayView2<'a, u8>) -> Array1<u8> { Array1::zeros(x.nrows()) }
}
#[kani::proof]
#[kani::unwind(8)]
#[kani::stub(alloc::fmt::format, fmt_stub)]
fn cross_validate_is_mean_of_folds() {
    let v: [u8; 4] = kani::any();
    for i in 0..4 { kani::assume(v[i] < 8); }
    let rec = Array2::from_shape_vec((4, 1), v.to_vec()).unwrap();
    let tar = Array1::from(v.to_vec());
    let mut ds = Dataset::new(rec.clone(), tar);
    let models = vec![CvParams { bias: 0 }, CvParams { bias: 1 }];
    // eval: sum of predictions of the fold (small integers, exact in f32)
    let r: Array1<f32> = ds.cross_validate_single(2, &models, |pred, _truth| Ok(pred.iter().map(|p| *p as f32).sum::<f32>())).unwrap();
    let f0 = (v[0] + v[1]) as f32; let f1 = (v[2] + v[3]) as f32;
    assert!(r[0] == (f0 + f1) / 2.0);
    assert!(r[1] == ((f0 + 2.0) + (f1 + 2.0)) / 2.0);
    assert!(ds.records == rec);
}

// ---------- batch 5 ----------
use crate::metrics_regression::SingleTargetRegression;
#[kani::proof]
#[kani::unwind(6)]
#[kani::stub(alloc::fmt::format, fmt_stub)]
fn explained_variance_textbook() {
    let a: [i8; 2] = kani::any(); let b: [i8; 2] = kani::any();
    for i in 0..2 { kani::assume(a[i] >= -4 && a[i] <= 4 && b[i] >= -4 && b[i] <= 4); }
    kani::assume(b[0] != b[1]);
    let pred = Array1::from(vec![a[0] as f32, a[1] as f32]);
    let truth = Array1::from(vec![b[0] as f32, b[1] as f32]);
    let ev: f32 = pred.explained_variance(&truth).unwrap();
    // textbook: 1 - Var(pred - truth) / Var(truth), population variances; n = 2 so everything is exact in quarters
    let d0 = (a[0] - b[0]) as f32; let d1 = (a[1] - b[1]) as f32;
    let md = (d0 + d1) / 2.0;
    let var_d = ((d0 - md) * (d0 - md) + (d1 - md) * (d1 - md)) / 2.0;
    let mb = (b[0] as f32 + b[1] as f32) / 2.0;
    let var_b = ((b[0] as f32 - mb) * (b[0] as f32 - mb) + (b[1] as f32 - mb) * (b[1] as f32 - mb)) / 2.0;
    let want = 1.0 - var_d / var_b;
    assert!((ev - want).abs() <= 1.0e-3);
}

#[kani::proof]
#[kani::unwind(6)]
#[kani::stub(alloc::fmt::format, fmt_stub)]
fn split_view_and_sample_iter() {
    let ratio: f32 = kani::any();
    kani::assume(ratio >= 0.0 && ratio <= 1.0);
    let rec = Array2::from_shape_vec((3, 1), vec![0u8, 10, 20]).unwrap();
    let tar = Array1::from(vec![100u8, 101, 102]);
    let ds = Dataset::new(rec, tar).with_weights(Array1::from(vec![0.5f32, 1.5, 2.5]));
    let v = ds.view();
    let (d1, d2) = v.split_with_ratio(ratio);
    let n1 = (3.0f32 * ratio).ceil() as usize;
    assert!(d1.nsamples() == n1 && d2.nsamples() == 3 - n1);
    for i in 0..3 {
        let (d, j) = if i < n1 { (&d1, i) } else { (&d2, i - n1) };
        assert!(d.records[(j, 0)] == (10 * i) as u8 && d.targets[j] == 100 + i as u8 && d.weights[j] == 0.5 + i as f32);
    }
    let mut k = 0usize;
    for (x, y) in ds.sample_iter() { assert!(x[0] == (10 * k) as u8 && *y.into_scalar() == 100 + k as u8); k += 1; }
    assert!(k == 3);
}
