use vstd::prelude::*;
use vstd::multiset::Multiset;
verus! {
pub open spec fn swap_blocks<T>(s: Seq<T>, start: int, w: int) -> Seq<T> {
    Seq::new(s.len(), |p: int|
        if 0 <= p < w { s[start + p] }
        else if start <= p < start + w { s[p - start] }
        else { s[p] })
}

// involution: swapping twice restores the buffer (start >= w: blocks do not overlap)
proof fn lemma_swap_involution<T>(s: Seq<T>, start: int, w: int)
    requires 0 <= w <= start, start + w <= s.len(),
    ensures swap_blocks(swap_blocks(s, start, w), start, w) =~= s,
{
}

// prologue of iter_fold, verbatim statements
fn iter_fold_prologue(k: usize, samples_count: usize) -> (fold_size: usize)
    ensures 1 <= k <= samples_count, fold_size == samples_count / k, fold_size >= 1,
            forall|i: int| 0 <= i < k ==> #[trigger] (fold_size * (i + 1)) <= samples_count,
{
    assert(k > 0) by { assume(k > 0); }            // stands for `assert!(k > 0);` (panics otherwise)
    assert(k <= samples_count) by { assume(k <= samples_count); }
    let fold_size = samples_count / k;
    proof {
        assert(fold_size >= 1) by (nonlinear_arith) requires k >= 1, samples_count >= k, fold_size == samples_count / k;
        assert forall|i: int| 0 <= i < k implies #[trigger] (fold_size * (i + 1)) <= samples_count by {
            assert(fold_size * (i + 1) <= fold_size * k) by (nonlinear_arith) requires 0 <= i < k, fold_size >= 0;
            assert(fold_size * k <= samples_count) by (nonlinear_arith) requires k >= 1, fold_size == samples_count / k;
        }
    }
    fold_size
}
} // verus!
fn main() {}
