
use super::*;
use ndarray::{array, Array1};
fn fmt_stub(_a: std::fmt::Arguments<'_>) -> String { String::new() }
#[kani::proof]
#[kani::unwind(5)]
#[kani::stub(alloc::fmt::format, fmt_stub)]
fn cm_binary_scores() {
    let c: [u8; 4] = kani::any();
    for i in 0..4 { kani::assume(c[i] <= 15); }
    kani::assume(c[0] as u32 + c[2] as u32 > 0 && c[0] as u32 + c[1] as u32 > 0);
    let (tp, fp, fnn, tn) = (c[0] as f32, c[1] as f32, c[2] as f32, c[3] as f32);
    let cm = ConfusionMatrix { matrix: array![[tp, fp], [fnn, tn]], members: Array1::from(vec![true, false]) };
    // documented: precision = TP / (TP + FN-row-0?) -- taken from the doc comment: true-label-1 / (true-label-1 + false-label-1)
    assert!(cm.precision() == tp / (tp + fnn));
    assert!(cm.recall() == tp / (tp + fp));
    assert!(cm.accuracy() == (tp + tn) / (tp + fp + fnn + tn));
    kani::cover!(cm.accuracy() == 0.5);
}
