use super::*;
use ndarray::Array1;
fn fmt_stub(_a: std::fmt::Arguments<'_>) -> String { String::new() }
#[kani::proof]
#[kani::unwind(5)]
#[kani::stub(alloc::fmt::format, fmt_stub)]
fn prediction_follows_split() {
    let leaf = |p: usize, d: usize| TreeNode::<f32, usize>::empty_leaf(p, d);
    let split: f32 = kani::any(); let x: f32 = kani::any(); let (a, b): (usize, usize) = kani::any();
    kani::assume(split.is_finite() && x.is_finite());
    let root = TreeNode { feature_idx: 0, feature_name: String::new(), split_value: split, impurity_decrease: 0.0f32,
        left_child: Some(Box::new(leaf(a, 1))), right_child: Some(Box::new(leaf(b, 1))), leaf_node: false, prediction: 0usize, depth: 0 };
    let row = Array1::from(vec![x]);
    let p = make_prediction(&row, &root);
    assert!(p == if x < split { a } else { b });
}

#[kani::proof]
#[kani::unwind(5)]
#[kani::stub(alloc::fmt::format, fmt_stub)]
fn prune_merges_equal_leaves_only() {
    let leaf = |p: usize, d: usize| TreeNode::<f32, usize>::empty_leaf(p, d);
    let (a, b): (usize, usize) = kani::any(); let split: f32 = kani::any(); let x: f32 = kani::any();
    kani::assume(split.is_finite() && x.is_finite() && a < 4 && b < 4);
    let mut root = TreeNode { feature_idx: 0, feature_name: String::new(), split_value: split, impurity_decrease: 0.0f32,
        left_child: Some(Box::new(leaf(a, 1))), right_child: Some(Box::new(leaf(b, 1))), leaf_node: false, prediction: 7usize, depth: 0 };
    let row = Array1::from(vec![x]);
    let before = make_prediction(&row, &root);
    root.prune();
    let after = make_prediction(&row, &root);
    assert!(before == after);
    assert!(root.is_leaf() == (a == b));
    if !root.is_leaf() { assert!(root.left_child.is_some() && root.right_child.is_some()); }
}
