#[cfg(kani)]
extern crate alloc;
#[cfg(kani)]
mod proofs {
    use linfa::prelude::*;
    use ndarray::Array1;
    fn fmt_stub(_a: std::fmt::Arguments<'_>) -> String { String::new() }

    // ROC on 3 symbolic scores
    #[kani::proof]
    #[kani::unwind(4)]
    #[kani::stub(alloc::fmt::format, fmt_stub)]
    fn roc3() {
        let s: [f32; 2] = kani::any();
        let y: [bool; 2] = [true, false];
        for i in 0..2 { kani::assume(s[i] >= 0.0 && s[i] <= 1.0); }
        let pr: Vec<Pr> = s.iter().map(|v| Pr::new(*v)).collect();
        let roc = pr.as_slice().roc(&y[..]).unwrap();
        let c = roc.get_curve();
        assert!(c[0] == (0.0, 0.0));
        assert!(c[c.len() - 1] == (1.0, 1.0));
    }

    // regression metrics on 3 small-integer floats
    #[kani::proof]
    #[kani::unwind(6)]
    #[kani::stub(alloc::fmt::format, fmt_stub)]
    fn ev3() {
        let a: [i8; 3] = kani::any();
        let b: [i8; 3] = kani::any();
        for i in 0..3 { kani::assume(a[i].abs() <= 4 && b[i].abs() <= 4); }
        kani::assume(!(b[0] == b[1] && b[1] == b[2]));
        let pa = Array1::from(vec![a[0] as f32, a[1] as f32, a[2] as f32]);
        let ta = Array1::from(vec![b[0] as f32, b[1] as f32, b[2] as f32]);
        let mse = pa.mean_squared_error(&ta).unwrap();
        let want = (((a[0]-b[0]) as i32).pow(2) + ((a[1]-b[1]) as i32).pow(2) + ((a[2]-b[2]) as i32).pow(2)) as f32 / 3.0;
        assert!(mse == want);
        let mx = pa.max_error(&ta).unwrap();
        let w2 = ((a[0]-b[0]).abs().max((a[1]-b[1]).abs()).max((a[2]-b[2]).abs())) as f32;
        assert!(mx == w2);
    }
}
