use vstd::prelude::*;
verus! {
pub assume_specification<T> [ <[T]>::swap_with_slice ] (a: &mut [T], b: &mut [T])
    requires old(a)@.len() == old(b)@.len(),
    ensures final(a)@ == old(b)@, final(b)@ == old(a)@;

// spec: sequence with block `idx` and block 0 (each `w` long) exchanged
pub open spec fn swap_blocks<T>(s: Seq<T>, start: int, w: int) -> Seq<T> {
    Seq::new(s.len(), |p: int|
        if 0 <= p < w { s[start + p] }
        else if start <= p < start + w { s[p - start] }
        else { s[p] })
}

proof fn lemma_mul_bounds(fs: int, f: int, i: int, len: int)
    requires 0 <= fs, 0 <= f, 1 <= i, fs * f * (i + 1) <= len,
    ensures fs * f >= 0, fs * f <= len, (fs * f) * i <= len, (fs * f) * i >= fs * f, (fs * f) * i + fs * f <= len,
{
    assert(fs * f >= 0) by (nonlinear_arith) requires 0 <= fs, 0 <= f;
    assert((fs * f) * i >= fs * f) by (nonlinear_arith) requires fs * f >= 0, i >= 1;
    assert((fs * f) * i + fs * f == fs * f * (i + 1)) by (nonlinear_arith);
}

fn assist_swap(slice: &mut [u64], index: usize, fold_size: usize, features: usize)
    requires fold_size * features * (index + 1) <= old(slice)@.len(),
    ensures
        final(slice)@.len() == old(slice)@.len(),
        index != 0 ==> final(slice)@ =~= swap_blocks(old(slice)@, (fold_size * features * index) as int, (fold_size * features) as int),
        index == 0 ==> final(slice)@ == old(slice)@,
{
    if index != 0 {
        let ghost_len = slice.len();
        proof { lemma_mul_bounds(fold_size as int, features as int, index as int, slice@.len() as int); }
        let adj_fold_size = fold_size * features;
        let start = adj_fold_size * index;
        let (first_s, second_s) = slice.split_at_mut(start);
        let (mut fold, _) = second_s.split_at_mut(adj_fold_size);
        first_s[..fold_size * features].swap_with_slice(&mut fold);
    }
}
} // verus!
fn main() {}
