use super::*;
use ndarray::{Array1, Array2};
fn fmt_stub(_a: std::fmt::Arguments<'_>) -> String { String::new() }
#[kani::proof]
#[kani::unwind(6)]
#[kani::stub(alloc::fmt::format, fmt_stub)]
fn standard_transform_rowwise() {
    let o: i8 = kani::any(); let sc: i8 = kani::any(); let x: [i8; 2] = kani::any();
    kani::assume(o.abs() <= 8 && o > -100 && sc >= 1 && sc <= 4); for i in 0..2 { kani::assume(x[i] >= -8 && x[i] <= 8); }
    let s = LinearScaler { offsets: Array1::from(vec![o as f32]), scales: Array1::from(vec![sc as f32]), method: ScalingMethod::Standard(true, true) };
    let m = Array2::from_shape_vec((2, 1), vec![x[0] as f32, x[1] as f32]).unwrap();
    let y = s.transform(m);
    for i in 0..2 { assert!(y[(i, 0)] == ((x[i] as i32 - o as i32) * sc as i32) as f32); }
}
#[kani::proof]
#[kani::unwind(6)]
#[kani::stub(alloc::fmt::format, fmt_stub)]
fn norm_scaler_zero_row_finite() {
    let a: f32 = kani::any(); let b: f32 = kani::any();
    kani::assume(a.is_finite() && b.is_finite() && a.abs() < 1000.0 && b.abs() < 1000.0);
    let m = Array2::from_shape_vec((1, 2), vec![a, b]).unwrap();
    let y = crate::norm_scaling::NormScaler::max().transform(m);
    assert!(y[(0, 0)].is_finite() && y[(0, 1)].is_finite());
}

#[kani::proof]
#[kani::unwind(6)]
#[kani::stub(alloc::fmt::format, fmt_stub)]
fn min_max_fit_offsets_scales() {
    let x: [i8; 3] = kani::any();
    for i in 0..3 { kani::assume(x[i] >= -8 && x[i] <= 8); }
    let m = Array2::from_shape_vec((3, 1), vec![x[0] as f32, x[1] as f32, x[2] as f32]).unwrap();
    let sc = ScalingMethod::<f32>::MinMax(0.0, 1.0).fit(&m).unwrap();
    let lo = x[0].min(x[1]).min(x[2]); let hi = x[0].max(x[1]).max(x[2]);
    assert!(sc.offsets()[0] == lo as f32);
    if hi == lo { assert!(sc.scales()[0] == 1.0); } else { assert!(sc.scales()[0] == 1.0 / ((hi - lo) as f32)); }
    let y = sc.transform(m);
    if hi != lo { let mut saw0 = false; let mut saw1 = false; for i in 0..3 { if x[i] == lo { saw0 = y[(i,0)] == 0.0; } if x[i] == hi { saw1 = (y[(i,0)] - 1.0).abs() <= 1.0e-6; } } assert!(saw0 && saw1); }
}
