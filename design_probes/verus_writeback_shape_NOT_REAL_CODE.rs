use vstd::prelude::*;
verus! {
// active_set[pos] = original index of the sample now stored at position pos (permutation of 0..n)
pub open spec fn is_perm(a: Seq<usize>) -> bool {
    (forall|i: int| 0 <= i < a.len() ==> (a[i] as int) < a.len())
    && (forall|i: int, j: int| 0 <= i < j < a.len() ==> a[i] != a[j])
}
// code under contract (shape of `solve`'s "put back the solution"): out[i] = alpha[active_set[i]]
fn put_back(alpha: &Vec<u64>, active_set: &Vec<usize>) -> (out: Vec<u64>)
    requires alpha@.len() == active_set@.len(), is_perm(active_set@),
    ensures out@.len() == alpha@.len(),
        // property: the value at solver position pos belongs to original sample active_set[pos]
        forall|pos: int| 0 <= pos < alpha@.len() ==> out@[active_set@[pos] as int] == alpha@[pos],
{
    let mut out: Vec<u64> = Vec::new();
    let mut i: usize = 0;
    while i < alpha.len()
        invariant i <= alpha@.len(), out@.len() == i, alpha@.len() == active_set@.len(), is_perm(active_set@),
            forall|q: int| 0 <= q < i ==> out@[q] == alpha@[active_set@[q] as int],
        decreases alpha@.len() - i,
    {
        out.push(alpha[active_set[i]]);
        i += 1;
    }
    out
}
} // verus!
fn main() {}
