
use super::*;
use linfa::{Float, ParamGuard};
use linfa_nn::{distance::{Distance, L2Dist}, BuildError, NearestNeighbour, NearestNeighbourIndex, NnError};
use ndarray::{Array1, Array2, ArrayBase, ArrayView1, ArrayView2, Data, Ix2};
fn fmt_stub(_a: std::fmt::Arguments<'_>) -> String { String::new() }
const N: usize = 3;
#[derive(Debug, Clone)]
struct GraphNN { adj: [[bool; N]; N] }
struct GraphIdx<'a, F: Float> { adj: [[bool; N]; N], batch: ArrayView2<'a, F> }
impl NearestNeighbour for GraphNN {
    fn from_batch_with_leaf_size<'a, F: Float, DT: Data<Elem = F>, D: 'a + Distance<F>>(
        &self, batch: &'a ArrayBase<DT, Ix2>, _leaf: usize, _d: D,
    ) -> Result<Box<dyn 'a + Send + Sync + NearestNeighbourIndex<F>>, BuildError> {
        Ok(Box::new(GraphIdx { adj: self.adj, batch: batch.view() }))
    }
}
impl<'a, F: Float> NearestNeighbourIndex<F> for GraphIdx<'a, F> {
    fn k_nearest(&self, _p: ArrayView1<'_, F>, _k: usize) -> Result<Vec<(ArrayView1<F>, usize)>, NnError> { unreachable!() }
    fn within_range(&self, p: ArrayView1<'_, F>, _r: F) -> Result<Vec<(ArrayView1<F>, usize)>, NnError> {
        let idx: usize = p[0].to_usize().unwrap();
        let mut out = Vec::new();
        for j in 0..N { if self.adj[idx][j] { out.push((self.batch.row(j), j)); } }
        Ok(out)
    }
}
#[kani::proof]
#[kani::unwind(5)]
#[kani::stub(alloc::fmt::format, fmt_stub)]
fn find_neighbors_counts_self() {
    let mut adj: [[bool; N]; N] = kani::any();
    for i in 0..N { adj[i][i] = true; }
    let labelled: [bool; N] = kani::any();
    let idx: usize = kani::any();
    kani::assume(idx < N);
    let obs = Array2::from_shape_vec((N, 1), vec![0.0f32, 1.0, 2.0]).unwrap();
    let nnb = GraphNN { adj };
    let params = Dbscan::params_with::<f32, _, _>(2, L2Dist, nnb.clone()).tolerance(1.0).check().unwrap();
    let nn = nnb.from_batch(&obs, L2Dist).unwrap();
    let clusters: Array1<Option<usize>> = Array1::from(vec![
        if labelled[0] { Some(0) } else { None }, if labelled[1] { Some(0) } else { None }, if labelled[2] { Some(0) } else { None }]);
    let (count, list) = params.find_neighbors(&*nn, idx, &obs, 1.0, &clusters);
    let deg = (0..N).filter(|&j| adj[idx][j]).count();
    assert!(count == deg);
    for j in 0..N {
        let want = adj[idx][j] && !labelled[j] && j != idx;
        assert!(list.contains(&j) == want);
    }
    kani::cover!(count == 3 && list.len() == 1);
}
