use super::*;
use ndarray::Array1;
fn fmt_stub(_a: std::fmt::Arguments<'_>) -> String { String::new() }
fn exp_model(x: f32) -> f32 {
    let r: f32 = kani::any();
    kani::assume(!r.is_nan() && r >= 0.0);
    if x <= 0.0 { kani::assume(r <= 1.0); }
    if x >= 0.0 { kani::assume(r >= 1.0); }
    if x == 0.0 { kani::assume(r == 1.0); }
    r
}
#[kani::proof]
#[kani::unwind(5)]
#[kani::stub(alloc::fmt::format, fmt_stub)]
#[kani::stub(f32::exp, exp_model)]
fn softmax_entries_are_probabilities() {
    let a: f32 = kani::any(); let b: f32 = kani::any();
    kani::assume(a.is_finite() && b.is_finite() && a.abs() < 1.0e3 && b.abs() < 1.0e3);
    let mut v = Array1::from(vec![a, b]);
    softmax_inplace(&mut v);
    assert!(v[0] >= 0.0 && v[0] <= 1.0 && v[1] >= 0.0 && v[1] <= 1.0);
}
