#[cfg(kani)]
extern crate alloc;
#[cfg(kani)]
mod proofs {
    use linfa::ParamGuard;
    use linfa::composing::platt_scaling::{Platt, PlattParams};
    use linfa_svm::Svm;
    use linfa_preprocessing::CountVectorizer;
    fn fmt_stub(_a: std::fmt::Arguments<'_>) -> String { String::new() }

    #[kani::proof]
    #[kani::stub(alloc::fmt::format, fmt_stub)]
    fn svm_check_iff() {
        let eps: f32 = kani::any(); let cp: f32 = kani::any(); let cn: f32 = kani::any(); let nu: f32 = kani::any();
        let use_nu: bool = kani::any();
        let maxiter: usize = kani::any(); let minstep: f32 = kani::any(); let sigma: f32 = kani::any();
        kani::assume(eps.is_finite() && cp.is_finite() && cn.is_finite() && nu.is_finite() && minstep.is_finite() && sigma.is_finite());
        // -0.0 is an unchecked corner (see DESIGN C04)
        kani::assume(!(eps == 0.0 && eps.is_sign_negative()) && !(minstep == 0.0 && minstep.is_sign_negative()) && !(sigma == 0.0 && sigma.is_sign_negative()));
        let platt: PlattParams<f32, ()> = Platt::params().maxiter(maxiter).minstep(minstep).sigma(sigma);
        let p = Svm::<f32, bool>::params().eps(eps).with_platt_params(platt);
        let p = if use_nu { p.nu_weight(nu) } else { p.pos_neg_weights(cp, cn) };
        let ok = p.check_ref().is_ok();
        let platt_ok = maxiter >= 1 && minstep >= 0.0 && sigma >= 0.0;
        let own_ok = eps >= 0.0 && if use_nu { nu > 0.0 && nu <= 1.0 } else { cp > 0.0 && cn > 0.0 };
        assert!(ok == (platt_ok && own_ok));
        kani::cover!(ok); kani::cover!(!ok);
    }

    static mut REGEX_REACHED: bool = false;
    fn regex_stub(_re: &str) -> Result<regex::Regex, regex::Error> {
        unsafe { REGEX_REACHED = true; }
        Err(regex::Error::Syntax(String::new()))
    }
    #[kani::proof]
    #[kani::unwind(12)]
    #[kani::stub(alloc::fmt::format, fmt_stub)]
    #[kani::stub(regex::Regex::new, regex_stub)]
    fn countvectorizer_guards() {
        let lo: usize = kani::any(); let hi: usize = kani::any(); let fmin: f32 = kani::any(); let fmax: f32 = kani::any();
        kani::assume(fmin.is_finite() && fmax.is_finite());
        let p = CountVectorizer::params().n_gram_range(lo, hi).document_frequency(fmin, fmax);
        let r = p.check_ref();
        // documented: 1 <= lo <= hi, 0 <= fmin <= fmax <= 1
        let in_range = lo >= 1 && hi >= 1 && lo <= hi && fmin >= 0.0 && fmax >= 0.0 && fmin <= 1.0 && fmax <= 1.0 && fmin <= fmax;
        assert!(r.is_err()); // the stub makes the success path return the stub's error
        unsafe { assert!(REGEX_REACHED == in_range); }
    }
}
