
use super::*;
use linfa_nn::distance::Distance;
use ndarray::{Array1, Array2, ArrayView, Dimension};
fn fmt_stub(_a: std::fmt::Arguments<'_>) -> String { String::new() }

const K: usize = 3;
// contract witness for `Distance`: answers from a symbolic table; centroid rows carry their
// index in coordinate 0, so `rdistance(centroid_i, obs)` = table[i]
#[derive(Clone)]
struct TableDist { t: [f32; K] }
impl Distance<f32> for TableDist {
    fn distance<D: Dimension>(&self, a: ArrayView<f32, D>, _b: ArrayView<f32, D>) -> f32 {
        let i = *a.iter().next().unwrap() as usize;
        self.t[i]
    }
}

#[kani::proof]
#[kani::unwind(5)]
#[kani::stub(alloc::fmt::format, fmt_stub)]
fn closest_is_argmin() {
    let t: [f32; K] = kani::any();
    for i in 0..K { kani::assume(t[i] >= 0.0 && t[i].is_finite()); }
    let cents = Array2::from_shape_vec((K, 1), vec![0.0f32, 1.0, 2.0]).unwrap();
    let obs = Array1::from(vec![7.0f32]);
    let (idx, d) = closest_centroid(&TableDist { t }, &cents, &obs);
    assert!(idx < K);
    assert!(d == t[idx]);
    for j in 0..K { assert!(t[idx] <= t[j]); if j < idx { assert!(t[j] > t[idx]); } }
    kani::cover!(idx == 2);
}

#[kani::proof]
#[kani::unwind(5)]
#[kani::stub(alloc::fmt::format, fmt_stub)]
fn centroids_are_means_with_old() {
    let x: [i8; 3] = kani::any();
    let m: [usize; 3] = kani::any();
    let c: [i8; 2] = kani::any();
    for i in 0..3 { kani::assume(x[i] >= -8 && x[i] <= 8 && m[i] < 2); }
    for i in 0..2 { kani::assume(c[i] >= -8 && c[i] <= 8); }
    let obs = Array2::from_shape_vec((3, 1), vec![x[0] as f32, x[1] as f32, x[2] as f32]).unwrap();
    let old = Array2::from_shape_vec((2, 1), vec![c[0] as f32, c[1] as f32]).unwrap();
    let mem = Array1::from(m.to_vec());
    let new = compute_centroids(&old, &obs, &mem);
    for k in 0..2 {
        let mut sum = c[k] as i32; let mut cnt = 1i32;
        for i in 0..3 { if m[i] == k { sum += x[i] as i32; cnt += 1; } }
        assert!(new[(k, 0)] == (sum as f32) / (cnt as f32));
    }
}

#[kani::proof]
#[kani::unwind(5)]
#[kani::stub(alloc::fmt::format, fmt_stub)]
fn incremental_centroid_recurrence() {
    let x: [i8; 2] = kani::any(); let c: [i8; 2] = kani::any(); let cnt: [u8; 2] = kani::any();
    for i in 0..2 { kani::assume(x[i] >= -8 && x[i] <= 8 && c[i] >= -8 && c[i] <= 8 && cnt[i] <= 3); }
    let obs = Array2::from_shape_vec((2, 1), vec![x[0] as f32, x[1] as f32]).unwrap();
    let old = Array2::from_shape_vec((2, 1), vec![c[0] as f32, c[1] as f32]).unwrap();
    let mem = Array1::from(vec![0usize, 0usize]);
    let mut counts = Array1::from(vec![cnt[0] as f32, cnt[1] as f32]);
    let new = compute_centroids_incremental(&obs, &mem, &old, &mut counts);
    assert!(counts[0] == cnt[0] as f32 + 2.0 && counts[1] == cnt[1] as f32);
    assert!(new[(1, 0)] == c[1] as f32);
    let c1 = c[0] as f32 + (x[0] as f32 - c[0] as f32) / (cnt[0] as f32 + 1.0);
    let c2 = c1 + (x[1] as f32 - c1) / (cnt[0] as f32 + 2.0);
    assert!(new[(0, 0)] == c2);
}
