use crate::permutable_kernel::Permutable;
use super::{SolverParams, SolverState};
use linfa_kernel::{Kernel, KernelInner, KernelMethod};
use ndarray::Array2;

const N: usize = 3;
fn fmt_stub(_a: std::fmt::Arguments<'_>) -> String { String::new() }

struct StubKernel { k: Kernel<f32>, idx: [usize; N] }
impl Permutable<f32> for StubKernel {
    fn swap_indices(&mut self, i: usize, j: usize) { self.idx.swap(i, j); }
    fn distances(&self, _idx: usize, length: usize) -> Vec<f32> { vec![0.0; length] }
    fn self_distance(&self, _idx: usize) -> f32 { 1.0 }
    fn inner(&self) -> &Kernel<f32> { &self.k }
    fn into_inner(self) -> Kernel<f32> { self.k }
}

fn mk(alpha: [f32; N], bounds: [f32; N], targets: [bool; N], ds: &Array2<f32>) -> SolverState<'_, f32, StubKernel> {
    let k = Kernel { inner: KernelInner::Dense(Array2::zeros((N, N))), method: KernelMethod::Gaussian(1.0) };
    SolverState::new(
        alpha.to_vec(), vec![0.0; N], targets.to_vec(), ds.view(),
        StubKernel { k, idx: [0, 1, 2] }, bounds.to_vec(),
        SolverParams { eps: f32::INFINITY, shrinking: false }, false,
    )
}

// representation invariant: the bound looked up by position belongs to the sample stored there
#[kani::proof]
#[kani::unwind(5)]
#[kani::stub(alloc::fmt::format, fmt_stub)]
fn swap_keeps_bounds_aligned() {
    let bounds: [f32; N] = kani::any();
    let alpha: [f32; N] = kani::any();
    let targets: [bool; N] = kani::any();
    for i in 0..N { kani::assume(bounds[i].is_finite() && bounds[i] > 0.0 && alpha[i] >= 0.0 && alpha[i] <= bounds[i]); }
    let ds = Array2::zeros((N, 1));
    let mut s = mk(alpha, bounds, targets, &ds);
    let i: usize = kani::any(); let j: usize = kani::any();
    kani::assume(i < N && j < N);
    s.swap(i, j);
    // sample at position i is now original j
    assert!(s.bound(i) == bounds[j]);
    assert!(s.bound(j) == bounds[i]);
}


// write-back: after any two swaps, solve() with nothing left to optimise returns each
// sample's own alpha at the sample's original index
#[kani::proof]
#[kani::unwind(5)]
#[kani::stub(alloc::fmt::format, fmt_stub)]
fn solve_puts_back_by_original_index() {
    let alpha: [f32; N] = [1.0, 2.0, 3.0];
    let targets: [bool; N] = [true, true, true];
    let bounds = [10.0f32; N];
    let ds = Array2::zeros((N, 1));
    let mut s = mk(alpha, bounds, targets, &ds);
    let (a, b, c, d): (usize, usize, usize, usize) = kani::any();
    kani::assume(a < N && b < N && c < N && d < N);
    s.swap(a, b);
    s.swap(c, d);
    let svm = s.solve();
    for i in 0..N { assert!(svm.alpha[i] == alpha[i]); }
}

// ---------- batch 4: one SMO step keeps the pair inside its box ----------
struct TableKernel { k: Kernel<f32>, q: [[f32; 2]; 2] }
impl Permutable<f32> for TableKernel {
    fn swap_indices(&mut self, _i: usize, _j: usize) {}
    fn distances(&self, idx: usize, length: usize) -> Vec<f32> { let mut v = Vec::new(); let mut j = 0; while j < length { v.push(self.q[idx][j]); j += 1; } v }
    fn self_distance(&self, idx: usize) -> f32 { self.q[idx][idx] }
    fn inner(&self) -> &Kernel<f32> { &self.k }
    fn into_inner(self) -> Kernel<f32> { self.k }
}
#[kani::proof]
#[kani::unwind(4)]
#[kani::stub(alloc::fmt::format, fmt_stub)]
fn update_keeps_box() {
    let q00: f32 = kani::any(); let q11: f32 = kani::any(); let q01: f32 = kani::any();
    kani::assume(q00 >= 0.0 && q00 <= 4.0 && q11 >= 0.0 && q11 <= 4.0 && q01 >= -4.0 && q01 <= 4.0);
    let a: [f32; 2] = kani::any(); let b: [f32; 2] = kani::any(); let p: [f32; 2] = kani::any(); let t: [bool; 2] = kani::any();
    for i in 0..2 { kani::assume(b[i] >= 0.125 && b[i] <= 8.0 && a[i] >= 0.0 && a[i] <= b[i] && p[i] >= -4.0 && p[i] <= 4.0); }
    let ds = Array2::zeros((2, 1));
    let k = Kernel { inner: KernelInner::Dense(Array2::zeros((2, 2))), method: KernelMethod::Gaussian(1.0) };
    let mut s = SolverState::new(a.to_vec(), p.to_vec(), t.to_vec(), ds.view(),
        TableKernel { k, q: [[q00, q01], [q01, q11]] }, b.to_vec(), SolverParams { eps: 0.001, shrinking: false }, false);
    s.update((0, 1));
    let svm_alpha0 = s.alpha[0].val(); let svm_alpha1 = s.alpha[1].val();
    eprintln!("a={:?} b={:?} p={:?} t={:?} q=({},{},{}) -> {} {}", a, b, p, t, q00, q11, q01, svm_alpha0, svm_alpha1);
    assert!(svm_alpha0 >= 0.0 && svm_alpha0 <= b[0]);
    assert!(svm_alpha1 >= 0.0 && svm_alpha1 <= b[1]);
}

#[test]
fn kani_concrete_playback_update_keeps_box_17248020191604728392() {
    let concrete_vals: Vec<Vec<u8>> = vec![
        // 1.787495e-36
        vec![48, 16, 24, 4],
        // 2.465012e-32
        vec![63, 251, 255, 10],
        // -1.232595e-32
        vec![254, 255, 127, 138],
        // 6
        vec![0, 0, 192, 64],
        // 0
        vec![0, 0, 0, 0],
        // 6.375007
        vec![15, 0, 204, 64],
        // 0.375007
        vec![248, 0, 192, 62],
        // -3.124604e-30
        vec![127, 127, 125, 142],
        // -3.050638e-30
        vec![70, 127, 119, 142],
        // 1
        vec![1],
        // 0
        vec![0],
    ];
    kani::concrete_playback_run(concrete_vals, update_keeps_box);
}
