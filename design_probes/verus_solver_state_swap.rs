use vstd::prelude::*;
verus! {
pub assume_specification<T> [ <[T]>::swap ] (s: &mut [T], a: usize, b: usize)
    requires a < old(s)@.len(), b < old(s)@.len(),
    ensures final(s)@ == old(s)@.update(a as int, old(s)@[b as int]).update(b as int, old(s)@[a as int]);
// ---- extracted (types substituted: F -> u64 token type, K -> KernelV) ----
pub struct KernelV { pub kernel_indices: Vec<usize> }
impl KernelV {
    fn swap_indices(&mut self, i: usize, j: usize)
        requires i < old(self).kernel_indices@.len(), j < old(self).kernel_indices@.len(),
        ensures final(self).kernel_indices@ == old(self).kernel_indices@.update(i as int, old(self).kernel_indices@[j as int]).update(j as int, old(self).kernel_indices@[i as int]),
    {
        self.kernel_indices.swap(i, j);
    }
}
pub struct SolverStateV {
    pub gradient: Vec<u64>,
    pub gradient_fixed: Vec<u64>,
    pub alpha: Vec<u64>,
    pub active_set: Vec<usize>,
    pub p: Vec<u64>,
    pub targets: Vec<bool>,
    pub bounds: Vec<u64>,
    pub kernel: KernelV,
}
pub open spec fn sw<T>(s: Seq<T>, i: int, j: int) -> Seq<T> { s.update(i, s[j]).update(j, s[i]) }

impl SolverStateV {
    pub open spec fn wf(&self) -> bool {
        let n = self.alpha@.len();
        self.gradient@.len() == n && self.gradient_fixed@.len() == n && self.active_set@.len() == n
        && self.p@.len() == n && self.targets@.len() == n && self.bounds@.len() == n && self.kernel.kernel_indices@.len() == n
    }
    pub fn swap(&mut self, i: usize, j: usize)
        requires old(self).wf(), i < old(self).alpha@.len(), j < old(self).alpha@.len(),
        ensures final(self).wf(),
            final(self).gradient@ == sw(old(self).gradient@, i as int, j as int),
            final(self).alpha@ == sw(old(self).alpha@, i as int, j as int),
            final(self).active_set@ == sw(old(self).active_set@, i as int, j as int),
            final(self).bounds@ == sw(old(self).bounds@, i as int, j as int),
    {
        self.gradient.swap(i, j);
        self.gradient_fixed.swap(i, j);
        self.alpha.swap(i, j);
        self.p.swap(i, j);
        self.active_set.swap(i, j);
        self.kernel.swap_indices(i, j);
        self.targets.swap(i, j);
    }
}
} // verus!
fn main() {}
