
use super::*;
use ndarray::Array1;
fn fmt_stub(_a: std::fmt::Arguments<'_>) -> String { String::new() }

// ghost sqrt: uninterpreted, functional, monotone, >= 0
static mut SQ_A: [f32; 4] = [0.0; 4];
static mut SQ_R: [f32; 4] = [0.0; 4];
static mut SQ_N: usize = 0;
pub fn sqrt_ghost(x: f32) -> f32 {
    let r: f32 = kani::any();
    kani::assume(x < 0.0 || (!r.is_nan() && r >= 0.0 && r.is_finite()));
    unsafe {
        let mut i = 0;
        while i < SQ_N {
            if x == SQ_A[i] { kani::assume(r == SQ_R[i]); }
            if x <= SQ_A[i] { kani::assume(r <= SQ_R[i]); }
            if x >= SQ_A[i] { kani::assume(r >= SQ_R[i]); }
            i += 1;
        }
        if SQ_N < 4 { SQ_A[SQ_N] = x; SQ_R[SQ_N] = r; SQ_N += 1; }
    }
    r
}

#[kani::proof_for_contract(apply_proximal_to_weights)]
#[kani::unwind(6)]
#[kani::stub(f32::sqrt, sqrt_ghost)]
#[kani::stub(alloc::fmt::format, fmt_stub)]
fn prox_contract_f32() {
    let _ = apply_proximal_to_weights::<f32>(kani::any(), kani::any(), kani::any(), kani::any(), kani::any(), kani::any());
}

#[kani::proof]
#[kani::unwind(6)]
#[kani::stub_verified(apply_proximal_to_weights)]
#[kani::stub(f32::sqrt, sqrt_ghost)]
#[kani::stub(alloc::fmt::format, fmt_stub)]
fn update_recurrence_modular() {
    let z: f32 = kani::any(); let n: f32 = kani::any(); let g: f32 = kani::any(); let sg: f32 = kani::any();
    kani::assume(z.is_finite() && n.is_finite() && n >= 0.0 && g.is_finite() && sg.is_finite());
    kani::assume(z.abs() < 100.0 && n < 100.0 && g.abs() < 100.0 && sg.abs() < 100.0);
    let mut m = Ftrl { alpha: 0.5f32, beta: 1.0, l1_ratio: 0.25, l2_ratio: 0.5, z: Array1::from(vec![z]), n: Array1::from(vec![n]) };
    let w = m.get_weights()[0];
    m.update_params(Array1::from(vec![g]), Array1::from(vec![sg]));
    assert!(m.z[0] == (z + g) - sg * w);
    assert!(m.n[0] == n + g * g);
    if z.abs() <= 0.25 { assert!(w == 0.0); }
    kani::cover!(w != 0.0);
}
