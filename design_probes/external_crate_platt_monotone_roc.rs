#[cfg(kani)]
extern crate alloc;
#[cfg(kani)]
mod proofs {
    use linfa::composing::platt_scaling::platt_predict;
    use linfa::prelude::*;
    fn fmt_stub(_a: std::fmt::Arguments<'_>) -> String { String::new() }

    // ghost table: uninterpreted, functional, monotone exp
    static mut EXP_ARGS: [f32; 4] = [0.0; 4];
    static mut EXP_RES: [f32; 4] = [0.0; 4];
    static mut EXP_N: usize = 0;
    fn exp_ghost(x: f32) -> f32 {
        let r: f32 = kani::any();
        kani::assume(!r.is_nan() && r >= 0.0);
        if x <= 0.0 { kani::assume(r <= 1.0); }
        if x >= 0.0 { kani::assume(r >= 1.0); }
        if x == f32::NEG_INFINITY { kani::assume(r == 0.0); }
        unsafe {
            let mut i = 0;
            while i < EXP_N {
                if x == EXP_ARGS[i] { kani::assume(r == EXP_RES[i]); }
                if x <= EXP_ARGS[i] { kani::assume(r <= EXP_RES[i]); }
                if x >= EXP_ARGS[i] { kani::assume(r >= EXP_RES[i]); }
                i += 1;
            }
            if EXP_N < 4 { EXP_ARGS[EXP_N] = x; EXP_RES[EXP_N] = r; EXP_N += 1; }
        }
        r
    }

    #[kani::proof]
    #[kani::unwind(6)]
    #[kani::stub(f32::exp, exp_ghost)]
    #[kani::stub(alloc::fmt::format, fmt_stub)]
    fn platt_monotone() {
        let a: f32 = kani::any(); let b: f32 = kani::any();
        let x1: f32 = kani::any(); let x2: f32 = kani::any();
        kani::assume(a.is_finite() && b.is_finite() && x1.is_finite() && x2.is_finite());
        let f1 = a * x1 + b; let f2 = a * x2 + b;
        kani::assume(f1 <= f2);
        let p1 = platt_predict(x1, a, b);
        let p2 = platt_predict(x2, a, b);
        assert!(*p1 >= *p2);   // 1/(1+exp(f)) is non-increasing in f
        kani::cover!(*p1 > *p2);
    }

    #[kani::proof]
    #[kani::unwind(8)]
    #[kani::stub(alloc::fmt::format, fmt_stub)]
    fn roc_concrete_scores() {
        let s: [f32; 4] = [0.0, 0.5, 0.0, 0.5];
        let y: [bool; 4] = kani::any();
        let pos = y.iter().filter(|b| **b).count();
        kani::assume(pos >= 1 && pos <= 3);
        let pr: Vec<Pr> = s.iter().map(|v| Pr::new(*v)).collect();
        let roc = pr.as_slice().roc(&y[..]).unwrap();
        let auc = roc.area_under_curve();
        // Mann-Whitney with ties 1/2, in exact quarters/eighths
        let mut num2 = 0u32; // twice the statistic
        for i in 0..4 { for j in 0..4 { if y[i] && !y[j] { if s[i] > s[j] { num2 += 2; } else if s[i] == s[j] { num2 += 1; } } } }
        let den = (pos * (4 - pos)) as f32;
        assert!(auc == (num2 as f32) / (2.0 * den));
    }
}
