#[cfg(kani)]
extern crate alloc;
#[cfg(kani)]
mod proofs {
    use linfa::prelude::*;
    use linfa::Float;
    use linfa_clustering::Dbscan;
    use linfa_nn::{distance::{Distance, L2Dist}, BuildError, NearestNeighbour, NearestNeighbourIndex, NnError, CommonNearestNeighbour};
    use ndarray::{Array1, Array2, ArrayBase, ArrayView2, Data, Ix2};
    type Point<'a, F> = ndarray::ArrayView1<'a, F>;
    type NearestNeighbourBox<'a, F> = Box<dyn 'a + Send + Sync + NearestNeighbourIndex<F>>;
    fn fmt_stub(_a: std::fmt::Arguments<'_>) -> String { String::new() }

    #[kani::proof]
    #[kani::unwind(10)]
    #[kani::stub(alloc::fmt::format, fmt_stub)]
    fn fold_restore_symk() {
        let v: [u8; 4] = kani::any();
        let k: usize = kani::any();
        kani::assume(k >= 1 && k <= 4);
        let rec = Array2::from_shape_vec((4, 1), v.to_vec()).unwrap();
        let tar = Array1::from(v.to_vec());
        let mut ds = Dataset::new(rec, tar);
        let _ = ds.iter_fold(k, |tr| tr.nsamples()).count();
        let r = ds.records.as_slice().unwrap();
        let t = ds.targets.as_slice().unwrap();
        assert!(r[0] == v[0] && r[1] == v[1] && r[2] == v[2] && r[3] == v[3]);
        assert!(t[0] == v[0] && t[1] == v[1] && t[2] == v[2] && t[3] == v[3]);
    }

    const N: usize = 3;
    #[derive(Debug, Clone)]
    struct GraphNN { adj: [[bool; N]; N] }
    struct GraphIdx<'a, F: Float> { adj: [[bool; N]; N], batch: ArrayView2<'a, F> }
    impl NearestNeighbour for GraphNN {
        fn from_batch_with_leaf_size<'a, F: Float, DT: Data<Elem = F>, D: 'a + Distance<F>>(
            &self, batch: &'a ArrayBase<DT, Ix2>, _leaf: usize, _d: D,
        ) -> Result<NearestNeighbourBox<'a, F>, BuildError> {
            Ok(Box::new(GraphIdx { adj: self.adj, batch: batch.view() }))
        }
    }
    impl<'a, F: Float> NearestNeighbourIndex<F> for GraphIdx<'a, F> {
        fn k_nearest(&self, _p: Point<'_, F>, _k: usize) -> Result<Vec<(Point<F>, usize)>, NnError> { unreachable!() }
        fn within_range(&self, p: Point<'_, F>, _r: F) -> Result<Vec<(Point<F>, usize)>, NnError> {
            let idx: usize = p[0].to_usize().unwrap();
            let mut out = Vec::new();
            for j in 0..N { if self.adj[idx][j] { out.push((self.batch.row(j), j)); } }
            Ok(out)
        }
    }

    #[kani::proof]
    #[kani::unwind(5)]
    #[kani::stub(alloc::fmt::format, fmt_stub)]
    fn dbscan_graph() {
        let g: u8 = 5; // concrete graph code: edges (0,1),(0,2),(1,2) = bits
        let mut adj = [[false; N]; N];
        for i in 0..N { adj[i][i] = true; }
        if g & 1 != 0 { adj[0][1] = true; adj[1][0] = true; }
        if g & 2 != 0 { adj[0][2] = true; adj[2][0] = true; }
        if g & 4 != 0 { adj[1][2] = true; adj[2][1] = true; }
        let min_points: usize = 2;
        let obs = Array2::from_shape_vec((N, 1), vec![0.0f32, 1.0, 2.0]).unwrap();
        let params = Dbscan::params_with::<f32, _, _>(min_points, L2Dist, GraphNN { adj }).tolerance(1.0).check().unwrap();
        let lab = params.transform(&obs);
        let deg = |i: usize| (0..N).filter(|&j| adj[i][j]).count();
        let core = |i: usize| deg(i) >= min_points;
        for i in 0..N {
            let reach = core(i) || (0..N).any(|j| adj[i][j] && core(j));
            assert!(lab[i].is_some() == reach);
            for j in 0..N {
                if core(i) && core(j) && adj[i][j] { assert!(lab[i] == lab[j]); }
            }
            if let Some(c) = lab[i] {
                if !core(i) { assert!((0..N).any(|j| adj[i][j] && core(j) && lab[j] == Some(c))); }
            }
        }
        kani::cover!(lab[0].is_some());
    }

    fn run(kind: CommonNearestNeighbour) {
        let p: f32 = kani::any();
        let q: f32 = kani::any();
        let r: f32 = kani::any();
        kani::assume(p.is_finite() && q.is_finite() && r.is_finite() && r >= 0.0);
        kani::assume(p.abs() < 1000.0 && q.abs() < 1000.0 && r < 1000.0);
        let pts = Array2::from_shape_vec((1, 1), vec![p]).unwrap();
        let idx = kind.from_batch(&pts, L2Dist).unwrap();
        let qa = Array1::from(vec![q]);
        let res = idx.within_range(qa.view(), r).unwrap();
        let d2 = (p - q) * (p - q);
        let r2 = r * r;
        if d2 < r2 { assert!(res.len() == 1); }
        if d2 > r2 { assert!(res.len() == 0); }
        if d2 == r2 { assert!(res.len() == 0); }
    }
    #[kani::proof]
    #[kani::unwind(4)]
    #[kani::stub(alloc::fmt::format, fmt_stub)]
    fn within_linear() { run(CommonNearestNeighbour::LinearSearch) }
    #[kani::proof]
    #[kani::unwind(4)]
    #[kani::stub(alloc::fmt::format, fmt_stub)]
    fn within_kdtree() { run(CommonNearestNeighbour::KdTree) }
    #[kani::proof]
    #[kani::unwind(4)]
    #[kani::stub(alloc::fmt::format, fmt_stub)]
    fn within_balltree() { run(CommonNearestNeighbour::BallTree) }
}
