use super::*;
use ndarray::Array1;
fn fmt_stub(_a: std::fmt::Arguments<'_>) -> String { String::new() }
#[kani::proof]
#[kani::unwind(5)]
#[kani::stub(alloc::fmt::format, fmt_stub)]
fn update_is_documented_recurrence() {
    let z: f32 = kani::any(); let n: f32 = kani::any(); let g: f32 = kani::any(); let sg: f32 = kani::any();
    kani::assume(z.is_finite() && n.is_finite() && n >= 0.0 && g.is_finite() && sg.is_finite());
    kani::assume(z.abs() < 100.0 && n < 100.0 && g.abs() < 100.0 && sg.abs() < 100.0);
    let mut m = Ftrl { alpha: 0.5f32, beta: 1.0, l1_ratio: 0.25, l2_ratio: 0.5, z: Array1::from(vec![z]), n: Array1::from(vec![n]) };
    let w = apply_proximal_to_weights(z, n, 0.5f32, 1.0, 0.25, 0.5);
    m.update_params(Array1::from(vec![g]), Array1::from(vec![sg]));
    assert!(m.z[0] == (z + g) - sg * w);
    assert!(m.n[0] == n + g * g);
}
