use super::*;
use ndarray::Array2;
fn fmt_stub(_a: std::fmt::Arguments<'_>) -> String { String::new() }
#[kani::proof]
#[kani::unwind(6)]
#[kani::stub(alloc::fmt::format, fmt_stub)]
fn dense_linear_entries() {
    let v: [i8; 2] = kani::any(); for i in 0..2 { kani::assume(v[i] >= -8 && v[i] <= 8); }
    let x = Array2::from_shape_vec((2, 1), vec![v[0] as f32, v[1] as f32]).unwrap();
    let k = dense_from_fn(&x, &KernelMethod::Linear);
    for i in 0..2 { for j in 0..2 { assert!(k[(i, j)] == (v[i] as i32 * v[j] as i32) as f32); } }
}
