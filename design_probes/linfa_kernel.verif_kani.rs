use super::*;
use ndarray::Array2;
fn fmt_stub(_a: std::fmt::Arguments<'_>) -> String { String::new() }
#[kani::proof]
#[kani::unwind(6)]
#[kani::stub(alloc::fmt::format, fmt_stub)]
fn dense_linear_entries() {
    let v: [i8; 2] = kani::any(); for i in 0..2 { kani::assume(v[i] >= -8 && v[i] <= 8); }
    let x = Array2::from_shape_vec((2, 1), vec![v[0] as f32, v[1] as f32]).unwrap();
    let k = dense_from_fn(&x, &KernelMethod::Linear);
    for i in 0..2 { for j in 0..2 { assert!(k[(i, j)] == (v[i] as i32 * v[j] as i32) as f32); } }
}

#[kani::proof]
#[kani::unwind(6)]
#[kani::stub(alloc::fmt::format, fmt_stub)]
fn dense_inner_views_agree() {
    let v: [i8; 4] = kani::any(); for i in 0..4 { kani::assume(v[i] >= -8 && v[i] <= 8); }
    let m = Array2::from_shape_vec((2, 2), vec![v[0] as f32, v[1] as f32, v[2] as f32, v[3] as f32]).unwrap();
    let k: Kernel<f32> = Kernel { inner: KernelInner::Dense(m), method: KernelMethod::Linear };
    assert!(k.size() == 2);
    let s = k.sum(); assert!(s[0] == (v[0] as i32 + v[1] as i32) as f32 && s[1] == (v[2] as i32 + v[3] as i32) as f32);
    let c = k.column(1); assert!(c[0] == v[1] as f32 && c[1] == v[3] as f32);
    let d = k.diagonal(); assert!(d[0] == v[0] as f32 && d[1] == v[3] as f32);
    let u = k.to_upper_triangle(); assert!(u.len() == 1 && u[0] == v[1] as f32);
}
