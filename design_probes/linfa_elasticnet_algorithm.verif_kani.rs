use super::*;
use ndarray::{Array1, Array2};
fn fmt_stub(_a: std::fmt::Arguments<'_>) -> String { String::new() }
#[kani::proof]
#[kani::unwind(5)]
#[kani::stub(alloc::fmt::format, fmt_stub)]
fn lasso_zero_under_threshold() {
    let x: [i8; 2] = kani::any(); let y: [i8; 2] = kani::any(); let pen: u8 = kani::any();
    for i in 0..2 { kani::assume(x[i] >= -4 && x[i] <= 4 && y[i] >= -4 && y[i] <= 4); }
    kani::assume(pen <= 40 && (x[0] != 0 || x[1] != 0));
    let xm = Array2::from_shape_vec((2, 1), vec![x[0] as f32, x[1] as f32]).unwrap();
    let ym = Array1::from(vec![y[0] as f32, y[1] as f32]);
    let (w, _gap, _steps) = coordinate_descent(xm.view(), ym.view(), 1e-4f32, 2, 1.0, pen as f32);
    let xty = (x[0] as i32 * y[0] as i32 + x[1] as i32 * y[1] as i32).abs();
    if xty <= 2 * pen as i32 { assert!(w[0] == 0.0); }
}
