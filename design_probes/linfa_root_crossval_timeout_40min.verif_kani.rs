//! property: C01
//! attach: src/dataset/impl_dataset.rs
//! module: vk_c01_crossval
// @include common/prelude.rs
use crate::dataset::{Dataset, DatasetBase};
use crate::error::Error;
use crate::traits::{Fit, PredictInplace};
use ndarray::{Array1, Array2, ArrayView1, ArrayView2};

// contract witnesses: an estimator whose fit may fail on a chosen fold, a model predicting a constant
struct MockParams { fail_on_call: Option<u8>, shift: f32 }
struct MockModel { shift: f32 }
static mut FIT_CALLS: u8 = 0;
impl<'c> Fit<ArrayView2<'c, f32>, ArrayView1<'c, f32>, Error> for MockParams {
    type Object = MockModel;
    fn fit(&self, _d: &DatasetBase<ArrayView2<'c, f32>, ArrayView1<'c, f32>>) -> Result<MockModel, Error> {
        let c = unsafe { FIT_CALLS };
        unsafe { FIT_CALLS += 1; }
        if self.fail_on_call == Some(c) { Err(Error::NotEnoughSamples) } else { Ok(MockModel { shift: self.shift }) }
    }
}
impl<'a> PredictInplace<ArrayView2<'a, f32>, Array1<f32>> for MockModel {
    fn predict_inplace<'b>(&'b self, x: &'b ArrayView2<'a, f32>, y: &mut Array1<f32>) {
        for i in 0..x.nrows() { y[i] = self.shift; }
    }
    fn default_target(&self, x: &ArrayView2<'a, f32>) -> Array1<f32> { Array1::zeros(x.nrows()) }
}

// "the cross-validation score reported for each model is the arithmetic mean over the k folds of the evaluation closure
//  applied to that fold's predictions and validation targets" -- n = 3, k = 2: folds validate rows 0 and 1, row 2 is
//  training-only; the closure returns truth[0] + prediction[0], all values small integers (exact in f32)
// @unit class=bounded tier=thorough mem=heavy bound="n=3,k=2,1 model,1 feature,targets Ix1" timeout=2400 fns=linfa::DatasetBase::cross_validate_single,linfa::DatasetBase::cross_validate
#[kani::proof]
#[kani::unwind(6)]
#[kani::stub(alloc::fmt::format, fmt_stub)]
fn c01_crossval_mean_n3_k2() {
    let t: [i8; 3] = kani::any();
    kani::assume(t[0] >= -8 && t[0] <= 8 && t[1] >= -8 && t[1] <= 8 && t[2] >= -8 && t[2] <= 8);
    let s: i8 = kani::any();
    kani::assume(s >= -4 && s <= 4);
    let rec = Array2::<f32>::zeros((3, 1));
    let tar = Array1::from(vec![t[0] as f32, t[1] as f32, t[2] as f32]);
    let mut ds = Dataset::new(rec, tar);
    let params = [MockParams { fail_on_call: None, shift: s as f32 }];
    let r = ds.cross_validate_single(2, &params, |pred: &Array1<f32>, truth: &ArrayView1<f32>| -> Result<f32, Error> { Ok(truth[0] + pred[0]) });
    let scores = r.unwrap();
    assert!(scores.len() == 1);
    let expected = ((t[0] as f32 + s as f32) + (t[1] as f32 + s as f32)) / 2.0;
    assert!(scores[0] == expected);
    // dataset restored
    assert!(ds.targets[0] == t[0] as f32 && ds.targets[1] == t[1] as f32 && ds.targets[2] == t[2] as f32);
    kani::cover!(t[0] != t[1] && t[2] != t[0]);
}
