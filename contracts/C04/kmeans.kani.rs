//! property: C04
//! attach: algorithms/linfa-clustering/src/k_means/hyperparams.rs
//! module: vk_c04_kmeans
// @include common/prelude.rs
use super::*;
use linfa::ParamGuard;
use linfa_nn::distance::L2Dist;
use rand_xoshiro::Xoshiro256Plus;
use ndarray_rand::rand::SeedableRng;

fn mk<F: Float>(nc: usize, nr: usize, tol: F, it: u64) -> KMeansParams<F, Xoshiro256Plus, L2Dist> {
    KMeansParams::new(nc, Xoshiro256Plus::seed_from_u64(42), L2Dist).n_runs(nr).tolerance(tol).max_n_iterations(it)
}

// Documented ranges (error texts in k_means/errors.rs): n_clusters >= 1, n_runs >= 1,
// tolerance > 0, max_n_iterations >= 1.
// @unit name=kmeans_iff_f64 class=complete tier=quick fns=linfa_clustering::KMeansParams::check_ref,linfa_clustering::KMeansParams::check
#[kani::proof]
#[kani::stub(alloc::fmt::format, fmt_stub)]
fn c04_kmeans_iff_f64() {
    let (nc, nr, tol, it): (usize, usize, f64, u64) = (kani::any(), kani::any(), kani::any(), kani::any());
    kani::assume(tol.is_finite());
    let p = mk::<f64>(nc, nr, tol, it);
    let before = p.clone();
    let in_range = nc >= 1 && nr >= 1 && tol > 0.0 && it >= 1;
    let r = p.check_ref();
    assert!(r.is_ok() == in_range);
    if let Ok(c) = r { assert!(c.n_clusters() == nc && c.n_runs() == nr && c.tolerance() == tol && c.max_n_iterations() == it); }
    assert!(p == before);
    let byval = p.check();
    assert!(byval.is_ok() == in_range);
    if let Ok(c) = &byval { assert!(*c == before.0); }
    kani::cover!(in_range);
    kani::cover!(!in_range);
    kani::cover!(nc >= 1 && nr >= 1 && tol <= 0.0);
}

// @unit name=kmeans_iff_f32 class=complete tier=quick fns=linfa_clustering::KMeansParams::check_ref,linfa_clustering::KMeansParams::check
#[kani::proof]
#[kani::stub(alloc::fmt::format, fmt_stub)]
fn c04_kmeans_iff_f32() {
    let (nc, nr, tol, it): (usize, usize, f32, u64) = (kani::any(), kani::any(), kani::any(), kani::any());
    kani::assume(tol.is_finite());
    let p = mk::<f32>(nc, nr, tol, it);
    let before = p.clone();
    let in_range = nc >= 1 && nr >= 1 && tol > 0.0 && it >= 1;
    let r = p.check_ref();
    assert!(r.is_ok() == in_range);
    assert!(p == before);
    let byval = p.check();
    assert!(byval.is_ok() == in_range);
    if let Ok(c) = &byval { assert!(*c == before.0); }
    kani::cover!(in_range);
    kani::cover!(!in_range);
}
