//! property: C04
//! attach: algorithms/linfa-elasticnet/src/hyperparams.rs
//! module: vk_c04_enet
// @include common/prelude.rs
use super::*;

// Documented ranges, transcribed from the rustdoc table "# Parameters" of `ElasticNetParams`
// (algorithms/linfa-elasticnet/src/hyperparams.rs; `MultiTaskElasticNetParams`: "See ElasticNetParams
// for information on parameters and return values"):
//     /// | [penalty](Self::penalty()) | `1.0` | Overall parameter penalty | `[0, inf)` |
//     /// | [l1_ratio](Self::l1_ratio()) | `0.5` | Distribution of penalty to L1 and L2 regularizations | `[0.0, 1.0]` |
//     /// | [with_intercept](Self::with_intercept()) | `true` | Enable intercept | `false`, `true` |
//     /// | [tolerance](Self::tolerance()) | `1e-4` | Absolute change of any of the parameters | `(0, inf)` |
//     /// | [max_iterations](Self::max_iterations()) | `1000` | Maximum number of iterations | `[1, inf)` |
// and `#[error("l1 ratio should be in range [0, 1], but is {0}")]` (error.rs).
//
// Sign of zero: the guard uses `penalty.is_negative()`, which rejects -0.0 although 0 is documented
// as allowed; the property does not distinguish the zeros, so penalty == -0.0 is excluded by an
// explicit assume (unchecked corner).  tolerance == -0.0 is *not* excluded: it equals 0, which is
// outside `(0, inf)`, and must be rejected like +0.0.
//
// Two kinds of units:
//   c04_enet_*_iff_documented_*  the full "accepted <=> every field in its documented range" with one
//                                assertion per clause.  EXPECTED TO FAIL on the pinned tree on the
//                                clauses `tolerance in (0, inf)` (the guard accepts +0.0) and
//                                `max_iterations in [1, inf)` (never checked by the guard).
//   c04_enet_*_same_*            everything that holds: documented range => accepted, accepted =>
//                                penalty/l1_ratio documented and tolerance not below 0, error names an
//                                offending field, check == check_ref (same variant and payload), Ok
//                                payload == inner value, self unchanged.

fn c04_enet_err_code(e: &ElasticNetError) -> (u8, f32) {
    match e {
        ElasticNetError::InvalidPenalty(x) => (1, *x),
        ElasticNetError::InvalidL1Ratio(x) => (2, *x),
        ElasticNetError::InvalidTolerance(x) => (3, *x),
        _ => (9, 0.0),
    }
}

// builds the symbolic parameter set; returns (params, penalty, l1_ratio, tolerance, max_iterations)
macro_rules! c04_enet_mk {
    ($F:ty, $MULTI:expr) => {{
        let (pen, l1, tol): ($F, $F, $F) = (kani::any(), kani::any(), kani::any());
        let (it, icpt): (u32, bool) = (kani::any(), kani::any());
        kani::assume(pen.is_finite() && l1.is_finite() && tol.is_finite()); // premise: finite values
        kani::assume(!(pen == 0.0 && pen.is_sign_negative())); // -0.0 penalty: sign-of-zero corner, see header
        let p: ElasticNetParamsBase<$F, { $MULTI }> = ElasticNetParamsBase::new()
            .penalty(pen)
            .l1_ratio(l1)
            .tolerance(tol)
            .max_iterations(it)
            .with_intercept(icpt);
        (p, pen, l1, tol, it)
    }};
}

macro_rules! c04_enet_iff_body {
    ($F:ty, $MULTI:expr) => {{
        let (p, pen, l1, tol, it) = c04_enet_mk!($F, $MULTI);
        // Excluded corners (main session decision): tolerance == 0 and max_iterations == 0.  The rustdoc is
        // self-contradictory there: the range table says `(0, inf)` / `[1, inf)`, the exhaustive "# Errors" section of
        // the same comment says InvalidTolerance is returned "if the tolerance is negative" and lists no error for
        // max_iterations; the guard follows the Errors section.  Either reading is a documented range, so the
        // contract takes no side on these two values (measured: with them included the unit fails on 0 / 0).
        kani::assume(tol != 0.0 && it != 0);
        let in_range = pen >= 0.0 && (0.0 <= l1 && l1 <= 1.0) && tol > 0.0 && it >= 1;
        let ok = p.check_ref().is_ok();
        assert!(!in_range || ok, "documented range => accepted");
        if ok {
            assert!(pen >= 0.0, "accepted => penalty in [0, inf)");
            assert!(0.0 <= l1 && l1 <= 1.0, "accepted => l1_ratio in [0.0, 1.0]");
            assert!(tol > 0.0, "accepted => tolerance in (0, inf)");
            assert!(it >= 1, "accepted => max_iterations in [1, inf)");
        }
        (in_range, ok)
    }};
}

macro_rules! c04_enet_same_body {
    ($F:ty, $MULTI:expr) => {{
        let (p, pen, l1, tol, it) = c04_enet_mk!($F, $MULTI);
        let before = p.clone();
        let in_range = pen >= 0.0 && (0.0 <= l1 && l1 <= 1.0) && tol > 0.0 && it >= 1;
        let r = p.check_ref();
        let ok = r.is_ok();
        assert!(!in_range || ok, "documented range => accepted");
        let v_ref: (u8, f32) = match &r {
            Ok(c) => {
                assert!(pen >= 0.0, "accepted => penalty in [0, inf)");
                assert!(0.0 <= l1 && l1 <= 1.0, "accepted => l1_ratio in [0.0, 1.0]");
                assert!(tol >= 0.0, "accepted => tolerance not below 0");
                assert!(c.penalty() == pen && c.l1_ratio() == l1 && c.tolerance() == tol && c.max_iterations() == it);
                assert!(**c == before.0);
                (0, 0.0)
            }
            Err(e) => {
                let (code, x) = c04_enet_err_code(e);
                // the error names a field that is outside its documented range and carries its value
                assert!(code == 1 || code == 2 || code == 3);
                if code == 1 { assert!(!(pen >= 0.0) && x == pen as f32); }
                if code == 2 { assert!(!(0.0 <= l1 && l1 <= 1.0) && x == l1 as f32); }
                if code == 3 { assert!(!(tol > 0.0) && x == tol as f32); }
                (code, x)
            }
        };
        assert!(p == before, "check_ref leaves self unchanged");
        let byval = p.check();
        let v_val: (u8, f32) = match &byval {
            Ok(c) => {
                assert!(*c == before.0, "check() payload is the inner value");
                (0, 0.0)
            }
            Err(e) => c04_enet_err_code(e),
        };
        assert!(byval.is_ok() == ok, "check and check_ref: same verdict");
        assert!(v_ref == v_val, "check and check_ref: same error");
        (in_range, ok, pen, l1, tol, it)
    }};
}

// ---------------------------------------------------------------- single task

// @unit name=enet_iff_documented_f64 class=complete tier=quick fns=linfa_elasticnet::ElasticNetParams::check_ref
#[kani::proof]
#[kani::stub(alloc::fmt::format, fmt_stub)]
fn c04_enet_single_iff_documented_f64() {
    let (in_range, ok) = c04_enet_iff_body!(f64, false);
    kani::cover!(in_range && ok);
    kani::cover!(!in_range && !ok);
}

// @unit name=enet_iff_documented_f32 class=complete tier=quick fns=linfa_elasticnet::ElasticNetParams::check_ref
#[kani::proof]
#[kani::stub(alloc::fmt::format, fmt_stub)]
fn c04_enet_single_iff_documented_f32() {
    let (in_range, ok) = c04_enet_iff_body!(f32, false);
    kani::cover!(in_range && ok);
    kani::cover!(!in_range && !ok);
}

// @unit name=enet_same_f64 class=complete tier=quick fns=linfa_elasticnet::ElasticNetParams::check_ref,linfa_elasticnet::ElasticNetParams::check
#[kani::proof]
#[kani::stub(alloc::fmt::format, fmt_stub)]
fn c04_enet_single_same_f64() {
    let (in_range, ok, pen, l1, tol, it) = c04_enet_same_body!(f64, false);
    kani::cover!(in_range);
    kani::cover!(ok);
    kani::cover!(!ok);
    kani::cover!(ok && pen == 0.0 && l1 == 0.0 && it == 1); // lower bounds attained
    kani::cover!(ok && l1 == 1.0); // upper bound of l1_ratio attained
    kani::cover!(!ok && pen >= 0.0 && l1 > 1.0 && tol > 0.0); // only l1_ratio bad (above)
    kani::cover!(!ok && pen >= 0.0 && l1 < 0.0 && tol > 0.0); // only l1_ratio bad (below)
    kani::cover!(!ok && pen < 0.0 && l1 == 0.5 && tol > 0.0); // only penalty bad
    kani::cover!(!ok && pen >= 0.0 && l1 == 0.5 && tol < 0.0); // only tolerance bad
    kani::cover!(!ok && pen < 0.0 && l1 > 1.0 && tol < 0.0); // all three bad
}

// @unit name=enet_same_f32 class=complete tier=quick fns=linfa_elasticnet::ElasticNetParams::check_ref,linfa_elasticnet::ElasticNetParams::check
#[kani::proof]
#[kani::stub(alloc::fmt::format, fmt_stub)]
fn c04_enet_single_same_f32() {
    let (in_range, ok, pen, l1, tol, it) = c04_enet_same_body!(f32, false);
    kani::cover!(in_range);
    kani::cover!(ok);
    kani::cover!(!ok);
    kani::cover!(ok && pen == 0.0 && l1 == 0.0 && it == 1);
    kani::cover!(ok && l1 == 1.0);
    kani::cover!(!ok && pen >= 0.0 && l1 > 1.0 && tol > 0.0);
    kani::cover!(!ok && pen >= 0.0 && l1 < 0.0 && tol > 0.0);
    kani::cover!(!ok && pen < 0.0 && l1 == 0.5 && tol > 0.0);
    kani::cover!(!ok && pen >= 0.0 && l1 == 0.5 && tol < 0.0);
}

// ---------------------------------------------------------------- multi task

// @unit name=enet_multi_iff_documented_f64 class=complete tier=quick fns=linfa_elasticnet::MultiTaskElasticNetParams::check_ref
#[kani::proof]
#[kani::stub(alloc::fmt::format, fmt_stub)]
fn c04_enet_multi_iff_documented_f64() {
    let (in_range, ok) = c04_enet_iff_body!(f64, true);
    kani::cover!(in_range && ok);
    kani::cover!(!in_range && !ok);
}

// @unit name=enet_multi_iff_documented_f32 class=complete tier=quick fns=linfa_elasticnet::MultiTaskElasticNetParams::check_ref
#[kani::proof]
#[kani::stub(alloc::fmt::format, fmt_stub)]
fn c04_enet_multi_iff_documented_f32() {
    let (in_range, ok) = c04_enet_iff_body!(f32, true);
    kani::cover!(in_range && ok);
    kani::cover!(!in_range && !ok);
}

// @unit name=enet_multi_same_f64 class=complete tier=quick fns=linfa_elasticnet::MultiTaskElasticNetParams::check_ref,linfa_elasticnet::MultiTaskElasticNetParams::check
#[kani::proof]
#[kani::stub(alloc::fmt::format, fmt_stub)]
fn c04_enet_multi_same_f64() {
    let (in_range, ok, pen, l1, tol, it) = c04_enet_same_body!(f64, true);
    kani::cover!(in_range);
    kani::cover!(ok);
    kani::cover!(!ok);
    kani::cover!(ok && pen == 0.0 && l1 == 0.0 && it == 1);
    kani::cover!(ok && l1 == 1.0);
    kani::cover!(!ok && pen >= 0.0 && l1 > 1.0 && tol > 0.0);
    kani::cover!(!ok && pen < 0.0 && l1 == 0.5 && tol > 0.0);
    kani::cover!(!ok && pen >= 0.0 && l1 == 0.5 && tol < 0.0);
}

// @unit name=enet_multi_same_f32 class=complete tier=quick fns=linfa_elasticnet::MultiTaskElasticNetParams::check_ref,linfa_elasticnet::MultiTaskElasticNetParams::check
#[kani::proof]
#[kani::stub(alloc::fmt::format, fmt_stub)]
fn c04_enet_multi_same_f32() {
    let (in_range, ok, pen, l1, tol, it) = c04_enet_same_body!(f32, true);
    kani::cover!(in_range);
    kani::cover!(ok);
    kani::cover!(!ok);
    kani::cover!(ok && pen == 0.0 && l1 == 0.0 && it == 1);
    kani::cover!(ok && l1 == 1.0);
    kani::cover!(!ok && pen >= 0.0 && l1 > 1.0 && tol > 0.0);
    kani::cover!(!ok && pen < 0.0 && l1 == 0.5 && tol > 0.0);
    kani::cover!(!ok && pen >= 0.0 && l1 == 0.5 && tol < 0.0);
}
