//! property: C04
//! attach: src/composing/platt_scaling.rs
//! module: vk_c04_platt
// @include common/prelude.rs
use super::*;

// Documented ranges, transcribed from the error texts of `PlattError` ("Errors occur when setting
// invalid parameters or the optimization process fails", src/composing/platt_scaling.rs):
//     #[error("maxiter should be larger than zero")]        MaxIterZero       -> maxiter >= 1
//     #[error("minstep should be positive, is {0}")]        MinStepNegative   -> minstep >= 0
//     #[error("sigma should be positive, is {0}")]          SigmaNegative     -> sigma   >= 0
// ("positive" is read as non-negative: the variants are named *Negative*, and the crate's own tests
//  `panic_minstep_negative` / `panic_sigma_negative` reject -5.0 / -1.0; DESIGN.md 6-C04 oracle table.)
//
// Sign of zero: the guard uses `is_negative()`, which rejects -0.0 although 0 is allowed under that
// reading; the property does not distinguish the zeros, so minstep == -0.0 and sigma == -0.0 are
// excluded by explicit assumes (unchecked corner).
//
// Not asserted (DESIGN: "not part of C04's verdict"): for maxiter == 0 the guard returns the variant
// `MaxIterReached` ("platt scaling did not converge"), not `MaxIterZero`; both are accepted below as
// "the maxiter error".  `PlattError` is not PartialEq: compared by variant and payload.

fn c04_platt_code(e: &PlattError) -> (u8, f32) {
    match e {
        PlattError::MaxIterZero | PlattError::MaxIterReached => (1, 0.0),
        PlattError::MinStepNegative(x) => (2, *x),
        PlattError::SigmaNegative(x) => (3, *x),
        _ => (9, 0.0),
    }
}

macro_rules! c04_platt_body {
    ($F:ty) => {{
        let (maxiter, minstep, sigma): (usize, $F, $F) = (kani::any(), kani::any(), kani::any());
        kani::assume(minstep.is_finite() && sigma.is_finite()); // premise: finite values
        kani::assume(!(minstep == 0.0 && minstep.is_sign_negative())); // -0.0: sign-of-zero corner, see header
        kani::assume(!(sigma == 0.0 && sigma.is_sign_negative())); // -0.0: sign-of-zero corner, see header
        let p: PlattParams<$F, ()> = Platt::params().maxiter(maxiter).minstep(minstep).sigma(sigma);
        let before = p.clone();
        let in_range = maxiter >= 1 && minstep >= 0.0 && sigma >= 0.0;
        let r = p.check_ref();
        assert!(r.is_ok() == in_range);
        let v_ref: (u8, f32) = match &r {
            Ok(c) => {
                assert!(c.maxiter == maxiter && c.minstep == minstep && c.sigma == sigma);
                assert!(**c == before.0);
                (0, 0.0)
            }
            Err(e) => {
                let (code, x) = c04_platt_code(e);
                assert!(code == 1 || code == 2 || code == 3);
                // the error names a field that is outside its documented range and carries its value
                if code == 1 { assert!(maxiter == 0); }
                if code == 2 { assert!(!(minstep >= 0.0) && x == minstep as f32); }
                if code == 3 { assert!(!(sigma >= 0.0) && x == sigma as f32); }
                (code, x)
            }
        };
        assert!(p == before); // check_ref leaves self unchanged
        let byval = p.check();
        let v_val: (u8, f32) = match &byval {
            Ok(c) => {
                assert!(*c == before.0); // payload is the inner value
                (0, 0.0)
            }
            Err(e) => c04_platt_code(e),
        };
        assert!(byval.is_ok() == in_range);
        assert!(v_ref == v_val); // same verdict, same error
        (in_range, maxiter, minstep, sigma)
    }};
}

// @unit name=platt_iff_f64 class=complete tier=quick fns=linfa::composing::platt_scaling::PlattParams::check_ref,linfa::composing::platt_scaling::PlattParams::check
#[kani::proof]
#[kani::stub(alloc::fmt::format, fmt_stub)]
fn c04_platt_iff_f64() {
    let (in_range, maxiter, minstep, sigma) = c04_platt_body!(f64);
    kani::cover!(in_range);
    kani::cover!(!in_range);
    kani::cover!(in_range && maxiter == 1 && minstep == 0.0 && sigma == 0.0); // every bound attained
    kani::cover!(!in_range && maxiter == 0 && minstep >= 0.0 && sigma >= 0.0); // only maxiter bad
    kani::cover!(!in_range && maxiter >= 1 && minstep < 0.0 && sigma >= 0.0); // only minstep bad
    kani::cover!(!in_range && maxiter >= 1 && minstep >= 0.0 && sigma < 0.0); // only sigma bad
    kani::cover!(!in_range && maxiter == 0 && minstep < 0.0 && sigma < 0.0); // all bad
}

// @unit name=platt_iff_f32 class=complete tier=quick fns=linfa::composing::platt_scaling::PlattParams::check_ref,linfa::composing::platt_scaling::PlattParams::check
#[kani::proof]
#[kani::stub(alloc::fmt::format, fmt_stub)]
fn c04_platt_iff_f32() {
    let (in_range, maxiter, minstep, sigma) = c04_platt_body!(f32);
    kani::cover!(in_range);
    kani::cover!(!in_range);
    kani::cover!(in_range && maxiter == 1 && minstep == 0.0 && sigma == 0.0);
    kani::cover!(!in_range && maxiter == 0 && minstep >= 0.0 && sigma >= 0.0);
    kani::cover!(!in_range && maxiter >= 1 && minstep < 0.0 && sigma >= 0.0);
    kani::cover!(!in_range && maxiter >= 1 && minstep >= 0.0 && sigma < 0.0);
}
