//! property: C04
//! attach: algorithms/linfa-hierarchical/src/lib.rs
//! module: vk_c04_hier
// @include common/prelude.rs
use super::*;

// Documented range of HierarchicalCluster (algorithms/linfa-hierarchical/src/lib.rs, src/error.rs).
// The crate documents no numeric interval; what it says is
//   num_clusters: "Stop merging when a certain number of clusters are reached ... the merging process will stop,
//                  when the number of clusters drops below this value."
//   max_distance: "Stop merging when a certain distance is reached ... the merging process will stop, then the
//                  distance exceeds this value."   (module doc: "The distance between the points is computed as
//                  the negative-log transform of the similarity kernel.")
//   error text:   "The stopping condition {0:?} is not valid"
// The oracle therefore takes the property statement's reading ("counts at least their minimum", finite values):
//   Criterion::NumClusters(n): n >= 1 (a clustering has at least one cluster);
//   Criterion::Distance(x): x finite and x >= 0 (a distance is a non-negative real number);
//   method: every kodama::Method variant is valid.
// -0.0: Distance(-0.0) is the distance 0 but is rejected by the guard's `is_negative()` (sign bit) -> excluded by
// assume (unchecked corner).

fn method(m: u8) -> Method {
    match m { 0 => Method::Single, 1 => Method::Complete, 2 => Method::Average, 3 => Method::Weighted, 4 => Method::Ward, 5 => Method::Centroid, _ => Method::Median }
}

// @unit class=complete tier=quick fns=linfa_hierarchical::HierarchicalCluster::check_ref,linfa_hierarchical::HierarchicalCluster::check
#[kani::proof]
#[kani::stub(alloc::fmt::format, fmt_stub)]
fn c04_hier_iff_f64() {
    let (m, by_num, n, x): (u8, bool, usize, f64) = (kani::any(), kani::any(), kani::any(), kani::any());
    kani::assume(m < 7 && x.is_finite());
    kani::assume(!(x == 0.0 && x.is_sign_negative()));            // -0.0: unchecked corner, see header
    let base = HierarchicalCluster::<f64>::default().with_method(method(m));
    let p = if by_num { base.max_distance(x).num_clusters(n) } else { base.num_clusters(n).max_distance(x) };
    let want = if by_num { Criterion::NumClusters(n) } else { Criterion::Distance(x) };
    assert!(p.0.stopping == want && p.0.method == method(m));
    let before = p.clone();
    let in_range = if by_num { n >= 1 } else { x >= 0.0 };
    let r = p.check_ref();
    assert!(r.is_ok() == in_range);                                // passes checking <=> documented range
    match &r {
        Ok(c) => assert!(**c == before.0),
        Err(HierarchicalError::InvalidStoppingCondition(c)) => assert!(*c == want),
        Err(_) => assert!(false),
    }
    assert!(p == before);                                          // check_ref leaves self unchanged
    let byval = p.clone().check();
    assert!(byval.is_ok() == in_range);                            // same verdict by value
    match &byval {
        Ok(c) => assert!(*c == before.0),                          // payload is the inner value
        Err(HierarchicalError::InvalidStoppingCondition(c)) => assert!(*c == want),   // same error
        Err(_) => assert!(false),
    }
    kani::cover!(in_range && by_num);
    kani::cover!(in_range && !by_num);
    kani::cover!(!in_range && by_num);
    kani::cover!(!in_range && !by_num);
    kani::cover!(by_num && n == 1);
    kani::cover!(!by_num && x == 0.0);
}

// @unit class=complete tier=quick fns=linfa_hierarchical::HierarchicalCluster::check_ref,linfa_hierarchical::HierarchicalCluster::check
#[kani::proof]
#[kani::stub(alloc::fmt::format, fmt_stub)]
fn c04_hier_iff_f32() {
    let (m, by_num, n, x): (u8, bool, usize, f32) = (kani::any(), kani::any(), kani::any(), kani::any());
    kani::assume(m < 7 && x.is_finite());
    kani::assume(!(x == 0.0 && x.is_sign_negative()));            // -0.0: unchecked corner, see header
    let base = HierarchicalCluster::<f32>::default().with_method(method(m));
    let p = if by_num { base.max_distance(x).num_clusters(n) } else { base.num_clusters(n).max_distance(x) };
    let want = if by_num { Criterion::NumClusters(n) } else { Criterion::Distance(x) };
    assert!(p.0.stopping == want && p.0.method == method(m));
    let before = p.clone();
    let in_range = if by_num { n >= 1 } else { x >= 0.0 };
    let r = p.check_ref();
    assert!(r.is_ok() == in_range);                                // passes checking <=> documented range
    match &r {
        Ok(c) => assert!(**c == before.0),
        Err(HierarchicalError::InvalidStoppingCondition(c)) => assert!(*c == want),
        Err(_) => assert!(false),
    }
    assert!(p == before);                                          // check_ref leaves self unchanged
    let byval = p.clone().check();
    assert!(byval.is_ok() == in_range);                            // same verdict by value
    match &byval {
        Ok(c) => assert!(*c == before.0),                          // payload is the inner value
        Err(HierarchicalError::InvalidStoppingCondition(c)) => assert!(*c == want),   // same error
        Err(_) => assert!(false),
    }
    kani::cover!(in_range && by_num);
    kani::cover!(in_range && !by_num);
    kani::cover!(!in_range && by_num);
    kani::cover!(!in_range && !by_num);
    kani::cover!(by_num && n == 1);
    kani::cover!(!by_num && x == 0.0);
}
