//! property: C04
//! attach: algorithms/linfa-tsne/src/hyperparams.rs
//! module: vk_c04_tsne
// @include common/prelude.rs
use super::*;

// Documented range of TSneParams (#[error] texts in algorithms/linfa-tsne/src/error.rs, setter rustdoc in
// algorithms/linfa-tsne/src/hyperparams.rs):
//   "negative perplexity"                                              => perplexity >= 0
//   "negative approximation threshold"                                 => approx_threshold >= 0
//      setter doc: "This threshold lies in range (0, inf) where a value of 0 disables approximation and a
//      positive value approximates the gradient with the cell center."  (0 is given a meaning, so 0 is allowed)
//   "number of preliminary iterations larger than total iterations"    => preliminary_iter <= max_iter when set
//      (TSneError::PreliminaryIterationsTooLarge; relates two hyper-parameters only, no data involved)
//   "perplexity too large for number of samples", "embedding size larger than original dimensionality":
//      depend on the data, are checked in `transform`, outside the builder's guard (DESIGN section 6, C04).
//   embedding_size / max_iter: no range documented.
// -0.0: "negative ..." does not exclude -0.0 == 0, the guard's `is_negative()` (sign bit) does -> excluded by
// assume for both float fields (unchecked corner).
//
// EXPECTED on the pinned tree: c04_tsne_iff_documented_* FAIL (the PreliminaryIterationsTooLarge variant is
// never constructed anywhere in the crate: preliminary_iter > max_iter passes checking);
// c04_tsne_same_verdict_* hold (guard <=> the two sign ranges, check == check_ref, payload, self unchanged).

fn mk<F: Float>(es: usize, th: F, px: F, it: usize, pre: Option<usize>) -> TSneParams<F, SmallRng> {
    let p = TSneParams::<F, SmallRng>::embedding_size(es).approx_threshold(th).perplexity(px).max_iter(it);
    match pre { Some(n) => p.preliminary_iter(n), None => p }
}

fn same_err(a: &TSneError, b: &TSneError) -> bool {
    match (a, b) {
        (TSneError::NegativePerplexity, TSneError::NegativePerplexity) => true,
        (TSneError::NegativeApproximationThreshold, TSneError::NegativeApproximationThreshold) => true,
        (TSneError::PreliminaryIterationsTooLarge, TSneError::PreliminaryIterationsTooLarge) => true,
        _ => false,
    }
}

// @unit class=complete tier=quick fns=linfa_tsne::TSneParams::check_ref
#[kani::proof]
#[kani::stub(alloc::fmt::format, fmt_stub)]
fn c04_tsne_iff_documented_f64() {
    let (es, th, px, it, pre): (usize, f64, f64, usize, Option<usize>) = (kani::any(), kani::any(), kani::any(), kani::any(), kani::any());
    kani::assume(th.is_finite() && px.is_finite());
    kani::assume(!(th == 0.0 && th.is_sign_negative()) && !(px == 0.0 && px.is_sign_negative()));   // -0.0: unchecked corner
    let p = mk::<f64>(es, th, px, it, pre);
    let in_range = px >= 0.0 && th >= 0.0 && match pre { Some(n) => n <= it, None => true };
    assert!(p.check_ref().is_ok() == in_range);
    kani::cover!(in_range);
    kani::cover!(!in_range);
    kani::cover!(in_range && pre == Some(it));
}

// @unit class=complete tier=quick fns=linfa_tsne::TSneParams::check_ref,linfa_tsne::TSneParams::check
#[kani::proof]
#[kani::stub(alloc::fmt::format, fmt_stub)]
fn c04_tsne_same_verdict_f64() {
    let (es, th, px, it, pre): (usize, f64, f64, usize, Option<usize>) = (kani::any(), kani::any(), kani::any(), kani::any(), kani::any());
    kani::assume(th.is_finite() && px.is_finite());
    kani::assume(!(th == 0.0 && th.is_sign_negative()) && !(px == 0.0 && px.is_sign_negative()));   // -0.0: unchecked corner
    let p = mk::<f64>(es, th, px, it, pre);
    let before = p.clone();
    let signs_ok = px >= 0.0 && th >= 0.0;
    let pre_ok = match pre { Some(x) => x <= it, None => true };   // "number of preliminary iterations larger than total iterations" is an error
    let r = p.check_ref();
    assert!(r.is_ok() == (signs_ok && pre_ok));                    // the documented ranges
    match &r {
        Ok(c) => assert!(**c == before.0 && c.embedding_size() == es && c.approx_threshold() == th && c.perplexity() == px
                         && c.max_iter() == it && *c.preliminary_iter() == pre),
        Err(TSneError::NegativePerplexity) => assert!(!(px >= 0.0)),
        Err(TSneError::NegativeApproximationThreshold) => assert!(!(th >= 0.0)),
        Err(TSneError::PreliminaryIterationsTooLarge) => assert!(!pre_ok),
        Err(_) => assert!(false),
    }
    assert!(p == before);                                          // check_ref leaves self unchanged
    let byval = p.clone().check();
    assert!(byval.is_ok() == r.is_ok());                           // same verdict by value
    match (&byval, &r) {
        (Ok(c), Ok(_)) => assert!(*c == before.0),                 // payload is the inner value
        (Err(a), Err(b)) => assert!(same_err(a, b)),               // same error
        _ => assert!(false),
    }
    kani::cover!(signs_ok && pre_ok);
    kani::cover!(signs_ok && !pre_ok);
    kani::cover!(!signs_ok);
    kani::cover!(px == 0.0 && th == 0.0);
    kani::cover!(px < 0.0 && th < 0.0);
}

// @unit class=complete tier=quick fns=linfa_tsne::TSneParams::check_ref
#[kani::proof]
#[kani::stub(alloc::fmt::format, fmt_stub)]
fn c04_tsne_iff_documented_f32() {
    let (es, th, px, it, pre): (usize, f32, f32, usize, Option<usize>) = (kani::any(), kani::any(), kani::any(), kani::any(), kani::any());
    kani::assume(th.is_finite() && px.is_finite());
    kani::assume(!(th == 0.0 && th.is_sign_negative()) && !(px == 0.0 && px.is_sign_negative()));   // -0.0: unchecked corner
    let p = mk::<f32>(es, th, px, it, pre);
    let in_range = px >= 0.0 && th >= 0.0 && match pre { Some(n) => n <= it, None => true };
    assert!(p.check_ref().is_ok() == in_range);
    kani::cover!(in_range);
    kani::cover!(!in_range);
    kani::cover!(in_range && pre == Some(it));
}

// @unit class=complete tier=quick fns=linfa_tsne::TSneParams::check_ref,linfa_tsne::TSneParams::check
#[kani::proof]
#[kani::stub(alloc::fmt::format, fmt_stub)]
fn c04_tsne_same_verdict_f32() {
    let (es, th, px, it, pre): (usize, f32, f32, usize, Option<usize>) = (kani::any(), kani::any(), kani::any(), kani::any(), kani::any());
    kani::assume(th.is_finite() && px.is_finite());
    kani::assume(!(th == 0.0 && th.is_sign_negative()) && !(px == 0.0 && px.is_sign_negative()));   // -0.0: unchecked corner
    let p = mk::<f32>(es, th, px, it, pre);
    let before = p.clone();
    let signs_ok = px >= 0.0 && th >= 0.0;
    let pre_ok = match pre { Some(x) => x <= it, None => true };   // "number of preliminary iterations larger than total iterations" is an error
    let r = p.check_ref();
    assert!(r.is_ok() == (signs_ok && pre_ok));                    // the documented ranges
    match &r {
        Ok(c) => assert!(**c == before.0 && c.embedding_size() == es && c.approx_threshold() == th && c.perplexity() == px
                         && c.max_iter() == it && *c.preliminary_iter() == pre),
        Err(TSneError::NegativePerplexity) => assert!(!(px >= 0.0)),
        Err(TSneError::NegativeApproximationThreshold) => assert!(!(th >= 0.0)),
        Err(TSneError::PreliminaryIterationsTooLarge) => assert!(!pre_ok),
        Err(_) => assert!(false),
    }
    assert!(p == before);                                          // check_ref leaves self unchanged
    let byval = p.clone().check();
    assert!(byval.is_ok() == r.is_ok());                           // same verdict by value
    match (&byval, &r) {
        (Ok(c), Ok(_)) => assert!(*c == before.0),                 // payload is the inner value
        (Err(a), Err(b)) => assert!(same_err(a, b)),               // same error
        _ => assert!(false),
    }
    kani::cover!(signs_ok && pre_ok);
    kani::cover!(signs_ok && !pre_ok);
    kani::cover!(!signs_ok);
    kani::cover!(px == 0.0 && th == 0.0);
    kani::cover!(px < 0.0 && th < 0.0);
}
