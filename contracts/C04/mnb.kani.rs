//! property: C04
//! attach: algorithms/linfa-bayes/src/hyperparams.rs
//! module: vk_c04_mnb
// @include common/prelude.rs
use super::*;
use linfa::ParamGuard;

// Documented range of MultinomialNbParams (rustdoc table above the struct, algorithms/linfa-bayes/src/hyperparams.rs):
//   | [alpha](Self::alpha) | `1` | Additive (Laplace/Lidstone) smoothing parameter (0 for no smoothing) | `[0, inf)` |
//   "Returns [`InvalidSmoothing`](NaiveBayesError::InvalidSmoothing) if the smoothing parameter is negative."
//   error text: "invalid smoothing parameter {0}"
// => alpha in [0, inf); for finite values: alpha >= 0.
// -0.0: the documented range contains 0 and -0.0 == 0, but the guard tests the sign bit (`is_negative()`),
// so -0.0 is rejected. Documentation and guard differ only in the sign of zero -> -0.0 is excluded by an
// explicit assume and is an unchecked corner (DESIGN section 6, C04).

// @unit class=complete tier=quick fns=linfa_bayes::MultinomialNbParams::check_ref,linfa_bayes::MultinomialNbParams::check
#[kani::proof]
#[kani::stub(alloc::fmt::format, fmt_stub)]
fn c04_mnb_iff_f64() {
    let v: f64 = kani::any();
    kani::assume(v.is_finite());
    kani::assume(!(v == 0.0 && v.is_sign_negative()));          // -0.0: unchecked corner, see header
    let p = MultinomialNbParams::<f64, usize>::new().alpha(v);
    let before = p.clone();
    let in_range = v >= 0.0;
    let r = p.check_ref();
    assert!(r.is_ok() == in_range);                              // passes checking <=> documented range
    match &r {
        Ok(c) => assert!(**c == before.0 && c.alpha() == v),
        Err(e) => assert!(matches!(e, NaiveBayesError::InvalidSmoothing(x) if *x == v as f64)),
    }
    assert!(p == before);                                        // check_ref leaves self unchanged
    let byval = p.check();
    assert!(byval.is_ok() == in_range);                          // same verdict by value
    match &byval {
        Ok(c) => assert!(*c == before.0),                        // payload is the inner value
        Err(e) => assert!(matches!(e, NaiveBayesError::InvalidSmoothing(x) if *x == v as f64)),   // same error
    }
    kani::cover!(in_range);
    kani::cover!(!in_range);
    kani::cover!(v == 0.0);
    kani::cover!(v < 0.0 && v > -1.0e-30);
}

// @unit class=complete tier=quick fns=linfa_bayes::MultinomialNbParams::check_ref,linfa_bayes::MultinomialNbParams::check
#[kani::proof]
#[kani::stub(alloc::fmt::format, fmt_stub)]
fn c04_mnb_iff_f32() {
    let v: f32 = kani::any();
    kani::assume(v.is_finite());
    kani::assume(!(v == 0.0 && v.is_sign_negative()));          // -0.0: unchecked corner, see header
    let p = MultinomialNbParams::<f32, usize>::new().alpha(v);
    let before = p.clone();
    let in_range = v >= 0.0;
    let r = p.check_ref();
    assert!(r.is_ok() == in_range);                              // passes checking <=> documented range
    match &r {
        Ok(c) => assert!(**c == before.0 && c.alpha() == v),
        Err(e) => assert!(matches!(e, NaiveBayesError::InvalidSmoothing(x) if *x == v as f64)),
    }
    assert!(p == before);                                        // check_ref leaves self unchanged
    let byval = p.check();
    assert!(byval.is_ok() == in_range);                          // same verdict by value
    match &byval {
        Ok(c) => assert!(*c == before.0),                        // payload is the inner value
        Err(e) => assert!(matches!(e, NaiveBayesError::InvalidSmoothing(x) if *x == v as f64)),   // same error
    }
    kani::cover!(in_range);
    kani::cover!(!in_range);
    kani::cover!(v == 0.0);
    kani::cover!(v < 0.0 && v > -1.0e-30);
}
