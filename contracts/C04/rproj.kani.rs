//! property: C04
//! attach: algorithms/linfa-reduction/src/random_projection/hyperparams.rs
//! module: vk_c04_rproj
// @include common/prelude.rs
use super::*;
use super::super::methods::{Gaussian, Sparse};
use super::super::RandomProjection;
use rand_xoshiro::Xoshiro256Plus;

// Documented range of RandomProjectionParams (#[error] texts in algorithms/linfa-reduction/src/error.rs, module
// doc of algorithms/linfa-reduction/src/random_projection/mod.rs):
//   "Target dimension of the projection must be positive"                  => target_dim >= 1
//   "Precision parameter must be in the interval (0; 1)"  and
//   "where `eps` is parameter, with `0 < eps < 1`"                        => 0 < eps < 1
//   exactly one of the two is set ("Setting the target dimension with this function discards the precision
//   parameter if it had been set previously" and vice versa); the RNG has no range.
// `eps` is an f64 field of the builder (not generic), the generic parameter is the projection method:
// instantiated at both methods of the crate, Gaussian and Sparse.
// The outer builder and the two marker types derive neither Clone nor PartialEq; "unchanged" is stated on the
// fields (`params`, `rng`), which do.

fn same_err(a: &ReductionError, b: &ReductionError) -> bool {
    match (a, b) {
        (ReductionError::NonPositiveEmbeddingSize, ReductionError::NonPositiveEmbeddingSize) => true,
        (ReductionError::InvalidPrecision, ReductionError::InvalidPrecision) => true,
        _ => false,
    }
}

// @unit class=complete tier=quick fns=linfa_reduction::random_projection::RandomProjectionParams::check_ref,linfa_reduction::random_projection::RandomProjectionParams::check
#[kani::proof]
#[kani::stub(alloc::fmt::format, fmt_stub)]
fn c04_rproj_iff_gaussian() {
    let (use_dim, dim, eps): (bool, usize, f64) = (kani::any(), kani::any(), kani::any());
    kani::assume(eps.is_finite());
    let base = RandomProjection::<Gaussian, f64>::params();
    let rng0: Xoshiro256Plus = base.0.rng.clone();
    // set the other field first so that "discards the previous setting" is exercised as well
    let p = if use_dim { base.eps(eps).target_dim(dim) } else { base.target_dim(dim).eps(eps) };
    let want = if use_dim { RandomProjectionParamsInner::Dimension { target_dim: dim } } else { RandomProjectionParamsInner::Epsilon { eps } };
    assert!(p.0.params == want);
    let in_range = if use_dim { dim >= 1 } else { eps > 0.0 && eps < 1.0 };
    let r = p.check_ref();
    assert!(r.is_ok() == in_range);                                // passes checking <=> documented range
    match &r {
        Ok(c) => assert!(c.params == want && c.rng == rng0 && c.target_dim() == (if use_dim { Some(dim) } else { None })
                         && c.eps() == (if use_dim { None } else { Some(eps) })),
        Err(ReductionError::NonPositiveEmbeddingSize) => assert!(use_dim && dim == 0),
        Err(ReductionError::InvalidPrecision) => assert!(!use_dim && !(eps > 0.0 && eps < 1.0)),
        Err(_) => assert!(false),
    }
    assert!(p.0.params == want && p.0.rng == rng0);                // check_ref leaves self unchanged
    let byval = RandomProjectionParams::<Gaussian, Xoshiro256Plus>(RandomProjectionValidParams { params: want.clone(), rng: rng0.clone(), marker: PhantomData }).check();
    assert!(byval.is_ok() == in_range);                            // same verdict by value
    match (&byval, &r) {
        (Ok(c), Ok(_)) => assert!(c.params == want && c.rng == rng0),   // payload is the inner value
        (Err(a), Err(b)) => assert!(same_err(a, b)),               // same error
        _ => assert!(false),
    }
    kani::cover!(in_range && use_dim);
    kani::cover!(in_range && !use_dim);
    kani::cover!(!in_range && use_dim);
    kani::cover!(!use_dim && eps <= 0.0);
    kani::cover!(!use_dim && eps >= 1.0);
    kani::cover!(!use_dim && eps == 1.0);
    kani::cover!(use_dim && dim == 1);
}

// @unit class=complete tier=quick fns=linfa_reduction::random_projection::RandomProjectionParams::check_ref,linfa_reduction::random_projection::RandomProjectionParams::check
#[kani::proof]
#[kani::stub(alloc::fmt::format, fmt_stub)]
fn c04_rproj_iff_sparse() {
    let (use_dim, dim, eps): (bool, usize, f64) = (kani::any(), kani::any(), kani::any());
    kani::assume(eps.is_finite());
    let base = RandomProjection::<Sparse, f32>::params();
    let rng0: Xoshiro256Plus = base.0.rng.clone();
    let p = if use_dim { base.eps(eps).target_dim(dim) } else { base.target_dim(dim).eps(eps) };
    let want = if use_dim { RandomProjectionParamsInner::Dimension { target_dim: dim } } else { RandomProjectionParamsInner::Epsilon { eps } };
    let in_range = if use_dim { dim >= 1 } else { eps > 0.0 && eps < 1.0 };
    let r = p.check_ref();
    assert!(r.is_ok() == in_range);
    match &r {
        Ok(c) => assert!(c.params == want && c.rng == rng0),
        Err(ReductionError::NonPositiveEmbeddingSize) => assert!(use_dim && dim == 0),
        Err(ReductionError::InvalidPrecision) => assert!(!use_dim && !(eps > 0.0 && eps < 1.0)),
        Err(_) => assert!(false),
    }
    assert!(p.0.params == want && p.0.rng == rng0);
    let byval = RandomProjectionParams::<Sparse, Xoshiro256Plus>(RandomProjectionValidParams { params: want.clone(), rng: rng0.clone(), marker: PhantomData }).check();
    assert!(byval.is_ok() == in_range);
    match (&byval, &r) {
        (Ok(c), Ok(_)) => assert!(c.params == want && c.rng == rng0),
        (Err(a), Err(b)) => assert!(same_err(a, b)),
        _ => assert!(false),
    }
    kani::cover!(in_range && use_dim);
    kani::cover!(in_range && !use_dim);
    kani::cover!(!in_range && use_dim);
    kani::cover!(!in_range && !use_dim);
}
