//! property: C04
//! attach: algorithms/linfa-clustering/src/dbscan/hyperparams.rs
//! module: vk_c04_dbscan
// @include common/prelude.rs
use super::*;
use linfa::ParamGuard;
use linfa_nn::{distance::L2Dist, CommonNearestNeighbour};

// Documented ranges, transcribed from the error texts of `DbscanParamsError`
// (algorithms/linfa-clustering/src/dbscan/hyperparams.rs):
//     #[error("min_points must be greater than 1")]   -> min_points > 1
//     #[error("tolerance must be greater than 0")]    -> tolerance  > 0
// (-0.0 is numerically 0, hence not "greater than 0": no sign-of-zero corner here.)
//
// The macro is the harness body shared by the f64/f32 instantiations; it returns
// (in_documented_range, min_points, tolerance) so that the vacuity covers sit in the harness itself.
macro_rules! c04_dbscan_body {
    ($F:ty) => {{
        let (mp, tol): (usize, $F) = (kani::any(), kani::any());
        kani::assume(tol.is_finite()); // premise of the property: finite values
        let p: DbscanParams<$F, L2Dist, CommonNearestNeighbour> =
            DbscanParams::new(mp, L2Dist, CommonNearestNeighbour::LinearSearch).tolerance(tol);
        let before = p.clone();
        let in_range = mp > 1 && tol > 0.0;
        // by reference
        let r = p.check_ref();
        assert!(r.is_ok() == in_range);
        let v_ref: u8 = match &r {
            Ok(c) => {
                assert!(c.minimum_points() == mp && c.tolerance() == tol);
                assert!(**c == before.0);
                0
            }
            Err(DbscanParamsError::MinPoints) => {
                assert!(!(mp > 1)); // the error names a field that is outside its documented range
                1
            }
            Err(DbscanParamsError::Tolerance) => {
                assert!(!(tol > 0.0));
                2
            }
        };
        assert!(p == before); // check_ref leaves self unchanged
        // by value
        let byval = p.check();
        let v_val: u8 = match &byval {
            Ok(c) => {
                assert!(*c == before.0); // payload is the inner value
                0
            }
            Err(DbscanParamsError::MinPoints) => 1,
            Err(DbscanParamsError::Tolerance) => 2,
        };
        assert!(byval.is_ok() == in_range);
        assert!(v_ref == v_val); // same verdict, same error variant
        (in_range, mp, tol)
    }};
}

// @unit name=dbscan_iff_f64 class=complete tier=quick fns=linfa_clustering::DbscanParams::check_ref,linfa_clustering::DbscanParams::check
#[kani::proof]
#[kani::stub(alloc::fmt::format, fmt_stub)]
fn c04_dbscan_iff_f64() {
    let (in_range, mp, tol) = c04_dbscan_body!(f64);
    kani::cover!(in_range);
    kani::cover!(!in_range);
    kani::cover!(mp == 2 && tol > 0.0); // at the bound: accepted
    kani::cover!(mp == 1 && tol > 0.0); // just below: rejected on min_points alone
    kani::cover!(mp > 1 && tol == 0.0); // rejected on tolerance alone (+0.0 or -0.0)
    kani::cover!(mp <= 1 && tol <= 0.0); // both out of range
    kani::cover!(in_range && tol == f64::MIN_POSITIVE / 4.0); // subnormal tolerance accepted
}

// @unit name=dbscan_iff_f32 class=complete tier=quick fns=linfa_clustering::DbscanParams::check_ref,linfa_clustering::DbscanParams::check
#[kani::proof]
#[kani::stub(alloc::fmt::format, fmt_stub)]
fn c04_dbscan_iff_f32() {
    let (in_range, mp, tol) = c04_dbscan_body!(f32);
    kani::cover!(in_range);
    kani::cover!(!in_range);
    kani::cover!(mp == 2 && tol > 0.0);
    kani::cover!(mp == 1 && tol > 0.0);
    kani::cover!(mp > 1 && tol == 0.0);
    kani::cover!(mp <= 1 && tol <= 0.0);
}
