//! property: C04
//! attach: algorithms/linfa-ica/src/hyperparams.rs
//! module: vk_c04_ica
// @include common/prelude.rs
use super::*;

// Documented range of FastIcaParams:
//   algorithms/linfa-ica/src/error.rs:  "tolerance should be positive but is {0}"
//      read as tol >= 0 ("positive" = "not negative", the reading DESIGN section 6 uses for every
//      "should be positive" text whose value 0 is harmless: tol == 0 only disables the early stop);
//      a strict reading (tol > 0) would additionally reject tol == 0, which the guard accepts.
//   algorithms/linfa-ica/src/fast_ica.rs, "# Errors" of fit:
//      "If the `alpha` value set for [`GFunc::Logcosh`] is not between 1 and 2 inclusive"
//      and the message "alpha must be between 1 and 2 inclusive, got {}"      => Logcosh(alpha): 1 <= alpha <= 2
//      (relates to the hyper-parameter alone, no data involved)
//      "If the [`FastIcaValidParams::ncomponents`] is set to a number greater than the minimum of the number of
//      rows and columns": depends on the data, outside the builder's guard.
//   max_iter / random_state: no range documented.
// No -0.0 exclusion is needed: the guard is `tol < 0`, -0.0 is accepted like 0.
//
// EXPECTED on the pinned tree: c04_ica_iff_documented_* FAIL (check_ref never looks at gfunc: Logcosh(alpha)
// with alpha outside [1,2] passes checking and is only rejected inside the fixed-point iteration of fit, after
// centering and whitening); c04_ica_same_verdict_* hold.

fn mk<F: Float>(nc: Option<usize>, g: u8, a: f64, it: usize, tol: F, rs: Option<usize>) -> FastIcaParams<F> {
    let mut p = FastIcaParams::<F>::new().gfunc(gf(g, a)).max_iter(it).tol(tol);
    if let Some(n) = nc { p = p.ncomponents(n); }
    if let Some(s) = rs { p = p.random_state(s); }
    p
}
fn gf(g: u8, a: f64) -> GFunc { if g == 0 { GFunc::Logcosh(a) } else if g == 1 { GFunc::Exp } else { GFunc::Cube } }

// @unit class=complete tier=quick fns=linfa_ica::hyperparams::FastIcaParams::check_ref
#[kani::proof]
#[kani::stub(alloc::fmt::format, fmt_stub)]
fn c04_ica_iff_documented_f64() {
    let (nc, g, a, it, tol, rs): (Option<usize>, u8, f64, usize, f64, Option<usize>) = (kani::any(), kani::any(), kani::any(), kani::any(), kani::any(), kani::any());
    kani::assume(g < 3 && a.is_finite() && tol.is_finite());
    let p = mk::<f64>(nc, g, a, it, tol, rs);
    let in_range = tol >= 0.0 && (g != 0 || (a >= 1.0 && a <= 2.0));
    assert!(p.check_ref().is_ok() == in_range);
    kani::cover!(in_range);
    kani::cover!(!in_range);
    kani::cover!(in_range && g == 0 && a == 2.0);
}

// @unit class=complete tier=quick fns=linfa_ica::hyperparams::FastIcaParams::check_ref,linfa_ica::hyperparams::FastIcaParams::check
#[kani::proof]
#[kani::stub(alloc::fmt::format, fmt_stub)]
fn c04_ica_same_verdict_f64() {
    let (nc, g, a, it, tol, rs): (Option<usize>, u8, f64, usize, f64, Option<usize>) = (kani::any(), kani::any(), kani::any(), kani::any(), kani::any(), kani::any());
    kani::assume(g < 3 && a.is_finite() && tol.is_finite());
    let p = mk::<f64>(nc, g, a, it, tol, rs);
    let before = p.clone();
    let tol_ok = tol >= 0.0;
    let alpha_ok = g != 0 || (a >= 1.0 && a <= 2.0);                // Logcosh alpha "between 1 and 2 inclusive"
    let r = p.check_ref();
    assert!(r.is_ok() == (tol_ok && alpha_ok));                    // the documented ranges
    match &r {
        Ok(c) => assert!(**c == before.0 && *c.ncomponents() == nc && *c.gfunc() == gf(g, a) && c.max_iter() == it
                         && c.tol() == tol && *c.random_state() == rs),
        Err(FastIcaError::InvalidTolerance(x)) => assert!(!tol_ok && *x == tol as f32),
        Err(FastIcaError::InvalidValue(_)) => assert!(!alpha_ok),     // the error names an offending field
        Err(_) => assert!(false),
    }
    assert!(p == before);                                          // check_ref leaves self unchanged
    let byval = p.clone().check();
    assert!(byval.is_ok() == r.is_ok());                           // same verdict by value
    match &byval {
        Ok(c) => assert!(*c == before.0),                          // payload is the inner value
        Err(FastIcaError::InvalidTolerance(x)) => assert!(!tol_ok && *x == tol as f32 && matches!(r, Err(FastIcaError::InvalidTolerance(_)))),   // same error
        Err(FastIcaError::InvalidValue(_)) => assert!(!alpha_ok && matches!(r, Err(FastIcaError::InvalidValue(_)))),
        Err(_) => assert!(false),
    }
    kani::cover!(tol_ok && alpha_ok);
    kani::cover!(!tol_ok);
    kani::cover!(tol_ok && !alpha_ok);
    kani::cover!(tol == 0.0);
    kani::cover!(tol_ok && nc.is_some() && rs.is_none() && g == 2);
}

// @unit class=complete tier=quick fns=linfa_ica::hyperparams::FastIcaParams::check_ref
#[kani::proof]
#[kani::stub(alloc::fmt::format, fmt_stub)]
fn c04_ica_iff_documented_f32() {
    let (nc, g, a, it, tol, rs): (Option<usize>, u8, f64, usize, f32, Option<usize>) = (kani::any(), kani::any(), kani::any(), kani::any(), kani::any(), kani::any());
    kani::assume(g < 3 && a.is_finite() && tol.is_finite());
    let p = mk::<f32>(nc, g, a, it, tol, rs);
    let in_range = tol >= 0.0 && (g != 0 || (a >= 1.0 && a <= 2.0));
    assert!(p.check_ref().is_ok() == in_range);
    kani::cover!(in_range);
    kani::cover!(!in_range);
    kani::cover!(in_range && g == 0 && a == 2.0);
}

// @unit class=complete tier=quick fns=linfa_ica::hyperparams::FastIcaParams::check_ref,linfa_ica::hyperparams::FastIcaParams::check
#[kani::proof]
#[kani::stub(alloc::fmt::format, fmt_stub)]
fn c04_ica_same_verdict_f32() {
    let (nc, g, a, it, tol, rs): (Option<usize>, u8, f64, usize, f32, Option<usize>) = (kani::any(), kani::any(), kani::any(), kani::any(), kani::any(), kani::any());
    kani::assume(g < 3 && a.is_finite() && tol.is_finite());
    let p = mk::<f32>(nc, g, a, it, tol, rs);
    let before = p.clone();
    let tol_ok = tol >= 0.0;
    let alpha_ok = g != 0 || (a >= 1.0 && a <= 2.0);                // Logcosh alpha "between 1 and 2 inclusive"
    let r = p.check_ref();
    assert!(r.is_ok() == (tol_ok && alpha_ok));                    // the documented ranges
    match &r {
        Ok(c) => assert!(**c == before.0 && *c.ncomponents() == nc && *c.gfunc() == gf(g, a) && c.max_iter() == it
                         && c.tol() == tol && *c.random_state() == rs),
        Err(FastIcaError::InvalidTolerance(x)) => assert!(!tol_ok && *x == tol as f32),
        Err(FastIcaError::InvalidValue(_)) => assert!(!alpha_ok),     // the error names an offending field
        Err(_) => assert!(false),
    }
    assert!(p == before);                                          // check_ref leaves self unchanged
    let byval = p.clone().check();
    assert!(byval.is_ok() == r.is_ok());                           // same verdict by value
    match &byval {
        Ok(c) => assert!(*c == before.0),                          // payload is the inner value
        Err(FastIcaError::InvalidTolerance(x)) => assert!(!tol_ok && *x == tol as f32 && matches!(r, Err(FastIcaError::InvalidTolerance(_)))),   // same error
        Err(FastIcaError::InvalidValue(_)) => assert!(!alpha_ok && matches!(r, Err(FastIcaError::InvalidValue(_)))),
        Err(_) => assert!(false),
    }
    kani::cover!(tol_ok && alpha_ok);
    kani::cover!(!tol_ok);
    kani::cover!(tol_ok && !alpha_ok);
    kani::cover!(tol == 0.0);
    kani::cover!(tol_ok && nc.is_some() && rs.is_none() && g == 2);
}
