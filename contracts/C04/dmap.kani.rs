//! property: C04
//! attach: algorithms/linfa-reduction/src/diffusion_map/hyperparams.rs
//! module: vk_c04_dmap
// @include common/prelude.rs
use super::*;

// Documented range of DiffusionMapParams (#[error] texts in algorithms/linfa-reduction/src/error.rs and the
// rustdoc in algorithms/linfa-reduction/src/diffusion_map/hyperparams.rs):
//   "Number of steps zero in diffusion map operator"                       => steps >= 1
//   "embedding dimension smaller {0} than feature dimension" (EmbeddingTooSmall(usize)), together with
//   "`embedding_size`: the number of dimensions in the projection" / "defines the target dimensionality":
//   a dimension count, property statement "counts at least their minimum"  => embedding_size >= 1
// The builder has no float field, so there is a single instantiation.

// @unit class=complete tier=quick fns=linfa_reduction::DiffusionMapParams::check_ref,linfa_reduction::DiffusionMapParams::check
#[kani::proof]
#[kani::stub(alloc::fmt::format, fmt_stub)]
fn c04_dmap_iff() {
    let (steps, es): (usize, usize) = (kani::any(), kani::any());
    let p = DiffusionMapParams::new(es).steps(steps);
    let before = p.clone();
    let in_range = steps >= 1 && es >= 1;
    let r = p.check_ref();
    assert!(r.is_ok() == in_range);                                // passes checking <=> documented range
    match &r {
        Ok(c) => assert!(**c == before.0 && c.steps() == steps && c.embedding_size() == es),
        Err(ReductionError::StepsZero) => assert!(steps == 0),
        Err(ReductionError::EmbeddingTooSmall(n)) => assert!(es == 0 && *n == es),
        Err(_) => assert!(false),
    }
    assert!(p == before);                                          // check_ref leaves self unchanged
    let byval = p.clone().check();
    assert!(byval.is_ok() == in_range);                            // same verdict by value
    match (&byval, &r) {
        (Ok(c), Ok(_)) => assert!(*c == before.0),                 // payload is the inner value
        (Err(ReductionError::StepsZero), Err(ReductionError::StepsZero)) => (),
        (Err(ReductionError::EmbeddingTooSmall(a)), Err(ReductionError::EmbeddingTooSmall(b))) => assert!(a == b),
        _ => assert!(false),                                       // same error
    }
    // the alternative constructor and the setter reach the same state
    assert!(DiffusionMapParams::new(0).embedding_size(es).steps(steps) == before);
    kani::cover!(in_range);
    kani::cover!(!in_range);
    kani::cover!(steps == 1 && es == 1);
    kani::cover!(steps == 0 && es == 0);
    kani::cover!(steps == 0 && es >= 1);
    kani::cover!(steps >= 1 && es == 0);
}
