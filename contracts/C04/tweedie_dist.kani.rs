//! property: C04
//! attach: algorithms/linfa-linear/src/glm/distribution.rs
//! module: vk_c04_tweedie_dist
// @include common/prelude.rs
use super::*;

// Documented range of `TweedieDistribution::new(power)`, transcribed from
// algorithms/linfa-linear/src/error.rs:
//     #[error("tweedie distribution power should not be in (0, 1), but is {0}")]   (InvalidTweediePower)
//                                                           -> Ok  <=>  power <= 0  or  power >= 1
// The constructor has no by-reference form; the units state accepted <=> documented, that the error
// is `InvalidTweediePower(power)`, that the accepted value stores `power` unchanged, and that the
// constructor does not panic on any finite input (its `_ => unreachable!()` arm).
macro_rules! c04_tweedie_dist_body {
    ($F:ty) => {{
        let power: $F = kani::any();
        kani::assume(power.is_finite()); // premise: finite values
        let in_range = power <= 0.0 || power >= 1.0;
        let r = TweedieDistribution::<$F>::new(power);
        assert!(r.is_ok() == in_range);
        match &r {
            Ok(d) => assert!(d.power == power),
            Err(LinearError::InvalidTweediePower(x)) => assert!(*x == power),
            Err(_) => assert!(false),
        }
        (in_range, power)
    }};
}

// @unit name=tweedie_dist_f64 class=complete tier=quick fns=linfa_linear::glm::distribution::TweedieDistribution::new
#[kani::proof]
#[kani::stub(alloc::fmt::format, fmt_stub)]
fn c04_tweedie_dist_iff_f64() {
    let (in_range, power) = c04_tweedie_dist_body!(f64);
    kani::cover!(in_range);
    kani::cover!(!in_range);
    kani::cover!(in_range && power == 0.0);
    kani::cover!(in_range && power == 1.0);
    kani::cover!(in_range && power < 0.0);
    kani::cover!(in_range && power > 1.0 && power < 2.0);
    kani::cover!(in_range && power >= 2.0);
    kani::cover!(!in_range && power == f64::MIN_POSITIVE / 2.0); // subnormal just above 0
    kani::cover!(!in_range && power > 0.999);
}

// @unit name=tweedie_dist_f32 class=complete tier=quick fns=linfa_linear::glm::distribution::TweedieDistribution::new
#[kani::proof]
#[kani::stub(alloc::fmt::format, fmt_stub)]
fn c04_tweedie_dist_iff_f32() {
    let (in_range, power) = c04_tweedie_dist_body!(f32);
    kani::cover!(in_range);
    kani::cover!(!in_range);
    kani::cover!(in_range && power == 0.0);
    kani::cover!(in_range && power == 1.0);
    kani::cover!(in_range && power < 0.0);
    kani::cover!(in_range && power >= 2.0);
    kani::cover!(!in_range && power > 0.999);
}
