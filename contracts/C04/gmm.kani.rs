//! property: C04
//! attach: algorithms/linfa-clustering/src/gaussian_mixture/hyperparams.rs
//! module: vk_c04_gmm
// @include common/prelude.rs
use super::*;

// Documented ranges, transcribed from algorithms/linfa-clustering/src/gaussian_mixture/hyperparams.rs
// (messages carried by `GmmError::InvalidValue`, "When any of the hyperparameters are set the wrong
// value", and the setter rustdoc):
//     "`n_clusters` cannot be 0!"                        -> n_clusters >= 1
//     "`tolerance` must be greater than 0!"              -> tolerance  >  0
//     /// Non-negative regularization added to the diagonal of covariance.   (fn reg_covariance)
//     "`reg_covar` must be positive!"                    -> reg_covar  >= 0   (-0.0 == 0 is non-negative
//                                                           and is accepted: no sign-of-zero corner)
//     "`n_runs` cannot be 0!"                            -> n_runs >= 1
//     "`max_n_iterations` cannot be 0!"                  -> max_n_iterations >= 1
// covariance_type / init_method are enums without a range. `GmmError` is not PartialEq; every
// hyper-parameter error is the variant `InvalidValue`, so "same error" is checked as "same variant".
macro_rules! c04_gmm_body {
    ($F:ty) => {{
        let (nc, tol, reg, nr, it): (usize, $F, $F, u64, u64) =
            (kani::any(), kani::any(), kani::any(), kani::any(), kani::any());
        let random_init: bool = kani::any();
        kani::assume(tol.is_finite() && reg.is_finite()); // premise of the property: finite values
        let p: GmmParams<$F, Xoshiro256Plus> = GmmParams::new(nc)
            .tolerance(tol)
            .reg_covariance(reg)
            .n_runs(nr)
            .max_n_iterations(it)
            .covariance_type(GmmCovarType::Full)
            .init_method(if random_init { GmmInitMethod::Random } else { GmmInitMethod::KMeans });
        let before = p.clone();
        let in_range = nc >= 1 && tol > 0.0 && reg >= 0.0 && nr >= 1 && it >= 1;
        let r = p.check_ref();
        assert!(r.is_ok() == in_range);
        match &r {
            Ok(c) => {
                assert!(c.n_clusters() == nc && c.tolerance() == tol && c.reg_covariance() == reg);
                assert!(c.n_runs() == nr && c.max_n_iterations() == it);
                assert!(**c == before.0);
            }
            Err(e) => assert!(matches!(e, GmmError::InvalidValue(_))),
        }
        assert!(p == before); // check_ref leaves self unchanged
        let byval = p.check();
        assert!(byval.is_ok() == in_range); // same verdict as check_ref
        match &byval {
            Ok(c) => assert!(*c == before.0), // payload is the inner value
            Err(e) => assert!(matches!(e, GmmError::InvalidValue(_))),
        }
        (in_range, nc, tol, reg, nr, it)
    }};
}

// @unit name=gmm_iff_f64 class=complete tier=quick fns=linfa_clustering::GmmParams::check_ref,linfa_clustering::GmmParams::check
#[kani::proof]
#[kani::stub(alloc::fmt::format, fmt_stub)]
fn c04_gmm_iff_f64() {
    let (in_range, nc, tol, reg, nr, it) = c04_gmm_body!(f64);
    kani::cover!(in_range);
    kani::cover!(!in_range);
    kani::cover!(in_range && nc == 1 && nr == 1 && it == 1 && reg == 0.0); // every bound attained: accepted
    kani::cover!(nc == 0 && tol > 0.0 && reg >= 0.0 && nr >= 1 && it >= 1); // only n_clusters bad
    kani::cover!(nc >= 1 && tol == 0.0 && reg >= 0.0 && nr >= 1 && it >= 1); // only tolerance bad
    kani::cover!(nc >= 1 && tol > 0.0 && reg < 0.0 && nr >= 1 && it >= 1); // only reg_covar bad
    kani::cover!(nc >= 1 && tol > 0.0 && reg >= 0.0 && nr == 0 && it >= 1); // only n_runs bad
    kani::cover!(nc >= 1 && tol > 0.0 && reg >= 0.0 && nr >= 1 && it == 0); // only max_n_iterations bad
}

// @unit name=gmm_iff_f32 class=complete tier=quick fns=linfa_clustering::GmmParams::check_ref,linfa_clustering::GmmParams::check
#[kani::proof]
#[kani::stub(alloc::fmt::format, fmt_stub)]
fn c04_gmm_iff_f32() {
    let (in_range, nc, tol, reg, nr, it) = c04_gmm_body!(f32);
    kani::cover!(in_range);
    kani::cover!(!in_range);
    kani::cover!(in_range && nc == 1 && nr == 1 && it == 1 && reg == 0.0);
    kani::cover!(nc == 0 && tol > 0.0 && reg >= 0.0 && nr >= 1 && it >= 1);
    kani::cover!(nc >= 1 && tol == 0.0 && reg >= 0.0 && nr >= 1 && it >= 1);
    kani::cover!(nc >= 1 && tol > 0.0 && reg < 0.0 && nr >= 1 && it >= 1);
    kani::cover!(nc >= 1 && tol > 0.0 && reg >= 0.0 && nr == 0 && it >= 1);
    kani::cover!(nc >= 1 && tol > 0.0 && reg >= 0.0 && nr >= 1 && it == 0);
}
