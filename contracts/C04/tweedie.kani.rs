//! property: C04
//! attach: algorithms/linfa-linear/src/glm/hyperparams.rs
//! module: vk_c04_tweedie
// @include common/prelude.rs
use super::*;
use crate::glm::distribution::TweedieDistribution;

// Documented ranges, transcribed from algorithms/linfa-linear/src/error.rs and the setter rustdoc in
// algorithms/linfa-linear/src/glm/hyperparams.rs:
//     #[error("penalty should be positive, but is {0}")]                               (InvalidPenalty)
//     /// ... `alpha` set to 0 is equivalent to unpenalized GLM.                        (fn alpha)
//                                                           -> alpha >= 0  (0 explicitly allowed)
//     #[error("tweedie distribution power should not be in (0, 1), but is {0}")]       (InvalidTweediePower)
//                                                           -> power <= 0  or  power >= 1
// max_iter, tol, fit_intercept, link: no range documented.
//
// Sign of zero: the guard uses `alpha.is_sign_negative()`, which rejects -0.0 although 0 is documented
// as allowed; the property does not distinguish the zeros, so alpha == -0.0 is excluded by an explicit
// assume (unchecked corner).
// `LinearError<F>` is not PartialEq: errors are compared by variant and payload.

macro_rules! c04_tweedie_code {
    ($e:expr) => {
        match $e {
            LinearError::InvalidPenalty(x) => (1u8, *x),
            LinearError::InvalidTweediePower(x) => (2u8, *x),
            _ => (9u8, 0.0),
        }
    };
}

macro_rules! c04_tweedie_body {
    ($F:ty) => {{
        let (alpha, power, tol): ($F, $F, $F) = (kani::any(), kani::any(), kani::any());
        let (max_iter, icpt, link_sel): (usize, bool, u8) = (kani::any(), kani::any(), kani::any());
        kani::assume(alpha.is_finite() && power.is_finite() && tol.is_finite()); // premise: finite values
        kani::assume(!(alpha == 0.0 && alpha.is_sign_negative())); // -0.0 alpha: sign-of-zero corner, see header
        let mut p: TweedieRegressorParams<$F> =
            TweedieRegressorParams::new().alpha(alpha).power(power).tol(tol).max_iter(max_iter).fit_intercept(icpt);
        if link_sel == 1 { p = p.link(Link::Identity); }
        if link_sel == 2 { p = p.link(Link::Log); }
        if link_sel == 3 { p = p.link(Link::Logit); }
        let before = p.clone();
        let alpha_ok = alpha >= 0.0;
        let power_ok = power <= 0.0 || power >= 1.0;
        let in_range = alpha_ok && power_ok;
        let r = p.check_ref();
        assert!(r.is_ok() == in_range);
        let v_ref: (u8, $F) = match &r {
            Ok(c) => {
                assert!(c.alpha() == alpha && c.power() == power && c.tol() == tol);
                assert!(c.max_iter() == max_iter && c.fit_intercept() == icpt);
                assert!(**c == before.0);
                (0, 0.0)
            }
            Err(e) => {
                let (code, x) = c04_tweedie_code!(e);
                assert!(code == 1 || code == 2);
                // the error names a field that is outside its documented range and carries its value
                if code == 1 { assert!(!alpha_ok && x == alpha); }
                if code == 2 { assert!(!power_ok && x == power); }
                (code, x)
            }
        };
        assert!(p == before); // check_ref leaves self unchanged
        let byval = p.check();
        let v_val: (u8, $F) = match &byval {
            Ok(c) => {
                assert!(*c == before.0); // payload is the inner value
                (0, 0.0)
            }
            Err(e) => c04_tweedie_code!(e),
        };
        assert!(byval.is_ok() == in_range);
        assert!(v_ref == v_val); // same verdict, same error
        // an accepted power is not rejected later by the distribution constructor used in `fit`
        assert!(TweedieDistribution::<$F>::new(power).is_ok() == power_ok);
        (in_range, alpha, power)
    }};
}

// @unit name=tweedie_iff_f64 class=complete tier=quick fns=linfa_linear::TweedieRegressorParams::check_ref,linfa_linear::TweedieRegressorParams::check
#[kani::proof]
#[kani::stub(alloc::fmt::format, fmt_stub)]
fn c04_tweedie_params_iff_f64() {
    let (in_range, alpha, power) = c04_tweedie_body!(f64);
    kani::cover!(in_range);
    kani::cover!(!in_range);
    kani::cover!(in_range && alpha == 0.0 && power == 0.0); // both at a bound (Normal, unpenalised)
    kani::cover!(in_range && power == 1.0); // Poisson: at the upper end of the excluded interval
    kani::cover!(in_range && power < 0.0);
    kani::cover!(in_range && power > 2.0);
    kani::cover!(!in_range && alpha >= 0.0 && power > 0.0 && power < 1.0); // only power bad
    kani::cover!(!in_range && alpha < 0.0 && power == 1.0); // only alpha bad
    kani::cover!(!in_range && alpha < 0.0 && power == 0.5); // both bad
    kani::cover!(!in_range && alpha >= 0.0 && power == f64::MIN_POSITIVE / 2.0); // subnormal power just above 0
}

// @unit name=tweedie_iff_f32 class=complete tier=quick fns=linfa_linear::TweedieRegressorParams::check_ref,linfa_linear::TweedieRegressorParams::check
#[kani::proof]
#[kani::stub(alloc::fmt::format, fmt_stub)]
fn c04_tweedie_params_iff_f32() {
    let (in_range, alpha, power) = c04_tweedie_body!(f32);
    kani::cover!(in_range);
    kani::cover!(!in_range);
    kani::cover!(in_range && alpha == 0.0 && power == 0.0);
    kani::cover!(in_range && power == 1.0);
    kani::cover!(in_range && power < 0.0);
    kani::cover!(!in_range && alpha >= 0.0 && power > 0.0 && power < 1.0);
    kani::cover!(!in_range && alpha < 0.0 && power == 1.0);
    kani::cover!(!in_range && alpha < 0.0 && power == 0.5);
}
