//! property: C04
//! attach: algorithms/linfa-clustering/src/optics/hyperparams.rs
//! module: vk_c04_optics
// @include common/prelude.rs
use super::*;
use linfa_nn::{distance::L2Dist, CommonNearestNeighbour};

// Documented ranges, transcribed from the messages carried by `OpticsError::InvalidValue`
// ("When any of the hyperparameters are set the wrong value", optics/errors.rs) in
// algorithms/linfa-clustering/src/optics/hyperparams.rs:
//     "`tolerance` must be greater than 0!"    -> tolerance  > 0
//     "`min_points` must be greater than 1!"   -> min_points > 1
//     ("There is always at least one neighbor to a point (itself)")
// `OpticsError` is not PartialEq and has a single hyper-parameter variant, so "same error" is
// checked as "same variant".
macro_rules! c04_optics_body {
    ($F:ty) => {{
        let (mp, tol): (usize, $F) = (kani::any(), kani::any());
        kani::assume(tol.is_finite()); // premise of the property: finite values
        let p: OpticsParams<$F, L2Dist, CommonNearestNeighbour> =
            OpticsParams::new(mp, L2Dist, CommonNearestNeighbour::LinearSearch).tolerance(tol);
        let before = p.clone();
        let in_range = mp > 1 && tol > 0.0;
        let r = p.check_ref();
        assert!(r.is_ok() == in_range);
        match &r {
            Ok(c) => {
                assert!(c.minimum_points() == mp && c.tolerance() == tol);
                assert!(**c == before.0);
            }
            Err(OpticsError::InvalidValue(_)) => {}
        }
        assert!(p == before); // check_ref leaves self unchanged
        let byval = p.check();
        assert!(byval.is_ok() == in_range); // same verdict as check_ref
        match &byval {
            Ok(c) => assert!(*c == before.0), // payload is the inner value
            Err(OpticsError::InvalidValue(_)) => {}
        }
        (in_range, mp, tol)
    }};
}

// @unit name=optics_iff_f64 class=complete tier=quick fns=linfa_clustering::OpticsParams::check_ref,linfa_clustering::OpticsParams::check
#[kani::proof]
#[kani::stub(alloc::fmt::format, fmt_stub)]
fn c04_optics_iff_f64() {
    let (in_range, mp, tol) = c04_optics_body!(f64);
    kani::cover!(in_range);
    kani::cover!(!in_range);
    kani::cover!(mp == 2 && tol > 0.0); // at the bound: accepted
    kani::cover!(mp == 1 && tol > 0.0); // rejected on min_points alone
    kani::cover!(mp > 1 && tol == 0.0); // rejected on tolerance alone
    kani::cover!(mp <= 1 && tol <= 0.0); // both out of range
}

// @unit name=optics_iff_f32 class=complete tier=quick fns=linfa_clustering::OpticsParams::check_ref,linfa_clustering::OpticsParams::check
#[kani::proof]
#[kani::stub(alloc::fmt::format, fmt_stub)]
fn c04_optics_iff_f32() {
    let (in_range, mp, tol) = c04_optics_body!(f32);
    kani::cover!(in_range);
    kani::cover!(!in_range);
    kani::cover!(mp == 2 && tol > 0.0);
    kani::cover!(mp == 1 && tol > 0.0);
    kani::cover!(mp > 1 && tol == 0.0);
    kani::cover!(mp <= 1 && tol <= 0.0);
}
