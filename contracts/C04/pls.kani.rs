//! property: C04
//! attach: algorithms/linfa-pls/src/hyperparams.rs
//! module: vk_c04_pls
// @include common/prelude.rs
use super::*;

// Documented range of PlsParams and of the macro-generated PlsRegressionParams / PlsCanonicalParams /
// PlsCcaParams (#[error] texts in algorithms/linfa-pls/src/errors.rs; the setters' rustdoc gives no range):
//   "The tolerance is should not be negative, NaN or inf but is {0}"      => tolerance finite and >= 0
//   "The maximal number of iterations should be positive"                 => max_iter >= 1
//   n_components: "Number of components should be in [1, {upperbound}], got {actual}" - the upper bound is the
//   rank bound of the *data* and the whole interval is checked by `fit` (before any iteration); it is not a
//   guard of check_ref and is left unconstrained here, like t-SNE's data-dependent limits (DESIGN section 6, C04).
//   scale / algorithm / deflation_mode / mode: enums and a bool, every value valid.
// -0.0: "should not be negative" does not exclude -0.0 == 0, the guard's `is_negative()` (sign bit) does ->
// excluded by assume (unchecked corner).
// hyperparams.rs generates three wrappers (pls_algo!(Regression), (Canonical), (Cca)); each has its own copy
// of the guard, so each gets its own units.

fn inner<F: Float>(nc: usize, it: usize, tol: F, scale: bool, svd: bool, canon: bool, mode_b: bool) -> PlsValidParams<F> {
    let mut p = PlsParams::<F>::new(nc)
        .deflation_mode(if canon { DeflationMode::Canonical } else { DeflationMode::Regression })
        .mode(if mode_b { Mode::B } else { Mode::A });
    p.0.max_iter = it;
    p.0.tolerance = tol;
    p.0.scale = scale;
    p.0.algorithm = if svd { Algorithm::Svd } else { Algorithm::Nipals };
    p.0
}

fn same_err(a: &PlsError, b: &PlsError) -> bool {
    match (a, b) {
        (PlsError::InvalidTolerance(x), PlsError::InvalidTolerance(y)) => x == y,
        (PlsError::ZeroMaxIter, PlsError::ZeroMaxIter) => true,
        _ => false,
    }
}

// @unit class=complete tier=quick fns=linfa_pls::PlsParams::check_ref,linfa_pls::PlsParams::check
#[kani::proof]
#[kani::stub(alloc::fmt::format, fmt_stub)]
fn c04_pls_iff_f64() {
    let (nc, it, tol): (usize, usize, f64) = (kani::any(), kani::any(), kani::any());
    let (scale, svd, canon, mode_b): (bool, bool, bool, bool) = (kani::any(), kani::any(), kani::any(), kani::any());
    kani::assume(tol.is_finite());
    kani::assume(!(tol == 0.0 && tol.is_sign_negative()));        // -0.0: unchecked corner, see header
    let before: PlsValidParams<f64> = inner::<f64>(nc, it, tol, scale, svd, canon, mode_b);
    let p = PlsParams(before.clone());
    let in_range = tol >= 0.0 && it >= 1;
    let r = p.check_ref();
    assert!(r.is_ok() == in_range);                                // passes checking <=> documented range
    match &r {
        Ok(c) => assert!(**c == before),
        Err(PlsError::InvalidTolerance(_)) => assert!(!(tol >= 0.0)),
        Err(PlsError::ZeroMaxIter) => assert!(it == 0),
        Err(_) => assert!(false),
    }
    assert!(p.0 == before);                                      // check_ref leaves self unchanged
    let byval = PlsParams(before.clone()).check();
    assert!(byval.is_ok() == in_range);                            // same verdict by value
    match (&byval, &r) {
        (Ok(c), Ok(_)) => assert!(*c == before),               // payload is the inner value
        (Err(a), Err(b)) => assert!(same_err(a, b)),               // same error
        _ => assert!(false),
    }
    kani::cover!(in_range);
    kani::cover!(!in_range);
    kani::cover!(tol == 0.0 && it == 1);
    kani::cover!(tol < 0.0 && it == 0);
    kani::cover!(in_range && nc == 0);
}

// @unit class=complete tier=quick fns=linfa_pls::PlsParams::check_ref,linfa_pls::PlsParams::check
#[kani::proof]
#[kani::stub(alloc::fmt::format, fmt_stub)]
fn c04_pls_iff_f32() {
    let (nc, it, tol): (usize, usize, f32) = (kani::any(), kani::any(), kani::any());
    let (scale, svd, canon, mode_b): (bool, bool, bool, bool) = (kani::any(), kani::any(), kani::any(), kani::any());
    kani::assume(tol.is_finite());
    kani::assume(!(tol == 0.0 && tol.is_sign_negative()));        // -0.0: unchecked corner, see header
    let before: PlsValidParams<f32> = inner::<f32>(nc, it, tol, scale, svd, canon, mode_b);
    let p = PlsParams(before.clone());
    let in_range = tol >= 0.0 && it >= 1;
    let r = p.check_ref();
    assert!(r.is_ok() == in_range);                                // passes checking <=> documented range
    match &r {
        Ok(c) => assert!(**c == before),
        Err(PlsError::InvalidTolerance(_)) => assert!(!(tol >= 0.0)),
        Err(PlsError::ZeroMaxIter) => assert!(it == 0),
        Err(_) => assert!(false),
    }
    assert!(p.0 == before);                                      // check_ref leaves self unchanged
    let byval = PlsParams(before.clone()).check();
    assert!(byval.is_ok() == in_range);                            // same verdict by value
    match (&byval, &r) {
        (Ok(c), Ok(_)) => assert!(*c == before),               // payload is the inner value
        (Err(a), Err(b)) => assert!(same_err(a, b)),               // same error
        _ => assert!(false),
    }
    kani::cover!(in_range);
    kani::cover!(!in_range);
    kani::cover!(tol == 0.0 && it == 1);
    kani::cover!(tol < 0.0 && it == 0);
    kani::cover!(in_range && nc == 0);
}

// @unit class=complete tier=quick fns=linfa_pls::PlsRegressionParams::check_ref,linfa_pls::PlsRegressionParams::check
#[kani::proof]
#[kani::stub(alloc::fmt::format, fmt_stub)]
fn c04_plsreg_iff_f64() {
    let (nc, it, tol): (usize, usize, f64) = (kani::any(), kani::any(), kani::any());
    let (scale, svd, canon, mode_b): (bool, bool, bool, bool) = (kani::any(), kani::any(), kani::any(), kani::any());
    kani::assume(tol.is_finite());
    kani::assume(!(tol == 0.0 && tol.is_sign_negative()));        // -0.0: unchecked corner, see header
    let before: PlsValidParams<f64> = inner::<f64>(nc, it, tol, scale, svd, canon, mode_b);
    let p = PlsRegressionParams(PlsRegressionValidParams(before.clone()));
    let in_range = tol >= 0.0 && it >= 1;
    let r = p.check_ref();
    assert!(r.is_ok() == in_range);                                // passes checking <=> documented range
    match &r {
        Ok(c) => assert!(c.0 == before),
        Err(PlsError::InvalidTolerance(_)) => assert!(!(tol >= 0.0)),
        Err(PlsError::ZeroMaxIter) => assert!(it == 0),
        Err(_) => assert!(false),
    }
    assert!(p.0.0 == before);                                      // check_ref leaves self unchanged
    let byval = PlsRegressionParams(PlsRegressionValidParams(before.clone())).check();
    assert!(byval.is_ok() == in_range);                            // same verdict by value
    match (&byval, &r) {
        (Ok(c), Ok(_)) => assert!(c.0 == before),               // payload is the inner value
        (Err(a), Err(b)) => assert!(same_err(a, b)),               // same error
        _ => assert!(false),
    }
    kani::cover!(in_range);
    kani::cover!(!in_range);
    kani::cover!(tol == 0.0 && it == 1);
    kani::cover!(tol < 0.0 && it == 0);
    kani::cover!(in_range && nc == 0);
}

// @unit class=complete tier=quick fns=linfa_pls::PlsRegressionParams::check_ref,linfa_pls::PlsRegressionParams::check
#[kani::proof]
#[kani::stub(alloc::fmt::format, fmt_stub)]
fn c04_plsreg_iff_f32() {
    let (nc, it, tol): (usize, usize, f32) = (kani::any(), kani::any(), kani::any());
    let (scale, svd, canon, mode_b): (bool, bool, bool, bool) = (kani::any(), kani::any(), kani::any(), kani::any());
    kani::assume(tol.is_finite());
    kani::assume(!(tol == 0.0 && tol.is_sign_negative()));        // -0.0: unchecked corner, see header
    let before: PlsValidParams<f32> = inner::<f32>(nc, it, tol, scale, svd, canon, mode_b);
    let p = PlsRegressionParams(PlsRegressionValidParams(before.clone()));
    let in_range = tol >= 0.0 && it >= 1;
    let r = p.check_ref();
    assert!(r.is_ok() == in_range);                                // passes checking <=> documented range
    match &r {
        Ok(c) => assert!(c.0 == before),
        Err(PlsError::InvalidTolerance(_)) => assert!(!(tol >= 0.0)),
        Err(PlsError::ZeroMaxIter) => assert!(it == 0),
        Err(_) => assert!(false),
    }
    assert!(p.0.0 == before);                                      // check_ref leaves self unchanged
    let byval = PlsRegressionParams(PlsRegressionValidParams(before.clone())).check();
    assert!(byval.is_ok() == in_range);                            // same verdict by value
    match (&byval, &r) {
        (Ok(c), Ok(_)) => assert!(c.0 == before),               // payload is the inner value
        (Err(a), Err(b)) => assert!(same_err(a, b)),               // same error
        _ => assert!(false),
    }
    kani::cover!(in_range);
    kani::cover!(!in_range);
    kani::cover!(tol == 0.0 && it == 1);
    kani::cover!(tol < 0.0 && it == 0);
    kani::cover!(in_range && nc == 0);
}

// @unit class=complete tier=quick fns=linfa_pls::PlsCanonicalParams::check_ref,linfa_pls::PlsCanonicalParams::check
#[kani::proof]
#[kani::stub(alloc::fmt::format, fmt_stub)]
fn c04_plscan_iff_f64() {
    let (nc, it, tol): (usize, usize, f64) = (kani::any(), kani::any(), kani::any());
    let (scale, svd, canon, mode_b): (bool, bool, bool, bool) = (kani::any(), kani::any(), kani::any(), kani::any());
    kani::assume(tol.is_finite());
    kani::assume(!(tol == 0.0 && tol.is_sign_negative()));        // -0.0: unchecked corner, see header
    let before: PlsValidParams<f64> = inner::<f64>(nc, it, tol, scale, svd, canon, mode_b);
    let p = PlsCanonicalParams(PlsCanonicalValidParams(before.clone()));
    let in_range = tol >= 0.0 && it >= 1;
    let r = p.check_ref();
    assert!(r.is_ok() == in_range);                                // passes checking <=> documented range
    match &r {
        Ok(c) => assert!(c.0 == before),
        Err(PlsError::InvalidTolerance(_)) => assert!(!(tol >= 0.0)),
        Err(PlsError::ZeroMaxIter) => assert!(it == 0),
        Err(_) => assert!(false),
    }
    assert!(p.0.0 == before);                                      // check_ref leaves self unchanged
    let byval = PlsCanonicalParams(PlsCanonicalValidParams(before.clone())).check();
    assert!(byval.is_ok() == in_range);                            // same verdict by value
    match (&byval, &r) {
        (Ok(c), Ok(_)) => assert!(c.0 == before),               // payload is the inner value
        (Err(a), Err(b)) => assert!(same_err(a, b)),               // same error
        _ => assert!(false),
    }
    kani::cover!(in_range);
    kani::cover!(!in_range);
    kani::cover!(tol == 0.0 && it == 1);
    kani::cover!(tol < 0.0 && it == 0);
    kani::cover!(in_range && nc == 0);
}

// @unit class=complete tier=quick fns=linfa_pls::PlsCanonicalParams::check_ref,linfa_pls::PlsCanonicalParams::check
#[kani::proof]
#[kani::stub(alloc::fmt::format, fmt_stub)]
fn c04_plscan_iff_f32() {
    let (nc, it, tol): (usize, usize, f32) = (kani::any(), kani::any(), kani::any());
    let (scale, svd, canon, mode_b): (bool, bool, bool, bool) = (kani::any(), kani::any(), kani::any(), kani::any());
    kani::assume(tol.is_finite());
    kani::assume(!(tol == 0.0 && tol.is_sign_negative()));        // -0.0: unchecked corner, see header
    let before: PlsValidParams<f32> = inner::<f32>(nc, it, tol, scale, svd, canon, mode_b);
    let p = PlsCanonicalParams(PlsCanonicalValidParams(before.clone()));
    let in_range = tol >= 0.0 && it >= 1;
    let r = p.check_ref();
    assert!(r.is_ok() == in_range);                                // passes checking <=> documented range
    match &r {
        Ok(c) => assert!(c.0 == before),
        Err(PlsError::InvalidTolerance(_)) => assert!(!(tol >= 0.0)),
        Err(PlsError::ZeroMaxIter) => assert!(it == 0),
        Err(_) => assert!(false),
    }
    assert!(p.0.0 == before);                                      // check_ref leaves self unchanged
    let byval = PlsCanonicalParams(PlsCanonicalValidParams(before.clone())).check();
    assert!(byval.is_ok() == in_range);                            // same verdict by value
    match (&byval, &r) {
        (Ok(c), Ok(_)) => assert!(c.0 == before),               // payload is the inner value
        (Err(a), Err(b)) => assert!(same_err(a, b)),               // same error
        _ => assert!(false),
    }
    kani::cover!(in_range);
    kani::cover!(!in_range);
    kani::cover!(tol == 0.0 && it == 1);
    kani::cover!(tol < 0.0 && it == 0);
    kani::cover!(in_range && nc == 0);
}

// @unit class=complete tier=quick fns=linfa_pls::PlsCcaParams::check_ref,linfa_pls::PlsCcaParams::check
#[kani::proof]
#[kani::stub(alloc::fmt::format, fmt_stub)]
fn c04_plscca_iff_f64() {
    let (nc, it, tol): (usize, usize, f64) = (kani::any(), kani::any(), kani::any());
    let (scale, svd, canon, mode_b): (bool, bool, bool, bool) = (kani::any(), kani::any(), kani::any(), kani::any());
    kani::assume(tol.is_finite());
    kani::assume(!(tol == 0.0 && tol.is_sign_negative()));        // -0.0: unchecked corner, see header
    let before: PlsValidParams<f64> = inner::<f64>(nc, it, tol, scale, svd, canon, mode_b);
    let p = PlsCcaParams(PlsCcaValidParams(before.clone()));
    let in_range = tol >= 0.0 && it >= 1;
    let r = p.check_ref();
    assert!(r.is_ok() == in_range);                                // passes checking <=> documented range
    match &r {
        Ok(c) => assert!(c.0 == before),
        Err(PlsError::InvalidTolerance(_)) => assert!(!(tol >= 0.0)),
        Err(PlsError::ZeroMaxIter) => assert!(it == 0),
        Err(_) => assert!(false),
    }
    assert!(p.0.0 == before);                                      // check_ref leaves self unchanged
    let byval = PlsCcaParams(PlsCcaValidParams(before.clone())).check();
    assert!(byval.is_ok() == in_range);                            // same verdict by value
    match (&byval, &r) {
        (Ok(c), Ok(_)) => assert!(c.0 == before),               // payload is the inner value
        (Err(a), Err(b)) => assert!(same_err(a, b)),               // same error
        _ => assert!(false),
    }
    kani::cover!(in_range);
    kani::cover!(!in_range);
    kani::cover!(tol == 0.0 && it == 1);
    kani::cover!(tol < 0.0 && it == 0);
    kani::cover!(in_range && nc == 0);
}

// @unit class=complete tier=quick fns=linfa_pls::PlsCcaParams::check_ref,linfa_pls::PlsCcaParams::check
#[kani::proof]
#[kani::stub(alloc::fmt::format, fmt_stub)]
fn c04_plscca_iff_f32() {
    let (nc, it, tol): (usize, usize, f32) = (kani::any(), kani::any(), kani::any());
    let (scale, svd, canon, mode_b): (bool, bool, bool, bool) = (kani::any(), kani::any(), kani::any(), kani::any());
    kani::assume(tol.is_finite());
    kani::assume(!(tol == 0.0 && tol.is_sign_negative()));        // -0.0: unchecked corner, see header
    let before: PlsValidParams<f32> = inner::<f32>(nc, it, tol, scale, svd, canon, mode_b);
    let p = PlsCcaParams(PlsCcaValidParams(before.clone()));
    let in_range = tol >= 0.0 && it >= 1;
    let r = p.check_ref();
    assert!(r.is_ok() == in_range);                                // passes checking <=> documented range
    match &r {
        Ok(c) => assert!(c.0 == before),
        Err(PlsError::InvalidTolerance(_)) => assert!(!(tol >= 0.0)),
        Err(PlsError::ZeroMaxIter) => assert!(it == 0),
        Err(_) => assert!(false),
    }
    assert!(p.0.0 == before);                                      // check_ref leaves self unchanged
    let byval = PlsCcaParams(PlsCcaValidParams(before.clone())).check();
    assert!(byval.is_ok() == in_range);                            // same verdict by value
    match (&byval, &r) {
        (Ok(c), Ok(_)) => assert!(c.0 == before),               // payload is the inner value
        (Err(a), Err(b)) => assert!(same_err(a, b)),               // same error
        _ => assert!(false),
    }
    kani::cover!(in_range);
    kani::cover!(!in_range);
    kani::cover!(tol == 0.0 && it == 1);
    kani::cover!(tol < 0.0 && it == 0);
    kani::cover!(in_range && nc == 0);
}
