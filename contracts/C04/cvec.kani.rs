//! property: C04
//! attach: algorithms/linfa-preprocessing/src/countgrams/hyperparams.rs
//! module: vk_c04_cvec
// @include common/prelude.rs
use super::*;

// Documented range of CountVectorizerParams (setter rustdoc in
// algorithms/linfa-preprocessing/src/countgrams/hyperparams.rs, #[error] texts in src/error.rs):
//   n_gram_range:        "`min_n` should not be greater than `max_n`"
//                        "n_gram boundaries cannot be zero (min = {0}, max = {1})"
//                        "n_gram min boundary cannot be greater than max boundary (min = {0}, max = {1})"
//                                                                         => 1 <= min_n <= max_n
//   document_frequency:  "`min_freq` and `max_freq` must lie in `0..=1` and `min_freq` should not be greater than `max_freq`"
//                        "document frequencies have to be between 0 and 1 (min = {0}, max = {1})"
//                        "min document frequency cannot be greater than max document frequency (min = {0}, max = {1})"
//                                                                         => 0 <= min_freq <= max_freq <= 1
//   the other attributes (lowercase, normalize, stopwords, max_features) have no range.
// The frequencies are f32 fields (the builder is not generic), so there is one instantiation.
// -0.0 needs no exclusion: the guard compares with `< 0.`, so -0.0 is accepted like 0.
//
// The success path of check_ref compiles `split_regex_expr` with regex::Regex::new. A `Regex` value cannot be
// fabricated by a stub and the regex engine is out of CBMC's reach, so `regex::Regex::new` is replaced by a ghost
// that records that compilation was reached and returns Err. What is proved is
//   "all range guards passed  <=>  regex compilation is reached; otherwise a range error is returned".
// Whether the expression is a valid regex (and hence whether the final verdict is Ok) is OUTSIDE the claim,
// and for the same reason the `Ok` payload of check() cannot be inspected here.
//
// EXPECTED on the pinned tree: c04_cvec_iff_documented FAILS (frequencies > 1 reach the regex compilation:
// the guard has no upper bound although `0..=1` is documented); c04_cvec_same_verdict holds.

static mut REGEX_REACHED: u32 = 0;
fn regex_stub(_re: &str) -> Result<regex::Regex, regex::Error> {
    unsafe { REGEX_REACHED += 1; }
    Err(regex::Error::Syntax(alloc::string::String::new()))
}

fn mk(lo: usize, hi: usize, fmin: f32, fmax: f32, lower: bool, norm: bool, mf: Option<usize>) -> CountVectorizerParams {
    CountVectorizerParams::default().n_gram_range(lo, hi).document_frequency(fmin, fmax)
        .convert_to_lowercase(lower).normalize(norm).max_features(mf)
}

fn range_err_kind(e: &PreprocessingError) -> u8 {
    match e {
        PreprocessingError::InvalidNGramBoundaries(..) => 1,
        PreprocessingError::FlippedNGramBoundaries(..) => 2,
        PreprocessingError::InvalidDocumentFrequencies(..) => 3,
        PreprocessingError::FlippedDocumentFrequencies(..) => 4,
        PreprocessingError::RegexError(_) => 5,
        _ => 0,
    }
}

// @unit class=complete tier=quick fns=linfa_preprocessing::CountVectorizerParams::check_ref
#[kani::proof]
#[kani::stub(alloc::fmt::format, fmt_stub)]
#[kani::stub(regex::Regex::new, regex_stub)]
fn c04_cvec_iff_documented() {
    let (lo, hi, fmin, fmax): (usize, usize, f32, f32) = (kani::any(), kani::any(), kani::any(), kani::any());
    let (lower, norm, mf): (bool, bool, Option<usize>) = (kani::any(), kani::any(), kani::any());
    kani::assume(fmin.is_finite() && fmax.is_finite());
    let p = mk(lo, hi, fmin, fmax, lower, norm, mf);
    let in_range = lo >= 1 && hi >= 1 && lo <= hi && fmin >= 0.0 && fmin <= 1.0 && fmax >= 0.0 && fmax <= 1.0 && fmin <= fmax;
    let r = p.check_ref();
    // "all range guards passed": the regex compilation was reached. Under Kani the ghost then returns Err, so
    // r.is_ok() is always false there; in the *native* replay of a counterexample stubs are not applied and the
    // real Regex::new runs, where passing the guards shows as Ok - the disjunction keeps both runs on one assertion.
    let passed = unsafe { REGEX_REACHED } == 1 || r.is_ok();
    assert!(passed == in_range);                                   // all range guards passed <=> documented range
    kani::cover!(in_range);
    kani::cover!(!in_range);
    kani::cover!(in_range && fmin == 0.0 && fmax == 1.0 && lo == 1 && hi == 1);
}

// The clauses that hold on the pinned tree.
// @unit class=complete tier=quick fns=linfa_preprocessing::CountVectorizerParams::check_ref,linfa_preprocessing::CountVectorizerParams::check
#[kani::proof]
#[kani::stub(alloc::fmt::format, fmt_stub)]
#[kani::stub(regex::Regex::new, regex_stub)]
fn c04_cvec_same_verdict() {
    let (lo, hi, fmin, fmax): (usize, usize, f32, f32) = (kani::any(), kani::any(), kani::any(), kani::any());
    let (lower, norm, mf): (bool, bool, Option<usize>) = (kani::any(), kani::any(), kani::any());
    kani::assume(fmin.is_finite() && fmax.is_finite());
    let p = mk(lo, hi, fmin, fmax, lower, norm, mf);
    let in_range = lo >= 1 && hi >= 1 && lo <= hi && fmin >= 0.0 && fmin <= 1.0 && fmax >= 0.0 && fmax <= 1.0 && fmin <= fmax;
    let k_ref = match p.check_ref() { Ok(_) => 9, Err(e) => range_err_kind(&e) };
    let reached_ref = unsafe { REGEX_REACHED };
    // "passed all range guards" = the regex compilation was reached (under Kani the ghost then yields RegexError, kind 5);
    // in a native replay stubs are not applied, the real Regex::new runs and passing shows as Ok (kind 9).
    let passed_ref = reached_ref == 1 || k_ref == 9;
    if passed_ref { assert!(k_ref == 5 || k_ref == 9); }
    // every documented-valid set passes all range guards
    if in_range { assert!(passed_ref); }
    // a set that passes them satisfies every documented constraint
    if passed_ref { assert!(in_range); }
    // otherwise the error is a range error naming a constraint that is really broken, and nothing was compiled
    if !passed_ref {
        assert!(k_ref >= 1 && k_ref <= 4 && reached_ref == 0);
        if k_ref == 1 { assert!(lo == 0 || hi == 0); }
        if k_ref == 2 { assert!(lo > hi); }
        if k_ref == 3 { assert!(fmin < 0.0 || fmax < 0.0 || fmin > 1.0 || fmax > 1.0); }   // "must lie in `0..=1`"
        if k_ref == 4 { assert!(fmax < fmin); }
    }
    assert!(reached_ref <= 1);
    // check_ref leaves self unchanged (the builder has no PartialEq: field by field; the regex cache - interior
    // mutability - is only filled by a successful compilation, which the ghost never delivers)
    assert!(p.0.n_gram_range == (lo, hi) && p.0.document_frequency == (fmin, fmax) && p.0.convert_to_lowercase == lower
            && p.0.normalize == norm && p.0.max_features == mf && p.0.stopwords.is_none() && p.0.tokenizer_function.is_none()
            && !p.0.tokenizer_deserialization_guard && (k_ref == 9 || p.0.split_regex.borrow().is_none()));
    // by value: same verdict, same error kind, regex compilation reached in exactly the same cases
    // (the Ok payload - unreachable under the ghost - is forgotten instead of dropped: the drop glue of a compiled
    //  `Regex` alone costs CBMC more than 10 min, and releasing memory is not part of the property)
    let k_val = match p.check() { Ok(c) => { core::mem::forget(c); 9 } Err(e) => range_err_kind(&e) };
    let reached_val = unsafe { REGEX_REACHED } - reached_ref;
    assert!(k_val == k_ref && reached_val == reached_ref);
    kani::cover!(in_range);
    kani::cover!(reached_ref == 0);
    kani::cover!(k_ref == 1);
    kani::cover!(k_ref == 2);
    kani::cover!(k_ref == 3);
    kani::cover!(k_ref == 4);
    kani::cover!(k_ref == 3 && fmax > 1.0);
}
