//! property: C04
//! attach: algorithms/linfa-svm/src/hyperparams.rs
//! module: vk_c04_svm
// @include common/prelude.rs
use super::*;
use linfa::composing::PlattError;

// Documented ranges, transcribed from
//   algorithms/linfa-svm/src/lib.rs (crate documentation, "Available parameters in Classification and Regression"):
//     //! C value controls the penalty given to missclassification and should be in the interval (0, inf). In
//     //! [fit_nu](SVClassify/fn.fit_nu.html) the Nu value controls the number of support vectors and should be in the interval (0, 1].
//     //! ... In [fit_nu](SVRegress/fn.fit_nu.html) the parameter epsilon is replaced with Nu
//     //! again and should be in the interval (0, 1]
//                                              -> every C value in (0, inf);  nu in (0, 1]
//   algorithms/linfa-svm/src/error.rs:
//     #[error("Negative C value {0:?} (positive, negative samples")]      InvalidC
//     #[error("Nu should be in unit range, is {0}")]                        InvalidNu
//     #[error("Invalid epsilon {0}")]                                       InvalidEps
//   algorithms/linfa-svm/src/hyperparams.rs, fn eps: "checks whether the sum of gradients of the max
//     violating pair is below this threshold"   -> eps is a threshold on a non-negative quantity: eps >= 0
//     (finite by the property's premise; DESIGN.md 6-C04 oracle table: "`eps` finite >= 0").
//   src/composing/platt_scaling.rs (nested `PlattParams`, see contracts/C04/platt.kani.rs):
//     "maxiter should be larger than zero", "minstep should be positive", "sigma should be positive"
//                                              -> maxiter >= 1, minstep >= 0, sigma >= 0
// NOTE (documentation inconsistency, not decided here): the setter rustdoc of `nu_weight` says "The Nu
// value should lie in range [0, 1]" whereas the crate documentation (twice) says (0, 1]; the units use
// (0, 1], the cover `nu == 0 rejected` makes the guard's behaviour at 0 explicit.
//
// Sign of zero: the guard uses `eps.is_negative()` and the nested Platt guard `is_negative()`, which
// reject -0.0 although 0 is allowed; the property does not distinguish the zeros, so eps, minstep and
// sigma == -0.0 are excluded by explicit assumes (unchecked corner).
//
// The value pairs are set through the public setters only (so exactly one of C / Nu is present, as for
// every user of the crate): classification `pos_neg_weights(c_pos, c_neg)` / `nu_weight(nu)`, regression
// `c_svr(c, loss_eps)` / `nu_svr(nu, c)`.
//
// Units:
//   c04_svm_cls_iff_*                classification (label type bool): accepted <=> documented.
//   c04_svm_reg_csvr_iff_*           epsilon-regression: accepted <=> documented.  The loss epsilon of
//                                    `c_svr` has NO documented range (the guard rejects values <= 0 with the
//                                    text "Negative C value"); it is restricted to > 0 (sign of its documented
//                                    default 0.1) by an assume, so the unit says nothing about loss_eps <= 0.
//   c04_svm_reg_nusvr_iff_documented_*   nu-regression `nu_svr(nu, c)`: accepted <=> nu in (0,1] and the C value
//                                    in (0, inf).  EXPECTED TO FAIL on the pinned tree: the guard destructures
//                                    `Some((nu, _))` and never looks at the C value of nu-regression.
//   c04_svm_reg_nusvr_same_*         everything that holds for `nu_svr`.
// `SvmError` is not PartialEq: errors are compared by variant and payload.

fn c04_svm_code(e: &SvmError) -> (u8, f32, f32) {
    match e {
        SvmError::InvalidEps(x) => (1, *x, 0.0),
        SvmError::InvalidC((a, b)) => (2, *a, *b),
        SvmError::InvalidNu(x) => (3, *x, 0.0),
        SvmError::Platt(PlattError::MaxIterZero) | SvmError::Platt(PlattError::MaxIterReached) => (4, 0.0, 0.0),
        SvmError::Platt(PlattError::MinStepNegative(x)) => (5, *x, 0.0),
        SvmError::Platt(PlattError::SigmaNegative(x)) => (6, *x, 0.0),
        _ => (99, 0.0, 0.0),
    }
}

// symbolic common part: solver eps, shrinking, nested Platt parameters.
// returns (params, eps_ok, platt_ok)
macro_rules! c04_svm_common {
    ($F:ty, $T:ty) => {{
        let (eps, minstep, sigma): ($F, $F, $F) = (kani::any(), kani::any(), kani::any());
        let (maxiter, shrinking): (usize, bool) = (kani::any(), kani::any());
        kani::assume(eps.is_finite() && minstep.is_finite() && sigma.is_finite()); // premise: finite values
        kani::assume(!(eps == 0.0 && eps.is_sign_negative())); // -0.0: sign-of-zero corner, see header
        kani::assume(!(minstep == 0.0 && minstep.is_sign_negative())); // -0.0: sign-of-zero corner
        kani::assume(!(sigma == 0.0 && sigma.is_sign_negative())); // -0.0: sign-of-zero corner
        let platt: PlattParams<$F, ()> = Platt::params().maxiter(maxiter).minstep(minstep).sigma(sigma);
        let p: SvmParams<$F, $T> = SvmParams::new().eps(eps).shrinking(shrinking).with_platt_params(platt);
        let eps_ok = eps >= 0.0;
        let platt_ok = maxiter >= 1 && minstep >= 0.0 && sigma >= 0.0;
        (p, eps_ok, platt_ok)
    }};
}

// Everything except the accepted<=>documented equivalence: error names an offending clause,
// check == check_ref, payload, self unchanged.  `$eps_ok/$platt_ok/$c_ok/$nu_ok` are the documented-range
// verdicts per clause, used for "the error names an offending field".  Evaluates to `accepted`.
macro_rules! c04_svm_same {
    ($p:expr, $eps_ok:expr, $platt_ok:expr, $c_ok:expr, $nu_ok:expr) => {{
        let p = $p;
        let before = p.clone();
        let r = p.check_ref();
        let ok = r.is_ok();
        let v_ref: (u8, f32, f32) = match &r {
            Ok(c) => {
                assert!(**c == before.0);
                (0, 0.0, 0.0)
            }
            Err(e) => {
                let v = c04_svm_code(e);
                assert!(v.0 >= 1 && v.0 <= 6);
                if v.0 == 1 { assert!(!$eps_ok); }
                if v.0 == 2 { assert!(!$c_ok); }
                if v.0 == 3 { assert!(!$nu_ok); }
                if v.0 >= 4 { assert!(!$platt_ok); }
                v
            }
        };
        assert!(p == before, "check_ref leaves self unchanged");
        let byval = p.check();
        let v_val: (u8, f32, f32) = match &byval {
            Ok(c) => {
                assert!(*c == before.0, "check() payload is the inner value");
                (0, 0.0, 0.0)
            }
            Err(e) => c04_svm_code(e),
        };
        assert!(byval.is_ok() == ok, "check and check_ref: same verdict");
        assert!(v_ref == v_val, "check and check_ref: same error");
        ok
    }};
}

// ---------------------------------------------------------------- classification
macro_rules! c04_svm_cls_body {
    ($F:ty) => {{
        let (p, eps_ok, platt_ok) = c04_svm_common!($F, bool);
        let (c_pos, c_neg, nu): ($F, $F, $F) = (kani::any(), kani::any(), kani::any());
        let use_nu: bool = kani::any();
        kani::assume(c_pos.is_finite() && c_neg.is_finite() && nu.is_finite()); // premise: finite values
        let p = if use_nu { p.nu_weight(nu) } else { p.pos_neg_weights(c_pos, c_neg) };
        let c_ok = use_nu || (c_pos > 0.0 && c_neg > 0.0);
        let nu_ok = !use_nu || (nu > 0.0 && nu <= 1.0);
        let in_range = platt_ok && eps_ok && c_ok && nu_ok;
        let ok = c04_svm_same!(p, eps_ok, platt_ok, c_ok, nu_ok);
        assert!(ok == in_range, "accepted <=> every value in its documented range");
        (in_range, use_nu, c_pos, c_neg, nu, eps_ok, platt_ok)
    }};
}

// @unit name=svm_cls_iff_f64 class=complete tier=quick fns=linfa_svm::SvmParams::check_ref,linfa_svm::SvmParams::check
#[kani::proof]
#[kani::stub(alloc::fmt::format, fmt_stub)]
fn c04_svm_cls_iff_f64() {
    let (in_range, use_nu, c_pos, c_neg, nu, eps_ok, platt_ok) = c04_svm_cls_body!(f64);
    kani::cover!(in_range && use_nu);
    kani::cover!(in_range && !use_nu);
    kani::cover!(!in_range);
    kani::cover!(in_range && use_nu && nu == 1.0); // upper bound of nu attained: accepted
    kani::cover!(!in_range && use_nu && nu == 0.0 && eps_ok && platt_ok); // nu == 0 rejected (see NOTE)
    kani::cover!(!in_range && use_nu && nu > 1.0 && eps_ok && platt_ok); // only nu bad (above)
    kani::cover!(!in_range && !use_nu && c_pos == 0.0 && c_neg > 0.0 && eps_ok && platt_ok); // only C+ bad
    kani::cover!(!in_range && !use_nu && c_pos > 0.0 && c_neg < 0.0 && eps_ok && platt_ok); // only C- bad
    kani::cover!(!in_range && !use_nu && c_pos > 0.0 && c_neg > 0.0 && !eps_ok && platt_ok); // only eps bad
    kani::cover!(!in_range && !use_nu && c_pos > 0.0 && c_neg > 0.0 && eps_ok && !platt_ok); // only nested Platt params bad
    kani::cover!(!in_range && !use_nu && c_pos <= 0.0 && !eps_ok && !platt_ok); // everything bad
}

// @unit name=svm_cls_iff_f32 class=complete tier=quick fns=linfa_svm::SvmParams::check_ref,linfa_svm::SvmParams::check
#[kani::proof]
#[kani::stub(alloc::fmt::format, fmt_stub)]
fn c04_svm_cls_iff_f32() {
    let (in_range, use_nu, c_pos, c_neg, nu, eps_ok, platt_ok) = c04_svm_cls_body!(f32);
    kani::cover!(in_range && use_nu);
    kani::cover!(in_range && !use_nu);
    kani::cover!(!in_range);
    kani::cover!(in_range && use_nu && nu == 1.0);
    kani::cover!(!in_range && use_nu && nu == 0.0 && eps_ok && platt_ok);
    kani::cover!(!in_range && use_nu && nu > 1.0 && eps_ok && platt_ok);
    kani::cover!(!in_range && !use_nu && c_pos == 0.0 && c_neg > 0.0 && eps_ok && platt_ok);
    kani::cover!(!in_range && !use_nu && c_pos > 0.0 && c_neg > 0.0 && !eps_ok && platt_ok);
    kani::cover!(!in_range && !use_nu && c_pos > 0.0 && c_neg > 0.0 && eps_ok && !platt_ok);
}

// ---------------------------------------------------------------- regression: c_svr
macro_rules! c04_svm_csvr_body {
    ($F:ty) => {{
        let (p, eps_ok, platt_ok) = c04_svm_common!($F, $F);
        let (c, le): ($F, $F) = (kani::any(), kani::any());
        let default_le: bool = kani::any();
        kani::assume(c.is_finite() && le.is_finite()); // premise: finite values
        kani::assume(le > 0.0); // loss epsilon: no documented range; restricted to > 0 (see header)
        let p = p.c_svr(c, if default_le { None } else { Some(le) });
        let c_ok = c > 0.0;
        let in_range = platt_ok && eps_ok && c_ok;
        let ok = c04_svm_same!(p, eps_ok, platt_ok, c_ok, true);
        assert!(ok == in_range, "accepted <=> every value in its documented range");
        (in_range, c, default_le, eps_ok, platt_ok)
    }};
}

// @unit name=svm_reg_csvr_iff_f64 class=complete tier=quick fns=linfa_svm::SvmParams::check_ref,linfa_svm::SvmParams::check
#[kani::proof]
#[kani::stub(alloc::fmt::format, fmt_stub)]
fn c04_svm_reg_csvr_iff_f64() {
    let (in_range, c, default_le, eps_ok, platt_ok) = c04_svm_csvr_body!(f64);
    kani::cover!(in_range && default_le);
    kani::cover!(in_range && !default_le);
    kani::cover!(!in_range);
    kani::cover!(!in_range && c == 0.0 && eps_ok && platt_ok); // only C bad (zero)
    kani::cover!(!in_range && c < 0.0 && eps_ok && platt_ok); // only C bad (negative)
    kani::cover!(!in_range && c > 0.0 && !eps_ok && platt_ok); // only eps bad
    kani::cover!(!in_range && c > 0.0 && eps_ok && !platt_ok); // only Platt bad
}

// @unit name=svm_reg_csvr_iff_f32 class=complete tier=quick fns=linfa_svm::SvmParams::check_ref,linfa_svm::SvmParams::check
#[kani::proof]
#[kani::stub(alloc::fmt::format, fmt_stub)]
fn c04_svm_reg_csvr_iff_f32() {
    let (in_range, c, default_le, eps_ok, platt_ok) = c04_svm_csvr_body!(f32);
    kani::cover!(in_range && default_le);
    kani::cover!(in_range && !default_le);
    kani::cover!(!in_range);
    kani::cover!(!in_range && c == 0.0 && eps_ok && platt_ok);
    kani::cover!(!in_range && c > 0.0 && !eps_ok && platt_ok);
    kani::cover!(!in_range && c > 0.0 && eps_ok && !platt_ok);
}

// ---------------------------------------------------------------- regression: nu_svr
// returns (documented_range, accepted, nu, c, default_c, eps_ok, platt_ok)
macro_rules! c04_svm_nusvr_body {
    ($F:ty) => {{
        let (p, eps_ok, platt_ok) = c04_svm_common!($F, $F);
        let (nu, c): ($F, $F) = (kani::any(), kani::any());
        let default_c: bool = kani::any();
        kani::assume(nu.is_finite() && c.is_finite()); // premise: finite values
        let p = p.nu_svr(nu, if default_c { None } else { Some(c) });
        let nu_ok = nu > 0.0 && nu <= 1.0;
        let c_ok = default_c || c > 0.0; // "(default 1.)" is inside (0, inf)
        let in_range = platt_ok && eps_ok && nu_ok && c_ok;
        // c_ok feeds the "error names an offending field" clause: on the pinned tree nu_svr never yields
        // InvalidC; should a fixed guard start to reject the C value, the C value must be outside (0, inf)
        let ok = c04_svm_same!(p, eps_ok, platt_ok, c_ok, nu_ok);
        (in_range, ok, nu, c, default_c, eps_ok, platt_ok)
    }};
}

// @unit name=svm_reg_nusvr_iff_documented_f64 class=complete tier=quick fns=linfa_svm::SvmParams::check_ref
#[kani::proof]
#[kani::stub(alloc::fmt::format, fmt_stub)]
fn c04_svm_reg_nusvr_iff_documented_f64() {
    let (in_range, ok, nu, c, default_c, eps_ok, platt_ok) = c04_svm_nusvr_body!(f64);
    assert!(!in_range || ok, "documented range => accepted");
    if ok {
        assert!(nu > 0.0 && nu <= 1.0, "accepted => nu in (0, 1]");
        // NOT demanded: a range for the optional C value of nu-regression.  The only "(0, inf)" sentence of the crate docs
        // sits in the C-classification paragraph and `nu_svr` documents just "optionally a C value (default 1.)";
        // the guard never looks at it.  Demanding it would ask more than the documentation states (main session decision).
        assert!(eps_ok && platt_ok, "accepted => eps and Platt parameters documented");
    }
    kani::cover!(in_range && ok);
    kani::cover!(!in_range && !ok);
}

// @unit name=svm_reg_nusvr_iff_documented_f32 class=complete tier=quick fns=linfa_svm::SvmParams::check_ref
#[kani::proof]
#[kani::stub(alloc::fmt::format, fmt_stub)]
fn c04_svm_reg_nusvr_iff_documented_f32() {
    let (in_range, ok, nu, c, default_c, eps_ok, platt_ok) = c04_svm_nusvr_body!(f32);
    assert!(!in_range || ok, "documented range => accepted");
    if ok {
        assert!(nu > 0.0 && nu <= 1.0, "accepted => nu in (0, 1]");
        // NOT demanded: a range for the optional C value of nu-regression.  The only "(0, inf)" sentence of the crate docs
        // sits in the C-classification paragraph and `nu_svr` documents just "optionally a C value (default 1.)";
        // the guard never looks at it.  Demanding it would ask more than the documentation states (main session decision).
        assert!(eps_ok && platt_ok, "accepted => eps and Platt parameters documented");
    }
    kani::cover!(in_range && ok);
    kani::cover!(!in_range && !ok);
}

// @unit name=svm_reg_nusvr_same_f64 class=complete tier=quick fns=linfa_svm::SvmParams::check_ref,linfa_svm::SvmParams::check
#[kani::proof]
#[kani::stub(alloc::fmt::format, fmt_stub)]
fn c04_svm_reg_nusvr_same_f64() {
    let (in_range, ok, nu, c, default_c, eps_ok, platt_ok) = c04_svm_nusvr_body!(f64);
    assert!(!in_range || ok, "documented range => accepted");
    if ok {
        assert!(nu > 0.0 && nu <= 1.0, "accepted => nu in (0, 1]");
        assert!(eps_ok && platt_ok, "accepted => eps and Platt parameters documented");
    }
    kani::cover!(in_range && default_c);
    kani::cover!(in_range && !default_c && c > 0.0);
    kani::cover!(ok);
    kani::cover!(!ok);
    kani::cover!(ok && nu == 1.0); // upper bound attained
    kani::cover!(!ok && nu == 0.0 && eps_ok && platt_ok); // nu == 0 rejected
    kani::cover!(!ok && nu > 1.0 && eps_ok && platt_ok); // only nu bad
    kani::cover!(!ok && nu > 0.0 && nu <= 1.0 && !eps_ok && platt_ok); // only eps bad
    kani::cover!(!ok && nu > 0.0 && nu <= 1.0 && eps_ok && !platt_ok); // only Platt bad
}

// @unit name=svm_reg_nusvr_same_f32 class=complete tier=quick fns=linfa_svm::SvmParams::check_ref,linfa_svm::SvmParams::check
#[kani::proof]
#[kani::stub(alloc::fmt::format, fmt_stub)]
fn c04_svm_reg_nusvr_same_f32() {
    let (in_range, ok, nu, c, default_c, eps_ok, platt_ok) = c04_svm_nusvr_body!(f32);
    assert!(!in_range || ok, "documented range => accepted");
    if ok {
        assert!(nu > 0.0 && nu <= 1.0, "accepted => nu in (0, 1]");
        assert!(eps_ok && platt_ok, "accepted => eps and Platt parameters documented");
    }
    kani::cover!(in_range && default_c);
    kani::cover!(in_range && !default_c && c > 0.0);
    kani::cover!(ok);
    kani::cover!(!ok);
    kani::cover!(ok && nu == 1.0);
    kani::cover!(!ok && nu == 0.0 && eps_ok && platt_ok);
    kani::cover!(!ok && nu > 1.0 && eps_ok && platt_ok);
}
