//! property: C04
//! attach: src/param_guard.rs
//! module: vk_c04_blanket
// @include common/prelude.rs
use super::*;
use crate::dataset::DatasetBase;

// Property C04, second sentence: "calling fit, fit_with or transform directly on the unchecked builder returns
// exactly that error - it neither panics nor trains - while a valid builder behaves exactly like its checked form."
// src/param_guard.rs documents the three blanket impls the same way:
//   "Performs checking step and calls `fit` on the checked hyperparameters. If checking failed, the checking error
//    is converted to the original error type of `Fit` and returned."   (likewise `fit_with`)
//   "Performs the checking step and calls `transform` on the checked hyperparameters. Returns error if checking
//    was unsuccessful."
//
// Contract witness (class=modular): `MockParams` is an arbitrary ParamGuard implementation - its check_ref verdict,
// its error value, the checked value, the outcome of training and the dataset are all symbolic and constrained by
// nothing but the ParamGuard / Fit / FitWith / Transformer signatures. Training is observable through the ghost
// counter TRAIN_CALLS, which only `Checked::{fit, fit_with, transform}` increment. The impls under proof are
// generic and loop-free, so what is shown for the witness holds for every P.

#[derive(Debug, Clone, Copy, PartialEq)]
struct MockErr(u8);
impl core::fmt::Display for MockErr { fn fmt(&self, _f: &mut core::fmt::Formatter<'_>) -> core::fmt::Result { Ok(()) } }
impl std::error::Error for MockErr {}

#[derive(Debug, PartialEq)]
enum TrainErr { Param(u8), Base, Train(u8) }
impl core::fmt::Display for TrainErr { fn fmt(&self, _f: &mut core::fmt::Formatter<'_>) -> core::fmt::Result { Ok(()) } }
impl std::error::Error for TrainErr {}
impl From<crate::error::Error> for TrainErr { fn from(_e: crate::error::Error) -> Self { TrainErr::Base } }
impl From<MockErr> for TrainErr { fn from(e: MockErr) -> Self { TrainErr::Param(e.0) } }

struct Rec { tag: u8 }
impl Records for Rec {
    type Elem = u8;
    fn nsamples(&self) -> usize { 1 }
    fn nfeatures(&self) -> usize { 1 }
}

struct Checked { v: u8, train_fails: bool }
struct MockParams { verdict_ok: bool, err: u8, c: Checked }
static mut TRAIN_CALLS: u32 = 0;
static mut CHECK_CALLS: u32 = 0;

impl ParamGuard for MockParams {
    type Checked = Checked;
    type Error = MockErr;
    fn check_ref(&self) -> Result<&Checked, MockErr> {
        unsafe { CHECK_CALLS += 1; }
        if self.verdict_ok { Ok(&self.c) } else { Err(MockErr(self.err)) }
    }
    fn check(self) -> Result<Checked, MockErr> {
        unsafe { CHECK_CALLS += 1; }
        if self.verdict_ok { Ok(self.c) } else { Err(MockErr(self.err)) }
    }
}
impl TransformGuard for MockParams {}

impl Fit<Rec, u8, TrainErr> for Checked {
    type Object = (u8, u8, u8);
    fn fit(&self, d: &DatasetBase<Rec, u8>) -> Result<(u8, u8, u8), TrainErr> {
        unsafe { TRAIN_CALLS += 1; }
        if self.train_fails { Err(TrainErr::Train(self.v)) } else { Ok((self.v, d.records.tag, d.targets)) }
    }
}
impl<'a> FitWith<'a, Rec, u8, TrainErr> for Checked {
    type ObjectIn = u8;
    type ObjectOut = (u8, u8, u8, u8);
    fn fit_with(&self, model: u8, d: &'a DatasetBase<Rec, u8>) -> Result<(u8, u8, u8, u8), TrainErr> {
        unsafe { TRAIN_CALLS += 1; }
        if self.train_fails { Err(TrainErr::Train(self.v)) } else { Ok((self.v, model, d.records.tag, d.targets)) }
    }
}
impl Transformer<Rec, (u8, u8)> for Checked {
    fn transform(&self, x: Rec) -> (u8, u8) {
        unsafe { TRAIN_CALLS += 1; }
        (self.v, x.tag)
    }
}

// an arbitrary dataset: symbolic record tag and target, and sample weights that are absent, consistent with the one
// sample, or of a different length (the blanket impls must not look at the dataset before the guard has spoken)
fn any_dataset() -> DatasetBase<Rec, u8> {
    let ds: DatasetBase<Rec, u8> = DatasetBase::new(Rec { tag: kani::any() }, kani::any());
    let wl: u8 = kani::any();
    kani::assume(wl < 3);
    match wl {
        0 => ds,
        1 => ds.with_weights(ndarray::Array1::from(vec![0.5f32])),
        _ => ds.with_weights(ndarray::Array1::from(vec![0.5f32, 1.5])),
    }
}

fn any_params() -> MockParams {
    MockParams { verdict_ok: kani::any(), err: kani::any(), c: Checked { v: kani::any(), train_fails: kani::any() } }
}

// @unit class=modular tier=quick fns=linfa::param_guard::Fit::fit
#[kani::proof]
#[kani::stub(alloc::fmt::format, fmt_stub)]
fn c04_blanket_fit() {
    let p = any_params();
    let ds = any_dataset();
    let r: Result<(u8, u8, u8), TrainErr> = p.fit(&ds);             // the blanket impl (MockParams has no own Fit)
    let (checks, trains) = unsafe { (CHECK_CALLS, TRAIN_CALLS) };
    if p.verdict_ok {
        let direct = p.c.fit(&ds);                                  // the checked form
        assert!(r == direct);                                       // behaves exactly like its checked form
        assert!(trains == 1);
    } else {
        assert!(r == Err(TrainErr::from(MockErr(p.err))));          // exactly that error, converted by From
        assert!(trains == 0);                                       // does not train
    }
    assert!(checks == 1);
    kani::cover!(p.verdict_ok && r.is_ok());
    kani::cover!(p.verdict_ok && r.is_ok() && ds.weights().map(|w| w.len()) == Some(2));
    kani::cover!(p.verdict_ok && r.is_err());
    kani::cover!(!p.verdict_ok && p.c.train_fails);
    kani::cover!(!p.verdict_ok && !p.c.train_fails);
}

// @unit class=modular tier=quick fns=linfa::param_guard::FitWith::fit_with
#[kani::proof]
#[kani::stub(alloc::fmt::format, fmt_stub)]
fn c04_blanket_fit_with() {
    let p = any_params();
    let ds = any_dataset();
    let model: u8 = kani::any();
    let r: Result<(u8, u8, u8, u8), TrainErr> = p.fit_with(model, &ds);
    let (checks, trains) = unsafe { (CHECK_CALLS, TRAIN_CALLS) };
    if p.verdict_ok {
        let direct = p.c.fit_with(model, &ds);
        assert!(r == direct);
        assert!(trains == 1);
    } else {
        assert!(r == Err(TrainErr::from(MockErr(p.err))));
        assert!(trains == 0);
    }
    assert!(checks == 1);
    kani::cover!(p.verdict_ok && r.is_ok());
    kani::cover!(p.verdict_ok && r.is_err());
    kani::cover!(!p.verdict_ok);
}

// @unit class=modular tier=quick fns=linfa::param_guard::Transformer::transform
#[kani::proof]
#[kani::stub(alloc::fmt::format, fmt_stub)]
fn c04_blanket_transform() {
    let p = any_params();
    let tag: u8 = kani::any();
    let r: Result<(u8, u8), MockErr> = p.transform(Rec { tag });    // blanket impl via TransformGuard
    let (checks, trains) = unsafe { (CHECK_CALLS, TRAIN_CALLS) };
    if p.verdict_ok {
        let direct = p.c.transform(Rec { tag });
        assert!(r == Ok(direct));                                   // the checked form's output, wrapped in Ok
        assert!(trains == 1);
    } else {
        assert!(r == Err(MockErr(p.err)));                          // exactly that error
        assert!(trains == 0);                                       // does not transform
    }
    assert!(checks == 1);
    kani::cover!(p.verdict_ok);
    kani::cover!(!p.verdict_ok);
}
