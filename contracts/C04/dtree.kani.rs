//! property: C04
//! attach: algorithms/linfa-trees/src/decision_trees/hyperparams.rs
//! module: vk_c04_dtree
// @include common/prelude.rs
use super::*;
use linfa::ParamGuard;

// Documented range of DecisionTreeParams (algorithms/linfa-trees/src/decision_trees/hyperparams.rs):
//   error text of the only guard:
//     "Minimum impurity decrease should be greater than zero, but was {}"      => min_impurity_decrease > 0
//   setter docs of split_quality / max_depth / min_weight_split / min_weight_leaf give no range
//     ("Sets the optional limit to the depth of the decision tree", "Sets the minimum weight of samples
//      required to split a node.", ...)                                         => unconstrained
// The oracle is `min_impurity_decrease > 0`; it is NOT taken from the guard (`< F::epsilon()`).

fn mk<F: Float>(gini: bool, depth: Option<usize>, ws: f32, wl: f32, mid: F) -> DecisionTreeParams<F, usize> {
    DecisionTreeParams::<F, usize>::new()
        .split_quality(if gini { SplitQuality::Gini } else { SplitQuality::Entropy })
        .max_depth(depth)
        .min_weight_split(ws)
        .min_weight_leaf(wl)
        .min_impurity_decrease(mid)
}

// ---- iff: fails on the pinned tree for 0 < min_impurity_decrease < F::EPSILON (guard stricter than its error text)
// @unit class=complete tier=quick fns=linfa_trees::DecisionTreeParams::check_ref
#[kani::proof]
#[kani::stub(alloc::fmt::format, fmt_stub)]
fn c04_dtree_iff_documented_f64() {
    let (gini, depth, ws, wl, mid): (bool, Option<usize>, f32, f32, f64) = (kani::any(), kani::any(), kani::any(), kani::any(), kani::any());
    kani::assume(ws.is_finite() && wl.is_finite() && mid.is_finite());
    let p = mk::<f64>(gini, depth, ws, wl, mid);
    let in_range = mid > 0.0;
    assert!(p.check_ref().is_ok() == in_range);
    kani::cover!(in_range);
    kani::cover!(!in_range);
}

// @unit class=complete tier=quick fns=linfa_trees::DecisionTreeParams::check_ref
#[kani::proof]
#[kani::stub(alloc::fmt::format, fmt_stub)]
fn c04_dtree_iff_documented_f32() {
    let (gini, depth, ws, wl, mid): (bool, Option<usize>, f32, f32, f32) = (kani::any(), kani::any(), kani::any(), kani::any(), kani::any());
    kani::assume(ws.is_finite() && wl.is_finite() && mid.is_finite());
    let p = mk::<f32>(gini, depth, ws, wl, mid);
    let in_range = mid > 0.0;
    assert!(p.check_ref().is_ok() == in_range);
    kani::cover!(in_range);
    kani::cover!(!in_range);
}

// ---- the clauses that hold on the pinned tree: nothing outside the documented range is accepted,
//      check == check_ref (verdict and error variant), Ok payload == inner value, self unchanged.
// @unit class=complete tier=quick fns=linfa_trees::DecisionTreeParams::check_ref,linfa_trees::DecisionTreeParams::check
#[kani::proof]
#[kani::stub(alloc::fmt::format, fmt_stub)]
fn c04_dtree_same_verdict_f64() {
    let (gini, depth, ws, wl, mid): (bool, Option<usize>, f32, f32, f64) = (kani::any(), kani::any(), kani::any(), kani::any(), kani::any());
    kani::assume(ws.is_finite() && wl.is_finite() && mid.is_finite());
    let p = mk::<f64>(gini, depth, ws, wl, mid);
    let before = p.clone();
    let r = p.check_ref();
    let ok = r.is_ok();
    if ok { assert!(mid > 0.0); }                       // accepted => documented range
    if mid <= 0.0 { assert!(matches!(r, Err(Error::Parameters(_)))); }
    if let Ok(c) = r {
        assert!(*c == before.0);
        assert!(c.max_depth() == depth && c.min_weight_split() == ws && c.min_weight_leaf() == wl && c.min_impurity_decrease() == mid);
        assert!(c.split_quality() == if gini { SplitQuality::Gini } else { SplitQuality::Entropy });
    }
    assert!(p == before);                                // check_ref leaves self unchanged
    let byval = p.check();
    assert!(byval.is_ok() == ok);                        // same verdict
    match &byval {
        Ok(c) => assert!(*c == before.0),                // payload is the inner value
        Err(e) => assert!(matches!(e, Error::Parameters(_))),
    }
    kani::cover!(ok);
    kani::cover!(!ok);
    kani::cover!(ok && depth.is_none() && ws < 0.0);
}

// @unit class=complete tier=quick fns=linfa_trees::DecisionTreeParams::check_ref,linfa_trees::DecisionTreeParams::check
#[kani::proof]
#[kani::stub(alloc::fmt::format, fmt_stub)]
fn c04_dtree_same_verdict_f32() {
    let (gini, depth, ws, wl, mid): (bool, Option<usize>, f32, f32, f32) = (kani::any(), kani::any(), kani::any(), kani::any(), kani::any());
    kani::assume(ws.is_finite() && wl.is_finite() && mid.is_finite());
    let p = mk::<f32>(gini, depth, ws, wl, mid);
    let before = p.clone();
    let r = p.check_ref();
    let ok = r.is_ok();
    if ok { assert!(mid > 0.0); }
    if mid <= 0.0 { assert!(matches!(r, Err(Error::Parameters(_)))); }
    if let Ok(c) = r { assert!(*c == before.0); }
    assert!(p == before);
    let byval = p.check();
    assert!(byval.is_ok() == ok);
    match &byval {
        Ok(c) => assert!(*c == before.0),
        Err(e) => assert!(matches!(e, Error::Parameters(_))),
    }
    kani::cover!(ok);
    kani::cover!(!ok);
}
