//! property: C04
//! attach: algorithms/linfa-logistic/src/hyperparams.rs
//! module: vk_c04_logistic
// @include common/prelude.rs
use super::*;
use ndarray::{Array1, Array2, Ix1, Ix2};

// Documented ranges, transcribed from the error texts in algorithms/linfa-logistic/src/error.rs:
//     #[error("alpha must be a positive, finite number")]                -> alpha finite, alpha >= 0 (*)
//     #[error("gradient_tolerance must be a positive, finite number")]   -> gradient_tolerance finite, > 0
//     #[error("Initial parameters must be finite")]                      -> every initial parameter finite
// max_iterations / with_intercept: no range documented.
// (*) DESIGN.md section 6-C04 oracle table: `alpha` "positive" is read as non-negative (alpha is an L2
//     penalty weight, "Setting `alpha` close to zero removes regularization", src/lib.rs); under the
//     strict reading alpha > 0 the guard would be laxer than the text at alpha == 0 -- the covers
//     `ok && alpha == 0.0` below make that acceptance explicit.
// Because finiteness is itself part of the documented range here, the float fields are NOT assumed
// finite: the units quantify over every bit pattern incl. NaN and +-inf.  Hence "self unchanged" is
// compared bit-wise (NaN != NaN under PartialEq).
// `Error` is not PartialEq; the three hyper-parameter errors are unit variants, compared by variant.

fn c04_logistic_code(e: &Error) -> u8 {
    match e {
        Error::InvalidAlpha => 1,
        Error::InvalidGradientTolerance => 2,
        Error::InvalidInitialParameters => 3,
        _ => 9,
    }
}

// scalar fields, initial_params = None.  $D: Ix1 (LogisticRegression) or Ix2 (MultiLogisticRegression)
macro_rules! c04_logistic_scalar_body {
    ($F:ty, $D:ty) => {{
        let (alpha, gt): ($F, $F) = (kani::any(), kani::any());
        let (it, icpt): (u64, bool) = (kani::any(), kani::any());
        let p: LogisticRegressionParams<$F, $D> = LogisticRegressionParams::new()
            .alpha(alpha)
            .gradient_tolerance(gt)
            .max_iterations(it)
            .with_intercept(icpt);
        let alpha_ok = alpha.is_finite() && alpha >= 0.0;
        let gt_ok = gt.is_finite() && gt > 0.0;
        let in_range = alpha_ok && gt_ok;
        let r = p.check_ref();
        assert!(r.is_ok() == in_range);
        let v_ref: u8 = match &r {
            Ok(c) => {
                assert!(c.alpha == alpha && c.gradient_tolerance == gt && c.max_iterations == it);
                assert!(c.fit_intercept == icpt && c.initial_params.is_none());
                0
            }
            Err(e) => {
                let code = c04_logistic_code(e);
                assert!(code == 1 || code == 2); // a hyper-parameter error naming an offending field
                if code == 1 { assert!(!alpha_ok); }
                if code == 2 { assert!(!gt_ok); }
                code
            }
        };
        // check_ref leaves self unchanged (bit-wise)
        assert!(p.0.alpha.to_bits() == alpha.to_bits() && p.0.gradient_tolerance.to_bits() == gt.to_bits());
        assert!(p.0.max_iterations == it && p.0.fit_intercept == icpt && p.0.initial_params.is_none());
        let byval = p.check();
        let v_val: u8 = match &byval {
            Ok(c) => {
                // payload is the inner value
                assert!(c.alpha.to_bits() == alpha.to_bits() && c.gradient_tolerance.to_bits() == gt.to_bits());
                assert!(c.max_iterations == it && c.fit_intercept == icpt && c.initial_params.is_none());
                0
            }
            Err(e) => c04_logistic_code(e),
        };
        assert!(byval.is_ok() == in_range);
        assert!(v_ref == v_val); // same verdict, same error
        (in_range, alpha, gt)
    }};
}

// @unit name=logistic_scalar_ix1_f64 class=complete tier=quick fns=linfa_logistic::LogisticRegressionParams::check_ref,linfa_logistic::LogisticRegressionParams::check
#[kani::proof]
#[kani::stub(alloc::fmt::format, fmt_stub)]
fn c04_logistic_scalar_ix1_f64() {
    let (in_range, alpha, gt) = c04_logistic_scalar_body!(f64, Ix1);
    kani::cover!(in_range);
    kani::cover!(!in_range);
    kani::cover!(in_range && alpha == 0.0); // alpha == 0 accepted, see (*)
    kani::cover!(!in_range && alpha >= 0.0 && gt == 0.0); // only gradient_tolerance bad (zero)
    kani::cover!(!in_range && alpha < 0.0 && gt > 0.0 && gt.is_finite()); // only alpha bad (negative)
    kani::cover!(!in_range && alpha == f64::INFINITY && gt > 0.0 && gt.is_finite()); // alpha infinite
    kani::cover!(!in_range && alpha >= 0.0 && alpha.is_finite() && gt == f64::INFINITY); // tolerance infinite
    kani::cover!(!in_range && alpha.is_nan());
    kani::cover!(!in_range && alpha >= 0.0 && alpha.is_finite() && gt.is_nan());
}

// @unit name=logistic_scalar_ix1_f32 class=complete tier=quick fns=linfa_logistic::LogisticRegressionParams::check_ref,linfa_logistic::LogisticRegressionParams::check
#[kani::proof]
#[kani::stub(alloc::fmt::format, fmt_stub)]
fn c04_logistic_scalar_ix1_f32() {
    let (in_range, alpha, gt) = c04_logistic_scalar_body!(f32, Ix1);
    kani::cover!(in_range);
    kani::cover!(!in_range);
    kani::cover!(in_range && alpha == 0.0);
    kani::cover!(!in_range && alpha >= 0.0 && gt == 0.0);
    kani::cover!(!in_range && alpha < 0.0 && gt > 0.0 && gt.is_finite());
    kani::cover!(!in_range && alpha == f32::INFINITY && gt > 0.0 && gt.is_finite());
    kani::cover!(!in_range && alpha.is_nan());
}

// @unit name=logistic_scalar_ix2_f64 class=complete tier=quick fns=linfa_logistic::LogisticRegressionParams::check_ref,linfa_logistic::LogisticRegressionParams::check
#[kani::proof]
#[kani::stub(alloc::fmt::format, fmt_stub)]
fn c04_logistic_scalar_ix2_f64() {
    let (in_range, alpha, gt) = c04_logistic_scalar_body!(f64, Ix2);
    kani::cover!(in_range);
    kani::cover!(!in_range);
    kani::cover!(in_range && alpha == 0.0);
    kani::cover!(!in_range && alpha >= 0.0 && gt == 0.0);
    kani::cover!(!in_range && alpha < 0.0 && gt > 0.0 && gt.is_finite());
}

// @unit name=logistic_scalar_ix2_f32 class=complete tier=quick fns=linfa_logistic::LogisticRegressionParams::check_ref,linfa_logistic::LogisticRegressionParams::check
#[kani::proof]
#[kani::stub(alloc::fmt::format, fmt_stub)]
fn c04_logistic_scalar_ix2_f32() {
    let (in_range, alpha, gt) = c04_logistic_scalar_body!(f32, Ix2);
    kani::cover!(in_range);
    kani::cover!(!in_range);
    kani::cover!(in_range && alpha == 0.0);
    kani::cover!(!in_range && alpha >= 0.0 && gt == 0.0);
    kani::cover!(!in_range && alpha < 0.0 && gt > 0.0 && gt.is_finite());
}

// ---------------------------------------------------------------- bounded: initial_params present
// `initial_params` is an array, the guard iterates over it: concrete small shapes, symbolic values
// (every bit pattern incl. NaN/inf), symbolic scalar fields.  `$arr` is the array built from the first
// `$n` (concrete, <= 3) elements of the symbolic `$vals: [F; 3]`.
macro_rules! c04_logistic_init_body {
    ($F:ty, $D:ty, $n:expr, $arr:expr, $vals:expr) => {{
        let (alpha, gt): ($F, $F) = (kani::any(), kani::any());
        let p: LogisticRegressionParams<$F, $D> =
            LogisticRegressionParams::new().alpha(alpha).gradient_tolerance(gt).initial_params($arr);
        let alpha_ok = alpha.is_finite() && alpha >= 0.0;
        let gt_ok = gt.is_finite() && gt > 0.0;
        let mut init_ok = true;
        let mut i = 0;
        while i < $n {
            init_ok = init_ok && $vals[i].is_finite();
            i += 1;
        }
        let in_range = alpha_ok && gt_ok && init_ok;
        let r = p.check_ref();
        assert!(r.is_ok() == in_range);
        let v_ref: u8 = match &r {
            Ok(_) => 0,
            Err(e) => {
                let code = c04_logistic_code(e);
                assert!(code == 1 || code == 2 || code == 3);
                if code == 1 { assert!(!alpha_ok); }
                if code == 2 { assert!(!gt_ok); }
                if code == 3 { assert!(!init_ok); }
                code
            }
        };
        // self unchanged, bit-wise, incl. every initial parameter
        assert!(p.0.alpha.to_bits() == alpha.to_bits() && p.0.gradient_tolerance.to_bits() == gt.to_bits());
        {
            let a = p.0.initial_params.as_ref().unwrap();
            assert!(a.len() == $n);
            let s = a.as_slice().unwrap();
            let mut i = 0;
            while i < $n {
                assert!(s[i].to_bits() == $vals[i].to_bits());
                i += 1;
            }
        }
        let byval = p.check();
        let v_val: u8 = match &byval {
            Ok(c) => {
                assert!(c.alpha.to_bits() == alpha.to_bits() && c.gradient_tolerance.to_bits() == gt.to_bits());
                let s = c.initial_params.as_ref().unwrap().as_slice().unwrap();
                assert!(s.len() == $n);
                let mut i = 0;
                while i < $n {
                    assert!(s[i].to_bits() == $vals[i].to_bits());
                    i += 1;
                }
                0
            }
            Err(e) => c04_logistic_code(e),
        };
        assert!(byval.is_ok() == in_range);
        assert!(v_ref == v_val);
        (in_range, alpha_ok, gt_ok, init_ok)
    }};
}

// One harness per concrete length 0..=3 (measured: a symbolic length n <= 3 costs 150-580 s per harness,
// all four lengths one after the other in one harness 90-210 s, one concrete length alone 5-15 s).
macro_rules! c04_logistic_init_ix1_n {
    ($F:ty, $n:expr) => {{
        let vals: [$F; 3] = kani::any();
        let arr = Array1::from_vec(vals[..$n].to_vec());
        let (in_range, alpha_ok, gt_ok, init_ok) = c04_logistic_init_body!($F, Ix1, $n, arr, vals);
        (in_range, alpha_ok, gt_ok, init_ok, vals)
    }};
}
// MultiLogisticRegression: 2-d initial parameters of shape $shape with $n = rows*cols elements
macro_rules! c04_logistic_init_ix2_n {
    ($F:ty, $n:expr, $shape:expr) => {{
        let vals: [$F; 3] = kani::any();
        let arr = Array2::from_shape_vec($shape, vals[..$n].to_vec()).unwrap();
        let (in_range, alpha_ok, gt_ok, init_ok) = c04_logistic_init_body!($F, Ix2, $n, arr, vals);
        (in_range, alpha_ok, gt_ok, init_ok, vals)
    }};
}

// @unit name=logistic_init_ix1_n0_f64 class=bounded tier=quick bound="len=0" fns=linfa_logistic::LogisticRegressionParams::check_ref,linfa_logistic::LogisticRegressionParams::check
#[kani::proof]
#[kani::unwind(5)]
#[kani::stub(alloc::fmt::format, fmt_stub)]
fn c04_logistic_init_ix1_n0_f64() {
    let (in_range, a, g, init_ok, _) = c04_logistic_init_ix1_n!(f64, 0);
    assert!(init_ok); // empty array: vacuously finite
    kani::cover!(in_range);
    kani::cover!(!in_range);
    kani::cover!(a && !g);
}

// @unit name=logistic_init_ix1_n1_f64 class=bounded tier=quick bound="len=1" fns=linfa_logistic::LogisticRegressionParams::check_ref,linfa_logistic::LogisticRegressionParams::check
#[kani::proof]
#[kani::unwind(5)]
#[kani::stub(alloc::fmt::format, fmt_stub)]
fn c04_logistic_init_ix1_n1_f64() {
    let (in_range, a, g, init_ok, v) = c04_logistic_init_ix1_n!(f64, 1);
    kani::cover!(in_range);
    kani::cover!(a && g && !init_ok); // only the single initial parameter bad
    kani::cover!(a && g && v[0] == f64::NEG_INFINITY);
    kani::cover!(in_range && v[1].is_nan() && v[2].is_nan()); // values beyond the length are irrelevant
}

// @unit name=logistic_init_ix1_n2_f64 class=bounded tier=quick bound="len=2" fns=linfa_logistic::LogisticRegressionParams::check_ref,linfa_logistic::LogisticRegressionParams::check
#[kani::proof]
#[kani::unwind(5)]
#[kani::stub(alloc::fmt::format, fmt_stub)]
fn c04_logistic_init_ix1_n2_f64() {
    let (in_range, a, g, init_ok, v) = c04_logistic_init_ix1_n!(f64, 2);
    kani::cover!(in_range && v[2].is_nan()); // NaN beyond the length is irrelevant
    kani::cover!(a && g && !init_ok && v[0].is_finite() && v[1] == f64::INFINITY); // only the last one bad
    kani::cover!(a && g && !init_ok && v[0].is_nan() && v[1].is_finite()); // only the first one bad
}

// @unit name=logistic_init_ix1_n3_f64 class=bounded tier=quick bound="len=3" fns=linfa_logistic::LogisticRegressionParams::check_ref,linfa_logistic::LogisticRegressionParams::check
#[kani::proof]
#[kani::unwind(5)]
#[kani::stub(alloc::fmt::format, fmt_stub)]
fn c04_logistic_init_ix1_n3_f64() {
    let (in_range, a, g, init_ok, v) = c04_logistic_init_ix1_n!(f64, 3);
    kani::cover!(in_range);
    kani::cover!(!in_range);
    kani::cover!(a && g && !init_ok && v[0].is_finite() && v[1].is_finite() && v[2].is_nan()); // last one NaN
    kani::cover!(a && g && !init_ok && v[0] == f64::NEG_INFINITY && v[1].is_finite() && v[2].is_finite()); // first one -inf
    kani::cover!(a && g && !init_ok && v[0].is_finite() && v[1] == f64::INFINITY && v[2].is_finite()); // middle one +inf
    kani::cover!(!a && g && init_ok); // only alpha bad
    kani::cover!(a && !g && init_ok); // only gradient_tolerance bad
}

// @unit name=logistic_init_ix1_n0_f32 class=bounded tier=quick bound="len=0" fns=linfa_logistic::LogisticRegressionParams::check_ref,linfa_logistic::LogisticRegressionParams::check
#[kani::proof]
#[kani::unwind(5)]
#[kani::stub(alloc::fmt::format, fmt_stub)]
fn c04_logistic_init_ix1_n0_f32() {
    let (in_range, a, g, init_ok, _) = c04_logistic_init_ix1_n!(f32, 0);
    assert!(init_ok); // empty array: vacuously finite
    kani::cover!(in_range);
    kani::cover!(!in_range);
    kani::cover!(a && !g);
}

// @unit name=logistic_init_ix1_n1_f32 class=bounded tier=quick bound="len=1" fns=linfa_logistic::LogisticRegressionParams::check_ref,linfa_logistic::LogisticRegressionParams::check
#[kani::proof]
#[kani::unwind(5)]
#[kani::stub(alloc::fmt::format, fmt_stub)]
fn c04_logistic_init_ix1_n1_f32() {
    let (in_range, a, g, init_ok, v) = c04_logistic_init_ix1_n!(f32, 1);
    kani::cover!(in_range);
    kani::cover!(a && g && !init_ok); // only the single initial parameter bad
    kani::cover!(a && g && v[0] == f32::NEG_INFINITY);
    kani::cover!(in_range && v[1].is_nan() && v[2].is_nan()); // values beyond the length are irrelevant
}

// @unit name=logistic_init_ix1_n2_f32 class=bounded tier=quick bound="len=2" fns=linfa_logistic::LogisticRegressionParams::check_ref,linfa_logistic::LogisticRegressionParams::check
#[kani::proof]
#[kani::unwind(5)]
#[kani::stub(alloc::fmt::format, fmt_stub)]
fn c04_logistic_init_ix1_n2_f32() {
    let (in_range, a, g, init_ok, v) = c04_logistic_init_ix1_n!(f32, 2);
    kani::cover!(in_range && v[2].is_nan()); // NaN beyond the length is irrelevant
    kani::cover!(a && g && !init_ok && v[0].is_finite() && v[1] == f32::INFINITY); // only the last one bad
    kani::cover!(a && g && !init_ok && v[0].is_nan() && v[1].is_finite()); // only the first one bad
}

// @unit name=logistic_init_ix1_n3_f32 class=bounded tier=quick bound="len=3" fns=linfa_logistic::LogisticRegressionParams::check_ref,linfa_logistic::LogisticRegressionParams::check
#[kani::proof]
#[kani::unwind(5)]
#[kani::stub(alloc::fmt::format, fmt_stub)]
fn c04_logistic_init_ix1_n3_f32() {
    let (in_range, a, g, init_ok, v) = c04_logistic_init_ix1_n!(f32, 3);
    kani::cover!(in_range);
    kani::cover!(!in_range);
    kani::cover!(a && g && !init_ok && v[0].is_finite() && v[1].is_finite() && v[2].is_nan()); // last one NaN
    kani::cover!(a && g && !init_ok && v[0] == f32::NEG_INFINITY && v[1].is_finite() && v[2].is_finite()); // first one -inf
    kani::cover!(a && g && !init_ok && v[0].is_finite() && v[1] == f32::INFINITY && v[2].is_finite()); // middle one +inf
    kani::cover!(!a && g && init_ok); // only alpha bad
    kani::cover!(a && !g && init_ok); // only gradient_tolerance bad
}

// @unit name=logistic_init_ix2_1x1_f64 class=bounded tier=quick bound="shape=1x1" fns=linfa_logistic::LogisticRegressionParams::check_ref,linfa_logistic::LogisticRegressionParams::check
#[kani::proof]
#[kani::unwind(5)]
#[kani::stub(alloc::fmt::format, fmt_stub)]
fn c04_logistic_init_ix2_1x1_f64() {
    let (in_range, a, g, init_ok, v) = c04_logistic_init_ix2_n!(f64, 1, (1, 1));
    kani::cover!(in_range);
    kani::cover!(!in_range);
    kani::cover!(a && g && !init_ok && true && v[0].is_nan()); // only the last element bad
    kani::cover!(a && g && !init_ok && v[0] == f64::INFINITY); // first element +inf
    kani::cover!(!a && g && init_ok); // only alpha bad
}

// @unit name=logistic_init_ix2_2x1_f64 class=bounded tier=quick bound="shape=2x1" fns=linfa_logistic::LogisticRegressionParams::check_ref,linfa_logistic::LogisticRegressionParams::check
#[kani::proof]
#[kani::unwind(5)]
#[kani::stub(alloc::fmt::format, fmt_stub)]
fn c04_logistic_init_ix2_2x1_f64() {
    let (in_range, a, g, init_ok, v) = c04_logistic_init_ix2_n!(f64, 2, (2, 1));
    kani::cover!(in_range);
    kani::cover!(!in_range);
    kani::cover!(a && g && !init_ok && v[0].is_finite() && v[1].is_nan()); // only the last element bad
    kani::cover!(a && g && !init_ok && v[0] == f64::INFINITY); // first element +inf
    kani::cover!(!a && g && init_ok); // only alpha bad
}

// @unit name=logistic_init_ix2_3x1_f64 class=bounded tier=quick bound="shape=3x1" fns=linfa_logistic::LogisticRegressionParams::check_ref,linfa_logistic::LogisticRegressionParams::check
#[kani::proof]
#[kani::unwind(5)]
#[kani::stub(alloc::fmt::format, fmt_stub)]
fn c04_logistic_init_ix2_3x1_f64() {
    let (in_range, a, g, init_ok, v) = c04_logistic_init_ix2_n!(f64, 3, (3, 1));
    kani::cover!(in_range);
    kani::cover!(!in_range);
    kani::cover!(a && g && !init_ok && v[0].is_finite() && v[1].is_finite() && v[2].is_nan()); // only the last element bad
    kani::cover!(a && g && !init_ok && v[0] == f64::INFINITY); // first element +inf
    kani::cover!(!a && g && init_ok); // only alpha bad
}

// @unit name=logistic_init_ix2_1x3_f64 class=bounded tier=quick bound="shape=1x3" fns=linfa_logistic::LogisticRegressionParams::check_ref,linfa_logistic::LogisticRegressionParams::check
#[kani::proof]
#[kani::unwind(5)]
#[kani::stub(alloc::fmt::format, fmt_stub)]
fn c04_logistic_init_ix2_1x3_f64() {
    let (in_range, a, g, init_ok, v) = c04_logistic_init_ix2_n!(f64, 3, (1, 3));
    kani::cover!(in_range);
    kani::cover!(!in_range);
    kani::cover!(a && g && !init_ok && v[0].is_finite() && v[1].is_finite() && v[2].is_nan()); // only the last element bad
    kani::cover!(a && g && !init_ok && v[0] == f64::INFINITY); // first element +inf
    kani::cover!(!a && g && init_ok); // only alpha bad
}

// @unit name=logistic_init_ix2_1x1_f32 class=bounded tier=quick bound="shape=1x1" fns=linfa_logistic::LogisticRegressionParams::check_ref,linfa_logistic::LogisticRegressionParams::check
#[kani::proof]
#[kani::unwind(5)]
#[kani::stub(alloc::fmt::format, fmt_stub)]
fn c04_logistic_init_ix2_1x1_f32() {
    let (in_range, a, g, init_ok, v) = c04_logistic_init_ix2_n!(f32, 1, (1, 1));
    kani::cover!(in_range);
    kani::cover!(!in_range);
    kani::cover!(a && g && !init_ok && true && v[0].is_nan()); // only the last element bad
    kani::cover!(a && g && !init_ok && v[0] == f32::INFINITY); // first element +inf
    kani::cover!(!a && g && init_ok); // only alpha bad
}

// @unit name=logistic_init_ix2_2x1_f32 class=bounded tier=quick bound="shape=2x1" fns=linfa_logistic::LogisticRegressionParams::check_ref,linfa_logistic::LogisticRegressionParams::check
#[kani::proof]
#[kani::unwind(5)]
#[kani::stub(alloc::fmt::format, fmt_stub)]
fn c04_logistic_init_ix2_2x1_f32() {
    let (in_range, a, g, init_ok, v) = c04_logistic_init_ix2_n!(f32, 2, (2, 1));
    kani::cover!(in_range);
    kani::cover!(!in_range);
    kani::cover!(a && g && !init_ok && v[0].is_finite() && v[1].is_nan()); // only the last element bad
    kani::cover!(a && g && !init_ok && v[0] == f32::INFINITY); // first element +inf
    kani::cover!(!a && g && init_ok); // only alpha bad
}

// @unit name=logistic_init_ix2_3x1_f32 class=bounded tier=quick bound="shape=3x1" fns=linfa_logistic::LogisticRegressionParams::check_ref,linfa_logistic::LogisticRegressionParams::check
#[kani::proof]
#[kani::unwind(5)]
#[kani::stub(alloc::fmt::format, fmt_stub)]
fn c04_logistic_init_ix2_3x1_f32() {
    let (in_range, a, g, init_ok, v) = c04_logistic_init_ix2_n!(f32, 3, (3, 1));
    kani::cover!(in_range);
    kani::cover!(!in_range);
    kani::cover!(a && g && !init_ok && v[0].is_finite() && v[1].is_finite() && v[2].is_nan()); // only the last element bad
    kani::cover!(a && g && !init_ok && v[0] == f32::INFINITY); // first element +inf
    kani::cover!(!a && g && init_ok); // only alpha bad
}

// @unit name=logistic_init_ix2_1x3_f32 class=bounded tier=quick bound="shape=1x3" fns=linfa_logistic::LogisticRegressionParams::check_ref,linfa_logistic::LogisticRegressionParams::check
#[kani::proof]
#[kani::unwind(5)]
#[kani::stub(alloc::fmt::format, fmt_stub)]
fn c04_logistic_init_ix2_1x3_f32() {
    let (in_range, a, g, init_ok, v) = c04_logistic_init_ix2_n!(f32, 3, (1, 3));
    kani::cover!(in_range);
    kani::cover!(!in_range);
    kani::cover!(a && g && !init_ok && v[0].is_finite() && v[1].is_finite() && v[2].is_nan()); // only the last element bad
    kani::cover!(a && g && !init_ok && v[0] == f32::INFINITY); // first element +inf
    kani::cover!(!a && g && init_ok); // only alpha bad
}
