//! property: C04
//! attach: algorithms/linfa-ftrl/src/hyperparams.rs
//! module: vk_c04_ftrl
// @include common/prelude.rs
use super::*;
use linfa::ParamGuard;
use rand_xoshiro::Xoshiro256Plus;
use rand::SeedableRng;

// Documented range of FtrlParams (setter rustdoc in algorithms/linfa-ftrl/src/hyperparams.rs and the
// #[error] texts in algorithms/linfa-ftrl/src/error.rs):
//   "`alpha` must be positive and finite"   / "alpha should be positive and finite, but is {0}"
//   "`beta` must be positive and finite"    / "beta should be positive and finite, but is {0}"
//        but also, two lines above in the same rustdoc:  "Set the beta parameter. Defaults to `0.0` if not set"
//   "`l1_ratio` must be between `0.0` and `1.0`." / "l1 ratio should be in range [0, 1], but is {0}"
//   "`l2_ratio` must be between `0.0` and `1.0`." / "l2 ratio should be in range [0, 1], but is {0}"
// Oracle:  l1_ratio in [0,1], l2_ratio in [0,1], alpha > 0 (positive; alpha is the learning rate and a
// divisor in the weight formulas), beta >= 0 (the documented default 0.0 must be a valid value, so
// "positive" can only mean non-negative for beta), all finite.
// -0.0: beta == -0.0 is rejected by the guard's `is_negative()` (sign bit) although 0 is documented as the
// default -> excluded by assume (unchecked corner). For alpha, l1_ratio, l2_ratio no exclusion is needed.
//
// EXPECTED on the pinned tree: c04_ftrl_iff_documented_* FAIL for alpha == +0.0 (guard accepts 0 although
// "positive" is documented); c04_ftrl_same_verdict_* hold.

fn mk<F: Float>(alpha: F, beta: F, l1: F, l2: F) -> FtrlParams<F, Xoshiro256Plus> {
    FtrlParams::default_with_rng(Xoshiro256Plus::seed_from_u64(42)).alpha(alpha).beta(beta).l1_ratio(l1).l2_ratio(l2)
}

fn same_err(a: &FtrlError, b: &FtrlError) -> bool {
    match (a, b) {
        (FtrlError::InvalidL1Ratio(x), FtrlError::InvalidL1Ratio(y)) => x == y,
        (FtrlError::InvalidL2Ratio(x), FtrlError::InvalidL2Ratio(y)) => x == y,
        (FtrlError::InvalidAlpha(x), FtrlError::InvalidAlpha(y)) => x == y,
        (FtrlError::InvalidBeta(x), FtrlError::InvalidBeta(y)) => x == y,
        _ => false,
    }
}

// @unit class=complete tier=quick fns=linfa_ftrl::FtrlParams::check_ref
#[kani::proof]
#[kani::stub(alloc::fmt::format, fmt_stub)]
fn c04_ftrl_iff_documented_f64() {
    let (alpha, beta, l1, l2): (f64, f64, f64, f64) = (kani::any(), kani::any(), kani::any(), kani::any());
    kani::assume(alpha.is_finite() && beta.is_finite() && l1.is_finite() && l2.is_finite());
    kani::assume(!(beta == 0.0 && beta.is_sign_negative()));      // -0.0: unchecked corner, see header
    let p = mk::<f64>(alpha, beta, l1, l2);
    let in_range = l1 >= 0.0 && l1 <= 1.0 && l2 >= 0.0 && l2 <= 1.0 && alpha > 0.0 && beta >= 0.0;
    assert!(p.check_ref().is_ok() == in_range);
    kani::cover!(in_range);
    kani::cover!(!in_range);
    kani::cover!(in_range && l1 == 1.0 && l2 == 0.0 && beta == 0.0);
}

// The clauses that hold on the pinned tree: every documented-valid set is accepted; every accepted set is in
// the documented range when "positive" is read as "not negative" for alpha as well (the weaker reading);
// range errors name the offending field; check == check_ref incl. the error; payload; self unchanged.
// @unit class=complete tier=quick fns=linfa_ftrl::FtrlParams::check_ref,linfa_ftrl::FtrlParams::check
#[kani::proof]
#[kani::stub(alloc::fmt::format, fmt_stub)]
fn c04_ftrl_same_verdict_f64() {
    let (alpha, beta, l1, l2): (f64, f64, f64, f64) = (kani::any(), kani::any(), kani::any(), kani::any());
    kani::assume(alpha.is_finite() && beta.is_finite() && l1.is_finite() && l2.is_finite());
    kani::assume(!(beta == 0.0 && beta.is_sign_negative()));      // -0.0: unchecked corner, see header
    let p = mk::<f64>(alpha, beta, l1, l2);
    let before = p.clone();
    let ratios = l1 >= 0.0 && l1 <= 1.0 && l2 >= 0.0 && l2 <= 1.0;
    let in_range = ratios && alpha > 0.0 && beta >= 0.0;
    let r = p.check_ref();
    let ok = r.is_ok();
    if in_range { assert!(ok); }
    if ok { assert!(ratios && alpha >= 0.0 && beta >= 0.0); }
    match &r {
        Ok(c) => assert!(**c == before.0 && c.alpha() == alpha && c.beta() == beta && c.l1_ratio() == l1 && c.l2_ratio() == l2),
        Err(FtrlError::InvalidL1Ratio(_)) => assert!(!(l1 >= 0.0 && l1 <= 1.0)),
        Err(FtrlError::InvalidL2Ratio(_)) => assert!(!(l2 >= 0.0 && l2 <= 1.0)),
        Err(FtrlError::InvalidAlpha(_)) => assert!(!(alpha > 0.0)),
        Err(FtrlError::InvalidBeta(_)) => assert!(!(beta >= 0.0)),
        Err(_) => assert!(false),
    }
    assert!(p == before);                                          // check_ref leaves self unchanged
    let byval = p.clone().check();
    assert!(byval.is_ok() == ok);                                  // same verdict
    match (&byval, &r) {
        (Ok(c), Ok(_)) => assert!(*c == before.0),                 // payload is the inner value
        (Err(a), Err(b)) => assert!(same_err(a, b)),               // same error
        _ => assert!(false),
    }
    kani::cover!(ok);
    kani::cover!(!ok);
    kani::cover!(!ok && ratios && alpha > 0.0);
    kani::cover!(ok && l1 == 0.0 && l2 == 1.0);
}

// @unit class=complete tier=quick fns=linfa_ftrl::FtrlParams::check_ref
#[kani::proof]
#[kani::stub(alloc::fmt::format, fmt_stub)]
fn c04_ftrl_iff_documented_f32() {
    let (alpha, beta, l1, l2): (f32, f32, f32, f32) = (kani::any(), kani::any(), kani::any(), kani::any());
    kani::assume(alpha.is_finite() && beta.is_finite() && l1.is_finite() && l2.is_finite());
    kani::assume(!(beta == 0.0 && beta.is_sign_negative()));      // -0.0: unchecked corner, see header
    let p = mk::<f32>(alpha, beta, l1, l2);
    let in_range = l1 >= 0.0 && l1 <= 1.0 && l2 >= 0.0 && l2 <= 1.0 && alpha > 0.0 && beta >= 0.0;
    assert!(p.check_ref().is_ok() == in_range);
    kani::cover!(in_range);
    kani::cover!(!in_range);
    kani::cover!(in_range && l1 == 1.0 && l2 == 0.0 && beta == 0.0);
}

// The clauses that hold on the pinned tree: every documented-valid set is accepted; every accepted set is in
// the documented range when "positive" is read as "not negative" for alpha as well (the weaker reading);
// range errors name the offending field; check == check_ref incl. the error; payload; self unchanged.
// @unit class=complete tier=quick fns=linfa_ftrl::FtrlParams::check_ref,linfa_ftrl::FtrlParams::check
#[kani::proof]
#[kani::stub(alloc::fmt::format, fmt_stub)]
fn c04_ftrl_same_verdict_f32() {
    let (alpha, beta, l1, l2): (f32, f32, f32, f32) = (kani::any(), kani::any(), kani::any(), kani::any());
    kani::assume(alpha.is_finite() && beta.is_finite() && l1.is_finite() && l2.is_finite());
    kani::assume(!(beta == 0.0 && beta.is_sign_negative()));      // -0.0: unchecked corner, see header
    let p = mk::<f32>(alpha, beta, l1, l2);
    let before = p.clone();
    let ratios = l1 >= 0.0 && l1 <= 1.0 && l2 >= 0.0 && l2 <= 1.0;
    let in_range = ratios && alpha > 0.0 && beta >= 0.0;
    let r = p.check_ref();
    let ok = r.is_ok();
    if in_range { assert!(ok); }
    if ok { assert!(ratios && alpha >= 0.0 && beta >= 0.0); }
    match &r {
        Ok(c) => assert!(**c == before.0 && c.alpha() == alpha && c.beta() == beta && c.l1_ratio() == l1 && c.l2_ratio() == l2),
        Err(FtrlError::InvalidL1Ratio(_)) => assert!(!(l1 >= 0.0 && l1 <= 1.0)),
        Err(FtrlError::InvalidL2Ratio(_)) => assert!(!(l2 >= 0.0 && l2 <= 1.0)),
        Err(FtrlError::InvalidAlpha(_)) => assert!(!(alpha > 0.0)),
        Err(FtrlError::InvalidBeta(_)) => assert!(!(beta >= 0.0)),
        Err(_) => assert!(false),
    }
    assert!(p == before);                                          // check_ref leaves self unchanged
    let byval = p.clone().check();
    assert!(byval.is_ok() == ok);                                  // same verdict
    match (&byval, &r) {
        (Ok(c), Ok(_)) => assert!(*c == before.0),                 // payload is the inner value
        (Err(a), Err(b)) => assert!(same_err(a, b)),               // same error
        _ => assert!(false),
    }
    kani::cover!(ok);
    kani::cover!(!ok);
    kani::cover!(!ok && ratios && alpha > 0.0);
    kani::cover!(ok && l1 == 0.0 && l2 == 1.0);
}
