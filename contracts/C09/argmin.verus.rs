//! property: C09
//! unit: V-C09-closest-centroid
//! tier: quick
//! fns: linfa_clustering::k_means::algorithm::closest_centroid (arg-min over any number of centroids)
//@ extract ARGMIN from algorithms/linfa-clustering/src/k_means/algorithm.rs anchor "let iterator = centroids.rows().into_iter();" until "#[cfg(test)]" after "pub(crate) fn closest_centroid<"
//@ rewrite ARGMIN "let iterator = centroids.rows().into_iter();" => "/* let iterator = centroids.rows().into_iter(); */"
//@ rewrite ARGMIN "let first_centroid = centroids.row(0);" => "let first_centroid = centroids.row(0);"
//@ rewrite ARGMIN "for (centroid_index, centroid) in iterator.enumerate() {" => "for centroid_index in 0..centroids.nrows() { let centroid = centroids.row(centroid_index);   /* for (centroid_index, centroid) in iterator.enumerate() */"
//@ insert ARGMIN before-brace "for centroid_index in 0..centroids.nrows() " : invariant centroids.k@ >= 1, closest_index < centroids.k@, minimum_distance == dist_fn.d@[closest_index as int], forall|c: int| 0 <= c < centroid_index ==> minimum_distance <= #[trigger] dist_fn.d@[c], dist_fn.d@.len() == centroids.k@,
//@ expect-fail vacuity_guard_argmin
use vstd::prelude::*;
verus! {
// reduced distances as mathematical numbers (they are only compared): d[c] = rdistance(centroid c, observation), ASSUMED not NaN
pub struct RowTok { pub c: Ghost<int> }
impl RowTok { pub fn view(&self) -> (r: RowTok) ensures r.c@ == self.c@ { RowTok { c: Ghost(self.c@) } } }
pub struct ObsTok;
impl ObsTok { pub fn view(&self) -> (r: ObsTok) { ObsTok } }
pub struct CentTok { pub k: Ghost<int> }
impl CentTok {
    #[verifier::external_body] pub fn nrows(&self) -> (r: usize) ensures r == self.k@ { unimplemented!() }
    #[verifier::external_body] pub fn row(&self, i: usize) -> (r: RowTok) requires i < self.k@, ensures r.c@ == i { unimplemented!() }      // ndarray row(i): panics out of range
}
pub struct DistFn { pub d: Ghost<Seq<i128>> }
impl DistFn {
    #[verifier::external_body] pub fn rdistance(&self, a: RowTok, b: ObsTok) -> (r: i128) requires 0 <= a.c@ < self.d@.len(), ensures r == self.d@[a.c@] { unimplemented!() }
}
// ---- closest_centroid, body extracted from /repo on every run (the extracted text closes the function) ----
// C09 "every observation is assigned to a nearest centroid under the chosen metric": for ANY number of centroids the returned index is an index
// of a minimal reduced distance and the returned value is that distance (which minimal index is not part of the property)
pub fn closest_centroid(dist_fn: &DistFn, centroids: &CentTok, observation: &ObsTok) -> (r: (usize, i128))
    requires centroids.k@ >= 1, centroids.k@ <= usize::MAX, dist_fn.d@.len() == centroids.k@,
    ensures r.0 < centroids.k@, r.1 == dist_fn.d@[r.0 as int],
        forall|c: int| 0 <= c < centroids.k@ ==> r.1 <= #[trigger] dist_fn.d@[c],
{
/*@ARGMIN*/
pub fn vacuity_guard_argmin(dist_fn: &DistFn, centroids: &CentTok, observation: &ObsTok) -> (r: (usize, i128))
    requires centroids.k@ >= 1, centroids.k@ <= usize::MAX, dist_fn.d@.len() == centroids.k@,
    ensures false,
{
    (0, 0)
}
} // verus!
fn main() {}
