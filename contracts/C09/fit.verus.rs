//! property: C09
//! unit: V-C09-fit-control
//! tier: quick
//! fns: linfa_clustering::k_means::algorithm::KMeansValidParams::fit (restart loop, Lloyd iteration control, which run's centroids / inertia / memberships are reported)
//@ extract RUNS from algorithms/linfa-clustering/src/k_means/algorithm.rs anchor "let mut min_inertia = F::infinity();" until "match best_centroids {"
//@ rewrite RUNS "F::infinity()" => "FTok::infinity()"
//@ rewrite RUNS "let mut best_centroids = None;" => "let mut best_centroids: Option<(CentTok, MembTok)> = None;"
//@ rewrite RUNS "let mut memberships = Array1::zeros(n_samples);" => "let mut memberships = MembTok::zeros(n_samples);"
//@ rewrite RUNS "let mut dists = Array1::zeros(n_samples);" => "let mut dists = DistsTok::zeros(n_samples);"
//@ rewrite RUNS "for _ in 0..n_runs {" => "for run in 0..n_runs {"
//@ drop RUNS from "let mut centroids =" through "&mut rng);" as "            let mut centroids = self.init_run_abs(run);   /* initialiser call (float / RNG code), abstracted: the start point of this run */"
//@ rewrite RUNS "compute_centroids(&centroids, &observations, &memberships)" => "compute_centroids_abs(&centroids, &memberships)"
//@ drop RUNS from "let distance = self" through ".distance(centroids.view(), new_centroids.view());" as "                let distance = centroid_shift_abs(&centroids, &new_centroids);   /* dist_fn.distance(old, new), abstracted */"
//@ rewrite RUNS "update_memberships_and_dists(" => "update_memberships_and_dists_abs(   /* rayon assignment step, abstracted by contract */"
//@ rewrite RUNS "self.dist_fn()," => "/* self.dist_fn(), */"
//@ rewrite RUNS "&observations," => "/* &observations, */"
//@ rewrite RUNS "distance < self.tolerance()" => "self.below_tolerance_abs(&distance)"
//@ rewrite RUNS "let inertia = loop {" => "let mut inertia = FTok::zero(); loop   /* `let inertia = loop { .. break v; }` written with an explicit variable */ {"
//@ rewrite RUNS "break dists.sum();" => "inertia = dists.sum_abs(); break;"
//@ rewrite RUNS "inertia < min_inertia" => "inertia.lt_abs(&min_inertia)"
//@ insert RUNS before-brace "for run in 0..n_runs " : invariant self.max_iter >= 1, best_centroids.is_some() ==> ok_result(best_centroids.unwrap().0.id@, min_inertia.of@, self.max_iter as int) && best_centroids.unwrap().0.id@.0 < run && best_centroids.unwrap().1.of@ == min_inertia.of@, best_centroids.is_none() ==> min_inertia.of@ == (-1int, -1int), run > 0 ==> memberships.of@.0 == run - 1,
//@ insert RUNS before-brace "loop   /* `let inertia" : invariant_except_break self.max_iter >= 1, n_iter < self.max_iter, centroids.id@ == (run as int, n_iter as int), (forall|j: int| 1 <= j <= n_iter ==> !spec_converged(run as int, j)), ensures centroids.id@.0 == run, 1 <= centroids.id@.1 <= self.max_iter, centroids.id@.1 == self.max_iter || spec_converged(run as int, centroids.id@.1), (forall|j: int| 1 <= j < centroids.id@.1 ==> !spec_converged(run as int, j)), inertia.of@ == centroids.id@, memberships.of@ == centroids.id@, decreases self.max_iter - n_iter,
//@ extract FINAL from algorithms/linfa-clustering/src/k_means/algorithm.rs anchor "match best_centroids {" block
//@ drop FINAL from "let mut cluster_count = Array1::zeros(self.n_clusters());" through ".for_each(|&c| cluster_count[c] += F::one());" as "                let cluster_count = memberships.count_per_cluster_abs();   /* counts the entries of `memberships` per cluster index */"
//@ rewrite FINAL "Ok(KMeans {" => "Ok(KMeansV {"
//@ rewrite? FINAL " / F::cast(dataset.nsamples())" => ".div_nsamples_abs()"
//@ rewrite? FINAL " / F::cast(n_samples)" => ".div_nsamples_abs()"
//@ rewrite? FINAL "dists.sum()" => "dists.sum_abs()"
//@ drop FINAL from "dist_fn: self.dist_fn().clone()," through "dist_fn: self.dist_fn().clone()," as "                    /* dropped field: dist_fn */"
//@ rewrite FINAL "KMeansError::InertiaError" => "ErrTok::InertiaError"
//@ expect-fail vacuity_guard_fit
use vstd::prelude::*;
verus! {
// ---- tokens.  A centroid matrix is identified by (restart number, number of Lloyd updates applied to that restart's start point);
//      memberships / distances / an inertia by the centroid matrix they were computed against ----
pub struct CentTok { pub id: Ghost<(int, int)> }
pub struct MembTok { pub of: Ghost<(int, int)> }
pub struct DistsTok { pub of: Ghost<(int, int)> }
pub struct FTok { pub of: Ghost<(int, int)> }
pub struct CountTok { pub of: Ghost<(int, int)> }
#[derive(Debug)]
pub enum ErrTok { InertiaError }
pub struct KMeansV { pub centroids: CentTok, pub cluster_count: CountTok, pub inertia: FTok }

pub uninterp spec fn spec_converged(run: int, step: int) -> bool;      // "centroid shift of update `step` of restart `run` is below the tolerance"
pub uninterp spec fn spec_lt(a: (int, int), b: (int, int)) -> bool;    // float `<` between two inertias

impl CentTok {
    #[verifier::external_body]
    pub fn clone(&self) -> (r: CentTok) ensures r.id@ == self.id@ { unimplemented!() }
}
impl MembTok {
    #[verifier::external_body]
    pub fn clone(&self) -> (r: MembTok) ensures r.of@ == self.of@ { unimplemented!() }
    #[verifier::external_body]
    pub fn zeros(n: usize) -> (r: MembTok) ensures r.of@ == (-1int, -1int) { unimplemented!() }
    #[verifier::external_body]
    pub fn count_per_cluster_abs(&self) -> (r: CountTok) ensures r.of@ == self.of@ { unimplemented!() }
}
impl DistsTok {
    #[verifier::external_body]
    pub fn zeros(n: usize) -> (r: DistsTok) ensures r.of@ == (-1int, -1int) { unimplemented!() }
    #[verifier::external_body]
    pub fn sum_abs(&self) -> (r: FTok) ensures r.of@ == self.of@ { unimplemented!() }
}
impl FTok {
    #[verifier::external_body]
    pub fn infinity() -> (r: FTok) ensures r.of@ == (-1int, -1int) { unimplemented!() }
    #[verifier::external_body]
    pub fn zero() -> (r: FTok) ensures r.of@ == (-2int, -2int) { unimplemented!() }
    #[verifier::external_body]
    pub fn lt_abs(&self, other: &FTok) -> (r: bool) ensures r == spec_lt(self.of@, other.of@) { unimplemented!() }
    #[verifier::external_body]
    pub fn div_nsamples_abs(&self) -> (r: FTok) ensures r.of@ == self.of@ { unimplemented!() }
}
// ASSUMED contracts of the float-valued callees
#[verifier::external_body]
fn update_memberships_and_dists_abs(c: &CentTok, m: &mut MembTok, d: &mut DistsTok)
    ensures final(m).of@ == c.id@, final(d).of@ == c.id@,
{ unimplemented!() }
#[verifier::external_body]
fn compute_centroids_abs(c: &CentTok, m: &MembTok) -> (r: CentTok)
    requires m.of@ == c.id@,                 // the update must use the memberships computed against the same centroids
    ensures r.id@ == (c.id@.0, c.id@.1 + 1),
{ unimplemented!() }
#[verifier::external_body]
fn centroid_shift_abs(old: &CentTok, new: &CentTok) -> (r: FTok)
    requires new.id@ == (old.id@.0, old.id@.1 + 1),
    ensures r.of@ == new.id@,
{ unimplemented!() }

// what a successful fit may report: centroids of restart r after s updates with 1 <= s <= budget, stopped at the budget or at the
// first update whose shift is below the tolerance; inertia (and counts) computed in the assignment step of that same last iteration
pub open spec fn ok_result(cent: (int, int), inertia_of: (int, int), budget: int) -> bool {
    0 <= cent.0 && 1 <= cent.1 <= budget
    && (cent.1 == budget || spec_converged(cent.0, cent.1))
    && (forall|j: int| 1 <= j < cent.1 ==> !spec_converged(cent.0, j))
    && inertia_of == cent          // C09: "the reported inertia and per-cluster counts describe the returned centroids"
}

pub struct ParamsV { pub max_iter: u64, pub runs: usize, pub nclusters: usize }
impl ParamsV {
    pub fn n_runs(&self) -> (r: usize) ensures r == self.runs { self.runs }
    pub fn max_n_iterations(&self) -> (r: u64) ensures r == self.max_iter { self.max_iter }
    pub fn n_clusters(&self) -> (r: usize) ensures r == self.nclusters { self.nclusters }
    #[verifier::external_body]
    pub fn init_run_abs(&self, run: usize) -> (r: CentTok) ensures r.id@ == (run as int, 0int) { unimplemented!() }
    #[verifier::external_body]
    pub fn below_tolerance_abs(&self, shift: &FTok) -> (r: bool) ensures r == spec_converged(shift.of@.0, shift.of@.1) { unimplemented!() }

    // ---- KMeansValidParams::fit: everything after the set-up lines, extracted from /repo on every run ----
    // contract (C09): "from a fixed initialisation every iteration replaces each centroid ..., so the cost of the returned centroids
    // never increases when the iteration budget grows" <= the number of Lloyd updates is EXACTLY min(budget, first converged step);
    // "the reported inertia and per-cluster counts describe the returned centroids" <= inertia and counts stem from the assignment
    // step of the SAME restart and iteration as the returned centroids
    pub fn fit(&self, n_samples: usize) -> (r: Result<KMeansV, ErrTok>)
        requires self.max_iter >= 1,            // guaranteed by the parameter guard (C04)
        ensures r.is_ok() ==> ok_result(r.unwrap().centroids.id@, r.unwrap().inertia.of@, self.max_iter as int),
                r.is_ok() ==> r.unwrap().cluster_count.of@ == r.unwrap().inertia.of@,
    {
/*@RUNS*/
/*@FINAL*/
    }

    pub fn vacuity_guard_fit(&self, n_samples: usize) -> (r: Result<KMeansV, ErrTok>)
        requires self.max_iter >= 1,
        ensures false,
    {
        Err(ErrTok::InertiaError)
    }
}
} // verus!
fn main() {}
