//! property: C09
//! attach: algorithms/linfa-clustering/src/k_means/algorithm.rs
//! module: vk_c09_kmeans
// @include common/prelude.rs
use super::*;
use linfa::traits::{Predict, PredictInplace};
use ndarray::{Array1, Array2, ArrayView, Dimension};

// ---------------------------------------------------------------------------------------------
// Contract witness for `linfa_nn::distance::Distance<f32>` (DESIGN 4.2 `TableDist`).
// A point is identified by the tag stored in its coordinate 0 (centroid i carries tag i, the
// observation carries tag N-1).  `rdistance(a, b)` answers from a symbolic table
// `r[tag a][tag b]`, `distance(a, b)` from a *different* symbolic table `d`, so a proof holds
// for every metric (no symmetry / triangle inequality / relation between `d` and `r` is used;
// the set of witnesses is a superset of the lawful implementations), and code that reads
// `distance` where the property says "reduced distance" is distinguishable.
// The only constraint is the property's premise: table entries are finite and non-negative.
// ---------------------------------------------------------------------------------------------
#[derive(Clone)]
struct TableDist<const N: usize> {
    r: [[f32; N]; N],
    d: [[f32; N]; N],
}
fn tag<D: Dimension>(a: &ArrayView<f32, D>) -> usize {
    *a.iter().next().unwrap() as usize
}
impl<const N: usize> Distance<f32> for TableDist<N> {
    fn distance<D: Dimension>(&self, a: ArrayView<f32, D>, b: ArrayView<f32, D>) -> f32 {
        self.d[tag(&a)][tag(&b)]
    }
    fn rdistance<D: Dimension>(&self, a: ArrayView<f32, D>, b: ArrayView<f32, D>) -> f32 {
        self.r[tag(&a)][tag(&b)]
    }
}
fn any_table<const N: usize>() -> TableDist<N> {
    let r: [[f32; N]; N] = kani::any();
    let d: [[f32; N]; N] = kani::any();
    let mut i = 0;
    while i < N {
        let mut j = 0;
        while j < N {
            kani::assume(r[i][j].is_finite() && r[i][j] >= 0.0);
            kani::assume(d[i][j].is_finite() && d[i][j] >= 0.0);
            j += 1;
        }
        i += 1;
    }
    TableDist { r, d }
}
/// centroid matrix (K, 1) whose row i carries tag i; observation (1) carrying tag K
fn tagged<const K: usize>() -> (Array2<f32>, Array1<f32>) {
    let mut v = Vec::new();
    let mut i = 0;
    while i < K {
        v.push(i as f32);
        i += 1;
    }
    (Array2::from_shape_vec((K, 1), v).unwrap(), Array1::from(vec![K as f32]))
}

/// arg-min clause of the property: the returned index is *a* centroid at minimal reduced
/// distance and the returned value is that centroid's rdistance.
fn argmin_post<const K: usize, const N: usize>(t: &TableDist<N>, idx: usize, dist: f32) {
    assert!(idx < K);
    assert!(dist == t.r[idx][K]);
    let mut j = 0;
    while j < K {
        assert!(t.r[idx][K] <= t.r[j][K]);
        // (which of several minimal centroids is returned is not part of the property: the code takes the first, a change to the last
        //  would be harmless - an earlier version of this oracle demanded the first index and was corrected, DESIGN section 10)
        j += 1;
    }
}

fn closest_argmin<const K: usize, const N: usize>() -> (usize, bool) {
    let t: TableDist<N> = any_table::<N>();
    let (cents, obs) = tagged::<K>();
    let (idx, dist) = closest_centroid(&t, &cents, &obs);
    argmin_post::<K, N>(&t, idx, dist);
    (idx, t.r[0][K] == t.r[K - 1][K])
}

// @unit class=modular tier=quick mem=light bound="k=1" timeout=600 fns=linfa_clustering::k_means::algorithm::closest_centroid
#[kani::proof]
#[kani::unwind(6)]
#[kani::stub(alloc::fmt::format, fmt_stub)]
fn c09_closest_argmin_k1() {
    let t: TableDist<2> = any_table::<2>();
    let (cents, obs) = tagged::<1>();
    let (idx, dist) = closest_centroid(&t, &cents, &obs);
    argmin_post::<1, 2>(&t, idx, dist);
    kani::cover!(idx == 0 && dist > 0.0);
}

// @unit class=modular tier=quick mem=light bound="k=2" timeout=600 fns=linfa_clustering::k_means::algorithm::closest_centroid
#[kani::proof]
#[kani::unwind(6)]
#[kani::stub(alloc::fmt::format, fmt_stub)]
fn c09_closest_argmin_k2() {
    let (idx, tie_first_last) = closest_argmin::<2, 3>();
    kani::cover!(idx == 1);
    kani::cover!(tie_first_last); // a tie between the first and the last centroid is reachable
}

// @unit class=modular tier=quick mem=light bound="k=3" timeout=600 fns=linfa_clustering::k_means::algorithm::closest_centroid
#[kani::proof]
#[kani::unwind(6)]
#[kani::stub(alloc::fmt::format, fmt_stub)]
fn c09_closest_argmin_k3() {
    let (idx, tie_first_last) = closest_argmin::<3, 4>();
    kani::cover!(idx == 2);
    kani::cover!(tie_first_last); // a tie between the first and the last centroid is reachable
}

// @unit class=modular tier=quick mem=light bound="k=4" timeout=600 fns=linfa_clustering::k_means::algorithm::closest_centroid
#[kani::proof]
#[kani::unwind(7)]
#[kani::stub(alloc::fmt::format, fmt_stub)]
fn c09_closest_argmin_k4() {
    let (idx, tie_first_last) = closest_argmin::<4, 5>();
    kani::cover!(idx == 3);
    kani::cover!(tie_first_last); // a tie between the first and the last centroid is reachable
}

// `predict` of ONE new observation (the Ix1 form of `PredictInplace`, reached through linfa's blanket
// `Predict<&ArrayBase<_, Ix1>, usize>`): the label is an arg-min of the reduced distance.
// @unit class=modular tier=quick mem=light bound="k=3" timeout=600 fns=linfa_clustering::k_means::algorithm::KMeans::predict_inplace,linfa_clustering::k_means::algorithm::closest_centroid
#[kani::proof]
#[kani::unwind(6)]
#[kani::stub(alloc::fmt::format, fmt_stub)]
fn c09_predict_one_k3() {
    const K: usize = 3;
    let t: TableDist<4> = any_table::<4>();
    let (cents, obs) = tagged::<K>();
    let model = KMeans { centroids: cents, cluster_count: Array1::zeros(K), inertia: 0.0f32, dist_fn: t.clone() };
    let label: usize = model.predict(&obs);
    assert!(label < K);
    argmin_post::<K, 4>(&t, label, t.r[label][K]);
    // in-place form overwrites whatever was there
    let mut m: usize = kani::any();
    PredictInplace::predict_inplace(&model, &obs, &mut m);
    assert!(m == label);
    kani::cover!(label == 2);
    kani::cover!(t.r[1][K] == t.r[2][K] && t.r[1][K] < t.r[0][K]);     // a tie between two minimal centroids is reachable
}

// ---------------------------------------------------------------------------------------------
// Lloyd update: "every iteration replaces each centroid by the mean of its assigned points together
// with its previous position".  Oracle: integer sums; every float intermediate is an exactly
// representable small integer, the single rounding is the final division, so `==` is exact.
// ---------------------------------------------------------------------------------------------
fn small(x: i8) -> bool {
    x >= -8 && x <= 8
}
fn centroids_mean_post(x: &[i8; 3], c: &[i8; 2], m: &[usize; 3], new: &Array2<f32>) {
    assert!(new.nrows() == 2 && new.ncols() == 1);
    let mut k = 0;
    while k < 2 {
        let mut sum = c[k] as i32;
        let mut cnt = 1i32;
        let mut i = 0;
        while i < 3 {
            if m[i] == k {
                sum += x[i] as i32;
                cnt += 1;
            }
            i += 1;
        }
        assert!(new[(k, 0)] == (sum as f32) / (cnt as f32));
        if cnt == 1 {
            assert!(new[(k, 0)] == c[k] as f32); // empty cluster keeps its old centroid
        }
        k += 1;
    }
}
fn centroids_case(m: [usize; 3]) -> (bool, bool) {
    let x: [i8; 3] = kani::any();
    let c: [i8; 2] = kani::any();
    kani::assume(small(x[0]) && small(x[1]) && small(x[2]) && small(c[0]) && small(c[1]));
    let obs = Array2::from_shape_vec((3, 1), vec![x[0] as f32, x[1] as f32, x[2] as f32]).unwrap();
    let old = Array2::from_shape_vec((2, 1), vec![c[0] as f32, c[1] as f32]).unwrap();
    let mem = Array1::from(m.to_vec());
    let new = compute_centroids(&old, &obs, &mem);
    centroids_mean_post(&x, &c, &m, &new);
    assert!(old[(0, 0)] == c[0] as f32 && old[(1, 0)] == c[1] as f32); // inputs untouched
    (new[(0, 0)] != c[0] as f32, new[(1, 0)] != c[1] as f32)
}

// @unit class=bounded tier=quick mem=light bound="n=3,k=2,dim=1,members=[0,0,1],|x|<=8" timeout=900 fns=linfa_clustering::k_means::algorithm::compute_centroids
#[kani::proof]
#[kani::unwind(5)]
#[kani::stub(alloc::fmt::format, fmt_stub)]
fn c09_centroids_mean_001() {
    let (moved0, moved1) = centroids_case([0, 0, 1]);
    kani::cover!(moved0 && moved1);
}

// @unit class=bounded tier=quick mem=light bound="n=3,k=2,dim=1,members=[0,1,1],|x|<=8" timeout=900 fns=linfa_clustering::k_means::algorithm::compute_centroids
#[kani::proof]
#[kani::unwind(5)]
#[kani::stub(alloc::fmt::format, fmt_stub)]
fn c09_centroids_mean_011() {
    let (moved0, moved1) = centroids_case([0, 1, 1]);
    kani::cover!(moved0 && moved1);
}

// cluster 0 is empty: it must keep its previous position
// @unit class=bounded tier=quick mem=light bound="n=3,k=2,dim=1,members=[1,1,1],|x|<=8" timeout=900 fns=linfa_clustering::k_means::algorithm::compute_centroids
#[kani::proof]
#[kani::unwind(5)]
#[kani::stub(alloc::fmt::format, fmt_stub)]
fn c09_centroids_mean_111() {
    let (moved0, moved1) = centroids_case([1, 1, 1]);
    kani::cover!(!moved0 && moved1);
}

// all 8 membership vectors at once (symbolic memberships)
// @unit class=bounded tier=thorough mem=heavy bound="n=3,k=2,dim=1,members symbolic,|x|<=8" timeout=1800 fns=linfa_clustering::k_means::algorithm::compute_centroids
#[kani::proof]
#[kani::unwind(5)]
#[kani::stub(alloc::fmt::format, fmt_stub)]
fn c09_centroids_mean_symbolic_members() {
    let x: [i8; 3] = kani::any();
    let c: [i8; 2] = kani::any();
    let m: [usize; 3] = kani::any();
    kani::assume(small(x[0]) && small(x[1]) && small(x[2]) && small(c[0]) && small(c[1]));
    kani::assume(m[0] < 2 && m[1] < 2 && m[2] < 2);
    let obs = Array2::from_shape_vec((3, 1), vec![x[0] as f32, x[1] as f32, x[2] as f32]).unwrap();
    let old = Array2::from_shape_vec((2, 1), vec![c[0] as f32, c[1] as f32]).unwrap();
    let mem = Array1::from(m.to_vec());
    let new = compute_centroids(&old, &obs, &mem);
    centroids_mean_post(&x, &c, &m, &new);
    kani::cover!(m[0] == 1 && m[1] == 1 && m[2] == 1 && new[(0, 0)] == c[0] as f32);
    kani::cover!(m[0] == 0 && m[1] == 1 && m[2] == 0 && new[(0, 0)] != c[0] as f32);
}
