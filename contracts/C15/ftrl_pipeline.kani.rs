//! property: C15
//! attach: algorithms/linfa-ftrl/src/algorithm.rs
//! module: vk_c15_ftrl_pipe
//! plain: yes
// @include common/prelude.rs
use super::*;
use ndarray::{arr1, arr2};

// Modular step between the scalar FTRL formulas (proved in C15/ftrl.kani.rs) and the model state: the three scalar
// functions are replaced by PROBES - arbitrary functions that record the arguments they are called with and return a
// value the harness chose - so what is checked here is only how `get_weights`, `update_params`, `calculate_sigma` and
// `fit_with` wire the state (z, n) and the hyperparameters (alpha, beta, l1, l2) into those formulas, for EVERY value
// the formulas may return.  (`plain: yes`: staged without C15/ftrl.attrs - Kani cannot stub a function that carries a contract.)
const CAP: usize = 2;
static mut P_N: usize = 0;
static mut P_ARGS: [[u32; 6]; CAP] = [[0; 6]; CAP];
static mut P_RET: [f32; CAP] = [0.0; CAP];
fn prox_probe<F: Float>(z: F, n: F, alpha: F, beta: F, l1_ratio: F, l2_ratio: F) -> F {
    unsafe {
        let i = P_N;
        assert!(i < CAP);
        let b = |v: F| F::to_f32(&v).unwrap().to_bits();
        P_ARGS[i] = [b(z), b(n), b(alpha), b(beta), b(l1_ratio), b(l2_ratio)];
        P_N += 1;
        F::cast(P_RET[i])
    }
}
fn same(a: f32, b: f32) -> bool { a.to_bits() == b.to_bits() }
static mut S_N: usize = 0;
static mut S_ARGS: [[u32; 3]; CAP] = [[0; 3]; CAP];
static mut S_RET: [f32; CAP] = [0.0; CAP];
fn sigma_probe<F: Float>(n: F, gradient: F, alpha: F) -> F {
    unsafe {
        let i = S_N;
        assert!(i < CAP);
        let b = |v: F| F::to_f32(&v).unwrap().to_bits();
        S_ARGS[i] = [b(n), b(gradient), b(alpha)];
        S_N += 1;
        F::cast(S_RET[i])
    }
}
static mut G_N: usize = 0;
static mut G_ARG: [u32; CAP] = [0; CAP];
static mut G_RET: [f32; CAP] = [0.0; CAP];
fn sigmoid_probe<F: Float>(prediction: F) -> F {
    unsafe {
        let i = G_N;
        assert!(i < CAP);
        G_ARG[i] = F::to_f32(&prediction).unwrap().to_bits();
        G_N += 1;
        F::cast(G_RET[i])
    }
}

fn any_model2() -> (Ftrl<f32>, [f32; 2], [f32; 2], [f32; 4]) {
    let z: [f32; 2] = [kani::any(), kani::any()];
    let n: [f32; 2] = [kani::any(), kani::any()];
    let h: [f32; 4] = [kani::any(), kani::any(), kani::any(), kani::any()];
    (Ftrl { z: arr1(&z), n: arr1(&n), alpha: h[0], beta: h[1], l1_ratio: h[2], l2_ratio: h[3] }, z, n, h)
}

// "weights are the proximal formula of (z_i, n_i) under the model's own (alpha, beta, l1, l2)": get_weights calls
// the formula once per coordinate, with that coordinate's z and n, with alpha, beta, l1, l2 in this order, and
// stores the answer at the same coordinate.  All f32 bit patterns (NaN included): nothing is computed here.
// @unit class=complete tier=quick mem=light timeout=900 fns=linfa_ftrl::Ftrl::get_weights
#[kani::proof]
#[kani::unwind(4)]
#[kani::stub(apply_proximal_to_weights, prox_probe)]
#[kani::stub(alloc::fmt::format, fmt_stub)]
fn c15_ftrl_get_weights_wiring() {
    let (model, z, n, h) = any_model2();
    let r: [f32; 2] = [kani::any(), kani::any()];
    unsafe { P_RET = r; }
    let w = model.get_weights();
    unsafe {
        assert!(P_N == 2 && w.len() == 2);
        // calls may come in any order; call number c served coordinate j(c)
        let j0 = if P_ARGS[0][0] == z[0].to_bits() && P_ARGS[0][1] == n[0].to_bits() { 0 } else { 1 };
        let j1 = 1 - j0;
        assert!(P_ARGS[0][0] == z[j0].to_bits() && P_ARGS[0][1] == n[j0].to_bits());
        assert!(P_ARGS[1][0] == z[j1].to_bits() && P_ARGS[1][1] == n[j1].to_bits());
        let mut c = 0;
        while c < 2 {
            assert!(P_ARGS[c][2] == h[0].to_bits());   // alpha
            assert!(P_ARGS[c][3] == h[1].to_bits());   // beta
            assert!(P_ARGS[c][4] == h[2].to_bits());   // l1
            assert!(P_ARGS[c][5] == h[3].to_bits());   // l2
            c += 1;
        }
        // and the answers land on the coordinate they were computed for (when the two coordinates differ)
        if z[0].to_bits() != z[1].to_bits() || n[0].to_bits() != n[1].to_bits() {
            assert!(same(w[j0], r[0]) && same(w[j1], r[1]));
        }
    }
    kani::cover!(h[2].to_bits() != h[3].to_bits());
}

// "exact FTRL-proximal update of z and n":  z' = z + g - sigma * w(z, n),  n' = n + g^2, with w the weight of the
// OLD state.  One coordinate, every finite g, sigma, z, n and every weight w; `*`, `+`, `-` are the real IEEE
// operations and the oracle performs them in the same order (z + g first, then minus sigma * w).
// @unit class=complete tier=quick mem=light timeout=1200 fns=linfa_ftrl::Ftrl::update_params
#[kani::proof]
#[kani::unwind(4)]
#[kani::stub(apply_proximal_to_weights, prox_probe)]
#[kani::stub(alloc::fmt::format, fmt_stub)]
fn c15_ftrl_update_params_recurrence() {
    let z: f32 = kani::any(); let n: f32 = kani::any(); let g: f32 = kani::any(); let s: f32 = kani::any(); let w: f32 = kani::any();
    let h: [f32; 4] = [kani::any(), kani::any(), kani::any(), kani::any()];
    kani::assume(z.is_finite() && n.is_finite() && g.is_finite() && s.is_finite() && w.is_finite());
    let mut model = Ftrl { z: arr1(&[z]), n: arr1(&[n]), alpha: h[0], beta: h[1], l1_ratio: h[2], l2_ratio: h[3] };
    unsafe { P_RET = [w, 0.0]; }
    model.update_params(arr1(&[g]), arr1(&[s]));
    unsafe {
        assert!(P_N == 1);
        assert!(P_ARGS[0][0] == z.to_bits() && P_ARGS[0][1] == n.to_bits());       // the weight of the OLD state
    }
    let ez = (z + g) - (s * w);
    let en = n + g * g;
    assert!(same(model.z[0], ez) || (model.z[0].is_nan() && ez.is_nan()));
    assert!(same(model.n[0], en) || (model.n[0].is_nan() && en.is_nan()));
    kani::cover!(ez != z && en != n);
}

// sigma_i is the learning-rate formula of (n_i, g_i, alpha), coordinate by coordinate.
// @unit class=complete tier=quick mem=light timeout=900 fns=linfa_ftrl::Ftrl::calculate_sigma
#[kani::proof]
#[kani::unwind(4)]
#[kani::stub(calculate_weight_in_average, sigma_probe)]
#[kani::stub(alloc::fmt::format, fmt_stub)]
fn c15_ftrl_sigma_wiring() {
    let (model, _z, n, h) = any_model2();
    let g: [f32; 2] = [kani::any(), kani::any()];
    let r: [f32; 2] = [kani::any(), kani::any()];
    unsafe { S_RET = r; }
    let garr = arr1(&g);
    let s = model.calculate_sigma(garr.view());
    unsafe {
        assert!(S_N == 2 && s.len() == 2);
        let j0 = if S_ARGS[0][0] == n[0].to_bits() && S_ARGS[0][1] == g[0].to_bits() { 0 } else { 1 };
        let j1 = 1 - j0;
        assert!(S_ARGS[0][0] == n[j0].to_bits() && S_ARGS[0][1] == g[j0].to_bits() && S_ARGS[0][2] == h[0].to_bits());
        assert!(S_ARGS[1][0] == n[j1].to_bits() && S_ARGS[1][1] == g[j1].to_bits() && S_ARGS[1][2] == h[0].to_bits());
        if n[0].to_bits() != n[1].to_bits() || g[0].to_bits() != g[1].to_bits() {
            assert!(s[j0].to_bits() == r[0].to_bits() && s[j1].to_bits() == r[1].to_bits());
        }
    }
    kani::cover!(g[0].to_bits() != g[1].to_bits() && n[0].to_bits() != n[1].to_bits());
}

// One incremental step on one sample with one feature, Some(model) given: the probability is the sigmoid of
// x * w(z, n); the gradient is (p - y) * x; sigma is the learning-rate formula of (n, gradient, alpha); then
// z' = z + gradient - sigma * w and n' = n + gradient^2 - the same w (old state) in both places.
// x, z, n, w, sigma small integers and p a multiple of 1/4, so that every product is exact and cheap to compare.
// @unit class=bounded tier=quick mem=heavy bound="1 sample, 1 feature; x, z, n, w, sigma integers in [-4,4]; probability p in {0, 1/4, 1/2, 3/4, 1}; all hyperparameters" timeout=1800 fns=linfa_ftrl::FtrlValidParams::fit_with,linfa_ftrl::Ftrl::predict_probabilities,linfa_ftrl::algorithm::calculate_gradient
#[kani::proof]
#[kani::unwind(6)]
#[kani::stub(apply_proximal_to_weights, prox_probe)]
#[kani::stub(calculate_weight_in_average, sigma_probe)]
#[kani::stub(stable_sigmoid, sigmoid_probe)]
#[kani::stub(alloc::fmt::format, fmt_stub)]
fn c15_ftrl_fit_with_step() {
    let small = |v: i8| -> f32 { kani::assume(v >= -4 && v <= 4); v as f32 };
    let x = small(kani::any()); let z = small(kani::any()); let n = small(kani::any());
    let w = small(kani::any()); let sg = small(kani::any());
    let pq: u8 = kani::any(); kani::assume(pq <= 4);
    let p = pq as f32 / 4.0;
    let y: bool = kani::any();
    let h: [f32; 4] = [kani::any(), kani::any(), kani::any(), kani::any()];   // any hyperparameters: the probes never compute with them
    let params = crate::hyperparams::FtrlValidParams { alpha: h[0], beta: h[1], l1_ratio: h[2], l2_ratio: h[3], rng: <rand_xoshiro::Xoshiro256Plus as rand::SeedableRng>::seed_from_u64(1) };
    let model = Ftrl { z: arr1(&[z]), n: arr1(&[n]), alpha: h[0], beta: h[1], l1_ratio: h[2], l2_ratio: h[3] };
    let ds = DatasetBase::new(arr2(&[[x]]), arr1(&[y]));
    unsafe { P_RET = [w, w]; S_RET = [sg, 0.0]; G_RET = [p, 0.0]; }
    let out = params.fit_with(Some(model), &ds).unwrap();
    let grad = (p - if y { 1.0 } else { 0.0 }) * x;
    unsafe {
        assert!(P_N == 2 && S_N == 1 && G_N == 1);
        let mut c = 0;
        while c < 2 {                                                            // both weight evaluations: OLD state, the model's own hyperparameters
            assert!(P_ARGS[c][0] == z.to_bits() && P_ARGS[c][1] == n.to_bits());
            assert!(P_ARGS[c][2] == h[0].to_bits() && P_ARGS[c][3] == h[1].to_bits() && P_ARGS[c][4] == h[2].to_bits() && P_ARGS[c][5] == h[3].to_bits());
            c += 1;
        }
        assert!(f32::from_bits(G_ARG[0]) == x * w);                                // sigmoid of x . w
        assert!(f32::from_bits(S_ARGS[0][0]) == n && f32::from_bits(S_ARGS[0][1]) == grad && S_ARGS[0][2] == h[0].to_bits());
    }
    assert!(out.z[0] == (z + grad) - sg * w);
    assert!(out.n[0] == n + grad * grad);
    kani::cover!(grad != 0.0 && sg != 0.0 && w != 0.0);
}
