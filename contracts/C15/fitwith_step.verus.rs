//! property: C15
//! unit: V-C15-minibatch-step
//! tier: quick
//! fns: linfa_clustering::k_means::algorithm::KMeansValidParams::fit_with (fresh model, assignment against the OLD centroids, running-mean update with the cumulative counts, reported inertia)
//@ extract FRESH from algorithms/linfa-clustering/src/k_means/algorithm.rs anchor "                KMeans {" block
//@ rewrite FRESH "KMeans {" => "ModelV {"
//@ rewrite FRESH "Array1::" => "CountTok::"
//@ rewrite FRESH "F::zero()" => "FTok::zero()"
//@ drop FRESH from "dist_fn: self.dist_fn().clone()," through "dist_fn: self.dist_fn().clone()," as "                    /* dropped field: dist_fn */"
//@ extract STEP from algorithms/linfa-clustering/src/k_means/algorithm.rs anchor "let mut memberships = Array1::zeros(n_samples);" until "let dist = self" after "fn fit_with("
//@ rewrite STEP "let mut memberships = Array1::zeros(n_samples);" => "let mut memberships = MembTok::zeros(n_samples);"
//@ rewrite STEP "let mut dists = Array1::zeros(n_samples);" => "let mut dists = DistsTok::zeros(n_samples);"
//@ rewrite STEP "update_memberships_and_dists(" => "update_memberships_and_dists_abs("
//@ rewrite STEP "self.dist_fn()," => "/* self.dist_fn(), */"
//@ rewrite STEP "&observations," => "/* &observations, */"
//@ rewrite STEP "compute_centroids_incremental(" => "compute_centroids_incremental_abs("
//@ rewrite STEP "dists.sum() / F::cast(n_samples)" => "dists.mean_abs(n_samples)   /* dists.sum() / F::cast(n_samples) */"
//@ expect-fail vacuity_guard_step
use vstd::prelude::*;
verus! {
// ---- tokens: every array is what it was computed from ----
pub struct FTok { pub mean_dist_to: Ghost<Option<int>> }                       // the inertia: mean distance of the batch to the centroids with this id
impl FTok { pub fn zero() -> (r: FTok) ensures r.mean_dist_to@ is None { FTok { mean_dist_to: Ghost(None) } } }
pub struct CentTok { pub id: Ghost<int> }
// cumulative per-cluster counts: the value every entry started from, and the centroid ids whose assignments have been added since
pub struct CountTok { pub start: Ghost<int>, pub added: Ghost<Seq<int>> }
impl CountTok {
    #[verifier::external_body]
    pub fn zeros(k: usize) -> (r: CountTok) ensures r.start@ == 0, r.added@ == Seq::<int>::empty() { unimplemented!() }
    #[verifier::external_body]
    pub fn ones(k: usize) -> (r: CountTok) ensures r.start@ == 1, r.added@ == Seq::<int>::empty() { unimplemented!() }
}
pub struct MembTok { pub against: Ghost<Option<int>> }                          // nearest-centroid assignment of the batch against these centroids
pub struct DistsTok { pub against: Ghost<Option<int>> }
impl MembTok { #[verifier::external_body] pub fn zeros(n: usize) -> (r: MembTok) ensures r.against@ is None { unimplemented!() } }
impl DistsTok {
    #[verifier::external_body] pub fn zeros(n: usize) -> (r: DistsTok) ensures r.against@ is None { unimplemented!() }
    #[verifier::external_body] pub fn mean_abs(&self, n: usize) -> (r: FTok) ensures r.mean_dist_to@ == self.against@ { unimplemented!() }
}
// assignment step (rayon; verified on concrete sizes by the C09 Kani units): both outputs describe the batch against `c`
#[verifier::external_body]
pub fn update_memberships_and_dists_abs(c: &CentTok, m: &mut MembTok, d: &mut DistsTok)
    ensures final(m).against@ == Some(c.id@), final(d).against@ == Some(c.id@),
{ unimplemented!() }
// running-mean update (verified on concrete sizes by K-c15_kmeans_incr_*): new centroid j = (old_j * count_j + sum of the batch
// members of j) / (count_j + members of j), and the counts grow by the members - a function of exactly these three arguments
pub uninterp spec fn spec_incremental(old_centroids: int, assigned_against: int, count_start: int, count_added: Seq<int>) -> int;
#[verifier::external_body]
pub fn compute_centroids_incremental_abs(m: &MembTok, c: &CentTok, counts: &mut CountTok) -> (r: CentTok)
    requires m.against@ is Some,
    ensures r.id@ == spec_incremental(c.id@, m.against@.unwrap(), old(counts).start@, old(counts).added@),
        final(counts).start@ == old(counts).start@, final(counts).added@ == old(counts).added@.push(m.against@.unwrap()),
{ unimplemented!() }
pub struct ModelV { pub centroids: CentTok, pub cluster_count: CountTok, pub inertia: FTok }
pub struct ParamsV { pub k: usize }
impl ParamsV {
    pub fn n_clusters(&self) -> (r: usize) ensures r == self.k { self.k }

    // ---- the model a first call (`None`) starts from: struct literal extracted from /repo on every run ----
    // C15 "running-mean centroid update with CUMULATIVE per-cluster counts": nothing has been counted before the first batch
    pub fn fresh_model(&self, centroids: CentTok) -> (r: ModelV)
        ensures r.centroids.id@ == centroids.id@, r.cluster_count.start@ == 0, r.cluster_count.added@.len() == 0,
    {
/*@FRESH*/
    }

    // ---- one mini-batch update (between the model selection and the convergence test), extracted from /repo on every run ----
    // the batch is assigned against the model's CURRENT centroids, the new centroids are the running mean of exactly that assignment
    // with the counts accumulated so far, the counts grow by that assignment, and the reported inertia is the batch's mean distance
    // to the centroids it was assigned against
    pub fn step(&self, model_in: ModelV, n_samples: usize) -> (r: (ModelV, CentTok))
        ensures
            r.0.centroids.id@ == model_in.centroids.id@,                                                     // replaced only afterwards (V-C15-minibatch-flag)
            r.1.id@ == spec_incremental(model_in.centroids.id@, model_in.centroids.id@, model_in.cluster_count.start@, model_in.cluster_count.added@),
            r.0.cluster_count.start@ == model_in.cluster_count.start@,
            r.0.cluster_count.added@ == model_in.cluster_count.added@.push(model_in.centroids.id@),
            r.0.inertia.mean_dist_to@ == Some(model_in.centroids.id@),
    {
        let mut model = model_in;
/*@STEP*/
        (model, new_centroids)
    }
    pub fn vacuity_guard_step(&self, model_in: ModelV, n_samples: usize) -> (r: (ModelV, CentTok))
        ensures false,
    {
        let c = CentTok { id: Ghost(0) };
        (model_in, c)
    }
}
} // verus!
fn main() {}
