//! property: C15
//! attach: algorithms/linfa-bayes/src/multinomial_nb.rs
//! module: vk_c15_mnb
// @include common/prelude.rs
// @include common/ghost_f32.rs
use super::*;
use linfa::ParamGuard;
use ndarray::{Array1, Array2};

// Multinomial naive Bayes, per-class state (property C15): feature counts are cumulative over batches and
// the stored log-probabilities are the "additively smoothed feature frequencies"
//     log p_j = ln(count_j + alpha) - ln(sum_i (count_i + alpha))
// of the pooled counts - the same as a single fit on all rows.  Only the HashMap-free helper is reachable.
// `ln` is the ghost function (functional + monotone); counts and alpha are small integers (exact sums).
// @unit class=bounded tier=quick mem=heavy bound="new=2 rows,2 features,counts<=8,alpha<=2,prior class_count<=2" timeout=1200 fns=linfa_bayes::multinomial_nb::MultinomialNbValidParams::update_feature_log_prob
#[kani::proof]
#[kani::unwind(7)]
#[kani::stub(f32::ln, ghost_ln32)]
#[kani::stub(alloc::fmt::format, fmt_stub)]
fn c15_mnb_counts_cumulative_smoothed() {
    let f: [u8; 2] = kani::any(); // pooled counts of the earlier batches
    let u: [u8; 4] = kani::any(); // new batch, 2 rows x 2 features
    let (c_old, a): (usize, u8) = (kani::any(), kani::any());
    kani::assume(f[0] <= 8 && f[1] <= 8 && u[0] <= 8 && u[1] <= 8 && u[2] <= 8 && u[3] <= 8 && c_old <= 2 && a <= 2);
    kani::assume(c_old > 0 || (f[0] == 0 && f[1] == 0)); // a class never seen has no counts
    let stale: [f32; 2] = kani::any(); // whatever log-probabilities were stored before
    let params: MultinomialNbValidParams<f32, usize> = MultinomialNbParams::<f32, usize>::new().alpha(a as f32).check().unwrap();
    let old = MultinomialClassInfo {
        class_count: c_old,
        prior: 0.0f32,
        feature_count: Array1::from(vec![f[0] as f32, f[1] as f32]),
        feature_log_prob: Array1::from(vec![stale[0], stale[1]]),
    };
    let xnew = Array2::from_shape_vec((2, 2), vec![u[0] as f32, u[1] as f32, u[2] as f32, u[3] as f32]).unwrap();
    let (logp, cnt) = params.update_feature_log_prob(&old, xnew.view());
    assert!(logp.len() == 2 && cnt.len() == 2);
    let t0 = f[0] as u32 + u[0] as u32 + u[2] as u32;
    let t1 = f[1] as u32 + u[1] as u32 + u[3] as u32;
    assert!(cnt[0] == t0 as f32 && cnt[1] == t1 as f32); // cumulative counts
    let total = (t0 + t1 + 2 * a as u32) as f32;
    assert!(logp[0] == ghost_ln32((t0 + a as u32) as f32) - ghost_ln32(total));
    assert!(logp[1] == ghost_ln32((t1 + a as u32) as f32) - ghost_ln32(total));
    // consequences (monotone ln): a probability, never NaN unless a feature has zero smoothed mass
    if t0 + a as u32 > 0 && t1 + a as u32 > 0 {
        assert!(logp[0] <= 0.0 && logp[1] <= 0.0);
        if t0 <= t1 { assert!(logp[0] <= logp[1]); }
    }
    kani::cover!(c_old > 0 && t0 > 0 && t1 > t0 && a == 1);
    kani::cover!(c_old == 0 && a == 0 && t0 > 0 && t1 > 0);
}
