//! property: C15
//! attach: algorithms/linfa-bayes/src/gaussian_nb.rs
//! module: vk_c15_gnb
// @include common/prelude.rs
// @include common/ghost_f32.rs
use super::*;
use ndarray::{Array1, Array2};

// Gaussian naive Bayes, per-class sufficient statistics (property C15): after feeding a class's rows in
// two batches the stored mean / variance "equal the textbook estimates" of the pooled rows
// (mean = sum/n, variance = sum (x - mean)^2 / n, ddof 0), i.e. the same as one fit on all rows.
// Only the HashMap-free helper `update_mean_variance` is reachable (the learner's state is a HashMap).
// Oracle: integer arithmetic on the pooled rows.  Values are small integers and the pooled count is a
// power of two, so every float intermediate (halves, quarters, sixteenths) is exact and `==` is meaningful.
type P = GaussianNbValidParams<f32, usize>;
fn small(x: i8) -> bool {
    x >= -8 && x <= 8
}
fn info(count: usize, theta: f32, sigma: f32) -> GaussianClassInfo<f32> {
    GaussianClassInfo { class_count: count, prior: 0.0, theta: Array1::from(vec![theta]), sigma: Array1::from(vec![sigma]) }
}

// old batch {a}, new batch {b}
// @unit class=bounded tier=quick mem=heavy bound="old=1 row,new=1 row,1 feature,|x|<=8" timeout=1200 fns=linfa_bayes::gaussian_nb::GaussianNbValidParams::update_mean_variance
#[kani::proof]
#[kani::unwind(6)]
#[kani::stub(f32::powi, ghost_powi32)]
#[kani::stub(alloc::fmt::format, fmt_stub)]
fn c15_gnb_pool_1_1() {
    let (a, b): (i8, i8) = (kani::any(), kani::any());
    kani::assume(small(a) && small(b));
    let old = info(1, a as f32, 0.0);
    let xnew = Array2::from_shape_vec((1, 1), vec![b as f32]).unwrap();
    let (mu, var) = P::update_mean_variance(&old, xnew.view());
    assert!(mu.len() == 1 && var.len() == 1);
    let s = a as i32 + b as i32; // 2 * mean
    let d = a as i32 - b as i32;
    assert!(mu[0] == (s as f32) / 2.0);
    assert!(var[0] == ((d * d) as f32) / 4.0); // ((a-m)^2 + (b-m)^2)/2 with m = (a+b)/2
    kani::cover!(var[0] > 0.0 && mu[0] != a as f32);
}

// old batch {a1,a2}, new batch {b1,b2}
// @unit class=bounded tier=thorough mem=heavy bound="old=2 rows,new=2 rows,1 feature,|x|<=8" timeout=1200 fns=linfa_bayes::gaussian_nb::GaussianNbValidParams::update_mean_variance
#[kani::proof]
#[kani::unwind(6)]
#[kani::stub(f32::powi, ghost_powi32)]
#[kani::stub(alloc::fmt::format, fmt_stub)]
fn c15_gnb_pool_2_2() {
    let (a1, a2, b1, b2): (i8, i8, i8, i8) = (kani::any(), kani::any(), kani::any(), kani::any());
    kani::assume(small(a1) && small(a2) && small(b1) && small(b2));
    // textbook statistics of the old batch (exact: halves and quarters)
    let da = a1 as i32 - a2 as i32;
    let old = info(2, ((a1 as i32 + a2 as i32) as f32) / 2.0, ((da * da) as f32) / 4.0);
    let xnew = Array2::from_shape_vec((2, 1), vec![b1 as f32, b2 as f32]).unwrap();
    let (mu, var) = P::update_mean_variance(&old, xnew.view());
    // textbook statistics of the four pooled rows: mean = S/4, var = sum (4x - S)^2 / 64
    let xs = [a1 as i32, a2 as i32, b1 as i32, b2 as i32];
    let s: i32 = xs[0] + xs[1] + xs[2] + xs[3];
    let mut q = 0i32;
    let mut i = 0;
    while i < 4 {
        q += (4 * xs[i] - s) * (4 * xs[i] - s);
        i += 1;
    }
    assert!(mu[0] == (s as f32) / 4.0);
    assert!(var[0] == (q as f32) / 64.0);
    kani::cover!(var[0] > 0.0 && a1 != a2 && b1 != b2 && a1 + a2 != b1 + b2);
}

// first batch of a class (count 0) and an empty batch
// @unit class=bounded tier=quick mem=heavy bound="old=0 rows,new=2 rows / old=2 rows,new=0 rows,1 feature,|x|<=8" timeout=1200 fns=linfa_bayes::gaussian_nb::GaussianNbValidParams::update_mean_variance
#[kani::proof]
#[kani::unwind(6)]
#[kani::stub(f32::powi, ghost_powi32)]
#[kani::stub(alloc::fmt::format, fmt_stub)]
fn c15_gnb_first_and_empty_batch() {
    let (b1, b2): (i8, i8) = (kani::any(), kani::any());
    kani::assume(small(b1) && small(b2));
    let d = b1 as i32 - b2 as i32;
    let m = ((b1 as i32 + b2 as i32) as f32) / 2.0;
    let v = ((d * d) as f32) / 4.0;
    // a class seen for the first time: whatever is stored in the default record is ignored
    let fresh: GaussianClassInfo<f32> = GaussianClassInfo::default();
    let xnew = Array2::from_shape_vec((2, 1), vec![b1 as f32, b2 as f32]).unwrap();
    let (mu, var) = P::update_mean_variance(&fresh, xnew.view());
    assert!(mu.len() == 1 && var.len() == 1 && mu[0] == m && var[0] == v);
    // a batch without rows of the class leaves the statistics untouched
    let old = info(2, m, v);
    let empty = Array2::<f32>::zeros((0, 1));
    let (mu2, var2) = P::update_mean_variance(&old, empty.view());
    assert!(mu2.len() == 1 && var2.len() == 1 && mu2[0] == m && var2[0] == v);
    kani::cover!(v > 0.0);
}
