//! property: C15
//! unit: V-C15-gnb-fitwith
//! tier: quick
//! fns: linfa_bayes::gaussian_nb::GaussianNbValidParams::fit_with (per-class bookkeeping across batches: which rows are pooled into which class, class counts, the var_smoothing epsilon subtracted before and added after pooling, priors)
//@ extract FW from algorithms/linfa-bayes/src/gaussian_nb.rs anchor "let mut model = match model_in {" until "Ok(Some(model))"
//@ rewrite FW "temp.class_info" => "temp.class_info   /* HashMap<L, GaussianClassInfo>: token map */"
//@ rewrite FW ".values_mut()" => "/* .values_mut() */"
//@ rewrite? FW ".for_each(|x| x.sigma -= epsilon);" => ".sub_sigma_all(&epsilon);   /* .for_each(|x| x.sigma -= epsilon) */"
//@ rewrite? FW ".for_each(|x| x.sigma += epsilon);" => ".add_sigma_all(&epsilon);   /* .for_each(|x| x.sigma += epsilon) */"
//@ rewrite FW "None => GaussianNb {" => "None => ModelV {"
//@ rewrite FW "class_info: HashMap::new()," => "class_info: MapTok::new(),"
//@ rewrite FW "let yunique = dataset.labels();" => "let yunique = labels_abs(Ghost(batch));   /* dataset.labels(): the distinct labels of this batch */"
//@ rewrite FW "for class in yunique {" => "for ci in 0..yunique.len() { let class = yunique[ci];   /* for class in yunique */"
//@ rewrite FW "filter(x.view(), y.view(), &class)" => "filter_abs(Ghost(batch), &class)"
//@ rewrite FW ".entry(class)" => ".entry_or_default(class)   /* .entry(class)"
//@ rewrite FW ".or_insert_with(GaussianClassInfo::default);" => ".or_insert_with(GaussianClassInfo::default) */ ;"
//@ rewrite FW "Self::update_mean_variance(class_info, xclass.view())" => "update_mean_variance_abs(&*class_info, xclass.view())"
//@ drop FW from "let class_count_sum = model" through ".sum::<usize>();" as "        let class_count_sum = model.class_info.sum_counts_abs();   /* dropped: .values().map(|x| x.class_count).sum::<usize>() */"
//@ drop FW from "for info in model.class_info" through "info.prior = F::cast(info.class_count) / F::cast(class_count_sum);" as "        model.class_info.set_priors_abs(class_count_sum); {   /* dropped: for info in values_mut() { info.prior = count / class_count_sum } */"
//@ insert FW before-brace "for ci in 0..yunique.len() " : invariant yunique@ == old_labels, distinct(yunique@), mid_wf(m0), (forall|k: int| rows_of(k, batch) <= usize::MAX / 4), (forall|k: int| #![trigger model.class_info.m@.contains_key(k)] model.class_info.m@.contains_key(k) <==> (m0.contains_key(k) || done_before(yunique@, ci as int, k))), (forall|k: int| #![trigger model.class_info.m@[k]] model.class_info.m@.contains_key(k) ==> info_after(model.class_info.m@[k], m0, k, batch, done_before(yunique@, ci as int, k), 0)),
//@ insert FW after "for ci in 0..yunique.len() " : proof { lemma_done_step(yunique@, ci as int); }
//@ insert FW before "let yunique = labels_abs" : let ghost m0 = mid_map(model_in_spec);
//@ insert FW after "let yunique = labels_abs" : let ghost old_labels = yunique@;
//@ expect-fail vacuity_guard_gnb
use vstd::prelude::*;
verus! {
#[derive(Clone, Copy)]
pub struct EpsTok;
#[derive(Clone, Copy)]
pub struct LabelTok { pub l: Ghost<int> }
pub uninterp spec fn rows_of(class: int, batch: int) -> nat;              // number of rows of this batch carrying this label
// per-class state: which batches have been pooled into mean / variance, how many epsilons the stored variance carries on top of the
// raw pooled variance, the accumulated sample count
pub struct ThetaTok { pub pooled: Ghost<Seq<int>> }
pub struct SigmaTok { pub pooled: Ghost<Seq<int>>, pub eps: Ghost<int> }
pub struct PriorTok { pub of: Ghost<Option<(int, int)>> }                   // count / total it was computed from
pub struct ClassInfoV { pub theta: ThetaTok, pub sigma: SigmaTok, pub class_count: usize, pub prior: PriorTok }
pub open spec fn default_info() -> ClassInfoV {
    ClassInfoV { theta: ThetaTok { pooled: Ghost(Seq::empty()) }, sigma: SigmaTok { pooled: Ghost(Seq::empty()), eps: Ghost(0) }, class_count: 0, prior: PriorTok { of: Ghost(None) } }
}
// `sigma_new + epsilon`, should the code ever write that
impl vstd::std_specs::ops::AddSpecImpl<EpsTok> for SigmaTok {
    open spec fn obeys_add_spec() -> bool { true }
    open spec fn add_req(self, rhs: EpsTok) -> bool { true }
    open spec fn add_spec(self, rhs: EpsTok) -> SigmaTok { SigmaTok { pooled: self.pooled, eps: Ghost(self.eps@ + 1) } }
}
impl core::ops::Add<EpsTok> for SigmaTok {
    type Output = SigmaTok;
    fn add(self, rhs: EpsTok) -> (r: SigmaTok) { SigmaTok { pooled: self.pooled, eps: Ghost(self.eps@ + 1) } }
}
pub struct RowsTok { pub class: Ghost<int>, pub batch: Ghost<int> }
impl RowsTok {
    #[verifier::external_body] pub fn nrows(&self) -> (r: usize) ensures r == rows_of(self.class@, self.batch@) { unimplemented!() }
    #[verifier::external_body] pub fn view(&self) -> (r: RowsTok) ensures r.class@ == self.class@, r.batch@ == self.batch@ { unimplemented!() }
}
#[verifier::external_body]
pub fn filter_abs(batch: Ghost<int>, class: &LabelTok) -> (r: RowsTok) ensures r.class@ == class.l@, r.batch@ == batch@ { unimplemented!() }
pub open spec fn distinct(s: Seq<LabelTok>) -> bool { forall|a: int, b: int| #![trigger s[a], s[b]] 0 <= a < s.len() && 0 <= b < s.len() && a != b ==> s[a].l@ != s[b].l@ }
// label k is among the first n entries of the list
pub open spec fn done_before(s: Seq<LabelTok>, n: int, k: int) -> bool { exists|j: int| #![trigger s[j]] 0 <= j < n && s[j].l@ == k }
proof fn lemma_done_step(s: Seq<LabelTok>, i: int)
    requires 0 <= i < s.len(), distinct(s),
    ensures !done_before(s, i, s[i].l@), forall|k: int| #![trigger done_before(s, i + 1, k)] done_before(s, i + 1, k) <==> (done_before(s, i, k) || k == s[i].l@),
{
    if done_before(s, i, s[i].l@) { let j = choose|j: int| #![trigger s[j]] 0 <= j < i && s[j].l@ == s[i].l@; assert(s[j].l@ != s[i].l@); }
    assert forall|k: int| #![trigger done_before(s, i + 1, k)] done_before(s, i + 1, k) <==> (done_before(s, i, k) || k == s[i].l@) by {
        if done_before(s, i + 1, k) { let j = choose|j: int| #![trigger s[j]] 0 <= j < i + 1 && s[j].l@ == k; if j < i { assert(done_before(s, i, k)); } }
        if done_before(s, i, k) { let j = choose|j: int| #![trigger s[j]] 0 <= j < i && s[j].l@ == k; assert(0 <= j < i + 1 && s[j].l@ == k); }
        if k == s[i].l@ { assert(0 <= i < i + 1 && s[i].l@ == k); }
    }
}
// Labels::labels (HashSet, ASSUMED): the distinct labels occurring in the batch
#[verifier::external_body]
pub fn labels_abs(batch: Ghost<int>) -> (r: Vec<LabelTok>) ensures distinct(r@), forall|k: int| #![trigger rows_of(k, batch@)] done_before(r@, r@.len() as int, k) <==> rows_of(k, batch@) > 0 { unimplemented!() }
// the pooling formula (verified on concrete sizes by K-c15_gnb_pool_*): valid on the RAW variance only - the stored variance must not
// carry the smoothing epsilon when it is pooled; the result is again a raw variance
#[verifier::external_body]
pub fn update_mean_variance_abs(info_old: &ClassInfoV, x_new: RowsTok) -> (r: (ThetaTok, SigmaTok))
    requires info_old.sigma.eps@ == 0, info_old.theta.pooled@ == info_old.sigma.pooled@,
    ensures r.0.pooled@ == info_old.theta.pooled@.push(x_new.batch@), r.1.pooled@ == info_old.sigma.pooled@.push(x_new.batch@), r.1.eps@ == 0,
{ unimplemented!() }
pub struct MapTok { pub m: Ghost<Map<int, ClassInfoV>> }
impl MapTok {
    #[verifier::external_body] pub fn new() -> (r: MapTok) ensures r.m@ == Map::<int, ClassInfoV>::empty() { unimplemented!() }
    #[verifier::external_body]
    pub fn sub_sigma_all(&mut self, e: &EpsTok)
        ensures final(self).m@.dom() == old(self).m@.dom(),
            forall|k: int| #[trigger] old(self).m@.contains_key(k) ==> final(self).m@[k] == with_eps(old(self).m@[k], old(self).m@[k].sigma.eps@ - 1),
    { unimplemented!() }
    #[verifier::external_body]
    pub fn add_sigma_all(&mut self, e: &EpsTok)
        ensures final(self).m@.dom() == old(self).m@.dom(),
            forall|k: int| #[trigger] old(self).m@.contains_key(k) ==> final(self).m@[k] == with_eps(old(self).m@[k], old(self).m@[k].sigma.eps@ + 1),
    { unimplemented!() }
    #[verifier::external_body]
    pub fn entry_or_default(&mut self, class: LabelTok) -> (r: &mut ClassInfoV)
        ensures *r == (if old(self).m@.contains_key(class.l@) { old(self).m@[class.l@] } else { default_info() }),
            final(self).m@ == old(self).m@.insert(class.l@, *final(r)),
    { unimplemented!() }
    #[verifier::external_body]
    pub fn sum_counts_abs(&self) -> (r: usize) { unimplemented!() }
    #[verifier::external_body]
    pub fn set_priors_abs(&mut self, total: usize)
        ensures final(self).m@.dom() == old(self).m@.dom(),
            forall|k: int| #[trigger] old(self).m@.contains_key(k) ==> final(self).m@[k].theta == old(self).m@[k].theta && final(self).m@[k].sigma == old(self).m@[k].sigma
                && final(self).m@[k].class_count == old(self).m@[k].class_count && final(self).m@[k].prior.of@ == Some((old(self).m@[k].class_count as int, total as int)),
    { unimplemented!() }
}
pub open spec fn with_eps(i: ClassInfoV, e: int) -> ClassInfoV { ClassInfoV { theta: i.theta, sigma: SigmaTok { pooled: i.sigma.pooled, eps: Ghost(e) }, class_count: i.class_count, prior: i.prior } }
pub struct ModelV { pub class_info: MapTok }
// the per-class state when the class loop starts: the incoming model with one epsilon taken off every stored variance
pub open spec fn mid_map(model_in: Option<Map<int, ClassInfoV>>) -> Map<int, ClassInfoV> {
    match model_in { Some(m) => Map::new(m.dom(), |k: int| with_eps(m[k], m[k].sigma.eps@ - 1)), None => Map::empty() }
}
// state of class k relative to the loop-start state m0: pooled / counted with this batch iff `done`, `e` epsilons on the variance
pub open spec fn info_after(i: ClassInfoV, m0: Map<int, ClassInfoV>, k: int, batch: int, done: bool, e: int) -> bool {
    let base = if m0.contains_key(k) { m0[k] } else { default_info() };
    &&& i.sigma.eps@ == base.sigma.eps@ + e
    &&& i.theta.pooled@ == i.sigma.pooled@
    &&& i.sigma.pooled@ == (if done { base.sigma.pooled@.push(batch) } else { base.sigma.pooled@ })
    &&& i.class_count == (if done { base.class_count + rows_of(k, batch) } else { base.class_count as int })
}
pub open spec fn mid_wf(m: Map<int, ClassInfoV>) -> bool {
    forall|k: int| #[trigger] m.contains_key(k) ==> m[k].sigma.eps@ == 0 && m[k].theta.pooled@ == m[k].sigma.pooled@ && m[k].class_count + usize::MAX / 2 <= usize::MAX
}
pub open spec fn model_wf(m: Map<int, ClassInfoV>) -> bool {
    forall|k: int| #[trigger] m.contains_key(k) ==> m[k].sigma.eps@ == 1 && m[k].theta.pooled@ == m[k].sigma.pooled@ && m[k].class_count + usize::MAX / 2 <= usize::MAX
}

// ---- fit_with after the computation of epsilon, extracted from /repo on every run ----
// C15 (Gaussian NB, "batch-by-batch fitting ... including batches that lack a class"): every class of the model or of the batch is in
// the result; a class present in the batch has exactly this batch pooled into its mean and variance and its rows added to its count,
// a class absent from the batch keeps its pooled statistics and count; pooling always sees the RAW variance (epsilon taken off first:
// precondition of update_mean_variance_abs) and EVERY class of the result carries exactly one epsilon again; priors are count / total
pub fn fit_with(model_in: Option<ModelV>, epsilon: EpsTok, Ghost(batch): Ghost<int>, Ghost(model_in_spec): Ghost<Option<Map<int, ClassInfoV>>>) -> (r: ModelV)
    requires
        model_in is Some <==> model_in_spec is Some,
        model_in is Some ==> model_in.unwrap().class_info.m@ == model_in_spec.unwrap() && model_wf(model_in_spec.unwrap()),
        forall|k: int| rows_of(k, batch) <= usize::MAX / 4,
    ensures
        forall|k: int| r.class_info.m@.contains_key(k) <==> (model_in_spec is Some && model_in_spec.unwrap().contains_key(k)) || rows_of(k, batch) > 0,
        forall|k: int| #[trigger] r.class_info.m@.contains_key(k) ==> {
            let i = r.class_info.m@[k];
            let base = if model_in_spec is Some && model_in_spec.unwrap().contains_key(k) { model_in_spec.unwrap()[k] } else { default_info() };
            &&& i.sigma.eps@ == 1
            &&& i.theta.pooled@ == i.sigma.pooled@
            &&& i.sigma.pooled@ == (if rows_of(k, batch) > 0 { base.sigma.pooled@.push(batch) } else { base.sigma.pooled@ })
            &&& i.class_count == base.class_count + rows_of(k, batch)
            &&& i.prior.of@ is Some && i.prior.of@.unwrap().0 == i.class_count
        },
{
/*@FW*/
    model
}
pub fn vacuity_guard_gnb(model_in: Option<ModelV>, epsilon: EpsTok, Ghost(batch): Ghost<int>, Ghost(model_in_spec): Ghost<Option<Map<int, ClassInfoV>>>) -> (r: ModelV)
    requires
        model_in is Some <==> model_in_spec is Some,
        model_in is Some ==> model_in.unwrap().class_info.m@ == model_in_spec.unwrap() && model_wf(model_in_spec.unwrap()),
        forall|k: int| rows_of(k, batch) <= usize::MAX / 4,
    ensures false,
{
    ModelV { class_info: MapTok::new() }
}
} // verus!
fn main() {}
