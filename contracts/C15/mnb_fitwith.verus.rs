//! property: C15
//! unit: V-C15-mnb-fitwith
//! tier: quick
//! fns: linfa_bayes::multinomial_nb::MultinomialNbValidParams::fit_with (per-class bookkeeping across batches: which rows are counted into which class, class counts, priors)
//@ extract FW from algorithms/linfa-bayes/src/multinomial_nb.rs anchor "let mut model = match model_in {" until "Ok(Some(model))"
//@ rewrite FW "None => MultinomialNb {" => "None => ModelV {"
//@ rewrite FW "class_info: HashMap::new()," => "class_info: MapTok::new(),"
//@ rewrite FW "let yunique = dataset.labels();" => "let yunique = labels_abs(Ghost(batch));   /* dataset.labels(): the distinct labels of this batch */"
//@ rewrite FW "for class in yunique {" => "for ci in 0..yunique.len() { let class = yunique[ci];   /* for class in yunique */"
//@ rewrite FW "filter(x.view(), y.view(), &class)" => "filter_abs(Ghost(batch), &class)"
//@ rewrite FW ".entry(class)" => ".entry_or_default(class)   /* .entry(class)"
//@ rewrite FW ".or_insert_with(MultinomialClassInfo::default);" => ".or_insert_with(MultinomialClassInfo::default) */ ;"
//@ rewrite FW "self.update_feature_log_prob(class_info, xclass.view());" => "update_feature_log_prob_abs(&*class_info, xclass.view());"
//@ drop FW from "let class_count_sum = model" through ".sum::<usize>();" as "        let class_count_sum = model.class_info.sum_counts_abs();   /* dropped: .values().map(|x| x.class_count).sum::<usize>() */"
//@ drop FW from "for info in model.class_info" through "info.prior = F::cast(info.class_count) / F::cast(class_count_sum);" as "        model.class_info.set_priors_abs(class_count_sum); {   /* dropped: for info in values_mut() { info.prior = count / class_count_sum } */"
//@ insert FW before-brace "for ci in 0..yunique.len() " : invariant yunique@ == old_labels, distinct(yunique@), mid_wf(m0), (forall|k: int| rows_of(k, batch) <= usize::MAX / 4), (forall|k: int| #![trigger model.class_info.m@.contains_key(k)] model.class_info.m@.contains_key(k) <==> (m0.contains_key(k) || done_before(yunique@, ci as int, k))), (forall|k: int| #![trigger model.class_info.m@[k]] model.class_info.m@.contains_key(k) ==> info_after(model.class_info.m@[k], m0, k, batch, done_before(yunique@, ci as int, k))),
//@ insert FW after "for ci in 0..yunique.len() " : proof { lemma_done_step(yunique@, ci as int); }
//@ insert FW before "let yunique = labels_abs" : let ghost m0 = mid_map(model_in_spec);
//@ insert FW after "let yunique = labels_abs" : let ghost old_labels = yunique@;
//@ expect-fail vacuity_guard_mnb
use vstd::prelude::*;
verus! {
#[derive(Clone, Copy)]
pub struct LabelTok { pub l: Ghost<int> }
pub uninterp spec fn rows_of(class: int, batch: int) -> nat;              // number of rows of this batch carrying this label
// per-class state: which batches have been pooled into mean / variance, how many epsilons the stored variance carries on top of the
// raw pooled variance, the accumulated sample count
pub struct LogProbTok { pub counted: Ghost<Seq<int>> }
pub struct CountTok { pub counted: Ghost<Seq<int>> }
pub struct PriorTok { pub of: Ghost<Option<(int, int)>> }                   // count / total it was computed from
pub struct ClassInfoV { pub feature_log_prob: LogProbTok, pub feature_count: CountTok, pub class_count: usize, pub prior: PriorTok }
pub open spec fn default_info() -> ClassInfoV {
    ClassInfoV { feature_log_prob: LogProbTok { counted: Ghost(Seq::empty()) }, feature_count: CountTok { counted: Ghost(Seq::empty()) }, class_count: 0, prior: PriorTok { of: Ghost(None) } }
}
pub struct RowsTok { pub class: Ghost<int>, pub batch: Ghost<int> }
impl RowsTok {
    #[verifier::external_body] pub fn nrows(&self) -> (r: usize) ensures r == rows_of(self.class@, self.batch@) { unimplemented!() }
    #[verifier::external_body] pub fn view(&self) -> (r: RowsTok) ensures r.class@ == self.class@, r.batch@ == self.batch@ { unimplemented!() }
}
#[verifier::external_body]
pub fn filter_abs(batch: Ghost<int>, class: &LabelTok) -> (r: RowsTok) ensures r.class@ == class.l@, r.batch@ == batch@ { unimplemented!() }
pub open spec fn distinct(s: Seq<LabelTok>) -> bool { forall|a: int, b: int| #![trigger s[a], s[b]] 0 <= a < s.len() && 0 <= b < s.len() && a != b ==> s[a].l@ != s[b].l@ }
// label k is among the first n entries of the list
pub open spec fn done_before(s: Seq<LabelTok>, n: int, k: int) -> bool { exists|j: int| #![trigger s[j]] 0 <= j < n && s[j].l@ == k }
proof fn lemma_done_step(s: Seq<LabelTok>, i: int)
    requires 0 <= i < s.len(), distinct(s),
    ensures !done_before(s, i, s[i].l@), forall|k: int| #![trigger done_before(s, i + 1, k)] done_before(s, i + 1, k) <==> (done_before(s, i, k) || k == s[i].l@),
{
    if done_before(s, i, s[i].l@) { let j = choose|j: int| #![trigger s[j]] 0 <= j < i && s[j].l@ == s[i].l@; assert(s[j].l@ != s[i].l@); }
    assert forall|k: int| #![trigger done_before(s, i + 1, k)] done_before(s, i + 1, k) <==> (done_before(s, i, k) || k == s[i].l@) by {
        if done_before(s, i + 1, k) { let j = choose|j: int| #![trigger s[j]] 0 <= j < i + 1 && s[j].l@ == k; if j < i { assert(done_before(s, i, k)); } }
        if done_before(s, i, k) { let j = choose|j: int| #![trigger s[j]] 0 <= j < i && s[j].l@ == k; assert(0 <= j < i + 1 && s[j].l@ == k); }
        if k == s[i].l@ { assert(0 <= i < i + 1 && s[i].l@ == k); }
    }
}
// Labels::labels (HashSet, ASSUMED): the distinct labels occurring in the batch
#[verifier::external_body]
pub fn labels_abs(batch: Ghost<int>) -> (r: Vec<LabelTok>) ensures distinct(r@), forall|k: int| #![trigger rows_of(k, batch@)] done_before(r@, r@.len() as int, k) <==> rows_of(k, batch@) > 0 { unimplemented!() }
// feature counts of the class grow by the feature sums of this batch's rows of the class; the log-probabilities are recomputed from them
// (the arithmetic is out of reach: CBMC exhausted memory on it)
#[verifier::external_body]
pub fn update_feature_log_prob_abs(info_old: &ClassInfoV, x_new: RowsTok) -> (r: (LogProbTok, CountTok))
    requires info_old.feature_log_prob.counted@ == info_old.feature_count.counted@,
    ensures r.0.counted@ == info_old.feature_count.counted@.push(x_new.batch@), r.1.counted@ == info_old.feature_count.counted@.push(x_new.batch@),
{ unimplemented!() }
pub struct MapTok { pub m: Ghost<Map<int, ClassInfoV>> }
impl MapTok {
    #[verifier::external_body] pub fn new() -> (r: MapTok) ensures r.m@ == Map::<int, ClassInfoV>::empty() { unimplemented!() }
    #[verifier::external_body]
    pub fn entry_or_default(&mut self, class: LabelTok) -> (r: &mut ClassInfoV)
        ensures *r == (if old(self).m@.contains_key(class.l@) { old(self).m@[class.l@] } else { default_info() }),
            final(self).m@ == old(self).m@.insert(class.l@, *final(r)),
    { unimplemented!() }
    #[verifier::external_body]
    pub fn sum_counts_abs(&self) -> (r: usize) { unimplemented!() }
    #[verifier::external_body]
    pub fn set_priors_abs(&mut self, total: usize)
        ensures final(self).m@.dom() == old(self).m@.dom(),
            forall|k: int| #[trigger] old(self).m@.contains_key(k) ==> final(self).m@[k].feature_log_prob == old(self).m@[k].feature_log_prob && final(self).m@[k].feature_count == old(self).m@[k].feature_count
                && final(self).m@[k].class_count == old(self).m@[k].class_count && final(self).m@[k].prior.of@ == Some((old(self).m@[k].class_count as int, total as int)),
    { unimplemented!() }
}
pub struct ModelV { pub class_info: MapTok }
pub open spec fn mid_map(model_in: Option<Map<int, ClassInfoV>>) -> Map<int, ClassInfoV> { match model_in { Some(m) => m, None => Map::empty() } }
pub open spec fn info_after(i: ClassInfoV, m0: Map<int, ClassInfoV>, k: int, batch: int, done: bool) -> bool {
    let base = if m0.contains_key(k) { m0[k] } else { default_info() };
    &&& i.feature_log_prob.counted@ == i.feature_count.counted@
    &&& i.feature_count.counted@ == (if done { base.feature_count.counted@.push(batch) } else { base.feature_count.counted@ })
    &&& i.class_count == (if done { base.class_count + rows_of(k, batch) } else { base.class_count as int })
}
pub open spec fn mid_wf(m: Map<int, ClassInfoV>) -> bool {
    forall|k: int| #[trigger] m.contains_key(k) ==> m[k].feature_log_prob.counted@ == m[k].feature_count.counted@ && m[k].class_count + usize::MAX / 2 <= usize::MAX
}
pub open spec fn model_wf(m: Map<int, ClassInfoV>) -> bool { mid_wf(m) }

// ---- fit_with, extracted from /repo on every run ----
// C15 (multinomial NB, "batch-by-batch fitting ... including batches that lack a class"): every class of the model or of the batch is in the
// result; a class present in the batch has exactly this batch counted into its feature counts / log-probabilities and its rows added to its
// class count, a class absent from the batch keeps its statistics; priors are count / total
pub fn fit_with(model_in: Option<ModelV>, Ghost(batch): Ghost<int>, Ghost(model_in_spec): Ghost<Option<Map<int, ClassInfoV>>>) -> (r: ModelV)
    requires
        model_in is Some <==> model_in_spec is Some,
        model_in is Some ==> model_in.unwrap().class_info.m@ == model_in_spec.unwrap() && model_wf(model_in_spec.unwrap()),
        forall|k: int| rows_of(k, batch) <= usize::MAX / 4,
    ensures
        forall|k: int| r.class_info.m@.contains_key(k) <==> (model_in_spec is Some && model_in_spec.unwrap().contains_key(k)) || rows_of(k, batch) > 0,
        forall|k: int| #[trigger] r.class_info.m@.contains_key(k) ==> {
            let i = r.class_info.m@[k];
            let base = if model_in_spec is Some && model_in_spec.unwrap().contains_key(k) { model_in_spec.unwrap()[k] } else { default_info() };
            &&& i.feature_log_prob.counted@ == i.feature_count.counted@
            &&& i.feature_count.counted@ == (if rows_of(k, batch) > 0 { base.feature_count.counted@.push(batch) } else { base.feature_count.counted@ })
            &&& i.class_count == base.class_count + rows_of(k, batch)
            &&& i.prior.of@ is Some && i.prior.of@.unwrap().0 == i.class_count
        },
{
/*@FW*/
    model
}
pub fn vacuity_guard_mnb(model_in: Option<ModelV>, Ghost(batch): Ghost<int>, Ghost(model_in_spec): Ghost<Option<Map<int, ClassInfoV>>>) -> (r: ModelV)
    requires
        model_in is Some <==> model_in_spec is Some,
        model_in is Some ==> model_in.unwrap().class_info.m@ == model_in_spec.unwrap() && model_wf(model_in_spec.unwrap()),
        forall|k: int| rows_of(k, batch) <= usize::MAX / 4,
    ensures false,
{
    ModelV { class_info: MapTok::new() }
}
} // verus!
fn main() {}
