//! property: C15
//! unit: V-C15-minibatch-flag
//! tier: quick
//! fns: linfa_clustering::k_means::algorithm::KMeansValidParams::fit_with (the convergence test at the end of one mini-batch update)
//@ extract DIST from algorithms/linfa-clustering/src/k_means/algorithm.rs anchor "let dist = self" until "model.centroids = new_centroids;"
//@ extract MOVE from algorithms/linfa-clustering/src/k_means/algorithm.rs anchor "model.centroids = new_centroids;" lines 1
//@ extract FLAG from algorithms/linfa-clustering/src/k_means/algorithm.rs anchor "if dist " block
//@ rewrite? FLAG "if dist <= " => "if dist.le_tok(&("
//@ rewrite? FLAG "if dist < " => "if dist.lt_tok(&("
//@ rewrite FLAG "self.tolerance() {" => "self.tolerance())) {"
//@ rewrite FLAG "IncrKMeansError::NotConverged(model)" => "ErrV::NotConverged(model)"
//@ expect-fail vacuity_guard_flag
use vstd::prelude::*;
verus! {
// ---- float quantities are provenance terms; `<` is an uninterpreted relation between terms ----
pub enum Term { Tolerance, Distance(int, int), ReducedDistance(int, int), Product(Box<Term>, Box<Term>) }
pub struct FTok { pub t: Ghost<Term> }
pub uninterp spec fn spec_lt(a: Term, b: Term) -> bool;
pub uninterp spec fn spec_le(a: Term, b: Term) -> bool;
impl FTok {
    #[verifier::external_body]
    pub fn lt_tok(&self, o: &FTok) -> (r: bool) ensures r == spec_lt(self.t@, o.t@) { unimplemented!() }      // float `<`
    #[verifier::external_body]
    pub fn le_tok(&self, o: &FTok) -> (r: bool) ensures r == spec_le(self.t@, o.t@) { unimplemented!() }      // float `<=`
}
// float `*`: allowed syntactically, but NO contract is given for it (a product is not among the documented quantities)
impl vstd::std_specs::ops::MulSpecImpl for FTok {
    open spec fn obeys_mul_spec() -> bool { false }
    open spec fn mul_req(self, rhs: FTok) -> bool { false }          // no product of float quantities is part of the documented test
    open spec fn mul_spec(self, rhs: FTok) -> FTok { self }
}
impl core::ops::Mul for FTok {
    type Output = FTok;
    fn mul(self, rhs: FTok) -> (r: FTok) { FTok { t: Ghost(Term::Product(Box::new(self.t@), Box::new(rhs.t@))) } }
}
pub struct CentTok { pub id: Ghost<int> }
pub struct ViewTok { pub id: Ghost<int> }
impl CentTok {
    #[verifier::external_body]
    pub fn view(&self) -> (r: ViewTok) ensures r.id@ == self.id@ { unimplemented!() }
}
pub struct DistFnTok;
impl DistFnTok {
    // the metric's two entry points (linfa_nn::distance::Distance): the distance and the cheaper reduced distance
    #[verifier::external_body]
    pub fn distance(&self, a: ViewTok, b: ViewTok) -> (r: FTok) ensures r.t@ == Term::Distance(a.id@, b.id@) { unimplemented!() }
    #[verifier::external_body]
    pub fn rdistance(&self, a: ViewTok, b: ViewTok) -> (r: FTok) ensures r.t@ == Term::ReducedDistance(a.id@, b.id@) { unimplemented!() }
}
pub struct ModelV { pub centroids: CentTok }
pub enum ErrV { NotConverged(ModelV) }

pub struct ParamsV { pub dist: DistFnTok }
impl ParamsV {
    pub fn dist_fn(&self) -> (r: &DistFnTok) { &self.dist }
    #[verifier::external_body]
    pub fn tolerance(&self) -> (r: FTok) ensures r.t@ == Term::Tolerance { unimplemented!() }

    // ---- tail of fit_with, extracted from /repo on every run ----
    // contract (C15: "converged/not-converged is reported truthfully"; fit_with's rustdoc and the tolerance's documentation:
    // converged <=> the distance between the old and the new centroids is below `tolerance`): Ok <=> distance(old, new) < tolerance,
    // under the metric's *distance*; either way the model carries the new centroids
    pub fn convergence_flag(&self, model: ModelV, new_centroids: CentTok) -> (r: Result<ModelV, ErrV>)
        ensures
            r.is_ok() <==> spec_lt(Term::Distance(model.centroids.id@, new_centroids.id@), Term::Tolerance),
            r.is_ok() ==> r->Ok_0.centroids.id@ == new_centroids.id@,
            r.is_err() ==> r->Err_0->NotConverged_0.centroids.id@ == new_centroids.id@,
    {
        let mut model = model;
/*@DIST*/
/*@MOVE*/
/*@FLAG*/
    }

    pub fn vacuity_guard_flag(&self, model: ModelV, new_centroids: CentTok) -> (r: Result<ModelV, ErrV>)
        ensures false,
    {
        Ok(model)
    }
}
} // verus!
fn main() {}
