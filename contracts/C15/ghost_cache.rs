// ---- C15/ghost_cache.rs : memoising front-ends of the common ghost functions -------------------
// `common/ghost_f32.rs` makes a ghost function functional through `r <= R && r >= R` against the
// table of earlier calls.  That is float equality, which (a) does not fix the sign of a zero result
// and (b) leaves the SAT solver to rediscover bit-equality before it can identify two evaluations of
// the same formula.  These wrappers return the *stored* result when the argument has the same bit
// pattern as an earlier call (pure memoisation: no new assumption), and add the IEEE sign-of-zero
// fact for sqrt (sqrt(+0) = +0, sqrt(-0) = -0).
#[allow(dead_code)] static mut C_SQRT_A: [u32; GHOST_CAP] = [0; GHOST_CAP];
#[allow(dead_code)] static mut C_SQRT_R: [f32; GHOST_CAP] = [0.0; GHOST_CAP];
#[allow(dead_code)] static mut C_SQRT_N: usize = 0;
#[allow(dead_code)]
fn memo_sqrt32(x: f32) -> f32 {
    unsafe {
        let mut i = 0;
        while i < C_SQRT_N {
            if C_SQRT_A[i] == x.to_bits() { return C_SQRT_R[i]; }
            i += 1;
        }
        let r = ghost_sqrt32(x);
        if x == 0.0 { kani::assume(r.is_sign_negative() == x.is_sign_negative()); }
        if C_SQRT_N < GHOST_CAP { C_SQRT_A[C_SQRT_N] = x.to_bits(); C_SQRT_R[C_SQRT_N] = r; C_SQRT_N += 1; }
        r
    }
}
#[allow(dead_code)] static mut C_EXP_A: [u32; GHOST_CAP] = [0; GHOST_CAP];
#[allow(dead_code)] static mut C_EXP_R: [f32; GHOST_CAP] = [0.0; GHOST_CAP];
#[allow(dead_code)] static mut C_EXP_N: usize = 0;
#[allow(dead_code)]
fn memo_exp32(x: f32) -> f32 {
    unsafe {
        let mut i = 0;
        while i < C_EXP_N {
            if C_EXP_A[i] == x.to_bits() { return C_EXP_R[i]; }
            i += 1;
        }
        let r = ghost_exp32(x);
        if C_EXP_N < GHOST_CAP { C_EXP_A[C_EXP_N] = x.to_bits(); C_EXP_R[C_EXP_N] = r; C_EXP_N += 1; }
        r
    }
}
