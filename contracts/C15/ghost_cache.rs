// ---- C15/ghost_cache.rs : memoising front-ends of the common ghost functions -------------------
// `common/ghost_f32.rs` makes a ghost function functional through `r <= R && r >= R` against the
// table of earlier calls.  That is float equality, which (a) does not fix the sign of a zero result
// and (b) leaves the SAT solver to rediscover bit-equality before it can identify two evaluations of
// the same formula.  These wrappers return the *stored* result when the argument has the same bit
// pattern as an earlier call (pure memoisation: no new assumption), and add the IEEE sign-of-zero
// fact for sqrt (sqrt(+0) = +0, sqrt(-0) = -0).
#[allow(dead_code)] static mut C_SQRT_A: [u32; GHOST_CAP] = [0; GHOST_CAP];
#[allow(dead_code)] static mut C_SQRT_R: [f32; GHOST_CAP] = [0.0; GHOST_CAP];
#[allow(dead_code)] static mut C_SQRT_N: usize = 0;
#[allow(dead_code)]
fn memo_sqrt32(x: f32) -> f32 {
    unsafe {
        let mut i = 0;
        while i < C_SQRT_N {
            if C_SQRT_A[i] == x.to_bits() { return C_SQRT_R[i]; }
            i += 1;
        }
        let r = ghost_sqrt32(x);
        if x == 0.0 { kani::assume(r.is_sign_negative() == x.is_sign_negative()); }
        if C_SQRT_N < GHOST_CAP { C_SQRT_A[C_SQRT_N] = x.to_bits(); C_SQRT_R[C_SQRT_N] = r; C_SQRT_N += 1; }
        r
    }
}
#[allow(dead_code)] static mut C_EXP_A: [u32; GHOST_CAP] = [0; GHOST_CAP];
#[allow(dead_code)] static mut C_EXP_R: [f32; GHOST_CAP] = [0.0; GHOST_CAP];
#[allow(dead_code)] static mut C_EXP_N: usize = 0;
#[allow(dead_code)]
fn memo_exp32(x: f32) -> f32 {
    unsafe {
        let mut i = 0;
        while i < C_EXP_N {
            if C_EXP_A[i] == x.to_bits() { return C_EXP_R[i]; }
            i += 1;
        }
        let r = ghost_exp32(x);
        if C_EXP_N < GHOST_CAP { C_EXP_A[C_EXP_N] = x.to_bits(); C_EXP_R[C_EXP_N] = r; C_EXP_N += 1; }
        r
    }
}
// ---- uninterpreted IEEE operations ----------------------------------------------------------------
// CBMC encodes float division through an implicitly defined quotient (q*b + r == a), so a postcondition
// that *re-evaluates* a division cannot be discharged (measured: `a/b == a/b` over two evaluations
// > 150 s; the same for `*`: 39 s).  In the closed-form units `/` and `*` of the code under test (generic
// over `F: Float`, hence calls to `<f32 as Div>::div` / `<f32 as Mul>::mul`) are therefore replaced by
// memoised *uninterpreted* functions and the oracle is written with the same symbols: the proof shows
// w == div(num, den) for EVERY binary function `div`, in particular IEEE division.  No axiom is assumed.
#[allow(dead_code)] static mut C_DIV_A: [u32; GHOST_CAP] = [0; GHOST_CAP];
#[allow(dead_code)] static mut C_DIV_B: [u32; GHOST_CAP] = [0; GHOST_CAP];
#[allow(dead_code)] static mut C_DIV_R: [f32; GHOST_CAP] = [0.0; GHOST_CAP];
#[allow(dead_code)] static mut C_DIV_N: usize = 0;
#[allow(dead_code)]
fn uf_div32(a: f32, b: f32) -> f32 {
    unsafe {
        let mut i = 0;
        while i < C_DIV_N {
            if C_DIV_A[i] == a.to_bits() && C_DIV_B[i] == b.to_bits() { return C_DIV_R[i]; }
            i += 1;
        }
        let r: f32 = kani::any();
        if C_DIV_N < GHOST_CAP { C_DIV_A[C_DIV_N] = a.to_bits(); C_DIV_B[C_DIV_N] = b.to_bits(); C_DIV_R[C_DIV_N] = r; C_DIV_N += 1; }
        r
    }
}
#[allow(dead_code)] static mut C_MUL_A: [u32; GHOST_CAP] = [0; GHOST_CAP];
#[allow(dead_code)] static mut C_MUL_B: [u32; GHOST_CAP] = [0; GHOST_CAP];
#[allow(dead_code)] static mut C_MUL_R: [f32; GHOST_CAP] = [0.0; GHOST_CAP];
#[allow(dead_code)] static mut C_MUL_N: usize = 0;
#[allow(dead_code)]
fn uf_mul32(a: f32, b: f32) -> f32 {
    unsafe {
        let mut i = 0;
        while i < C_MUL_N {
            if C_MUL_A[i] == a.to_bits() && C_MUL_B[i] == b.to_bits() { return C_MUL_R[i]; }
            i += 1;
        }
        let r: f32 = kani::any();
        if C_MUL_N < GHOST_CAP { C_MUL_A[C_MUL_N] = a.to_bits(); C_MUL_B[C_MUL_N] = b.to_bits(); C_MUL_R[C_MUL_N] = r; C_MUL_N += 1; }
        r
    }
}
// Division known only to be functional, sign/range correct and MONOTONE on non-negative numerators and
// positive denominators (correct rounding is monotone: a <= a', b >= b' > 0  =>  a/b <= a'/b').
// Used where two different quotients must be compared (sigmoid monotonicity): two real dividers time out (> 400 s).
#[allow(dead_code)] static mut C_MDV_A: [f32; GHOST_CAP] = [0.0; GHOST_CAP];
#[allow(dead_code)] static mut C_MDV_B: [f32; GHOST_CAP] = [0.0; GHOST_CAP];
#[allow(dead_code)] static mut C_MDV_R: [f32; GHOST_CAP] = [0.0; GHOST_CAP];
#[allow(dead_code)] static mut C_MDV_N: usize = 0;
#[allow(dead_code)]
fn mono_div32(a: f32, b: f32) -> f32 {
    let r: f32 = kani::any();
    let dom = a >= 0.0 && b > 0.0 && a.is_finite() && b.is_finite();
    if dom {
        kani::assume(!r.is_nan() && r >= 0.0);
        if a <= b { kani::assume(r <= 1.0); }
        if a >= b { kani::assume(r >= 1.0); }
    }
    unsafe {
        let mut i = 0;
        while i < C_MDV_N {
            if C_MDV_A[i].to_bits() == a.to_bits() && C_MDV_B[i].to_bits() == b.to_bits() { return C_MDV_R[i]; }
            let edom = C_MDV_A[i] >= 0.0 && C_MDV_B[i] > 0.0 && C_MDV_A[i].is_finite() && C_MDV_B[i].is_finite();
            if dom && edom {
                if a <= C_MDV_A[i] && b >= C_MDV_B[i] { kani::assume(r <= C_MDV_R[i]); }
                if a >= C_MDV_A[i] && b <= C_MDV_B[i] { kani::assume(r >= C_MDV_R[i]); }
            }
            i += 1;
        }
        if C_MDV_N < GHOST_CAP { C_MDV_A[C_MDV_N] = a; C_MDV_B[C_MDV_N] = b; C_MDV_R[C_MDV_N] = r; C_MDV_N += 1; }
    }
    r
}
