//! property: C15
//! attach: algorithms/linfa-clustering/src/k_means/algorithm.rs
//! module: vk_c15_kmeans_incr
// @include common/prelude.rs
use super::*;
use ndarray::{Array1, Array2};

// Mini-batch k-means recurrence (property C15): "running-mean centroid update with cumulative
// per-cluster counts".  For every observation x assigned to cluster c, in batch order:
//     count_c <- count_c + 1 ;  centroid_c <- centroid_c + (x - centroid_c) / count_c
// clusters that receive no observation keep centroid and count unchanged.
// Inputs are small integers stored in f32 (x, c in [-8, 8], prior counts in 0..=3) so that x - c and the
// counts are exact; the quotient is rounded once per step, exactly as in the documented recurrence.
fn small(x: i8) -> bool {
    x >= -8 && x <= 8
}
struct Out {
    moved0: bool,
    moved1: bool,
}
fn incr_case<const N: usize>(m: [usize; N]) -> Out {
    let x: [i8; N] = kani::any();
    let c: [i8; 2] = kani::any();
    let cnt: [u8; 2] = kani::any();
    let mut i = 0;
    while i < N {
        kani::assume(small(x[i]) && m[i] < 2);
        i += 1;
    }
    kani::assume(small(c[0]) && small(c[1]) && cnt[0] <= 3 && cnt[1] <= 3);
    let mut xv = Vec::new();
    let mut i = 0;
    while i < N {
        xv.push(x[i] as f32);
        i += 1;
    }
    let obs = Array2::from_shape_vec((N, 1), xv).unwrap();
    let old = Array2::from_shape_vec((2, 1), vec![c[0] as f32, c[1] as f32]).unwrap();
    let mem = Array1::from(m.to_vec());
    let mut counts = Array1::from(vec![cnt[0] as f32, cnt[1] as f32]);

    let new = compute_centroids_incremental(&obs, &mem, &old, &mut counts);

    // oracle: replay of the documented recurrence, cluster by cluster
    assert!(new.nrows() == 2 && new.ncols() == 1 && counts.len() == 2);
    let mut k = 0;
    while k < 2 {
        let mut cen = c[k] as f32;
        let mut n_k = cnt[k] as u32;
        let mut i = 0;
        while i < N {
            if m[i] == k {
                n_k += 1;
                cen = cen + (x[i] as f32 - cen) / (n_k as f32);
            }
            i += 1;
        }
        assert!(counts[k] == n_k as f32); // cumulative count = prior count + points of this batch
        assert!(new[(k, 0)] == cen);
        if n_k == cnt[k] as u32 {
            assert!(new[(k, 0)].to_bits() == (c[k] as f32).to_bits()); // untouched cluster unchanged
        }
        k += 1;
    }
    // running mean, independent of the recurrence: a cluster that starts with count 0 and receives
    // exactly two points ends at their arithmetic mean (halves of small integers are exact)
    let mut k = 0;
    while k < 2 {
        if cnt[k] == 0 {
            let mut s = 0i32;
            let mut q = 0i32;
            let mut i = 0;
            while i < N {
                if m[i] == k {
                    s += x[i] as i32;
                    q += 1;
                }
                i += 1;
            }
            if q == 1 { assert!(new[(k, 0)] == s as f32); }
            if q == 2 { assert!(new[(k, 0)] == (s as f32) / 2.0); }
        }
        k += 1;
    }
    assert!(old[(0, 0)] == c[0] as f32 && old[(1, 0)] == c[1] as f32); // previous model not modified
    Out { moved0: new[(0, 0)] != c[0] as f32, moved1: new[(1, 0)] != c[1] as f32 }
}

// @unit class=bounded tier=quick mem=heavy bound="n=2,k=2,dim=1,members=[0,0],counts<=3,|x|<=8" timeout=900 fns=linfa_clustering::k_means::algorithm::compute_centroids_incremental
#[kani::proof]
#[kani::unwind(5)]
#[kani::stub(alloc::fmt::format, fmt_stub)]
fn c15_kmeans_incr_00() {
    let o = incr_case::<2>([0, 0]);
    kani::cover!(o.moved0 && !o.moved1);
}

// @unit class=bounded tier=quick mem=heavy bound="n=3,k=2,dim=1,members=[0,1,0],counts<=3,|x|<=8" timeout=900 fns=linfa_clustering::k_means::algorithm::compute_centroids_incremental
#[kani::proof]
#[kani::unwind(5)]
#[kani::stub(alloc::fmt::format, fmt_stub)]
fn c15_kmeans_incr_010() {
    let o = incr_case::<3>([0, 1, 0]);
    kani::cover!(o.moved0 && o.moved1);
}

// @unit class=bounded tier=thorough mem=heavy bound="n=3,k=2,dim=1,members=[1,1,1],counts<=3,|x|<=8" timeout=1200 fns=linfa_clustering::k_means::algorithm::compute_centroids_incremental
#[kani::proof]
#[kani::unwind(5)]
#[kani::stub(alloc::fmt::format, fmt_stub)]
fn c15_kmeans_incr_111() {
    let o = incr_case::<3>([1, 1, 1]);
    kani::cover!(!o.moved0 && o.moved1);
}

// @unit class=bounded tier=thorough mem=heavy bound="n=3,k=2,dim=1,members symbolic,counts<=3,|x|<=8" timeout=1800 fns=linfa_clustering::k_means::algorithm::compute_centroids_incremental
#[kani::proof]
#[kani::unwind(5)]
#[kani::stub(alloc::fmt::format, fmt_stub)]
fn c15_kmeans_incr_symbolic_members() {
    let m: [usize; 3] = kani::any();
    let o = incr_case::<3>(m);
    kani::cover!(o.moved0 && o.moved1);
    kani::cover!(m[0] == 1 && m[1] == 1 && m[2] == 1 && !o.moved0);
}
