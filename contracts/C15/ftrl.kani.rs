//! property: C15
//! attach: algorithms/linfa-ftrl/src/algorithm.rs
//! module: vk_c15_ftrl
// @include common/prelude.rs
// @include common/ghost_f32.rs
// @include C15/ghost_cache.rs
use super::*;

// Premise of the property ("all hyperparameters" = the documented ranges of FtrlParams:
// alpha, beta "positive and finite", l1_ratio/l2_ratio "between 0.0 and 1.0") and of the
// state (z finite; n is a sum of squares starting from +0, hence >= +0; +inf allowed for n).
// `FtrlParams::check_ref` rejects beta = -0.0 (`is_negative`), so beta is +0 or positive.
fn hyper_ok(alpha: f32, beta: f32, l1: f32, l2: f32) -> bool {
    alpha.is_finite() && alpha > 0.0 && beta.is_finite() && beta >= 0.0 && beta.is_sign_positive()
        && l1 >= 0.0 && l1 <= 1.0 && l2 >= 0.0 && l2 <= 1.0
}
fn any6() -> (f32, f32, f32, f32, f32, f32) {
    (kani::any(), kani::any(), kani::any(), kani::any(), kani::any(), kani::any())
}

// Sparsity clause of the property, real IEEE arithmetic (only sqrt is a ghost):
// "FTRL weights are exactly zero wherever |z| does not exceed the l1 strength"; otherwise the
// weight is never NaN and opposes z (consequences of the closed form that do not restate the body).
// @unit class=complete tier=quick mem=light timeout=600 fns=linfa_ftrl::algorithm::apply_proximal_to_weights
#[kani::proof]
#[kani::unwind(7)]
#[kani::stub(f32::sqrt, memo_sqrt32)]
#[kani::stub(alloc::fmt::format, fmt_stub)]
fn c15_ftrl_prox_sparsity_sign() {
    let (z, n, alpha, beta, l1, l2) = any6();
    kani::assume(z.is_finite() && n >= 0.0 && n.is_sign_positive() && hyper_ok(alpha, beta, l1, l2));
    let w = apply_proximal_to_weights(z, n, alpha, beta, l1, l2);
    let absz = if z < 0.0 { -z } else { z };
    if absz <= l1 {
        assert!(w == 0.0);
    } else {
        assert!(!w.is_nan());
        assert!(if z > 0.0 { w <= 0.0 } else { w >= 0.0 });
    }
    kani::cover!(absz <= l1 && z != 0.0);
    kani::cover!(absz == l1 && l1 > 0.0);
    kani::cover!(absz > l1 && w < 0.0 && w.is_finite());
    kani::cover!(absz > l1 && w > 0.0 && w.is_finite());
}

// FTRL-proximal closed form (McMahan et al. 2013, linked from the rustdoc of `Ftrl::params`):
//   w = -(z - sgn(z) l1) / ((beta + sqrt(n))/alpha + l2)      if |z| > l1
// `sqrt` is the ghost function; `/` is an uninterpreted function (see C15/ghost_cache.rs), so the
// statement proved is  w == DIV(sgn(z) l1 - z, DIV(sqrt(n) + beta, alpha) + l2)  for every DIV.
// @unit class=complete tier=quick mem=light timeout=600 fns=linfa_ftrl::algorithm::apply_proximal_to_weights
#[kani::proof]
#[kani::unwind(7)]
#[kani::stub(f32::sqrt, memo_sqrt32)]
#[kani::stub(<f32 as core::ops::Div<f32>>::div, uf_div32)]
#[kani::stub(alloc::fmt::format, fmt_stub)]
fn c15_ftrl_prox_closed_form() {
    let (z, n, alpha, beta, l1, l2) = any6();
    kani::assume(z.is_finite() && n >= 0.0 && n.is_sign_positive() && hyper_ok(alpha, beta, l1, l2));
    let w = apply_proximal_to_weights(z, n, alpha, beta, l1, l2);
    let absz = if z < 0.0 { -z } else { z };
    if absz > l1 {
        let sgn: f32 = if z > 0.0 { 1.0 } else { -1.0 };
        let expect = uf_div32(sgn * l1 - z, uf_div32(memo_sqrt32(n) + beta, alpha) + l2);
        assert!(w.to_bits() == expect.to_bits());
    } else {
        assert!(w.to_bits() == 0); // +0.0, and no division was evaluated
        assert!(unsafe { C_DIV_N } == 0);
    }
    kani::cover!(absz > l1 && z > 0.0);
    kani::cover!(absz > l1 && z < 0.0);
    kani::cover!(absz <= l1);
}

// sigma_i = (sqrt(n_i + g_i^2) - sqrt(n_i)) / alpha ; real IEEE arithmetic, consequences only:
// learning rates never increase (sigma >= 0, never NaN) and a zero gradient changes nothing.
// @unit class=complete tier=quick mem=light timeout=600 fns=linfa_ftrl::algorithm::calculate_weight_in_average
#[kani::proof]
#[kani::unwind(7)]
#[kani::stub(f32::sqrt, memo_sqrt32)]
#[kani::stub(alloc::fmt::format, fmt_stub)]
fn c15_ftrl_sigma_nonneg() {
    let (n, g, alpha): (f32, f32, f32) = (kani::any(), kani::any(), kani::any());
    kani::assume(n.is_finite() && n >= 0.0 && n.is_sign_positive() && g.is_finite() && alpha.is_finite() && alpha > 0.0);
    let s = calculate_weight_in_average(n, g, alpha);
    assert!(!s.is_nan() && s >= 0.0);
    if g == 0.0 {
        assert!(s == 0.0);
    }
    kani::cover!(s > 0.0 && s.is_finite());
    kani::cover!(g == 0.0);
    kani::cover!(g < 0.0 && s > 0.0);
}

// closed form with `/` and `*` uninterpreted: s == DIV(sqrt(n + MUL(g, g)) - sqrt(n), alpha)
// @unit class=complete tier=quick mem=light timeout=600 fns=linfa_ftrl::algorithm::calculate_weight_in_average
#[kani::proof]
#[kani::unwind(7)]
#[kani::stub(f32::sqrt, memo_sqrt32)]
#[kani::stub(<f32 as core::ops::Div<f32>>::div, uf_div32)]
#[kani::stub(<f32 as core::ops::Mul<f32>>::mul, uf_mul32)]
#[kani::stub(alloc::fmt::format, fmt_stub)]
fn c15_ftrl_sigma_closed_form() {
    let (n, g, alpha): (f32, f32, f32) = (kani::any(), kani::any(), kani::any());
    kani::assume(n.is_finite() && n >= 0.0 && n.is_sign_positive() && g.is_finite() && alpha.is_finite() && alpha > 0.0);
    let s = calculate_weight_in_average(n, g, alpha);
    let expect = uf_div32(memo_sqrt32(n + uf_mul32(g, g)) - memo_sqrt32(n), alpha);
    assert!(s.to_bits() == expect.to_bits());
    kani::cover!(g != 0.0 && s != 0.0);
    kani::cover!(unsafe { C_DIV_N } == 1 && unsafe { C_MUL_N } == 1);
}

const SLACK: f32 = 4.76837158203125e-7; // 2^-21

// stable_sigmoid is a probability for every non-NaN input (incl. +-inf), is <= 1/2 left of zero,
// >= 1/2 right of it and exactly 1/2 at zero (so it is monotone across zero). Real IEEE arithmetic.
// @unit class=complete tier=quick mem=light timeout=600 fns=linfa_ftrl::algorithm::stable_sigmoid,linfa_ftrl::algorithm::positive_sigmoid,linfa_ftrl::algorithm::negative_sigmoid
#[kani::proof]
#[kani::unwind(7)]
#[kani::stub(f32::exp, memo_exp32)]
#[kani::stub(alloc::fmt::format, fmt_stub)]
fn c15_ftrl_sigmoid_range_half() {
    let x: f32 = kani::any();
    kani::assume(!x.is_nan());
    let sx = stable_sigmoid(x);
    assert!(sx >= 0.0 && sx <= 1.0);
    if x < 0.0 { assert!(sx <= 0.5); } else { assert!(sx >= 0.5); }
    if x == 0.0 { assert!(sx == 0.5); }
    assert!(sx > 0.0); // the clamp keeps exp(-35) a positive normal number: never exactly 0
    kani::cover!(x < 0.0 && sx < 0.5);
    kani::cover!(x > 0.0 && sx > 0.5 && sx < 1.0);
    kani::cover!(x == f32::NEG_INFINITY);
    kani::cover!(x == f32::INFINITY);
}

// saturation: every x >= 35 gives the value at 35, every x <= -35 the value at -35 (`/` uninterpreted)
// @unit class=complete tier=quick mem=light timeout=600 fns=linfa_ftrl::algorithm::stable_sigmoid
#[kani::proof]
#[kani::unwind(7)]
#[kani::stub(f32::exp, memo_exp32)]
#[kani::stub(<f32 as core::ops::Div<f32>>::div, uf_div32)]
#[kani::stub(alloc::fmt::format, fmt_stub)]
fn c15_ftrl_sigmoid_clamps() {
    let x: f32 = kani::any();
    kani::assume(!x.is_nan());
    let hi = stable_sigmoid(35.0f32);
    let lo = stable_sigmoid(-35.0f32);
    let sx = stable_sigmoid(x);
    if x >= 35.0 { assert!(sx.to_bits() == hi.to_bits()); }
    if x <= -35.0 { assert!(sx.to_bits() == lo.to_bits()); }
    kani::cover!(x > 35.0);
    kani::cover!(x < -35.0);
    kani::cover!(x > -35.0 && x < 35.0 && sx.to_bits() != hi.to_bits() && sx.to_bits() != lo.to_bits());
}

// monotone on the non-negative half line: 0 <= x <= y  =>  s(x) <= s(y)   (exp monotone: ghost axiom;
// `/` monotone: mono_div32 axiom; `+` and unary minus: real IEEE). Together with range_half this gives
// monotonicity for every pair that is not strictly negative on both sides.
// @unit class=complete tier=quick mem=light timeout=600 fns=linfa_ftrl::algorithm::stable_sigmoid,linfa_ftrl::algorithm::positive_sigmoid
#[kani::proof]
#[kani::unwind(7)]
#[kani::stub(f32::exp, memo_exp32)]
#[kani::stub(<f32 as core::ops::Div<f32>>::div, mono_div32)]
#[kani::stub(alloc::fmt::format, fmt_stub)]
fn c15_ftrl_sigmoid_monotone_nonneg() {
    let (x, y): (f32, f32) = (kani::any(), kani::any());
    kani::assume(!x.is_nan() && !y.is_nan() && x <= y && x >= 0.0);
    let sx = stable_sigmoid(x);
    let sy = stable_sigmoid(y);
    assert!(sx <= sy + SLACK);
    assert!(sx <= sy);
    kani::cover!(x < y && sx < sy);
    kani::cover!(x < y && y > 35.0);
}

// ---- true Kani function contract (S3: attributes injected from ftrl.attrs above the real private fn) ----
// Sparsity clause only; the contract's postcondition does not mention sqrt, whose value is irrelevant
// to it, so sqrt is a *stateless* arbitrary function here (contract mode havocs static tables).
#[allow(dead_code)]
fn sqrt_arbitrary(_x: f32) -> f32 {
    kani::any()
}
// @unit class=complete tier=quick mem=light timeout=600 fns=linfa_ftrl::algorithm::apply_proximal_to_weights
#[kani::proof_for_contract(apply_proximal_to_weights)]
#[kani::stub(f32::sqrt, sqrt_arbitrary)]
#[kani::stub(alloc::fmt::format, fmt_stub)]
fn c15_ftrl_prox_contract_sparsity() {
    let (z, n, alpha, beta, l1, l2) = any6();
    let w = apply_proximal_to_weights::<f32>(z, n, alpha, beta, l1, l2);
    kani::cover!(w == 0.0 && z != 0.0);
    kani::cover!(w != 0.0);
}
