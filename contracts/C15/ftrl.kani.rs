//! property: C15
//! attach: algorithms/linfa-ftrl/src/algorithm.rs
//! module: vk_c15_ftrl
// @include common/prelude.rs
// @include common/ghost_f32.rs
// @include C15/ghost_cache.rs
use super::*;

// Premise of the property ("all hyperparameters" = the documented ranges of FtrlParams:
// alpha, beta "positive and finite", l1_ratio/l2_ratio "between 0.0 and 1.0") and of the
// state (z finite; n is a sum of squares starting from +0, hence >= +0; +inf allowed for n).
// `FtrlParams::check_ref` rejects beta = -0.0 (`is_negative`), so beta is +0 or positive.
fn hyper_ok(alpha: f32, beta: f32, l1: f32, l2: f32) -> bool {
    alpha.is_finite() && alpha > 0.0 && beta.is_finite() && beta >= 0.0 && beta.is_sign_positive() && l1 >= 0.0 && l1 <= 1.0 && l2 >= 0.0 && l2 <= 1.0
}

// FTRL-proximal closed form (McMahan et al. 2013, eq. for w_{t+1,i}; linked from the rustdoc of `Ftrl::params`):
//   w = 0                                              if |z| <= l1
//   w = -(z - sgn(z) l1) / ((beta + sqrt(n))/alpha + l2)   otherwise
// `sqrt` is the uninterpreted ghost function, the oracle re-evaluates it (functionality axiom).
// @unit class=complete tier=quick mem=light timeout=300 fns=linfa_ftrl::algorithm::apply_proximal_to_weights
#[kani::proof]
#[kani::unwind(7)]
#[kani::stub(f32::sqrt, memo_sqrt32)]
#[kani::stub(alloc::fmt::format, fmt_stub)]
fn c15_ftrl_prox_closed_form() {
    let (z, n, alpha, beta, l1, l2): (f32, f32, f32, f32, f32, f32) =
        (kani::any(), kani::any(), kani::any(), kani::any(), kani::any(), kani::any());
    kani::assume(z.is_finite() && n >= 0.0 && n.is_sign_positive() && hyper_ok(alpha, beta, l1, l2));
    let w = apply_proximal_to_weights(z, n, alpha, beta, l1, l2);
    let absz = if z < 0.0 { -z } else { z };
    if absz <= l1 {
        // sparsity clause: exactly zero (positive zero), never a tiny non-zero
        assert!(w == 0.0);
    } else {
        let sgn: f32 = if z > 0.0 { 1.0 } else { -1.0 };
        let expect = (sgn * l1 - z) / ((memo_sqrt32(n) + beta) / alpha + l2);
        assert!(w == expect);
        // consequences that do not restate the body: the weight opposes z and is never NaN
        assert!(!w.is_nan());
        assert!(if z > 0.0 { w <= 0.0 } else { w >= 0.0 });
    }
    kani::cover!(absz <= l1 && z != 0.0);
    kani::cover!(absz > l1 && w < 0.0 && w.is_finite());
    kani::cover!(absz > l1 && w > 0.0 && w.is_finite());
    kani::cover!(absz == l1 && l1 > 0.0);
}

// sigma_i = (sqrt(n_i + g_i^2) - sqrt(n_i)) / alpha  (per-coordinate learning-rate increment)
// @unit class=complete tier=quick mem=light timeout=300 fns=linfa_ftrl::algorithm::calculate_weight_in_average
#[kani::proof]
#[kani::unwind(7)]
#[kani::stub(f32::sqrt, memo_sqrt32)]
#[kani::stub(alloc::fmt::format, fmt_stub)]
fn c15_ftrl_sigma_closed_form() {
    let (n, g, alpha): (f32, f32, f32) = (kani::any(), kani::any(), kani::any());
    kani::assume(n.is_finite() && n >= 0.0 && n.is_sign_positive() && g.is_finite() && alpha.is_finite() && alpha > 0.0);
    let s = calculate_weight_in_average(n, g, alpha);
    let expect = (memo_sqrt32(n + g * g) - memo_sqrt32(n)) / alpha;
    assert!(s == expect);
    // consequences: learning rates never increase (sigma >= 0), and a zero gradient changes nothing
    assert!(!s.is_nan() && s >= 0.0);
    if g == 0.0 {
        assert!(s == 0.0);
    }
    kani::cover!(s > 0.0 && s.is_finite());
    kani::cover!(g == 0.0);
    kani::cover!(g < 0.0 && s > 0.0);
}

const SLACK: f32 = 4.76837158203125e-7; // 2^-21

// stable_sigmoid: value in [0,1] for every non-NaN input, saturates outside [-35, 35],
// monotone non-decreasing up to rounding (exp is only known to be monotone, see ghost axioms).
// @unit class=complete tier=quick mem=light timeout=300 fns=linfa_ftrl::algorithm::stable_sigmoid,linfa_ftrl::algorithm::positive_sigmoid,linfa_ftrl::algorithm::negative_sigmoid
#[kani::proof]
#[kani::unwind(7)]
#[kani::stub(f32::exp, memo_exp32)]
#[kani::stub(alloc::fmt::format, fmt_stub)]
fn c15_ftrl_sigmoid_range_monotone() {
    let (x, y): (f32, f32) = (kani::any(), kani::any());
    kani::assume(!x.is_nan() && !y.is_nan() && x <= y);
    let sx = stable_sigmoid(x);
    let sy = stable_sigmoid(y);
    assert!(sx >= 0.0 && sx <= 1.0);
    assert!(sy >= 0.0 && sy <= 1.0);
    assert!(sx <= sy + SLACK);
    if x < 0.0 { assert!(sx <= 0.5); } else { assert!(sx >= 0.5); }
    if x == 0.0 { assert!(sx == 0.5); }
    kani::cover!(x < 0.0 && y > 0.0 && sx < sy);
    kani::cover!(x < y && y < 0.0);
    kani::cover!(0.0 < x && x < y);
    kani::cover!(x == f32::NEG_INFINITY && y == f32::INFINITY);
}

// @unit class=complete tier=quick mem=light timeout=300 fns=linfa_ftrl::algorithm::stable_sigmoid
#[kani::proof]
#[kani::unwind(7)]
#[kani::stub(f32::exp, memo_exp32)]
#[kani::stub(alloc::fmt::format, fmt_stub)]
fn c15_ftrl_sigmoid_clamps() {
    let x: f32 = kani::any();
    kani::assume(!x.is_nan());
    let sx = stable_sigmoid(x);
    let hi = stable_sigmoid(35.0f32);
    let lo = stable_sigmoid(-35.0f32);
    if x >= 35.0 { assert!(sx == hi); }
    if x <= -35.0 { assert!(sx == lo); }
    assert!(lo <= sx + SLACK && sx <= hi + SLACK);
    assert!(lo > 0.0 && hi > 0.5); // exp(-35) is a positive normal f32: the clamp keeps the sigmoid off 0
    kani::cover!(x > 35.0);
    kani::cover!(x < -35.0);
    kani::cover!(x > -35.0 && x < 35.0 && sx != hi && sx != lo);
}

// ---- true Kani function contract (S3: attributes injected from ftrl.attrs above the real private fn) ----
// Sparsity clause only; the contract's postcondition does not mention sqrt, whose value is irrelevant
// to it, so sqrt is a *stateless* arbitrary function here (contract mode havocs static tables).
#[allow(dead_code)]
fn sqrt_arbitrary(_x: f32) -> f32 {
    kani::any()
}
// @unit class=complete tier=quick mem=light timeout=300 fns=linfa_ftrl::algorithm::apply_proximal_to_weights
#[kani::proof_for_contract(apply_proximal_to_weights)]
#[kani::stub(f32::sqrt, sqrt_arbitrary)]
#[kani::stub(alloc::fmt::format, fmt_stub)]
fn c15_ftrl_prox_contract_sparsity() {
    let (z, n, alpha, beta, l1, l2): (f32, f32, f32, f32, f32, f32) =
        (kani::any(), kani::any(), kani::any(), kani::any(), kani::any(), kani::any());
    let w = apply_proximal_to_weights::<f32>(z, n, alpha, beta, l1, l2);
    kani::cover!(w == 0.0 && z != 0.0);
    kani::cover!(w != 0.0);
}
