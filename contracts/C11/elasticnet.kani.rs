//! property: C11
//! attach: algorithms/linfa-elasticnet/src/algorithm.rs
//! module: vk_c11_enet
// @include common/prelude.rs
// @include common/ghost_f32.rs
use super::*;
use ndarray::{Array1, Array2};

// =================================================================================================
// C11, decided clause: "coefficients of features under the l1 threshold are exactly zero" (single task:
// coordinate_descent; multi task: the block soft-threshold operator), and "the reported duality gap ...
// is a non-negative upper bound" (non-negativity only, on exact arithmetic).
// Oracles are the textbook operators of the documented objective
//     1/(2n)*||y - Xw||^2 + penalty*(l1_ratio*||w||_1 + (1-l1_ratio)/2*||w||_2^2)
//  - coordinate minimiser for one feature: w = S(x'y, n*l1_ratio*penalty) / (x'x + n*(1-l1_ratio)*penalty),
//    S(z,t) = sign(z)*max(|z|-t,0): exactly 0 iff |z| <= t, else the sign of z;
//  - block soft threshold (prox of t*||.||_2, the post cited in the source): x*max(0, 1 - t/||x||), i.e.
//    0 for ||x|| <= t (in particular prox(0) = 0 for every t >= 0) and x itself for t = 0.
// =================================================================================================

// (The literal formula x*(1 - t/||x||) is not re-evaluated: a second symbolic f32 division makes the query time out
// (> 900 s, measured), and it would restate the body; its consequences below are what the operator is for.)
// Inputs of the bst units: integer-valued f32 (squares and their sum are exact); the norm itself is the
// uninterpreted sqrt (non-negative, monotone, functional, sqrt(0)=0, sqrt(1)=1, 1 <= sqrt(v) <= v for v >= 1).
fn c11_sf(lo: i8, hi: i8) -> f32 { let v: i8 = kani::any(); kani::assume(v >= lo && v <= hi); v as f32 }

fn c11_bst_check(x: &[f32], t: f32) {
    let n = x.len();
    let xv = Array1::from(x.to_vec());
    let out = block_soft_thresholding(xv.view(), t);
    assert!(out.len() == n);
    let mut n2 = 0.0f32;
    for i in 0..n { n2 += x[i] * x[i]; }
    let norm = ghost_sqrt32(n2);                 // same argument => same value as inside the function
    for i in 0..n {
        assert!(!out[i].is_nan());
        if norm <= t {
            assert!(out[i] == 0.0);              // the whole block is thresholded to zero
        } else {
            assert!(out[i].abs() <= x[i].abs()); // shrinkage towards 0 ...
            assert!(out[i] == 0.0 || (out[i] > 0.0) == (x[i] > 0.0));   // ... never across it
            if t == 0.0 { assert!(out[i] == x[i]); }                    // no l1 part: identity
            if t < norm * 0.5 && x[i] != 0.0 { assert!(out[i] != 0.0); } // clearly above the threshold: kept
        }
    }
}

// @unit class=bounded tier=quick mem=light bound="dim=2, x integer-valued in [-8,8], t integer 0..16, not (x=0 and t=0); sqrt uninterpreted" timeout=900 fns=linfa_elasticnet::algorithm::block_soft_thresholding
#[kani::proof]
#[kani::unwind(7)]
#[kani::stub(alloc::fmt::format, fmt_stub)]
#[kani::stub(f32::sqrt, ghost_sqrt32)]
fn c11_bst_dim2() {
    let x = [c11_sf(-8, 8), c11_sf(-8, 8)];
    let t = c11_sf(0, 16);
    kani::assume(t > 0.0 || x[0] != 0.0 || x[1] != 0.0);    // the corner (x = 0, t = 0) is unit c11_bst_zero_block_zero_threshold
    c11_bst_check(&x, t);
    let norm = ghost_sqrt32(x[0] * x[0] + x[1] * x[1]);
    kani::cover!(norm < t && x[0] != 0.0);
    kani::cover!(norm == t && t > 0.0);
    kani::cover!(norm > t && t > 0.0 && x[0] < 0.0 && x[1] > 0.0);
    kani::cover!(t == 0.0);
}

// @unit class=bounded tier=quick mem=light bound="dim=1, x integer-valued in [-8,8], t integer 0..16, not (x=0 and t=0); sqrt uninterpreted" timeout=900 fns=linfa_elasticnet::algorithm::block_soft_thresholding
#[kani::proof]
#[kani::unwind(7)]
#[kani::stub(alloc::fmt::format, fmt_stub)]
#[kani::stub(f32::sqrt, ghost_sqrt32)]
fn c11_bst_dim1() {
    let x = [c11_sf(-8, 8)];
    let t = c11_sf(0, 16);
    kani::assume(t > 0.0 || x[0] != 0.0);
    c11_bst_check(&x, t);
    let norm = ghost_sqrt32(x[0] * x[0]);
    kani::cover!(norm < t && x[0] != 0.0);
    kani::cover!(norm > t && t > 0.0);
}

// prox(0) = 0 also for threshold 0 (ridge / penalty 0: n*l1_ratio*penalty == 0, and x_j'R == 0 for a feature that is
// exactly orthogonal to the residual, e.g. constant targets with an intercept).
// @unit class=bounded tier=quick mem=light bound="dim=2, x=0, t=0; sqrt uninterpreted" timeout=600 fns=linfa_elasticnet::algorithm::block_soft_thresholding
#[kani::proof]
#[kani::unwind(7)]
#[kani::stub(alloc::fmt::format, fmt_stub)]
#[kani::stub(f32::sqrt, ghost_sqrt32)]
fn c11_bst_zero_block_zero_threshold() {
    let neg: [bool; 2] = kani::any();
    let x = [if neg[0] { -0.0f32 } else { 0.0 }, if neg[1] { -0.0f32 } else { 0.0 }];
    let out = block_soft_thresholding(Array1::from(x.to_vec()).view(), 0.0f32);
    assert!(out.len() == 2);
    assert!(out[0] == 0.0 && out[1] == 0.0);
    kani::cover!(neg[0] && !neg[1]);
    kani::cover!(!neg[0] && !neg[1]);
}

// -------------------------------------------------------------------------------------------------
// coordinate_descent, one feature, two samples, integer-valued data: every product and sum that decides
// the thresholding is exact, so the clause is checked with ==.
fn c11_si(lo: i8, hi: i8) -> i8 { let v: i8 = kani::any(); kani::assume(v >= lo && v <= hi); v }

fn c11_cd_check(x: [i8; 2], y: [i8; 2], pen: u8, half_ratio: bool, max_steps: u32) -> (i32, i32) {
    // l1_ratio in {1, 1/2}: n*l1_ratio*penalty is the integer 2*pen resp. pen
    let l1_ratio = if half_ratio { 0.5f32 } else { 1.0f32 };
    let xm = Array2::from_shape_vec((2, 1), vec![x[0] as f32, x[1] as f32]).unwrap();
    let ym = Array1::from(vec![y[0] as f32, y[1] as f32]);
    let (w, gap, steps) = coordinate_descent(xm.view(), ym.view(), 1e-4f32, max_steps, l1_ratio, pen as f32);
    let xty = x[0] as i32 * y[0] as i32 + x[1] as i32 * y[1] as i32;
    let thr = if half_ratio { pen as i32 } else { 2 * pen as i32 };
    assert!(w.len() == 1);
    assert!(steps >= 1 && steps <= max_steps);
    assert!(!gap.is_nan());
    if x[0] == 0 && x[1] == 0 {
        assert!(w[0] == 0.0);                      // a zero-norm column keeps coefficient 0
    } else if xty.abs() <= thr {
        assert!(w[0] == 0.0);                      // under the l1 threshold: exactly zero
    } else {
        assert!(w[0] != 0.0 && !w[0].is_nan());
        assert!((w[0] > 0.0) == (xty > 0));        // otherwise the sign of x'y
    }
    (xty, thr)
}

// @unit class=bounded tier=thorough mem=heavy bound="n=2,p=1,max_steps=2, x,y integer-valued in [-4,4], penalty integer 0..40, l1_ratio in {1,1/2}" timeout=2400 fns=linfa_elasticnet::algorithm::coordinate_descent,linfa_elasticnet::algorithm::duality_gap
#[kani::proof]
#[kani::unwind(5)]
#[kani::stub(alloc::fmt::format, fmt_stub)]
fn c11_cd_n2_p1_symbolic_x() {
    let x = [c11_si(-4, 4), c11_si(-4, 4)];
    let y = [c11_si(-4, 4), c11_si(-4, 4)];
    let pen: u8 = kani::any();
    kani::assume(pen <= 40);
    let half: bool = kani::any();
    let (xty, thr) = c11_cd_check(x, y, pen, half, 2);
    kani::cover!(xty.abs() <= thr && xty != 0 && thr > 0);
    kani::cover!(xty > thr && thr > 0);
    kani::cover!(xty < -thr && thr > 0);
    kani::cover!(x[0] == 0 && x[1] == 0 && y[0] != 0);
    kani::cover!(half && xty.abs() > thr && xty.abs() <= 2 * thr);
}

// cheaper instance for the quick tier: the design column is concrete, targets and penalty symbolic
// @unit class=bounded tier=quick mem=heavy bound="n=2,p=1,max_steps=2, x=(1,2), y integer-valued in [-4,4], penalty integer 0..12, l1_ratio=1" timeout=900 fns=linfa_elasticnet::algorithm::coordinate_descent,linfa_elasticnet::algorithm::duality_gap
#[kani::proof]
#[kani::unwind(5)]
#[kani::stub(alloc::fmt::format, fmt_stub)]
fn c11_cd_n2_p1_fixed_x() {
    let y = [c11_si(-4, 4), c11_si(-4, 4)];
    let pen: u8 = kani::any();
    kani::assume(pen <= 12);
    let (xty, thr) = c11_cd_check([1, 2], y, pen, false, 2);
    kani::cover!(xty.abs() <= thr && xty.abs() > thr / 2 && thr > 0);   // zero only because of the factor n
    kani::cover!(xty > thr && thr > 0);
    kani::cover!(xty < -thr && thr > 0);
}

// @unit class=bounded tier=quick mem=heavy bound="n=2,p=1,max_steps=2, x=(0,0), y integer-valued in [-4,4], penalty integer 0..12, l1_ratio in {1,1/2}" timeout=900 fns=linfa_elasticnet::algorithm::coordinate_descent
#[kani::proof]
#[kani::unwind(5)]
#[kani::stub(alloc::fmt::format, fmt_stub)]
fn c11_cd_zero_column() {
    let y = [c11_si(-4, 4), c11_si(-4, 4)];
    let pen: u8 = kani::any();
    kani::assume(pen <= 12);
    let half: bool = kani::any();
    let _ = c11_cd_check([0, 0], y, pen, half, 2);
    kani::cover!(y[0] != 0 && pen == 0);
    kani::cover!(y[1] != 0 && pen > 0 && half);
}

// -------------------------------------------------------------------------------------------------
// duality_gap(x, y, w, r = y - Xw): for EVERY coefficient vector (optimal or not) the gap is >= 0 (weak duality).
// Integer-valued data, l1_ratio in {1, 1/2} with an even penalty: l1_reg, l2_reg, x'r, r'r, w'w, r'y are exact;
// the only rounded quantities are const_ = l1_reg/|x'r - l2_reg*w| and the products with it, hence the stated
// slack of 8 ulp of the sum of the magnitudes of the terms.  In the branch const_ = 1 everything is exact
// and the gap must be >= 0 exactly.
// @unit class=bounded tier=quick mem=heavy bound="n=2,p=1, x,y,w integer-valued in [-3,3], penalty even integer 0..8, l1_ratio in {1,1/2}" timeout=1200 fns=linfa_elasticnet::algorithm::duality_gap
#[kani::proof]
#[kani::unwind(5)]
#[kani::stub(alloc::fmt::format, fmt_stub)]
fn c11_gap_nonneg_n2_p1() {
    let x = [c11_si(-3, 3), c11_si(-3, 3)];
    let y = [c11_si(-3, 3), c11_si(-3, 3)];
    let w = c11_si(-3, 3);
    let hp: u8 = kani::any();
    kani::assume(hp <= 4);
    let pen = 2 * hp as i32;
    let half: bool = kani::any();
    let l1_ratio = if half { 0.5f32 } else { 1.0f32 };
    let r = [y[0] as i32 - x[0] as i32 * w as i32, y[1] as i32 - x[1] as i32 * w as i32];
    let xm = Array2::from_shape_vec((2, 1), vec![x[0] as f32, x[1] as f32]).unwrap();
    let ym = Array1::from(vec![y[0] as f32, y[1] as f32]);
    let wm = Array1::from(vec![w as f32]);
    let rm = Array1::from(vec![r[0] as f32, r[1] as f32]);
    let gap = duality_gap(xm.view(), ym.view(), wm.view(), rm.view(), l1_ratio, pen as f32);
    // integer oracle for the branch and the magnitudes
    let l1_reg = if half { pen } else { 2 * pen };
    let l2_reg = if half { pen } else { 0 };
    let xta = x[0] as i32 * r[0] + x[1] as i32 * r[1] - l2_reg * w as i32;
    let r2 = r[0] * r[0] + r[1] * r[1];
    let ry = r[0] * y[0] as i32 + r[1] * y[1] as i32;
    let w2 = (w as i32) * (w as i32);
    assert!(!gap.is_nan());
    if xta.abs() <= l1_reg {
        assert!(gap == (r2 + l1_reg * (w as i32).abs() - ry + l2_reg * w2) as f32);   // exact branch
        assert!(gap >= 0.0);
    } else {
        let mag = (r2 + ry.abs() + l1_reg * (w as i32).abs() + l2_reg * w2 + 1) as f32;
        assert!(gap >= -mag * 9.5367431640625e-7);                                   // 2^-20
    }
    kani::cover!(xta.abs() <= l1_reg && w != 0 && r2 > 0);
    kani::cover!(xta.abs() > l1_reg && l1_reg > 0 && w != 0);
    kani::cover!(gap > 0.0);
    kani::cover!(gap == 0.0 && w != 0);
}

// -------------------------------------------------------------------------------------------------
// Multi-task variant: the whole coefficient ROW of a feature whose block x_j'Y lies in the closed ball of radius
// n*l1_ratio*penalty is exactly zero (group sparsity of the l21 penalty); otherwise each entry keeps the sign of its x_j'y_k.
// block_coordinate_descent's rank-one residual updates call ndarray::linalg::general_mat_mul, which goes to the
// `matrixmultiply` kernel (CPU-feature detection by inline asm: unsupported by Kani).  ndarray's private
// `mat_mul_general` (documented "C <- alpha A B + beta C") is replaced by this textbook triple loop -- a TRUSTED MODEL of
// the kernel, listed with the stubs in the evidence.
fn c11_mat_mul<A: ndarray::LinalgScalar>(alpha: A, lhs: &ndarray::ArrayView2<'_, A>, rhs: &ndarray::ArrayView2<'_, A>, beta: A, c: &mut ndarray::ArrayViewMut2<'_, A>) {
    let ((m, k), (_, n)) = (lhs.dim(), rhs.dim());
    for i in 0..m {
        for j in 0..n {
            let mut acc = A::zero();
            for l in 0..k { acc = acc + lhs[(i, l)] * rhs[(l, j)]; }
            c[(i, j)] = if beta.is_zero() { alpha * acc } else { beta * c[(i, j)] + alpha * acc };
        }
    }
}

// @unit class=bounded tier=thorough mem=heavy bound="n=2,p=1,tasks=2,max_steps=2, x,Y integer-valued in [-2,2], penalty integer 0..8, l1_ratio=1; sqrt uninterpreted, mat-mul kernel modelled" timeout=3000 fns=linfa_elasticnet::algorithm::block_coordinate_descent,linfa_elasticnet::algorithm::block_soft_thresholding,linfa_elasticnet::algorithm::duality_gap_mtl
#[kani::proof]
#[kani::unwind(7)]
#[kani::stub(alloc::fmt::format, fmt_stub)]
#[kani::stub(f32::sqrt, ghost_sqrt32)]
#[kani::stub(ndarray::linalg::impl_linalg::mat_mul_general, c11_mat_mul)]
fn c11_bcd_n2_p1_t2() {
    let x = [c11_si(-2, 2), c11_si(-2, 2)];
    let y = [[c11_si(-2, 2), c11_si(-2, 2)], [c11_si(-2, 2), c11_si(-2, 2)]];
    let pen: u8 = kani::any();
    kani::assume(pen <= 8);
    let xm = Array2::from_shape_vec((2, 1), vec![x[0] as f32, x[1] as f32]).unwrap();
    let ym = Array2::from_shape_vec((2, 2), vec![y[0][0] as f32, y[0][1] as f32, y[1][0] as f32, y[1][1] as f32]).unwrap();
    let (w, gap, steps) = block_coordinate_descent(xm.view(), ym.view(), 1e-4f32, 2, 1.0f32, pen as f32);
    let t = [x[0] as i32 * y[0][0] as i32 + x[1] as i32 * y[1][0] as i32, x[0] as i32 * y[0][1] as i32 + x[1] as i32 * y[1][1] as i32];
    let norm = ghost_sqrt32((t[0] * t[0] + t[1] * t[1]) as f32);
    let thr = (2 * pen as i32) as f32;
    assert!(w.dim() == (1, 2));
    assert!(steps >= 1 && steps <= 2);
    let _ = gap;
    if (x[0] == 0 && x[1] == 0) || norm <= thr {
        assert!(w[(0, 0)] == 0.0 && w[(0, 1)] == 0.0);
    } else {
        for k in 0..2 {
            assert!(!w[(0, k)].is_nan());
            if t[k] != 0 && norm > 2.0 * thr { assert!(w[(0, k)] != 0.0 && (w[(0, k)] > 0.0) == (t[k] > 0)); }
        }
    }
    kani::cover!(norm <= thr && t[0] != 0 && t[1] != 0);
    kani::cover!(norm > 2.0 * thr && thr > 0.0 && t[0] > 0 && t[1] < 0);
    kani::cover!(t[0] == 0 && t[1] == 0 && pen == 0 && x[0] != 0);
}
