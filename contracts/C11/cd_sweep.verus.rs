//! property: C11
//! unit: V-C11-cd-sweep
//! tier: quick
//! fns: linfa_elasticnet::algorithm::coordinate_descent (one sweep over the coordinates: residual bookkeeping, which quantity is soft-thresholded, which denominators and thresholds are used)
//@ extract SWEEP from algorithms/linfa-elasticnet/src/algorithm.rs anchor "for j in 0..n_features {" block after "fn coordinate_descent<"
//@ rewrite SWEEP "for j in 0..n_features {" => "let mut j_next: usize = 0; while j_next < n_features /*INV*/ { let j = j_next; j_next += 1;   /* `for j in 0..n_features` as a while loop (the body uses `continue`) */"
//@ rewrite SWEEP "/*INV*/" => "invariant n_features == w.v@.len(), n_features == norm_cols_x.p@, n_features == x.p@, j_next <= n_features, r.coef@.len() == n_features, consistent(r.coef@, w.v@), w.v@.len() == w0.len(), forall|t: int| j_next <= t < n_features ==> w.v@[t] == w0[t], forall|t: int| 0 <= t < j_next ==> #[trigger] updated_ok(w.v@[t], w0[t], t), decreases n_features - j_next,"
//@ rewrite SWEEP "abs_diff_eq!(norm_cols_x[j], F::zero())" => "norm_cols_x.is_zero_at(j)   /* abs_diff_eq!(norm_cols_x[j], 0) */"
//@ rewrite SWEEP "let x_j: ArrayView1<F> = x.slice(s![.., j]);" => "let x_j = x.column_tok(j);   /* x.slice(s![.., j]) */"
//@ rewrite SWEEP "let tmp: F = x_j.dot(&r);" => "let tmp = x_j.dot_tok(&r);"
//@ rewrite SWEEP "w[j] = tmp.signum() * F::max(tmp.abs() - n_samples * l1_ratio * penalty, F::zero())" => "w.set(j, soft_threshold_abs(tmp, Thr::NSamplesL1RatioPenalty)   /* tmp.signum() * F::max(tmp.abs() - n_samples * l1_ratio * penalty, F::zero()) */"
//@ rewrite SWEEP "/ (norm_cols_x[j] + n_samples * (F::one() - l1_ratio) * penalty);" => ".over(norm_cols_x.at(j), Den::NSamplesOneMinusL1RatioPenalty));   /* / (norm_cols_x[j] + n_samples * (F::one() - l1_ratio) * penalty) */"
//@ rewrite SWEEP "w[j]" => "w.at(j)"
//@ rewrite? SWEEP "abs_diff_ne!(" => "is_nonzero_abs(   /* abs_diff_ne! */ "
//@ rewrite? SWEEP ", F::zero())" => ")"
//@ rewrite? SWEEP "r.scaled_add(-" => "r.sub_scaled_tok("
//@ rewrite? SWEEP "r.scaled_add(" => "r.add_scaled_tok("
//@ rewrite SWEEP "let d_w_j = (w.at(j) - old_w_j).abs();" => "let d_w_j = w.at(j).abs_diff(old_w_j);"
//@ rewrite SWEEP "d_w_max = F::max(d_w_max, d_w_j);" => "d_w_max = d_w_max.max_tok(d_w_j);"
//@ rewrite SWEEP "w_max = F::max(w_max, w.at(j).abs());" => "w_max = w_max.max_tok(w.at(j).abs_tok());"
//@ expect-fail vacuity_guard_sweep
use vstd::prelude::*;
verus! {
// ---- tokens: a coefficient is a term; the residual is y - sum_j coef[j] * x_j, kept as the vector of terms `coef` ----
pub enum Thr { NSamplesL1RatioPenalty }
pub enum Den { NSamplesOneMinusL1RatioPenalty }
pub enum W {
    Init(int),                                        // the value coordinate t had when the sweep began
    // S(x_j . (y - sum_{t != j} coef[t] x_t), n * l1_ratio * penalty) / (|x_j|^2 + n * (1 - l1_ratio) * penalty) for the coefficients `others`
    Updated { j: int, others: Seq<W> },
}
#[derive(Clone, Copy)]
pub struct FTok { pub t: Ghost<W> }
pub uninterp spec fn spec_nonzero(w: W) -> bool;          // the test `abs_diff_ne!(v, 0)`; ASSUMED to agree with v != 0 (no coefficient in the band (0, eps))
pub struct Misc;
#[verifier::external_body] pub fn is_nonzero_abs(v: FTok) -> (r: bool) ensures r == spec_nonzero(v.t@) { unimplemented!() }
impl FTok {
    #[verifier::external_body] pub fn abs_diff(self, o: FTok) -> (r: Misc) { unimplemented!() }
    #[verifier::external_body] pub fn abs_tok(self) -> (r: Misc) { unimplemented!() }
}
impl Misc { #[verifier::external_body] pub fn max_tok(self, o: Misc) -> (r: Misc) { unimplemented!() } }
pub struct WVec { pub v: Ghost<Seq<W>> }
impl WVec {
    #[verifier::external_body] pub fn at(&self, j: usize) -> (r: FTok) requires j < self.v@.len(), ensures r.t@ == self.v@[j as int] { unimplemented!() }
    #[verifier::external_body] pub fn set(&mut self, j: usize, val: FTok) requires j < old(self).v@.len(), ensures final(self).v@ == old(self).v@.update(j as int, val.t@) { unimplemented!() }
}
pub struct NormTok { pub p: Ghost<int> }
pub uninterp spec fn spec_zero_column(j: int) -> bool;
impl NormTok {
    #[verifier::external_body] pub fn is_zero_at(&self, j: usize) -> (r: bool) requires j < self.p@, ensures r == spec_zero_column(j as int) { unimplemented!() }
    #[verifier::external_body] pub fn at(&self, j: usize) -> (r: ColNorm) requires j < self.p@, ensures r.j@ == j { unimplemented!() }
}
pub struct ColNorm { pub j: Ghost<int> }
pub struct ColTok { pub j: Ghost<int> }
pub struct XTok { pub p: Ghost<int> }
impl XTok { #[verifier::external_body] pub fn column_tok(&self, j: usize) -> (r: ColTok) requires j < self.p@, ensures r.j@ == j { unimplemented!() } }
// the residual y - sum_t coef[t] * x_t; a coefficient the code treats as zero (`!nonzero`) contributes nothing, whatever term it is
pub enum C { Zero, Is(W) }
pub struct ResTok { pub coef: Ghost<Seq<C>> }
impl ResTok {
    // r.scaled_add(+-a, &x_j): coef[j] changes by -+a; the only additions the bookkeeping allows are "put coefficient j back" (coef[j]: Is(a) -> Zero)
    // and "take the new coefficient j out" (coef[j]: Zero -> Is(a))
    #[verifier::external_body]
    pub fn add_scaled_tok(&mut self, a: FTok, x_j: &ColTok)                 // r.scaled_add(a, &x_j)
        requires 0 <= x_j.j@ < old(self).coef@.len(), old(self).coef@[x_j.j@] == C::Is(a.t@),     // exactly a * x_j is currently taken out of the residual
        ensures final(self).coef@ == old(self).coef@.update(x_j.j@, C::Zero),
    { unimplemented!() }
    #[verifier::external_body]
    pub fn sub_scaled_tok(&mut self, a: FTok, x_j: &ColTok)                 // r.scaled_add(-a, &x_j)
        requires 0 <= x_j.j@ < old(self).coef@.len(), old(self).coef@[x_j.j@] == C::Zero,         // nothing of x_j is currently taken out
        ensures final(self).coef@ == old(self).coef@.update(x_j.j@, C::Is(a.t@)),
    { unimplemented!() }
}
pub struct DotTok { pub j: Ghost<int>, pub coef: Ghost<Seq<C>> }
impl ColTok { #[verifier::external_body] pub fn dot_tok(&self, r: &ResTok) -> (d: DotTok) ensures d.j@ == self.j@, d.coef@ == r.coef@ { unimplemented!() } }
pub struct SoftTok { pub j: Ghost<int>, pub coef: Ghost<Seq<C>> }
#[verifier::external_body]
pub fn soft_threshold_abs(tmp: DotTok, thr: Thr) -> (r: SoftTok) ensures r.j@ == tmp.j@, r.coef@ == tmp.coef@ { unimplemented!() }
pub open spec fn w_of(c: C) -> Seq<W> { match c { C::Zero => Seq::empty(), C::Is(w) => seq![w] } }
impl SoftTok {
    // division by (norm of the SAME column + ridge term)
    #[verifier::external_body]
    pub fn over(self, norm: ColNorm, den: Den) -> (r: FTok)
        requires norm.j@ == self.j@,
        ensures r.t@ == (W::Updated { j: self.j@, others: Seq::new(self.coef@.len(), |t: int| match self.coef@[t] { C::Zero => W::Init(-1), C::Is(w) => w }) }),
    { unimplemented!() }
}
// the residual is consistent with the coefficient vector: coordinate t is taken out with exactly w[t], or not at all when the code treats w[t] as zero
pub open spec fn consistent(coef: Seq<C>, w: Seq<W>) -> bool {
    coef.len() == w.len() && forall|t: int| 0 <= t < w.len() ==> #[trigger] coef[t] == (if spec_nonzero(w[t]) { C::Is(w[t]) } else { C::Zero })
}
// coordinate t after the sweep: untouched if its column is zero, otherwise the documented update computed with coordinate t put back
// (its own entry of `others` is the neutral marker) and all other coordinates at their CURRENT values
pub open spec fn updated_ok(now: W, before: W, t: int) -> bool {
    if spec_zero_column(t) { now == before } else { now is Updated && now->j == t && now->others.len() > t && now->others[t] == W::Init(-1) }
}

// ---- one sweep of coordinate_descent, extracted from /repo on every run ----
// C11 (elastic net, KKT point of the documented objective): coordinate descent is only correct if, whenever coordinate j is updated,
// the residual equals y - sum_{t != j} w_t x_t (coordinate j put back, every other coordinate at its current value), and if after the
// update the residual again equals y - X w.  Both are proved for every number of features; the numeric content of the soft-threshold
// and of the denominator is carried by the enum tags (and checked on concrete sizes by the bounded Kani units).
pub fn sweep(x: &XTok, w: &mut WVec, r: &mut ResTok, norm_cols_x: &NormTok, n_features: usize, d_w_max_in: Misc, w_max_in: Misc) -> (out: (Misc, Misc))
    requires n_features == old(w).v@.len(), n_features == norm_cols_x.p@, n_features == x.p@, consistent(old(r).coef@, old(w).v@),
    ensures consistent(final(r).coef@, final(w).v@), final(w).v@.len() == old(w).v@.len(),
        forall|t: int| 0 <= t < n_features ==> #[trigger] updated_ok(final(w).v@[t], old(w).v@[t], t),
{
    let ghost w0 = w.v@;
    let mut d_w_max = d_w_max_in;
    let mut w_max = w_max_in;
/*@SWEEP*/
    (d_w_max, w_max)
}
pub fn vacuity_guard_sweep(x: &XTok, w: &mut WVec, r: &mut ResTok, norm_cols_x: &NormTok, n_features: usize, d_w_max_in: Misc, w_max_in: Misc) -> (out: (Misc, Misc))
    requires n_features == old(w).v@.len(), n_features == norm_cols_x.p@, n_features == x.p@, consistent(old(r).coef@, old(w).v@),
    ensures false,
{
    (d_w_max_in, w_max_in)
}
} // verus!
fn main() {}
