//! property: C11
//! unit: V-C11-fit-intercept
//! tier: quick
//! fns: linfa_elasticnet::algorithm::ElasticNetValidParams::fit, linfa_elasticnet::algorithm::MultiTaskElasticNetValidParams::fit (what is handed to the coordinate-descent solver, how the intercept is derived from it, which hyper-parameter goes where, what the model is assembled from)
//@ extract ST from algorithms/linfa-elasticnet/src/algorithm.rs anchor "fn fit(&self, dataset: &DatasetBase<ArrayBase<D, Ix2>, T>) -> Result<Self::Object> {" body after "type Object = ElasticNet<F>;"
//@ rewrite ST "dataset.as_single_targets()" => "dataset.targets()"
//@ rewrite-re? ST " \+ intercept;" => ".add_abs(&intercept);"
//@ rewrite-re? ST "intercept\.into_scalar\(\) - (\w+)\.dot\(&hyperplane\)" => "intercept.into_scalar().sub_abs(&\1.dot(&hyperplane))"
//@ rewrite ST "Ok(ElasticNet {" => "Ok(ModelV {"
//@ copy ST2 from ST
//@ extract MT from algorithms/linfa-elasticnet/src/algorithm.rs anchor "fn fit(&self, dataset: &DatasetBase<ArrayBase<D, Ix2>, T>) -> Result<Self::Object> {" body after "type Object = MultiTaskElasticNet<F>;"
//@ rewrite MT "dataset.targets().as_multi_targets()" => "dataset.targets()"
//@ rewrite MT "block_coordinate_descent(" => "coordinate_descent("
//@ rewrite-re? MT " \+ &intercept;" => ".add_abs(&intercept);"
//@ rewrite-re? MT "let intercept = intercept - (\w+)\.dot\(&hyperplane\);" => "let intercept = intercept.sub_abs(&\1.dot(&hyperplane));"
//@ rewrite MT "Ok(MultiTaskElasticNet {" => "Ok(ModelV {"
//@ copy MT2 from MT
//@ expect-fail vacuity_guard_fit
use vstd::prelude::*;
verus! {
// ---- arrays are known by the expression that produced them ----
pub enum AE {
    Records, Targets, Zero,
    ColMean(Box<AE>),                 // mean over the samples
    Centred(Box<AE>),                 // every row minus ColMean
    Cd(Box<AE>, Box<AE>),             // coefficients returned by (block) coordinate descent on (X, Y)
    Dot(Box<AE>, Box<AE>), Add(Box<AE>, Box<AE>), Sub(Box<AE>, Box<AE>),
}
pub struct ArrTok { pub e: Ghost<AE> }
impl ArrTok {
    #[verifier::external_body] pub fn view(&self) -> (r: ArrTok) ensures r.e@ == self.e@ { unimplemented!() }
    #[verifier::external_body] pub fn into_scalar(self) -> (r: ArrTok) ensures r.e@ == self.e@ { unimplemented!() }
    #[verifier::external_body] pub fn dot(&self, o: &ArrTok) -> (r: ArrTok) ensures r.e@ == AE::Dot(Box::new(self.e@), Box::new(o.e@)) { unimplemented!() }
    #[verifier::external_body] pub fn add_abs(&self, o: &ArrTok) -> (r: ArrTok) ensures r.e@ == AE::Add(Box::new(self.e@), Box::new(o.e@)) { unimplemented!() }
    #[verifier::external_body] pub fn sub_abs(&self, o: &ArrTok) -> (r: ArrTok) ensures r.e@ == AE::Sub(Box::new(self.e@), Box::new(o.e@)) { unimplemented!() }
}
// hyper-parameters are known by name, so that a swapped argument is seen
#[derive(PartialEq, Eq)]
pub enum HP { Tolerance, MaxIterations, L1Ratio, Penalty }
pub struct HPTok { pub which: HP }
pub struct GapTok { pub of: Ghost<(AE, AE)> }
pub struct StepsTok { pub of: Ghost<(AE, AE)> }
pub struct VarTok { pub of: Ghost<AE> }
pub struct DatasetV { pub rec: ArrTok, pub tgt: ArrTok }
impl DatasetV {
    pub fn records(&self) -> (r: &ArrTok) ensures *r == self.rec { &self.rec }
    pub fn targets(&self) -> (r: ArrTok) ensures r.e@ == self.tgt.e@ { ArrTok { e: Ghost(self.tgt.e@) } }
}
// compute_intercept(with_intercept, a): (column mean, centred a) with an intercept, (zero, a itself) without - as its rustdoc says (ASSUMED here)
#[verifier::external_body]
pub fn compute_intercept(with_intercept: bool, a: ArrTok) -> (r: (ArrTok, ArrTok))
    ensures with_intercept ==> r.0.e@ == AE::ColMean(Box::new(a.e@)) && r.1.e@ == AE::Centred(Box::new(a.e@)),
            !with_intercept ==> r.0.e@ == AE::Zero && r.1.e@ == a.e@,
{ unimplemented!() }
// coordinate_descent / block_coordinate_descent(x, y, tolerance, max_iterations, l1_ratio, penalty) (their own contracts: V-C11-cd-sweep, V-C11-duality-gap)
#[verifier::external_body]
pub fn coordinate_descent(x: ArrTok, y: ArrTok, tol: HPTok, max_steps: HPTok, l1_ratio: HPTok, penalty: HPTok) -> (r: (ArrTok, GapTok, StepsTok))
    requires tol.which == HP::Tolerance, max_steps.which == HP::MaxIterations, l1_ratio.which == HP::L1Ratio, penalty.which == HP::Penalty,
    ensures r.0.e@ == AE::Cd(Box::new(x.e@), Box::new(y.e@)), r.1.of@ == (x.e@, y.e@), r.2.of@ == (x.e@, y.e@),
{ unimplemented!() }
#[verifier::external_body]
pub fn variance_params(ds: &DatasetV, y_est: ArrTok) -> (r: VarTok) ensures r.of@ == y_est.e@ { unimplemented!() }
pub struct ModelV { pub hyperplane: ArrTok, pub intercept: ArrTok, pub duality_gap: GapTok, pub n_steps: StepsTok, pub variance: VarTok }
#[derive(Debug)]
pub enum ErrTok { E }

// the pair (X', Y') the solver must see, and the intercept that goes with its answer w:
//   with an intercept b the objective 1/(2n)||y - Xw - b||^2 + pen(w) is minimal in b at b = mean(y) - mean(X).w  (b is not penalised),
//   and substituting it leaves the same problem on the CENTRED features and targets; without an intercept nothing is centred and b = 0
pub open spec fn solver_x(with: bool) -> AE { if with { AE::Centred(Box::new(AE::Records)) } else { AE::Records } }
pub open spec fn solver_y(with: bool) -> AE { if with { AE::Centred(Box::new(AE::Targets)) } else { AE::Targets } }
pub open spec fn joint_intercept(with: bool, w: AE, b: AE) -> bool {
    if with { b == AE::Sub(Box::new(AE::ColMean(Box::new(AE::Targets))), Box::new(AE::Dot(Box::new(AE::ColMean(Box::new(AE::Records))), Box::new(w)))) }
    else { b == AE::Zero || b == AE::Sub(Box::new(AE::Zero), Box::new(AE::Dot(Box::new(AE::Zero), Box::new(w)))) }
}
pub struct ParamsV { pub with: bool }
impl ParamsV {
    pub fn with_intercept(&self) -> (r: bool) ensures r == self.with { self.with }
    pub fn tolerance(&self) -> (r: HPTok) ensures r.which == HP::Tolerance { HPTok { which: HP::Tolerance } }
    pub fn max_iterations(&self) -> (r: HPTok) ensures r.which == HP::MaxIterations { HPTok { which: HP::MaxIterations } }
    pub fn l1_ratio(&self) -> (r: HPTok) ensures r.which == HP::L1Ratio { HPTok { which: HP::L1Ratio } }
    pub fn penalty(&self) -> (r: HPTok) ensures r.which == HP::Penalty { HPTok { which: HP::Penalty } }

    // ---- wiring clauses (hold on the pinned tree): the targets the solver sees, argument order of the hyper-parameters (precondition of the
    // solver token), the model's hyperplane / gap / step count come from that one solver call, the variance estimate is computed from
    // records * hyperplane + the model's intercept ----
    pub fn fit_single_wiring(&self, dataset: &DatasetV) -> (r: Result<ModelV, ErrTok>)
        requires dataset.rec.e@ == AE::Records, dataset.tgt.e@ == AE::Targets,
        ensures r.is_ok(), ({ let m = r.unwrap();
            &&& exists|x: AE| #[trigger] m.hyperplane.e@ == AE::Cd(Box::new(x), Box::new(solver_y(self.with))) && m.duality_gap.of@ == (x, solver_y(self.with)) && m.n_steps.of@ == (x, solver_y(self.with))
            &&& m.variance.of@ == AE::Add(Box::new(AE::Dot(Box::new(AE::Records), Box::new(m.hyperplane.e@))), Box::new(m.intercept.e@)) }),
    {
/*@ST*/
    }
    pub fn fit_multi_wiring(&self, dataset: &DatasetV) -> (r: Result<ModelV, ErrTok>)
        requires dataset.rec.e@ == AE::Records, dataset.tgt.e@ == AE::Targets,
        ensures r.is_ok(), ({ let m = r.unwrap();
            &&& exists|x: AE| #[trigger] m.hyperplane.e@ == AE::Cd(Box::new(x), Box::new(solver_y(self.with))) && m.duality_gap.of@ == (x, solver_y(self.with)) && m.n_steps.of@ == (x, solver_y(self.with))
            &&& m.variance.of@ == AE::Add(Box::new(AE::Dot(Box::new(AE::Records), Box::new(m.hyperplane.e@))), Box::new(m.intercept.e@)) }),
    {
/*@MT*/
    }
    // ---- C11: "jointly in coefficients and intercept, whatever the offsets and scales of the features" ----
    pub fn fit_single_joint_intercept(&self, dataset: &DatasetV) -> (r: Result<ModelV, ErrTok>)
        requires dataset.rec.e@ == AE::Records, dataset.tgt.e@ == AE::Targets,
        ensures r.is_ok(), r.unwrap().hyperplane.e@ == AE::Cd(Box::new(solver_x(self.with)), Box::new(solver_y(self.with))),
            joint_intercept(self.with, r.unwrap().hyperplane.e@, r.unwrap().intercept.e@),
    {
/*@ST2*/
    }
    pub fn fit_multi_joint_intercept(&self, dataset: &DatasetV) -> (r: Result<ModelV, ErrTok>)
        requires dataset.rec.e@ == AE::Records, dataset.tgt.e@ == AE::Targets,
        ensures r.is_ok(), r.unwrap().hyperplane.e@ == AE::Cd(Box::new(solver_x(self.with)), Box::new(solver_y(self.with))),
            joint_intercept(self.with, r.unwrap().hyperplane.e@, r.unwrap().intercept.e@),
    {
/*@MT2*/
    }
    pub fn vacuity_guard_fit(&self, dataset: &DatasetV) -> (r: Result<ModelV, ErrTok>)
        requires dataset.rec.e@ == AE::Records, dataset.tgt.e@ == AE::Targets,
        ensures false,
    {
        Err(ErrTok::E)
    }
}
} // verus!
fn main() {}
