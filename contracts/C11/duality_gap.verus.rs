//! property: C11
//! unit: V-C11-duality-gap
//! tier: quick
//! fns: linfa_elasticnet::algorithm::duality_gap (the scaling const_ in [0,1] makes const_ * r dual feasible: every |(X^T r - l2 w)_j| * const_ <= l1_reg), linfa_elasticnet::algorithm::duality_gap_mtl (same with the row-wise l2 norm: the dual norm of the l2/l1 penalty)
//@ extract GAP from algorithms/linfa-elasticnet/src/algorithm.rs anchor "fn duality_gap<'a, F: Float>(" body
//@ rewrite GAP "F::cast(0.5)" => "FT::half()"
//@ rewrite GAP "F::cast(x.nrows())" => "FT::from_usize(x.nrows())"
//@ rewrite GAP "F::one()" => "FT::one()"
//@ rewrite? GAP "&w * l2_reg" => "w.scale(l2_reg)   /* &w * l2_reg (Verus cannot resolve `impl Mul<F> for &Array`) */"
//@ rewrite? GAP "dual_norm_xta > l1_reg" => "dual_norm_xta.gt(l1_reg)"
//@ rewrite? GAP "dual_norm_xta >= l1_reg" => "dual_norm_xta.ge(l1_reg)"
//@ rewrite? GAP "l1_reg < dual_norm_xta" => "dual_norm_xta.gt(l1_reg)"
//@ rewrite? GAP "gap += " => "gap = gap + ("
//@ rewrite? GAP "* w_norm2;" => "* w_norm2);"
//@ insert GAP at-end : proof { cg = const_.v@; let c = const_.v@; lemma_nonneg3(l1_ratio.v@, penalty.v@, x.nrows@ as real); assert(l1_reg.v@ >= 0real); lemma_feasible(c, l1_reg.v@, dual_norm_xta.v@, 0real); assert forall|j: int| 0 <= j < w.v@.len() implies c * rabs(#[trigger] xta_at(x.v@, r.v@, w.v@, l2_reg.v@, j)) <= l1_reg.v@ by { assert(xta.v@[j] == xta_at(x.v@, r.v@, w.v@, l2_reg.v@, j)); assert(rabs(xta.v@[j]) <= dual_norm_xta.v@); lemma_feasible(c, l1_reg.v@, dual_norm_xta.v@, rabs(xta.v@[j])); } }
//@ extract MTL from algorithms/linfa-elasticnet/src/algorithm.rs anchor "fn duality_gap_mtl<'a, F: Float>(" body
//@ rewrite MTL "F::cast(0.5)" => "FT::half()"
//@ rewrite MTL "F::cast(x.nrows())" => "FT::from_usize(x.nrows())"
//@ rewrite MTL "F::one()" => "FT::one()"
//@ rewrite? MTL "xta.map_axis(Axis(1), |x| x.dot(&x).sqrt())" => "xta.row_l2_norms()   /* xta.map_axis(Axis(1), |x| x.dot(&x).sqrt()) */"
//@ rewrite? MTL "r.iter().map(|&rij| rij * rij).sum()" => "r.sumsq()   /* r.iter().map(|&rij| rij * rij).sum() */"
//@ rewrite? MTL "w.iter().map(|&wij| wij * wij).sum()" => "w.sumsq()   /* w.iter().map(|&wij| wij * wij).sum() */"
//@ rewrite? MTL "w.map_axis(Axis(1), |wj| (wj.dot(&wj)).sqrt())" => "w.row_l2_norms()   /* w.map_axis(Axis(1), |wj| (wj.dot(&wj)).sqrt()) */"
//@ rewrite? MTL "&w * l2_reg" => "w.scale(l2_reg)   /* &w * l2_reg */"
//@ rewrite? MTL "dual_norm_xta > l1_reg" => "dual_norm_xta.gt(l1_reg)"
//@ rewrite? MTL "dual_norm_xta >= l1_reg" => "dual_norm_xta.ge(l1_reg)"
//@ rewrite? MTL "l1_reg < dual_norm_xta" => "dual_norm_xta.gt(l1_reg)"
//@ rewrite? MTL "gap += " => "gap = gap + ("
//@ rewrite? MTL "* w_norm2;" => "* w_norm2);"
//@ insert MTL at-end : proof { cg = const_.v@; let c = const_.v@; lemma_nonneg3(l1_ratio.v@, penalty.v@, x.nrows@ as real); assert(l1_reg.v@ >= 0real); lemma_feasible(c, l1_reg.v@, dual_norm_xta.v@, 0real); assert forall|j: int| 0 <= j < w.v@.len() implies c * l2n(#[trigger] mxta_row(x.v@, r.v@, w.v@, l2_reg.v@, j)) <= l1_reg.v@ by { assert(xta.v@[j] =~= mxta_row(x.v@, r.v@, w.v@, l2_reg.v@, j)); let t = l2n(xta.v@[j]); assert(0real <= t && rabs(t) <= dual_norm_xta.v@); lemma_feasible(c, l1_reg.v@, dual_norm_xta.v@, t); } }
//@ expect-fail vacuity_guard_gap
use vstd::prelude::*;
use vstd::std_specs::ops::*;
verus! {
// ---- floats as mathematical numbers (DESIGN.md 4.3): F is a token carrying a `real`; + - * / are exact ----
#[derive(Clone, Copy)]
pub struct FT { pub v: Ghost<real> }
macro_rules! binop { ($tr:ident, $m:ident, $sp:ident, $req:ident, $spec:ident, $obeys:ident, $op:tt) => { verus!{
impl core::ops::$tr for FT { type Output = FT; #[verifier::external_body] fn $m(self, o: FT) -> (r: FT) { unimplemented!() } }
impl $sp<FT> for FT {
    open spec fn $obeys() -> bool { true }
    open spec fn $req(self, o: FT) -> bool { true }
    open spec fn $spec(self, o: FT) -> FT { FT { v: Ghost(self.v@ $op o.v@) } }
}
}}}
binop!(Mul, mul, MulSpecImpl, mul_req, mul_spec, obeys_mul_spec, *);
binop!(Add, add, AddSpecImpl, add_req, add_spec, obeys_add_spec, +);
binop!(Sub, sub, SubSpecImpl, sub_req, sub_spec, obeys_sub_spec, -);
binop!(Div, div, DivSpecImpl, div_req, div_spec, obeys_div_spec, /);
impl FT {
    #[verifier::external_body] pub fn gt(self, o: FT) -> (r: bool) ensures r == (self.v@ > o.v@) { unimplemented!() }
    #[verifier::external_body] pub fn ge(self, o: FT) -> (r: bool) ensures r == (self.v@ >= o.v@) { unimplemented!() }
    #[verifier::external_body] pub fn one() -> (r: FT) ensures r.v@ == 1real { unimplemented!() }
    #[verifier::external_body] pub fn half() -> (r: FT) ensures r.v@ * 2real == 1real { unimplemented!() }               // F::cast(0.5)
    #[verifier::external_body] pub fn from_usize(n: usize) -> (r: FT) ensures r.v@ == n as real { unimplemented!() }      // F::cast(n), exact for n < 2^53
}
pub proof fn lemma_nonneg3(a: real, b: real, c: real) by(nonlinear_arith) requires a >= 0real, b >= 0real, c >= 0real ensures a * b * c >= 0real {}
// the scaling factor c = min(1, l1 / d) is in [0, 1] and brings anything bounded by d within l1
pub proof fn lemma_feasible(c: real, l1: real, d: real, t: real) by(nonlinear_arith)
    requires l1 >= 0real, 0real <= t <= d, d > l1 ==> c == l1 / d, !(d > l1) ==> c == 1real,
    ensures 0real <= c <= 1real, c * t <= l1,
{}
pub open spec fn rabs(a: real) -> real { if a >= 0real { a } else { -a } }
// ---- ndarray vectors and matrices: element values as spec sequences; products of arrays are uninterpreted linear algebra ----
pub uninterp spec fn vdot(a: Seq<real>, b: Seq<real>) -> real;                 // <a, b>
pub uninterp spec fn l1n(a: Seq<real>) -> real;                                // sum |a_j|
pub uninterp spec fn xt_r(x: Seq<Seq<real>>, r: Seq<real>) -> Seq<real>;       // X^T r  (one entry per feature)
pub open spec fn xta_at(x: Seq<Seq<real>>, r: Seq<real>, w: Seq<real>, l2: real, j: int) -> real { xt_r(x, r)[j] - w[j] * l2 }
#[derive(Clone, Copy)]
pub struct VecTok { pub v: Ghost<Seq<real>> }
#[derive(Clone, Copy)]
pub struct MatTok { pub v: Ghost<Seq<Seq<real>>>, pub nrows: Ghost<int> }
pub struct MatT<'a> { pub of: &'a MatTok }                                     // x.t()
impl MatTok {
    #[verifier::external_body] pub fn nrows(&self) -> (r: usize) ensures r == self.nrows@ { unimplemented!() }
    pub fn t(&self) -> (r: MatT<'_>) ensures *r.of == *self { MatT { of: self } }
}
impl<'a> MatT<'a> {
    #[verifier::external_body] pub fn dot(&self, r: &VecTok) -> (o: VecTok) ensures o.v@ == xt_r(self.of.v@, r.v@) { unimplemented!() }
}
impl VecTok {
    #[verifier::external_body] pub fn dot(&self, o: &VecTok) -> (r: FT) ensures r.v@ == vdot(self.v@, o.v@) { unimplemented!() }
    // ndarray-linalg / linfa-linalg Norm::norm_max: the largest absolute entry (0 for an empty vector)
    #[verifier::external_body] pub fn norm_max(&self) -> (r: FT) ensures r.v@ >= 0real, forall|j: int| 0 <= j < self.v@.len() ==> rabs(#[trigger] self.v@[j]) <= r.v@, self.v@.len() > 0 ==> exists|j: int| 0 <= j < self.v@.len() && rabs(#[trigger] self.v@[j]) == r.v@ { unimplemented!() }
    #[verifier::external_body] pub fn norm_l1(&self) -> (r: FT) ensures r.v@ == l1n(self.v@) { unimplemented!() }
    // Norm::norm_l2 / norm: at least the largest absolute entry (all this unit needs to know about it)
    #[verifier::external_body] pub fn norm_l2(&self) -> (r: FT) ensures r.v@ >= 0real, forall|j: int| 0 <= j < self.v@.len() ==> rabs(#[trigger] self.v@[j]) <= r.v@ { unimplemented!() }
    #[verifier::external_body] pub fn sum(&self) -> (r: FT) ensures r.v@ == vsum(self.v@) { unimplemented!() }
}
pub uninterp spec fn vsum(a: Seq<real>) -> real;
// &w * l2_reg  and  a - b  on vectors, element-wise
impl VecTok { #[verifier::external_body] pub fn scale(&self, o: FT) -> (r: VecTok) ensures r.v@ == Seq::new(self.v@.len(), |j: int| self.v@[j] * o.v@) { unimplemented!() } }
impl core::ops::Sub<VecTok> for VecTok { type Output = VecTok; #[verifier::external_body] fn sub(self, o: VecTok) -> (r: VecTok) { unimplemented!() } }
impl SubSpecImpl<VecTok> for VecTok {
    open spec fn obeys_sub_spec() -> bool { true }
    open spec fn sub_req(self, o: VecTok) -> bool { self.v@.len() == o.v@.len() }           // ndarray panics on a shape mismatch
    open spec fn sub_spec(self, o: VecTok) -> VecTok { VecTok { v: Ghost(Seq::new(self.v@.len(), |j: int| self.v@[j] - o.v@[j])) } }
}
// ---- C11, the documented elastic-net objective (times n_samples):  P(w) = 1/2 |y - Xw|^2 + l1_reg |w|_1 + 1/2 l2_reg |w|^2 ; its Fenchel
// dual at the point c * r:  D(c) = c <r, y> - 1/2 c^2 |r|^2 - 1/2 l2_reg c^2 |w|^2, valid (a lower bound of min P) when c * r is dual feasible:
// |X^T (c r) - c l2_reg w|_inf <= l1_reg.  The stopping rule `gap < tol` certifies optimality only if gap = P - D at such a point. ----
pub open spec fn primal(r2: real, w2: real, pen: real, l1: real, l2: real) -> real { r2 / 2real + l1 * pen + l2 * w2 / 2real }
pub open spec fn dual(c: real, r2: real, w2: real, rty: real, l2: real) -> real { c * rty - c * c * r2 / 2real - l2 * c * c * w2 / 2real }

// `res.1` is the ghost value of the code's local `const_` (the factor that scales the residual into the dual point)
pub fn duality_gap(x: MatTok, y: VecTok, w: VecTok, r: VecTok, l1_ratio: FT, penalty: FT) -> (res: (FT, Ghost<real>))
    requires 0real <= l1_ratio.v@ <= 1real, penalty.v@ >= 0real, x.nrows@ >= 0, xt_r(x.v@, r.v@).len() == w.v@.len(),
    ensures ({
        let n = x.nrows@ as real; let l1 = l1_ratio.v@ * penalty.v@ * n; let l2 = (1real - l1_ratio.v@) * penalty.v@ * n;
        0real <= res.1@ <= 1real && (forall|j: int| 0 <= j < w.v@.len() ==> res.1@ * rabs(#[trigger] xta_at(x.v@, r.v@, w.v@, l2, j)) <= l1)       // const_ * r is dual feasible
    }),
{
    let ghost mut cg: real = 0real;
    let g = {
/*@GAP*/
    };
    (g, Ghost(cg))
}
// ---- multi-task: matrices as sequences of rows; the penalty is the l2,1 norm (sum of row l2 norms), its dual norm the l2,inf norm ----
pub uninterp spec fn l2n(row: Seq<real>) -> real;                                            // sqrt(<row, row>)
pub uninterp spec fn mt_m(a: Seq<Seq<real>>, b: Seq<Seq<real>>) -> Seq<Seq<real>>;          // A^T B
pub uninterp spec fn msumsq(a: Seq<Seq<real>>) -> real;                                      // sum of squared entries
pub uninterp spec fn mdiag(a: Seq<Seq<real>>) -> Seq<real>;
pub open spec fn row_sub(a: Seq<real>, b: Seq<real>, l2: real) -> Seq<real> { Seq::new(a.len(), |k: int| a[k] - b[k] * l2) }
pub open spec fn mxta_row(x: Seq<Seq<real>>, r: Seq<Seq<real>>, w: Seq<Seq<real>>, l2: real, j: int) -> Seq<real> { row_sub(mt_m(x, r)[j], w[j], l2) }
#[derive(Clone, Copy)]
pub struct Mat2 { pub v: Ghost<Seq<Seq<real>>>, pub nrows: Ghost<int> }
pub struct Mat2T<'a> { pub of: &'a Mat2 }
impl Mat2 {
    #[verifier::external_body] pub fn nrows(&self) -> (r: usize) ensures r == self.nrows@ { unimplemented!() }
    pub fn t(&self) -> (r: Mat2T<'_>) ensures *r.of == *self { Mat2T { of: self } }
    // map_axis(Axis(1), |row| sqrt(row . row)): the l2 norm of every row
    pub open spec fn row_l2_norms_spec(&self) -> Seq<real> { Seq::new(self.v@.len(), |j: int| l2n(self.v@[j])) }
    #[verifier::external_body] pub fn row_l2_norms(&self) -> (r: VecTok) ensures r.v@ == self.row_l2_norms_spec(), forall|j: int| #![trigger l2n(self.v@[j])] #![trigger r.v@[j]] 0 <= j < self.v@.len() ==> r.v@[j] == l2n(self.v@[j]) && r.v@[j] >= 0real { unimplemented!() }
    #[verifier::external_body] pub fn sumsq(&self) -> (r: FT) ensures r.v@ == msumsq(self.v@) { unimplemented!() }
    // Norm::norm_max on a matrix: the largest absolute ENTRY - not a bound on the row norms
    #[verifier::external_body] pub fn norm_max(&self) -> (r: FT) ensures r.v@ >= 0real, forall|i: int, k: int| 0 <= i < self.v@.len() && 0 <= k < self.v@[i].len() ==> rabs(#[trigger] self.v@[i][k]) <= r.v@ { unimplemented!() }
    #[verifier::external_body] pub fn diag(&self) -> (r: VecTok) ensures r.v@ == mdiag(self.v@) { unimplemented!() }
}
impl<'a> Mat2T<'a> {
    #[verifier::external_body] pub fn dot(&self, o: &Mat2) -> (r: Mat2) ensures r.v@ == mt_m(self.of.v@, o.v@) { unimplemented!() }
}
impl Mat2 { #[verifier::external_body] pub fn scale(&self, o: FT) -> (r: Mat2) ensures r.v@ == Seq::new(self.v@.len(), |i: int| Seq::new(self.v@[i].len(), |k: int| self.v@[i][k] * o.v@)) { unimplemented!() } }
impl core::ops::Sub<Mat2> for Mat2 { type Output = Mat2; #[verifier::external_body] fn sub(self, o: Mat2) -> (r: Mat2) { unimplemented!() } }
impl SubSpecImpl<Mat2> for Mat2 {
    open spec fn obeys_sub_spec() -> bool { true }
    open spec fn sub_req(self, o: Mat2) -> bool { self.v@.len() == o.v@.len() }
    open spec fn sub_spec(self, o: Mat2) -> Mat2 { Mat2 { v: Ghost(Seq::new(self.v@.len(), |i: int| Seq::new(self.v@[i].len(), |k: int| self.v@[i][k] - o.v@[i][k]))), nrows: self.nrows } }
}
pub fn duality_gap_mtl(x: Mat2, y: Mat2, w: Mat2, r: Mat2, l1_ratio: FT, penalty: FT) -> (res: (FT, Ghost<real>))
    requires 0real <= l1_ratio.v@ <= 1real, penalty.v@ >= 0real, x.nrows@ >= 0, mt_m(x.v@, r.v@).len() == w.v@.len(),
        forall|j: int| 0 <= j < w.v@.len() ==> (#[trigger] mt_m(x.v@, r.v@)[j]).len() == w.v@[j].len(),
    ensures ({
        let n = x.nrows@ as real; let l1 = l1_ratio.v@ * penalty.v@ * n; let l2 = (1real - l1_ratio.v@) * penalty.v@ * n;
        0real <= res.1@ <= 1real && (forall|j: int| 0 <= j < w.v@.len() ==> res.1@ * l2n(#[trigger] mxta_row(x.v@, r.v@, w.v@, l2, j)) <= l1)           // every ROW norm of const_ * (X^T R - l2 W) is within l1_reg
    }),
{
    let ghost mut cg: real = 0real;
    let g = {
/*@MTL*/
    };
    (g, Ghost(cg))
}
pub fn vacuity_guard_gap(x: MatTok, y: VecTok, w: VecTok, r: VecTok, l1_ratio: FT, penalty: FT) -> (g: FT)
    requires 0real <= l1_ratio.v@ <= 1real, penalty.v@ >= 0real, x.nrows@ >= 0, xt_r(x.v@, r.v@).len() == w.v@.len(),
    ensures false,
{
    penalty
}
} // verus!
fn main() {}
