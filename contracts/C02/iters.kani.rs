//! property: C02
//! attach: src/dataset/iter.rs
//! module: vk_c02_iters
// @include common/prelude.rs
// @include C02/helpers.rs
use super::*;
use crate::dataset::Dataset;
use ndarray::{Array1, Array2};

// ---------------------------------------------------------------------------------------------
// Contracts of the three iterators of src/dataset/iter.rs, from the property statement:
//   Iter (sample_iter)         : exactly n items; item i = (record row i, target(s) of row i)
//   DatasetIter (target_iter)  : exactly ntargets items; item j = all records, target column j, all weights;
//                                names, *when carried*, are the original feature names and target name j
//   DatasetIter (feature_iter) : exactly nfeatures items; item j = record column j, all targets, all weights;
//                                names, *when carried*, are feature name j and the original target names
//   ChunksIter (sample_chunks) : floor(n/s) items; item c = rows [c*s, (c+1)*s) of records and of targets
// Values are symbolic (any u8), shapes concrete.
// ---------------------------------------------------------------------------------------------

fn c02_names_ok(got: &[String], want: &[&str]) -> bool {
    if got.len() != want.len() { return false; }
    for k in 0..want.len() { if got[k] != want[k] { return false; } }
    true
}

// @unit class=bounded tier=quick mem=light bound="n=3,p=2,single target,owned and view,values symbolic u8" timeout=600 fns=linfa::dataset::iter::Iter::next,linfa::dataset::DatasetBase::sample_iter
#[kani::proof]
#[kani::unwind(5)]
#[kani::stub(alloc::fmt::format, fmt_stub)]
fn c02_sample_iter_st_n3() {
    let v: [u8; 6] = kani::any();
    let t: [u8; 3] = kani::any();
    let ds = Dataset::new(Array2::from_shape_vec((3, 2), v.to_vec()).unwrap(), Array1::from(t.to_vec()));
    let mut k = 0usize;
    for (x, y) in ds.sample_iter() {
        assert!(k < 3);
        assert!(x.len() == 2 && x[0] == v[2 * k] && x[1] == v[2 * k + 1]);
        assert!(*y.into_scalar() == t[k]);
        k += 1;
    }
    assert!(k == 3);
    // same through a view of the dataset
    let w = ds.view();
    let mut it = w.sample_iter();
    for i in 0..3 {
        let (x, y) = it.next().unwrap();
        assert!(x.len() == 2 && x[0] == v[2 * i] && x[1] == v[2 * i + 1] && *y.into_scalar() == t[i]);
    }
    assert!(it.next().is_none());
    kani::cover!(v[0] != v[2] && t[0] != t[1]);
}

// @unit class=bounded tier=quick mem=light bound="n=3,p=1,2 target columns,values symbolic u8" timeout=600 fns=linfa::dataset::iter::Iter::next,linfa::dataset::DatasetBase::sample_iter
#[kani::proof]
#[kani::unwind(5)]
#[kani::stub(alloc::fmt::format, fmt_stub)]
fn c02_sample_iter_mt_n3() {
    let v: [u8; 3] = kani::any();
    let t: [u8; 6] = kani::any();
    let ds = Dataset::new(Array2::from_shape_vec((3, 1), v.to_vec()).unwrap(), Array2::from_shape_vec((3, 2), t.to_vec()).unwrap());
    let mut it = ds.sample_iter();
    for i in 0..3 {
        let (x, y) = it.next().unwrap();
        assert!(x.len() == 1 && x[0] == v[i]);
        assert!(y.len() == 2 && y[0] == t[2 * i] && y[1] == t[2 * i + 1]);
    }
    assert!(it.next().is_none());
    assert!(it.next().is_none());
    kani::cover!(t[0] != t[2] && t[1] != t[3]);
}

// @unit class=bounded tier=quick mem=light bound="n=2,p=2,2 target columns,weights+names,values symbolic u8" timeout=600 fns=linfa::dataset::iter::DatasetIter::next,linfa::dataset::DatasetBase::target_iter
#[kani::proof]
#[kani::unwind(5)]
#[kani::stub(alloc::fmt::format, fmt_stub)]
fn c02_target_iter_n2_m2() {
    let v: [u8; 4] = kani::any();
    let t: [u8; 4] = kani::any();
    let ds = Dataset::new(Array2::from_shape_vec((2, 2), v.to_vec()).unwrap(), Array2::from_shape_vec((2, 2), t.to_vec()).unwrap())
        .with_weights(c02_weights(2))
        .with_feature_names(C02_FNAMES[..2].to_vec())
        .with_target_names(C02_TNAMES[..2].to_vec());
    let mut it = ds.target_iter();
    for j in 0..2 {
        let d = it.next().unwrap();
        assert!(d.records.dim() == (2, 2));
        for i in 0..2 { assert!(d.records[(i, 0)] == v[2 * i] && d.records[(i, 1)] == v[2 * i + 1]); }
        assert!(d.targets.dim() == (2, 1) && d.targets[(0, 0)] == t[j] && d.targets[(1, 0)] == t[2 + j]);
        assert!(d.weights.len() == 2 && d.weights[0] == 0.5 && d.weights[1] == 1.5);
        // names: only constrained when carried
        assert!(d.target_names().is_empty() || c02_names_ok(d.target_names(), &C02_TNAMES[j..j + 1]));
        assert!(d.feature_names().is_empty() || c02_names_ok(d.feature_names(), &C02_FNAMES[..2]));
        if j == 1 { kani::cover!(!d.target_names().is_empty()); }
    }
    assert!(it.next().is_none());
    kani::cover!(t[0] != t[1] && t[2] != t[3]);
}

// no names, no weights: nothing appears from nowhere
// @unit class=bounded tier=thorough mem=light bound="n=3,p=1,2 target columns,no weights,no names,values symbolic u8" timeout=600 fns=linfa::dataset::iter::DatasetIter::next,linfa::dataset::DatasetBase::target_iter
#[kani::proof]
#[kani::unwind(5)]
#[kani::stub(alloc::fmt::format, fmt_stub)]
fn c02_target_iter_plain_n3() {
    let v: [u8; 3] = kani::any();
    let t: [u8; 6] = kani::any();
    let ds = Dataset::new(Array2::from_shape_vec((3, 1), v.to_vec()).unwrap(), Array2::from_shape_vec((3, 2), t.to_vec()).unwrap());
    let mut n_items = 0usize;
    for d in ds.target_iter() {
        let j = n_items;
        assert!(j < 2);
        assert!(d.records.dim() == (3, 1) && d.targets.dim() == (3, 1));
        for i in 0..3 { assert!(d.records[(i, 0)] == v[i] && d.targets[(i, 0)] == t[2 * i + j]); }
        assert!(d.weights.len() == 0 && d.target_names().is_empty() && d.feature_names().is_empty());
        n_items += 1;
    }
    assert!(n_items == 2);
    kani::cover!(t[0] != t[1]);
}

// @unit class=bounded tier=quick mem=light bound="n=2,p=2,single target,weights+names,values symbolic u8" timeout=600 fns=linfa::dataset::iter::DatasetIter::next,linfa::dataset::DatasetBase::feature_iter
#[kani::proof]
#[kani::unwind(5)]
#[kani::stub(alloc::fmt::format, fmt_stub)]
fn c02_feature_iter_n2_p2() {
    let v: [u8; 4] = kani::any();
    let t: [u8; 2] = kani::any();
    let ds = Dataset::new(Array2::from_shape_vec((2, 2), v.to_vec()).unwrap(), Array1::from(t.to_vec()))
        .with_weights(c02_weights(2))
        .with_feature_names(C02_FNAMES[..2].to_vec())
        .with_target_names(C02_TNAMES[..1].to_vec());
    let mut it = ds.feature_iter();
    for j in 0..2 {
        let d = it.next().unwrap();
        assert!(d.records.dim() == (2, 1) && d.records[(0, 0)] == v[j] && d.records[(1, 0)] == v[2 + j]);
        assert!(d.targets.len() == 2 && d.targets[0] == t[0] && d.targets[1] == t[1]);
        assert!(d.weights.len() == 2 && d.weights[0] == 0.5 && d.weights[1] == 1.5);
        // names: only constrained when carried (the statement does not forbid dropping them)
        assert!(d.feature_names().is_empty() || c02_names_ok(d.feature_names(), &C02_FNAMES[j..j + 1]));
        assert!(d.target_names().is_empty() || c02_names_ok(d.target_names(), &C02_TNAMES[..1]));
    }
    assert!(it.next().is_none());
    kani::cover!(v[0] != v[1] && v[2] != v[3]);
}

// single feature column: here the iterator does carry the feature name, so the name clause is not vacuous
// @unit class=bounded tier=quick mem=light bound="n=3,p=1,2 target columns,names,values symbolic u8" timeout=600 fns=linfa::dataset::iter::DatasetIter::next,linfa::dataset::DatasetBase::feature_iter
#[kani::proof]
#[kani::unwind(5)]
#[kani::stub(alloc::fmt::format, fmt_stub)]
fn c02_feature_iter_n3_p1() {
    let v: [u8; 3] = kani::any();
    let t: [u8; 6] = kani::any();
    let ds = Dataset::new(Array2::from_shape_vec((3, 1), v.to_vec()).unwrap(), Array2::from_shape_vec((3, 2), t.to_vec()).unwrap())
        .with_feature_names(C02_FNAMES[..1].to_vec())
        .with_target_names(C02_TNAMES[..2].to_vec());
    let mut it = ds.feature_iter();
    let d = it.next().unwrap();
    assert!(d.records.dim() == (3, 1) && d.targets.dim() == (3, 2));
    for i in 0..3 { assert!(d.records[(i, 0)] == v[i] && d.targets[(i, 0)] == t[2 * i] && d.targets[(i, 1)] == t[2 * i + 1]); }
    assert!(d.weights.len() == 0);
    assert!(d.feature_names().is_empty() || c02_names_ok(d.feature_names(), &C02_FNAMES[..1]));
    assert!(d.target_names().is_empty() || c02_names_ok(d.target_names(), &C02_TNAMES[..2]));
    kani::cover!(!d.feature_names().is_empty());
    kani::cover!(!d.target_names().is_empty());
    assert!(it.next().is_none());
}

// @unit class=bounded tier=quick mem=light bound="n=5,s=2,p=2,single target,values symbolic u8" timeout=600 fns=linfa::dataset::iter::ChunksIter::next,linfa::dataset::DatasetBase::sample_chunks
#[kani::proof]
#[kani::unwind(7)]
#[kani::stub(alloc::fmt::format, fmt_stub)]
fn c02_chunks_n5_s2() {
    let v: [u8; 10] = kani::any();
    let t: [u8; 5] = kani::any();
    let ds = Dataset::new(Array2::from_shape_vec((5, 2), v.to_vec()).unwrap(), Array1::from(t.to_vec()));
    let mut c = 0usize;
    for ch in ds.sample_chunks(2) {
        assert!(c < 2);
        assert!(ch.records.dim() == (2, 2) && ch.targets.len() == 2);
        for r in 0..2 {
            let i = 2 * c + r;
            assert!(ch.records[(r, 0)] == v[2 * i] && ch.records[(r, 1)] == v[2 * i + 1] && ch.targets[r] == t[i]);
        }
        c += 1;
    }
    assert!(c == 2);      // floor(5/2); the remainder row 4 is in no chunk
    kani::cover!(t[0] != t[2] && v[0] != v[4]);
}

// @unit class=bounded tier=thorough mem=light bound="n=4,s in {1,2,3,5},p=1,2 target columns,values symbolic u8" timeout=900 fns=linfa::dataset::iter::ChunksIter::next,linfa::dataset::DatasetBase::sample_chunks
#[kani::proof]
#[kani::unwind(7)]
#[kani::stub(alloc::fmt::format, fmt_stub)]
fn c02_chunks_n4_mt() {
    let v: [u8; 4] = kani::any();
    let t: [u8; 8] = kani::any();
    let ds = Dataset::new(Array2::from_shape_vec((4, 1), v.to_vec()).unwrap(), Array2::from_shape_vec((4, 2), t.to_vec()).unwrap());
    let sizes: [usize; 4] = [1, 2, 3, 5];
    for k in 0..4 {
        let s = sizes[k];
        let mut c = 0usize;
        for ch in ds.sample_chunks(s) {
            assert!(ch.records.dim() == (s, 1) && ch.targets.dim() == (s, 2));
            for r in 0..s {
                let i = s * c + r;
                assert!(i < 4);
                assert!(ch.records[(r, 0)] == v[i] && ch.targets[(r, 0)] == t[2 * i] && ch.targets[(r, 1)] == t[2 * i + 1]);
            }
            c += 1;
        }
        assert!(c == 4 / s);
    }
    kani::cover!(t[0] != t[2]);
}
