//! property: C02
//! unit: V-C02-one-vs-all
//! tier: quick
//! fns: linfa::DatasetBase::one_vs_all (what one (label, binary view) item is made of)
//@ extract ITEM from src/dataset/impl_dataset.rs anchor "let targets = targets.iter().map(|x| x == &label).collect::<Array1<_>>();" until "            })"
//@ rewrite ITEM "targets.iter().map(|x| x == &label).collect::<Array1<_>>()" => "targets.eq_label_abs(&label)   /* targets.iter().map(|x| x == &label).collect::<Array1<_>>() */"
//@ rewrite ITEM "CountedTargets::new(targets)" => "CountedV::new(targets)"
//@ rewrite ITEM "DatasetBase::new(" => "DatasetV::new("
//@ expect-fail vacuity_guard_ova
use vstd::prelude::*;
verus! {
#[derive(Clone, Copy)]
pub struct LabelTok { pub l: Ghost<int> }
pub struct ArrTok { pub id: Ghost<int> }
pub struct WTok { pub id: Ghost<int> }
pub struct NamesTok { pub id: Ghost<int> }
impl ArrTok { #[verifier::external_body] pub fn view(&self) -> (r: ArrTok) ensures r.id@ == self.id@ { unimplemented!() } }
impl WTok { #[verifier::external_body] pub fn clone(&self) -> (r: WTok) ensures r.id@ == self.id@ { unimplemented!() } }
impl NamesTok { #[verifier::external_body] pub fn clone(&self) -> (r: NamesTok) ensures r.id@ == self.id@ { unimplemented!() } }
// the multi-class target column, and the boolean column "target == label" derived from it (row order untouched)
pub struct TargetsTok { pub id: Ghost<int> }
pub struct BoolTargets { pub of: Ghost<int>, pub equals: Ghost<int> }
impl TargetsTok {
    #[verifier::external_body] pub fn eq_label_abs(&self, label: &LabelTok) -> (r: BoolTargets) ensures r.of@ == self.id@, r.equals@ == label.l@ { unimplemented!() }
}
pub struct CountedV { pub t: BoolTargets }
impl CountedV { pub fn new(t: BoolTargets) -> (r: CountedV) ensures r.t == t { CountedV { t } } }      // CountedTargets::new: counts the labels of exactly this column
pub struct DatasetV { pub records: ArrTok, pub targets: CountedV, pub weights: WTok, pub feature_names: NamesTok, pub target_names: NamesTok }
impl DatasetV {
    #[verifier::external_body]
    pub fn new(records: ArrTok, targets: CountedV) -> (r: DatasetV)          // DatasetBase::new: no weights, no names (id 0)
        ensures r.records.id@ == records.id@, r.targets == targets, r.weights.id@ == 0, r.feature_names.id@ == 0, r.target_names.id@ == 0,
    { unimplemented!() }
    pub fn with_weights(self, w: WTok) -> (r: DatasetV)
        ensures r.records.id@ == self.records.id@, r.targets == self.targets, r.weights.id@ == w.id@, r.feature_names.id@ == self.feature_names.id@, r.target_names.id@ == self.target_names.id@,
    { DatasetV { records: self.records, targets: self.targets, weights: w, feature_names: self.feature_names, target_names: self.target_names } }
    pub fn with_feature_names(self, n: NamesTok) -> (r: DatasetV)
        ensures r.records.id@ == self.records.id@, r.targets == self.targets, r.weights.id@ == self.weights.id@, r.feature_names.id@ == n.id@, r.target_names.id@ == self.target_names.id@,
    { DatasetV { records: self.records, targets: self.targets, weights: self.weights, feature_names: n, target_names: self.target_names } }
    pub fn with_target_names(self, n: NamesTok) -> (r: DatasetV)
        ensures r.records.id@ == self.records.id@, r.targets == self.targets, r.weights.id@ == self.weights.id@, r.feature_names.id@ == self.feature_names.id@, r.target_names.id@ == n.id@,
    { DatasetV { records: self.records, targets: self.targets, weights: self.weights, feature_names: self.feature_names, target_names: n } }
}
pub struct SelfV { pub records: ArrTok, pub weights: WTok, pub feature_names: NamesTok, pub target_names: NamesTok }
impl SelfV {
    pub fn records(&self) -> (r: &ArrTok) ensures r.id@ == self.records.id@ { &self.records }

    // ---- the closure body of one_vs_all's `.map(|label| { .. })`, extracted from /repo on every run ----
    // C02 "one-vs-all yields one correctly labelled binary view per distinct label": the item for `label` is (label, view) where the view shows
    // the SAME records, its targets are "target == label" of the same target column (row by row), and weights and both name lists are carried over
    pub fn one_vs_all_item(&self, targets: &TargetsTok, label: LabelTok) -> (r: (LabelTok, DatasetV))
        ensures r.0.l@ == label.l@, r.1.records.id@ == self.records.id@, r.1.targets.t.of@ == targets.id@, r.1.targets.t.equals@ == label.l@,
            r.1.weights.id@ == self.weights.id@, r.1.feature_names.id@ == self.feature_names.id@, r.1.target_names.id@ == self.target_names.id@,
    {
/*@ITEM*/
    }
    pub fn vacuity_guard_ova(&self, targets: &TargetsTok, label: LabelTok) -> (r: (LabelTok, DatasetV))
        ensures false,
    {
        let t = targets.eq_label_abs(&label);
        (label, DatasetV::new(self.records.view(), CountedV::new(t)))
    }
}
} // verus!
fn main() {}
