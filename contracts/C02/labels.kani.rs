//! property: C02
//! attach: src/dataset/impl_targets.rs
//! module: vk_c02_labels
// @include common/prelude.rs
use super::*;
use crate::dataset::{Dataset, Records};

// one quick attempt (DESIGN: HashMap-based code is out of reach); removed if it does not finish in 10 min
// @unit class=bounded tier=thorough mem=heavy bound="n=2,p=1,bool labels" timeout=600 fns=linfa::dataset::DatasetBase::with_labels
#[kani::proof]
#[kani::unwind(4)]
#[kani::stub(alloc::fmt::format, fmt_stub)]
fn c02_with_labels_n2() {
    let l: [bool; 2] = kani::any();
    let ds = Dataset::new(Array2::from_shape_vec((2, 1), vec![10u8, 20]).unwrap(), Array1::from(l.to_vec()))
        .with_weights(Array1::from(vec![0.5f32, 1.5]));
    let out = ds.with_labels(&[true]);
    let want = (l[0] as usize) + (l[1] as usize);
    assert!(out.nsamples() == want);
    if l[0] { assert!(out.records[(0, 0)] == 10 && out.weights[0] == 0.5); }
    if !l[0] && l[1] { assert!(out.records[(0, 0)] == 20 && out.weights[0] == 1.5); }
    kani::cover!(want == 1);
}
