//! property: C02
//! unit: V-C02-shuffle
//! tier: quick
//! fns: linfa::dataset::DatasetBase::shuffle (index vector, the two `select` calls, what the result is assembled from)
//@ extract SHUFFLE from src/dataset/impl_dataset.rs anchor "pub fn shuffle<R: Rng>(&self, rng: &mut R)" body
//@ rewrite SHUFFLE "(0..self.nsamples()).collect::<Vec<_>>()" => "range_vec(self.nsamples())"
//@ rewrite SHUFFLE "indices.shuffle(rng);" => "shuffle_abs(&mut indices);   /* rand's SliceRandom::shuffle, abstracted: any permutation */"
//@ rewrite SHUFFLE "Axis(0)" => "Axis0"
//@ rewrite SHUFFLE "T::new_targets(targets)" => "new_targets(targets)"
//@ rewrite SHUFFLE "DatasetBase::new(" => "DatasetV::new("
//@ expect-fail vacuity_guard_shuffle
use vstd::prelude::*;
verus! {
// ---- tokens: an array is the sequence of identity tags of the rows it holds; names are an opaque token ----
pub struct ArrTok { pub rows: Ghost<Seq<int>> }
pub struct NamesTok { pub id: Ghost<int> }
pub struct Axis0;

pub open spec fn is_perm(a: Seq<usize>) -> bool {
    (forall|p: int| 0 <= p < a.len() ==> 0 <= #[trigger] a[p] < a.len())
    && (forall|p: int, q: int| 0 <= p < a.len() && 0 <= q < a.len() && p != q ==> a[p] != a[q])
}

// ASSUMED contracts of the library functions the code under verification calls
#[verifier::external_body]
fn range_vec(n: usize) -> (r: Vec<usize>) ensures r@.len() == n, forall|i: int| 0 <= i < n ==> r@[i] == i { unimplemented!() }   // (0..n).collect()
#[verifier::external_body]
fn shuffle_abs(v: &mut Vec<usize>)                                                                      // SliceRandom::shuffle
    ensures final(v)@.len() == old(v)@.len(), is_perm(old(v)@) ==> is_perm(final(v)@),
{ unimplemented!() }
fn new_targets(t: ArrTok) -> (r: ArrTok) ensures r.rows@ == t.rows@ { t }                                // FromTargetArray::new_targets: wraps the array

impl ArrTok {
    // ndarray `select(Axis(0), indices)`: row i of the result is row indices[i] of the source (panics on an index out of range)
    #[verifier::external_body]
    pub fn select(&self, _axis: Axis0, indices: &Vec<usize>) -> (r: ArrTok)
        requires forall|i: int| 0 <= i < indices@.len() ==> indices@[i] < self.rows@.len(),
        ensures r.rows@ =~= Seq::new(indices@.len(), |i: int| self.rows@[indices@[i] as int]),
    { unimplemented!() }
    #[verifier::external_body]
    pub fn clone(&self) -> (r: ArrTok) ensures r.rows@ == self.rows@ { unimplemented!() }
}
impl NamesTok {
    #[verifier::external_body]
    pub fn to_vec(&self) -> (r: NamesTok) ensures r.id@ == self.id@ { unimplemented!() }
    #[verifier::external_body]
    pub fn clone(&self) -> (r: NamesTok) ensures r.id@ == self.id@ { unimplemented!() }
}

pub struct DatasetV { pub records: ArrTok, pub targets: ArrTok, pub weights: ArrTok, pub feature_names: NamesTok, pub target_names: NamesTok }

pub open spec fn identity(n: int) -> Seq<int> { Seq::new(n as nat, |i: int| i) }

impl DatasetV {
    pub open spec fn n(&self) -> int { self.records.rows@.len() as int }
    // the source dataset: row i of records, targets (and weights, when present) carries tag i
    pub open spec fn tagged(&self) -> bool {
        self.records.rows@ =~= identity(self.n()) && self.targets.rows@ =~= identity(self.n())
        && (self.weights.rows@.len() == 0 || self.weights.rows@ =~= identity(self.n())) && self.n() <= usize::MAX
    }
    #[verifier::external_body]
    pub fn nsamples(&self) -> (r: usize) ensures r == self.n() { unimplemented!() }
    pub fn records(&self) -> (r: &ArrTok) ensures r.rows@ == self.records.rows@ { &self.records }
    #[verifier::external_body]
    pub fn as_targets(&self) -> (r: ArrTok) ensures r.rows@ == self.targets.rows@ { unimplemented!() }
    pub fn feature_names(&self) -> (r: &NamesTok) ensures r.id@ == self.feature_names.id@ { &self.feature_names }
    pub fn target_names(&self) -> (r: &NamesTok) ensures r.id@ == self.target_names.id@ { &self.target_names }
    // DatasetBase::new: no weights, no names
    #[verifier::external_body]
    pub fn new(records: ArrTok, targets: ArrTok) -> (r: DatasetV)
        ensures r.records.rows@ == records.rows@, r.targets.rows@ == targets.rows@, r.weights.rows@.len() == 0,
    { unimplemented!() }
    pub fn with_weights(self, w: ArrTok) -> (r: DatasetV)
        ensures r.records.rows@ == self.records.rows@, r.targets.rows@ == self.targets.rows@, r.weights.rows@ == w.rows@,
            r.feature_names.id@ == self.feature_names.id@, r.target_names.id@ == self.target_names.id@,
    { DatasetV { records: self.records, targets: self.targets, weights: w, feature_names: self.feature_names, target_names: self.target_names } }
    pub fn with_feature_names(self, names: NamesTok) -> (r: DatasetV)
        ensures r.records.rows@ == self.records.rows@, r.targets.rows@ == self.targets.rows@, r.weights.rows@ == self.weights.rows@,
            r.feature_names.id@ == names.id@, r.target_names.id@ == self.target_names.id@,
    { DatasetV { records: self.records, targets: self.targets, weights: self.weights, feature_names: names, target_names: self.target_names } }
    pub fn with_target_names(self, names: NamesTok) -> (r: DatasetV)
        ensures r.records.rows@ == self.records.rows@, r.targets.rows@ == self.targets.rows@, r.weights.rows@ == self.weights.rows@,
            r.feature_names.id@ == self.feature_names.id@, r.target_names.id@ == names.id@,
    { DatasetV { records: self.records, targets: self.targets, weights: self.weights, feature_names: self.feature_names, target_names: names } }

    // ---- DatasetBase::shuffle, body extracted from /repo on every run ----
    // contract (C02): "shuffle returns a permutation of all samples"; record, target and - whenever the result carries
    // weights or names - weight and column names belong to the same original sample / column
    pub fn shuffle(&self) -> (r: DatasetV)
        requires self.tagged(),
        ensures
            r.records.rows@.len() == self.n(),
            forall|i: int| 0 <= i < self.n() ==> 0 <= #[trigger] r.records.rows@[i] < self.n(),
            forall|i: int, j: int| 0 <= i < self.n() && 0 <= j < self.n() && i != j ==> r.records.rows@[i] != r.records.rows@[j],
            r.targets.rows@ =~= r.records.rows@,
            r.weights.rows@.len() == 0 || r.weights.rows@ =~= r.records.rows@,
            r.feature_names.id@ == self.feature_names.id@, r.target_names.id@ == self.target_names.id@,
    {
/*@SHUFFLE*/
    }

    pub fn vacuity_guard_shuffle(&self) -> (r: DatasetV)
        requires self.tagged(),
        ensures false,
    {
        DatasetV::new(self.records.clone(), self.targets.clone())
    }
}
} // verus!
fn main() {}
