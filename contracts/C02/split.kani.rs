//! property: C02
//! attach: src/dataset/impl_dataset.rs
//! module: vk_c02_split
// @include common/prelude.rs
// @include C02/helpers.rs
use super::*;
use ndarray::{ArrayBase, Data, Ix1, Ix2};

// ---------------------------------------------------------------------------------------------
// Contract of `split_with_ratio` (owned: `Dataset::split_with_ratio(self, f32)`, view:
// `DatasetBase<ArrayView2, T>::split_with_ratio(&self, f32)`), from the property statement:
//   * the first part holds the first ceil(ratio*n) samples (product in single precision), the second
//     part the rest, both in the original order;
//   * record, target(s) and - when the dataset is weighted (weights.len() == n) - weight of every
//     result row belong to the same original sample; an unweighted dataset stays unweighted;
//   * feature / target names, being per-column, are the original ones on both parts.
// Premise: ratio finite in [0,1].
// ---------------------------------------------------------------------------------------------

/// single-target postcondition; works for owned and view results alike
fn c02_post_split1<S: Data<Elem = u8>, U: Data<Elem = u8>>(
    d1: &DatasetBase<ArrayBase<S, Ix2>, ArrayBase<U, Ix1>>,
    d2: &DatasetBase<ArrayBase<S, Ix2>, ArrayBase<U, Ix1>>,
    n: usize, p: usize, n1: usize, weighted: bool, named: bool,
) {
    assert!(n1 <= n);
    assert!(d1.records.dim() == (n1, p) && d2.records.dim() == (n - n1, p));
    assert!(d1.targets.len() == n1 && d2.targets.len() == n - n1);
    if weighted {
        assert!(d1.weights.len() == n1 && d2.weights.len() == n - n1);
    } else {
        assert!(d1.weights.len() == 0 && d2.weights.len() == 0);
    }
    for i in 0..n {
        let (d, j) = if i < n1 { (d1, i) } else { (d2, i - n1) };
        for q in 0..p { assert!(d.records[(j, q)] == (10 * i + q) as u8); }
        assert!(d.targets[j] == (100 + i) as u8);
        if weighted { assert!(d.weights[j] == 0.5 + i as f32); }
    }
    for d in [d1, d2] {
        if named {
            assert!(d.feature_names().len() == p && d.target_names().len() == 1);
            for q in 0..p { assert!(d.feature_names()[q] == C02_FNAMES[q]); }
            assert!(d.target_names()[0] == C02_TNAMES[0]);
        } else {
            assert!(d.feature_names().is_empty() && d.target_names().is_empty());
        }
    }
}

/// multi-target (m columns) postcondition
fn c02_post_split2<S: Data<Elem = u8>, U: Data<Elem = u8>>(
    d1: &DatasetBase<ArrayBase<S, Ix2>, ArrayBase<U, Ix2>>,
    d2: &DatasetBase<ArrayBase<S, Ix2>, ArrayBase<U, Ix2>>,
    n: usize, p: usize, m: usize, n1: usize, weighted: bool,
) {
    assert!(n1 <= n);
    assert!(d1.records.dim() == (n1, p) && d2.records.dim() == (n - n1, p));
    assert!(d1.targets.dim() == (n1, m) && d2.targets.dim() == (n - n1, m));
    if weighted { assert!(d1.weights.len() == n1 && d2.weights.len() == n - n1); } else { assert!(d1.weights.len() == 0 && d2.weights.len() == 0); }
    for i in 0..n {
        let (d, j) = if i < n1 { (d1, i) } else { (d2, i - n1) };
        for q in 0..p { assert!(d.records[(j, q)] == (10 * i + q) as u8); }
        for c in 0..m { assert!(d.targets[(j, c)] == (100 + i + 50 * c) as u8); }
        if weighted { assert!(d.weights[j] == 0.5 + i as f32); }
    }
    for d in [d1, d2] {
        assert!(d.feature_names().len() == p && d.target_names().len() == m);
        for q in 0..p { assert!(d.feature_names()[q] == C02_FNAMES[q]); }
        for c in 0..m { assert!(d.target_names()[c] == C02_TNAMES[c]); }
    }
}

fn c02_ds1(n: usize, p: usize, weighted: bool, named: bool) -> Dataset<u8, u8, Ix1> {
    let mut ds = Dataset::new(c02_records(n, p), c02_targets1(n));
    if weighted { ds = ds.with_weights(c02_weights(n)); }
    if named { ds = ds.with_feature_names(C02_FNAMES[..p].to_vec()).with_target_names(C02_TNAMES[..1].to_vec()); }
    ds
}
fn c02_ds2(n: usize, p: usize, m: usize, weighted: bool) -> Dataset<u8, u8, Ix2> {
    let mut ds = Dataset::new(c02_records(n, p), c02_targets2(n, m))
        .with_feature_names(C02_FNAMES[..p].to_vec())
        .with_target_names(C02_TNAMES[..m].to_vec());
    if weighted { ds = ds.with_weights(c02_weights(n)); }
    ds
}
fn c02_any_ratio() -> f32 {
    let ratio: f32 = kani::any();
    kani::assume(ratio >= 0.0 && ratio <= 1.0);
    ratio
}

// ------------------------------------------------------------------ owned form
// Cost note (measured): the split index is symbolic for CBMC even for a literal ratio (`ceilf` is not constant-folded),
// so concrete ratios are no cheaper than a symbolic one; every unit therefore uses a fully symbolic ratio, which
// includes both boundaries 0.0 and 1.0 and every rounding case of the single-precision product.

// @unit class=bounded tier=quick mem=heavy bound="n=2,p=2,single target,weights+names,ratio symbolic f32 in [0,1]" timeout=900 fns=linfa::dataset::Dataset::split_with_ratio
#[kani::proof]
#[kani::unwind(4)]
#[kani::stub(alloc::fmt::format, fmt_stub)]
fn c02_split_owned_n2() {
    let ratio = c02_any_ratio();
    let n1 = c02_ceil_count(2, ratio);
    let (d1, d2) = c02_ds1(2, 2, true, true).split_with_ratio(ratio);
    c02_post_split1(&d1, &d2, 2, 2, n1, true, true);
    kani::cover!(n1 == 0);
    kani::cover!(n1 == 1);
    kani::cover!(n1 == 2 && ratio < 1.0);
}

// @unit class=bounded tier=thorough mem=heavy bound="n=3,p=2,single target,weights+names,ratio symbolic f32 in [0,1]" timeout=1800 fns=linfa::dataset::Dataset::split_with_ratio
#[kani::proof]
#[kani::unwind(5)]
#[kani::stub(alloc::fmt::format, fmt_stub)]
fn c02_split_owned_n3() {
    let ratio = c02_any_ratio();
    let n1 = c02_ceil_count(3, ratio);
    let (d1, d2) = c02_ds1(3, 2, true, true).split_with_ratio(ratio);
    c02_post_split1(&d1, &d2, 3, 2, n1, true, true);
    kani::cover!(n1 == 0);
    kani::cover!(n1 == 1);
    kani::cover!(n1 == 2);
    kani::cover!(n1 == 3 && ratio < 1.0);
}

// unweighted, unnamed: nothing may appear from nowhere
// @unit class=bounded tier=thorough mem=heavy bound="n=3,p=1,single target,no weights,no names,ratio symbolic f32 in [0,1]" timeout=1800 fns=linfa::dataset::Dataset::split_with_ratio
#[kani::proof]
#[kani::unwind(5)]
#[kani::stub(alloc::fmt::format, fmt_stub)]
fn c02_split_owned_plain_n3() {
    let ratio = c02_any_ratio();
    let n1 = c02_ceil_count(3, ratio);
    let (d1, d2) = c02_ds1(3, 1, false, false).split_with_ratio(ratio);
    c02_post_split1(&d1, &d2, 3, 1, n1, false, false);
    kani::cover!(n1 == 0);
    kani::cover!(n1 == 2);
    kani::cover!(n1 == 3);
}

// @unit class=bounded tier=thorough mem=heavy bound="n=2,p=2,2 target columns,weights+names,ratio symbolic f32 in [0,1]" timeout=1800 fns=linfa::dataset::Dataset::split_with_ratio
#[kani::proof]
#[kani::unwind(4)]
#[kani::stub(alloc::fmt::format, fmt_stub)]
fn c02_split_owned_mt_n2() {
    let ratio = c02_any_ratio();
    let n1 = c02_ceil_count(2, ratio);
    let (d1, d2) = c02_ds2(2, 2, 2, true).split_with_ratio(ratio);
    c02_post_split2(&d1, &d2, 2, 2, 2, n1, true);
    kani::cover!(n1 == 0);
    kani::cover!(n1 == 1);
    kani::cover!(n1 == 2);
}

// ------------------------------------------------------------------ view form
// Cost note (measured): the view form copies the weights with `self.weights.slice(s![..n]).to_vec()`; that one
// expression costs CBMC 10-12 GB at n=3 (with or without a symbolic ratio) and > 14 GB together with names, while
// records/targets/names alone cost 25-50 s.  Hence: records + targets + names at n=3, weights at n=2 in a unit of their own.

// @unit class=bounded tier=quick mem=light bound="n=3,p=2,single target,names,unweighted,ratio symbolic f32 in [0,1]" timeout=900 fns=linfa::dataset::DatasetBase::split_with_ratio,linfa::dataset::DatasetBase::view
#[kani::proof]
#[kani::unwind(5)]
#[kani::stub(alloc::fmt::format, fmt_stub)]
fn c02_split_view_n3() {
    let ratio = c02_any_ratio();
    let n1 = c02_ceil_count(3, ratio);
    let ds = c02_ds1(3, 2, false, true);
    let v = ds.view();
    let (d1, d2) = v.split_with_ratio(ratio);
    c02_post_split1(&d1, &d2, 3, 2, n1, false, true);
    kani::cover!(n1 == 0);
    kani::cover!(n1 == 1);
    kani::cover!(n1 == 2);
    kani::cover!(n1 == 3 && ratio < 1.0);
}

// @unit class=bounded tier=thorough mem=heavy bound="n=2,p=1,single target,weights,no names,ratio symbolic f32 in [0,1]" timeout=1800 fns=linfa::dataset::DatasetBase::split_with_ratio,linfa::dataset::DatasetBase::view
#[kani::proof]
#[kani::unwind(4)]
#[kani::stub(alloc::fmt::format, fmt_stub)]
fn c02_split_view_weights_n2() {
    let ratio = c02_any_ratio();
    let n1 = c02_ceil_count(2, ratio);
    let ds = c02_ds1(2, 1, true, false);
    let v = ds.view();
    let (d1, d2) = v.split_with_ratio(ratio);
    c02_post_split1(&d1, &d2, 2, 1, n1, true, false);
    kani::cover!(n1 == 0);
    kani::cover!(n1 == 1);
    kani::cover!(n1 == 2);
}

// @unit class=bounded tier=thorough mem=light bound="n=3,p=1,single target,no weights,no names,ratio symbolic f32 in [0,1]" timeout=900 fns=linfa::dataset::DatasetBase::split_with_ratio,linfa::dataset::DatasetBase::view
#[kani::proof]
#[kani::unwind(5)]
#[kani::stub(alloc::fmt::format, fmt_stub)]
fn c02_split_view_plain_n3() {
    let ratio = c02_any_ratio();
    let n1 = c02_ceil_count(3, ratio);
    let ds = c02_ds1(3, 1, false, false);
    let v = ds.view();
    let (d1, d2) = v.split_with_ratio(ratio);
    c02_post_split1(&d1, &d2, 3, 1, n1, false, false);
    kani::cover!(n1 == 0);
    kani::cover!(n1 == 2);
    kani::cover!(n1 == 3);
}

// @unit class=bounded tier=thorough mem=light bound="n=3,p=2,2 target columns,names,unweighted,ratio symbolic f32 in [0,1]" timeout=900 fns=linfa::dataset::DatasetBase::split_with_ratio,linfa::dataset::DatasetBase::view
#[kani::proof]
#[kani::unwind(5)]
#[kani::stub(alloc::fmt::format, fmt_stub)]
fn c02_split_view_mt_n3() {
    let ratio = c02_any_ratio();
    let n1 = c02_ceil_count(3, ratio);
    let ds = c02_ds2(3, 2, 2, false);
    let v = ds.view();
    let (d1, d2) = v.split_with_ratio(ratio);
    c02_post_split2(&d1, &d2, 3, 2, 2, n1, false);
    kani::cover!(n1 == 0);
    kani::cover!(n1 == 1);
    kani::cover!(n1 == 3);
}

// ------------------------------------------------------------------ owned and view forms agree
// Not a unit of its own: a harness that runs both forms on the same symbolic ratio exceeds 14 GB even at n=2, p=1
// without weights and names (measured twice).  Agreement follows from the units above: both forms are pinned to
// the same oracle (same identity-tagged dataset, same ratio => same n1, same rows, targets, weights and names).
