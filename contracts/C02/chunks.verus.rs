//! property: C02
//! unit: V-C02-chunks-next
//! tier: quick
//! fns: linfa::dataset::iter::ChunksIter::next (whole body: stop test, both slice ranges, index increment)
//@ extract NEXT from src/dataset/iter.rs anchor "if self.idx == self.records.len_of(self.axis) / self.size {" until "Some(DatasetBase::new(records, T::new_targets_view(targets)))"
//@ extract RET from src/dataset/iter.rs anchor "Some(DatasetBase::new(records, T::new_targets_view(targets)))" lines 1
//@ rewrite NEXT "self." => "it."
//@ rewrite NEXT ".into()," => ","
//@ rewrite RET "DatasetBase::new(records, T::new_targets_view(targets))" => "(records, targets)"
//@ insert NEXT before "let (mut records, mut targets) = (" : proof { lemma_chunk((it.records.hi - it.records.lo) as int, it.size as int, it.idx as int); }
//@ expect-fail vacuity_guard_next
use vstd::prelude::*;
verus! {

// ---- stand-ins for the ndarray view API the extracted text calls (trusted base: ndarray's documented behaviour).
// A view is represented by the window [lo, hi) of parent rows it shows along the chunk axis; that is all the
// extracted text can change about it.
#[derive(Clone, Copy)]
pub struct Axis(pub usize);

pub struct View { pub lo: usize, pub hi: usize }

impl View {
    fn len_of(&self, axis: Axis) -> (r: usize)
        requires self.lo <= self.hi,
        ensures r == self.hi - self.lo,
    { self.hi - self.lo }

    fn reborrow(&self) -> (r: View)
        ensures r == *self,
    { View { lo: self.lo, hi: self.hi } }

    // ndarray: "Panics if an index is out of bounds or step size is zero" -> in-bounds is the precondition
    fn slice_axis_inplace(&mut self, axis: Axis, r: core::ops::Range<usize>)
        requires old(self).lo <= old(self).hi, r.start <= r.end, r.end <= old(self).hi - old(self).lo,
        ensures final(self).lo == old(self).lo + r.start, final(self).hi == old(self).lo + r.end,
    {
        let lo = self.lo;
        self.lo = lo + r.start;
        self.hi = lo + r.end;
    }
}

pub struct Tgt { pub rows: View }
impl Tgt {
    fn as_targets(&self) -> (r: View)
        ensures r == self.rows,
    { View { lo: self.rows.lo, hi: self.rows.hi } }
}

// struct ChunksIter reduced to the fields `next` uses (phantom dropped)
pub struct ChunksIterV { pub records: View, pub targets: Tgt, pub size: usize, pub axis: Axis, pub idx: usize }

proof fn lemma_chunk(n: int, s: int, i: int)
    requires s > 0, 0 <= i, i <= n / s, n >= 0,
    ensures
        i * s >= 0, i * s <= n,
        i < n / s ==> (i + 1) * s <= n && i * s <= (i + 1) * s && (i + 1) * s - i * s == s,
{
    assert((n / s) * s <= n) by (nonlinear_arith) requires s > 0, n >= 0;
    assert(i * s <= (n / s) * s) by (nonlinear_arith) requires i <= n / s, s > 0;
    assert(i * s >= 0) by (nonlinear_arith) requires i >= 0, s > 0;
    if i < n / s {
        assert((i + 1) * s <= (n / s) * s) by (nonlinear_arith) requires i + 1 <= n / s, s > 0;
        assert((i + 1) * s - i * s == s) by (nonlinear_arith);
    }
}

pub open spec fn pre_next(it: ChunksIterV) -> bool {
    &&& it.size > 0
    &&& it.records.lo <= it.records.hi
    &&& it.targets.rows.lo <= it.targets.rows.hi
    // as many target rows as record rows (dataset invariant)
    &&& it.targets.rows.hi - it.targets.rows.lo == it.records.hi - it.records.lo
    // iterator invariant: established by `new` (idx = 0), preserved by `next` (proved below)
    &&& it.idx <= (it.records.hi - it.records.lo) / (it.size as int)
}

// ---- ChunksIter::next: text extracted from /repo on every run -----------------------------------------------
// C02 postcondition: with n rows and chunk size s the iterator yields exactly floor(n/s) chunks; the chunk
// produced in state idx = c shows rows [c*s, (c+1)*s) of the records AND the same rows of the targets.
fn chunks_next(it: &mut ChunksIterV) -> (r: Option<(View, View)>)
    requires pre_next(*old(it)),
    ensures
        final(it).records == old(it).records, final(it).targets == old(it).targets, final(it).size == old(it).size,
        pre_next(*final(it)),
        ({
            let n = old(it).records.hi - old(it).records.lo;
            let s = old(it).size as int;
            let c = old(it).idx as int;
            &&& (c == n / s ==> r.is_none() && final(it).idx == old(it).idx)
            &&& (c < n / s ==> r.is_some() && final(it).idx == old(it).idx + 1
                    && r.unwrap().0.lo == old(it).records.lo + c * s
                    && r.unwrap().0.hi == old(it).records.lo + (c + 1) * s
                    && r.unwrap().0.hi <= old(it).records.hi
                    && r.unwrap().1.lo == old(it).targets.rows.lo + c * s
                    && r.unwrap().1.hi == old(it).targets.rows.lo + (c + 1) * s
                    && r.unwrap().1.hi <= old(it).targets.rows.hi)
        }),
{
/*@NEXT*/
/*@RET*/
}

fn vacuity_guard_next(it: &mut ChunksIterV) -> (r: Option<(View, View)>)
    requires pre_next(*old(it)),
    ensures false,
{
    None
}

// consequence used by the statement "floor(n/s) chunks of consecutive rows": the states visited are idx = 0,1,..,k
// with k = n/s; chunk c covers [c*s,(c+1)*s); consecutive chunks are adjacent and disjoint, the remainder
// rows [k*s, n) are in no chunk.
proof fn lemma_chunks_tile(n: int, s: int, c: int)
    requires s > 0, n >= 0, 0 <= c, c + 1 < n / s,
    ensures (c + 1) * s == c * s + s, (c + 2) * s <= n,
{
    assert((c + 1) * s == c * s + s) by (nonlinear_arith);
    lemma_chunk(n, s, c + 1);
}
} // verus!
fn main() {}
