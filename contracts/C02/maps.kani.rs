//! property: C02
//! attach: src/dataset/impl_dataset.rs
//! module: vk_c02_maps
// @include common/prelude.rs
// @include C02/helpers.rs
use super::*;
use ndarray::{Ix1, Ix2};

// ---------------------------------------------------------------------------------------------
// Element-wise / identity operations, from the property statement ("target mapping, views, conversion to
// single target ... beyond the documented selection nothing changes"):
//   map_targets(f)      : target (i,c) becomes f(old target (i,c)); records, weights, names unchanged
//   view()              : same records, targets, weights, names
//   to_owned()          : same records and targets; weights / names, if carried, are the original ones
//   into_single_target(): (n,1) targets become n targets in the same order; records unchanged; weights / names
//                         if carried are the original ones
//   with_weights / with_feature_names / with_target_names / with_targets / with_records : replace exactly the
//                         named container (with_records is documented to invalidate weights and names)
// Values symbolic (any u8), shapes concrete.
// ---------------------------------------------------------------------------------------------

fn c02_names_eq(got: &[String], want: &[&str]) -> bool {
    if got.len() != want.len() { return false; }
    for k in 0..want.len() { if got[k] != want[k] { return false; } }
    true
}

// @unit class=bounded tier=quick mem=light bound="n=3,p=2,single target,weights+names,values symbolic u8,f = wrapping_add(symbolic k)" timeout=600 fns=linfa::dataset::DatasetBase::map_targets
#[kani::proof]
#[kani::unwind(5)]
#[kani::stub(alloc::fmt::format, fmt_stub)]
fn c02_map_targets_st() {
    let v: [u8; 6] = kani::any();
    let t: [u8; 3] = kani::any();
    let k: u8 = kani::any();
    let ds = Dataset::new(Array2::from_shape_vec((3, 2), v.to_vec()).unwrap(), Array1::from(t.to_vec()))
        .with_weights(c02_weights(3))
        .with_feature_names(C02_FNAMES[..2].to_vec())
        .with_target_names(C02_TNAMES[..1].to_vec());
    let mut calls = 0usize;
    let out = ds.map_targets(|x| { calls += 1; (x.wrapping_add(k), *x > 7) });
    assert!(calls == 3);
    assert!(out.records.dim() == (3, 2) && out.targets.len() == 3 && out.weights.len() == 3);
    for i in 0..3 {
        assert!(out.records[(i, 0)] == v[2 * i] && out.records[(i, 1)] == v[2 * i + 1]);
        assert!(out.targets[i] == (t[i].wrapping_add(k), t[i] > 7));
        assert!(out.weights[i] == 0.5 + i as f32);
    }
    assert!(c02_names_eq(out.feature_names(), &C02_FNAMES[..2]) && c02_names_eq(out.target_names(), &C02_TNAMES[..1]));
    kani::cover!(out.targets[0] != out.targets[1] && k != 0);
}

// @unit class=bounded tier=thorough mem=light bound="n=2,p=1,2 target columns,weights+names,values symbolic u8" timeout=600 fns=linfa::dataset::DatasetBase::map_targets
#[kani::proof]
#[kani::unwind(5)]
#[kani::stub(alloc::fmt::format, fmt_stub)]
fn c02_map_targets_mt() {
    let v: [u8; 2] = kani::any();
    let t: [u8; 4] = kani::any();
    let c: u8 = kani::any();
    let ds = Dataset::new(Array2::from_shape_vec((2, 1), v.to_vec()).unwrap(), Array2::from_shape_vec((2, 2), t.to_vec()).unwrap())
        .with_weights(c02_weights(2))
        .with_feature_names(C02_FNAMES[..1].to_vec())
        .with_target_names(C02_TNAMES[..2].to_vec());
    let out = ds.map_targets(|x| *x > c);
    assert!(out.records.dim() == (2, 1) && out.targets.dim() == (2, 2) && out.weights.len() == 2);
    for i in 0..2 {
        assert!(out.records[(i, 0)] == v[i]);
        assert!(out.targets[(i, 0)] == (t[2 * i] > c) && out.targets[(i, 1)] == (t[2 * i + 1] > c));
        assert!(out.weights[i] == 0.5 + i as f32);
    }
    assert!(c02_names_eq(out.feature_names(), &C02_FNAMES[..1]) && c02_names_eq(out.target_names(), &C02_TNAMES[..2]));
    kani::cover!(out.targets[(0, 0)] && !out.targets[(0, 1)]);
}

// the statement quantifies over "any shape ... owned or view": a column-major (Fortran-order) target matrix and a
// reversed single-target view are contiguous in memory but NOT row-major; the mapped value must stay with its (row, column)
// @unit class=bounded tier=quick mem=light bound="n=3,p=1,2 target columns stored column-major; values symbolic u8" timeout=600 fns=linfa::dataset::DatasetBase::map_targets
#[kani::proof]
#[kani::unwind(8)]
#[kani::stub(alloc::fmt::format, fmt_stub)]
fn c02_map_targets_colmajor() {
    use ndarray::ShapeBuilder;
    let v: [u8; 3] = kani::any();
    let t: [u8; 6] = kani::any();             // memory order = column by column: t[0..3] is column 0
    let c: u8 = kani::any();
    let tar = Array2::from_shape_vec((3, 2).f(), t.to_vec()).unwrap();
    let ds = Dataset::new(Array2::from_shape_vec((3, 1), v.to_vec()).unwrap(), tar);
    let out = ds.map_targets(|x| *x > c);
    assert!(out.records.dim() == (3, 1) && out.targets.dim() == (3, 2));
    for i in 0..3 {
        assert!(out.records[(i, 0)] == v[i]);
        assert!(out.targets[(i, 0)] == (t[i] > c) && out.targets[(i, 1)] == (t[3 + i] > c));
    }
    kani::cover!(out.targets[(0, 0)] && !out.targets[(1, 0)] && out.targets[(0, 1)] != out.targets[(2, 1)]);
}

// @unit class=bounded tier=quick mem=light bound="n=3,p=1,single target seen through a reversed view; values symbolic u8" timeout=600 fns=linfa::dataset::DatasetBase::map_targets
#[kani::proof]
#[kani::unwind(8)]
#[kani::stub(alloc::fmt::format, fmt_stub)]
fn c02_map_targets_reversed_view() {
    use ndarray::s;
    let v: [u8; 3] = kani::any();
    let t: [u8; 3] = kani::any();
    let c: u8 = kani::any();
    let rec = Array2::from_shape_vec((3, 1), v.to_vec()).unwrap();
    let tar = Array1::from(t.to_vec());
    let ds = crate::dataset::DatasetBase::new(rec.view(), tar.slice(s![..;-1]));      // target of row i is t[2 - i]
    let out = ds.map_targets(|x| *x > c);
    for i in 0..3 {
        assert!(out.records[(i, 0)] == v[i]);
        assert!(out.targets[i] == (t[2 - i] > c));
    }
    kani::cover!(out.targets[0] && !out.targets[2]);
}

// @unit class=bounded tier=quick mem=light bound="n=3,p=2,single target,weights+names,values symbolic u8" timeout=600 fns=linfa::dataset::DatasetBase::view,linfa::dataset::DatasetBase::to_owned
#[kani::proof]
#[kani::unwind(8)]
#[kani::stub(alloc::fmt::format, fmt_stub)]
fn c02_view_to_owned_st() {
    let v: [u8; 6] = kani::any();
    let t: [u8; 3] = kani::any();
    let ds = Dataset::new(Array2::from_shape_vec((3, 2), v.to_vec()).unwrap(), Array1::from(t.to_vec()))
        .with_weights(c02_weights(3))
        .with_feature_names(C02_FNAMES[..2].to_vec())
        .with_target_names(C02_TNAMES[..1].to_vec());
    let w = ds.view();
    assert!(w.records.dim() == (3, 2) && w.targets.len() == 3 && w.weights.len() == 3);
    for i in 0..3 {
        assert!(w.records[(i, 0)] == v[2 * i] && w.records[(i, 1)] == v[2 * i + 1] && w.targets[i] == t[i] && w.weights[i] == 0.5 + i as f32);
    }
    assert!(c02_names_eq(w.feature_names(), &C02_FNAMES[..2]) && c02_names_eq(w.target_names(), &C02_TNAMES[..1]));
    // a view of a view is the same again
    let w2 = w.view();
    assert!(w2.records == w.records && w2.targets == w.targets && w2.weights == w.weights);
    let o = w.to_owned();
    assert!(o.records.dim() == (3, 2) && o.targets.len() == 3);
    for i in 0..3 {
        assert!(o.records[(i, 0)] == v[2 * i] && o.records[(i, 1)] == v[2 * i + 1] && o.targets[i] == t[i]);
        if o.weights.len() != 0 { assert!(o.weights.len() == 3 && o.weights[i] == 0.5 + i as f32); }
    }
    assert!(o.feature_names().is_empty() || c02_names_eq(o.feature_names(), &C02_FNAMES[..2]));
    assert!(o.target_names().is_empty() || c02_names_eq(o.target_names(), &C02_TNAMES[..1]));
    kani::cover!(v[0] != v[2] && t[0] != t[2]);
}

// @unit class=bounded tier=thorough mem=light bound="n=2,p=2,2 target columns,weights+names,values symbolic u8" timeout=600 fns=linfa::dataset::DatasetBase::view,linfa::dataset::DatasetBase::to_owned
#[kani::proof]
#[kani::unwind(5)]
#[kani::stub(alloc::fmt::format, fmt_stub)]
fn c02_view_to_owned_mt() {
    let v: [u8; 4] = kani::any();
    let t: [u8; 4] = kani::any();
    let ds = Dataset::new(Array2::from_shape_vec((2, 2), v.to_vec()).unwrap(), Array2::from_shape_vec((2, 2), t.to_vec()).unwrap())
        .with_weights(c02_weights(2))
        .with_feature_names(C02_FNAMES[..2].to_vec())
        .with_target_names(C02_TNAMES[..2].to_vec());
    let w = ds.view();
    let o = ds.to_owned();
    assert!(w.records.dim() == (2, 2) && w.targets.dim() == (2, 2) && o.records.dim() == (2, 2) && o.targets.dim() == (2, 2));
    for i in 0..2 {
        for c in 0..2 {
            assert!(w.records[(i, c)] == v[2 * i + c] && w.targets[(i, c)] == t[2 * i + c]);
            assert!(o.records[(i, c)] == v[2 * i + c] && o.targets[(i, c)] == t[2 * i + c]);
        }
        assert!(w.weights[i] == 0.5 + i as f32);
        if o.weights.len() != 0 { assert!(o.weights.len() == 2 && o.weights[i] == 0.5 + i as f32); }
    }
    assert!(w.weights.len() == 2);
    assert!(c02_names_eq(w.feature_names(), &C02_FNAMES[..2]) && c02_names_eq(w.target_names(), &C02_TNAMES[..2]));
    assert!(o.feature_names().is_empty() || c02_names_eq(o.feature_names(), &C02_FNAMES[..2]));
    assert!(o.target_names().is_empty() || c02_names_eq(o.target_names(), &C02_TNAMES[..2]));
    kani::cover!(t[0] != t[1] && t[0] != t[2]);
}

// @unit class=bounded tier=quick mem=light bound="n=3,p=2,(3,1) targets,weights+names,values symbolic u8" timeout=600 fns=linfa::dataset::Dataset::into_single_target
#[kani::proof]
#[kani::unwind(5)]
#[kani::stub(alloc::fmt::format, fmt_stub)]
fn c02_into_single_target() {
    let v: [u8; 6] = kani::any();
    let t: [u8; 3] = kani::any();
    let ds = Dataset::new(Array2::from_shape_vec((3, 2), v.to_vec()).unwrap(), Array2::from_shape_vec((3, 1), t.to_vec()).unwrap())
        .with_weights(c02_weights(3))
        .with_feature_names(C02_FNAMES[..2].to_vec())
        .with_target_names(C02_TNAMES[..1].to_vec());
    let out: Dataset<u8, u8, Ix1> = ds.into_single_target();
    assert!(out.records.dim() == (3, 2) && out.targets.len() == 3);
    for i in 0..3 {
        assert!(out.records[(i, 0)] == v[2 * i] && out.records[(i, 1)] == v[2 * i + 1] && out.targets[i] == t[i]);
        if out.weights.len() != 0 { assert!(out.weights.len() == 3 && out.weights[i] == 0.5 + i as f32); }
    }
    assert!(out.feature_names().is_empty() || c02_names_eq(out.feature_names(), &C02_FNAMES[..2]));
    assert!(out.target_names().is_empty() || c02_names_eq(out.target_names(), &C02_TNAMES[..1]));
    kani::cover!(t[0] != t[1] && t[1] != t[2]);
}

// @unit class=bounded tier=quick mem=light bound="n=2,p=2,single target,values symbolic u8" timeout=600 fns=linfa::dataset::DatasetBase::with_weights,linfa::dataset::DatasetBase::with_feature_names,linfa::dataset::DatasetBase::with_target_names,linfa::dataset::DatasetBase::with_targets,linfa::dataset::DatasetBase::with_records,linfa::dataset::DatasetBase::new
#[kani::proof]
#[kani::unwind(5)]
#[kani::stub(alloc::fmt::format, fmt_stub)]
fn c02_rebuilders() {
    let v: [u8; 4] = kani::any();
    let t: [u8; 2] = kani::any();
    let t2: [u8; 2] = kani::any();
    let wts: [f32; 2] = kani::any();
    kani::assume(wts[0].is_finite() && wts[1].is_finite());
    let base = Dataset::new(Array2::from_shape_vec((2, 2), v.to_vec()).unwrap(), Array1::from(t.to_vec()));
    // new: nothing but records and targets
    assert!(base.weights.len() == 0 && base.weights().is_none() && base.feature_names().is_empty() && base.target_names().is_empty());
    let a = base.with_weights(Array1::from(wts.to_vec()));
    assert!(a.weights().unwrap()[0] == wts[0] && a.weights().unwrap()[1] == wts[1] && a.weight_for(1) == wts[1]);
    assert!(a.records[(0, 0)] == v[0] && a.records[(1, 1)] == v[3] && a.targets[0] == t[0] && a.targets[1] == t[1]);
    let b = a.with_feature_names(C02_FNAMES[..2].to_vec());
    assert!(c02_names_eq(b.feature_names(), &C02_FNAMES[..2]) && b.target_names().is_empty());
    assert!(b.weights.len() == 2 && b.weights[0] == wts[0] && b.weights[1] == wts[1]);
    let c = b.with_target_names(C02_TNAMES[..1].to_vec());
    assert!(c02_names_eq(c.feature_names(), &C02_FNAMES[..2]) && c02_names_eq(c.target_names(), &C02_TNAMES[..1]));
    assert!(c.records[(0, 1)] == v[1] && c.records[(1, 0)] == v[2] && c.targets[0] == t[0] && c.targets[1] == t[1]);
    // with_targets: only the targets change
    let d = c.with_targets(Array1::from(t2.to_vec()));
    assert!(d.targets[0] == t2[0] && d.targets[1] == t2[1]);
    for i in 0..2 { assert!(d.records[(i, 0)] == v[2 * i] && d.records[(i, 1)] == v[2 * i + 1] && d.weights[i] == wts[i]); }
    assert!(c02_names_eq(d.feature_names(), &C02_FNAMES[..2]) && c02_names_eq(d.target_names(), &C02_TNAMES[..1]));
    // with_records: targets kept; weights and names are documented to be invalidated (so none may survive misattached)
    let e = d.with_records(Array2::from_shape_vec((2, 1), vec![v[3], v[0]]).unwrap());
    assert!(e.records.dim() == (2, 1) && e.records[(0, 0)] == v[3] && e.records[(1, 0)] == v[0]);
    assert!(e.targets[0] == t2[0] && e.targets[1] == t2[1]);
    assert!(e.weights.len() == 0 && e.feature_names().is_empty() && e.target_names().is_empty());
    kani::cover!(wts[0] != wts[1] && t[0] != t2[0]);
}
