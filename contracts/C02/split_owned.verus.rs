//! property: C02
//! unit: V-C02-split-owned
//! tier: quick
//! fns: linfa::dataset::Dataset::split_with_ratio (owned form: every statement after the two layout asserts except the final tuple; the float expression ceil(n as f32 * ratio) is an uninterpreted function bounded by n)
//! pair: c02_split_owned_n2
//@ extract SPLIT from src/dataset/impl_dataset.rs anchor "let nfeatures = self.nfeatures();" until "(dataset1, dataset2)"
//@ rewrite SPLIT "(self.nsamples() as f32 * ratio).ceil() as usize" => "ceil_count(self.nsamples(), ratio)"
//@ rewrite SPLIT "self." => "ds."
//@ rewrite SPLIT "Array2::from_shape_vec(" => "arr2_from_shape_vec("
//@ rewrite SPLIT "Array::from_shape_vec(" => "arr_from_shape_vec("
//@ rewrite SPLIT "Array1::from(" => "arr1_from("
//@ rewrite SPLIT "Array1::zeros(" => "arr1_zeros("
//@ rewrite SPLIT "Dataset::new(" => "Ds::new("
//@ insert SPLIT before "let mut array_buf = ds.records.into_raw_vec();" : let _len_r = ds.records.len(); let _len_t = ds.targets.len(); proof { lemma_mul_le(n1 as int, ds.records.dim.n as int, nfeatures as int); lemma_mul_le(n1 as int, ds.records.dim.n as int, ds.targets.dim.m as int); lemma_mul_le(n2 as int, ds.records.dim.n as int, nfeatures as int); lemma_mul_le(n2 as int, ds.records.dim.n as int, ds.targets.dim.m as int); lemma_split_sizes(n1 as int, n2 as int, nfeatures as int); lemma_split_sizes(n1 as int, n2 as int, ds.targets.dim.m as int); }
//@ expect-fail vacuity_guard_split
use vstd::prelude::*;
verus! {

// ---- stand-ins for the ndarray / DatasetBase API the extracted text calls -----------------------------------
// (trusted base: an owned standard-layout array is its shape plus its row-major raw vector; `from_shape_vec`
//  succeeds iff the vector length equals the product of the shape - ndarray's documented contract)
pub struct Dim { pub n: usize, pub m: usize }      // n samples (axis 0) x m columns; Ix1 targets / weights: m == 1
impl Dim {
    fn nsamples(self, n: usize) -> (r: Dim)
        ensures r.n == n, r.m == self.m,
    { Dim { n: n, m: self.m } }
    fn size(&self) -> (r: usize)
        requires self.n * self.m <= usize::MAX,
        ensures r == self.n * self.m,
    { self.n * self.m }
}
pub struct Arr<T> { pub dim: Dim, pub data: Vec<T> }
impl<T> Arr<T> {
    fn into_raw_vec(self) -> (r: Vec<T>)
        ensures r@ == self.data@,
    { self.data }
    fn raw_dim(&self) -> (r: Dim)
        ensures r == self.dim,
    { Dim { n: self.dim.n, m: self.dim.m } }
    fn len(&self) -> (r: usize)
        ensures r == self.data@.len(),
    { self.data.len() }
}
#[verifier::external_body]
fn arr_from_shape_vec<T>(dim: Dim, v: Vec<T>) -> (r: Result<Arr<T>, ()>)
    ensures r is Ok <==> v@.len() == dim.n * dim.m,
            r is Ok ==> r->Ok_0.dim == dim && r->Ok_0.data@ == v@,
{
    let ok = match dim.n.checked_mul(dim.m) { Some(p) => p == v.len(), None => false };
    if ok { Ok(Arr { dim: dim, data: v }) } else { Err(()) }
}
fn arr2_from_shape_vec<T>(shape: (usize, usize), v: Vec<T>) -> (r: Result<Arr<T>, ()>)
    ensures r is Ok <==> v@.len() == shape.0 * shape.1,
            r is Ok ==> r->Ok_0.dim == (Dim { n: shape.0, m: shape.1 }) && r->Ok_0.data@ == v@,
{
    arr_from_shape_vec(Dim { n: shape.0, m: shape.1 }, v)
}
fn arr1_from<T>(v: Vec<T>) -> (r: Arr<T>)
    ensures r.data@ == v@, r.dim == (Dim { n: v@.len() as usize, m: 1 }),
{
    Arr { dim: Dim { n: v.len(), m: 1 }, data: v }
}
fn arr1_zeros<T>(k: usize) -> (r: Arr<T>)
    requires k == 0,
    ensures r.data@.len() == 0, r.dim == (Dim { n: 0, m: 1 }),
{
    Arr { dim: Dim { n: 0, m: 1 }, data: Vec::new() }
}
// feature / target names: an opaque value that is only cloned and passed on
pub struct Names { pub id: usize }
impl Names {
    fn to_vec(&self) -> (r: Names) ensures r == *self, { Names { id: self.id } }
    fn clone(&self) -> (r: Names) ensures r == *self, { Names { id: self.id } }
}
// struct DatasetBase (all five containers kept)
pub struct Ds<T, U, W> { pub records: Arr<T>, pub targets: Arr<U>, pub weights: Arr<W>, pub feature_names: Names, pub target_names: Names }
impl<T, U, W> Ds<T, U, W> {
    fn nsamples(&self) -> (r: usize) ensures r == self.records.dim.n, { self.records.dim.n }
    fn nfeatures(&self) -> (r: usize) ensures r == self.records.dim.m, { self.records.dim.m }
    fn feature_names(&self) -> (r: &Names) ensures *r == self.feature_names, { &self.feature_names }
    fn target_names(&self) -> (r: &Names) ensures *r == self.target_names, { &self.target_names }
    fn new(records: Arr<T>, targets: Arr<U>) -> (r: Self)
        ensures r.records == records, r.targets == targets, r.weights.data@.len() == 0, r.feature_names.id == 0, r.target_names.id == 0,
    { Ds { records: records, targets: targets, weights: Arr { dim: Dim { n: 0, m: 1 }, data: Vec::new() }, feature_names: Names { id: 0 }, target_names: Names { id: 0 } } }
    fn with_weights(self, weights: Arr<W>) -> (r: Self)
        ensures r.records == self.records, r.targets == self.targets, r.weights == weights, r.feature_names == self.feature_names, r.target_names == self.target_names,
    { Ds { records: self.records, targets: self.targets, weights: weights, feature_names: self.feature_names, target_names: self.target_names } }
    fn with_feature_names(self, names: Names) -> (r: Self)
        ensures r.records == self.records, r.targets == self.targets, r.weights == self.weights, r.feature_names == names, r.target_names == self.target_names,
    { Ds { records: self.records, targets: self.targets, weights: self.weights, feature_names: names, target_names: self.target_names } }
    fn with_target_names(self, names: Names) -> (r: Self)
        ensures r.records == self.records, r.targets == self.targets, r.weights == self.weights, r.feature_names == self.feature_names, r.target_names == names,
    { Ds { records: self.records, targets: self.targets, weights: self.weights, feature_names: self.feature_names, target_names: names } }
}

// the float part: uninterpreted (Verus does not interpret f32); NOTHING is assumed about its value: n as f32 can round up beyond 2^24 samples
// (natively observed: n = 16_777_219, ratio = 1.0 made the old code panic at `self.nsamples() - n1`), the code clamps it with `.min(nsamples)`.
// The value of the count itself is decided by the Kani units (n <= 3, ratio fully symbolic).
pub uninterp spec fn spec_ceil_count(n: usize, ratio: f32) -> usize;
#[verifier::external_body]
fn ceil_count(n: usize, ratio: f32) -> (r: usize)
    ensures r == spec_ceil_count(n, ratio),
{
    (n as f32 * ratio).ceil() as usize
}

proof fn lemma_mul_le(a: int, b: int, c: int)
    requires 0 <= a <= b, 0 <= c,
    ensures 0 <= a * c <= b * c,
{
    assert(a * c <= b * c) by (nonlinear_arith) requires a <= b, c >= 0;
    assert(0 <= a * c) by (nonlinear_arith) requires a >= 0, c >= 0;
}
proof fn lemma_split_sizes(n1: int, n2: int, c: int)
    ensures (n1 + n2) * c == n1 * c + n2 * c,
{
    assert((n1 + n2) * c == n1 * c + n2 * c) by (nonlinear_arith);
}

pub open spec fn well_formed<T, U, W>(ds: Ds<T, U, W>) -> bool {
    &&& ds.records.data@.len() == ds.records.dim.n * ds.records.dim.m          // standard layout (the two asserts at the top of the fn)
    &&& ds.targets.dim.n == ds.records.dim.n                                    // one target row per sample
    &&& ds.targets.data@.len() == ds.targets.dim.n * ds.targets.dim.m
}

// ---- owned split_with_ratio: text extracted from /repo on every run ------------------------------------------
// C02 postcondition, index part: with n1 = the count returned for (n, ratio),
//   first part  = raw elements [0, n1*nf) of the records  -> rows 0..n1, whole, in order
//   second part = raw elements [n1*nf, n*nf)              -> rows n1..n, whole, in order
//   targets split at n1*m (row n1 as well), weights - when there is one per sample - at n1; names copied to both.
fn split_owned<T, U, W>(ds: Ds<T, U, W>, ratio: f32) -> (r: (Ds<T, U, W>, Ds<T, U, W>))
    requires well_formed(ds),
    ensures
        ({
            let n = ds.records.dim.n as int;
            let nf = ds.records.dim.m as int;
            let m = ds.targets.dim.m as int;
            let n1 = if spec_ceil_count(ds.records.dim.n, ratio) <= ds.records.dim.n { spec_ceil_count(ds.records.dim.n, ratio) as int } else { ds.records.dim.n as int };      // min(ceil(n * ratio), n)
            let (a, b) = r;
            &&& a.records.dim == (Dim { n: n1 as usize, m: nf as usize }) && b.records.dim == (Dim { n: (n - n1) as usize, m: nf as usize })
            &&& a.targets.dim == (Dim { n: n1 as usize, m: m as usize }) && b.targets.dim == (Dim { n: (n - n1) as usize, m: m as usize })
            &&& a.records.data@ == ds.records.data@.subrange(0, n1 * nf) && b.records.data@ == ds.records.data@.subrange(n1 * nf, n * nf)
            &&& a.targets.data@ == ds.targets.data@.subrange(0, n1 * m) && b.targets.data@ == ds.targets.data@.subrange(n1 * m, n * m)
            &&& (ds.weights.data@.len() == n ==> a.weights.data@ == ds.weights.data@.subrange(0, n1) && b.weights.data@ == ds.weights.data@.subrange(n1, n))
            &&& (ds.weights.data@.len() != n ==> a.weights.data@ == ds.weights.data@ && b.weights.data@.len() == 0)
            &&& a.feature_names == ds.feature_names && b.feature_names == ds.feature_names
            &&& a.target_names == ds.target_names && b.target_names == ds.target_names
        }),
{
    let mut ds = ds;
/*@SPLIT*/
    (dataset1, dataset2)      // the function's final expression, `(dataset1, dataset2)`, is the `until` anchor and is restated here
}

fn vacuity_guard_split<T, U, W>(ds: Ds<T, U, W>, ratio: f32) -> (r: (Ds<T, U, W>, Ds<T, U, W>))
    requires well_formed(ds),
    ensures false,
{
    let a = Ds { records: ds.records, targets: ds.targets, weights: ds.weights, feature_names: ds.feature_names, target_names: ds.target_names };
    let b = Ds::new(Arr { dim: Dim { n: 0, m: 0 }, data: Vec::new() }, Arr { dim: Dim { n: 0, m: 0 }, data: Vec::new() });
    (a, b)
}

// what the raw-vector postcondition means row by row: element (i, q) of the first part is element (i, q) of the
// input, element (j, q) of the second part is element (n1 + j, q) of the input - for records (c = nf) and targets (c = m)
proof fn lemma_rows_stay_whole<T>(s: Seq<T>, n: int, n1: int, c: int, i: int, q: int)
    requires 0 <= n1 <= n, 0 <= c, s.len() == n * c, 0 <= q < c,
    ensures
        0 <= n1 * c <= n * c,
        0 <= i < n1 ==> 0 <= i * c + q < n1 * c && s.subrange(0, n1 * c)[i * c + q] == s[i * c + q],
        0 <= i < n - n1 ==> 0 <= i * c + q < n * c - n1 * c && s.subrange(n1 * c, n * c)[i * c + q] == s[(n1 + i) * c + q],
{
    lemma_mul_le(n1, n, c);
    if 0 <= i < n1 {
        assert(i * c + q < n1 * c) by (nonlinear_arith) requires 0 <= i < n1, 0 <= q < c;
        assert(0 <= i * c + q) by (nonlinear_arith) requires 0 <= i, 0 <= q, 0 <= c;
    }
    if 0 <= i < n - n1 {
        assert(i * c + q < n * c - n1 * c) by (nonlinear_arith) requires 0 <= i < n - n1, 0 <= q < c;
        assert(0 <= i * c + q) by (nonlinear_arith) requires 0 <= i, 0 <= q, 0 <= c;
        assert((n1 + i) * c + q == n1 * c + (i * c + q)) by (nonlinear_arith);
    }
}
} // verus!
fn main() {}
