// ---- C02/helpers.rs: identity-tagged datasets (textually included into every C02 harness module) ----
// Sample i of every dataset built here carries its own identity in every container:
//   record row i = [10*i, 10*i+1, ...]   (column q holds 10*i+q)
//   target   i   = 100+i                 (multi-target: column c holds 100+i+50*c)
//   weight   i   = 0.5+i
//   feature name q = "f<q>", target name c = "t<c>"
// so "record, target, weight and names of a result row belong to the same original sample/column"
// is decidable by looking at the values alone.
#[allow(dead_code)]
fn c02_records(n: usize, p: usize) -> ndarray::Array2<u8> {
    let mut v = alloc::vec::Vec::new();
    for i in 0..n { for q in 0..p { v.push((10 * i + q) as u8); } }
    ndarray::Array2::from_shape_vec((n, p), v).unwrap()
}
#[allow(dead_code)]
fn c02_targets1(n: usize) -> ndarray::Array1<u8> {
    let mut v = alloc::vec::Vec::new();
    for i in 0..n { v.push((100 + i) as u8); }
    ndarray::Array1::from(v)
}
#[allow(dead_code)]
fn c02_targets2(n: usize, m: usize) -> ndarray::Array2<u8> {
    let mut v = alloc::vec::Vec::new();
    for i in 0..n { for c in 0..m { v.push((100 + i + 50 * c) as u8); } }
    ndarray::Array2::from_shape_vec((n, m), v).unwrap()
}
#[allow(dead_code)]
fn c02_weights(n: usize) -> ndarray::Array1<f32> {
    let mut v = alloc::vec::Vec::new();
    for i in 0..n { v.push(0.5 + i as f32); }
    ndarray::Array1::from(v)
}
#[allow(dead_code)]
const C02_FNAMES: [&str; 3] = ["f0", "f1", "f2"];
#[allow(dead_code)]
const C02_TNAMES: [&str; 2] = ["t0", "t1"];
/// the statement's ceil(ratio*n), product taken in single precision, characterised without calling `ceil`:
/// the smallest integer k in 0..=n with k >= n as f32 * ratio   (premise: 0 <= ratio <= 1, so the product is <= n)
#[allow(dead_code)]
fn c02_ceil_count(n: usize, ratio: f32) -> usize {
    let prod: f32 = n as f32 * ratio;
    let mut k = 0usize;
    for c in 0..n { if (c as f32) < prod { k = c + 1; } }
    k
}
