//! property: C02
//! unit: V-C02-column-iter
//! tier: quick
//! fns: linfa::dataset::iter::DatasetIter::next (per-target / per-feature iteration: which column, which name, which weights)
//@ extract NEXT from src/dataset/iter.rs anchor "if !self.target_or_feature && " until "#[derive(Clone, Debug)]"
//@ rewrite NEXT "Vec::new()" => "NamesTok::none()"
//@ rewrite NEXT "vec![self.dataset.target_names[" => "self.dataset.target_names.single("
//@ rewrite NEXT "vec![self.dataset.feature_names[" => "self.dataset.feature_names.single("
//@ rewrite NEXT "].clone()]" => ")"
//@ rewrite NEXT "Axis(1)" => "Axis1"
//@ rewrite NEXT "let dataset_view = DatasetBase {" => "let dataset_view = DatasetV {"
//@ expect-fail vacuity_guard_next
use vstd::prelude::*;
verus! {
// ---- tokens: a 2-D array is (identity, which single column it has been collapsed to, if any); names are a list of column tags ----
pub struct Axis1;
pub struct ArrTok { pub id: Ghost<int>, pub ndim: Ghost<int>, pub ncols: Ghost<int>, pub col: Ghost<Option<int>> }     // ndim: 1 (single-target vector: ncols = 1) or 2
pub struct WTok { pub id: Ghost<int> }
pub struct NamesTok { pub tags: Ghost<Seq<int>> }
impl ArrTok {
    #[verifier::external_body]
    pub fn view(&self) -> (r: ArrTok) ensures r.id@ == self.id@, r.ndim@ == self.ndim@, r.ncols@ == self.ncols@, r.col@ == self.col@ { unimplemented!() }
    #[verifier::external_body]
    pub fn as_targets(&self) -> (r: ArrTok) ensures r.id@ == self.id@, r.ndim@ == self.ndim@, r.ncols@ == self.ncols@, r.col@ == self.col@ { unimplemented!() }
    #[verifier::external_body]
    pub fn ndim(&self) -> (r: usize) ensures r == self.ndim@ { unimplemented!() }
    // ndarray collapse_axis(Axis(1), j): keeps only column j (panics out of range, and panics when the array has no axis 1); the axis then has length 1
    #[verifier::external_body]
    pub fn collapse_axis(&mut self, _a: Axis1, j: usize)
        requires old(self).ndim@ == 2, j < old(self).ncols@, old(self).col@ is None,
        ensures final(self).id@ == old(self).id@, final(self).ndim@ == 2, final(self).col@ == Some(j as int), final(self).ncols@ == 1,
    { unimplemented!() }
    #[verifier::external_body]
    pub fn len_of(&self, _a: Axis1) -> (r: usize) ensures r == self.ncols@ { unimplemented!() }
}
impl WTok {
    #[verifier::external_body]
    pub fn clone(&self) -> (r: WTok) ensures r.id@ == self.id@ { unimplemented!() }
}
impl NamesTok {
    pub fn none() -> (r: NamesTok) ensures r.tags@.len() == 0 { NamesTok { tags: Ghost(Seq::empty()) } }
    #[verifier::external_body]
    pub fn clone(&self) -> (r: NamesTok) ensures r.tags@ == self.tags@ { unimplemented!() }
    #[verifier::external_body]
    pub fn is_empty(&self) -> (r: bool) ensures r == (self.tags@.len() == 0) { unimplemented!() }
    #[verifier::external_body]
    pub fn len(&self) -> (r: usize) ensures r == self.tags@.len() { unimplemented!() }
    // vec![names[j].clone()]: indexing panics out of range
    #[verifier::external_body]
    pub fn single(&self, j: usize) -> (r: NamesTok) requires j < self.tags@.len(), ensures r.tags@ == seq![self.tags@[j as int]] { unimplemented!() }
}
pub struct DatasetV { pub records: ArrTok, pub targets: ArrTok, pub weights: WTok, pub feature_names: NamesTok, pub target_names: NamesTok }
impl DatasetV {
    pub open spec fn wf(&self) -> bool {
        self.records.col@ is None && self.targets.col@ is None && self.records.ncols@ >= 0 && self.targets.ncols@ >= 0
        && self.records.ndim@ == 2 && (self.targets.ndim@ == 2 || (self.targets.ndim@ == 1 && self.targets.ncols@ == 1))       // single-target datasets carry a 1-D target vector
        && self.records.ncols@ <= usize::MAX && self.targets.ncols@ <= usize::MAX
        // names, when present, name every column (DatasetBase::with_*_names checks the length)
        && (self.target_names.tags@.len() == 0 || self.target_names.tags@.len() == self.targets.ncols@)
        && (self.feature_names.tags@.len() == 0 || self.feature_names.tags@.len() == self.records.ncols@)
    }
    #[verifier::external_body]
    pub fn ntargets(&self) -> (r: usize) ensures r == self.targets.ncols@ { unimplemented!() }
    #[verifier::external_body]
    pub fn nfeatures(&self) -> (r: usize) ensures r == self.records.ncols@ { unimplemented!() }
}

pub struct DatasetIterV<'b> { pub dataset: &'b DatasetV, pub idx: usize, pub target_or_feature: bool }
impl<'b> DatasetIterV<'b> {
    pub fn vacuity_guard_next(&mut self) -> (r: Option<DatasetV>)
        requires old(self).dataset.wf(), old(self).idx < usize::MAX,
        ensures false,
    {
        None
    }
    // ---- DatasetIter::next, body extracted from /repo on every run (the extracted text also closes the fn and the impl) ----
    // contract (C02, per-target / per-feature iteration): item number j carries ALL records and target column j (resp. record column j and
    // ALL targets), the sample weights, the names of the untouched side unchanged, and - whenever it carries a name for the selected
    // column - that name is the one of column j; exactly ntargets (resp. nfeatures) items are produced
    pub fn next(&mut self) -> (r: Option<DatasetV>)
        requires old(self).dataset.wf(), old(self).idx < usize::MAX,
        ensures
            final(self).dataset == old(self).dataset, final(self).target_or_feature == old(self).target_or_feature,
            ({
                let d = old(self).dataset; let j = old(self).idx as int;
                let count = if old(self).target_or_feature { d.records.ncols@ } else { d.targets.ncols@ };
                &&& r.is_none() <==> j >= count
                &&& r.is_none() ==> final(self).idx == old(self).idx
                &&& r.is_some() ==> {
                    let v = r.unwrap();
                    &&& final(self).idx == old(self).idx + 1
                    &&& v.records.id@ == d.records.id@ && v.targets.id@ == d.targets.id@ && v.weights.id@ == d.weights.id@
                    &&& !old(self).target_or_feature ==> (if d.targets.ndim@ == 2 { v.targets.col@ == Some(j) } else { v.targets.col@ is None }) && v.records.col@ is None
                          && v.feature_names.tags@ == d.feature_names.tags@
                          && (v.target_names.tags@.len() == 0 || v.target_names.tags@ == seq![d.target_names.tags@[j]])
                    &&& old(self).target_or_feature ==> v.records.col@ == Some(j) && v.targets.col@ is None
                          && v.target_names.tags@ == d.target_names.tags@
                          && (v.feature_names.tags@.len() == 0 || v.feature_names.tags@ == seq![d.feature_names.tags@[j]])
                }
            }),
    {
/*@NEXT*/
} // verus!
fn main() {}
