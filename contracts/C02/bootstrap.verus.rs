//! property: C02
//! unit: V-C02-bootstrap-draw
//! tier: quick
//! fns: linfa::DatasetBase::bootstrap (one draw: sample indices, feature indices, which select gets which list), linfa::DatasetBase::bootstrap_samples (one draw)
//@ extract BOTH from src/dataset/impl_dataset.rs anchor "let indices = (0..sample_feature_size.0)" until "        })" after "pub fn bootstrap<R: Rng>("
//@ rewrite BOTH "let indices = (0..sample_feature_size.0)" => "let indices = draw_abs(rng, sample_feature_size.0,   /* (0..sample_feature_size.0)"
//@ rewrite BOTH ".map(|_| rng.gen_range(0..self.nsamples()))" => ".map(|_| rng.gen_range( */ self.nsamples()   /* ))"
//@ rewrite BOTH "let indices = (0..sample_feature_size.1)" => "let indices = draw_abs(rng, sample_feature_size.1,   /* (0..sample_feature_size.1)"
//@ rewrite BOTH ".map(|_| rng.gen_range(0..self.nfeatures()))" => ".map(|_| rng.gen_range( */ self.nfeatures()   /* ))"
//@ rewrite BOTH ".collect::<Vec<_>>();" => ".collect::<Vec<_>>() */ );"
//@ rewrite BOTH "Axis(0)" => "Axis::Rows"
//@ rewrite BOTH "Axis(1)" => "Axis::Cols"
//@ rewrite BOTH "T::new_targets(" => "new_targets("
//@ rewrite BOTH "DatasetBase::new(" => "DatasetV::new("
//@ extract SAMPLES from src/dataset/impl_dataset.rs anchor "let indices = (0..num_samples)" until "        })" after "pub fn bootstrap_samples<R: Rng>("
//@ rewrite SAMPLES "let indices = (0..num_samples)" => "let indices = draw_abs(rng, num_samples,   /* (0..num_samples)"
//@ rewrite SAMPLES ".map(|_| rng.gen_range(0..self.nsamples()))" => ".map(|_| rng.gen_range( */ self.nsamples()   /* ))"
//@ rewrite SAMPLES ".collect::<Vec<_>>();" => ".collect::<Vec<_>>() */ );"
//@ rewrite SAMPLES "Axis(0)" => "Axis::Rows"
//@ rewrite SAMPLES "T::new_targets(" => "new_targets("
//@ rewrite SAMPLES "DatasetBase::new(" => "DatasetV::new("
//@ expect-fail vacuity_guard_bootstrap
use vstd::prelude::*;
verus! {
pub enum Axis { Rows, Cols }
pub struct RngTok { pub calls: Ghost<int> }
// `count` draws of rng.gen_range(0..bound) (ASSUMED of rand: every value below the bound); each list has its own identity
pub struct IdxList { pub id: Ghost<int>, pub len: Ghost<int>, pub bound: Ghost<int> }
#[verifier::external_body]
pub fn draw_abs(rng: &mut RngTok, count: usize, bound: usize) -> (r: IdxList)
    requires bound > 0 || count == 0,                                    // gen_range(0..0) panics
    ensures r.id@ == old(rng).calls@, final(rng).calls@ == old(rng).calls@ + 1, r.len@ == count, r.bound@ == bound,
{ unimplemented!() }
// an array: which source, and which index lists were applied to its rows / columns (None = all, in order)
pub struct ArrTok { pub src: Ghost<int>, pub nrows: Ghost<int>, pub ncols: Ghost<int>, pub rows: Ghost<Option<int>>, pub cols: Ghost<Option<int>> }
impl ArrTok {
    // ndarray select(axis, indices): panics when an index is out of bounds for that axis
    #[verifier::external_body]
    pub fn select(&self, ax: Axis, ix: &IdxList) -> (r: ArrTok)
        requires ax is Rows ==> ix.bound@ <= self.nrows@ && self.rows@ is None, ax is Cols ==> ix.bound@ <= self.ncols@ && self.cols@ is None,
        ensures r.src@ == self.src@,
            ax is Rows ==> r.rows@ == Some(ix.id@) && r.cols@ == self.cols@ && r.nrows@ == ix.len@ && r.ncols@ == self.ncols@,
            ax is Cols ==> r.cols@ == Some(ix.id@) && r.rows@ == self.rows@ && r.ncols@ == ix.len@ && r.nrows@ == self.nrows@,
    { unimplemented!() }
}
pub fn new_targets(t: ArrTok) -> (r: ArrTok) ensures r == t { t }
pub struct DatasetV { pub records: ArrTok, pub targets: ArrTok }
impl DatasetV { pub fn new(records: ArrTok, targets: ArrTok) -> (r: DatasetV) ensures r.records == records, r.targets == targets { DatasetV { records, targets } } }
pub struct SelfV { pub records: ArrTok, pub targets: ArrTok }
impl SelfV {
    pub open spec fn wf(&self) -> bool { self.records.rows@ is None && self.records.cols@ is None && self.targets.rows@ is None && self.targets.cols@ is None && self.records.nrows@ == self.targets.nrows@ && 0 <= self.records.nrows@ <= usize::MAX && 0 <= self.records.ncols@ <= usize::MAX }
    #[verifier::external_body] pub fn nsamples(&self) -> (r: usize) requires self.wf(), ensures r == self.records.nrows@ { unimplemented!() }
    #[verifier::external_body] pub fn nfeatures(&self) -> (r: usize) requires self.wf(), ensures r == self.records.ncols@ { unimplemented!() }
    pub fn records(&self) -> (r: &ArrTok) ensures *r == self.records { &self.records }
    #[verifier::external_body] pub fn as_targets(&self) -> (r: ArrTok) ensures r == self.targets { unimplemented!() }

    // ---- one draw of bootstrap (samples and features), closure body extracted from /repo on every run ----
    // C02 "bootstrap draws only existing samples and features" and every row keeps its own target: the records and the targets are cut by the
    // SAME list of sample indices (all below nsamples), the records additionally by a list of feature indices (all below nfeatures); the
    // targets keep all their columns
    pub fn bootstrap_draw(&self, sample_feature_size: (usize, usize), rng: &mut RngTok) -> (r: DatasetV)
        requires self.wf(), self.records.nrows@ > 0 || sample_feature_size.0 == 0, self.records.ncols@ > 0 || sample_feature_size.1 == 0,
        ensures r.records.src@ == self.records.src@, r.targets.src@ == self.targets.src@,
            r.records.rows@ is Some && r.targets.rows@ == r.records.rows@,            // same sample list for both
            r.records.cols@ is Some && r.targets.cols@ is None && r.records.cols@ != r.records.rows@,
            r.records.nrows@ == sample_feature_size.0 && r.targets.nrows@ == sample_feature_size.0 && r.records.ncols@ == sample_feature_size.1,
    {
/*@BOTH*/
    }
    // ---- one draw of bootstrap_samples ----
    pub fn bootstrap_samples_draw(&self, num_samples: usize, rng: &mut RngTok) -> (r: DatasetV)
        requires self.wf(), self.records.nrows@ > 0 || num_samples == 0,
        ensures r.records.src@ == self.records.src@, r.targets.src@ == self.targets.src@, r.records.rows@ is Some && r.targets.rows@ == r.records.rows@,
            r.records.cols@ is None && r.targets.cols@ is None, r.records.nrows@ == num_samples && r.targets.nrows@ == num_samples,
    {
/*@SAMPLES*/
    }
    pub fn vacuity_guard_bootstrap(&self, num_samples: usize, rng: &mut RngTok) -> (r: DatasetV)
        requires self.wf(), self.records.nrows@ > 0 || num_samples == 0,
        ensures false,
    {
        self.bootstrap_samples_draw(num_samples, rng)
    }
}
} // verus!
fn main() {}
