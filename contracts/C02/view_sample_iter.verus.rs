//! property: C02
//! unit: V-C02-view-sample-iter
//! tier: quick
//! fns: linfa::dataset::DatasetBase::view, linfa::dataset::iter::Iter::next (per-sample iteration)
//@ extract VIEW from src/dataset/impl_dataset.rs anchor "pub fn view(&'a self) -> DatasetBase<ArrayView2<'a, F>, T::View> {" body
//@ rewrite VIEW "T::new_targets_view(self.as_targets())" => "new_targets_view(self.as_targets())"
//@ rewrite VIEW "DatasetBase::new(" => "DatasetV::new("
//@ extract SNEXT from src/dataset/iter.rs anchor "if self.records.nsamples() <= self.idx {" until "#[derive(Clone, Debug)]"
//@ rewrite SNEXT "Axis(0)" => "Axis0"
//@ expect-fail vacuity_guard_view
use vstd::prelude::*;
verus! {
pub struct Axis0;
// a 2-D array / view is its identity; a row view is (identity, row index)
pub struct ArrTok { pub id: Ghost<int>, pub nrows: Ghost<int> }
pub struct RowTok { pub of: Ghost<int>, pub row: Ghost<int> }
pub struct WTok { pub id: Ghost<int> }
pub struct NamesTok { pub id: Ghost<int> }
impl ArrTok {
    #[verifier::external_body]
    pub fn view(&self) -> (r: ArrTok) ensures r.id@ == self.id@, r.nrows@ == self.nrows@ { unimplemented!() }
    #[verifier::external_body]
    pub fn reborrow(&self) -> (r: ArrTok) ensures r.id@ == self.id@, r.nrows@ == self.nrows@ { unimplemented!() }
    #[verifier::external_body]
    pub fn clone(&self) -> (r: ArrTok) ensures r.id@ == self.id@, r.nrows@ == self.nrows@ { unimplemented!() }
    #[verifier::external_body]
    pub fn nsamples(&self) -> (r: usize) ensures r == self.nrows@ { unimplemented!() }
    // ndarray index_axis_move(Axis(0), i): row i (panics out of range)
    #[verifier::external_body]
    pub fn index_axis_move(self, _a: Axis0, i: usize) -> (r: RowTok) requires i < self.nrows@, ensures r.of@ == self.id@, r.row@ == i { unimplemented!() }
}
impl WTok { #[verifier::external_body] pub fn clone(&self) -> (r: WTok) ensures r.id@ == self.id@ { unimplemented!() } }
impl NamesTok { #[verifier::external_body] pub fn clone(&self) -> (r: NamesTok) ensures r.id@ == self.id@ { unimplemented!() } }
pub fn new_targets_view(t: ArrTok) -> (r: ArrTok) ensures r.id@ == t.id@, r.nrows@ == t.nrows@ { t }

pub struct DatasetV { pub records: ArrTok, pub targets: ArrTok, pub weights: WTok, pub feature_names: NamesTok, pub target_names: NamesTok }
impl DatasetV {
    pub fn records(&self) -> (r: &ArrTok) ensures r.id@ == self.records.id@, r.nrows@ == self.records.nrows@ { &self.records }
    #[verifier::external_body]
    pub fn as_targets(&self) -> (r: ArrTok) ensures r.id@ == self.targets.id@, r.nrows@ == self.targets.nrows@ { unimplemented!() }
    #[verifier::external_body]
    pub fn new(records: ArrTok, targets: ArrTok) -> (r: DatasetV)          // DatasetBase::new: no weights, no names (id 0)
        ensures r.records.id@ == records.id@, r.targets.id@ == targets.id@, r.weights.id@ == 0, r.feature_names.id@ == 0, r.target_names.id@ == 0,
    { unimplemented!() }
    pub fn with_weights(self, w: WTok) -> (r: DatasetV)
        ensures r.records.id@ == self.records.id@, r.targets.id@ == self.targets.id@, r.weights.id@ == w.id@, r.feature_names.id@ == self.feature_names.id@, r.target_names.id@ == self.target_names.id@,
    { DatasetV { records: self.records, targets: self.targets, weights: w, feature_names: self.feature_names, target_names: self.target_names } }
    pub fn with_feature_names(self, n: NamesTok) -> (r: DatasetV)
        ensures r.records.id@ == self.records.id@, r.targets.id@ == self.targets.id@, r.weights.id@ == self.weights.id@, r.feature_names.id@ == n.id@, r.target_names.id@ == self.target_names.id@,
    { DatasetV { records: self.records, targets: self.targets, weights: self.weights, feature_names: n, target_names: self.target_names } }
    pub fn with_target_names(self, n: NamesTok) -> (r: DatasetV)
        ensures r.records.id@ == self.records.id@, r.targets.id@ == self.targets.id@, r.weights.id@ == self.weights.id@, r.feature_names.id@ == self.feature_names.id@, r.target_names.id@ == n.id@,
    { DatasetV { records: self.records, targets: self.targets, weights: self.weights, feature_names: self.feature_names, target_names: n } }

    // ---- DatasetBase::view, body extracted ----
    // contract (C02 "views"): the view shows the same records and targets and carries the same weights and both name lists
    pub fn view(&self) -> (r: DatasetV)
        ensures r.records.id@ == self.records.id@, r.targets.id@ == self.targets.id@, r.weights.id@ == self.weights.id@,
            r.feature_names.id@ == self.feature_names.id@, r.target_names.id@ == self.target_names.id@,
    {
/*@VIEW*/
    }
    pub fn vacuity_guard_view(&self) -> (r: DatasetV) ensures false { DatasetV::new(self.records.clone(), self.targets.clone()) }
}

pub struct IterV { pub records: ArrTok, pub targets: ArrTok, pub idx: usize }
impl IterV {
    // ---- Iter::next, body extracted (the extracted text also closes the fn and the impl) ----
    // contract (C02 per-sample iteration): item number i is (record row i, target row i) of the SAME index, in order, exactly n items
    pub fn next(&mut self) -> (r: Option<(RowTok, RowTok)>)
        requires old(self).records.nrows@ == old(self).targets.nrows@, old(self).idx < usize::MAX,
        ensures
            r.is_none() <==> old(self).idx >= old(self).records.nrows@,
            r.is_none() ==> final(self).idx == old(self).idx,
            r.is_some() ==> final(self).idx == old(self).idx + 1
                && r.unwrap().0.of@ == old(self).records.id@ && r.unwrap().0.row@ == old(self).idx
                && r.unwrap().1.of@ == old(self).targets.id@ && r.unwrap().1.row@ == old(self).idx,
            final(self).records.id@ == old(self).records.id@, final(self).targets.id@ == old(self).targets.id@,
            final(self).records.nrows@ == old(self).records.nrows@, final(self).targets.nrows@ == old(self).targets.nrows@,
    {
/*@SNEXT*/
} // verus!
fn main() {}
