//! property: C02
//! unit: V-C02-split-view
//! tier: quick
//! fns: linfa::DatasetBase::split_with_ratio (view variant: records, targets and weights are cut at the same row; names carried over)
//@ extract SV from src/dataset/impl_dataset.rs anchor "let n = (" until "(dataset1, dataset2)"
//@ rewrite SV "(self.nsamples() as f32 * ratio).ceil() as usize" => "ceil_product_abs(self.nsamples(), ratio)   /* (self.nsamples() as f32 * ratio).ceil() as usize */"
//@ rewrite SV "Axis(0)" => "Axis0"
//@ rewrite SV "T::new_targets_view(" => "new_targets_view("
//@ rewrite? SV "self.weights.slice(s![..n]).to_vec()" => "self.weights.head_abs(n)   /* self.weights.slice(s![..n]).to_vec() */"
//@ rewrite? SV "self.weights.slice(s![n..]).to_vec()" => "self.weights.tail_abs(n)   /* self.weights.slice(s![n..]).to_vec() */"
//@ rewrite SV "Array1::from(a), Array1::from(b)" => "a, b   /* Array1::from(a), Array1::from(b) */"
//@ rewrite SV "Array1::zeros(0), Array1::zeros(0)" => "WTok::none(), WTok::none()"
//@ rewrite SV "DatasetBase::new(" => "DatasetV::new("
//@ expect-fail vacuity_guard_split_view
use vstd::prelude::*;
verus! {
pub struct Axis0;
pub struct RatioTok;
// (n as f32 * ratio).ceil() as usize: an arbitrary count (n as f32 may round up beyond 2^24 samples); the code clamps it with `.min(nsamples)`
#[verifier::external_body]
pub fn ceil_product_abs(n: usize, r: RatioTok) -> (k: usize) { unimplemented!() }
// an array / view: source identity and the row range [lo, hi) of the source it shows
pub struct ArrTok { pub src: Ghost<int>, pub lo: Ghost<int>, pub hi: Ghost<int> }
impl ArrTok {
    #[verifier::external_body] pub fn view(&self) -> (r: ArrTok) ensures r == *self { unimplemented!() }
    // ndarray split_at(Axis(0), n): panics when n exceeds the number of rows
    #[verifier::external_body]
    pub fn split_at(self, ax: Axis0, n: usize) -> (r: (ArrTok, ArrTok))
        requires n <= self.hi@ - self.lo@,
        ensures r.0.src@ == self.src@ && r.0.lo@ == self.lo@ && r.0.hi@ == self.lo@ + n, r.1.src@ == self.src@ && r.1.lo@ == self.lo@ + n && r.1.hi@ == self.hi@,
    { unimplemented!() }
}
pub fn new_targets_view(t: ArrTok) -> (r: ArrTok) ensures r == t { t }
pub struct TargetsV { pub a: ArrTok }
impl TargetsV { #[verifier::external_body] pub fn as_targets(&self) -> (r: ArrTok) ensures r == self.a { unimplemented!() } }
// weights: none (length 0), or the rows [lo, hi) of the source weight vector
pub struct WTok { pub len: Ghost<int>, pub lo: Ghost<int>, pub hi: Ghost<int> }
impl WTok {
    pub fn none() -> (r: WTok) ensures r.len@ == 0 { WTok { len: Ghost(0), lo: Ghost(0), hi: Ghost(0) } }
    #[verifier::external_body] pub fn len(&self) -> (r: usize) ensures r == self.len@ { unimplemented!() }
    #[verifier::external_body] pub fn head_abs(&self, n: usize) -> (r: WTok) requires n <= self.len@, ensures r.len@ == n, r.lo@ == self.lo@, r.hi@ == self.lo@ + n { unimplemented!() }
    #[verifier::external_body] pub fn tail_abs(&self, n: usize) -> (r: WTok) requires n <= self.len@, ensures r.len@ == self.len@ - n, r.lo@ == self.lo@ + n, r.hi@ == self.hi@ { unimplemented!() }
}
pub struct NamesTok { pub id: Ghost<int> }
impl NamesTok { #[verifier::external_body] pub fn clone(&self) -> (r: NamesTok) ensures r.id@ == self.id@ { unimplemented!() } }
pub struct DatasetV { pub records: ArrTok, pub targets: ArrTok, pub weights: WTok, pub feature_names: NamesTok, pub target_names: NamesTok }
impl DatasetV {
    #[verifier::external_body]
    pub fn new(records: ArrTok, targets: ArrTok) -> (r: DatasetV) ensures r.records == records, r.targets == targets, r.weights.len@ == 0, r.feature_names.id@ == 0, r.target_names.id@ == 0 { unimplemented!() }
    pub fn with_weights(self, w: WTok) -> (r: DatasetV) ensures r.records == self.records, r.targets == self.targets, r.weights == w, r.feature_names.id@ == self.feature_names.id@, r.target_names.id@ == self.target_names.id@
    { DatasetV { records: self.records, targets: self.targets, weights: w, feature_names: self.feature_names, target_names: self.target_names } }
    pub fn with_feature_names(self, n: NamesTok) -> (r: DatasetV) ensures r.records == self.records, r.targets == self.targets, r.weights == self.weights, r.feature_names.id@ == n.id@, r.target_names.id@ == self.target_names.id@
    { DatasetV { records: self.records, targets: self.targets, weights: self.weights, feature_names: n, target_names: self.target_names } }
    pub fn with_target_names(self, n: NamesTok) -> (r: DatasetV) ensures r.records == self.records, r.targets == self.targets, r.weights == self.weights, r.feature_names.id@ == self.feature_names.id@, r.target_names.id@ == n.id@
    { DatasetV { records: self.records, targets: self.targets, weights: self.weights, feature_names: self.feature_names, target_names: n } }
}
pub struct SelfV { pub records: ArrTok, pub targets: TargetsV, pub weights: WTok, pub feature_names: NamesTok, pub target_names: NamesTok, pub n: Ghost<int> }
impl SelfV {
    pub open spec fn wf(&self) -> bool {
        self.records.lo@ == 0 && self.records.hi@ == self.n@ && self.targets.a.lo@ == 0 && self.targets.a.hi@ == self.n@ && 0 <= self.n@ <= usize::MAX
        && self.weights.lo@ == 0 && self.weights.hi@ == self.weights.len@ && (self.weights.len@ == 0 || self.weights.len@ == self.n@ || self.weights.len@ >= 0)
    }
    #[verifier::external_body] pub fn nsamples(&self) -> (r: usize) requires self.wf(), ensures r == self.n@ { unimplemented!() }

    // ---- split_with_ratio on a view, body extracted from /repo on every run ----
    // C02: the first part shows rows [0, n1) and the second rows [n1, n) of records AND targets (same cut), each weight stays with its row
    // when weights are carried, and both parts carry the names
    pub fn split_with_ratio(&self, ratio: RatioTok) -> (r: (DatasetV, DatasetV))
        requires self.wf(),
        ensures r.0.records.lo@ == 0 && r.0.records.hi@ == r.1.records.lo@ && r.1.records.hi@ == self.n@,
            r.0.targets.lo@ == r.0.records.lo@ && r.0.targets.hi@ == r.0.records.hi@ && r.1.targets.lo@ == r.1.records.lo@ && r.1.targets.hi@ == r.1.records.hi@,
            r.0.records.src@ == self.records.src@ && r.1.records.src@ == self.records.src@ && r.0.targets.src@ == self.targets.a.src@ && r.1.targets.src@ == self.targets.a.src@,
            self.weights.len@ == self.n@ ==> r.0.weights.lo@ == r.0.records.lo@ && r.0.weights.hi@ == r.0.records.hi@ && r.1.weights.lo@ == r.1.records.lo@ && r.1.weights.hi@ == r.1.records.hi@,
            self.weights.len@ != self.n@ ==> r.0.weights.len@ == 0 && r.1.weights.len@ == 0,
            r.0.feature_names.id@ == self.feature_names.id@ && r.1.feature_names.id@ == self.feature_names.id@ && r.0.target_names.id@ == self.target_names.id@ && r.1.target_names.id@ == self.target_names.id@,
    {
/*@SV*/
        (dataset1, dataset2)
    }
    pub fn vacuity_guard_split_view(&self, ratio: RatioTok) -> (r: (DatasetV, DatasetV))
        requires self.wf(),
        ensures false,
    {
        let a = DatasetV::new(self.records.view(), self.targets.as_targets());
        let b = DatasetV::new(self.records.view(), self.targets.as_targets());
        (a, b)
    }
}
} // verus!
fn main() {}
