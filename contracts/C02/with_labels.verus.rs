//! property: C02
//! unit: V-C02-label-filter
//! tier: quick
//! fns: linfa::DatasetBase::with_labels (the row filter: which records, targets and weights are kept, in which order, and which rows are counted)
//@ extract WL from src/dataset/impl_targets.rs anchor "let mut records_arr = Vec::new();" until "let nsamples = records_arr.len();"
//@ rewrite WL "let mut records_arr = Vec::new();" => "let mut records_arr: Vec<RowTok> = Vec::new();"
//@ rewrite WL "let mut targets_arr = Vec::new();" => "let mut targets_arr: Vec<RowTok> = Vec::new();"
//@ rewrite WL "let mut weights = Vec::new();" => "let mut weights: Vec<WTok> = Vec::new();"
//@ rewrite WL "vec![HashMap::new(); self.ntargets()]" => "CountsTok::new(self.ntargets())"
//@ rewrite? WL "for (i, (r, t)) in self" => "for i in 0..n /* index loop in place of the zipped row iterators: for (i, (r, t)) in self"
//@ rewrite? WL "for (r, t) in self" => "for i in 0..n /* index loop in place of the zipped row iterators: for (r, t) in self"
//@ rewrite WL ".zip(targets.axis_iter(Axis(0)))" => ".zip(targets.axis_iter(Axis(0))) */"
//@ rewrite? WL ".enumerate()" => "/* .enumerate() */"
//@ insert WL after "        {" : let r = self.record_row_tok(i); let t = targets.target_row_tok(i);
//@ insert WL before-brace "        {" : invariant n == self.n@, map.rows@ == kept_upto(i as int), rows_of(records_arr@) == kept_upto(i as int), rows_of(targets_arr@) == kept_upto(i as int), targets.id@ == self.targets_id@, (forall|j: int| 0 <= j < records_arr@.len() ==> (#[trigger] records_arr@[j]).of@ == self.records_id@), (forall|j: int| 0 <= j < targets_arr@.len() ==> (#[trigger] targets_arr@[j]).of@ == self.targets_id@), old_weights is Some ==> old_weights.unwrap()@.len() == n && wids_of(weights@) == kept_upto(i as int) && (forall|s: int| 0 <= s < n ==> (#[trigger] old_weights.unwrap()@[s]).sample@ == s), old_weights is None ==> weights@.len() == 0,
//@ rewrite WL "t.iter().any(|a| labels.contains(a))" => "t.any_label_in(labels)   /* t.iter().any(|a| labels.contains(a)) */"
//@ drop WL from "for (map, val) in map.iter_mut().zip(t.iter()) {" through "*map.entry(*val).or_insert(0) += 1;" as "                map.count_row_abs(&t); {   /* dropped: for (map, val) in map.iter_mut().zip(t.iter()) { *map.entry(*val).or_insert(0) += 1; */"
//@ expect-fail vacuity_guard_with_labels
use vstd::prelude::*;
verus! {
// ---- tokens: a row view is (which array, which sample); a weight is the sample it belongs to ----
#[derive(Clone, Copy)]
pub struct RowTok { pub of: Ghost<int>, pub sample: Ghost<int> }
#[derive(Clone, Copy)]
pub struct WTok { pub sample: Ghost<int> }
pub struct LabelsTok;
pub uninterp spec fn spec_has_label(sample: int) -> bool;             // any target of this sample is in `labels`
impl RowTok {
    #[verifier::external_body]
    pub fn any_label_in(&self, labels: &LabelsTok) -> (r: bool) ensures r == spec_has_label(self.sample@) { unimplemented!() }
}
// the samples kept among 0..i, in order
pub open spec fn kept_upto(i: int) -> Seq<int> decreases i {
    if i <= 0 { Seq::empty() } else if spec_has_label(i - 1) { kept_upto(i - 1).push(i - 1) } else { kept_upto(i - 1) }
}
pub open spec fn rows_of(v: Seq<RowTok>) -> Seq<int> { Seq::new(v.len(), |j: int| v[j].sample@) }
pub open spec fn wids_of(v: Seq<WTok>) -> Seq<int> { Seq::new(v.len(), |j: int| v[j].sample@) }
// the per-target-column label counters: which rows have been counted, in order
pub struct CountsTok { pub rows: Ghost<Seq<int>> }
impl CountsTok {
    #[verifier::external_body]
    pub fn new(ntargets: usize) -> (r: CountsTok) ensures r.rows@ == Seq::<int>::empty() { unimplemented!() }
    #[verifier::external_body]
    pub fn count_row_abs(&mut self, t: &RowTok) ensures final(self).rows@ == old(self).rows@.push(t.sample@) { unimplemented!() }
}
pub struct TargetsV { pub id: Ghost<int> }
impl TargetsV {
    #[verifier::external_body]
    pub fn target_row_tok(&self, i: usize) -> (r: RowTok) ensures r.of@ == self.id@, r.sample@ == i { unimplemented!() }
}
pub struct DatasetV { pub n: Ghost<int>, pub records_id: Ghost<int>, pub targets_id: Ghost<int> }
impl DatasetV {
    #[verifier::external_body]
    pub fn ntargets(&self) -> (r: usize) { unimplemented!() }
    #[verifier::external_body]
    pub fn record_row_tok(&self, i: usize) -> (r: RowTok) requires i < self.n@, ensures r.of@ == self.records_id@, r.sample@ == i { unimplemented!() }

    // ---- with_labels: buffers and the filtering loop, extracted from /repo on every run ----
    // C02 "label filtering keeps exactly the samples carrying one of the listed labels (and reports their label counts)" and every kept
    // row's record, target and weight belong to the same original sample
    pub fn with_labels_loop(&self, n: usize, targets: &TargetsV, old_weights: Option<&Vec<WTok>>, labels: &LabelsTok) -> (r: (Vec<RowTok>, Vec<RowTok>, Vec<WTok>, CountsTok))
        requires n == self.n@, targets.id@ == self.targets_id@,
            old_weights is Some ==> old_weights.unwrap()@.len() == n && (forall|s: int| 0 <= s < n ==> (#[trigger] old_weights.unwrap()@[s]).sample@ == s),
        ensures
            rows_of(r.0@) == kept_upto(n as int), rows_of(r.1@) == kept_upto(n as int),             // record j and target j of the result: the j-th kept sample
            old_weights is Some ==> wids_of(r.2@) == kept_upto(n as int),                             // ... and so is weight j
            old_weights is None ==> r.2@.len() == 0,
            r.3.rows@ == kept_upto(n as int),                                                         // exactly the kept rows are counted
            forall|j: int| 0 <= j < r.0@.len() ==> (#[trigger] r.0@[j]).of@ == self.records_id@,
            forall|j: int| 0 <= j < r.1@.len() ==> (#[trigger] r.1@[j]).of@ == self.targets_id@,
    {
/*@WL*/
        (records_arr, targets_arr, weights, map)
    }
    pub fn vacuity_guard_with_labels(&self, n: usize, targets: &TargetsV, old_weights: Option<&Vec<WTok>>, labels: &LabelsTok) -> (r: (Vec<RowTok>, Vec<RowTok>, Vec<WTok>, CountsTok))
        requires n == self.n@, targets.id@ == self.targets_id@,
            old_weights is Some ==> old_weights.unwrap()@.len() == n && (forall|s: int| 0 <= s < n ==> (#[trigger] old_weights.unwrap()@[s]).sample@ == s),
        ensures false,
    {
        (Vec::new(), Vec::new(), Vec::new(), CountsTok::new(0))
    }
}
} // verus!
fn main() {}
