//! property: C02
//! attach: src/dataset/impl_dataset.rs
//! module: vk_c02_select
// @include common/prelude.rs
// @include C02/helpers.rs
use super::*;
use ndarray::{Ix1, Ix2};
use rand::{rngs::SmallRng, SeedableRng};

// ---------------------------------------------------------------------------------------------
// Contracts of the index-selecting operations, from the property statement:
//   shuffle            : result = a permutation of ALL samples; record row and target(s) of every result row
//                        belong to the same original sample; per-column names are the original ones; weights,
//                        if carried, belong to the same sample
//   bootstrap_samples  : every result row is an existing sample, whole (all features in order, its own target)
//   bootstrap_features : all samples in order with their own targets; every result column is an existing
//                        feature column, whole
//   bootstrap          : every result row is an existing sample restricted to a selection of existing feature
//                        columns that is the same for all rows; target is the sample's own
// The random generator is the concrete `SmallRng` seeded with 0..3 (a symbolic generator makes the
// rejection loop of `gen_range` unbounded); the datasets are identity-tagged (helpers.rs).
// ---------------------------------------------------------------------------------------------

fn c02_tagged1(n: usize, p: usize) -> Dataset<u8, u8, Ix1> {
    Dataset::new(c02_records(n, p), c02_targets1(n))
        .with_weights(c02_weights(n))
        .with_feature_names(C02_FNAMES[..p].to_vec())
        .with_target_names(C02_TNAMES[..1].to_vec())
}
fn c02_tagged2(n: usize, p: usize, m: usize) -> Dataset<u8, u8, Ix2> {
    Dataset::new(c02_records(n, p), c02_targets2(n, m))
        .with_weights(c02_weights(n))
        .with_feature_names(C02_FNAMES[..p].to_vec())
        .with_target_names(C02_TNAMES[..m].to_vec())
}

/// which original sample does result row j come from?  (read off the target tag; must be an existing sample)
fn c02_origin1(out: &Dataset<u8, u8, Ix1>, j: usize, n: usize) -> usize {
    let t = out.targets[j];
    assert!(t >= 100 && (t as usize) < 100 + n);      // "draws only existing samples"
    t as usize - 100
}

/// returns true iff the result order differs from the input order
fn c02_check_shuffle<const N: usize>(seed: u64) -> bool {
    let ds = c02_tagged1(N, 2);
    let mut rng = SmallRng::seed_from_u64(seed);
    let out = ds.shuffle(&mut rng);
    assert!(out.records.dim() == (N, 2) && out.targets.len() == N);
    let mut seen = [false; N];
    let mut moved = false;
    for j in 0..N {
        let i = c02_origin1(&out, j, N);
        assert!(!seen[i]);                             // no sample twice => (N rows, N samples) a permutation of all
        seen[i] = true;
        assert!(out.records[(j, 0)] == (10 * i) as u8 && out.records[(j, 1)] == (10 * i + 1) as u8);
        if out.weights.len() != 0 { assert!(out.weights.len() == N && out.weights[j] == 0.5 + i as f32); }
        if i != j { moved = true; }
    }
    assert!(out.feature_names().is_empty() || (out.feature_names().len() == 2 && out.feature_names()[0] == "f0" && out.feature_names()[1] == "f1"));
    assert!(out.target_names().is_empty() || (out.target_names().len() == 1 && out.target_names()[0] == "t0"));
    // input untouched
    for i in 0..N { assert!(ds.records[(i, 0)] == (10 * i) as u8 && ds.targets[i] == (100 + i) as u8); }
    moved
}

// @unit class=bounded tier=quick mem=light bound="n=4,p=2,single target,weights+names,SmallRng seeds 0 and 1" timeout=900 fns=linfa::dataset::DatasetBase::shuffle
#[kani::proof]
#[kani::unwind(9)]
#[kani::stub(alloc::fmt::format, fmt_stub)]
fn c02_shuffle_seed01() {
    let m0 = c02_check_shuffle::<4>(0);
    let m1 = c02_check_shuffle::<4>(1);
    kani::cover!(m0 || m1);
}

// @unit class=bounded tier=thorough mem=light bound="n=4,p=2,single target,weights+names,SmallRng seeds 2 and 3" timeout=900 fns=linfa::dataset::DatasetBase::shuffle
#[kani::proof]
#[kani::unwind(9)]
#[kani::stub(alloc::fmt::format, fmt_stub)]
fn c02_shuffle_seed23() {
    let m2 = c02_check_shuffle::<4>(2);
    let m3 = c02_check_shuffle::<4>(3);
    kani::cover!(m2 || m3);
}

// @unit class=bounded tier=thorough mem=light bound="n=3,p=1,2 target columns,names,SmallRng seeds 0..3" timeout=900 fns=linfa::dataset::DatasetBase::shuffle
#[kani::proof]
#[kani::unwind(9)]
#[kani::stub(alloc::fmt::format, fmt_stub)]
fn c02_shuffle_mt() {
    let mut moved = false;
    for seed in 0..4u64 {
        let ds = c02_tagged2(3, 1, 2);
        let mut rng = SmallRng::seed_from_u64(seed);
        let out = ds.shuffle(&mut rng);
        assert!(out.records.dim() == (3, 1) && out.targets.dim() == (3, 2));
        let mut seen = [false; 3];
        for j in 0..3 {
            let r = out.records[(j, 0)];
            assert!(r % 10 == 0 && r < 30);
            let i = (r / 10) as usize;
            assert!(!seen[i]);
            seen[i] = true;
            assert!(out.targets[(j, 0)] == (100 + i) as u8 && out.targets[(j, 1)] == (150 + i) as u8);
            if out.weights.len() != 0 { assert!(out.weights.len() == 3 && out.weights[j] == 0.5 + i as f32); }
            if i != j { moved = true; }
        }
        assert!(out.target_names().is_empty() || (out.target_names().len() == 2 && out.target_names()[0] == "t0" && out.target_names()[1] == "t1"));
        assert!(out.feature_names().is_empty() || (out.feature_names().len() == 1 && out.feature_names()[0] == "f0"));
    }
    kani::cover!(moved);
}

/// every row of `out` is sample i(row) of the tagged dataset restricted to columns cols[..] (same for all rows);
/// returns true iff some sample occurs twice
fn c02_post_bootstrap(out: &Dataset<u8, u8, Ix1>, n: usize, p: usize, want_rows: usize, want_cols: usize, whole_rows: bool, all_samples_in_order: bool) -> bool {
    assert!(out.records.dim() == (want_rows, want_cols) && out.targets.len() == want_rows);
    let mut count = [0usize; 8];
    let mut dup = false;
    for j in 0..want_rows {
        let i = c02_origin1(out, j, n);
        if all_samples_in_order { assert!(i == j); }
        count[i] += 1;
        if count[i] > 1 { dup = true; }
        for c in 0..want_cols {
            let i0 = c02_origin1(out, 0, n);
            let q = out.records[(0, c)].wrapping_sub((10 * i0) as u8);     // which original column is result column c (read off row 0)
            assert!((q as usize) < p);                                     // "draws only existing features"
            if whole_rows { assert!(q as usize == c); }
            assert!(out.records[(j, c)] == (10 * i) as u8 + q);            // the column is whole: same q in every row
        }
        if out.weights.len() != 0 { assert!(out.weights.len() == want_rows && out.weights[j] == 0.5 + i as f32); }
    }
    dup
}

// @unit class=bounded tier=quick mem=light bound="n=3,p=2,draw 4 samples,2 consecutive draws,SmallRng seeds 0 and 1" timeout=900 fns=linfa::dataset::DatasetBase::bootstrap_samples
#[kani::proof]
#[kani::unwind(9)]
#[kani::stub(alloc::fmt::format, fmt_stub)]
fn c02_bootstrap_samples_seed01() {
    let ds = c02_tagged1(3, 2);
    let mut dup = true;
    for seed in 0..2u64 {
        let mut rng = SmallRng::seed_from_u64(seed);
        let mut it = ds.bootstrap_samples(4, &mut rng);
        for _ in 0..2 {
            let out = it.next().unwrap();
            dup &= c02_post_bootstrap(&out, 3, 2, 4, 2, true, false);
        }
    }
    kani::cover!(dup);     // 4 draws from 3 samples: a repetition in every draw
}

// @unit class=bounded tier=thorough mem=light bound="n=3,p=2,draw 2 samples,SmallRng seeds 2 and 3" timeout=900 fns=linfa::dataset::DatasetBase::bootstrap_samples
#[kani::proof]
#[kani::unwind(9)]
#[kani::stub(alloc::fmt::format, fmt_stub)]
fn c02_bootstrap_samples_seed23() {
    let ds = c02_tagged1(3, 2);
    let mut rows = 0usize;
    for seed in 2..4u64 {
        let mut rng = SmallRng::seed_from_u64(seed);
        let out = ds.bootstrap_samples(2, &mut rng).next().unwrap();
        c02_post_bootstrap(&out, 3, 2, 2, 2, true, false);
        rows += out.nsamples();
    }
    kani::cover!(rows == 4);
}

// @unit class=bounded tier=quick mem=light bound="n=3,p=3,draw 2 features,2 consecutive draws,SmallRng seeds 0 and 1" timeout=900 fns=linfa::dataset::DatasetBase::bootstrap_features
#[kani::proof]
#[kani::unwind(9)]
#[kani::stub(alloc::fmt::format, fmt_stub)]
fn c02_bootstrap_features_seed01() {
    let ds = c02_tagged1(3, 3);
    let mut cols = 0usize;
    for seed in 0..2u64 {
        let mut rng = SmallRng::seed_from_u64(seed);
        let mut it = ds.bootstrap_features(2, &mut rng);
        for _ in 0..2 {
            let out = it.next().unwrap();
            c02_post_bootstrap(&out, 3, 3, 3, 2, false, true);
            cols += out.nfeatures();
        }
    }
    kani::cover!(cols == 8);
}

// @unit class=bounded tier=thorough mem=light bound="n=2,p=3,draw 4 features,SmallRng seeds 2 and 3" timeout=900 fns=linfa::dataset::DatasetBase::bootstrap_features
#[kani::proof]
#[kani::unwind(9)]
#[kani::stub(alloc::fmt::format, fmt_stub)]
fn c02_bootstrap_features_seed23() {
    let ds = c02_tagged1(2, 3);
    let mut cols = 0usize;
    for seed in 2..4u64 {
        let mut rng = SmallRng::seed_from_u64(seed);
        let out = ds.bootstrap_features(4, &mut rng).next().unwrap();
        c02_post_bootstrap(&out, 2, 3, 2, 4, false, true);
        cols += out.nfeatures();
    }
    kani::cover!(cols == 8);
}

// @unit class=bounded tier=quick mem=light bound="n=3,p=3,draw (4 samples,2 features),SmallRng seeds 0 and 1" timeout=900 fns=linfa::dataset::DatasetBase::bootstrap
#[kani::proof]
#[kani::unwind(9)]
#[kani::stub(alloc::fmt::format, fmt_stub)]
fn c02_bootstrap_seed01() {
    let ds = c02_tagged1(3, 3);
    let mut dup = true;
    for seed in 0..2u64 {
        let mut rng = SmallRng::seed_from_u64(seed);
        let out = ds.bootstrap((4, 2), &mut rng).next().unwrap();
        dup &= c02_post_bootstrap(&out, 3, 3, 4, 2, false, false);
    }
    kani::cover!(dup);
}

// @unit class=bounded tier=thorough mem=light bound="n=3,p=3,draw (2 samples,3 features),2 consecutive draws,SmallRng seeds 2 and 3" timeout=900 fns=linfa::dataset::DatasetBase::bootstrap
#[kani::proof]
#[kani::unwind(9)]
#[kani::stub(alloc::fmt::format, fmt_stub)]
fn c02_bootstrap_seed23() {
    let ds = c02_tagged1(3, 3);
    let mut rows = 0usize;
    for seed in 2..4u64 {
        let mut rng = SmallRng::seed_from_u64(seed);
        let mut it = ds.bootstrap((2, 3), &mut rng);
        for _ in 0..2 {
            let out = it.next().unwrap();
            c02_post_bootstrap(&out, 3, 3, 2, 3, false, false);
            rows += out.nsamples();
        }
    }
    kani::cover!(rows == 8);
}

// @unit class=bounded tier=thorough mem=light bound="exp n=3 seed 0" timeout=600 fns=linfa::dataset::DatasetBase::shuffle
#[kani::proof]
#[kani::unwind(9)]
#[kani::stub(alloc::fmt::format, fmt_stub)]
fn c02_zshuffle_n3_s0() {
    let m0 = c02_check_shuffle::<3>(0);
    kani::cover!(m0 || !m0);
}

// @unit class=bounded tier=thorough mem=light bound="exp n=2 seed 0" timeout=600 fns=linfa::dataset::DatasetBase::shuffle
#[kani::proof]
#[kani::unwind(9)]
#[kani::stub(alloc::fmt::format, fmt_stub)]
fn c02_zshuffle_n2_s0() {
    let m0 = c02_check_shuffle::<2>(0);
    kani::cover!(m0 || !m0);
}

struct ScriptRng { vals: [u64; 4], pos: usize }
impl rand::RngCore for ScriptRng {
    fn next_u32(&mut self) -> u32 { (self.next_u64() >> 32) as u32 }
    fn next_u64(&mut self) -> u64 { let v = self.vals[self.pos % 4]; self.pos += 1; v }
    fn fill_bytes(&mut self, dest: &mut [u8]) { for b in dest.iter_mut() { *b = self.next_u64() as u8; } }
    fn try_fill_bytes(&mut self, dest: &mut [u8]) -> core::result::Result<(), rand::Error> { self.fill_bytes(dest); Ok(()) }
}
// @unit class=bounded tier=thorough mem=light bound="exp script n=3" timeout=600 fns=linfa::dataset::DatasetBase::shuffle
#[kani::proof]
#[kani::unwind(5)]
#[kani::stub(alloc::fmt::format, fmt_stub)]
fn c02_zscript_n3() {
    let ds = c02_tagged1(3, 2);
    let mut rng = ScriptRng { vals: [0x9E3779B97F4A7C15, 0x3C6EF372FE94F82A, 0xDAA66D2C7DDF743F, 0x78DDE6E5FD29F054], pos: 0 };
    let out = ds.shuffle(&mut rng);
    assert!(out.records.dim() == (3, 2) && out.targets.len() == 3);
    let mut seen = [false; 3];
    for j in 0..3 {
        let i = c02_origin1(&out, j, 3);
        assert!(!seen[i]);
        seen[i] = true;
        assert!(out.records[(j, 0)] == (10 * i) as u8 && out.records[(j, 1)] == (10 * i + 1) as u8);
    }
    kani::cover!(out.targets[0] != 100);
}

// @unit class=bounded tier=thorough mem=light bound="exp script bootstrap_samples n=2 draw 1" timeout=400 fns=linfa::dataset::DatasetBase::bootstrap_samples
#[kani::proof]
#[kani::unwind(4)]
#[kani::stub(alloc::fmt::format, fmt_stub)]
fn c02_zbs_draw1() {
    let ds = c02_tagged1(2, 2);
    let mut rng = ScriptRng { vals: [0x9E3779B97F4A7C15, 0x3C6EF372FE94F82A, 0xDAA66D2C7DDF743F, 0x78DDE6E5FD29F054], pos: 0 };
    let out = ds.bootstrap_samples(1, &mut rng).next().unwrap();
    c02_post_bootstrap(&out, 2, 2, 1, 2, true, false);
    kani::cover!(out.nsamples() == 1);
}

// @unit class=bounded tier=thorough mem=light bound="exp script bootstrap_samples n=2 draw 2" timeout=400 fns=linfa::dataset::DatasetBase::bootstrap_samples
#[kani::proof]
#[kani::unwind(4)]
#[kani::stub(alloc::fmt::format, fmt_stub)]
fn c02_zbs_draw2() {
    let ds = c02_tagged1(2, 2);
    let mut rng = ScriptRng { vals: [0x9E3779B97F4A7C15, 0x3C6EF372FE94F82A, 0xDAA66D2C7DDF743F, 0x78DDE6E5FD29F054], pos: 0 };
    let out = ds.bootstrap_samples(2, &mut rng).next().unwrap();
    c02_post_bootstrap(&out, 2, 2, 2, 2, true, false);
    kani::cover!(out.nsamples() == 2);
}
