//! property: C02
//! attach: src/dataset/impl_dataset.rs
//! module: vk_c02_select
// @include common/prelude.rs
// @include C02/helpers.rs
use super::*;
use ndarray::Ix1;
use rand::{rngs::SmallRng, SeedableRng};

// ---------------------------------------------------------------------------------------------
// Contracts of the bootstrap operations, from the property statement ("bootstrap draws only existing
// samples and features", record and target of a result row belong to the same original sample):
//   bootstrap_samples  : every result row is an existing sample, whole (all features in order, its own target)
//   bootstrap_features : all samples in order with their own targets; every result column is an existing
//                        feature column, whole
//   bootstrap          : every result row is an existing sample restricted to a selection of existing feature
//                        columns that is the same for all rows; target is the sample's own
//   weights, if the result carries any, belong to the same sample.
// Generators: the concrete `SmallRng` seeded with 0..3 and a scripted witness (a symbolic generator makes the
// rejection loop of `gen_range` unbounded); the datasets are identity-tagged (helpers.rs).
// `shuffle` is NOT decided here, see the note above the units.
// ---------------------------------------------------------------------------------------------

fn c02_tagged1(n: usize, p: usize) -> Dataset<u8, u8, Ix1> {
    Dataset::new(c02_records(n, p), c02_targets1(n))
        .with_weights(c02_weights(n))
        .with_feature_names(C02_FNAMES[..p].to_vec())
        .with_target_names(C02_TNAMES[..1].to_vec())
}

/// which original sample does result row j come from?  (read off the target tag; must be an existing sample)
fn c02_origin1(out: &Dataset<u8, u8, Ix1>, j: usize, n: usize) -> usize {
    let t = out.targets[j];
    assert!(t >= 100 && (t as usize) < 100 + n);      // "draws only existing samples"
    t as usize - 100
}

/// every row of `out` is sample i(row) of the tagged dataset restricted to columns cols[..] (same for all rows);
/// returns true iff some sample occurs twice
fn c02_post_bootstrap(out: &Dataset<u8, u8, Ix1>, n: usize, p: usize, want_rows: usize, want_cols: usize, whole_rows: bool, all_samples_in_order: bool) -> bool {
    assert!(out.records.dim() == (want_rows, want_cols) && out.targets.len() == want_rows);
    let mut count = [0usize; 8];
    let mut dup = false;
    for j in 0..want_rows {
        let i = c02_origin1(out, j, n);
        if all_samples_in_order { assert!(i == j); }
        count[i] += 1;
        if count[i] > 1 { dup = true; }
        for c in 0..want_cols {
            let i0 = c02_origin1(out, 0, n);
            let q = out.records[(0, c)].wrapping_sub((10 * i0) as u8);     // which original column is result column c (read off row 0)
            assert!((q as usize) < p);                                     // "draws only existing features"
            if whole_rows { assert!(q as usize == c); }
            assert!(out.records[(j, c)] == (10 * i) as u8 + q);            // the column is whole: same q in every row
        }
        if out.weights.len() != 0 { assert!(out.weights.len() == want_rows && out.weights[j] == 0.5 + i as f32); }
    }
    dup
}


/// Contract witness for `R: Rng` (the operations are generic over the generator): a scripted generator that
/// replays four fixed 64-bit words.  Every value it can return is a value some real generator can return.
struct ScriptRng { vals: [u64; 4], pos: usize }
impl rand::RngCore for ScriptRng {
    fn next_u32(&mut self) -> u32 { (self.next_u64() >> 32) as u32 }
    fn next_u64(&mut self) -> u64 { let v = self.vals[self.pos % 4]; self.pos += 1; v }
    fn fill_bytes(&mut self, dest: &mut [u8]) { for b in dest.iter_mut() { *b = self.next_u64() as u8; } }
    fn try_fill_bytes(&mut self, dest: &mut [u8]) -> core::result::Result<(), rand::Error> { self.fill_bytes(dest); Ok(()) }
}
const C02_SCRIPT: [u64; 4] = [0x9E3779B97F4A7C15, 0x3C6EF372FE94F82A, 0xDAA66D2C7DDF743F, 0x78DDE6E5FD29F054];

// Only ONE index per draw is affordable: ndarray's `select` builds its result with `concatenate`, and already two
// views exceed 14 GB in CBMC (measured); so the units below draw one sample / one feature at a time, several times
// from the same iterator.  `shuffle` (n indices) is therefore not decided.

// @unit class=bounded tier=quick mem=light bound="n=3,p=2,1 sample per draw,3 consecutive draws,scripted generator" timeout=600 fns=linfa::dataset::DatasetBase::bootstrap_samples
#[kani::proof]
#[kani::unwind(5)]
#[kani::stub(alloc::fmt::format, fmt_stub)]
fn c02_bootstrap_samples_draw1() {
    let ds = c02_tagged1(3, 2);
    let mut rng = ScriptRng { vals: C02_SCRIPT, pos: 0 };
    let mut it = ds.bootstrap_samples(1, &mut rng);
    let mut first = [0u8; 3];
    for k in 0..3 {
        let out = it.next().unwrap();
        c02_post_bootstrap(&out, 3, 2, 1, 2, true, false);
        first[k] = out.targets[0];
    }
    kani::cover!(first[0] != first[1] || first[1] != first[2]);
}

// @unit class=bounded tier=quick mem=light bound="n=3,p=3,1 feature per draw,3 consecutive draws,scripted generator" timeout=600 fns=linfa::dataset::DatasetBase::bootstrap_features
#[kani::proof]
#[kani::unwind(5)]
#[kani::stub(alloc::fmt::format, fmt_stub)]
fn c02_bootstrap_features_draw1() {
    let ds = c02_tagged1(3, 3);
    let mut rng = ScriptRng { vals: C02_SCRIPT, pos: 0 };
    let mut it = ds.bootstrap_features(1, &mut rng);
    let mut col = [0u8; 3];
    for k in 0..3 {
        let out = it.next().unwrap();
        c02_post_bootstrap(&out, 3, 3, 3, 1, false, true);
        col[k] = out.records[(0, 0)];
    }
    kani::cover!(col[0] != col[1] || col[1] != col[2]);
}

// @unit class=bounded tier=quick mem=light bound="n=3,p=3,(1 sample,1 feature) per draw,2 consecutive draws,scripted generator" timeout=600 fns=linfa::dataset::DatasetBase::bootstrap
#[kani::proof]
#[kani::unwind(5)]
#[kani::stub(alloc::fmt::format, fmt_stub)]
fn c02_bootstrap_draw1x1() {
    let ds = c02_tagged1(3, 3);
    let mut rng = ScriptRng { vals: C02_SCRIPT, pos: 0 };
    let mut it = ds.bootstrap((1, 1), &mut rng);
    let mut first = [0u8; 2];
    for k in 0..2 {
        let out = it.next().unwrap();
        c02_post_bootstrap(&out, 3, 3, 1, 1, false, false);
        first[k] = out.targets[0];
    }
    kani::cover!(first[0] != first[1]);
}

// @unit class=bounded tier=thorough mem=light bound="n=3,p=2,1 sample per draw,SmallRng seeds 0..3" timeout=600 fns=linfa::dataset::DatasetBase::bootstrap_samples
#[kani::proof]
#[kani::unwind(9)]
#[kani::stub(alloc::fmt::format, fmt_stub)]
fn c02_bootstrap_samples_smallrng() {
    let ds = c02_tagged1(3, 2);
    let mut rows = 0usize;
    for seed in 0..4u64 {
        let mut rng = SmallRng::seed_from_u64(seed);
        let out = ds.bootstrap_samples(1, &mut rng).next().unwrap();
        c02_post_bootstrap(&out, 3, 2, 1, 2, true, false);
        rows += out.nsamples();
    }
    kani::cover!(rows == 4);
}

// @unit class=bounded tier=thorough mem=light bound="n=3,p=3,1 feature per draw,SmallRng seeds 0..3" timeout=600 fns=linfa::dataset::DatasetBase::bootstrap_features
#[kani::proof]
#[kani::unwind(9)]
#[kani::stub(alloc::fmt::format, fmt_stub)]
fn c02_bootstrap_features_smallrng() {
    let ds = c02_tagged1(3, 3);
    let mut cols = 0usize;
    for seed in 0..4u64 {
        let mut rng = SmallRng::seed_from_u64(seed);
        let out = ds.bootstrap_features(1, &mut rng).next().unwrap();
        c02_post_bootstrap(&out, 3, 3, 3, 1, false, true);
        cols += out.nfeatures();
    }
    kani::cover!(cols == 4);
}

// @unit class=bounded tier=thorough mem=heavy bound="n=3,p=3,(1 sample,1 feature) per draw,SmallRng seeds 0..3" timeout=600 fns=linfa::dataset::DatasetBase::bootstrap
#[kani::proof]
#[kani::unwind(9)]
#[kani::stub(alloc::fmt::format, fmt_stub)]
fn c02_bootstrap_smallrng() {
    let ds = c02_tagged1(3, 3);
    let mut rows = 0usize;
    for seed in 0..4u64 {
        let mut rng = SmallRng::seed_from_u64(seed);
        let out = ds.bootstrap((1, 1), &mut rng).next().unwrap();
        c02_post_bootstrap(&out, 3, 3, 1, 1, false, false);
        rows += out.nsamples();
    }
    kani::cover!(rows == 4);
}
