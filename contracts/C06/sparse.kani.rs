//! property: C06
//! attach: algorithms/linfa-kernel/src/lib.rs
//! module: vk_c06_sparse
// @include common/prelude.rs
use super::*;
use linfa_nn::{distance::Distance, BuildError, NearestNeighbourIndex, NnError};
use ndarray::{Array2, ArrayBase, ArrayView1, ArrayView2, Ix2};

// "the sparse variant stores exactly those values for the pairs in which one point is among the other's k nearest
// neighbours (plus the diagonal), whichever neighbour index is used".  Only the adjacency pattern is reached; see property.json for what is undecided.
// Neighbour-index witness: column 0 of the records is a row tag (0,1,2); kNN(i) = {nb[i]} (k = 1) comes from a table, the
// answer to k_nearest(row i, k+1) is [neighbour, self], deliberately not sorted by index.
#[derive(Debug)]
struct TableNN { nb: [usize; 3] }
struct TableIdx<'a, F: Float> { nb: [usize; 3], batch: ArrayView2<'a, F> }
impl NearestNeighbour for TableNN {
    fn from_batch_with_leaf_size<'a, F: Float, DT: Data<Elem = F>, D: 'a + Distance<F>>(
        &self, batch: &'a ArrayBase<DT, Ix2>, _leaf: usize, _d: D,
    ) -> Result<Box<dyn 'a + Send + Sync + NearestNeighbourIndex<F>>, BuildError> {
        Ok(Box::new(TableIdx { nb: self.nb, batch: batch.view() }))
    }
}
impl<'a, F: Float> NearestNeighbourIndex<F> for TableIdx<'a, F> {
    fn k_nearest(&self, p: ArrayView1<'_, F>, _k: usize) -> Result<Vec<(ArrayView1<F>, usize)>, NnError> {
        let i = if p[0] == F::zero() { 0 } else if p[0] == F::one() { 1 } else { 2 };
        let nb = self.nb[i];
        Ok(vec![(self.batch.row(nb), nb), (self.batch.row(i), i)])
    }
    fn within_range(&self, _p: ArrayView1<'_, F>, _r: F) -> Result<Vec<(ArrayView1<F>, usize)>, NnError> { Ok(Vec::new()) }
}

// adjacency: stored pattern = diagonal + {(i,j) : j in kNN(i) or i in kNN(j)}, every stored value is one, hence
// symmetric — for every 1-nearest-neighbour table on three points, ENUMERATED concretely (8 graphs; the same harness with a
// symbolic table, or with symbolic record values through sparse_from_fn, gave no answer in 15 min: sprs construction and
// the per-row Vec growth have data-dependent control flow).  No symbolic input: this is exhaustive testing of the
// 8 cases by symbolic execution, not a proof about values.
// @unit class=bounded tier=thorough mem=heavy timeout=1800 bound="n=3,k=1,all 8 neighbour tables enumerated,no symbolic data" fns=linfa_kernel::sparse::adjacency_matrix
#[kani::proof]
#[kani::unwind(10)]
#[kani::stub(alloc::fmt::format, fmt_stub)]
fn c06_sparse_adjacency_n3_k1() {
    let x: Array2<f32> = Array2::from_shape_vec((3, 1), vec![0.0, 1.0, 2.0]).unwrap();
    let mut code = 0;
    let mut graphs = 0;
    while code < 8 {
        // row i chooses the lower or the higher of the two other rows
        let nb = [if code & 1 == 0 { 1 } else { 2 }, if code & 2 == 0 { 0 } else { 2 }, if code & 4 == 0 { 0 } else { 1 }];
        let a = sparse::adjacency_matrix(&x, 1, &TableNN { nb });
        assert!(a.rows() == 3 && a.cols() == 3);
        let mut cnt = 0;
        for i in 0..3 { for j in 0..3 {
            let expect = i == j || nb[i] == j || nb[j] == i;
            if expect { cnt += 1; }
            match a.get(i, j) { Some(v) => assert!(expect && *v == 1.0), None => assert!(!expect) }
        } }
        assert!(a.nnz() == cnt);
        graphs += 1;
        code += 1;
    }
    kani::cover!(graphs == 8);
}
