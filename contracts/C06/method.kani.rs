//! property: C06
//! attach: algorithms/linfa-kernel/src/lib.rs
//! module: vk_c06_method
// @include common/prelude.rs
// @include common/ghost_f32.rs
// @include C06/helpers.rs
use super::*;
use ndarray::arr1;

// KernelMethod::distance against the documented kernel functions (rustdoc of KernelMethod, property C06):
//   Linear            k(a,b) = <a,b> = sum_i a_i*b_i
//   Gaussian(eps)     k(a,b) = exp(-||a-b||^2 / eps)
//   Polynomial(c,d)   k(a,b) = (<a,b> + c)^d
// exp / powf are uninterpreted (ghost): the ARGUMENT handed to them is compared with the textbook
// sub-term, the result must be the ghost's answer.  All finite f32 coordinates; 2-term sums have a single
// order, so == is exact; NaN (inf - inf after overflow) must agree.
fn same(x: f32, y: f32) -> bool { x == y || (x.is_nan() && y.is_nan()) }
fn small2() -> [f32; 2] {
    let v: [i8; 2] = kani::any();
    kani::assume(v[0] >= -8 && v[0] <= 8 && v[1] >= -8 && v[1] <= 8);
    [v[0] as f32, v[1] as f32]
}
fn fin2() -> [f32; 2] {
    let a: [f32; 2] = kani::any();
    kani::assume(a[0].is_finite() && a[1].is_finite());
    a
}

// @unit class=bounded tier=thorough mem=light timeout=900 bound="dim=2" fns=linfa_kernel::KernelMethod::distance
#[kani::proof]
#[kani::unwind(10)]
#[kani::stub(alloc::fmt::format, fmt_stub)]
fn c06_method_linear_dim2() {
    let (a, b) = (fin2(), fin2());
    let (pa, pb) = (arr1(&a), arr1(&b));
    let m: KernelMethod<f32> = KernelMethod::Linear;
    let k = m.distance(pa.view(), pb.view());
    let t = a[0] * b[0] + a[1] * b[1];
    assert!(same(k, t));
    assert!(m.is_linear());
    kani::cover!(k.is_finite() && k != 0.0 && a[0] != b[0] && a[1] != 0.0 && b[1] != 0.0);
    kani::cover!(k.is_nan());
    kani::cover!(k < 0.0);
}

// @unit class=bounded tier=quick mem=light timeout=400 bound="dim=1" fns=linfa_kernel::KernelMethod::distance
#[kani::proof]
#[kani::unwind(10)]
#[kani::stub(alloc::fmt::format, fmt_stub)]
fn c06_method_linear_dim1() {
    let (a, b): (f32, f32) = (kani::any(), kani::any());
    kani::assume(a.is_finite() && b.is_finite());
    let (pa, pb) = (arr1(&[a]), arr1(&[b]));
    let m: KernelMethod<f32> = KernelMethod::Linear;
    let k = m.distance(pa.view(), pb.view());
    assert!(k == a * b);
    kani::cover!(k.is_finite() && k != 0.0);
    kani::cover!(k == f32::NEG_INFINITY);
}

// @unit class=bounded tier=quick mem=light timeout=400 bound="dim=2,coords in -8..8,eps=e/4 e in -16..16" fns=linfa_kernel::KernelMethod::distance
#[kani::proof]
#[kani::unwind(10)]
#[kani::stub(alloc::fmt::format, fmt_stub)]
#[kani::stub(f32::exp, ghost_exp32)]
fn c06_method_gaussian_dim2() {
    let (a, b) = (small2(), small2());
    let e: i8 = kani::any();
    kani::assume(e >= -16 && e <= 16 && e != 0);
    let eps = e as f32 / 4.0;
    let (pa, pb) = (arr1(&a), arr1(&b));
    let m: KernelMethod<f32> = KernelMethod::Gaussian(eps);
    let k = m.distance(pa.view(), pb.view());
    let sq = (a[0] - b[0]) * (a[0] - b[0]) + (a[1] - b[1]) * (a[1] - b[1]);
    let arg = -sq / eps;
    unsafe {
        assert!(G_EXP_N == 1);
        assert!(G_EXP_A[0] == arg);
        assert!(k.to_bits() == G_EXP_R[0].to_bits());
    }
    // consequences that do not depend on the value of exp: bandwidth > 0 gives a similarity in [0,1]
    if eps > 0.0 { assert!(k >= 0.0 && k <= 1.0); }
    assert!(!m.is_linear());
    kani::cover!(eps > 0.0 && sq > 0.0 && a[0] != b[0] && a[1] != b[1]);
    kani::cover!(eps < 0.0 && sq > 0.0);
    kani::cover!(eps > 0.0 && k < 1.0);
}

// Gaussian(a,a) = 1 for every bandwidth eps > 0 (incl. subnormal and +inf), every finite a: exp(-0/eps) with exp(+-0) = 1
// @unit class=bounded tier=quick mem=light timeout=400 bound="dim=2" fns=linfa_kernel::KernelMethod::distance
#[kani::proof]
#[kani::unwind(10)]
#[kani::stub(alloc::fmt::format, fmt_stub)]
#[kani::stub(f32::exp, ghost_exp32)]
fn c06_method_gaussian_self_dim2() {
    let a = fin2();
    let eps: f32 = kani::any();
    kani::assume(eps > 0.0);
    let pa = arr1(&a);
    let pa2 = arr1(&a);
    let m: KernelMethod<f32> = KernelMethod::Gaussian(eps);
    assert!(m.distance(pa.view(), pa.view()) == 1.0);
    assert!(m.distance(pa.view(), pa2.view()) == 1.0);
    kani::cover!(eps == f32::INFINITY);
    kani::cover!(eps < f32::MIN_POSITIVE);
    kani::cover!(a[0] != a[1] && a[0] < 0.0);
}

// @unit class=bounded tier=quick mem=light timeout=400 bound="dim=1,coords in -100..100,eps=e/4 e in -64..64" fns=linfa_kernel::KernelMethod::distance
#[kani::proof]
#[kani::unwind(10)]
#[kani::stub(alloc::fmt::format, fmt_stub)]
#[kani::stub(f32::exp, ghost_exp32)]
fn c06_method_gaussian_dim1() {
    // integer coordinates in [-100,100] (exact squares); bandwidth e/4, e = -64..64 without 0 (a divider with a full-domain
    // divisor compared with a second divider: no answer in 15 min; every eps > 0 is covered for identical rows by gaussian_self)
    let (ia, ib, e): (i8, i8, i8) = (kani::any(), kani::any(), kani::any());
    kani::assume(ia >= -100 && ia <= 100 && ib >= -100 && ib <= 100 && e >= -64 && e <= 64 && e != 0);
    let eps = e as f32 / 4.0;
    let (a, b) = (ia as f32, ib as f32);
    let (pa, pb) = (arr1(&[a]), arr1(&[b]));
    let m: KernelMethod<f32> = KernelMethod::Gaussian(eps);
    let k = m.distance(pa.view(), pb.view());
    let d = ia as i32 - ib as i32;
    let arg = -((d * d) as f32) / eps;
    unsafe { assert!(G_EXP_N == 1 && G_EXP_A[0] == arg && k.to_bits() == G_EXP_R[0].to_bits()); }
    if eps > 0.0 { assert!(k >= 0.0 && k <= 1.0); }
    if eps > 0.0 { assert!(m.distance(pa.view(), pa.view()) == 1.0); }
    kani::cover!(eps > 0.0 && a != b && arg.is_finite() && arg != 0.0);
    kani::cover!(eps < 0.0 && a != b);
}

// @unit class=bounded tier=quick mem=light timeout=400 bound="dim=2,coords in -8..8" fns=linfa_kernel::KernelMethod::distance
#[kani::proof]
#[kani::unwind(10)]
#[kani::stub(alloc::fmt::format, fmt_stub)]
#[kani::stub(f32::powf, ghost_powf32)]
fn c06_method_polynomial_dim2() {
    let (a, b) = (small2(), small2());
    let (c, d): (f32, f32) = (kani::any(), kani::any());
    kani::assume(c.is_finite() && d.is_finite());
    let (pa, pb) = (arr1(&a), arr1(&b));
    let m: KernelMethod<f32> = KernelMethod::Polynomial(c, d);
    let k = m.distance(pa.view(), pb.view());
    let base = (a[0] * b[0] + a[1] * b[1]) + c;
    unsafe {
        assert!(PF_N == 1);
        assert!(same(PF_X[0], base) && PF_Y[0] == d);
        assert!(k.to_bits() == PF_R[0].to_bits());
    }
    assert!(!m.is_linear());
    kani::cover!(base.is_finite() && base != c && a[1] != 0.0 && b[1] != 0.0 && c != 0.0);
    kani::cover!(d == 3.0 && base == 2.0);
}

// @unit class=bounded tier=thorough mem=light timeout=900 bound="dim=1" fns=linfa_kernel::KernelMethod::distance
#[kani::proof]
#[kani::unwind(10)]
#[kani::stub(alloc::fmt::format, fmt_stub)]
#[kani::stub(f32::powf, ghost_powf32)]
fn c06_method_polynomial_dim1() {
    let (a, b, c, d): (f32, f32, f32, f32) = (kani::any(), kani::any(), kani::any(), kani::any());
    kani::assume(a.is_finite() && b.is_finite() && c.is_finite() && d.is_finite());
    let (pa, pb) = (arr1(&[a]), arr1(&[b]));
    let m: KernelMethod<f32> = KernelMethod::Polynomial(c, d);
    let k = m.distance(pa.view(), pb.view());
    let base = a * b + c;
    unsafe { assert!(PF_N == 1 && same(PF_X[0], base) && PF_Y[0] == d && k.to_bits() == PF_R[0].to_bits()); }
    kani::cover!(base.is_finite() && base != c && c != 0.0);
    kani::cover!(base == f32::INFINITY);
}

// Symmetry k(a,b) = k(b,a) for the three kernels.  Commutativity of a float multiplier is out of reach of the SAT
// back end on the full f32 domain (measured: no answer in 10 min), so coordinates are integers in [-8,8] (every
// intermediate exact) and bandwidth / constant / degree range over small grids (exp and powf are uninterpreted anyway).
// @unit class=bounded tier=thorough mem=light timeout=900 bound="dim=2,coords in -8..8,eps=e/4 e in 1..16,c in -8..8,d=k/2 k in -8..8" fns=linfa_kernel::KernelMethod::distance
#[kani::proof]
#[kani::unwind(10)]
#[kani::stub(alloc::fmt::format, fmt_stub)]
#[kani::stub(f32::exp, ghost_exp32)]
#[kani::stub(f32::powf, ghost_powf32)]
fn c06_method_symmetric_dim2() {
    let (a, b) = (small2(), small2());
    let p: [i8; 3] = kani::any();
    kani::assume(p[0] >= 1 && p[0] <= 16 && p[1] >= -8 && p[1] <= 8 && p[2] >= -8 && p[2] <= 8);
    let (eps, c, d) = (p[0] as f32 / 4.0, p[1] as f32, p[2] as f32 / 2.0);
    let (pa, pb) = (arr1(&a), arr1(&b));
    let lin: KernelMethod<f32> = KernelMethod::Linear;
    let gau: KernelMethod<f32> = KernelMethod::Gaussian(eps);
    let pol: KernelMethod<f32> = KernelMethod::Polynomial(c, d);
    let l1 = lin.distance(pa.view(), pb.view());
    assert!(lin.distance(pb.view(), pa.view()) == l1);
    let g1 = gau.distance(pa.view(), pb.view());
    assert!(same(gau.distance(pb.view(), pa.view()), g1));
    let p1 = pol.distance(pa.view(), pb.view());
    assert!(same(pol.distance(pb.view(), pa.view()), p1));
    kani::cover!(a[0] != b[0] && a[1] != b[1] && l1 != 0.0);
    kani::cover!(g1 != 1.0);
    kani::cover!(p1 > 0.0 && c != 0.0);
}
