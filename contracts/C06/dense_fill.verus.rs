//! property: C06
//! unit: V-C06-dense-fill
//! tier: quick
//! fns: linfa_kernel::dense_from_fn (which kernel value is stored in which cell of the dense kernel matrix)
//@ extract SETUP from algorithms/linfa-kernel/src/lib.rs anchor "let n_observations = dataset.len_of(Axis(0));" lines 2
//@ extract FILL from algorithms/linfa-kernel/src/lib.rs anchor "    for i in 0..n_observations {" block
//@ rewrite SETUP "dataset.len_of(Axis(0))" => "dataset.nrows_tok()"
//@ rewrite SETUP "Array2::eye(n_observations)" => "MatTok::eye(n_observations)"
//@ rewrite FILL "similarity[(i, j)] = method.distance(a, b);" => "similarity.set(i, j, method.distance(a, b));"
//@ insert FILL before-brace "for i in " : invariant n_observations == dataset.n@, similarity.wf(dataset.n@), (forall|r: int, c: int| 0 <= r < i && 0 <= c < dataset.n@ ==> #[trigger] similarity.cells@[(r, c)] == kernel_value(r, c)),
//@ insert FILL before-brace "for j in " : invariant n_observations == dataset.n@, i < n_observations, similarity.wf(dataset.n@), (forall|r: int, c: int| 0 <= r < i && 0 <= c < dataset.n@ ==> #[trigger] similarity.cells@[(r, c)] == kernel_value(r, c)), (forall|c: int| 0 <= c < j ==> #[trigger] similarity.cells@[(i as int, c)] == kernel_value(i as int, c)),
//@ expect-fail vacuity_guard_fill
use vstd::prelude::*;
verus! {
// ---- tokens: a row of the record matrix is its index; a kernel value is the pair of row indices it was computed from ----
pub struct DataTok { pub n: Ghost<int> }
pub struct RowTok { pub idx: Ghost<int> }
pub struct ValTok { pub of: Ghost<(int, int)> }
pub struct MethodTok;
pub struct MatTok { pub n: Ghost<int>, pub cells: Ghost<Map<(int, int), (int, int)>> }

pub open spec fn kernel_value(r: int, c: int) -> (int, int) { (r, c) }        // "the chosen kernel function of rows r and c"

impl DataTok {
    #[verifier::external_body]
    pub fn nrows_tok(&self) -> (r: usize) ensures r == self.n@ { unimplemented!() }                     // len_of(Axis(0))
    #[verifier::external_body]
    pub fn row(&self, i: usize) -> (r: RowTok) requires i < self.n@, ensures r.idx@ == i { unimplemented!() }   // ndarray row(i): panics out of range
}
impl MethodTok {
    #[verifier::external_body]
    pub fn distance(&self, a: RowTok, b: RowTok) -> (r: ValTok) ensures r.of@ == kernel_value(a.idx@, b.idx@) { unimplemented!() }   // KernelMethod::distance (bounded Kani units)
}
impl MatTok {
    pub open spec fn wf(&self, n: int) -> bool { self.n@ == n }
    pub open spec fn at(&self, r: int, c: int) -> (int, int) { self.cells@[(r, c)] }
    #[verifier::external_body]
    pub fn eye(n: usize) -> (r: MatTok) ensures r.n@ == n { unimplemented!() }                            // Array2::eye(n): n x n
    #[verifier::external_body]
    pub fn set(&mut self, i: usize, j: usize, v: ValTok)                                                  // indexed assignment: panics out of range
        requires i < old(self).n@, j < old(self).n@,
        ensures final(self).n@ == old(self).n@, final(self).cells@ == old(self).cells@.insert((i as int, j as int), v.of@),
    { unimplemented!() }
}

// ---- dense_from_fn: body extracted from /repo on every run ----
// contract (C06): "a kernel matrix built from records X has entry (i,j) equal to the chosen kernel function of rows i and j" -
// every cell of the n x n matrix, for every n
fn dense_from_fn(dataset: &DataTok, method: &MethodTok) -> (similarity: MatTok)
    requires 0 <= dataset.n@ <= usize::MAX,
    ensures similarity.wf(dataset.n@),
        forall|r: int, c: int| 0 <= r < dataset.n@ && 0 <= c < dataset.n@ ==> #[trigger] similarity.cells@[(r, c)] == kernel_value(r, c),
{
/*@SETUP*/
/*@FILL*/
    similarity
}

fn vacuity_guard_fill(dataset: &DataTok, method: &MethodTok) -> (similarity: MatTok)
    requires 0 <= dataset.n@ <= usize::MAX,
    ensures false,
{
    MatTok::eye(0)
}
} // verus!
fn main() {}
