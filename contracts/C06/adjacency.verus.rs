//! property: C06
//! unit: V-C06-adjacency-rows
//! tier: quick
//! fns: linfa_kernel::sparse::adjacency_matrix (the loop that turns k-nearest-neighbour answers into the CSR triplet indptr / indices / data)
//@ extract ADJ from algorithms/linfa-kernel/src/sparse.rs anchor "let mut data = Vec::with_capacity(n_points * (k + 1));" until "// create CSR matrix from data, indptr and indices"
//@ rewrite ADJ "let mut data = Vec::with_capacity(n_points * (k + 1));" => "let mut data: Vec<OneTok> = Vec::new();   /* with_capacity: capacity only */"
//@ rewrite ADJ "let mut indptr = Vec::with_capacity(n_points + 1);" => "let mut indptr: Vec<usize> = Vec::new();"
//@ rewrite ADJ "let mut indices = Vec::with_capacity(n_points * (k + 1));" => "let mut indices: Vec<usize> = Vec::new();"
//@ rewrite ADJ "let mut added = 0;" => "let mut added: usize = 0;"
//@ rewrite ADJ "for (m, feature) in dataset.rows().into_iter().enumerate() {" => "for m in 0..n_points { let feature = dataset.row_tok(m);   /* rows().into_iter().enumerate() as an index loop */"
//@ rewrite ADJ "nn.k_nearest(" => "nn.k_nearest_abs("
//@ rewrite ADJ "neighbours.sort_unstable_by_key(|(_, i)| *i);" => "sort_by_index_abs(&mut neighbours);"
//@ rewrite ADJ "F::one()" => "OneTok::one()"
//@ rewrite ADJ "for &(_, i) in &neighbours {" => "for t in 0..neighbours.len() { let i = neighbours[t].1;   /* `for &(_, i) in &neighbours` as an index loop */"
//@ insert ADJ before-brace "for m in 0..n_points " : invariant nn.answers@.len() == n_points, nn.asked@ == k + 1, n_points * (k + 2) <= usize::MAX, forall|mm: int| 0 <= mm < n_points ==> answer_ok(#[trigger] nn.answers@[mm], n_points as int, k as int), n_points == dataset.n@, k + 1 <= n_points, indptr@.len() == m + 1, indices@.len() == added, data@.len() == added, added <= m * (k + 2), indptr@[m as int] == added, rows_ok(indptr@, indices@, nn.answers@, m as int),
//@ insert ADJ before-brace "for t in 0..neighbours.len() " : invariant nn.answers@.len() == n_points, n_points * (k + 2) <= usize::MAX, added == indices@.len(), n_points == dataset.n@, m < n_points, k + 1 <= n_points, neighbours@.len() == k + 1, same_indices(neighbours@, nn.answers@[m as int]), indptr@.len() == m + 1, indices@.len() == added, data@.len() == added, indptr@[m as int] <= added, added <= m * (k + 2) + 1 + t, m * (k + 2) + (k + 2) <= n_points * (k + 2), rows_ok(indptr@, indices@, nn.answers@, m as int), row_in_progress(indices@, indptr@[m as int] as int, added as int, m as int, neighbours@, t as int),
//@ insert ADJ after "for m in 0..n_points " : let ghost ind0 = indices@; proof { lemma_room(m as int, n_points as int, k as int); }
//@ insert ADJ before "for t in 0..neighbours.len() " : proof { lemma_row_start(indptr@, ind0, indices@, nn.answers@, m as int, neighbours@); }
//@ insert ADJ after "for t in 0..neighbours.len() " : proof { lemma_row_step(indptr@, indices@, nn.answers@, m as int, added as int, neighbours@, t as int); }
//@ insert ADJ before "indptr.push(added);" : proof { lemma_row_done(indptr@, indices@, nn.answers@, m as int, added as int, neighbours@); lemma_room(m as int, n_points as int, k as int); }
//@ expect-fail vacuity_guard_adjacency
use vstd::prelude::*;
verus! {
pub struct OneTok;
impl OneTok { pub fn one() -> (r: OneTok) { OneTok } }
pub struct PointTok { pub row: Ghost<int> }
pub struct DataTok { pub n: Ghost<int> }
impl DataTok {
    #[verifier::external_body]
    pub fn row_tok(&self, m: usize) -> (r: PointTok) requires m < self.n@, ensures r.row@ == m { unimplemented!() }
}
// the neighbour index: for every stored point an answer = the indices it returns for a (k+1)-nearest query.
// ASSUMED about an answer (NearestNeighbourIndex::k_nearest with k+1 <= n points): exactly k+1 entries, each a valid row index,
// no index twice.  NOT assumed: that the query point itself is among them (false for k+2 or more coincident points).
pub struct NnTok { pub answers: Ghost<Seq<Seq<int>>>, pub asked: Ghost<int> }   // asked: the number of neighbours the answers are for
pub struct NnRes { pub v: Vec<(PointTok, usize)> }
impl NnRes { pub fn unwrap(self) -> (r: Vec<(PointTok, usize)>) ensures r == self.v { self.v } }
pub open spec fn answer_ok(a: Seq<int>, n: int, k: int) -> bool {
    a.len() == k + 1 && (forall|t: int| 0 <= t < a.len() ==> 0 <= #[trigger] a[t] < n)
    && (forall|s: int, t: int| #![trigger a[s], a[t]] 0 <= s < a.len() && 0 <= t < a.len() && s != t ==> a[s] != a[t])
}
pub open spec fn same_indices(v: Seq<(PointTok, usize)>, a: Seq<int>) -> bool {
    v.len() == a.len() && (forall|x: int| a.contains(x) <==> exists|t: int| #![trigger v[t]] 0 <= t < v.len() && v[t].1 == x)
    && (forall|s: int, t: int| #![trigger v[s], v[t]] 0 <= s < v.len() && 0 <= t < v.len() && s != t ==> v[s].1 != v[t].1)
}
impl NnTok {
    #[verifier::external_body]
    pub fn k_nearest_abs(&self, p: PointTok, k1: usize) -> (r: NnRes)
        requires 0 <= p.row@ < self.answers@.len(), k1 == self.asked@,
        ensures r.v@.len() == self.answers@[p.row@].len(), same_indices(r.v@, self.answers@[p.row@]),
    { unimplemented!() }
}
// sort_unstable_by_key(|(_, i)| *i): a permutation of the vector (the order itself is not needed below)
#[verifier::external_body]
pub fn sort_by_index_abs(v: &mut Vec<(PointTok, usize)>)
    ensures final(v)@.len() == old(v)@.len(), forall|a: Seq<int>| same_indices(old(v)@, a) ==> same_indices(final(v)@, a),
{ unimplemented!() }

// C06 (sparse variant, before the symmetrisation A + A^T done by sprs): row m of the CSR pattern is exactly {m} united with the indices
// the neighbour index returned for point m, every index once, in the slice indptr[m]..indptr[m+1] of `indices`
pub open spec fn in_slice(indices: Seq<usize>, lo: int, hi: int, x: int) -> bool { exists|p: int| #![trigger indices[p]] lo <= p < hi && indices[p] == x }
pub open spec fn in_nb(nb: Seq<(PointTok, usize)>, seen: int, x: int) -> bool { exists|t: int| #![trigger nb[t]] 0 <= t < seen && nb[t].1 == x }
pub open spec fn slice_distinct(indices: Seq<usize>, lo: int, hi: int) -> bool {
    forall|p: int, q: int| #![trigger indices[p], indices[q]] lo <= p < hi && lo <= q < hi && p != q ==> indices[p] != indices[q]
}
pub open spec fn row_is(indices: Seq<usize>, lo: int, hi: int, m: int, answer: Seq<int>) -> bool {
    0 <= lo <= hi <= indices.len()
    && (forall|x: int| #![trigger in_slice(indices, lo, hi, x)] #![trigger answer.contains(x)] in_slice(indices, lo, hi, x) <==> (x == m || answer.contains(x)))
    && in_slice(indices, lo, hi, m)
    && slice_distinct(indices, lo, hi)
}
pub open spec fn row_ok_at(indptr: Seq<usize>, indices: Seq<usize>, answers: Seq<Seq<int>>, r: int) -> bool {
    row_is(indices, indptr[r] as int, indptr[r + 1] as int, r, answers[r])
}
pub open spec fn rows_ok(indptr: Seq<usize>, indices: Seq<usize>, answers: Seq<Seq<int>>, upto: int) -> bool {
    forall|r: int| 0 <= r < upto ==> #[trigger] row_ok_at(indptr, indices, answers, r)
}
// while row m is being written: position lo holds m, then the neighbours seen so far that differ from m
pub open spec fn row_in_progress(indices: Seq<usize>, lo: int, hi: int, m: int, nb: Seq<(PointTok, usize)>, seen: int) -> bool {
    0 <= lo < hi <= indices.len() && indices[lo] == m
    && (forall|x: int| #![trigger in_slice(indices, lo, hi, x)] #![trigger in_nb(nb, seen, x)] in_slice(indices, lo, hi, x) <==> (x == m || in_nb(nb, seen, x)))
    && slice_distinct(indices, lo, hi)
}
// appending to `indices` leaves every finished row as it was
proof fn lemma_frame(indptr: Seq<usize>, indices: Seq<usize>, answers: Seq<Seq<int>>, upto: int, v: usize)
    requires rows_ok(indptr, indices, answers, upto),
    ensures rows_ok(indptr, indices.push(v), answers, upto),
{
    let ind2 = indices.push(v);
    assert forall|r: int| 0 <= r < upto implies #[trigger] row_ok_at(indptr, ind2, answers, r) by {
        assert(row_ok_at(indptr, indices, answers, r));
        let lo = indptr[r] as int; let hi = indptr[r + 1] as int;
        assert forall|x: int| #![trigger in_slice(ind2, lo, hi, x)] #![trigger in_slice(indices, lo, hi, x)] in_slice(ind2, lo, hi, x) <==> in_slice(indices, lo, hi, x) by {
            if in_slice(ind2, lo, hi, x) { let p = choose|p: int| #![trigger ind2[p]] lo <= p < hi && ind2[p] == x; assert(indices[p] == x); }
            if in_slice(indices, lo, hi, x) { let p = choose|p: int| #![trigger indices[p]] lo <= p < hi && indices[p] == x; assert(ind2[p] == x); }
        }
        assert forall|p: int, q: int| #![trigger ind2[p], ind2[q]] lo <= p < hi && lo <= q < hi && p != q implies ind2[p] != ind2[q] by {
            assert(indices[p] != indices[q]);
        }
    }
}
// at the start of the inner loop, i.e. just after `indices.push(m)`: the row in progress consists of m alone (ind0 = `indices` when
// the turn for point m began; the first requires is the obligation "the diagonal entry of row m is written before its neighbours")
proof fn lemma_row_start(indptr: Seq<usize>, ind0: Seq<usize>, indices: Seq<usize>, answers: Seq<Seq<int>>, m: int, nb: Seq<(PointTok, usize)>)
    requires indices == ind0.push(m as usize), 0 <= m <= usize::MAX,
        indptr.len() == m + 1, indptr[m] == ind0.len(), rows_ok(indptr, ind0, answers, m),
    ensures rows_ok(indptr, indices, answers, m), row_in_progress(indices, indptr[m] as int, indices.len() as int, m, nb, 0),
{
    let lo = indptr[m] as int;
    lemma_frame(indptr, ind0, answers, m, m as usize);
    let lo1 = lo + 1;
    assert forall|x: int| #![trigger in_slice(indices, lo, lo1, x)] #![trigger in_nb(nb, 0, x)] in_slice(indices, lo, lo1, x) <==> (x == m || in_nb(nb, 0, x)) by {
        if x == m { assert(indices[lo] == x); }
    }
}
// the counter `added` cannot overflow: every row adds at most k + 2 entries
proof fn lemma_room(m: int, n: int, k: int)
    requires 0 <= m < n, 0 <= k,
    ensures m * (k + 2) + (k + 2) <= n * (k + 2), m * (k + 2) >= 0, (m + 1) * (k + 2) == m * (k + 2) + (k + 2),
{
    assert(m * (k + 2) + (k + 2) <= n * (k + 2)) by(nonlinear_arith) requires 0 <= m < n, 0 <= k;
    assert(m * (k + 2) >= 0) by(nonlinear_arith) requires 0 <= m, 0 <= k;
    assert((m + 1) * (k + 2) == m * (k + 2) + (k + 2)) by(nonlinear_arith);
}
// one turn of the inner loop: neighbour number t is appended iff it is not m itself
proof fn lemma_row_step(indptr: Seq<usize>, indices: Seq<usize>, answers: Seq<Seq<int>>, m: int, hi: int, nb: Seq<(PointTok, usize)>, t: int)
    requires 0 <= t < nb.len(), indptr.len() == m + 1, hi == indices.len(), rows_ok(indptr, indices, answers, m),
        row_in_progress(indices, indptr[m] as int, hi, m, nb, t),
        forall|a: int, b: int| #![trigger nb[a], nb[b]] 0 <= a < nb.len() && 0 <= b < nb.len() && a != b ==> nb[a].1 != nb[b].1,
    ensures
        nb[t].1 != m ==> rows_ok(indptr, indices.push(nb[t].1), answers, m) && row_in_progress(indices.push(nb[t].1), indptr[m] as int, hi + 1, m, nb, t + 1),
        nb[t].1 == m ==> row_in_progress(indices, indptr[m] as int, hi, m, nb, t + 1),
{
    let lo = indptr[m] as int; let i = nb[t].1;
    if i as int != m {
        let ind2 = indices.push(i); let hi1 = hi + 1; let t1 = t + 1;
        lemma_frame(indptr, indices, answers, m, i);
        assert forall|x: int| #![trigger in_slice(ind2, lo, hi1, x)] #![trigger in_nb(nb, t1, x)] in_slice(ind2, lo, hi1, x) <==> (x == m || in_nb(nb, t1, x)) by {
            if in_slice(ind2, lo, hi1, x) {
                let p = choose|p: int| #![trigger ind2[p]] lo <= p < hi1 && ind2[p] == x;
                if p < hi { assert(indices[p] == x); assert(in_slice(indices, lo, hi, x));
                    if x != m { let tt = choose|tt: int| #![trigger nb[tt]] 0 <= tt < t && nb[tt].1 == x; assert(in_nb(nb, t1, x)); } }
                else { assert(nb[t].1 == x); }
            }
            if x == m { assert(in_slice(indices, lo, hi, x)); let p = choose|p: int| #![trigger indices[p]] lo <= p < hi && indices[p] == x; assert(ind2[p] == x); }
            if in_nb(nb, t1, x) {
                let tt = choose|tt: int| #![trigger nb[tt]] 0 <= tt < t1 && nb[tt].1 == x;
                if tt < t { assert(in_nb(nb, t, x)); assert(in_slice(indices, lo, hi, x)); let p = choose|p: int| #![trigger indices[p]] lo <= p < hi && indices[p] == x; assert(ind2[p] == x); }
                else { assert(ind2[hi] == x); }
            }
        }
        assert forall|p: int, q: int| #![trigger ind2[p], ind2[q]] lo <= p < hi1 && lo <= q < hi1 && p != q implies ind2[p] != ind2[q] by {
            if p < hi && q < hi { assert(indices[p] != indices[q]); }
            else {
                let o = if p < hi { p } else { q };
                assert(indices[o] == ind2[o]);
                assert(in_slice(indices, lo, hi, indices[o] as int));
                if indices[o] as int != m { let tt = choose|tt: int| #![trigger nb[tt]] 0 <= tt < t && nb[tt].1 == indices[o] as int; assert(nb[tt].1 != nb[t].1); }
            }
        }
    } else {
        let t1 = t + 1;
        assert forall|x: int| #![trigger in_slice(indices, lo, hi, x)] #![trigger in_nb(nb, t1, x)] in_slice(indices, lo, hi, x) <==> (x == m || in_nb(nb, t1, x)) by {
            if in_slice(indices, lo, hi, x) && x != m { let tt = choose|tt: int| #![trigger nb[tt]] 0 <= tt < t && nb[tt].1 == x; assert(in_nb(nb, t1, x)); }
            if in_nb(nb, t1, x) { let tt = choose|tt: int| #![trigger nb[tt]] 0 <= tt < t1 && nb[tt].1 == x; if tt < t { assert(in_nb(nb, t, x)); } }
        }
    }
}
proof fn lemma_row_done(indptr: Seq<usize>, indices: Seq<usize>, answers: Seq<Seq<int>>, m: int, added: int, nb: Seq<(PointTok, usize)>)
    requires 0 <= m < answers.len(), indptr.len() == m + 1, rows_ok(indptr, indices, answers, m), same_indices(nb, answers[m]),
        row_in_progress(indices, indptr[m] as int, added, m, nb, nb.len() as int), 0 <= added <= usize::MAX,
    ensures rows_ok(indptr.push(added as usize), indices, answers, m + 1),
{
    let ip = indptr.push(added as usize);
    assert forall|r: int| 0 <= r < m + 1 implies #[trigger] row_ok_at(ip, indices, answers, r) by {
        if r < m {
            assert(row_ok_at(indptr, indices, answers, r));
            assert(ip[r] == indptr[r] && ip[r + 1] == indptr[r + 1]);
        } else {
            let lo = indptr[m] as int;
            assert(ip[m] == indptr[m] && ip[m + 1] == added);
            assert forall|x: int| #![trigger in_slice(indices, lo, added, x)] #![trigger answers[m].contains(x)] in_slice(indices, lo, added, x) <==> (x == m || answers[m].contains(x)) by {
                if answers[m].contains(x) { let t = choose|t: int| #![trigger nb[t]] 0 <= t < nb.len() && nb[t].1 == x; assert(in_nb(nb, nb.len() as int, x)); }
                if in_nb(nb, nb.len() as int, x) { let t = choose|t: int| #![trigger nb[t]] 0 <= t < nb.len() && nb[t].1 == x; assert(answers[m].contains(x)); }
            }
            assert(indices[lo] == m);
        }
    }
}

// ---- adjacency_matrix: buffer set-up and the loop over the points, extracted from /repo on every run ----
pub fn adjacency_rows(dataset: &DataTok, nn: &NnTok, n_points: usize, k: usize) -> (r: (Vec<usize>, Vec<usize>, Vec<OneTok>))
    requires n_points == dataset.n@, 0 < k < n_points, n_points * (k + 2) <= usize::MAX, nn.asked@ == k + 1,
        nn.answers@.len() == n_points, forall|m: int| 0 <= m < n_points ==> answer_ok(#[trigger] nn.answers@[m], n_points as int, k as int),
    ensures r.0@.len() == n_points + 1, r.1@.len() == r.2@.len(), rows_ok(r.0@, r.1@, nn.answers@, n_points as int),
{
/*@ADJ*/
    (indptr, indices, data)
}

pub fn vacuity_guard_adjacency(dataset: &DataTok, nn: &NnTok, n_points: usize, k: usize) -> (r: (Vec<usize>, Vec<usize>, Vec<OneTok>))
    requires n_points == dataset.n@, 0 < k < n_points, n_points * (k + 2) <= usize::MAX, nn.asked@ == k + 1,
        nn.answers@.len() == n_points, forall|m: int| 0 <= m < n_points ==> answer_ok(#[trigger] nn.answers@[m], n_points as int, k as int),
    ensures false,
{
    (Vec::new(), Vec::new(), Vec::new())
}
} // verus!
fn main() {}
