//! property: C06
//! attach: algorithms/linfa-kernel/src/inner.rs
//! module: vk_c06_views
// @include common/prelude.rs
use super::*;
use crate::{Kernel, KernelMethod};
use ndarray::{Array1, Array2};

// "size, row sums, columns, diagonal, upper triangle and matrix products reported by the kernel agree with that matrix":
// the dense inner matrix M is an arbitrary n x n matrix of integers in [-8,8] (sums exact); every view is compared with
// its definition over M.  (dense_from_fn producing M = K(x_i,x_j) is c06_dense_*; here M is arbitrary, which is stronger.)
fn ints<const N: usize>() -> [i8; N] {
    let v: [i8; N] = kani::any();
    let mut i = 0;
    while i < N { kani::assume(v[i] >= -8 && v[i] <= 8); i += 1; }
    v
}

// @unit class=bounded tier=quick mem=heavy timeout=600 bound="2x2,entries in -8..8" fns=linfa_kernel::KernelBase::size,linfa_kernel::KernelBase::sum,linfa_kernel::KernelBase::column,linfa_kernel::KernelBase::diagonal,linfa_kernel::KernelBase::to_upper_triangle,linfa_kernel::inner::Inner::size,linfa_kernel::inner::Inner::sum,linfa_kernel::inner::Inner::column,linfa_kernel::inner::Inner::diagonal,linfa_kernel::inner::Inner::to_upper_triangle
#[kani::proof]
#[kani::unwind(10)]
#[kani::stub(alloc::fmt::format, fmt_stub)]
fn c06_views_2x2() {
    let v = ints::<4>();
    let f = |i: usize| v[i] as f32;
    let m = Array2::from_shape_vec((2, 2), vec![f(0), f(1), f(2), f(3)]).unwrap();
    let k: Kernel<f32> = Kernel { inner: KernelInner::Dense(m), method: KernelMethod::Linear };
    assert!(k.size() == 2);
    let s = k.sum();
    assert!(s.len() == 2 && s[0] == (v[0] as i32 + v[1] as i32) as f32 && s[1] == (v[2] as i32 + v[3] as i32) as f32);
    let c0 = k.column(0);
    let c1 = k.column(1);
    assert!(c0.len() == 2 && c0[0] == f(0) && c0[1] == f(2));
    assert!(c1.len() == 2 && c1[0] == f(1) && c1[1] == f(3));
    let d = k.diagonal();
    assert!(d.len() == 2 && d[0] == f(0) && d[1] == f(3));
    let u = k.to_upper_triangle();
    assert!(u.len() == 1 && u[0] == f(1));
    match &k.inner { KernelInner::Dense(inn) => assert!(inn.is_dense()), KernelInner::Sparse(_) => assert!(false) }
    kani::cover!(v[1] != v[2] && v[0] != v[3] && v[0] != v[1]);
}

// @unit class=bounded tier=thorough mem=heavy timeout=1800 bound="3x3,entries in -8..8" fns=linfa_kernel::KernelBase::size,linfa_kernel::KernelBase::sum,linfa_kernel::KernelBase::column,linfa_kernel::KernelBase::diagonal,linfa_kernel::KernelBase::to_upper_triangle
#[kani::proof]
#[kani::unwind(12)]
#[kani::stub(alloc::fmt::format, fmt_stub)]
fn c06_views_3x3() {
    let v = ints::<9>();
    let f = |i: usize| v[i] as f32;
    let m = Array2::from_shape_vec((3, 3), vec![f(0), f(1), f(2), f(3), f(4), f(5), f(6), f(7), f(8)]).unwrap();
    let k: Kernel<f32> = Kernel { inner: KernelInner::Dense(m), method: KernelMethod::Linear };
    assert!(k.size() == 3);
    let s = k.sum();
    assert!(s.len() == 3);
    for i in 0..3 { assert!(s[i] == (v[3 * i] as i32 + v[3 * i + 1] as i32 + v[3 * i + 2] as i32) as f32); }
    for j in 0..3 {
        let c = k.column(j);
        assert!(c.len() == 3 && c[0] == f(j) && c[1] == f(3 + j) && c[2] == f(6 + j));
    }
    let d = k.diagonal();
    assert!(d.len() == 3 && d[0] == f(0) && d[1] == f(4) && d[2] == f(8));
    let u = k.to_upper_triangle();
    assert!(u.len() == 3 && u[0] == f(1) && u[1] == f(2) && u[2] == f(5));
    kani::cover!(v[1] != v[3] && v[2] != v[6] && v[5] != v[7]);
}

// matrix product K * rhs, rhs 2 x 1.  ndarray hands f32 products to matrixmultiply::sgemm, whose run-time CPU feature
// detection executes the `cpuid` instruction (inline assembly, unsupported by Kani): modelled as a CPU that reports no
// extensions, so the portable kernel runs.
fn cpuid_none(_leaf: u32, _sub: u32) -> core::arch::x86_64::CpuidResult {
    core::arch::x86_64::CpuidResult { eax: 0, ebx: 0, ecx: 0, edx: 0 }
}
// @unit class=bounded tier=quick mem=heavy timeout=600 bound="2x2 * 2x1,entries in -8..8" fns=linfa_kernel::KernelBase::dot,linfa_kernel::inner::Inner::dot
#[kani::proof]
#[kani::unwind(10)]
#[kani::stub(alloc::fmt::format, fmt_stub)]
#[kani::stub(core::arch::x86_64::__cpuid_count, cpuid_none)]
fn c06_views_dot_2x2() {
    let v = ints::<4>();
    let w = ints::<2>();
    let f = |i: usize| v[i] as f32;
    let m = Array2::from_shape_vec((2, 2), vec![f(0), f(1), f(2), f(3)]).unwrap();
    let rhs = Array2::from_shape_vec((2, 1), vec![w[0] as f32, w[1] as f32]).unwrap();
    let k: Kernel<f32> = Kernel { inner: KernelInner::Dense(m), method: KernelMethod::Linear };
    let p = k.dot(&rhs.view());
    assert!(p.nrows() == 2 && p.ncols() == 1);
    assert!(p[(0, 0)] == (v[0] as i32 * w[0] as i32 + v[1] as i32 * w[1] as i32) as f32);
    assert!(p[(1, 0)] == (v[2] as i32 * w[0] as i32 + v[3] as i32 * w[1] as i32) as f32);
    kani::cover!(w[0] != 0 && w[1] != 0 && v[1] != v[2]);
}
