//! property: C06
//! unit: V-C06-cluster-labels
//! tier: quick
//! fns: linfa_hierarchical::ValidHierarchicalCluster::transform (flattening the remaining clusters into one label per sample)
//@ extract FLAT from algorithms/linfa-hierarchical/src/lib.rs anchor "let mut tmp = vec![0; num_observations];" until "// return node_index -> cluster_index map"
//@ rewrite FLAT "let mut tmp = vec![0; num_observations];" => "let mut tmp = zeros_abs(num_observations);   /* vec![0; num_observations] */"
//@ rewrite FLAT "for (i, (_, ids)) in clusters.into_iter().enumerate() {" => "for i in 0..clusters.len() { let ids = clusters.ids_at(i);   /* for (i, (_, ids)) in clusters.into_iter().enumerate(): entry number i of the iteration */"
//@ rewrite FLAT "for id in ids {" => "for t in 0..ids.len() { let id = ids[t];   /* for id in ids */"
//@ rewrite FLAT "tmp[id] = i;" => "tmp.set(id, i);   /* tmp[id] = i */"
//@ insert FLAT before-brace "for i in 0..clusters.len() " : invariant clusters.wf(num_observations as int), tmp@.len() == num_observations, forall|s: int| 0 <= s < num_observations && clusters.owner@[s] < i ==> #[trigger] tmp@[s] == clusters.owner@[s],
//@ insert FLAT before-brace "for t in 0..ids.len() " : invariant i < clusters.k@, ids@ == clusters.members@[i as int], clusters.wf(num_observations as int), tmp@.len() == num_observations, (forall|s: int| 0 <= s < num_observations && clusters.owner@[s] < i ==> #[trigger] tmp@[s] == clusters.owner@[s]), (forall|q: int| 0 <= q < t ==> tmp@[#[trigger] ids@[q] as int] == i),
//@ expect-fail vacuity_guard_labels
use vstd::prelude::*;
verus! {
#[verifier::external_body]
pub fn zeros_abs(n: usize) -> (r: Vec<usize>) ensures r@.len() == n { unimplemented!() }
// the remaining clusters in SOME iteration order: entry e has a member list; `owner[s]` = the entry whose list contains sample s
pub struct ClusterMap { pub k: Ghost<int>, pub members: Ghost<Seq<Seq<usize>>>, pub owner: Ghost<Seq<int>> }
impl ClusterMap {
    // ASSUMED (not machine-checked here): the clusters left by the merge replay partition the samples - every merge unites two different
    // (hence disjoint) clusters of a partition that starts with the singletons (V-C06-merge-replay proves the bookkeeping of the cluster ids)
    pub open spec fn wf(&self, n: int) -> bool {
        self.members@.len() == self.k@ && self.owner@.len() == n && self.k@ <= usize::MAX
        && (forall|s: int| 0 <= s < n ==> 0 <= #[trigger] self.owner@[s] < self.k@ && self.members@[self.owner@[s]].contains(s as usize))
        && (forall|e: int, q: int| 0 <= e < self.k@ && 0 <= q < self.members@[e].len() ==> (#[trigger] self.members@[e][q]) < n && self.owner@[self.members@[e][q] as int] == e)
    }
    #[verifier::external_body] pub fn len(&self) -> (r: usize) ensures r == self.k@ { unimplemented!() }
    #[verifier::external_body] pub fn ids_at(&self, e: usize) -> (r: Vec<usize>) requires e < self.k@, ensures r@ == self.members@[e as int] { unimplemented!() }
}
// ---- the flattening loops of transform, extracted from /repo on every run ----
// C06 "returns a labelling of all samples": every sample gets the iteration number of the cluster it belongs to - so two samples share a label
// exactly when they are in the same cluster and the labels used are 0 .. (number of clusters) - 1
pub fn flatten(clusters: &ClusterMap, num_observations: usize) -> (r: Vec<usize>)
    requires clusters.wf(num_observations as int),
    ensures r@.len() == num_observations, forall|s: int| 0 <= s < num_observations ==> #[trigger] r@[s] == clusters.owner@[s],
{
/*@FLAT*/
    tmp
}
pub fn vacuity_guard_labels(clusters: &ClusterMap, num_observations: usize) -> (r: Vec<usize>)
    requires clusters.wf(num_observations as int),
    ensures false,
{
    zeros_abs(num_observations)
}
} // verus!
fn main() {}
