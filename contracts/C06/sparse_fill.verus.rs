//! property: C06
//! unit: V-C06-sparse-fill
//! tier: quick
//! fns: linfa_kernel::sparse_from_fn (every stored entry (i, j) of the adjacency pattern receives the kernel value of rows i and j)
//@ extract SF from algorithms/linfa-kernel/src/lib.rs anchor "let mut data = sparse::adjacency_matrix(dataset, k, nn_algo);" until "#[cfg(test)]" after "fn sparse_from_fn<"
//@ rewrite SF "let mut data = sparse::adjacency_matrix(dataset, k, nn_algo);" => "let mut data = data_in;   /* sparse::adjacency_matrix(dataset, k, nn_algo): V-C06-adjacency-rows */"
//@ rewrite SF "for (i, mut vec) in data.outer_iterator_mut().enumerate() {" => "let n_rows = data.rows(); for i in 0..n_rows { let vec = data.row_tok(i);   /* for (i, mut vec) in data.outer_iterator_mut().enumerate() */"
//@ rewrite SF "for (j, val) in vec.iter_mut() {" => "for e in 0..vec.nnz() { let j = vec.col_of(e);   /* for (j, val) in vec.iter_mut() */"
//@ rewrite SF "*val = method.distance(a, b);" => "data.set_entry(i, e, method.distance(a, b));   /* *val = method.distance(a, b) */"
//@ insert SF before-brace "for i in 0..n_rows " : invariant n_rows == m0.nrows@, data.wf(), dataset.n@ == m0.nrows@, m0.ncols@ == m0.nrows@, data.nrows@ == m0.nrows@, data.ncols@ == m0.ncols@, data.cols@ == m0.cols@, forall|rr: int, ee: int| 0 <= rr < m0.nrows@ && 0 <= ee < m0.cols@[rr].len() ==> #[trigger] data.vals@[rr][ee] == (if rr < i { V::Kernel(rr, m0.cols@[rr][ee]) } else { V::One }),
//@ insert SF before-brace "for e in 0..vec.nnz() " : invariant n_rows == m0.nrows@, i < m0.nrows@, vec.r@ == i, vec.cols@ == m0.cols@[i as int], data.wf(), dataset.n@ == m0.nrows@, m0.ncols@ == m0.nrows@, data.nrows@ == m0.nrows@, data.ncols@ == m0.ncols@, data.cols@ == m0.cols@, forall|rr: int, ee: int| 0 <= rr < m0.nrows@ && 0 <= ee < m0.cols@[rr].len() ==> #[trigger] data.vals@[rr][ee] == (if rr < i || (rr == i && ee < e) { V::Kernel(rr, m0.cols@[rr][ee]) } else { V::One }),
//@ expect-fail vacuity_guard_sparse
use vstd::prelude::*;
verus! {
pub enum V { One, Kernel(int, int) }                       // the 1 stored by adjacency_matrix, or k(row a, row b)
pub struct RowView { pub r: Ghost<int> }
pub struct KTok { pub a: Ghost<int>, pub b: Ghost<int> }
pub struct MethodTok;
impl MethodTok { #[verifier::external_body] pub fn distance(&self, a: RowView, b: RowView) -> (k: KTok) ensures k.a@ == a.r@, k.b@ == b.r@ { unimplemented!() } }     // KernelMethod::distance: K-c06_* units
pub struct DataTok { pub n: Ghost<int> }
impl DataTok { #[verifier::external_body] pub fn row(&self, i: usize) -> (r: RowView) requires i < self.n@, ensures r.r@ == i { unimplemented!() } }    // ndarray row(i): panics out of range
pub struct CsMatTok { pub nrows: Ghost<int>, pub ncols: Ghost<int>, pub cols: Ghost<Seq<Seq<int>>>, pub vals: Ghost<Seq<Seq<V>>> }
pub struct RowTok { pub r: Ghost<int>, pub cols: Ghost<Seq<int>> }
impl RowTok {
    #[verifier::external_body] pub fn nnz(&self) -> (n: usize) ensures n == self.cols@.len() { unimplemented!() }
    #[verifier::external_body] pub fn col_of(&self, e: usize) -> (c: usize) requires e < self.cols@.len(), ensures c == self.cols@[e as int] { unimplemented!() }
}
impl CsMatTok {
    pub open spec fn wf(&self) -> bool {
        self.cols@.len() == self.nrows@ && self.vals@.len() == self.nrows@ && self.nrows@ <= usize::MAX
        && forall|r: int| 0 <= r < self.nrows@ ==> (#[trigger] self.cols@[r]).len() == self.vals@[r].len() && self.cols@[r].len() <= usize::MAX
            && forall|e: int| 0 <= e < self.cols@[r].len() ==> 0 <= #[trigger] self.cols@[r][e] < self.ncols@ && self.cols@[r][e] <= usize::MAX
    }
    #[verifier::external_body] pub fn rows(&self) -> (n: usize) ensures n == self.nrows@ { unimplemented!() }
    #[verifier::external_body] pub fn row_tok(&self, r: usize) -> (v: RowTok) requires r < self.nrows@, self.wf(), ensures v.r@ == r, v.cols@ == self.cols@[r as int] { unimplemented!() }
    #[verifier::external_body]
    pub fn set_entry(&mut self, r: usize, e: usize, k: KTok)
        requires old(self).wf(), r < old(self).nrows@, e < old(self).cols@[r as int].len(),
        ensures final(self).nrows@ == old(self).nrows@, final(self).ncols@ == old(self).ncols@, final(self).cols@ == old(self).cols@, final(self).wf(),
            final(self).vals@ == old(self).vals@.update(r as int, old(self).vals@[r as int].update(e as int, V::Kernel(k.a@, k.b@))),
    { unimplemented!() }
}
// ---- sparse_from_fn after the adjacency pattern has been built, extracted from /repo on every run ----
// C06 (sparse variant): "stores exactly those values for the pairs ...": the pattern is left as adjacency_matrix built it and every stored
// entry in row i, column j holds the kernel function of rows i and j
pub fn sparse_fill(dataset: &DataTok, data_in: CsMatTok, method: &MethodTok) -> (out: CsMatTok)
    requires data_in.wf(), data_in.nrows@ == dataset.n@, data_in.ncols@ == dataset.n@,
        forall|rr: int, ee: int| 0 <= rr < data_in.nrows@ && 0 <= ee < data_in.cols@[rr].len() ==> #[trigger] data_in.vals@[rr][ee] == V::One,
    ensures out.cols@ == data_in.cols@, out.nrows@ == data_in.nrows@,
        forall|rr: int, ee: int| 0 <= rr < data_in.nrows@ && 0 <= ee < data_in.cols@[rr].len() ==> #[trigger] out.vals@[rr][ee] == V::Kernel(rr, data_in.cols@[rr][ee]),
{
    let ghost m0 = data_in;
/*@SF*/
pub fn vacuity_guard_sparse(dataset: &DataTok, data_in: CsMatTok, method: &MethodTok) -> (out: CsMatTok)
    requires data_in.wf(), data_in.nrows@ == dataset.n@, data_in.ncols@ == dataset.n@,
        forall|rr: int, ee: int| 0 <= rr < data_in.nrows@ && 0 <= ee < data_in.cols@[rr].len() ==> #[trigger] data_in.vals@[rr][ee] == V::One,
    ensures false,
{
    data_in
}
} // verus!
fn main() {}
