//! property: C06
//! attach: algorithms/linfa-kernel/src/lib.rs
//! module: vk_c06_dense
// @include common/prelude.rs
// @include C06/helpers.rs
use super::*;
use ndarray::Array2;

// "A kernel matrix built from records X has entry (i,j) equal to the chosen kernel function of rows i and j — hence it is
// symmetric, and for the Gaussian kernel has unit diagonal" — dense_from_fn / Kernel::new / KernelParams::transform,
// n records of dimension 1.  Linear kernel on integer records in [-8,8]: entry (i,j) = x_i * x_j exactly.
// Gaussian: exp uninterpreted (ghost): entry (i,j) = exp(-(x_i-x_j)^2/eps) re-evaluated through the functional ghost.
fn ints<const N: usize>() -> [i8; N] {
    let v: [i8; N] = kani::any();
    let mut i = 0;
    while i < N { kani::assume(v[i] >= -8 && v[i] <= 8); i += 1; }
    v
}

// @unit class=bounded tier=quick mem=heavy timeout=600 bound="n=2,dim=1,records in -8..8" fns=linfa_kernel::dense_from_fn,linfa_kernel::KernelMethod::distance
#[kani::proof]
#[kani::unwind(6)]
#[kani::stub(alloc::fmt::format, fmt_stub)]
fn c06_dense_linear_n2() {
    let v = ints::<2>();
    let x = Array2::from_shape_vec((2, 1), vec![v[0] as f32, v[1] as f32]).unwrap();
    let k = dense_from_fn(&x, &KernelMethod::Linear);
    assert!(k.nrows() == 2 && k.ncols() == 2);
    for i in 0..2 { for j in 0..2 {
        assert!(k[(i, j)] == (v[i] as i32 * v[j] as i32) as f32);
        assert!(k[(i, j)] == k[(j, i)]);
    } }
    kani::cover!(v[0] != v[1] && v[0] != 0 && v[1] != 0);
    kani::cover!(v[0] * v[1] < 0);
}

// @unit class=bounded tier=thorough mem=heavy timeout=1800 bound="n=3,dim=1,records in -8..8" fns=linfa_kernel::dense_from_fn,linfa_kernel::KernelMethod::distance
#[kani::proof]
#[kani::unwind(6)]
#[kani::stub(alloc::fmt::format, fmt_stub)]
fn c06_dense_linear_n3() {
    let v = ints::<3>();
    let x = Array2::from_shape_vec((3, 1), vec![v[0] as f32, v[1] as f32, v[2] as f32]).unwrap();
    let k = dense_from_fn(&x, &KernelMethod::Linear);
    assert!(k.nrows() == 3 && k.ncols() == 3);
    for i in 0..3 { for j in 0..3 {
        assert!(k[(i, j)] == (v[i] as i32 * v[j] as i32) as f32);
        assert!(k[(i, j)] == k[(j, i)]);
    } }
    kani::cover!(v[0] != v[1] && v[1] != v[2] && v[0] != 0 && v[1] != 0 && v[2] != 0);
    kani::cover!(v[0] * v[2] < 0);
}

// Gaussian, n=2: entries through the ghost, unit diagonal, symmetric, values in [0,1] for eps > 0
// @unit class=bounded tier=quick mem=heavy timeout=600 bound="n=2,dim=1,records in -8..8,eps=e/4 e in 1..16" fns=linfa_kernel::dense_from_fn,linfa_kernel::KernelMethod::distance
#[kani::proof]
#[kani::unwind(12)]
#[kani::stub(alloc::fmt::format, fmt_stub)]
#[kani::stub(f32::exp, ghost_exp32_big)]
fn c06_dense_gaussian_n2() {
    let v = ints::<2>();
    let e: i8 = kani::any();
    kani::assume(e >= 1 && e <= 16);
    let eps = e as f32 / 4.0;
    let x = Array2::from_shape_vec((2, 1), vec![v[0] as f32, v[1] as f32]).unwrap();
    let k = dense_from_fn(&x, &KernelMethod::Gaussian(eps));
    assert!(k.nrows() == 2 && k.ncols() == 2);
    unsafe { assert!(GX_N == 4); }
    for i in 0..2 { for j in 0..2 {
        let d = (v[i] as i32 - v[j] as i32) as f32;
        assert!(k[(i, j)] == ghost_exp32_big(-(d * d) / eps));
        assert!(k[(i, j)] == k[(j, i)]);
        assert!(k[(i, j)] >= 0.0 && k[(i, j)] <= 1.0);
    } }
    assert!(k[(0, 0)] == 1.0 && k[(1, 1)] == 1.0);
    kani::cover!(v[0] != v[1] && k[(0, 1)] < 1.0);
    kani::cover!(v[0] == v[1]);
}

// Gaussian, n=3: unit diagonal and symmetry
// @unit class=bounded tier=thorough mem=heavy timeout=1800 bound="n=3,dim=1,records in -8..8,eps=e/4 e in 1..16" fns=linfa_kernel::dense_from_fn,linfa_kernel::KernelMethod::distance
#[kani::proof]
#[kani::unwind(12)]
#[kani::stub(alloc::fmt::format, fmt_stub)]
#[kani::stub(f32::exp, ghost_exp32_big)]
fn c06_dense_gaussian_n3() {
    let v = ints::<3>();
    let e: i8 = kani::any();
    kani::assume(e >= 1 && e <= 16);
    let eps = e as f32 / 4.0;
    let x = Array2::from_shape_vec((3, 1), vec![v[0] as f32, v[1] as f32, v[2] as f32]).unwrap();
    let k = dense_from_fn(&x, &KernelMethod::Gaussian(eps));
    assert!(k.nrows() == 3 && k.ncols() == 3);
    unsafe { assert!(GX_N == 9); }
    for i in 0..3 { for j in 0..3 {
        assert!(k[(i, j)] == k[(j, i)]);
        assert!(k[(i, j)] >= 0.0 && k[(i, j)] <= 1.0);
    } }
    assert!(k[(0, 0)] == 1.0 && k[(1, 1)] == 1.0 && k[(2, 2)] == 1.0);
    kani::cover!(v[0] != v[1] && v[1] != v[2] && k[(0, 1)] < 1.0);
}

// Through the public API: KernelParams::transform -> Kernel::new -> dense; the views of the built kernel
// (size, row sums, column, diagonal, upper triangle) agree with the matrix K(i,j) = x_i * x_j.
// @unit class=bounded tier=thorough mem=heavy timeout=1800 bound="n=2,dim=1,records in -8..8" fns=linfa_kernel::KernelParams::transform,linfa_kernel::Kernel::new,linfa_kernel::dense_from_fn,linfa_kernel::KernelBase::size,linfa_kernel::KernelBase::sum,linfa_kernel::KernelBase::column,linfa_kernel::KernelBase::diagonal,linfa_kernel::KernelBase::to_upper_triangle
#[kani::proof]
#[kani::unwind(6)]
#[kani::stub(alloc::fmt::format, fmt_stub)]
fn c06_dense_public_api_n2() {
    let v = ints::<2>();
    let x = Array2::from_shape_vec((2, 1), vec![v[0] as f32, v[1] as f32]).unwrap();
    let params = Kernel::<f32>::params_with_nn(linfa_nn::LinearSearch).kind(KernelType::Dense).method(KernelMethod::Linear);
    let k: Kernel<f32> = params.transform(&x);
    let t = |i: usize, j: usize| (v[i] as i32 * v[j] as i32) as f32;
    assert!(k.is_linear());
    assert!(k.size() == 2);
    match &k.inner { KernelInner::Dense(m) => { for i in 0..2 { for j in 0..2 { assert!(m[(i, j)] == t(i, j)); } } }, KernelInner::Sparse(_) => assert!(false) }
    let s = k.sum();
    assert!(s.len() == 2 && s[0] == t(0, 0) + t(0, 1) && s[1] == t(1, 0) + t(1, 1));
    let c = k.column(1);
    assert!(c.len() == 2 && c[0] == t(0, 1) && c[1] == t(1, 1));
    let d = k.diagonal();
    assert!(d.len() == 2 && d[0] == t(0, 0) && d[1] == t(1, 1));
    let u = k.to_upper_triangle();
    assert!(u.len() == 1 && u[0] == t(0, 1));
    kani::cover!(v[0] != v[1] && v[0] != 0 && v[1] != 0);
}
