//! property: C06
//! unit: V-C06-merge-replay
//! tier: quick
//! fns: linfa_hierarchical::ValidHierarchicalCluster::transform (replay of the dendrogram steps until the stopping criterion; number of clusters; partition)
//@ extract REPLAY from algorithms/linfa-hierarchical/src/lib.rs anchor "let mut clusters = (0..num_observations)" until "// flatten resulting clusters and reverse index"
//@ drop REPLAY from "let mut clusters = (0..num_observations)" through ".collect::<HashMap<_, _>>();" as "        let mut clusters = ClusterMap::singletons(num_observations);   /* (0..num_observations).map(|x| (x, vec![x])).collect::<HashMap<_, _>>() */"
//@ rewrite REPLAY "for step in res.steps() {" => "let mut k_next: usize = 0; while k_next < res.len() /*INV*/ { let k = k_next; k_next += 1; let step = res.step(k);   /* for step in res.steps(), as a while loop (the body uses `break`) */"
//@ rewrite? REPLAY "step.dissimilarity >= dis" => "step.dissimilarity.ge_tok(dis)"
//@ rewrite? REPLAY "step.dissimilarity > dis" => "step.dissimilarity.gt_tok(dis)"
//@ rewrite? REPLAY "step.dissimilarity <= dis" => "step.dissimilarity.le_tok(dis)"
//@ rewrite? REPLAY "step.dissimilarity < dis" => "step.dissimilarity.lt_tok(dis)"
//@ rewrite REPLAY "let mut ids = Vec::with_capacity(2);" => "let mut ids = IdsTok::empty();"
//@ rewrite REPLAY "clusters.remove(&step.cluster1).unwrap();" => "clusters.remove_tok(step.cluster1);"
//@ rewrite REPLAY "clusters.remove(&step.cluster2).unwrap();" => "clusters.remove_tok(step.cluster2);"
//@ rewrite REPLAY "/*INV*/" => "invariant_except_break num_observations == n0, res.n@ == n0, res.wf(), n0 <= usize::MAX / 2, ct == n0 + k_next, k_next <= res.merges@.len(), clusters.alive@ =~= alive_after(res.merges@, n0 as int, k_next as int), clusters.count@ == n0 - k_next, (self.stopping is NumClusters && k_next >= 1 ==> clusters.count@ >= self.stopping->NumClusters_0), (self.stopping is Distance ==> forall|kk: int| 0 <= kk < k_next ==> !spec_ge(kk, self.stopping->Distance_0.id@)), ensures stopped_ok(clusters.count@, n0 as int, res, self.stopping), (exists|kk: int| 0 <= kk <= res.merges@.len() && clusters.alive@ =~= alive_after(res.merges@, n0 as int, kk) && clusters.count@ == n0 - kk), decreases res.merges@.len() - k_next,"
//@ insert REPLAY after "let mut k_next: usize = 0; while k_next < res.len()" : proof { lemma_alive_step(res.merges@, n0 as int, k as int); lemma_alive_bound(res.merges@, n0 as int, k as int); assert(alive_after(res.merges@, res.n@, k as int).contains(res.merges@[k as int].0)); assert(alive_after(res.merges@, res.n@, k as int).contains(res.merges@[k as int].1) && res.merges@[k as int].0 != res.merges@[k as int].1); assert(clusters.alive@.contains(res.merges@[k as int].0) && clusters.alive@.contains(res.merges@[k as int].1)); }
//@ expect-fail vacuity_guard_replay
use vstd::prelude::*;
use vstd::iset::ISet;
verus! {
#[derive(Clone, Copy)]
pub struct DisTok { pub id: Ghost<int> }
pub uninterp spec fn spec_ge(a: int, b: int) -> bool;
pub uninterp spec fn spec_cmp(op: int, a: int, b: int) -> bool;      // the other three comparisons: nothing is known about them
impl DisTok {
    #[verifier::external_body] pub fn ge_tok(self, o: DisTok) -> (r: bool) ensures r == spec_ge(self.id@, o.id@) { unimplemented!() }
    #[verifier::external_body] pub fn gt_tok(self, o: DisTok) -> (r: bool) ensures r == spec_cmp(1, self.id@, o.id@) { unimplemented!() }
    #[verifier::external_body] pub fn le_tok(self, o: DisTok) -> (r: bool) ensures r == spec_cmp(2, self.id@, o.id@) { unimplemented!() }
    #[verifier::external_body] pub fn lt_tok(self, o: DisTok) -> (r: bool) ensures r == spec_cmp(3, self.id@, o.id@) { unimplemented!() }
}
#[derive(Clone, Copy)]
pub enum Criterion { NumClusters(usize), Distance(DisTok) }
pub struct StepTok { pub cluster1: usize, pub cluster2: usize, pub dissimilarity: DisTok }
// the dendrogram returned by kodama::linkage for n observations (ASSUMED, kodama's documented contract): n - 1 steps; step k merges two
// DIFFERENT clusters that are alive at that point - original observations 0..n or clusters n + j created by an earlier step j < k
pub struct Dendrogram { pub n: Ghost<int>, pub merges: Ghost<Seq<(int, int)>> }
pub open spec fn alive_pred(m: Seq<(int, int)>, n: int, k: int, c: int) -> bool decreases k {
    if k <= 0 { 0 <= c < n } else { (alive_pred(m, n, k - 1, c) && c != m[k - 1].0 && c != m[k - 1].1) || c == n + k - 1 }
}
pub open spec fn alive_after(m: Seq<(int, int)>, n: int, k: int) -> ISet<int> { ISet::new(|c: int| alive_pred(m, n, k, c)) }
impl Dendrogram {
    pub open spec fn wf(&self) -> bool {
        &&& (self.n@ == 0 ==> self.merges@.len() == 0) && (self.n@ >= 1 ==> self.merges@.len() == self.n@ - 1)
        &&& forall|k: int| 0 <= k < self.merges@.len() ==> #[trigger] alive_after(self.merges@, self.n@, k).contains(self.merges@[k].0)
              && alive_after(self.merges@, self.n@, k).contains(self.merges@[k].1) && self.merges@[k].0 != self.merges@[k].1
              && 0 <= self.merges@[k].0 <= usize::MAX && 0 <= self.merges@[k].1 <= usize::MAX
    }
    #[verifier::external_body] pub fn len(&self) -> (r: usize) ensures r == self.merges@.len() { unimplemented!() }
    #[verifier::external_body]
    pub fn step(&self, k: usize) -> (r: StepTok) requires k < self.merges@.len(), ensures r.cluster1 == self.merges@[k as int].0, r.cluster2 == self.merges@[k as int].1, r.dissimilarity.id@ == k { unimplemented!() }
}
proof fn lemma_alive_step(m: Seq<(int, int)>, n: int, k: int)
    requires 0 <= k,
    ensures forall|c: int| #![trigger alive_pred(m, n, k + 1, c)] alive_pred(m, n, k + 1, c) == ((alive_pred(m, n, k, c) && c != m[k].0 && c != m[k].1) || c == n + k),
{
}
proof fn lemma_alive_bound(m: Seq<(int, int)>, n: int, k: int)
    requires 0 <= k,
    ensures forall|c: int| #[trigger] alive_pred(m, n, k, c) ==> c < n + k,
    decreases k,
{
    if k > 0 {
        lemma_alive_bound(m, n, k - 1);
        assert forall|c: int| #[trigger] alive_pred(m, n, k, c) implies c < n + k by {
            if c != n + k - 1 { assert(alive_pred(m, n, k - 1, c)); }
        }
    }
}
pub struct IdsTok { pub from: Ghost<Seq<int>> }                               // which removed clusters' members were appended, in order
impl IdsTok {
    pub fn empty() -> (r: IdsTok) ensures r.from@ == Seq::<int>::empty() { IdsTok { from: Ghost(Seq::empty()) } }
    #[verifier::external_body] pub fn append(&mut self, o: &mut IdsTok) ensures final(self).from@ == old(self).from@ + old(o).from@ { unimplemented!() }
}
// the HashMap cluster-id -> member list: which ids are alive, and how many
pub struct ClusterMap { pub alive: Ghost<ISet<int>>, pub count: Ghost<int> }
impl ClusterMap {
    #[verifier::external_body]
    pub fn singletons(n: usize) -> (r: ClusterMap) ensures r.alive@ == ISet::new(|c: int| 0 <= c < n), r.count@ == n { unimplemented!() }
    #[verifier::external_body] pub fn len(&self) -> (r: usize) ensures r == self.count@ { unimplemented!() }
    // HashMap::remove(..).unwrap(): panics when the key is not alive
    #[verifier::external_body]
    pub fn remove_tok(&mut self, c: usize) -> (r: IdsTok)
        requires old(self).alive@.contains(c as int),
        ensures final(self).alive@ == ISet::new(|x: int| old(self).alive@.contains(x) && x != c as int), final(self).count@ == old(self).count@ - 1, r.from@ == seq![c as int],
    { unimplemented!() }
    #[verifier::external_body]
    pub fn insert(&mut self, c: usize, ids: IdsTok)
        requires !old(self).alive@.contains(c as int),
        ensures final(self).alive@ == ISet::new(|x: int| old(self).alive@.contains(x) || x == c as int), final(self).count@ == old(self).count@ + 1,
    { unimplemented!() }
}
// C06 (hierarchical clustering): with NumClusters(m) the replay ends with exactly max(m, 1) clusters when n > m, and with all n singletons when
// n <= m; with Distance(d) it stops at the first step whose dissimilarity reaches d (or after all steps)
pub open spec fn stopped_ok(count: int, n: int, res: &Dendrogram, crit: Criterion) -> bool {
    match crit {
        Criterion::NumClusters(m) => if n <= m { count == n } else if m >= 1 { count == m } else { count == 1 || n == 0 },
        // every merge performed had a dissimilarity below the threshold, and the replay stopped at the FIRST step that reaches it (or after all steps)
        Criterion::Distance(d) => (1 <= n ==> 1 <= count <= n) && (forall|kk: int| 0 <= kk < n - count ==> !spec_ge(kk, d.id@)) && (n - count < res.merges@.len() ==> spec_ge(n - count, d.id@)),
    }
}
pub struct ParamsV { pub stopping: Criterion }
impl ParamsV {
    // ---- the merge replay of transform, extracted from /repo on every run ----
    pub fn replay(&self, res: &Dendrogram, num_observations: usize) -> (r: ClusterMap)
        requires res.n@ == num_observations, res.wf(), num_observations <= usize::MAX / 2,
        ensures stopped_ok(r.count@, num_observations as int, res, self.stopping),
            exists|k: int| 0 <= k <= res.merges@.len() && r.alive@ =~= alive_after(res.merges@, num_observations as int, k) && r.count@ == num_observations - k,   // a prefix of the dendrogram was replayed: the clusters are those of the tree cut there
    {
        let ghost n0 = num_observations;
/*@REPLAY*/
        clusters
    }
    pub fn vacuity_guard_replay(&self, res: &Dendrogram, num_observations: usize) -> (r: ClusterMap)
        requires res.n@ == num_observations, res.wf(), num_observations <= usize::MAX / 2,
        ensures false,
    {
        ClusterMap::singletons(num_observations)
    }
}
} // verus!
fn main() {}
