// ---- C06/helpers.rs : recording ghost for powf (uninterpreted, functional within one harness run) ----
// powf(x, y) is left completely uninterpreted except: same (x, y) => same result, NaN only from NaN
// arguments or a negative base (only the sign-positive-base half is used as an axiom).  The table records every call so that a postcondition can check the
// ARGUMENTS the code under contract passed (the textbook formula's sub-terms) and re-evaluate.
#[allow(dead_code)]
const PF_CAP: usize = 4;
#[allow(dead_code)] static mut PF_X: [f32; PF_CAP] = [0.0; PF_CAP];
#[allow(dead_code)] static mut PF_Y: [f32; PF_CAP] = [0.0; PF_CAP];
#[allow(dead_code)] static mut PF_R: [f32; PF_CAP] = [0.0; PF_CAP];
#[allow(dead_code)] static mut PF_N: usize = 0;
#[allow(dead_code)]
fn ghost_powf32(x: f32, y: f32) -> f32 {
    let r: f32 = kani::any();
    // pow of a sign-positive base is never NaN and never negative (C99 F.9.4.4); nothing else is assumed
    if !x.is_nan() && !y.is_nan() && x.is_sign_positive() { kani::assume(!r.is_nan() && r >= 0.0); }
    unsafe {
        let mut i = 0;
        while i < PF_N {
            if x.to_bits() == PF_X[i].to_bits() && y.to_bits() == PF_Y[i].to_bits() { kani::assume(r.to_bits() == PF_R[i].to_bits()); }
            i += 1;
        }
        if PF_N < PF_CAP { PF_X[PF_N] = x; PF_Y[PF_N] = y; PF_R[PF_N] = r; PF_N += 1; }
    }
    r
}
// ---- exp ghost with a 9-entry table (a 3 x 3 Gaussian kernel matrix makes 9 calls; common/ghost_f32.rs holds 4) ----
// same axioms as common/ghost_f32.rs::ghost_exp32: no NaN from non-NaN, >= 0, <= 1 on x <= 0, >= 1 on x >= 0,
// exp(+-0) = 1, monotone (non-strict) and functional w.r.t. every recorded call.
#[allow(dead_code)] const GX_CAP: usize = 9;
#[allow(dead_code)] static mut GX_A: [f32; GX_CAP] = [0.0; GX_CAP];
#[allow(dead_code)] static mut GX_R: [f32; GX_CAP] = [0.0; GX_CAP];
#[allow(dead_code)] static mut GX_N: usize = 0;
#[allow(dead_code)]
fn ghost_exp32_big(x: f32) -> f32 {
    let r: f32 = kani::any();
    if x.is_nan() { kani::assume(r.is_nan()); return r; }
    kani::assume(!r.is_nan() && r >= 0.0);
    if x <= 0.0 { kani::assume(r <= 1.0); }
    if x >= 0.0 { kani::assume(r >= 1.0); }
    if x == 0.0 { kani::assume(r == 1.0); }
    if x == f32::NEG_INFINITY { kani::assume(r == 0.0); }
    if x == f32::INFINITY { kani::assume(r == f32::INFINITY); }
    unsafe {
        let mut i = 0;
        while i < GX_N {
            if x <= GX_A[i] { kani::assume(r <= GX_R[i]); }
            if x >= GX_A[i] { kani::assume(r >= GX_R[i]); }
            i += 1;
        }
        if GX_N < GX_CAP { GX_A[GX_N] = x; GX_R[GX_N] = r; GX_N += 1; }
    }
    r
}
