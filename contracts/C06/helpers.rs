// ---- C06/helpers.rs : recording ghost for powf (uninterpreted, functional within one harness run) ----
// powf(x, y) is left completely uninterpreted except: same (x, y) => same result, NaN only from NaN
// arguments or a negative base (only the sign-positive-base half is used as an axiom).  The table records every call so that a postcondition can check the
// ARGUMENTS the code under contract passed (the textbook formula's sub-terms) and re-evaluate.
#[allow(dead_code)]
const PF_CAP: usize = 4;
#[allow(dead_code)] static mut PF_X: [f32; PF_CAP] = [0.0; PF_CAP];
#[allow(dead_code)] static mut PF_Y: [f32; PF_CAP] = [0.0; PF_CAP];
#[allow(dead_code)] static mut PF_R: [f32; PF_CAP] = [0.0; PF_CAP];
#[allow(dead_code)] static mut PF_N: usize = 0;
#[allow(dead_code)]
fn ghost_powf32(x: f32, y: f32) -> f32 {
    let r: f32 = kani::any();
    // pow of a sign-positive base is never NaN and never negative (C99 F.9.4.4); nothing else is assumed
    if !x.is_nan() && !y.is_nan() && x.is_sign_positive() { kani::assume(!r.is_nan() && r >= 0.0); }
    unsafe {
        let mut i = 0;
        while i < PF_N {
            if x.to_bits() == PF_X[i].to_bits() && y.to_bits() == PF_Y[i].to_bits() { kani::assume(r.to_bits() == PF_R[i].to_bits()); }
            i += 1;
        }
        if PF_N < PF_CAP { PF_X[PF_N] = x; PF_Y[PF_N] = y; PF_R[PF_N] = r; PF_N += 1; }
    }
    r
}
