//! property: C05
//! unit: V-C05-roc-points
//! tier: quick
//! fns: linfa::metrics_classification::BinaryClassification::roc (the pair list: zip, filter, sort; and the loop that turns the score-sorted (score, label) pairs into cumulative (tp, fp) points)
//@ extract ROC from src/metrics_classification.rs anchor "let (mut tp, mut fp) = (0.0, 0.0);" until "let (max_tp, max_fp) = (tp, fp);"
//@ rewrite ROC "let (mut tp, mut fp) = (0.0, 0.0);" => "let (mut tp, mut fp) = (CountTok::zero(), CountTok::zero());"
//@ rewrite ROC "for (s, t) in tuples {" => "for idx in 0..tuples.len() { let (s, t) = tuples[idx];   /* by-value iteration over the sorted Vec, as an index loop */"
//@ rewrite ROC "tp += 1.0;" => "tp = tp.succ();"
//@ rewrite ROC "fp += 1.0;" => "fp = fp.succ();"
//@ rewrite ROC "let mut tps_fps = Vec::new();" => "let mut tps_fps: Vec<(CountTok, CountTok)> = Vec::new();"
//@ rewrite ROC "let mut thresholds = Vec::new();" => "let mut thresholds: Vec<ScoreTok> = Vec::new();"
//@ rewrite ROC "let mut s0 = 0.0;" => "let mut s0 = ScoreTok::zero_score();"
//@ rewrite ROC "(*s - s0).abs() > 1e-10" => "s.differs(s0)"
//@ rewrite ROC "s0 = *s;" => "s0 = s;"
//@ insert ROC before-brace "for idx in 0..tuples.len() " : invariant tp.v@ == count_label(tuples@.subrange(0, idx as int), true), fp.v@ == count_label(tuples@.subrange(0, idx as int), false), tps_fps@.len() == thresholds@.len(), idx > 0 ==> tps_fps@.len() >= 1 && tps_fps@[0].0.v@ == 0 && tps_fps@[0].1.v@ == 0, (forall|j: int| 0 <= j < tps_fps@.len() ==> tps_fps@[j].0.v@ <= tp.v@ && tps_fps@[j].1.v@ <= fp.v@), (forall|a: int, b: int| 0 <= a <= b < tps_fps@.len() ==> tps_fps@[a].0.v@ <= tps_fps@[b].0.v@ && tps_fps@[a].1.v@ <= tps_fps@[b].1.v@),
//@ insert ROC after "for idx in 0..tuples.len() " : proof { lemma_count_step(tuples@, idx as int); }
//@ extract PRE from src/metrics_classification.rs anchor "let mut tuples = self" until "let (mut tp, mut fp) = (0.0, 0.0);"
//@ rewrite PRE "let mut tuples = self" => "let mut tuples = scores"
//@ rewrite PRE ".iter()" => ".iter_tok()"
//@ rewrite PRE ".zip(y.iter_tok())" => ".zip_labels(y)"
//@ rewrite? PRE ".filter_map(|(a, b)| if **a >= 0.0 { Some((*a, *b)) } else { None })" => ".keep_if_abs(Cmp::GeZero)   /* .filter_map(|(a, b)| if **a >= 0.0 { Some((*a, *b)) } else { None }) */"
//@ rewrite? PRE ".filter_map(|(a, b)| if **a > 0.0 { Some((*a, *b)) } else { None })" => ".keep_if_abs(Cmp::GtZero)   /* .filter_map(|(a, b)| if **a > 0.0 { Some((*a, *b)) } else { None }) */"
//@ rewrite PRE ".collect::<Vec<(Pr, bool)>>();" => ".collect_tok();"
//@ drop PRE from "tuples.sort_unstable_by(&|a: &(Pr, _), b: &(Pr, _)| match a.0.partial_cmp(&b.0) {" through "});" as "        sort_by_score_abs(&mut tuples);   /* dropped: tuples.sort_unstable_by(&|a, b| a.0.partial_cmp(&b.0) ..) - ascending scores */"
//@ expect-fail vacuity_guard_roc
use vstd::prelude::*;
verus! {
// ---- tokens: a probability score is opaque; a running count is its ghost natural number ----
#[derive(Clone, Copy)]
pub struct ScoreTok { pub id: u64 }
#[derive(Clone, Copy)]
pub struct CountTok { pub v: Ghost<nat> }
impl CountTok {
    pub fn zero() -> (r: CountTok) ensures r.v@ == 0 { CountTok { v: Ghost(0) } }                // 0.0
    pub fn succ(self) -> (r: CountTok) ensures r.v@ == self.v@ + 1 { CountTok { v: Ghost(self.v@ + 1) } }   // += 1.0
}
// `(*s - s0).abs() > 1e-10`: float arithmetic, abstracted as an arbitrary (uninterpreted) relation between two scores;
// `0.0` as a score and `*s` (copy out of Pr) are tokens too
pub uninterp spec fn spec_differs(a: ScoreTok, b: ScoreTok) -> bool;
impl ScoreTok {
    pub fn zero_score() -> (r: ScoreTok) { ScoreTok { id: 0 } }                                   // the literal 0.0 used as a score
    #[verifier::external_body]
    pub fn differs(self, other: ScoreTok) -> (r: bool) ensures r == spec_differs(self, other) { unimplemented!() }
}

pub open spec fn count_label(s: Seq<(ScoreTok, bool)>, label: bool) -> nat
    decreases s.len(),
{
    if s.len() == 0 { 0 } else { count_label(s.drop_last(), label) + (if s.last().1 == label { 1nat } else { 0nat }) }
}
proof fn lemma_count_step(s: Seq<(ScoreTok, bool)>, i: int)
    requires 0 <= i < s.len(),
    ensures count_label(s.subrange(0, i + 1), true) == count_label(s.subrange(0, i), true) + (if s[i].1 { 1nat } else { 0nat }),
            count_label(s.subrange(0, i + 1), false) == count_label(s.subrange(0, i), false) + (if !s[i].1 { 1nat } else { 0nat }),
{
    assert(s.subrange(0, i + 1).drop_last() =~= s.subrange(0, i));
    assert(s.subrange(0, i + 1).last() == s[i]);
}

// ---- roc(): from the two input slices to the sorted pair list, extracted from /repo on every run ----
pub enum Cmp { GeZero, GtZero }
pub uninterp spec fn spec_is_zero(s: ScoreTok) -> bool;
pub struct ScoresTok { pub v: Ghost<Seq<ScoreTok>> }
pub struct LabelsTok { pub v: Ghost<Seq<bool>> }
pub struct PairsTok { pub v: Ghost<Seq<(ScoreTok, bool)>> }
pub open spec fn zipped(a: Seq<ScoreTok>, b: Seq<bool>) -> Seq<(ScoreTok, bool)> { Seq::new(if a.len() <= b.len() { a.len() } else { b.len() }, |i: int| (a[i], b[i])) }
impl ScoresTok {
    #[verifier::external_body] pub fn iter_tok(&self) -> (r: ScoresTok) ensures r.v@ == self.v@ { unimplemented!() }
    #[verifier::external_body] pub fn zip_labels(self, y: &LabelsTok) -> (r: PairsTok) ensures r.v@ == zipped(self.v@, y.v@) { unimplemented!() }
}
impl PairsTok {
    // the filter closure: `>= 0.0` lets every probability pass (type Pr, range [0,1] - ASSUMED), `> 0.0` drops the pairs whose score is 0
    #[verifier::external_body] pub fn keep_if_abs(self, c: Cmp) -> (r: PairsTok)
        ensures c is GeZero ==> r.v@ == self.v@, c is GtZero ==> r.v@ == self.v@.filter(|p: (ScoreTok, bool)| !spec_is_zero(p.0)),
    { unimplemented!() }
    #[verifier::external_body] pub fn collect_tok(self) -> (r: Vec<(ScoreTok, bool)>) ensures r@ == self.v@ { unimplemented!() }
}
pub uninterp spec fn spec_score_le(a: ScoreTok, b: ScoreTok) -> bool;
// ASSUMED about sort_unstable_by with the partial_cmp closure: a permutation in ascending score order
#[verifier::external_body]
pub fn sort_by_score_abs(v: &mut Vec<(ScoreTok, bool)>)
    ensures final(v)@.to_multiset() == old(v)@.to_multiset(), final(v)@.len() == old(v)@.len(),
        forall|a: int, b: int| 0 <= a <= b < final(v)@.len() ==> spec_score_le(final(v)@[a].0, final(v)@[b].0),
{ unimplemented!() }
// contract: the list handed to the point construction holds EVERY (score, label) pair of the input exactly once (no sample is left out
// of the rank statistic - in particular none with a boundary score 0 or 1) in ascending score order
fn roc_pairs(scores: &ScoresTok, y: &LabelsTok) -> (r: Vec<(ScoreTok, bool)>)
    requires scores.v@.len() == y.v@.len(),
    ensures r@.to_multiset() == zipped(scores.v@, y.v@).to_multiset(), r@.len() == scores.v@.len(),
        forall|a: int, b: int| 0 <= a <= b < r@.len() ==> spec_score_le(r@[a].0, r@[b].0),
{
/*@PRE*/
    tuples
}

// ---- roc(): the point-construction statements, extracted from /repo on every run ----
// contract (C05: "the curve running monotonically from (0,0) to (1,1)"), in un-normalised counts: the first point is (0,0)
// WHATEVER the scores are (boundary scores 0 and 1 included), the points are monotone, and the last point counts every
// positive and every negative sample (the later division by (max_tp, max_fp) then maps it to (1,1))
fn roc_points(tuples: Vec<(ScoreTok, bool)>) -> (r: (Vec<(CountTok, CountTok)>, Vec<ScoreTok>))
    requires tuples@.len() >= 1,
    ensures
        r.0@.len() >= 2 || (r.0@.len() >= 1),
        r.0@[0].0.v@ == 0 && r.0@[0].1.v@ == 0,
        r.0@.last().0.v@ == count_label(tuples@, true) && r.0@.last().1.v@ == count_label(tuples@, false),
        forall|a: int, b: int| 0 <= a <= b < r.0@.len() ==> r.0@[a].0.v@ <= r.0@[b].0.v@ && r.0@[a].1.v@ <= r.0@[b].1.v@,
        r.1@.len() + 1 == r.0@.len(),
{
    let ghost all = tuples@;
/*@ROC*/
    proof { assert(tuples@.subrange(0, tuples@.len() as int) =~= tuples@); }
    (tps_fps, thresholds)
}

fn vacuity_guard_roc(tuples: Vec<(ScoreTok, bool)>) -> (r: (Vec<(CountTok, CountTok)>, Vec<ScoreTok>))
    requires tuples@.len() >= 1,
    ensures false,
{
    (Vec::new(), Vec::new())
}
} // verus!
fn main() {}
