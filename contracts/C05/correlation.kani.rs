//! property: C05
//! attach: src/correlation.rs
//! module: vk_c05_cor
// @include common/prelude.rs
// @include common/ghost_f32.rs
// @include C05/helpers.rs
use super::*;
use ndarray::Array2;

// ------------------------------------------------------------------------------------------------
// Pearson coefficient of features i<j over n observations (textbook):
//     r_ij = cov_ij / (sigma_i sigma_j),  cov_ij = S_ij / (n-1),  sigma_i^2 = S_ii / (n-1),
//     S_ij = sum_r (x_ri - mean_i)(x_rj - mean_j)
// returned for the pairs (0,1),(0,2),..,(1,2),.. (upper triangle, row-major).
// Inputs: n = 3 observations, small integers with column sums divisible by 3, so that means, centred
// values, S_ij, S_ij/2 are exact (with n = 4 the running-mean variance of ndarray is not exact).
// ------------------------------------------------------------------------------------------------
// `ArrayBase::dot` on f32 goes to the `matrixmultiply` crate, which selects a kernel by run-time CPU feature
// detection (inline `cpuid`, not modelled by Kani).  The detection is stubbed to "no SIMD extension", so the
// portable kernel of matrixmultiply is the one executed symbolically (trusted: the AVX/FMA kernels compute the
// same products; they are not code of this repository).
fn cpuid_stub(_l: u32, _s: u32) -> core::arch::x86_64::CpuidResult { core::arch::x86_64::CpuidResult { eax: 0, ebx: 0, ecx: 0, edx: 0 } }

fn data<const K: usize>(bound: i8) -> ([[i32; K]; 3], Array2<f32>) {
    let mut x = [[0i32; K]; 3];
    let mut v = Vec::with_capacity(3 * K);
    for r in 0..3 { for j in 0..K { let e = small(bound); x[r][j] = e as i32; v.push(e as f32); } }
    for j in 0..K { kani::assume((x[0][j] + x[1][j] + x[2][j]) % 3 == 0); }
    (x, Array2::from_shape_vec((3, K), v).unwrap())
}
/// S_ij (exact)
fn s_of<const K: usize>(x: &[[i32; K]; 3], i: usize, j: usize) -> i32 {
    let mi = (x[0][i] + x[1][i] + x[2][i]) / 3;
    let mj = (x[0][j] + x[1][j] + x[2][j]) / 3;
    let mut s = 0i32;
    for r in 0..3 { s += (x[r][i] - mi) * (x[r][j] - mj); }
    s
}
/// value check with exact roots: sigma_i = ki, sigma_j = kj integers, cov = s/2
fn pearson_ok(r: f32, s: i32, ki: i32, kj: i32) -> bool {
    let cov = s as f32 / 2.0;
    feq(r, cov / (ki * kj) as f32) || feq(r, cov / ki as f32 / kj as f32) || feq(r, cov / kj as f32 / ki as f32)
}

// every argument handed to sqrt is a sample variance S_jj/(n-1), one per feature, for all inputs in the bound
// @unit class=bounded tier=thorough mem=heavy timeout=900 bound="3x2,|v|<=4,column sums divisible by 3,sqrt uninterpreted" fns=linfa::correlation::pearson_correlation
#[kani::proof]
#[kani::unwind(10)]
#[kani::stub(alloc::fmt::format, fmt_stub)]
#[kani::stub(f32::sqrt, ghost_sqrt32)]
#[kani::stub(core::arch::x86_64::__cpuid_count, cpuid_stub)]
fn c05_pearson_3x2_variances() {
    let (x, d) = data::<2>(4);
    let out = pearson_correlation(&d);
    assert!(out.len() == 1);
    unsafe {
        assert!(G_SQRT_N == 2);
        assert!(G_SQRT_A[0] == s_of(&x, 0, 0) as f32 / 2.0 && G_SQRT_A[1] == s_of(&x, 1, 1) as f32 / 2.0);
    }
    kani::cover!(s_of(&x, 0, 0) == 6 && s_of(&x, 1, 1) == 2);
}

// the coefficient itself, on inputs whose variances are perfect squares (sqrt exact there)
// @unit class=bounded tier=thorough mem=heavy timeout=900 bound="3x2,|v|<=4,column sums divisible by 3,variances perfect squares" fns=linfa::correlation::pearson_correlation
#[kani::proof]
#[kani::unwind(10)]
#[kani::stub(alloc::fmt::format, fmt_stub)]
#[kani::stub(f32::sqrt, sqrt_tab32)]
#[kani::stub(core::arch::x86_64::__cpuid_count, cpuid_stub)]
fn c05_pearson_3x2_value() {
    let (x, d) = data::<2>(4);
    let (k0, k1): (i32, i32) = (small(8) as i32, small(8) as i32);
    kani::assume(k0 >= 0 && k1 >= 0);
    kani::assume(s_of(&x, 0, 0) == 2 * announce_root(0, k0) && s_of(&x, 1, 1) == 2 * announce_root(1, k1));
    let out = pearson_correlation(&d);
    assert!(out.len() == 1);
    assert!(pearson_ok(out[0], s_of(&x, 0, 1), k0, k1));
    kani::cover!(out[0] == 1.0);
    kani::cover!(out[0] == -1.0 && k0 != k1);
    kani::cover!(out[0] == 0.5);
    kani::cover!(out[0].is_nan());
}

// three features: coefficient order (0,1),(0,2),(1,2)
// @unit class=bounded tier=thorough mem=heavy timeout=1500 bound="3x3,|v|<=2,column sums divisible by 3,variances perfect squares" fns=linfa::correlation::pearson_correlation
#[kani::proof]
#[kani::unwind(10)]
#[kani::stub(alloc::fmt::format, fmt_stub)]
#[kani::stub(f32::sqrt, sqrt_tab32)]
#[kani::stub(core::arch::x86_64::__cpuid_count, cpuid_stub)]
fn c05_pearson_3x3_order_value() {
    let (x, d) = data::<3>(2);
    let (k0, k1, k2): (i32, i32, i32) = (small(8) as i32, small(8) as i32, small(8) as i32);
    kani::assume(k0 > 0 && k1 > 0 && k2 > 0);
    kani::assume(s_of(&x, 0, 0) == 2 * announce_root(0, k0) && s_of(&x, 1, 1) == 2 * announce_root(1, k1) && s_of(&x, 2, 2) == 2 * announce_root(2, k2));
    let out = pearson_correlation(&d);
    assert!(out.len() == 3);
    assert!(pearson_ok(out[0], s_of(&x, 0, 1), k0, k1));
    assert!(pearson_ok(out[1], s_of(&x, 0, 2), k0, k2));
    assert!(pearson_ok(out[2], s_of(&x, 1, 2), k1, k2));
    kani::cover!(out[0] == 1.0 && out[1] == -1.0 && out[2] == -1.0);
    kani::cover!(out[0] != out[1] && out[1] != out[2] && out[0] != out[2]);
}

