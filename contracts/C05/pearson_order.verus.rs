//! property: C05
//! unit: V-C05-pearson-order
//! tier: quick
//! fns: linfa::correlation::pearson_correlation (allocation of the coefficient vector + the two index loops)
//@ extract LOOPS from src/correlation.rs anchor "let mut pearson_coeffs = Array1::zeros(" lines 11
//@ rewrite LOOPS "Array1::zeros(" => "zeros("
//@ rewrite LOOPS "pearson_coeffs[k] = covariance[(i, j)] / std_deviation[i] / std_deviation[j];" => "pearson_coeffs.set(k, quotient(i, j));"
//@ insert LOOPS before-brace "for i in " : invariant n == nfeatures, 1 <= n, k == off(n, i as int), pearson_coeffs@.len() == off(n, n - 1), forall|a: int, b: int| 0 <= a < b < n && a < i ==> #[trigger] holds(pearson_coeffs@, n, a, b),
//@ insert LOOPS before-brace "for j in " : invariant n == nfeatures, 1 <= n, i < n - 1, k == off(n, i as int) + (j - (i + 1)), pearson_coeffs@.len() == off(n, n - 1), off(n, i as int + 1) == off(n, i as int) + (n - (i + 1)), forall|a: int, b: int| 0 <= a < b < n && (a < i || (a == i && b < j)) ==> #[trigger] holds(pearson_coeffs@, n, a, b),
//@ insert LOOPS before "for j in " : proof { assert(off(n, i as int + 1) == off(n, i as int) + (n - (i + 1))); }
//@ insert LOOPS before "pearson_coeffs.set(k, quotient(i, j));" : let ghost before = pearson_coeffs@; proof { lemma_pos_bounds(n, i as int, j as int); assert(k == pos(n, i as int, j as int)); assert(k < pearson_coeffs.len()); }
//@ insert LOOPS after "pearson_coeffs.set(k, quotient(i, j));" : proof { assert forall|a: int, b: int| 0 <= a < b < n && (a < i || (a == i && b < j + 1)) implies #[trigger] holds(pearson_coeffs@, n, a, b) by { if a == i && b == j { } else { assert(holds(before, n, a, b)); lemma_pos_bounds(n, a, b); if a < i { lemma_off_mono(n, a + 1, i as int); } assert(pos(n, a, b) != k); } } }
//@ expect-fail vacuity_guard_coeff_order
// What is decided (for EVERY number of features n >= 1, no bound): the vector has n(n-1)/2 entries, the index
// k never leaves it and never overflows, and the coefficient of the feature pair (a,b), a<b, is stored at
// position off(n,a) + (b-a-1), i.e. the pairs appear in upper-triangle row-major order (0,1),(0,2),..,(1,2),..
// The loop text is taken from /repo on every run.  Two mechanical rewrites turn the ndarray operations into
// their Vec models: `Array1::zeros(len)` -> `zeros(len)` (a Vec of `len` unset entries) and the one assignment
// `pearson_coeffs[k] = <expression in covariance[(i,j)], std_deviation[i], std_deviation[j]>` ->
// `pearson_coeffs.set(k, quotient(i, j))`: the float value is abstracted to its provenance (which i, which j);
// the index expression k and the loop structure are the source's.  If the statement changes, the rewrite no
// longer applies and the unit reports lost-anchor.
use vstd::prelude::*;
verus! {
pub open spec fn off(n: int, i: int) -> int decreases i { if i <= 0 { 0 } else { off(n, i - 1) + (n - i) } }
pub open spec fn pos(n: int, a: int, b: int) -> int { off(n, a) + (b - a - 1) }

proof fn lemma_off_closed(n: int, i: int)
    requires 0 <= i,
    ensures 2 * off(n, i) == i * (2 * n - i - 1),
    decreases i,
{
    if i > 0 {
        lemma_off_closed(n, i - 1);
        assert(2 * (off(n, i - 1) + (n - i)) == i * (2 * n - i - 1)) by (nonlinear_arith)
            requires 2 * off(n, i - 1) == (i - 1) * (2 * n - (i - 1) - 1);
    } else {
        assert(i * (2 * n - i - 1) == 0) by (nonlinear_arith) requires i == 0;
    }
}
proof fn lemma_off_mono(n: int, a: int, b: int)
    requires 0 <= a <= b <= n,
    ensures off(n, a) <= off(n, b),
    decreases b - a,
{
    if a < b { lemma_off_mono(n, a, b - 1); }
}
proof fn lemma_off_total(n: int)
    requires 1 <= n,
    ensures 2 * off(n, n - 1) == n * (n - 1), off(n, n - 1) == (n * (n - 1)) / 2,
{
    lemma_off_closed(n, n - 1);
    assert((n - 1) * (2 * n - (n - 1) - 1) == n * (n - 1)) by (nonlinear_arith);
}
// position of pair (a,b), a<b<n, lies inside row a's segment
proof fn lemma_pos_bounds(n: int, a: int, b: int)
    requires 0 <= a < b < n,
    ensures off(n, a) <= pos(n, a, b) < off(n, a + 1), off(n, a + 1) <= off(n, n - 1),
{
    assert(off(n, a + 1) == off(n, a) + (n - (a + 1)));
    lemma_off_mono(n, a + 1, n - 1);
}

pub struct Coef { pub i: usize, pub j: usize, pub set: bool }
fn zeros(len: usize) -> (v: Vec<Coef>)
    ensures v@.len() == len, forall|p: int| 0 <= p < len ==> !(#[trigger] v@[p]).set,
{
    let mut v: Vec<Coef> = Vec::new();
    let mut c: usize = 0;
    while c < len
        invariant c <= len, v@.len() == c, forall|p: int| 0 <= p < c ==> !(#[trigger] v@[p]).set,
        decreases len - c,
    {
        v.push(Coef { i: 0, j: 0, set: false });
        c += 1;
    }
    v
}
fn quotient(i: usize, j: usize) -> (c: Coef) ensures c.i == i, c.j == j, c.set { Coef { i, j, set: true } }

pub open spec fn holds(v: Seq<Coef>, n: int, a: int, b: int) -> bool {
    0 <= pos(n, a, b) < v.len() && v[pos(n, a, b)].i == a && v[pos(n, a, b)].j == b && v[pos(n, a, b)].set
}
// premise: at least one feature and n(n-1) representable (with zero features `nfeatures - 1` underflows: the real
// function panics there; not part of the property's quantifier)
fn coeff_order(nfeatures: usize) -> (pearson_coeffs: Vec<Coef>)
    requires 1 <= nfeatures, nfeatures * (nfeatures - 1) <= usize::MAX,
    ensures
        pearson_coeffs@.len() == (nfeatures * (nfeatures - 1)) / 2,
        forall|a: int, b: int| 0 <= a < b < nfeatures ==> #[trigger] holds(pearson_coeffs@, nfeatures as int, a, b),
{
    let ghost n = nfeatures as int;
    proof { lemma_off_total(n); }
/*@LOOPS*/
    pearson_coeffs
}

fn vacuity_guard_coeff_order(nfeatures: usize) -> (pearson_coeffs: Vec<Coef>)
    requires 1 <= nfeatures, nfeatures * (nfeatures - 1) <= usize::MAX,
    ensures false,
{
    Vec::new()
}
} // verus!
fn main() {}
