//! property: C05
//! unit: V-C05-median
//! tier: quick
//! fns: linfa::metrics_regression::SingleTargetRegression::median_absolute_error (which order statistics of the absolute errors are returned)
//@ extract MED from src/metrics_regression.rs anchor ".to_vec();" until "/// Mean absolute percentage error between two continuous variables" after "fn median_absolute_error(&self, compare_to: &T) -> Result<F> {"
//@ drop MED from ".to_vec();" through ".to_vec();" as "    /* the absolute errors as a Vec: parameter `abs_error` */"
//@ rewrite? MED "abs_error.sort_by(|a, b| a.partial_cmp(b).unwrap());" => "abs_error.sort_by_abs();   /* abs_error.sort_by(|a, b| a.partial_cmp(b).unwrap()) */"
//@ rewrite? MED "abs_error.select_nth_unstable_by(mid, |a, b| a.partial_cmp(b).unwrap());" => "abs_error.select_nth_abs(mid);   /* abs_error.select_nth_unstable_by(mid, |a, b| a.partial_cmp(b).unwrap()) */"
//@ rewrite MED "abs_error[mid - 1] + abs_error[mid]" => "abs_error.at(mid - 1).plus(abs_error.at(mid))"
//@ rewrite MED "/ F::cast(2.0))" => ".halved())"
//@ rewrite MED "Ok(abs_error[mid])" => "Ok(abs_error.at(mid))"
//@ expect-fail vacuity_guard_median
use vstd::prelude::*;
verus! {
// an element of the vector is known by its rank among the absolute errors (0 = smallest), or not known at all
pub enum Val { Rank(int), Unknown(int), HalfSum(Box<Val>, Box<Val>), Sum(Box<Val>, Box<Val>) }
#[derive(Clone, Copy)]
pub struct FTok { pub v: Ghost<Val> }
impl FTok {
    pub fn plus(self, o: FTok) -> (r: FTok) ensures r.v@ == Val::Sum(Box::new(self.v@), Box::new(o.v@)) { FTok { v: Ghost(Val::Sum(Box::new(self.v@), Box::new(o.v@))) } }
    pub fn halved(self) -> (r: FTok) ensures self.v@ is Sum ==> r.v@ == Val::HalfSum(self.v@->Sum_0, self.v@->Sum_1) { FTok { v: Ghost(match self.v@ { Val::Sum(a, b) => Val::HalfSum(a, b), x => x }) } }
}
pub struct ErrVec { pub e: Ghost<Seq<Val>> }
impl ErrVec {
    #[verifier::external_body] pub fn len(&self) -> (r: usize) ensures r == self.e@.len() { unimplemented!() }
    #[verifier::external_body] pub fn at(&self, i: usize) -> (r: FTok) requires i < self.e@.len(), ensures r.v@ == self.e@[i as int] { unimplemented!() }
    // slice::sort_by with partial_cmp (ASSUMED): afterwards position i holds the i-th smallest absolute error
    #[verifier::external_body] pub fn sort_by_abs(&mut self) ensures final(self).e@.len() == old(self).e@.len(), forall|i: int| 0 <= i < final(self).e@.len() ==> #[trigger] final(self).e@[i] == Val::Rank(i) { unimplemented!() }
    // slice::select_nth_unstable_by (documented): position k holds the k-th smallest element; the others are only partitioned around it
    #[verifier::external_body] pub fn select_nth_abs(&mut self, k: usize) requires k < old(self).e@.len(), ensures final(self).e@.len() == old(self).e@.len(), final(self).e@[k as int] == Val::Rank(k as int) { unimplemented!() }
}
#[derive(Debug)]
pub struct ErrTok;
pub uninterp spec fn unknown_start(i: int) -> Val;

// ---- median_absolute_error after the vector of absolute errors has been built, extracted from /repo on every run ----
// C05 "median absolute error ... equals its textbook formula": the middle order statistic, or the mean of the two middle ones
pub fn median_of(abs_error_in: ErrVec) -> (r: Result<FTok, ErrTok>)
    requires abs_error_in.e@.len() >= 1, abs_error_in.e@.len() <= usize::MAX,
        forall|i: int| 0 <= i < abs_error_in.e@.len() ==> #[trigger] abs_error_in.e@[i] == Val::Unknown(i),
    ensures r is Ok, ({ let n = abs_error_in.e@.len() as int; let m = n / 2;
        if n % 2 == 0 { r->Ok_0.v@ == Val::HalfSum(Box::new(Val::Rank(m - 1)), Box::new(Val::Rank(m))) } else { r->Ok_0.v@ == Val::Rank(m) } }),
{
    let mut abs_error = abs_error_in;
/*@MED*/

pub fn vacuity_guard_median(abs_error_in: ErrVec) -> (r: Result<FTok, ErrTok>)
    requires abs_error_in.e@.len() >= 1, abs_error_in.e@.len() <= usize::MAX,
        forall|i: int| 0 <= i < abs_error_in.e@.len() ==> #[trigger] abs_error_in.e@[i] == Val::Unknown(i),
    ensures false,
{
    Err(ErrTok)
}
} // verus!
fn main() {}
