//! property: C05
//! unit: V-C05-silhouette-sample
//! tier: quick
//! fns: linfa::metrics_clustering::SilhouetteScore::silhouette_score (the per-sample closure: which distances enter a(x) and b(x), reset of the accumulators)
//@ extract SAMPLE from src/metrics_clustering.rs anchor "for other in self.sample_iter() {" until "            })" after "fn silhouette_score(&self) -> Result<F> {"
//@ rewrite SAMPLE "for other in self.sample_iter() {" => "for o in 0..self.nsamples() { let other = self.sample_tok(o);   /* for other in self.sample_iter() */"
//@ rewrite SAMPLE ".get_mut(other.1.into_scalar())" => "/* .get_mut(other.1.into_scalar())"
//@ rewrite SAMPLE ".add_point(sample.0, other.0);" => "*/ .add_point_abs(&sample, &other);   /* .add_point(sample.0, other.0) */"
//@ rewrite SAMPLE "let mut a_x = F::zero();" => "let mut a_x = FTok::zero();"
//@ rewrite SAMPLE "let mut b_x: Option<F> = None;" => "let mut b_x: Option<FTok> = None;"
//@ rewrite SAMPLE "for (label, counter) in &mut labels {" => "let n_labels = labels.len(); for e in 0..n_labels {   /* for (label, counter) in &mut labels: entry number e */"
//@ rewrite SAMPLE "if sample.1.into_scalar() == label {" => "if labels.is_label_of(e, &sample) {   /* sample.1.into_scalar() == label */"
//@ rewrite SAMPLE "counter.mean_distance() < v" => "labels.mean_at(e, &sample).lt_tok(v)"
//@ rewrite? SAMPLE "counter.same_label_mean_distance()" => "labels.same_mean_at(e, &sample)"
//@ rewrite SAMPLE "counter.mean_distance()" => "labels.mean_at(e, &sample)"
//@ rewrite? SAMPLE "counter.reset()" => "labels.reset_at(e);"
//@ rewrite SAMPLE "a_x >= b_x" => "a_x.ge_tok(b_x)"
//@ rewrite? SAMPLE "(b_x - a_x) / a_x" => "silhouette_abs(b_x, a_x, a_x)"
//@ rewrite? SAMPLE "(b_x - a_x) / b_x" => "silhouette_abs(b_x, a_x, b_x)"
//@ insert SAMPLE before-brace "for o in 0..self.nsamples() " : invariant self.wf(), labels.wf(self), labels.k@ == k0, labels.label@ == l0, k0 >= 2, sample.s@ == s0, 0 <= s0 < self.n@, forall|e: int| 0 <= e < k0 ==> #[trigger] labels.added@[e] == members_upto(self, l0[e], o as int),
//@ insert SAMPLE after "for o in 0..self.nsamples() " : proof { assert forall|e: int| 0 <= e < k0 implies members_upto(self, #[trigger] l0[e], o as int + 1) == (if self.label_of@[o as int] == l0[e] { members_upto(self, l0[e], o as int).push(o as int) } else { members_upto(self, l0[e], o as int) }) by { } }
//@ insert SAMPLE before-brace "for e in 0..n_labels " : invariant n_labels == k0, self.wf(), labels.wf(self), labels.k@ == k0, labels.label@ == l0, k0 >= 2, sample.s@ == s0, 0 <= s0 < self.n@, (forall|q: int| e <= q < k0 ==> #[trigger] labels.added@[q] == members_upto(self, l0[q], self.n@)), (forall|q: int| 0 <= q < e ==> #[trigger] labels.added@[q] == Seq::<int>::empty()), (forall|q: int| 0 <= q < e && #[trigger] l0[q] == self.label_of@[s0] ==> a_x.t@ == T::SameMean(s0, self.label_of@[s0])), b_x == others_min(self, l0, s0, e as int),
//@ insert SAMPLE before "let b_x = b_x.unwrap();" : proof { lemma_others_some(self, l0, s0, k0); }
//@ expect-fail vacuity_guard_silhouette
use vstd::prelude::*;
verus! {
// ---- tokens: a float is a term ----
pub enum T {
    Zero,
    Mean(int, int),            // (sum over the members o of cluster l of dist(s, o)) / |l|          for sample s, cluster l
    SameMean(int, int),        // the same sum / (|l| - 1), or 0 for a singleton cluster                (s belongs to l; dist(s, s) = 0)
    S(Box<T>, Box<T>, Box<T>), // (b - a) / denominator
}
#[derive(Clone, Copy)]
pub struct FTok { pub t: Ghost<T> }
pub uninterp spec fn spec_lt(a: T, b: T) -> bool;
pub uninterp spec fn spec_ge(a: T, b: T) -> bool;
impl FTok {
    pub fn zero() -> (r: FTok) ensures r.t@ == T::Zero { FTok { t: Ghost(T::Zero) } }
    #[verifier::external_body] pub fn lt_tok(self, o: FTok) -> (r: bool) ensures r == spec_lt(self.t@, o.t@) { unimplemented!() }
    #[verifier::external_body] pub fn ge_tok(self, o: FTok) -> (r: bool) ensures r == spec_ge(self.t@, o.t@) { unimplemented!() }
}
#[verifier::external_body]
pub fn silhouette_abs(b: FTok, a: FTok, den: FTok) -> (r: FTok) ensures r.t@ == T::S(Box::new(b.t@), Box::new(a.t@), Box::new(den.t@)) { unimplemented!() }
pub struct SampleTok { pub s: Ghost<int> }
pub struct DataV { pub n: Ghost<int>, pub label_of: Ghost<Seq<int>> }
// the samples among the first n that carry label l, in order
pub open spec fn members_upto(d: &DataV, l: int, n: int) -> Seq<int> decreases n {
    if n <= 0 { Seq::empty() } else if d.label_of@[n - 1] == l { members_upto(d, l, n - 1).push(n - 1) } else { members_upto(d, l, n - 1) }
}
// HashMap<L, DistanceCount>: entry e has a label, the cluster size (fixed) and the samples whose distance to the current sample has been
// added to its total since the last reset
pub struct LabelMap { pub k: Ghost<int>, pub label: Ghost<Seq<int>>, pub added: Ghost<Seq<Seq<int>>> }
impl LabelMap {
    pub open spec fn wf(&self, d: &DataV) -> bool {
        self.label@.len() == self.k@ && self.added@.len() == self.k@ && self.k@ <= usize::MAX
        && (forall|a: int, b: int| #![trigger self.label@[a], self.label@[b]] 0 <= a < self.k@ && 0 <= b < self.k@ && a != b ==> self.label@[a] != self.label@[b])
        && (forall|s: int| #![trigger d.label_of@[s]] 0 <= s < d.n@ ==> exists|e: int| #![trigger self.label@[e]] 0 <= e < self.k@ && self.label@[e] == d.label_of@[s])       // every label has its entry (label_count)
    }
    #[verifier::external_body] pub fn len(&self) -> (r: usize) ensures r == self.k@ { unimplemented!() }
    // labels.get_mut(label of `other`).unwrap().add_point(sample, other): total_distance of that entry += dist(sample, other)
    #[verifier::external_body]
    pub fn add_point_abs(&mut self, sample: &SampleTok, other: &SampleTok)
        ensures final(self).k@ == old(self).k@, final(self).label@ == old(self).label@, final(self).added@.len() == old(self).added@.len(),
            forall|e: int| 0 <= e < old(self).k@ ==> #[trigger] final(self).added@[e] == (if old(self).label@[e] == label_spec(other.s@) { old(self).added@[e].push(other.s@) } else { old(self).added@[e] }),
    { unimplemented!() }
    #[verifier::external_body] pub fn is_label_of(&self, e: usize, s: &SampleTok) -> (r: bool) requires e < self.k@, ensures r == (self.label@[e as int] == label_spec(s.s@)) { unimplemented!() }
    // counter.mean_distance() / same_label_mean_distance(): only meaningful when the total holds the distances to ALL members of the cluster
    #[verifier::external_body]
    pub fn mean_at(&self, e: usize, s: &SampleTok) -> (r: FTok) requires e < self.k@, self.added@[e as int] == all_members(self.label@[e as int]), ensures r.t@ == T::Mean(s.s@, self.label@[e as int]) { unimplemented!() }
    #[verifier::external_body]
    pub fn same_mean_at(&self, e: usize, s: &SampleTok) -> (r: FTok) requires e < self.k@, self.added@[e as int] == all_members(self.label@[e as int]), ensures r.t@ == T::SameMean(s.s@, self.label@[e as int]) { unimplemented!() }
    #[verifier::external_body]
    pub fn reset_at(&mut self, e: usize) requires e < old(self).k@, ensures final(self).k@ == old(self).k@, final(self).label@ == old(self).label@, final(self).added@ == old(self).added@.update(e as int, Seq::<int>::empty()) { unimplemented!() }
}
pub uninterp spec fn label_spec(s: int) -> int;
pub uninterp spec fn all_members(l: int) -> Seq<int>;
impl DataV {
    pub open spec fn wf(&self) -> bool {
        self.label_of@.len() == self.n@ && 0 <= self.n@ <= usize::MAX && (forall|s: int| 0 <= s < self.n@ ==> #[trigger] self.label_of@[s] == label_spec(s))
        && (forall|l: int| #[trigger] all_members(l) == members_upto(self, l, self.n@))
    }
    #[verifier::external_body] pub fn nsamples(&self) -> (r: usize) ensures r == self.n@ { unimplemented!() }
    #[verifier::external_body] pub fn sample_tok(&self, o: usize) -> (r: SampleTok) requires o < self.n@, ensures r.s@ == o { unimplemented!() }
}
// running minimum, in iteration order, of Mean(s, l) over the entries before `upto` whose label is not the sample's own (`<` uninterpreted)
pub open spec fn others_min(d: &DataV, l: Seq<int>, s: int, upto: int) -> Option<FTok> decreases upto {
    if upto <= 0 { None } else {
        let prev = others_min(d, l, s, upto - 1);
        if l[upto - 1] == d.label_of@[s] { prev }
        else { match prev {
            None => Some(FTok { t: Ghost(T::Mean(s, l[upto - 1])) }),
            Some(v) => if spec_lt(T::Mean(s, l[upto - 1]), v.t@) { Some(FTok { t: Ghost(T::Mean(s, l[upto - 1])) }) } else { Some(v) },
        } }
    }
}
// with at least two distinct labels there is another cluster, so b(x) exists
proof fn lemma_others_some(d: &DataV, l: Seq<int>, s: int, k: int)
    requires k >= 2, l.len() == k, forall|a: int, b: int| #![trigger l[a], l[b]] 0 <= a < k && 0 <= b < k && a != b ==> l[a] != l[b],
    ensures others_min(d, l, s, k) is Some,
{
    let q = if l[0] != d.label_of@[s] { 0int } else { 1int };
    assert(l[q] != d.label_of@[s]) by { if q == 1 { assert(l[0] != l[1]); } }
    lemma_others_mono(d, l, s, q + 1, k);
}
proof fn lemma_others_mono(d: &DataV, l: Seq<int>, s: int, a: int, b: int)
    requires 1 <= a <= b, l[a - 1] != d.label_of@[s],
    ensures others_min(d, l, s, b) is Some,
    decreases b - a,
{
    if a < b { lemma_others_mono(d, l, s, a, b - 1); }       // others_min(b - 1) is Some, and one more step keeps Some
}

impl DataV {
    // ---- the closure `|sample| { .. }` of silhouette_score, body extracted from /repo on every run ----
    // C05 (silhouette): for sample x, a(x) is the mean distance to the OTHER members of its own cluster (sum over the whole cluster, which includes
    // dist(x,x) = 0, divided by |cluster| - 1), b(x) the smallest mean distance to all members of another cluster, s(x) = (b - a) / max(a, b);
    // every accumulator is reset, so the next sample starts from zero
    pub fn sample_score(&self, labels: &mut LabelMap, sample: SampleTok, Ghost(s0): Ghost<int>) -> (r: FTok)
        requires self.wf(), old(labels).wf(self), sample.s@ == s0, 0 <= s0 < self.n@, old(labels).k@ >= 2,
            forall|e: int| 0 <= e < old(labels).k@ ==> #[trigger] old(labels).added@[e] == Seq::<int>::empty(),
        ensures final(labels).wf(self), final(labels).k@ == old(labels).k@, final(labels).label@ == old(labels).label@,
            forall|e: int| 0 <= e < old(labels).k@ ==> #[trigger] final(labels).added@[e] == Seq::<int>::empty(),
            ({ let a = T::SameMean(s0, self.label_of@[s0]); let bo = others_min(self, old(labels).label@, s0, old(labels).k@);
               bo is Some && r.t@ == (if spec_ge(a, bo.unwrap().t@) { T::S(Box::new(bo.unwrap().t@), Box::new(a), Box::new(a)) } else { T::S(Box::new(bo.unwrap().t@), Box::new(a), Box::new(bo.unwrap().t@)) }) }),     // denominator max(a, b)
    {
        let ghost l0 = labels.label@;
        let ghost k0 = labels.k@;
/*@SAMPLE*/
    }
    pub fn vacuity_guard_silhouette(&self, labels: &mut LabelMap, sample: SampleTok, Ghost(s0): Ghost<int>) -> (r: FTok)
        requires self.wf(), old(labels).wf(self), sample.s@ == s0, 0 <= s0 < self.n@, old(labels).k@ >= 2,
            forall|e: int| 0 <= e < old(labels).k@ ==> #[trigger] old(labels).added@[e] == Seq::<int>::empty(),
        ensures false,
    {
        FTok::zero()
    }
}
} // verus!
fn main() {}
