// ---- C05/helpers.rs : oracle helpers shared by the C05 harness modules (specification only) ----
/// NaN-aware equality: a score that is documented as a quotient is NaN (0/0) exactly when the
/// textbook quotient is 0/0; -0.0 == 0.0.
#[allow(dead_code)]
fn feq(a: f32, b: f32) -> bool { a == b || (a.is_nan() && b.is_nan()) }
/// one confusion-matrix cell: a count 0..15
#[allow(dead_code)]
fn cell() -> u8 { let c: u8 = kani::any(); kani::assume(c <= 15); c }
/// small signed integer -B..B
#[allow(dead_code)]
fn small(b: i8) -> i8 { let c: i8 = kani::any(); kani::assume(c >= -b && c <= b); c }
/// A textbook finite sum does not fix the order of the additions: `r` is accepted when it is the
/// mean of q0,q1,q2 under any association order (IEEE addition is commutative, not associative).
#[allow(dead_code)]
fn mean3_any_order(r: f32, q0: f32, q1: f32, q2: f32) -> bool {
    feq(r, ((q0 + q1) + q2) / 3.0) || feq(r, ((q0 + q2) + q1) / 3.0) || feq(r, ((q1 + q2) + q0) / 3.0)
}
/// |r - want| within a stated relative slack (DESIGN 5(b)); both NaN also agree
#[allow(dead_code)]
fn close(r: f32, want: f32, rel: f32) -> bool {
    (r.is_nan() && want.is_nan()) || r == want || (r - want).abs() <= rel * (1.0 + want.abs())
}
/// Square root that is EXACT on the (at most 3) perfect squares announced by the harness and the ghost
/// (uninterpreted, axiomatised) function elsewhere.  The harness announces (k*k, k) only for integers k,
/// where the IEEE square root is exactly k, so this is the real function on the announced arguments.
#[allow(dead_code)] static mut SQ_ARG: [f32; 3] = [-1.0; 3];
#[allow(dead_code)] static mut SQ_RES: [f32; 3] = [0.0; 3];
#[allow(dead_code)]
fn sqrt_tab32(x: f32) -> f32 {
    unsafe {
        if x == SQ_ARG[0] { return SQ_RES[0]; }
        if x == SQ_ARG[1] { return SQ_RES[1]; }
        if x == SQ_ARG[2] { return SQ_RES[2]; }
    }
    ghost_sqrt32(x)
}
/// announce that sqrt(k*k) == k in slot i; returns k*k
#[allow(dead_code)]
fn announce_root(i: usize, k: i32) -> i32 {
    unsafe { SQ_ARG[i] = (k * k) as f32; SQ_RES[i] = k as f32; }
    k * k
}
