//! property: C05
//! unit: V-C05-confusion-count
//! tier: quick
//! fns: linfa::metrics_classification::ToConfusionMatrix::confusion_matrix (class list, index lookup, cell counting)
//@ extract CM from src/metrics_classification.rs anchor "fn confusion_matrix(&self, ground_truth: &ArrayBase<S, Ix1>) -> Result<ConfusionMatrix<L>> {" body
//@ rewrite CM "Error::MismatchedShapes(" => "ErrTok::MismatchedShapes("
//@ rewrite CM "targets.as_slice().unwrap()," => "&targets,   /* targets.as_slice().unwrap() */"
//@ rewrite CM "ground_truth.as_slice().unwrap()," => "ground_truth,   /* ground_truth.as_slice().unwrap() */"
//@ rewrite CM "map_prediction_to_idx(" => "map_prediction_to_idx_abs("
//@ rewrite CM "Array2::zeros((classes.len(), classes.len()))" => "CMTok::zeros(classes.len(), classes.len())"
//@ rewrite CM "for (i1, i2) in indices.into_iter().flatten() {" => "for s in 0..indices.len() {   /* for (i1, i2) in indices.into_iter().flatten(): entry s, skipped when None */"
//@ rewrite CM "confusion_matrix[(" => "if let Some((i1, i2)) = indices[s] { confusion_matrix.incr("
//@ rewrite CM ")] += 1.0;" => ", Ghost(s as int)); }"
//@ rewrite CM "Ok(ConfusionMatrix {" => "Ok(ConfusionMatrixV {"
//@ rewrite CM "members: Array1::from(classes)," => "members: classes,"
//@ insert CM before-brace "for s in 0..indices.len() " : invariant indices@.len() == n_of(self), confusion_matrix.k@ == classes.v@.len(), indices_ok(indices@, classes.v@), covers(classes.v@, n_of(self)), confusion_matrix.log@.len() == s, forall|t: int| 0 <= t < s ==> counted_ok(#[trigger] confusion_matrix.log@[t], t, classes.v@),
//@ insert CM after "for s in 0..indices.len() " : proof { assert(classes.v@.contains(pred(s as int)) && classes.v@.contains(truth(s as int))); assert(indices@[s as int] is Some); }
//@ expect-fail vacuity_guard_cm
use vstd::prelude::*;
verus! {
pub uninterp spec fn pred(s: int) -> int;          // predicted label of sample s
pub uninterp spec fn truth(s: int) -> int;         // true label of sample s
#[derive(Debug)]
pub enum ErrTok { MismatchedShapes(usize, usize) }
pub struct TargetsTok { pub n: Ghost<int> }
impl TargetsTok { #[verifier::external_body] pub fn len(&self) -> (r: usize) ensures r == self.n@ { unimplemented!() } }
pub struct TruthTok { pub n: Ghost<int> }
impl TruthTok { #[verifier::external_body] pub fn len(&self) -> (r: usize) ensures r == self.n@ { unimplemented!() } }
// the class list: distinct labels
pub struct ClassVec { pub v: Ghost<Seq<int>> }
pub open spec fn same_members(a: Seq<int>, b: Seq<int>) -> bool { a.len() == b.len() && (forall|l: int| a.contains(l) <==> b.contains(l)) }
impl ClassVec {
    #[verifier::external_body] pub fn len(&self) -> (r: usize) ensures r == self.v@.len() { unimplemented!() }
    #[verifier::external_body] pub fn sort(&mut self) ensures same_members(final(self).v@, old(self).v@), forall|n: int| covers(old(self).v@, n) ==> covers(final(self).v@, n), forall|n: int| covers_pred(old(self).v@, n) ==> covers_pred(final(self).v@, n) { unimplemented!() }   // a permutation
    #[verifier::external_body] pub fn reverse(&mut self) ensures same_members(final(self).v@, old(self).v@), forall|n: int| covers(old(self).v@, n) ==> covers(final(self).v@, n), forall|n: int| covers_pred(old(self).v@, n) ==> covers_pred(final(self).v@, n) { unimplemented!() }   // a permutation
}
// every label that occurs among the n predictions or the n truths is in the list
pub open spec fn covers(c: Seq<int>, n: int) -> bool { (forall|s: int| 0 <= s < n ==> c.contains(#[trigger] pred(s))) && (forall|s: int| 0 <= s < n ==> c.contains(#[trigger] truth(s))) }
pub open spec fn covers_pred(c: Seq<int>, n: int) -> bool { forall|s: int| 0 <= s < n ==> c.contains(#[trigger] pred(s)) }
pub struct SelfTok { pub n: Ghost<int> }
pub open spec fn n_of(x: &SelfTok) -> int { x.n@ }
impl SelfTok {
    #[verifier::external_body] pub fn as_single_targets(&self) -> (r: TargetsTok) ensures r.n@ == self.n@ { unimplemented!() }
    // Labels::combined_labels: the distinct labels of the predictions and of `other` together (HashSet union, ASSUMED)
    #[verifier::external_body] pub fn combined_labels(&self, other: &TruthTok) -> (r: ClassVec) ensures covers(r.v@, self.n@) { unimplemented!() }
    // Labels::labels: the distinct labels of the predictions only
    #[verifier::external_body] pub fn labels(&self) -> (r: ClassVec) ensures covers_pred(r.v@, self.n@) { unimplemented!() }
}
// map_prediction_to_idx (HashMap lookup, ASSUMED): entry s is Some((i1, i2)) with classes[i1] = pred(s), classes[i2] = truth(s) when both
// labels are in the list, None otherwise
pub open spec fn indices_ok(ix: Seq<Option<(usize, usize)>>, c: Seq<int>) -> bool {
    forall|s: int| 0 <= s < ix.len() ==> ((#[trigger] ix[s]) is Some <==> c.contains(pred(s)) && c.contains(truth(s)))
        && (ix[s] is Some ==> ix[s].unwrap().0 < c.len() && ix[s].unwrap().1 < c.len() && c[ix[s].unwrap().0 as int] == pred(s) && c[ix[s].unwrap().1 as int] == truth(s))
}
#[verifier::external_body]
pub fn map_prediction_to_idx_abs(p: &TargetsTok, t: &TruthTok, classes: &ClassVec) -> (r: Vec<Option<(usize, usize)>>)
    requires p.n@ == t.n@,
    ensures r@.len() == p.n@, indices_ok(r@, classes.v@),
{ unimplemented!() }
// the matrix: a log of which sample incremented which cell
pub struct CMTok { pub k: Ghost<int>, pub log: Ghost<Seq<(int, int, int)>> }
impl CMTok {
    #[verifier::external_body] pub fn zeros(a: usize, b: usize) -> (r: CMTok) ensures r.k@ == a, r.log@.len() == 0 { unimplemented!() }
    #[verifier::external_body]
    pub fn incr(&mut self, i1: usize, i2: usize, s: Ghost<int>)
        requires i1 < old(self).k@, i2 < old(self).k@,                              // ndarray index panics otherwise
        ensures final(self).k@ == old(self).k@, final(self).log@ == old(self).log@.push((s@, i1 as int, i2 as int)),
    { unimplemented!() }
}
pub open spec fn counted_ok(e: (int, int, int), s: int, c: Seq<int>) -> bool { e.0 == s && 0 <= e.1 < c.len() && 0 <= e.2 < c.len() && c[e.1] == pred(s) && c[e.2] == truth(s) }
pub struct ConfusionMatrixV { pub matrix: CMTok, pub members: ClassVec }

impl SelfTok {
    // ---- confusion_matrix, body extracted from /repo on every run ----
    // C05: every (prediction, truth) pair is counted exactly once, in the cell (row of the predicted label, column of the true label) of the
    // member list the matrix is published with - so the cells sum to n and accuracy etc. are taken over all samples
    pub fn confusion_matrix(&self, ground_truth: &TruthTok) -> (r: Result<ConfusionMatrixV, ErrTok>)
        requires self.n@ <= usize::MAX,
        ensures
            r is Err <==> self.n@ != ground_truth.n@,
            r is Ok ==> r->Ok_0.matrix.k@ == r->Ok_0.members.v@.len() && r->Ok_0.matrix.log@.len() == self.n@
                && forall|t: int| 0 <= t < self.n@ ==> counted_ok(#[trigger] r->Ok_0.matrix.log@[t], t, r->Ok_0.members.v@),
    {
/*@CM*/
    }
    pub fn vacuity_guard_cm(&self, ground_truth: &TruthTok) -> (r: Result<ConfusionMatrixV, ErrTok>)
        requires self.n@ <= usize::MAX,
        ensures false,
    {
        Err(ErrTok::MismatchedShapes(0, 0))
    }
}
} // verus!
fn main() {}
