//! property: C05
//! attach: src/metrics_classification.rs
//! module: vk_c05_cls
// @include common/prelude.rs
// @include common/ghost_f32.rs
// @include C05/helpers.rs
use super::*;
use ndarray::{Array1, Array2};

// ------------------------------------------------------------------------------------------------
// Layout (property statement, the comment block inside `confusion_matrix`, the variable names of
// `split_one_vs_all`, and the unit tests `test_confusion_matrix` / `split_one_vs_all`):
//     cell (p, t) = number of samples with PREDICTED label members[p] and TRUE label members[t]
// For a binary matrix the first label is the positive one:
//     TP = (0,0)   FP = (0,1) (predicted positive, truly negative)
//     FN = (1,0) (predicted negative, truly positive)   TN = (1,1)
// Textbook definitions over these cells:
//     accuracy  = (number of equal label pairs) / (number of samples) = trace / total
//     precision = TP / (TP + FP)      (of everything predicted positive, the fraction truly positive)
//     recall    = TP / (TP + FN)      (of everything truly positive, the fraction predicted positive)
//     F_beta    = (1 + b^2) * P * R / (b^2 * P + R)                       (rustdoc of `f_score`)
//     MCC (Gorodkin's R_K; for K=2 the binary Matthews coefficient)
//               = (c*s - sum_k p_k t_k) / sqrt((s^2 - sum_k p_k^2) * (s^2 - sum_k t_k^2))
//                 c = trace, s = total, p_k = number predicted k, t_k = number truly k
// ------------------------------------------------------------------------------------------------

fn cm_of<const N: usize>(c: &[[u8; N]; N]) -> ConfusionMatrix<u8> {
    let mut v = Vec::with_capacity(N * N);
    for p in 0..N { for t in 0..N { v.push(c[p][t] as f32); } }
    let mut m = Vec::with_capacity(N);
    for k in 0..N { m.push(k as u8); }
    ConfusionMatrix { matrix: Array2::from_shape_vec((N, N), v).unwrap(), members: Array1::from(m) }
}
fn cells<const N: usize>(max: u8) -> [[u8; N]; N] {
    let mut c = [[0u8; N]; N];
    for p in 0..N { for t in 0..N { c[p][t] = cell(); kani::assume(c[p][t] <= max); } }
    c
}
fn total<const N: usize>(c: &[[u8; N]; N]) -> i32 {
    let mut s = 0i32;
    for p in 0..N { for t in 0..N { s += c[p][t] as i32; } }
    s
}
/// one-vs-all counts of class i: (tp, fp, fn, tn)
fn ova<const N: usize>(c: &[[u8; N]; N], i: usize) -> (i32, i32, i32, i32) {
    let tp = c[i][i] as i32;
    let (mut fp, mut fnn) = (0i32, 0i32);
    for k in 0..N { if k != i { fp += c[i][k] as i32; fnn += c[k][i] as i32; } }
    (tp, fp, fnn, total(c) - tp - fp - fnn)
}
/// numerator and the two marginal terms of R_K, in exact integer arithmetic
fn mcc_terms<const N: usize>(c: &[[u8; N]; N]) -> (i32, i32, i32) {
    let s = total(c);
    let (mut tr, mut p, mut t) = (0i32, [0i32; N], [0i32; N]);
    for i in 0..N { for j in 0..N { let v = c[i][j] as i32; p[i] += v; t[j] += v; if i == j { tr += v; } } }
    let (mut num, mut a, mut b) = (tr * s, s * s, s * s);
    for k in 0..N { num -= p[k] * t[k]; a -= p[k] * p[k]; b -= t[k] * t[k]; }
    (num, a, b)
}
/// Which square roots are taken (sqrt uninterpreted, ghost table read back): either the roots of the two
/// marginal terms a and b, or one root of their product.
fn mcc_roots_ok(a: i32, b: i32) -> bool {
    let (fa, fb) = (a as f32, b as f32);
    unsafe {
        (G_SQRT_N == 2 && ((G_SQRT_A[0] == fa && G_SQRT_A[1] == fb) || (G_SQRT_A[0] == fb && G_SQRT_A[1] == fa)))
            || (G_SQRT_N == 1 && G_SQRT_A[0] == fa * fb)
    }
}
/// Value on matrices where a = ra^2 and b = rb^2 are perfect squares, so sqrt(a*b) = ra*rb exactly:
/// num / (ra*rb), or the same quotient formed by two successive divisions (differs by rounding only).
fn mcc_value_ok(r: f32, num: i32, ra: i32, rb: i32) -> bool {
    let n = num as f32;
    feq(r, n / (ra * rb) as f32) || feq(r, n / ra as f32 / rb as f32) || feq(r, n / rb as f32 / ra as f32)
}
fn is_bin(m: &ConfusionMatrix<bool>, tp: i32, fp: i32, fnn: i32, tn: i32) -> bool {
    m.matrix.dim() == (2, 2)
        && m.matrix[(0, 0)] == tp as f32 && m.matrix[(0, 1)] == fp as f32
        && m.matrix[(1, 0)] == fnn as f32 && m.matrix[(1, 1)] == tn as f32
        && m.members.len() == 2 && m.members[0] && !m.members[1]
}

// ---------------------------------------------------------------- binary scores
// @unit class=bounded tier=quick bound="2x2,cells 0..15" fns=linfa::metrics_classification::ConfusionMatrix::accuracy
#[kani::proof]
#[kani::unwind(6)]
#[kani::stub(alloc::fmt::format, fmt_stub)]
fn c05_cm2_accuracy() {
    let c = cells::<2>(15);
    let cm = cm_of(&c);
    let (tp, tn, s) = (c[0][0] as i32, c[1][1] as i32, total(&c));
    assert!(feq(cm.accuracy(), (tp + tn) as f32 / s as f32));
    kani::cover!(s > 0 && cm.accuracy() == 0.5);
    kani::cover!(s == 0);
}

// @unit class=bounded tier=quick bound="2x2,cells 0..15" fns=linfa::metrics_classification::ConfusionMatrix::precision
#[kani::proof]
#[kani::unwind(6)]
#[kani::stub(alloc::fmt::format, fmt_stub)]
fn c05_cm2_precision_textbook() {
    let c = cells::<2>(15);
    let cm = cm_of(&c);
    let (tp, fp) = (c[0][0] as f32, c[0][1] as f32);
    assert!(feq(cm.precision(), tp / (tp + fp)));
    kani::cover!(c[0][1] != c[1][0] && c[0][0] > 0);
}

// @unit class=bounded tier=quick bound="2x2,cells 0..15" fns=linfa::metrics_classification::ConfusionMatrix::recall
#[kani::proof]
#[kani::unwind(6)]
#[kani::stub(alloc::fmt::format, fmt_stub)]
fn c05_cm2_recall_textbook() {
    let c = cells::<2>(15);
    let cm = cm_of(&c);
    let (tp, fnn) = (c[0][0] as f32, c[1][0] as f32);
    assert!(feq(cm.recall(), tp / (tp + fnn)));
    kani::cover!(c[0][1] != c[1][0] && c[0][0] > 0);
}

// F1 is symmetric in precision and recall; the documented formula is evaluated on the textbook P and R
// @unit class=bounded tier=quick bound="2x2,cells 0..7" fns=linfa::metrics_classification::ConfusionMatrix::f1_score,linfa::metrics_classification::ConfusionMatrix::f_score
#[kani::proof]
#[kani::unwind(6)]
#[kani::solver(kissat)]
#[kani::stub(alloc::fmt::format, fmt_stub)]
fn c05_cm2_f1() {
    let c = cells::<2>(7);
    let cm = cm_of(&c);
    let (tp, fp, fnn) = (c[0][0] as f32, c[0][1] as f32, c[1][0] as f32);
    let (p, r) = (tp / (tp + fp), tp / (tp + fnn));
    assert!(feq(cm.f1_score(), (1.0 + 1.0) * (p * r) / (1.0 * p + r)));
    assert!(feq(cm.f1_score(), cm.f_score(1.0)));
    kani::cover!(c[0][1] != c[1][0] && c[0][0] > 0);
    kani::cover!(cm.f1_score().is_nan());
}

// rustdoc of f_score: "(1.0 + b*b) * (precision * recall) / (b * b * precision + recall)"
// @unit class=bounded tier=quick bound="2x2,cells 0..7,beta in {1/2,1,2}" fns=linfa::metrics_classification::ConfusionMatrix::f_score
#[kani::proof]
#[kani::unwind(6)]
#[kani::solver(kissat)]
#[kani::stub(alloc::fmt::format, fmt_stub)]
fn c05_cm2_fbeta_of_own_scores() {
    let c = cells::<2>(7);
    let cm = cm_of(&c);
    let k: u8 = kani::any();
    kani::assume(k < 3);
    let b = [0.5f32, 1.0, 2.0][k as usize];
    let (p, r) = (cm.precision(), cm.recall());
    assert!(feq(cm.f_score(b), (1.0 + b * b) * (p * r) / (b * b * p + r)));
    kani::cover!(k == 0 && c[0][1] != c[1][0] && c[0][0] > 0);
    kani::cover!(k == 2 && c[0][0] > 0);
}

// @unit class=bounded tier=quick bound="2x2,cells 0..7,beta in {1/2,2}" fns=linfa::metrics_classification::ConfusionMatrix::f_score
#[kani::proof]
#[kani::unwind(6)]
#[kani::solver(kissat)]
#[kani::stub(alloc::fmt::format, fmt_stub)]
fn c05_cm2_fbeta_textbook() {
    let c = cells::<2>(7);
    let cm = cm_of(&c);
    let k: bool = kani::any();
    let b = if k { 0.5f32 } else { 2.0 };
    let (tp, fp, fnn) = (c[0][0] as f32, c[0][1] as f32, c[1][0] as f32);
    let (p, r) = (tp / (tp + fp), tp / (tp + fnn));
    assert!(feq(cm.f_score(b), (1.0 + b * b) * (p * r) / (b * b * p + r)));
    kani::cover!(k && c[0][1] != c[1][0] && c[0][0] > 0);
}

// @unit class=bounded tier=quick bound="2x2,cells 0..15,sqrt uninterpreted" fns=linfa::metrics_classification::ConfusionMatrix::mcc
#[kani::proof]
#[kani::unwind(6)]
#[kani::solver(kissat)]
#[kani::stub(alloc::fmt::format, fmt_stub)]
#[kani::stub(f32::sqrt, ghost_sqrt32)]
fn c05_cm2_mcc_roots() {
    let c = cells::<2>(15);
    let cm = cm_of(&c);
    let (num, a, b) = mcc_terms(&c);
    // the K-class terms are twice the terms of the binary Matthews coefficient
    let (tp, fp, fnn, tn) = (c[0][0] as i32, c[0][1] as i32, c[1][0] as i32, c[1][1] as i32);
    assert!(num == 2 * (tp * tn - fp * fnn) && a == 2 * (tp + fp) * (fnn + tn) && b == 2 * (tp + fnn) * (fp + tn));
    let _r = cm.mcc();
    assert!(mcc_roots_ok(a, b));
    kani::cover!(a > 0 && b > 0 && a != b);
}

// @unit class=bounded tier=quick bound="2x2,cells 0..15,both marginal terms perfect squares" fns=linfa::metrics_classification::ConfusionMatrix::mcc
#[kani::proof]
#[kani::unwind(6)]
#[kani::solver(kissat)]
#[kani::stub(alloc::fmt::format, fmt_stub)]
#[kani::stub(f32::sqrt, sqrt_tab32)]
fn c05_cm2_mcc_value() {
    let c = cells::<2>(15);
    let cm = cm_of(&c);
    let (num, a, b) = mcc_terms(&c);
    let (ra, rb): (i32, i32) = (kani::any(), kani::any());
    kani::assume(ra >= 0 && ra <= 42 && rb >= 0 && rb <= 42);
    kani::assume(a == announce_root(0, ra) && b == announce_root(1, rb));
    unsafe { SQ_ARG[2] = (a * b) as f32; SQ_RES[2] = (ra * rb) as f32; }
    let r = cm.mcc();
    assert!(mcc_value_ok(r, num, ra, rb));
    kani::cover!(num > 0 && ra > 0 && rb > 0 && ra != rb);
    kani::cover!(num < 0 && ra > 0 && rb > 0);
    kani::cover!(r == 1.0);
    kani::cover!(r == -0.5);
    kani::cover!(r.is_nan());
}

// ---------------------------------------------------------------- 3 classes
// @unit class=bounded tier=thorough mem=heavy bound="3x3,cells 0..3" fns=linfa::metrics_classification::ConfusionMatrix::accuracy
#[kani::proof]
#[kani::unwind(11)]
#[kani::solver(kissat)]
#[kani::stub(alloc::fmt::format, fmt_stub)]
fn c05_cm3_accuracy() {
    let c = cells::<3>(3);
    let cm = cm_of(&c);
    let tr = c[0][0] as i32 + c[1][1] as i32 + c[2][2] as i32;
    let s = total(&c);
    assert!(feq(cm.accuracy(), tr as f32 / s as f32));
    kani::cover!(s == 20 && tr == 5);
}

// (The 3-class macro averages of precision / recall -- mean over the classes of the one-vs-all scores -- did
// not finish within 600 s even for cells 0..1; they are the composition of split_one_vs_all (3x3 unit below)
// and the binary scores (2x2 units above) and are left undecided.)
// @unit class=bounded tier=thorough mem=heavy bound="3x3,cells 0..3,sqrt uninterpreted" fns=linfa::metrics_classification::ConfusionMatrix::mcc
#[kani::proof]
#[kani::unwind(11)]
#[kani::solver(kissat)]
#[kani::stub(alloc::fmt::format, fmt_stub)]
#[kani::stub(f32::sqrt, ghost_sqrt32)]
fn c05_cm3_mcc_roots() {
    let c = cells::<3>(3);
    let cm = cm_of(&c);
    let (_num, a, b) = mcc_terms(&c);
    let _r = cm.mcc();
    assert!(mcc_roots_ok(a, b));
    kani::cover!(a > 0 && b > 0 && a != b);
}

// @unit class=bounded tier=thorough mem=heavy timeout=1500 bound="3x3,cells 0..4,both marginal terms perfect squares" fns=linfa::metrics_classification::ConfusionMatrix::mcc
#[kani::proof]
#[kani::unwind(11)]
#[kani::solver(kissat)]
#[kani::stub(alloc::fmt::format, fmt_stub)]
#[kani::stub(f32::sqrt, sqrt_tab32)]
fn c05_cm3_mcc_value() {
    let c = cells::<3>(4);
    let cm = cm_of(&c);
    let (num, a, b) = mcc_terms(&c);
    let (ra, rb): (i32, i32) = (kani::any(), kani::any());
    kani::assume(ra >= 0 && ra <= 36 && rb >= 0 && rb <= 36);
    kani::assume(a == announce_root(0, ra) && b == announce_root(1, rb));
    unsafe { SQ_ARG[2] = (a * b) as f32; SQ_RES[2] = (ra * rb) as f32; }
    let r = cm.mcc();
    assert!(mcc_value_ok(r, num, ra, rb));
    kani::cover!(num > 0 && ra > 0 && rb > 0 && ra != rb);
    kani::cover!(num < 0 && ra > 0 && rb > 0);
}

// ---------------------------------------------------------------- splits
// @unit class=bounded tier=quick bound="2x2,cells 0..15" fns=linfa::metrics_classification::ConfusionMatrix::split_one_vs_all
#[kani::proof]
#[kani::unwind(6)]
#[kani::stub(alloc::fmt::format, fmt_stub)]
fn c05_cm2_one_vs_all() {
    let c = cells::<2>(15);
    let cm = cm_of(&c);
    let out = cm.split_one_vs_all();
    assert!(out.len() == 2);
    for i in 0..2 {
        let (tp, fp, fnn, tn) = ova(&c, i);
        assert!(is_bin(&out[i], tp, fp, fnn, tn));
        let m = &out[i].matrix;
        assert!(m[(0, 0)] + m[(0, 1)] + m[(1, 0)] + m[(1, 1)] == total(&c) as f32);
    }
    // the split of the positive class of a binary matrix is the matrix itself
    assert!(is_bin(&out[0], c[0][0] as i32, c[0][1] as i32, c[1][0] as i32, c[1][1] as i32));
    kani::cover!(c[0][1] != c[1][0]);
}

// @unit class=bounded tier=thorough mem=heavy bound="3x3,cells 0..3" fns=linfa::metrics_classification::ConfusionMatrix::split_one_vs_all
#[kani::proof]
#[kani::unwind(11)]
#[kani::solver(kissat)]
#[kani::stub(alloc::fmt::format, fmt_stub)]
fn c05_cm3_one_vs_all() {
    let c = cells::<3>(3);
    let cm = cm_of(&c);
    let out = cm.split_one_vs_all();
    assert!(out.len() == 3);
    for i in 0..3 {
        let (tp, fp, fnn, tn) = ova(&c, i);
        assert!(is_bin(&out[i], tp, fp, fnn, tn));
        let m = &out[i].matrix;
        assert!(m[(0, 0)] + m[(0, 1)] + m[(1, 0)] + m[(1, 1)] == total(&c) as f32);
    }
    kani::cover!(c[0][1] != c[1][0] && c[1][2] != c[2][1] && c[0][2] != c[2][0]);
}

// rustdoc: "Split confusion matrix in N*(N-1)/2 one-vs-one binary confusion matrices": one matrix per
// unordered pair i<j, restricted to the samples whose predicted and true label are both in {i,j}:
// [[C_ii, C_ij], [C_ji, C_jj]], pairs in row-major order.
// Weak form (holds whatever else the vector contains): every pair matrix occurs, in that relative order.
// @unit class=bounded tier=thorough mem=heavy bound="3x3,cells 0..15" fns=linfa::metrics_classification::ConfusionMatrix::split_one_vs_one
#[kani::proof]
#[kani::unwind(11)]
#[kani::stub(alloc::fmt::format, fmt_stub)]
fn c05_cm3_one_vs_one_pairs_present() {
    let c = cells::<3>(15);
    let cm = cm_of(&c);
    let out = cm.split_one_vs_one();
    let mut k = 0usize;
    for i in 0..3 {
        for j in (i + 1)..3 {
            while k < out.len() && !is_bin(&out[k], c[i][i] as i32, c[i][j] as i32, c[j][i] as i32, c[j][j] as i32) { k += 1; }
            assert!(k < out.len());
            k += 1;
        }
    }
    kani::cover!(c[0][1] != c[1][0] && c[1][2] != c[2][1] && c[0][0] != c[1][1] && c[1][1] != c[2][2]);
}

// Strict form: exactly the N*(N-1)/2 pair matrices.
// @unit class=bounded tier=quick mem=heavy bound="3x3,cells 0..15" fns=linfa::metrics_classification::ConfusionMatrix::split_one_vs_one
#[kani::proof]
#[kani::unwind(11)]
#[kani::stub(alloc::fmt::format, fmt_stub)]
fn c05_cm3_one_vs_one_exact() {
    let c = cells::<3>(15);
    let cm = cm_of(&c);
    let out = cm.split_one_vs_one();
    assert!(out.len() == 3);
    let mut k = 0usize;
    for i in 0..3 {
        for j in (i + 1)..3 {
            if k < out.len() {
                assert!(is_bin(&out[k], c[i][i] as i32, c[i][j] as i32, c[j][i] as i32, c[j][j] as i32));
            }
            k += 1;
        }
    }
    kani::cover!(c[0][1] != c[1][0]);
}

// ---------------------------------------------------------------- trapezoidal rule / AUC of a stored curve
// coordinates k/8, k = 0..8: every difference, sum, product, halving and partial sum is exact in f32,
// so the textbook value  sum_i (x_i - x_{i-1}) (y_i + y_{i-1}) / 2  is computed in integers (units of 1/128).
fn trapz_case<const N: usize>(monotone: bool) -> (f32, f32, Vec<(f32, f32)>) {
    let xs: [u8; N] = kani::any();
    let ys: [u8; N] = kani::any();
    let mut v: Vec<(f32, f32)> = Vec::with_capacity(N);
    for i in 0..N {
        kani::assume(xs[i] <= 8 && ys[i] <= 8);
        if monotone && i > 0 { kani::assume(xs[i - 1] <= xs[i] && ys[i - 1] <= ys[i]); }
        v.push((xs[i] as f32 / 8.0, ys[i] as f32 / 8.0));
    }
    if monotone { kani::assume(xs[0] == 0 && ys[0] == 0 && xs[N - 1] == 8 && ys[N - 1] == 8); }
    let mut acc = 0i32;
    for i in 1..N { acc += (xs[i] as i32 - xs[i - 1] as i32) * (ys[i] as i32 + ys[i - 1] as i32); }
    (trapezoidal(&v), acc as f32 / 128.0, v)
}

// @unit class=bounded tier=thorough bound="curve length 1..4, coordinates k/8" fns=linfa::metrics_classification::trapezoidal
#[kani::proof]
#[kani::unwind(6)]
#[kani::stub(alloc::fmt::format, fmt_stub)]
fn c05_trapz_len1to4() {
    let (g1, w1, _) = trapz_case::<1>(false);
    assert!(g1 == w1 && g1 == 0.0);
    let (g2, w2, _) = trapz_case::<2>(false);
    assert!(g2 == w2);
    let (g3, w3, _) = trapz_case::<3>(false);
    assert!(g3 == w3);
    let (g4, w4, _) = trapz_case::<4>(false);
    assert!(g4 == w4);
    kani::cover!(g4 == 0.5 && g3 < 0.0 && g2 > 0.0);
}

// @unit class=bounded tier=quick bound="curve length 2..4, monotone (0,0)->(1,1), coordinates k/8" fns=linfa::metrics_classification::ReceiverOperatingCharacteristic::area_under_curve,linfa::metrics_classification::ReceiverOperatingCharacteristic::get_curve
#[kani::proof]
#[kani::unwind(6)]
#[kani::stub(alloc::fmt::format, fmt_stub)]
fn c05_auc_of_stored_curve() {
    let (_, w4, v4) = trapz_case::<4>(true);
    let roc = ReceiverOperatingCharacteristic { curve: v4.clone(), thresholds: vec![0.75, 0.5, 0.25] };
    let a = roc.area_under_curve();
    assert!(a == w4 && a >= 0.0 && a <= 1.0);
    assert!(roc.get_curve() == v4);
    let (_, w2, v2) = trapz_case::<2>(true);
    let roc2 = ReceiverOperatingCharacteristic { curve: v2, thresholds: vec![0.5] };
    assert!(roc2.area_under_curve() == w2 && w2 == 0.5);
    kani::cover!(a == 1.0);
    kani::cover!(a == 0.0);
    kani::cover!(a == 0.5);
}

// ---------------------------------------------------------------- log loss
// mean over the samples of  -ln(clip(p))  for a positive and  -ln(1 - clip(p))  for a negative sample,
// clip to [eps, 1 - eps] with eps = f32::EPSILON; `ln` uninterpreted (ghost): what is decided is the
// argument of every logarithm, the sign, the sum and the division by n.
fn nll(p: f32, y: bool) -> f32 {
    let lo = f32::EPSILON;
    let hi = 1.0 - f32::EPSILON;
    let c = if p < lo { lo } else if p > hi { hi } else { p };
    if y { -ghost_ln32(c) } else { -ghost_ln32(1.0 - c) }
}
fn prob() -> f32 { let p: f32 = kani::any(); kani::assume(p >= 0.0 && p <= 1.0); p }

// @unit class=bounded tier=quick bound="n=2; p any f32 in [0,1]" fns=linfa::metrics_classification::BinaryClassification::log_loss
#[kani::proof]
#[kani::unwind(7)]
#[kani::stub(alloc::fmt::format, fmt_stub)]
#[kani::stub(f32::ln, ghost_ln32)]
fn c05_logloss_n2() {
    let (p0, p1, y0, y1): (f32, f32, bool, bool) = (prob(), prob(), kani::any(), kani::any());
    let pr = Array1::from(vec![Pr::new(p0), Pr::new(p1)]);
    let y = [y0, y1];
    let got = pr.log_loss(&y[..]).unwrap();
    let (t0, t1) = (nll(p0, y0), nll(p1, y1));
    assert!(feq(got, (t0 + t1) / 2.0));
    assert!(got >= 0.0);
    kani::cover!(y0 && !y1 && p0 == 0.0 && p1 == 1.0);
    kani::cover!(y0 && y1 && p0 > 0.25 && p0 < 0.5);
}

// @unit class=bounded tier=quick bound="n=1 (slice receiver); p any f32 in [0,1]" fns=linfa::metrics_classification::BinaryClassification::log_loss
#[kani::proof]
#[kani::unwind(7)]
#[kani::stub(alloc::fmt::format, fmt_stub)]
#[kani::stub(f32::ln, ghost_ln32)]
fn c05_logloss_slice_n1() {
    let (p0, y0): (f32, bool) = (prob(), kani::any());
    let pr = [Pr::new(p0)];
    let y = [y0];
    let got = (&pr[..]).log_loss(&y[..]).unwrap();
    assert!(feq(got, nll(p0, y0) / 1.0));
    kani::cover!(y0 && p0 == 0.0);
    kani::cover!(!y0 && p0 == 0.5);
}

// @unit class=bounded tier=quick bound="n=0" fns=linfa::metrics_classification::BinaryClassification::log_loss
#[kani::proof]
#[kani::unwind(7)]
#[kani::stub(alloc::fmt::format, fmt_stub)]
fn c05_logloss_empty_is_error() {
    let pr: Array1<Pr> = Array1::from(Vec::<Pr>::new());
    let y: [bool; 0] = [];
    let r = pr.log_loss(&y[..]);
    assert!(matches!(r, Err(Error::NotEnoughSamples)));
    let s: [Pr; 0] = [];
    let r2 = (&s[..]).log_loss(&y[..]);
    assert!(matches!(r2, Err(Error::NotEnoughSamples)));
    kani::cover!(r.is_err());
}


// ROC construction (`roc`): not decided.  Even n = 2 with CONCRETE scores (1/4, 3/4 resp. 0, 3/4) and one symbolic
// label did not finish in 400 s (std `sort_unstable_by` on the Vec produced by `filter_map`); nothing on that
// path is loop-free apart from `get_curve` / `area_under_curve`, which are covered above.


// ------------------------------------------------------------------------------------------------
// Witnesses of the KNOWN FINDINGS on precision()/recall() (known_findings.json): they pin down the exact wrong value the
// pinned tree returns.  A textbook unit above that fails is accepted as "the known finding" only while its witness
// below still discharges; any OTHER deviation from the textbook makes the witness fail and is reported as a new violation.
// @unit class=bounded tier=quick role=witness bound="2x2,cells 0..15" fns=linfa::metrics_classification::ConfusionMatrix::precision
#[kani::proof]
#[kani::unwind(6)]
#[kani::stub(alloc::fmt::format, fmt_stub)]
fn c05_cm2_precision_known_form() {
    let c = cells::<2>(15);
    let cm = cm_of(&c);
    let (tp, fnn) = (c[0][0] as f32, c[1][0] as f32);
    assert!(feq(cm.precision(), tp / (tp + fnn)));          // the value of the known finding: TP/(TP+FN)
    kani::cover!(c[0][1] != c[1][0] && c[0][0] > 0);
}

// @unit class=bounded tier=quick role=witness bound="2x2,cells 0..15" fns=linfa::metrics_classification::ConfusionMatrix::recall
#[kani::proof]
#[kani::unwind(6)]
#[kani::stub(alloc::fmt::format, fmt_stub)]
fn c05_cm2_recall_known_form() {
    let c = cells::<2>(15);
    let cm = cm_of(&c);
    let (tp, fp) = (c[0][0] as f32, c[0][1] as f32);
    assert!(feq(cm.recall(), tp / (tp + fp)));              // the value of the known finding: TP/(TP+FP)
    kani::cover!(c[0][1] != c[1][0] && c[0][0] > 0);
}

