//! property: C05
//! attach: src/metrics_regression.rs
//! module: vk_c05_reg
// @include common/prelude.rs
// @include common/ghost_f32.rs
// @include C05/helpers.rs
use super::*;
use ndarray::{Array1, Array2};

// ------------------------------------------------------------------------------------------------
// receiver = prediction yhat, argument = truth y, d_i = yhat_i - y_i, n samples. Textbook definitions:
//   max error        max_i |d_i|                    mean absolute error   (1/n) sum |d_i|
//   mean squared     (1/n) sum d_i^2                median absolute       median of |d_i| (mean of the two middle ones)
//   msle             (1/n) sum (ln(1+yhat_i) - ln(1+y_i))^2
//   mape             (1/n) sum |d_i / yhat_i|       (property statement: relative to the receiver)
//   R^2              1 - sum d_i^2 / sum (y_i - mean y)^2
//   explained var.   1 - Var(d) / Var(y),  Var(v) = (1/n) sum (v_i - mean v)^2 = (1/n) (sum v_i^2 - (sum v_i)^2 / n)
// Inputs are small integers stored in f32; the oracle is evaluated in integer arithmetic and converted
// once, so == is exact wherever the score is a single quotient of two exactly representable numbers.
// ------------------------------------------------------------------------------------------------

fn ints<const N: usize>(b: i8) -> [i8; N] {
    let mut v = [0i8; N];
    for i in 0..N { v[i] = small(b); }
    v
}
fn arr<const N: usize>(v: &[i8; N]) -> Array1<f32> {
    let mut o = Vec::with_capacity(N);
    for i in 0..N { o.push(v[i] as f32); }
    Array1::from(o)
}
/// 2-column matrix from two columns
fn mat<const N: usize>(c0: &[i8; N], c1: &[i8; N]) -> Array2<f32> {
    let mut o = Vec::with_capacity(2 * N);
    for i in 0..N { o.push(c0[i] as f32); o.push(c1[i] as f32); }
    Array2::from_shape_vec((N, 2), o).unwrap()
}
fn diffs<const N: usize>(a: &[i8; N], b: &[i8; N]) -> [i32; N] {
    let mut d = [0i32; N];
    for i in 0..N { d[i] = a[i] as i32 - b[i] as i32; }
    d
}
fn o_max<const N: usize>(a: &[i8; N], b: &[i8; N]) -> f32 {
    let d = diffs(a, b);
    let mut m = 0i32;
    for i in 0..N { if d[i].abs() > m { m = d[i].abs(); } }
    m as f32
}
fn o_mae<const N: usize>(a: &[i8; N], b: &[i8; N]) -> f32 {
    let d = diffs(a, b);
    let mut s = 0i32;
    for i in 0..N { s += d[i].abs(); }
    s as f32 / N as f32
}
fn o_mse<const N: usize>(a: &[i8; N], b: &[i8; N]) -> f32 {
    let d = diffs(a, b);
    let mut s = 0i32;
    for i in 0..N { s += d[i] * d[i]; }
    s as f32 / N as f32
}
fn o_median<const N: usize>(a: &[i8; N], b: &[i8; N]) -> f32 {
    let d = diffs(a, b);
    let mut e = [0i32; N];
    for i in 0..N { e[i] = d[i].abs(); }
    // the k-th smallest has exactly k elements before it in the order (value, index)
    let mut s = [0i32; N];
    for i in 0..N {
        let mut rank = 0usize;
        for j in 0..N { if e[j] < e[i] || (e[j] == e[i] && j < i) { rank += 1; } }
        s[rank] = e[i];
    }
    if N % 2 == 1 { s[N / 2] as f32 } else { (s[N / 2 - 1] + s[N / 2]) as f32 / 2.0 }
}
/// n * sum v^2 - (sum v)^2  ( = n^2 * Var(v) ), exact
fn nvar<const N: usize>(v: &[i32; N]) -> i32 {
    let (mut s, mut q) = (0i32, 0i32);
    for i in 0..N { s += v[i]; q += v[i] * v[i]; }
    N as i32 * q - s * s
}
fn widen<const N: usize>(v: &[i8; N]) -> [i32; N] {
    let mut o = [0i32; N];
    for i in 0..N { o[i] = v[i] as i32; }
    o
}
fn ssq<const N: usize>(v: &[i32; N]) -> i32 {
    let mut q = 0i32;
    for i in 0..N { q += v[i] * v[i]; }
    q
}
/// R^2 = 1 - SSres / SStot,  SStot = nvar(y) / n
fn o_r2<const N: usize>(a: &[i8; N], b: &[i8; N]) -> f32 {
    1.0 - (N as i32 * ssq(&diffs(a, b))) as f32 / nvar(&widen(b)) as f32
}
/// explained variance = 1 - Var(d)/Var(y) = 1 - nvar(d)/nvar(y)
fn o_ev<const N: usize>(a: &[i8; N], b: &[i8; N]) -> f32 {
    1.0 - nvar(&diffs(a, b)) as f32 / nvar(&widen(b)) as f32
}

/// Bound on the uninterpreted logarithm: the first `n` values it returned lie on the grid k/4, k = 0..16
/// (consistent with the ghost axioms for arguments >= 1), which makes differences, squares and means exact.
fn ln_results_on_grid(n: usize) {
    unsafe { assert!(G_LN_N >= n); }        // the logarithm has been taken of (at least) n quantities
    for i in 0..n {
        let k: u8 = kani::any();
        kani::assume(k <= 16);
        unsafe { kani::assume(i < G_LN_N && G_LN_R[i] == k as f32 / 4.0); }
    }
}

// ---------------------------------------------------------------- single target
// @unit class=bounded tier=quick bound="n=3,|v|<=4" fns=linfa::metrics_regression::SingleTargetRegression::max_error,linfa::metrics_regression::SingleTargetRegression::mean_absolute_error,linfa::metrics_regression::SingleTargetRegression::mean_squared_error
#[kani::proof]
#[kani::unwind(6)]
#[kani::stub(alloc::fmt::format, fmt_stub)]
fn c05_reg_max_mae_mse_n3() {
    let (a, b) = (ints::<3>(4), ints::<3>(4));
    let (pa, ta) = (arr(&a), arr(&b));
    assert!(pa.max_error(&ta).unwrap() == o_max(&a, &b));
    assert!(pa.mean_absolute_error(&ta).unwrap() == o_mae(&a, &b));
    assert!(pa.mean_squared_error(&ta).unwrap() == o_mse(&a, &b));
    kani::cover!(o_max(&a, &b) == 8.0 && o_mae(&a, &b) == 3.0);
    kani::cover!(o_mse(&a, &b) == 1.0);
}

// @unit class=bounded tier=quick bound="n=1,2,3,|v|<=4" fns=linfa::metrics_regression::SingleTargetRegression::median_absolute_error
#[kani::proof]
#[kani::unwind(6)]
#[kani::stub(alloc::fmt::format, fmt_stub)]
fn c05_reg_median_n123() {
    let (a, b) = (ints::<3>(4), ints::<3>(4));
    let m3 = arr(&a).median_absolute_error(&arr(&b)).unwrap();
    assert!(m3 == o_median(&a, &b));
    let (a2, b2) = ([a[0], a[1]], [b[0], b[1]]);
    let m2 = arr(&a2).median_absolute_error(&arr(&b2)).unwrap();
    assert!(m2 == o_median(&a2, &b2));
    let (a1, b1) = ([a[2]], [b[2]]);
    let m1 = arr(&a1).median_absolute_error(&arr(&b1)).unwrap();
    assert!(m1 == o_median(&a1, &b1));
    kani::cover!(m3 == 1.0 && m2 == 0.5 && m1 == 8.0);
    kani::cover!(diffs(&a, &b)[0].abs() > diffs(&a, &b)[1].abs() && diffs(&a, &b)[1].abs() > diffs(&a, &b)[2].abs());
}

// @unit class=bounded tier=quick bound="n=2,v in 0..4,ln uninterpreted with values on the grid k/4" fns=linfa::metrics_regression::SingleTargetRegression::mean_squared_log_error
#[kani::proof]
#[kani::unwind(7)]
#[kani::stub(alloc::fmt::format, fmt_stub)]
#[kani::stub(f32::ln, ghost_ln32)]
fn c05_reg_msle_n2() {
    let (a, b) = (ints::<2>(4), ints::<2>(4));
    kani::assume(a[0] >= 0 && a[1] >= 0 && b[0] >= 0 && b[1] >= 0);
    let got = arr(&a).mean_squared_log_error(&arr(&b)).unwrap();
    ln_results_on_grid(4);
    let e0 = ghost_ln32(1.0 + a[0] as f32) - ghost_ln32(1.0 + b[0] as f32);
    let e1 = ghost_ln32(1.0 + a[1] as f32) - ghost_ln32(1.0 + b[1] as f32);
    assert!(feq(got, (e0 * e0 + e1 * e1) / 2.0));
    kani::cover!(a[0] != b[0] && a[1] != b[1] && a[0] != a[1] && got > 0.0);
    kani::cover!(a[0] == b[0] && a[1] == b[1] && got == 0.0);
}

// @unit class=bounded tier=quick bound="n=3,|v|<=4,receiver nonzero" fns=linfa::metrics_regression::SingleTargetRegression::mean_absolute_percentage_error
#[kani::proof]
#[kani::unwind(6)]
#[kani::stub(alloc::fmt::format, fmt_stub)]
fn c05_reg_mape_n3() {
    let (a, b) = (ints::<3>(4), ints::<3>(4));
    kani::assume(a[0] != 0 && a[1] != 0 && a[2] != 0);
    let got = arr(&a).mean_absolute_percentage_error(&arr(&b)).unwrap();
    let d = diffs(&a, &b);
    let q = [(d[0] as f32 / a[0] as f32).abs(), (d[1] as f32 / a[1] as f32).abs(), (d[2] as f32 / a[2] as f32).abs()];
    assert!(mean3_any_order(got, q[0], q[1], q[2]));
    kani::cover!(a[0] == 3 && b[0] == -4 && a[1] == -3 && b[1] == 1);
    kani::cover!(a[0] != b[0] && (a[0] as i32).abs() != (b[0] as i32).abs() && got > 1.0);
}

// @unit class=bounded tier=quick bound="n=2,|v|<=4,truth non-constant" fns=linfa::metrics_regression::SingleTargetRegression::r2
#[kani::proof]
#[kani::unwind(6)]
#[kani::stub(alloc::fmt::format, fmt_stub)]
fn c05_reg_r2_n2() {
    let (a, b) = (ints::<2>(4), ints::<2>(4));
    kani::assume(b[0] != b[1]);
    let got = arr(&a).r2(&arr(&b)).unwrap();
    assert!(got == o_r2(&a, &b));
    kani::cover!(got == 1.0);
    kani::cover!(got < 0.0);
    kani::cover!(got == 0.5);
}

// n=3: mean(y) is not representable in general, the score is compared with slack 1e-5 (relative to 1+|score|)
// @unit class=bounded tier=thorough bound="n=3,|v|<=2,truth non-constant,rel. slack 1e-5" fns=linfa::metrics_regression::SingleTargetRegression::r2
#[kani::proof]
#[kani::unwind(6)]
#[kani::solver(kissat)]
#[kani::stub(alloc::fmt::format, fmt_stub)]
fn c05_reg_r2_n3() {
    let (a, b) = (ints::<3>(2), ints::<3>(2));
    kani::assume(!(b[0] == b[1] && b[1] == b[2]));
    let got = arr(&a).r2(&arr(&b)).unwrap();
    assert!(close(got, o_r2(&a, &b), 1e-5));
    kani::cover!(got == 1.0);
    kani::cover!(got < -5.0);
}

// DESIGN section 8 #5
// @unit class=bounded tier=quick bound="n=2,|v|<=4,truth non-constant" fns=linfa::metrics_regression::SingleTargetRegression::explained_variance
#[kani::proof]
#[kani::unwind(6)]
#[kani::stub(alloc::fmt::format, fmt_stub)]
fn c05_explained_variance_textbook() {
    let (a, b) = (ints::<2>(4), ints::<2>(4));
    kani::assume(b[0] != b[1]);
    let got = arr(&a).explained_variance(&arr(&b)).unwrap();
    assert!(got == o_ev(&a, &b));
    kani::cover!(o_ev(&a, &b) == 1.0 && a[0] != b[0]);
    kani::cover!(o_ev(&a, &b) == 0.0);
}

// Consequence of the two definitions: for a residual with zero mean, Var(d) = (1/n) sum d^2 and the
// explained variance is R^2.
// @unit class=bounded tier=quick bound="n=2,|v|<=4,truth non-constant,sum d = 0" fns=linfa::metrics_regression::SingleTargetRegression::explained_variance,linfa::metrics_regression::SingleTargetRegression::r2
#[kani::proof]
#[kani::unwind(6)]
#[kani::stub(alloc::fmt::format, fmt_stub)]
fn c05_reg_ev_is_r2_for_centred_residual() {
    let (a, b) = (ints::<2>(4), ints::<2>(4));
    kani::assume(b[0] != b[1]);
    let d = diffs(&a, &b);
    kani::assume(d[0] + d[1] == 0);
    let got = arr(&a).explained_variance(&arr(&b)).unwrap();
    assert!(got == o_ev(&a, &b) && got == o_r2(&a, &b));
    kani::cover!(d[0] != 0 && got < 1.0);
}

// ---------------------------------------------------------------- two target columns: every score per column
// @unit class=bounded tier=thorough mem=heavy bound="n=2 rows,2 columns,|v|<=4" fns=linfa::metrics_regression::MultiTargetRegression::max_error,linfa::metrics_regression::MultiTargetRegression::mean_absolute_error,linfa::metrics_regression::MultiTargetRegression::mean_squared_error,linfa::metrics_regression::MultiTargetRegression::median_absolute_error
#[kani::proof]
#[kani::unwind(6)]
#[kani::stub(alloc::fmt::format, fmt_stub)]
fn c05_mreg_max_mae_mse_median() {
    let (a0, a1, b0, b1) = (ints::<2>(4), ints::<2>(4), ints::<2>(4), ints::<2>(4));
    let (p, t) = (mat(&a0, &a1), mat(&b0, &b1));
    let r = p.max_error(&t).unwrap();
    assert!(r.len() == 2 && r[0] == o_max(&a0, &b0) && r[1] == o_max(&a1, &b1));
    let r = p.mean_absolute_error(&t).unwrap();
    assert!(r.len() == 2 && r[0] == o_mae(&a0, &b0) && r[1] == o_mae(&a1, &b1));
    let r = p.mean_squared_error(&t).unwrap();
    assert!(r.len() == 2 && r[0] == o_mse(&a0, &b0) && r[1] == o_mse(&a1, &b1));
    let r = p.median_absolute_error(&t).unwrap();
    assert!(r.len() == 2 && r[0] == o_median(&a0, &b0) && r[1] == o_median(&a1, &b1));
    kani::cover!(o_max(&a0, &b0) != o_max(&a1, &b1) && o_mse(&a0, &b0) != o_mse(&a1, &b1));
}

// @unit class=bounded tier=thorough mem=heavy timeout=1500 bound="n=2 rows,2 columns,column 0 symbolic |v|<=2,column 1 fixed,truth non-constant" fns=linfa::metrics_regression::MultiTargetRegression::r2
#[kani::proof]
#[kani::unwind(6)]
#[kani::solver(kissat)]
#[kani::stub(alloc::fmt::format, fmt_stub)]
fn c05_mreg_r2() {
    let (a0, a1, b0, b1) = (ints::<2>(2), [1i8, 2], ints::<2>(2), [0i8, 2]);
    kani::assume(b0[0] != b0[1]);
    let (p, t) = (mat(&a0, &a1), mat(&b0, &b1));
    let r = p.r2(&t).unwrap();
    assert!(r.len() == 2 && r[0] == o_r2(&a0, &b0) && r[1] == o_r2(&a1, &b1));
    kani::cover!(r[0] == 1.0 && r[1] == 0.5);
}

// @unit class=bounded tier=thorough mem=heavy bound="n=2 rows,2 columns,|v|<=2,receiver nonzero" fns=linfa::metrics_regression::MultiTargetRegression::mean_absolute_percentage_error
#[kani::proof]
#[kani::unwind(6)]
#[kani::solver(kissat)]
#[kani::stub(alloc::fmt::format, fmt_stub)]
fn c05_mreg_mape() {
    let (a0, a1, b0, b1) = (ints::<2>(2), ints::<2>(2), ints::<2>(2), ints::<2>(2));
    kani::assume(a0[0] != 0 && a0[1] != 0 && a1[0] != 0 && a1[1] != 0);
    let (p, t) = (mat(&a0, &a1), mat(&b0, &b1));
    let m = p.mean_absolute_percentage_error(&t).unwrap();
    let (d0, d1) = (diffs(&a0, &b0), diffs(&a1, &b1));
    let w0 = ((d0[0] as f32 / a0[0] as f32).abs() + (d0[1] as f32 / a0[1] as f32).abs()) / 2.0;
    let w1 = ((d1[0] as f32 / a1[0] as f32).abs() + (d1[1] as f32 / a1[1] as f32).abs()) / 2.0;
    assert!(m.len() == 2 && m[0] == w0 && m[1] == w1);
    kani::cover!(m[0] == 0.0 && m[1] == 1.5);
}

// @unit class=bounded tier=quick mem=heavy bound="n=1 row,2 columns,v in 0..4,ln uninterpreted with values on the grid k/4" fns=linfa::metrics_regression::MultiTargetRegression::mean_squared_log_error
#[kani::proof]
#[kani::unwind(7)]
#[kani::stub(alloc::fmt::format, fmt_stub)]
#[kani::stub(f32::ln, ghost_ln32)]
fn c05_mreg_msle() {
    let (a0, a1, b0, b1) = (ints::<1>(4), ints::<1>(4), ints::<1>(4), ints::<1>(4));
    kani::assume(a0[0] >= 0 && a1[0] >= 0 && b0[0] >= 0 && b1[0] >= 0);
    let (p, t) = (mat(&a0, &a1), mat(&b0, &b1));
    let r = p.mean_squared_log_error(&t).unwrap();
    ln_results_on_grid(4);
    let e0 = ghost_ln32(1.0 + a0[0] as f32) - ghost_ln32(1.0 + b0[0] as f32);
    let e1 = ghost_ln32(1.0 + a1[0] as f32) - ghost_ln32(1.0 + b1[0] as f32);
    assert!(r.len() == 2 && feq(r[0], e0 * e0 / 1.0) && feq(r[1], e1 * e1 / 1.0));
    kani::cover!(a0[0] != b0[0] && a1[0] == b1[0] && r[0] > 0.0 && r[1] == 0.0);
}

// @unit class=bounded tier=thorough mem=heavy timeout=1500 bound="n=2 rows,2 columns,column 0 symbolic |v|<=2,column 1 fixed,truth non-constant" fns=linfa::metrics_regression::MultiTargetRegression::explained_variance
#[kani::proof]
#[kani::unwind(6)]
#[kani::solver(kissat)]
#[kani::stub(alloc::fmt::format, fmt_stub)]
fn c05_mreg_explained_variance_textbook() {
    let (a0, a1, b0, b1) = (ints::<2>(2), [1i8, 2], ints::<2>(2), [0i8, 2]);
    kani::assume(b0[0] != b0[1]);
    let (p, t) = (mat(&a0, &a1), mat(&b0, &b1));
    let r = p.explained_variance(&t).unwrap();
    assert!(r.len() == 2 && r[0] == o_ev(&a0, &b0) && r[1] == o_ev(&a1, &b1));
    kani::cover!(o_ev(&a0, &b0) == 0.0 && o_ev(&a1, &b1) == 0.75);
}


// Witness of the KNOWN FINDING on explained_variance (known_findings.json): the exact wrong value of the pinned tree,
// 1 - (sum d^2 - mean d) / sum (y - mean y)^2.  See the note on witnesses in classification.kani.rs.
// @unit class=bounded tier=quick role=witness bound="n=2,|v|<=4,truth non-constant" fns=linfa::metrics_regression::SingleTargetRegression::explained_variance
#[kani::proof]
#[kani::unwind(6)]
#[kani::stub(alloc::fmt::format, fmt_stub)]
fn c05_explained_variance_known_form() {
    let (a, b) = (ints::<2>(4), ints::<2>(4));
    kani::assume(b[0] != b[1]);
    let got = arr(&a).explained_variance(&arr(&b)).unwrap();
    let d = diffs(&a, &b);
    let sum_sq = (d[0] * d[0] + d[1] * d[1]) as f32;
    let mean_d = (d[0] + d[1]) as f32 / 2.0;                 // exact: halves
    let wb = widen(&b);
    let den = nvar(&wb) as f32 / 2.0;                        // sum (y - mean y)^2 = (n*sum y^2 - (sum y)^2) / n, n = 2
    assert!(got == 1.0 - (sum_sq - mean_d) / den);
    kani::cover!(d[0] + d[1] != 0);
}
