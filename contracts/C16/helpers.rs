// ---- C16/helpers.rs : shared by the C16 harness modules (textual include) ----
// Small-integer-valued f32: every sum/difference/product the scalers form from such values is exact,
// so the definitions of the property statement can be compared with `==` (README rule 3).
#[allow(dead_code)]
fn c16_si(bound: i8) -> (i32, f32) {
    let v: i8 = kani::any();
    kani::assume(v >= -bound && v <= bound);
    (v as i32, v as f32)
}
// sqrt: uninterpreted (common/ghost_f32.rs) plus ONE exactness fact of IEEE-754's correctly rounded
// square root: if x == h*h where h >= 0 is a half-integer <= 2048 (so h*h is computed without
// rounding), then sqrt(x) == h.  The harness supplies the witness h; -1 means "no witness".
#[allow(dead_code)] static mut C16_SQRT_HINT: f32 = -1.0;
#[allow(dead_code)]
fn c16_sqrt32(x: f32) -> f32 {
    let r = ghost_sqrt32(x);
    let h = unsafe { C16_SQRT_HINT };
    if h >= 0.0 && h <= 2048.0 && ((h * 2.0) as i32) as f32 == h * 2.0 && h * h == x {
        kani::assume(r == h);
    }
    r
}
#[allow(dead_code)]
fn c16_close(a: f32, b: f32, tol: f32) -> bool { (a - b).abs() <= tol }
