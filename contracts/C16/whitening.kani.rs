//! property: C16
//! attach: algorithms/linfa-preprocessing/src/whitening.rs
//! module: vk_c16_white
// @include common/prelude.rs
use super::*;
use ndarray::Array2;
use linfa::dataset::DatasetBase;
use linfa::traits::Fit;

// "empty training data is rejected with an error" for the three whitening methods.  Everything else about
// whitening (SVD / Cholesky of linfa-linalg) is out of reach and declared undecided.
// @unit class=bounded tier=thorough mem=light bound="shape (0,2)" timeout=900 fns=linfa_preprocessing::whitening::Whitener::fit
#[kani::proof]
#[kani::unwind(7)]
#[kani::stub(alloc::fmt::format, fmt_stub)]
fn c16_whiten_empty_is_error() {
    let which: u8 = kani::any();
    kani::assume(which < 3);
    let w = match which { 0 => Whitener::pca(), 1 => Whitener::zca(), _ => Whitener::cholesky() };
    let ds = DatasetBase::from(Array2::<f32>::zeros((0, 2)));
    let r: Result<FittedWhitener<f32>> = w.fit(&ds);
    assert!(matches!(r, Err(PreprocessingError::NotEnoughSamples)));
    kani::cover!(which == 0);
    kani::cover!(which == 1);
    kani::cover!(which == 2);
}
