//! property: C16
//! attach: algorithms/linfa-preprocessing/src/linear_scaling.rs
//! module: vk_c16_fit
// @include common/prelude.rs
// @include common/ghost_f32.rs
// @include C16/helpers.rs
use super::*;
use ndarray::Array2;
use linfa::dataset::DatasetBase;
use linfa::traits::{Fit, Transformer};

// Oracles (property statement C16 + rustdoc of ScalingMethod):
//   standard : offset = column mean, scale = 1/std (population), constant column -> scale 1 ("only centred");
//              applied to the training data: zero mean and unit variance; no-mean keeps the mean, no-std keeps the spread
//   min-max  : offset = column min, scale = 1/(max-min), constant column -> scale 1; training data is mapped
//              onto [lo, hi] with both ends attained
//   max-abs  : offset = 0, scale = 1/max|x|, all-zero column -> scale 1; training data gets max |.| one
// Inputs are small-integer floats (|x| <= 8): every intermediate of the definitions is exact; the only
// roundings are the reciprocal and the final product, bounded by the stated tolerances.

fn c16_std_fit_n2(with_mean: bool, with_std: bool) -> i32 {
    let (a, af) = c16_si(8);
    let (b, bf) = c16_si(8);
    let d = (a - b).abs();
    let h = d as f32 / 2.0;                       // population std of {a, b} = |a-b|/2
    unsafe { C16_SQRT_HINT = h; }
    let m = Array2::from_shape_vec((2, 1), vec![af, bf]).unwrap();
    let sc = ScalingMethod::<f32>::Standard(with_mean, with_std).fit(&m).unwrap();
    let mean = (af + bf) / 2.0;
    assert!(sc.offsets().len() == 1 && sc.scales().len() == 1);
    assert!(sc.offsets()[0] == mean);
    if with_std && d != 0 { assert!(sc.scales()[0] == 1.0 / h); } else { assert!(sc.scales()[0] == 1.0); }
    assert!(*sc.method() == ScalingMethod::Standard(with_mean, with_std));
    let y = sc.transform(m);
    let (y0, y1) = (y[(0, 0)], y[(1, 0)]);
    if with_mean {
        assert!(y0 + y1 == 0.0);                                   // zero mean
        if with_std && d != 0 { assert!(c16_close(y0 * y0, 1.0, 1.0e-6) && c16_close(y1 * y1, 1.0, 1.0e-6)); }   // unit variance
        else { assert!(y0 == af - mean && y1 == bf - mean); }      // only centred: spread kept
    } else {
        assert!(c16_close((y0 + y1) / 2.0, mean, 4.0e-6));         // mean kept
        if with_std && d != 0 { assert!(c16_close((y0 - y1).abs() / 2.0, 1.0, 4.0e-6)); }                          // unit spread
        else { assert!(y0 == af && y1 == bf); }                    // nothing to do
    }
    d
}

// @unit class=bounded tier=quick mem=heavy bound="n=2,p=1,|x|<=8 integer-valued f32" timeout=900 fns=linfa_preprocessing::linear_scaling::ScalingMethod::standardize,linfa_preprocessing::linear_scaling::ScalingMethod::fit,linfa_preprocessing::linear_scaling::LinearScaler::transform
#[kani::proof]
#[kani::unwind(7)]
#[kani::stub(alloc::fmt::format, fmt_stub)]
#[kani::stub(f32::sqrt, c16_sqrt32)]
fn c16_fit_standard_mean_std() {
    let d = c16_std_fit_n2(true, true);
    kani::cover!(d == 0);
    kani::cover!(d == 3);
    kani::cover!(d == 16);
}

// @unit class=bounded tier=thorough mem=heavy bound="n=2,p=1,|x|<=8 integer-valued f32" timeout=900 fns=linfa_preprocessing::linear_scaling::ScalingMethod::standardize,linfa_preprocessing::linear_scaling::LinearScaler::transform
#[kani::proof]
#[kani::unwind(7)]
#[kani::stub(alloc::fmt::format, fmt_stub)]
#[kani::stub(f32::sqrt, c16_sqrt32)]
fn c16_fit_standard_nomean_std() {
    let d = c16_std_fit_n2(false, true);
    kani::cover!(d == 0);
    kani::cover!(d == 3);
    kani::cover!(d == 16);
}

// @unit class=bounded tier=thorough mem=heavy bound="n=2,p=1,|x|<=8 integer-valued f32" timeout=900 fns=linfa_preprocessing::linear_scaling::ScalingMethod::standardize,linfa_preprocessing::linear_scaling::LinearScaler::transform
#[kani::proof]
#[kani::unwind(7)]
#[kani::stub(alloc::fmt::format, fmt_stub)]
#[kani::stub(f32::sqrt, c16_sqrt32)]
fn c16_fit_standard_mean_nostd() {
    let d = c16_std_fit_n2(true, false);
    kani::cover!(d == 0);
    kani::cover!(d == 3);
    kani::cover!(d == 16);
}

// @unit class=bounded tier=thorough mem=heavy bound="n=2,p=1,|x|<=8 integer-valued f32" timeout=900 fns=linfa_preprocessing::linear_scaling::ScalingMethod::standardize,linfa_preprocessing::linear_scaling::LinearScaler::transform
#[kani::proof]
#[kani::unwind(7)]
#[kani::stub(alloc::fmt::format, fmt_stub)]
#[kani::stub(f32::sqrt, c16_sqrt32)]
fn c16_fit_standard_nomean_nostd() {
    let d = c16_std_fit_n2(false, false);
    kani::cover!(d == 0);
    kani::cover!(d == 3);
    kani::cover!(d == 16);
}

// three samples: the mean is one rounded division; the centred data is one rounded subtraction
// @unit class=bounded tier=thorough mem=heavy bound="n=3,p=1,|x|<=8 integer-valued f32" timeout=900 fns=linfa_preprocessing::linear_scaling::ScalingMethod::standardize,linfa_preprocessing::linear_scaling::LinearScaler::transform
#[kani::proof]
#[kani::unwind(7)]
#[kani::stub(alloc::fmt::format, fmt_stub)]
#[kani::stub(f32::sqrt, c16_sqrt32)]
fn c16_fit_standard_mean_nostd_n3() {
    let (_a, af) = c16_si(8);
    let (_b, bf) = c16_si(8);
    let (_c, cf) = c16_si(8);
    let m = Array2::from_shape_vec((3, 1), vec![af, bf, cf]).unwrap();
    let sc = ScalingMethod::<f32>::Standard(true, false).fit(&m).unwrap();
    let mean = (af + bf + cf) / 3.0;
    assert!(sc.offsets().len() == 1 && sc.offsets()[0] == mean);
    assert!(sc.scales().len() == 1 && sc.scales()[0] == 1.0);
    let y = sc.transform(m);
    assert!(y[(0, 0)] == af - mean && y[(1, 0)] == bf - mean && y[(2, 0)] == cf - mean);
    assert!(c16_close(y[(0, 0)] + y[(1, 0)] + y[(2, 0)], 0.0, 4.0e-6));
    kani::cover!(af == bf && bf == cf);
    kani::cover!(af + bf + cf == 1.0);
}

// @unit class=bounded tier=quick mem=heavy bound="n=3,p=1,|x|<=8, range ends |.|<=4, integer-valued f32" timeout=900 fns=linfa_preprocessing::linear_scaling::ScalingMethod::min_max,linfa_preprocessing::linear_scaling::ScalingMethod::fit,linfa_preprocessing::linear_scaling::LinearScaler::transform
#[kani::proof]
#[kani::unwind(7)]
#[kani::stub(alloc::fmt::format, fmt_stub)]
fn c16_fit_minmax_n3() {
    let (a, af) = c16_si(8);
    let (b, bf) = c16_si(8);
    let (c, cf) = c16_si(8);
    let (lo, lof) = c16_si(4);
    let (hi, hif) = c16_si(4);
    kani::assume(lo <= hi);
    let m = Array2::from_shape_vec((3, 1), vec![af, bf, cf]).unwrap();
    let sc = ScalingMethod::<f32>::MinMax(lof, hif).fit(&m).unwrap();
    let mn = a.min(b).min(c);
    let mx = a.max(b).max(c);
    assert!(sc.offsets().len() == 1 && sc.scales().len() == 1);
    assert!(sc.offsets()[0] == mn as f32);
    if mx == mn { assert!(sc.scales()[0] == 1.0); } else { assert!(sc.scales()[0] == 1.0 / ((mx - mn) as f32)); }
    let y = sc.transform(m);
    let xs = [a, b, c];
    let tol = 4.0e-6;
    for i in 0..3 {
        let yi = y[(i, 0)];
        assert!(yi >= lof - tol && yi <= hif + tol);                 // inside the requested range
        if xs[i] == mn { assert!(yi == lof); }                       // lower end attained (also: constant column -> lo)
        if xs[i] == mx && mx != mn { assert!(c16_close(yi, hif, tol)); }   // upper end attained
    }
    kani::cover!(mx == mn);
    kani::cover!(mx - mn == 3 && lo < hi);
    kani::cover!(lo == hi && mx != mn);
    kani::cover!(mx - mn == 16);
}

// @unit class=bounded tier=quick mem=heavy bound="n=3,p=1,|x|<=8 integer-valued f32" timeout=900 fns=linfa_preprocessing::linear_scaling::ScalingMethod::max_abs,linfa_preprocessing::linear_scaling::ScalingMethod::fit,linfa_preprocessing::linear_scaling::LinearScaler::transform
#[kani::proof]
#[kani::unwind(7)]
#[kani::stub(alloc::fmt::format, fmt_stub)]
fn c16_fit_maxabs_n3() {
    let (a, af) = c16_si(8);
    let (b, bf) = c16_si(8);
    let (c, cf) = c16_si(8);
    let m = Array2::from_shape_vec((3, 1), vec![af, bf, cf]).unwrap();
    let sc = ScalingMethod::<f32>::MaxAbs.fit(&m).unwrap();
    let ma = a.abs().max(b.abs()).max(c.abs());
    assert!(sc.offsets().len() == 1 && sc.scales().len() == 1);
    assert!(sc.offsets()[0] == 0.0);
    if ma == 0 { assert!(sc.scales()[0] == 1.0); } else { assert!(sc.scales()[0] == 1.0 / (ma as f32)); }
    let y = sc.transform(m);
    let xs = [a, b, c];
    let tol = 1.0e-6;
    for i in 0..3 {
        let yi = y[(i, 0)];
        assert!(yi.abs() <= 1.0 + tol);
        if ma != 0 && xs[i].abs() == ma { assert!(c16_close(yi.abs(), 1.0, tol)); }   // maximum absolute value one
        if xs[i] == 0 { assert!(yi == 0.0); }                                          // zero stays zero (all-zero column)
        if xs[i] > 0 { assert!(yi > 0.0); }
        if xs[i] < 0 { assert!(yi < 0.0); }
    }
    kani::cover!(ma == 0);
    kani::cover!(ma == 7);
    kani::cover!(a == -8 && b == 3);
}

// empty training data is rejected with an error, for every method, array and dataset form
// @unit class=bounded tier=quick mem=light bound="shape (0,1)" timeout=600 fns=linfa_preprocessing::linear_scaling::ScalingMethod::fit,linfa_preprocessing::linear_scaling::LinearScalerParams::fit
#[kani::proof]
#[kani::unwind(7)]
#[kani::stub(alloc::fmt::format, fmt_stub)]
#[kani::stub(f32::sqrt, c16_sqrt32)]
fn c16_fit_empty_is_error() {
    let which: u8 = kani::any();
    kani::assume(which < 6);
    let (lof, hif): (f32, f32) = (kani::any(), kani::any());
    kani::assume(lof.is_finite() && hif.is_finite());
    let method = match which {
        0 => ScalingMethod::<f32>::Standard(true, true),
        1 => ScalingMethod::Standard(false, true),
        2 => ScalingMethod::Standard(true, false),
        3 => ScalingMethod::Standard(false, false),
        4 => ScalingMethod::MinMax(lof, hif),
        _ => ScalingMethod::MaxAbs,
    };
    let m = Array2::<f32>::zeros((0, 1));
    let r = method.fit(&m);
    assert!(r.is_err());
    if which != 4 || lof <= hif { assert!(matches!(r, Err(PreprocessingError::NotEnoughSamples))); }
    let ds = DatasetBase::from(Array2::<f32>::zeros((0, 1)));
    let r2 = LinearScalerParams::new(method).fit(&ds);
    assert!(r2.is_err());
    kani::cover!(which == 0);
    kani::cover!(which == 4 && lof > hif);
    kani::cover!(which == 5);
}

// flipped min-max range is rejected, an ordered one accepted (rustdoc of min_max_range), all finite ends
// @unit class=bounded tier=quick mem=light bound="n=1,p=1; range ends: all finite f32" timeout=600 fns=linfa_preprocessing::linear_scaling::ScalingMethod::min_max,linfa_preprocessing::linear_scaling::LinearScalerParams::fit
#[kani::proof]
#[kani::unwind(7)]
#[kani::stub(alloc::fmt::format, fmt_stub)]
fn c16_fit_minmax_flipped_is_error() {
    let (lof, hif): (f32, f32) = (kani::any(), kani::any());
    kani::assume(lof.is_finite() && hif.is_finite());
    let (_x, xf) = c16_si(8);
    let ds = DatasetBase::from(Array2::from_shape_vec((1, 1), vec![xf]).unwrap());
    let r = LinearScaler::min_max_range(lof, hif).fit(&ds);
    if lof > hif { assert!(matches!(r, Err(PreprocessingError::FlippedMinMaxRange))); } else { assert!(r.is_ok()); }
    kani::cover!(lof > hif);
    kani::cover!(lof == hif);
    kani::cover!(lof < hif);
}
