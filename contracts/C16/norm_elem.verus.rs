//! property: C16
//! unit: V-C16-norm-elementwise
//! tier: quick
//! fns: linfa_preprocessing::norm_scaling::NormScaler::transform (array form: choice of the row norm, the per-row closure and its element closure)
//@ extract NK from algorithms/linfa-preprocessing/src/norm_scaling.rs anchor "let norms = match &self.norm {" block
//@ rewrite? NK "x.map_axis(Axis(1), |row| F::cast(row.norm_l1()))" => "x.row_norms(Norms::L1)   /* x.map_axis(Axis(1), |row| F::cast(row.norm_l1())) */"
//@ rewrite? NK "x.map_axis(Axis(1), |row| F::cast(row.norm_l2()))" => "x.row_norms(Norms::L2)   /* x.map_axis(Axis(1), |row| F::cast(row.norm_l2())) */"
//@ rewrite? NK "x.map_axis(Axis(1), |row| F::cast(row.norm_max()))" => "x.row_norms(Norms::Max)   /* x.map_axis(Axis(1), |row| F::cast(row.norm_max())) */"
//@ extract RB from algorithms/linfa-preprocessing/src/norm_scaling.rs anchor ".for_each(|mut row, &norm| {" body
//@ rewrite? RB "norm > F::zero()" => "norm.gt_zero()"
//@ rewrite? RB "F::zero() < norm" => "norm.gt_zero()"
//@ rewrite? RB "norm != F::zero()" => "norm.ne_zero()"
//@ rewrite RB "row.mapv_inplace(|el| " => "row.mapv_inplace(|el: FT| -> (o: FT) ensures o.v@ == el.v@ / norm.v@ { "
//@ rewrite RB ");" => " });"
//@ expect-fail vacuity_guard_norm
use vstd::prelude::*;
use vstd::std_specs::ops::*;
verus! {
// ---- floats as mathematical numbers (DESIGN.md 4.3) ----
#[derive(Clone, Copy)]
pub struct FT { pub v: Ghost<real> }
impl core::ops::Div for FT { type Output = FT; #[verifier::external_body] fn div(self, o: FT) -> (r: FT) { unimplemented!() } }
impl DivSpecImpl<FT> for FT {
    open spec fn obeys_div_spec() -> bool { true }
    open spec fn div_req(self, o: FT) -> bool { true }
    open spec fn div_spec(self, o: FT) -> FT { FT { v: Ghost(self.v@ / o.v@) } }
}
impl core::ops::Mul for FT { type Output = FT; #[verifier::external_body] fn mul(self, o: FT) -> (r: FT) { unimplemented!() } }
impl MulSpecImpl<FT> for FT {
    open spec fn obeys_mul_spec() -> bool { true }
    open spec fn mul_req(self, o: FT) -> bool { true }
    open spec fn mul_spec(self, o: FT) -> FT { FT { v: Ghost(self.v@ * o.v@) } }
}
impl FT {
    #[verifier::external_body] pub fn gt_zero(self) -> (r: bool) ensures r == (self.v@ > 0real) { unimplemented!() }
    #[verifier::external_body] pub fn ne_zero(self) -> (r: bool) ensures r == (self.v@ != 0real) { unimplemented!() }
}
#[derive(Clone, Copy, PartialEq, Eq)]
pub enum Norms { L1, L2, Max }
pub uninterp spec fn row_norm(kind: Norms, row: Seq<real>) -> real;                 // the l1 / l2 / max norm of a row (never negative)
pub struct RowTok { pub v: Ghost<Seq<real>> }
impl RowTok {
    // mapv_inplace replaces every element by f(element), nothing else (ASSUMED of ndarray)
    #[verifier::external_body]
    pub fn mapv_inplace<G: Fn(FT) -> FT>(&mut self, f: G)
        requires forall|e: FT| f.requires((e,)),
        ensures final(self).v@.len() == old(self).v@.len(),
            forall|i: int| 0 <= i < old(self).v@.len() ==> exists|e: FT, o: FT| e.v@ == old(self).v@[i] && #[trigger] f.ensures((e,), o) && o.v@ == #[trigger] final(self).v@[i],
    { unimplemented!() }
}
pub struct NormsTok { pub kind: Ghost<Norms>, pub of: Ghost<Seq<Seq<real>>> }
pub struct MatTok { pub v: Ghost<Seq<Seq<real>>> }
impl MatTok {
    // map_axis(Axis(1), |row| F::cast(row.norm_K())): entry i is the K-norm of row i (ASSUMED of ndarray / linfa-linalg)
    #[verifier::external_body] pub fn row_norms(&self, kind: Norms) -> (r: NormsTok) ensures r.kind@ == kind, r.of@ == self.v@ { unimplemented!() }
}
pub struct NormScalerV { pub norm: Norms }
impl NormScalerV {
    // ---- which norm: "unit norm in the CHOSEN norm" ----
    pub fn choose(&self, x: &MatTok) -> (r: NormsTok)
        ensures r.kind@ == self.norm, r.of@ == x.v@,
    {
/*@NK*/
        ;
        norms
    }
    // ---- the per-row closure: a row of positive norm is divided by its norm element by element; a row of norm zero is left alone
    // (repaired defect 16: it used to become NaN) ----
    pub fn row_step(&self, row_in: RowTok, norm: FT) -> (r: RowTok)
        requires norm.v@ >= 0real,
        ensures r.v@.len() == row_in.v@.len(),
            norm.v@ > 0real ==> forall|i: int| 0 <= i < row_in.v@.len() ==> #[trigger] r.v@[i] == row_in.v@[i] / norm.v@,
            norm.v@ == 0real ==> r.v@ =~= row_in.v@,
    {
        let mut row = row_in;
/*@RB*/
        row
    }
    pub fn vacuity_guard_norm(&self, row_in: RowTok, norm: FT) -> (r: RowTok)
        requires norm.v@ >= 0real,
        ensures false,
    {
        row_in
    }
}
} // verus!
fn main() {}
