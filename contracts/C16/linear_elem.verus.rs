//! property: C16
//! unit: V-C16-linear-elementwise
//! tier: quick
//! smtopt: smt.arith.nl=true
//! fns: linfa_preprocessing::linear_scaling::LinearScaler::transform (array form: the per-column closure and its two element closures, the MinMax tail), linfa_preprocessing::linear_scaling::ScalingMethod::standardize (scale closure), linfa_preprocessing::linear_scaling::ScalingMethod::min_max (scale closure), linfa_preprocessing::linear_scaling::ScalingMethod::max_abs (scale closure)
//@ extract CB from algorithms/linfa-preprocessing/src/linear_scaling.rs anchor ".for_each(|mut col, &offset, &scale| {" body
//@ rewrite CB "col.mapv_inplace(|el| " => "col.mapv_inplace(|el: FT| -> (o: FT) ensures elem_ok(self.method, el.v@, offset.v@, scale.v@, o.v@) { "
//@ rewrite CB ");" => " });"
//@ extract TAIL from algorithms/linfa-preprocessing/src/linear_scaling.rs anchor "match &self.method {" block after "fn transform(&self, x: Array2<F>) -> Array2<F> {"
//@ extract STD from algorithms/linfa-preprocessing/src/linear_scaling.rs anchor "records.std_axis(Axis(0), F::zero()).mapv(|s| {" body
//@ rewrite STD "abs_diff_eq!(s, F::zero())" => "s.near_zero()"
//@ rewrite STD "F::one()" => "FT::one()"
//@ extract MM from algorithms/linfa-preprocessing/src/linear_scaling.rs anchor "Zip::from(&mut scales).and(&mins).for_each(|max, min| {" body
//@ rewrite MM "abs_diff_eq!(*max - *min, F::zero())" => "(*max - *min).near_zero()"
//@ rewrite MM "F::one()" => "FT::one()"
//@ extract MA from algorithms/linfa-preprocessing/src/linear_scaling.rs anchor "records.map_axis(Axis(0), |col| {" body
//@ rewrite MA "F::cast(col.with_lapack().norm_max())" => "col.norm_max()   /* F::cast(col.with_lapack().norm_max()) */"
//@ rewrite MA "abs_diff_eq!(norm_max, F::zero())" => "norm_max.near_zero()"
//@ rewrite MA "F::one()" => "FT::one()"
//@ expect-fail vacuity_guard_elem
use vstd::prelude::*;
use vstd::std_specs::ops::*;
verus! {
// ---- floats as mathematical numbers (DESIGN.md 4.3): F is a token carrying a `real`; + - * / are the source's own operators ----
#[derive(Clone, Copy)]
pub struct FT { pub v: Ghost<real> }
macro_rules! binop { ($tr:ident, $m:ident, $sp:ident, $req:ident, $spec:ident, $obeys:ident, $op:tt) => { verus!{
impl core::ops::$tr for FT { type Output = FT; #[verifier::external_body] fn $m(self, o: FT) -> (r: FT) { unimplemented!() } }
impl $sp<FT> for FT {
    open spec fn $obeys() -> bool { true }
    open spec fn $req(self, o: FT) -> bool { true }
    open spec fn $spec(self, o: FT) -> FT { FT { v: Ghost(self.v@ $op o.v@) } }
}
}}}
binop!(Mul, mul, MulSpecImpl, mul_req, mul_spec, obeys_mul_spec, *);
binop!(Add, add, AddSpecImpl, add_req, add_spec, obeys_add_spec, +);
binop!(Sub, sub, SubSpecImpl, sub_req, sub_spec, obeys_sub_spec, -);
binop!(Div, div, DivSpecImpl, div_req, div_spec, obeys_div_spec, /);
pub open spec fn rabs(a: real) -> real { if a >= 0real { a } else { -a } }
pub uninterp spec fn eps() -> real;                     // F::default_epsilon() of the approx crate (ASSUMED positive)
impl FT {
    #[verifier::external_body] pub fn one() -> (r: FT) ensures r.v@ == 1real { unimplemented!() }
    // approx::abs_diff_eq!(a, 0): |a| <= epsilon (ASSUMED of the approx crate)
    #[verifier::external_body] pub fn near_zero(self) -> (r: bool) ensures r == (rabs(self.v@) <= eps()), self.v@ == 0real ==> r { unimplemented!() }
}
#[derive(Clone, Copy)]
pub enum ScalingMethod { Standard(bool, bool), MinMax(FT, FT), MaxAbs }
// ---- C16 "each fitted transform is a fixed affine map applied row by row": what one element of column j becomes, given only the element and
// the fitted offset / scale of its column.  Standard without mean removal "keeps the mean": the deviation from the mean is scaled, the mean stays ----
pub open spec fn elem_ok(m: ScalingMethod, el: real, off: real, sc: real, o: real) -> bool {
    match m {
        ScalingMethod::Standard(false, _) => o == (el - off) * sc + off,
        _ => o == (el - off) * sc,
    }
}
// a mutable column view: mapv_inplace replaces every element by f(element), nothing else (ASSUMED of ndarray)
pub struct ColTok { pub v: Ghost<Seq<real>> }
impl ColTok {
    #[verifier::external_body]
    pub fn mapv_inplace<G: Fn(FT) -> FT>(&mut self, f: G)
        requires forall|e: FT| f.requires((e,)),
        ensures final(self).v@.len() == old(self).v@.len(),
            forall|i: int| 0 <= i < old(self).v@.len() ==> exists|e: FT, o: FT| e.v@ == old(self).v@[i] && #[trigger] f.ensures((e,), o) && o.v@ == #[trigger] final(self).v@[i],
    { unimplemented!() }
    // Norm::norm_max of a column view: the largest absolute entry
    #[verifier::external_body] pub fn norm_max(&self) -> (r: FT) ensures r.v@ == colmax(self.v@), r.v@ >= 0real { unimplemented!() }
}
pub uninterp spec fn colmax(c: Seq<real>) -> real;
// the owned matrix of the MinMax tail `x * (max - min) + min`: scalar broadcast, element-wise (ASSUMED of ndarray)
pub struct MatTok { pub v: Ghost<Seq<Seq<real>>> }
impl core::ops::Mul<FT> for MatTok { type Output = MatTok; #[verifier::external_body] fn mul(self, o: FT) -> (r: MatTok) { unimplemented!() } }
impl MulSpecImpl<FT> for MatTok {
    open spec fn obeys_mul_spec() -> bool { true }
    open spec fn mul_req(self, o: FT) -> bool { true }
    open spec fn mul_spec(self, o: FT) -> MatTok { MatTok { v: Ghost(Seq::new(self.v@.len(), |i: int| Seq::new(self.v@[i].len(), |j: int| self.v@[i][j] * o.v@))) } }
}
impl core::ops::Add<FT> for MatTok { type Output = MatTok; #[verifier::external_body] fn add(self, o: FT) -> (r: MatTok) { unimplemented!() } }
impl AddSpecImpl<FT> for MatTok {
    open spec fn obeys_add_spec() -> bool { true }
    open spec fn add_req(self, o: FT) -> bool { true }
    open spec fn add_spec(self, o: FT) -> MatTok { MatTok { v: Ghost(Seq::new(self.v@.len(), |i: int| Seq::new(self.v@[i].len(), |j: int| self.v@[i][j] + o.v@))) } }
}
impl core::ops::Sub<FT> for MatTok { type Output = MatTok; #[verifier::external_body] fn sub(self, o: FT) -> (r: MatTok) { unimplemented!() } }
impl SubSpecImpl<FT> for MatTok {
    open spec fn obeys_sub_spec() -> bool { true }
    open spec fn sub_req(self, o: FT) -> bool { true }
    open spec fn sub_spec(self, o: FT) -> MatTok { MatTok { v: Ghost(Seq::new(self.v@.len(), |i: int| Seq::new(self.v@[i].len(), |j: int| self.v@[i][j] - o.v@))) } }
}
impl core::ops::Div<FT> for MatTok { type Output = MatTok; #[verifier::external_body] fn div(self, o: FT) -> (r: MatTok) { unimplemented!() } }
impl DivSpecImpl<FT> for MatTok {
    open spec fn obeys_div_spec() -> bool { true }
    open spec fn div_req(self, o: FT) -> bool { true }
    open spec fn div_spec(self, o: FT) -> MatTok { MatTok { v: Ghost(Seq::new(self.v@.len(), |i: int| Seq::new(self.v@[i].len(), |j: int| self.v@[i][j] / o.v@))) } }
}
pub struct LinearScalerV { pub method: ScalingMethod }
impl LinearScalerV {
    // ---- the body of the per-column closure of `transform`, extracted from /repo on every run; the Zip plumbing (column j meets
    // offsets[j] and scales[j]) is ASSUMED ----
    pub fn column_step(&self, col_in: ColTok, offset: FT, scale: FT) -> (r: ColTok)
        ensures r.v@.len() == col_in.v@.len(),
            forall|i: int| 0 <= i < col_in.v@.len() ==> elem_ok(self.method, col_in.v@[i], offset.v@, scale.v@, #[trigger] r.v@[i]),
    {
        let mut col = col_in;
/*@CB*/
        col
    }
    // ---- the tail of `transform`: MinMax maps the unit interval onto the requested range, the other methods return x ----
    pub fn tail(&self, x: MatTok) -> (r: MatTok)
        ensures r.v@.len() == x.v@.len(),
            forall|i: int, j: int| 0 <= i < x.v@.len() && 0 <= j < x.v@[i].len() ==> (#[trigger] r.v@[i][j]) == (match self.method {
                ScalingMethod::MinMax(min, max) => x.v@[i][j] * (max.v@ - min.v@) + min.v@,
                _ => x.v@[i][j],
            }),
    {
/*@TAIL*/
    }
    pub fn vacuity_guard_elem(&self, col_in: ColTok, offset: FT, scale: FT) -> (r: ColTok)
        ensures false,
    {
        col_in
    }
}
// ---- the scale closures of the three fits, bodies extracted from /repo.  C16: "unit variance (constant columns are only centred)", "maps each
// non-constant column onto the requested range", "every non-zero column maximum absolute value one": the scale is the reciprocal of the
// column's spread, and 1 for a column without spread ----
pub fn std_scale(s: FT) -> (r: FT)
    ensures s.v@ == 0real ==> r.v@ == 1real, rabs(s.v@) > eps() ==> r.v@ == 1real / s.v@, r.v@ == 1real || r.v@ == 1real / s.v@,
{
/*@STD*/
}
pub fn minmax_scale(max: &mut FT, min: &FT)
    ensures old(max).v@ - min.v@ == 0real ==> final(max).v@ == 1real,
        rabs(old(max).v@ - min.v@) > eps() ==> final(max).v@ == 1real / (old(max).v@ - min.v@),
        final(max).v@ == 1real || final(max).v@ == 1real / (old(max).v@ - min.v@),
{
/*@MM*/
}
pub fn maxabs_scale(col: ColTok) -> (r: FT)
    ensures colmax(col.v@) == 0real ==> r.v@ == 1real, colmax(col.v@) > eps() ==> r.v@ == 1real / colmax(col.v@), r.v@ == 1real || r.v@ == 1real / colmax(col.v@),
{
/*@MA*/
}
} // verus!
fn main() {}
