//! property: C16
//! unit: V-C16-metadata-passthrough
//! tier: quick
//! fns: linfa_preprocessing::linear_scaling::LinearScaler::transform (dataset form), linfa_preprocessing::norm_scaling::NormScaler::transform (dataset form), linfa_preprocessing::whitening::FittedWhitener::transform (dataset form)
//@ extract LINEAR from algorithms/linfa-preprocessing/src/linear_scaling.rs anchor "fn transform(&self, x: DatasetBase<ArrayBase<D, Ix2>, T>) -> DatasetBase<Array2<F>, T> {" body
//@ rewrite? LINEAR "DatasetBase::new(" => "DatasetV::new("
//@ extract NORM from algorithms/linfa-preprocessing/src/norm_scaling.rs anchor "fn transform(&self, x: DatasetBase<ArrayBase<D, Ix2>, T>) -> DatasetBase<Array2<F>, T> {" body
//@ rewrite? NORM "DatasetBase::new(" => "DatasetV::new("
//@ extract WHITEN from algorithms/linfa-preprocessing/src/whitening.rs anchor "fn transform(&self, x: DatasetBase<ArrayBase<D, Ix2>, T>) -> DatasetBase<Array2<F>, T> {" body
//@ rewrite? WHITEN "DatasetBase::new(" => "DatasetV::new("
//@ expect-fail vacuity_guard_passthrough
use vstd::prelude::*;
verus! {
// ---- tokens: an array is the identity of its contents; names are an opaque token ----
pub struct ArrTok { pub id: Ghost<int> }
pub struct NamesTok { pub id: Ghost<int> }
impl ArrTok {
    #[verifier::external_body]
    pub fn to_owned(&self) -> (r: ArrTok) ensures r.id@ == self.id@ { unimplemented!() }           // ndarray to_owned: same contents
    #[verifier::external_body]
    pub fn clone(&self) -> (r: ArrTok) ensures r.id@ == self.id@ { unimplemented!() }
}
impl NamesTok {
    #[verifier::external_body]
    pub fn to_vec(&self) -> (r: NamesTok) ensures r.id@ == self.id@ { unimplemented!() }           // slice to_vec: same names
    #[verifier::external_body]
    pub fn clone(&self) -> (r: NamesTok) ensures r.id@ == self.id@ { unimplemented!() }
}
pub uninterp spec fn scaled(records: int) -> int;                                                    // what the array-level transform returns

pub struct DatasetV { pub records: ArrTok, pub targets: ArrTok, pub weights: ArrTok, pub feature_names: NamesTok, pub target_names: NamesTok }
impl DatasetV {
    pub fn feature_names(&self) -> (r: &NamesTok) ensures r.id@ == self.feature_names.id@ { &self.feature_names }
    pub fn target_names(&self) -> (r: &NamesTok) ensures r.id@ == self.target_names.id@ { &self.target_names }
    // DatasetBase::new: given records and targets, NO weights and NO names (id 0 = empty)
    #[verifier::external_body]
    pub fn new(records: ArrTok, targets: ArrTok) -> (r: DatasetV)
        ensures r.records.id@ == records.id@, r.targets.id@ == targets.id@, r.weights.id@ == 0, r.feature_names.id@ == 0, r.target_names.id@ == 0,
    { unimplemented!() }
    // DatasetBase::with_records (rustdoc: "overwrites the records ... also invalidates the weights and feature/target names")
    pub fn with_records(self, records: ArrTok) -> (r: DatasetV)
        ensures r.records.id@ == records.id@, r.targets.id@ == self.targets.id@, r.weights.id@ == 0, r.feature_names.id@ == 0, r.target_names.id@ == 0,
    { DatasetV { records: records, targets: self.targets, weights: ArrTok { id: Ghost(0) }, feature_names: NamesTok { id: Ghost(0) }, target_names: NamesTok { id: Ghost(0) } } }
    pub fn with_targets(self, targets: ArrTok) -> (r: DatasetV)
        ensures r.records.id@ == self.records.id@, r.targets.id@ == targets.id@, r.weights.id@ == self.weights.id@,
            r.feature_names.id@ == self.feature_names.id@, r.target_names.id@ == self.target_names.id@,
    { DatasetV { records: self.records, targets: targets, weights: self.weights, feature_names: self.feature_names, target_names: self.target_names } }
    pub fn with_weights(self, w: ArrTok) -> (r: DatasetV)
        ensures r.records.id@ == self.records.id@, r.targets.id@ == self.targets.id@, r.weights.id@ == w.id@,
            r.feature_names.id@ == self.feature_names.id@, r.target_names.id@ == self.target_names.id@,
    { DatasetV { records: self.records, targets: self.targets, weights: w, feature_names: self.feature_names, target_names: self.target_names } }
    pub fn with_feature_names(self, names: NamesTok) -> (r: DatasetV)
        ensures r.records.id@ == self.records.id@, r.targets.id@ == self.targets.id@, r.weights.id@ == self.weights.id@,
            r.feature_names.id@ == names.id@, r.target_names.id@ == self.target_names.id@,
    { DatasetV { records: self.records, targets: self.targets, weights: self.weights, feature_names: names, target_names: self.target_names } }
    pub fn with_target_names(self, names: NamesTok) -> (r: DatasetV)
        ensures r.records.id@ == self.records.id@, r.targets.id@ == self.targets.id@, r.weights.id@ == self.weights.id@,
            r.feature_names.id@ == self.feature_names.id@, r.target_names.id@ == names.id@,
    { DatasetV { records: self.records, targets: self.targets, weights: self.weights, feature_names: self.feature_names, target_names: names } }
}

// contract (C16): "targets, weights, feature and target names of a dataset pass through unchanged", and the records of the
// result are the array-level transform of the records of the input (nothing else is touched)
pub open spec fn passthrough(x: &DatasetV, r: &DatasetV) -> bool {
    r.records.id@ == scaled(x.records.id@) && r.targets.id@ == x.targets.id@ && r.weights.id@ == x.weights.id@
    && r.feature_names.id@ == x.feature_names.id@ && r.target_names.id@ == x.target_names.id@
}

pub struct ScalerV;
impl ScalerV {
    // the array-level Transformer impl of the same type (verified separately by the bounded Kani units): abstract here
    #[verifier::external_body]
    pub fn transform(&self, x: ArrTok) -> (r: ArrTok) ensures r.id@ == scaled(x.id@) { unimplemented!() }

    // ---- the three dataset-level `transform` bodies, extracted from /repo on every run ----
    pub fn transform_dataset_linear(&self, x: DatasetV) -> (r: DatasetV) ensures passthrough(&x, &r) {
/*@LINEAR*/
    }
    pub fn transform_dataset_norm(&self, x: DatasetV) -> (r: DatasetV) ensures passthrough(&x, &r) {
/*@NORM*/
    }
    pub fn transform_dataset_whitener(&self, x: DatasetV) -> (r: DatasetV) ensures passthrough(&x, &r) {
/*@WHITEN*/
    }
    pub fn vacuity_guard_passthrough(&self, x: DatasetV) -> (r: DatasetV) ensures false {
        x
    }
}
} // verus!
fn main() {}
