//! property: C16
//! attach: algorithms/linfa-preprocessing/src/norm_scaling.rs
//! module: vk_c16_norm
// @include common/prelude.rs
// @include common/ghost_f32.rs
// @include C16/helpers.rs
use super::*;
use ndarray::{Array1, Array2};
use linfa::dataset::DatasetBase;
use linfa::traits::Transformer;

// "norm scaling gives every non-zero row unit norm in the chosen norm and keeps all output finite";
// "a fixed map applied row by row".  Oracle: textbook norms  l1 = sum |x_j|, max = max_j |x_j|,
// l2 = sqrt(sum x_j^2)  evaluated on small-integer floats (exact up to the one final division).

// measured: rows=2,cols=2 ran out of memory twice (CBMC killed after 2-5 min, all three norms, 2 jobs sharing ~25 GB free)
// while rows=1,cols=2 takes 10-50 s;
// the formula units therefore use ONE row of two columns, and rows=2 is covered with one column (c16_norm_two_rows).
fn c16_row_1x2() -> ([i32; 2], [f32; 2], Array2<f32>) {
    let (a, af) = c16_si(8);
    let (b, bf) = c16_si(8);
    kani::assume(a != 0 || b != 0);
    ([a, b], [af, bf], Array2::from_shape_vec((1, 2), vec![af, bf]).unwrap())
}

// @unit class=bounded tier=quick mem=heavy bound="rows=1,cols=2,|x|<=8 integer-valued f32, non-zero row" timeout=900 fns=linfa_preprocessing::norm_scaling::NormScaler::transform
#[kani::proof]
#[kani::unwind(7)]
#[kani::stub(alloc::fmt::format, fmt_stub)]
fn c16_norm_l1_nonzero_row() {
    let (xi, xf, m) = c16_row_1x2();
    let y: Array2<f32> = NormScaler::l1().transform(m);
    assert!(y.dim() == (1, 2));
    let norm = (xi[0].abs() + xi[1].abs()) as f32;
    assert!(y[(0, 0)] == xf[0] / norm && y[(0, 1)] == xf[1] / norm);                  // row / norm
    assert!(c16_close(y[(0, 0)].abs() + y[(0, 1)].abs(), 1.0, 1.0e-6));               // unit l1 norm
    kani::cover!(xi[0] == -3 && xi[1] == 4);
    kani::cover!(xi[0] < 0 && xi[1] < 0);
    kani::cover!(xi[0] == 0);
}

// @unit class=bounded tier=quick mem=heavy bound="rows=1,cols=2,|x|<=8 integer-valued f32, non-zero row" timeout=900 fns=linfa_preprocessing::norm_scaling::NormScaler::transform
#[kani::proof]
#[kani::unwind(7)]
#[kani::stub(alloc::fmt::format, fmt_stub)]
fn c16_norm_max_nonzero_row() {
    let (xi, xf, m) = c16_row_1x2();
    let y: Array2<f32> = NormScaler::max().transform(m);
    assert!(y.dim() == (1, 2));
    let norm = xi[0].abs().max(xi[1].abs()) as f32;
    assert!(y[(0, 0)] == xf[0] / norm && y[(0, 1)] == xf[1] / norm);                  // row / norm
    assert!(y[(0, 0)].abs().max(y[(0, 1)].abs()) == 1.0);                               // unit max norm
    kani::cover!(xi[0] == -3 && xi[1] == 4);
    kani::cover!(xi[0] == -7 && xi[1] == 7);
    kani::cover!(xi[1] == 0);
}

// two rows (one column): every row is divided by ITS OWN norm - a fixed map applied row by row
// @unit class=bounded tier=thorough mem=heavy bound="rows=2,cols=1,|x|<=8 integer-valued f32, non-zero rows, l1 and max" timeout=900 fns=linfa_preprocessing::norm_scaling::NormScaler::transform
#[kani::proof]
#[kani::unwind(7)]
#[kani::stub(alloc::fmt::format, fmt_stub)]
fn c16_norm_two_rows() {
    let (a, af) = c16_si(8);
    let (b, bf) = c16_si(8);
    kani::assume(a != 0 && b != 0);
    let use_l1: bool = kani::any();
    let sc = if use_l1 { NormScaler::l1() } else { NormScaler::max() };
    let y: Array2<f32> = sc.transform(Array2::from_shape_vec((2, 1), vec![af, bf]).unwrap());
    assert!(y.dim() == (2, 1));
    assert!(y[(0, 0)] == af / (a.abs() as f32) && y[(1, 0)] == bf / (b.abs() as f32));
    assert!(y[(0, 0)].abs() == 1.0 && y[(1, 0)].abs() == 1.0);
    kani::cover!(use_l1 && a == -8 && b == 3);
    kani::cover!(!use_l1 && a == 2 && b == -5);
}

// l2: rows whose sum of squares is a perfect square h*h (witness h; IEEE sqrt is exact there): row / norm and unit norm.
// (general rows: the expectation x / sqrt(ss) with an uninterpreted sqrt needs a second symbolic division, which CBMC's
//  relational divider does not finish: 900 s timeout measured - not decided)
// @unit class=bounded tier=thorough mem=heavy bound="rows=1,cols=2,|x|<=12 integer-valued f32, x0^2+x1^2 a perfect square > 0" timeout=900 fns=linfa_preprocessing::norm_scaling::NormScaler::transform
#[kani::proof]
#[kani::unwind(7)]
#[kani::stub(alloc::fmt::format, fmt_stub)]
#[kani::stub(f32::sqrt, c16_sqrt32)]
fn c16_norm_l2_unit_norm() {
    let (a, af) = c16_si(12);
    let (b, bf) = c16_si(12);
    let h: u8 = kani::any();
    kani::assume(h >= 1 && h <= 17 && (h as i32) * (h as i32) == a * a + b * b);
    unsafe { C16_SQRT_HINT = h as f32; }
    let y: Array2<f32> = NormScaler::l2().transform(Array2::from_shape_vec((1, 2), vec![af, bf]).unwrap());
    assert!(y[(0, 0)] == af / (h as f32) && y[(0, 1)] == bf / (h as f32));
    assert!(c16_close(y[(0, 0)] * y[(0, 0)] + y[(0, 1)] * y[(0, 1)], 1.0, 1.0e-6));    // unit l2 norm
    kani::cover!(a == -3 && b == 4);
    kani::cover!(a == 0 && b == 7);
    kani::cover!(a == 12 && b == -5);
}

// finiteness on the FULL finite f32 domain, non-zero rows, l1 and max norm
// @unit class=bounded tier=quick mem=heavy bound="rows=1,cols=2, all finite f32, non-zero row" timeout=900 fns=linfa_preprocessing::norm_scaling::NormScaler::transform
#[kani::proof]
#[kani::unwind(7)]
#[kani::stub(alloc::fmt::format, fmt_stub)]
fn c16_norm_finite_nonzero_row() {
    let (a, b): (f32, f32) = (kani::any(), kani::any());
    kani::assume(a.is_finite() && b.is_finite());
    kani::assume(a != 0.0 || b != 0.0);
    let use_l1: bool = kani::any();
    let sc = if use_l1 { NormScaler::l1() } else { NormScaler::max() };
    let y: Array2<f32> = sc.transform(Array2::from_shape_vec((1, 2), vec![a, b]).unwrap());
    assert!(y[(0, 0)].is_finite() && y[(0, 1)].is_finite());
    assert!(y[(0, 0)].abs() <= 1.0 && y[(0, 1)].abs() <= 1.0);
    kani::cover!(use_l1 && a == 0.0 && b < 0.0);
    kani::cover!(!use_l1 && a > 3.0e38 && b < -3.0e38);
    kani::cover!(use_l1 && a > 3.0e38 && b < -3.0e38);
    kani::cover!(!use_l1 && a.abs() < 1.0e-40 && b == 0.0);
}

// "keeps all output finite" on the all-zero row (statement; quantifier: "all-zero rows").
// EXPECTED TO FAIL on the pinned tree (DESIGN section 8 #7): no zero guard before the division, 0/0 = NaN.
// @unit class=bounded tier=quick mem=heavy bound="rows=1,cols=2, the all-zero row (+0.0/-0.0), three norms" timeout=900 fns=linfa_preprocessing::norm_scaling::NormScaler::transform
#[kani::proof]
#[kani::unwind(7)]
#[kani::stub(alloc::fmt::format, fmt_stub)]
#[kani::stub(f32::sqrt, c16_sqrt32)]
fn c16_norm_finite_zero_row() {
    let (a, b): (f32, f32) = (kani::any(), kani::any());
    kani::assume(a == 0.0 && b == 0.0);
    let which: u8 = kani::any();
    kani::assume(which < 3);
    let sc = match which { 0 => NormScaler::l1(), 1 => NormScaler::l2(), _ => NormScaler::max() };
    let y: Array2<f32> = sc.transform(Array2::from_shape_vec((1, 2), vec![a, b]).unwrap());
    kani::cover!(which == 0);
    kani::cover!(which == 1);
    kani::cover!(which == 2);
    assert!(y[(0, 0)].is_finite() && y[(0, 1)].is_finite());
}

// same clause on a badly scaled non-zero row: the squares underflow to zero, the l2 norm is 0, x/0 = inf.
// (0 < x0 <= 1e-23 : x0*x0 < 2^-150 rounds to +0 in f32; sqrt(0) = 0 is an axiom of the ghost sqrt.)
// @unit class=bounded tier=thorough mem=heavy bound="rows=1,cols=2, x0 in (0,1e-23], x1 = 0, l2" timeout=900 fns=linfa_preprocessing::norm_scaling::NormScaler::transform
#[kani::proof]
#[kani::unwind(7)]
#[kani::stub(alloc::fmt::format, fmt_stub)]
#[kani::stub(f32::sqrt, c16_sqrt32)]
fn c16_norm_finite_tiny_row_l2() {
    let a: f32 = kani::any();
    kani::assume(a > 0.0 && a <= 1.0e-23);
    let y: Array2<f32> = NormScaler::l2().transform(Array2::from_shape_vec((1, 2), vec![a, 0.0]).unwrap());
    kani::cover!(a == 1.0e-30);
    assert!(y[(0, 0)].is_finite() && y[(0, 1)].is_finite());
}

// dataset form: records as the array form, everything else passes through unchanged
// @unit class=bounded tier=thorough mem=heavy bound="n=1,p=2,1 target column; names of 1-2 bytes" timeout=900 fns=linfa_preprocessing::norm_scaling::NormScaler::transform
#[kani::proof]
#[kani::unwind(7)]
#[kani::stub(alloc::fmt::format, fmt_stub)]
fn c16_norm_dataset_passthrough() {
    let (xi, xf, rec) = c16_row_1x2();
    let t0: u8 = kani::any();
    let w0: f32 = kani::any();
    kani::assume(w0.is_finite());
    let ds = DatasetBase::new(rec, Array1::from(vec![t0]))
        .with_weights(Array1::from(vec![w0]))
        .with_feature_names(vec!["f0", "g"])
        .with_target_names(vec!["t"]);
    let out = NormScaler::max().transform(ds);
    assert!(out.records().dim() == (1, 2));
    let norm = xi[0].abs().max(xi[1].abs()) as f32;
    assert!(out.records()[(0, 0)] == xf[0] / norm && out.records()[(0, 1)] == xf[1] / norm);
    assert!(out.targets().len() == 1 && out.targets()[0] == t0);
    let w = out.weights().unwrap();
    assert!(w.len() == 1 && w[0] == w0);
    assert!(out.feature_names().len() == 2 && out.feature_names()[0] == "f0" && out.feature_names()[1] == "g");
    assert!(out.target_names().len() == 1 && out.target_names()[0] == "t");
    kani::cover!(t0 == 7 && w0 == 0.5);
}
