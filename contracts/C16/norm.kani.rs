//! property: C16
//! attach: algorithms/linfa-preprocessing/src/norm_scaling.rs
//! module: vk_c16_norm
// @include common/prelude.rs
// @include common/ghost_f32.rs
// @include C16/helpers.rs
use super::*;
use ndarray::{Array1, Array2};
use linfa::dataset::DatasetBase;
use linfa::traits::Transformer;

// "norm scaling gives every non-zero row unit norm in the chosen norm and keeps all output finite";
// "a fixed map applied row by row".  Oracle: textbook norms  l1 = sum |x_j|, max = max_j |x_j|,
// l2 = sqrt(sum x_j^2)  evaluated on small-integer floats (exact up to the one final division).

fn c16_rows_2x2() -> ([[i32; 2]; 2], [[f32; 2]; 2], Array2<f32>) {
    let mut xi = [[0i32; 2]; 2];
    let mut xf = [[0f32; 2]; 2];
    for i in 0..2 { for j in 0..2 { let (v, f) = c16_si(8); xi[i][j] = v; xf[i][j] = f; } }
    kani::assume(xi[0][0] != 0 || xi[0][1] != 0);
    kani::assume(xi[1][0] != 0 || xi[1][1] != 0);
    let m = Array2::from_shape_vec((2, 2), vec![xf[0][0], xf[0][1], xf[1][0], xf[1][1]]).unwrap();
    (xi, xf, m)
}

// @unit class=bounded tier=quick mem=heavy bound="rows=2,cols=2,|x|<=8 integer-valued f32, non-zero rows" timeout=900 fns=linfa_preprocessing::norm_scaling::NormScaler::transform
#[kani::proof]
#[kani::unwind(7)]
#[kani::stub(alloc::fmt::format, fmt_stub)]
fn c16_norm_l1_nonzero_rows() {
    let (xi, xf, m) = c16_rows_2x2();
    let y: Array2<f32> = NormScaler::l1().transform(m);
    assert!(y.dim() == (2, 2));
    for i in 0..2 {
        let norm = (xi[i][0].abs() + xi[i][1].abs()) as f32;
        assert!(y[(i, 0)] == xf[i][0] / norm && y[(i, 1)] == xf[i][1] / norm);        // row / norm
        assert!(c16_close(y[(i, 0)].abs() + y[(i, 1)].abs(), 1.0, 1.0e-6));            // unit l1 norm
        assert!(y[(i, 0)].is_finite() && y[(i, 1)].is_finite());
        let alone: Array2<f32> = NormScaler::l1().transform(Array2::from_shape_vec((1, 2), vec![xf[i][0], xf[i][1]]).unwrap());
        assert!(alone[(0, 0)] == y[(i, 0)] && alone[(0, 1)] == y[(i, 1)]);             // row-wise map
    }
    kani::cover!(xi[0][0] == -3 && xi[0][1] == 4 && xi[1][0] == 0);
    kani::cover!(xi[0][0] < 0 && xi[0][1] < 0);
}

// @unit class=bounded tier=quick mem=heavy bound="rows=2,cols=2,|x|<=8 integer-valued f32, non-zero rows" timeout=900 fns=linfa_preprocessing::norm_scaling::NormScaler::transform
#[kani::proof]
#[kani::unwind(7)]
#[kani::stub(alloc::fmt::format, fmt_stub)]
fn c16_norm_max_nonzero_rows() {
    let (xi, xf, m) = c16_rows_2x2();
    let y: Array2<f32> = NormScaler::max().transform(m);
    assert!(y.dim() == (2, 2));
    for i in 0..2 {
        let norm = xi[i][0].abs().max(xi[i][1].abs()) as f32;
        assert!(y[(i, 0)] == xf[i][0] / norm && y[(i, 1)] == xf[i][1] / norm);        // row / norm
        assert!(y[(i, 0)].abs().max(y[(i, 1)].abs()) == 1.0);                           // unit max norm
        let alone: Array2<f32> = NormScaler::max().transform(Array2::from_shape_vec((1, 2), vec![xf[i][0], xf[i][1]]).unwrap());
        assert!(alone[(0, 0)] == y[(i, 0)] && alone[(0, 1)] == y[(i, 1)]);             // row-wise map
    }
    kani::cover!(xi[0][0] == -3 && xi[0][1] == 4 && xi[1][0] == 0);
    kani::cover!(xi[1][0] == -7 && xi[1][1] == 7);
}

// l2, formula: sqrt uninterpreted but functional, so "row / sqrt(sum of squares)" is checked against the same sqrt
// @unit class=bounded tier=thorough mem=heavy bound="rows=2,cols=2,|x|<=8 integer-valued f32, non-zero rows" timeout=900 fns=linfa_preprocessing::norm_scaling::NormScaler::transform
#[kani::proof]
#[kani::unwind(7)]
#[kani::stub(alloc::fmt::format, fmt_stub)]
#[kani::stub(f32::sqrt, c16_sqrt32)]
fn c16_norm_l2_nonzero_rows() {
    let (xi, xf, m) = c16_rows_2x2();
    let y: Array2<f32> = NormScaler::l2().transform(m);
    assert!(y.dim() == (2, 2));
    for i in 0..2 {
        let norm = c16_sqrt32((xi[i][0] * xi[i][0] + xi[i][1] * xi[i][1]) as f32);
        assert!(norm > 0.0);
        assert!(y[(i, 0)] == xf[i][0] / norm && y[(i, 1)] == xf[i][1] / norm);        // row / norm
        assert!(!y[(i, 0)].is_nan() && !y[(i, 1)].is_nan());
    }
    kani::cover!(xi[0][0] == -3 && xi[0][1] == 4 && xi[1][0] == 0);
}

// l2, unit norm: rows whose sum of squares is a perfect square h*h (witness h; IEEE sqrt is exact there)
// @unit class=bounded tier=thorough mem=heavy bound="rows=1,cols=2,|x|<=12 integer-valued f32, x0^2+x1^2 a perfect square > 0" timeout=900 fns=linfa_preprocessing::norm_scaling::NormScaler::transform
#[kani::proof]
#[kani::unwind(7)]
#[kani::stub(alloc::fmt::format, fmt_stub)]
#[kani::stub(f32::sqrt, c16_sqrt32)]
fn c16_norm_l2_unit_norm() {
    let (a, af) = c16_si(12);
    let (b, bf) = c16_si(12);
    let h: u8 = kani::any();
    kani::assume(h >= 1 && h <= 17 && (h as i32) * (h as i32) == a * a + b * b);
    unsafe { C16_SQRT_HINT = h as f32; }
    let y: Array2<f32> = NormScaler::l2().transform(Array2::from_shape_vec((1, 2), vec![af, bf]).unwrap());
    assert!(y[(0, 0)] == af / (h as f32) && y[(0, 1)] == bf / (h as f32));
    assert!(c16_close(y[(0, 0)] * y[(0, 0)] + y[(0, 1)] * y[(0, 1)], 1.0, 1.0e-6));    // unit l2 norm
    kani::cover!(a == -3 && b == 4);
    kani::cover!(a == 0 && b == 7);
    kani::cover!(a == 12 && b == -5);
}

// finiteness on the FULL finite f32 domain, non-zero rows, l1 and max norm
// @unit class=bounded tier=quick mem=heavy bound="rows=1,cols=2, all finite f32, non-zero row" timeout=900 fns=linfa_preprocessing::norm_scaling::NormScaler::transform
#[kani::proof]
#[kani::unwind(7)]
#[kani::stub(alloc::fmt::format, fmt_stub)]
fn c16_norm_finite_nonzero_row() {
    let (a, b): (f32, f32) = (kani::any(), kani::any());
    kani::assume(a.is_finite() && b.is_finite());
    kani::assume(a != 0.0 || b != 0.0);
    let use_l1: bool = kani::any();
    let sc = if use_l1 { NormScaler::l1() } else { NormScaler::max() };
    let y: Array2<f32> = sc.transform(Array2::from_shape_vec((1, 2), vec![a, b]).unwrap());
    assert!(y[(0, 0)].is_finite() && y[(0, 1)].is_finite());
    assert!(y[(0, 0)].abs() <= 1.0 && y[(0, 1)].abs() <= 1.0);
    kani::cover!(use_l1 && a == 0.0 && b < 0.0);
    kani::cover!(!use_l1 && a > 3.0e38 && b < -3.0e38);
    kani::cover!(use_l1 && a > 3.0e38 && b < -3.0e38);
    kani::cover!(!use_l1 && a.abs() < 1.0e-40 && b == 0.0);
}

// "keeps all output finite" on the all-zero row (statement; quantifier: "all-zero rows").
// EXPECTED TO FAIL on the pinned tree (DESIGN section 8 #7): no zero guard before the division, 0/0 = NaN.
// @unit class=bounded tier=quick mem=heavy bound="rows=1,cols=2, the all-zero row (+0.0/-0.0), three norms" timeout=900 fns=linfa_preprocessing::norm_scaling::NormScaler::transform
#[kani::proof]
#[kani::unwind(7)]
#[kani::stub(alloc::fmt::format, fmt_stub)]
#[kani::stub(f32::sqrt, c16_sqrt32)]
fn c16_norm_finite_zero_row() {
    let (a, b): (f32, f32) = (kani::any(), kani::any());
    kani::assume(a == 0.0 && b == 0.0);
    let which: u8 = kani::any();
    kani::assume(which < 3);
    let sc = match which { 0 => NormScaler::l1(), 1 => NormScaler::l2(), _ => NormScaler::max() };
    let y: Array2<f32> = sc.transform(Array2::from_shape_vec((1, 2), vec![a, b]).unwrap());
    kani::cover!(which == 0);
    kani::cover!(which == 1);
    kani::cover!(which == 2);
    assert!(y[(0, 0)].is_finite() && y[(0, 1)].is_finite());
}

// same clause on a badly scaled non-zero row: the squares underflow to zero, the l2 norm is 0, x/0 = inf.
// (0 < x0 <= 1e-23 : x0*x0 < 2^-150 rounds to +0 in f32; sqrt(0) = 0 is an axiom of the ghost sqrt.)
// @unit class=bounded tier=thorough mem=heavy bound="rows=1,cols=2, x0 in (0,1e-23], x1 = 0, l2" timeout=900 fns=linfa_preprocessing::norm_scaling::NormScaler::transform
#[kani::proof]
#[kani::unwind(7)]
#[kani::stub(alloc::fmt::format, fmt_stub)]
#[kani::stub(f32::sqrt, c16_sqrt32)]
fn c16_norm_finite_tiny_row_l2() {
    let a: f32 = kani::any();
    kani::assume(a > 0.0 && a <= 1.0e-23);
    let y: Array2<f32> = NormScaler::l2().transform(Array2::from_shape_vec((1, 2), vec![a, 0.0]).unwrap());
    kani::cover!(a == 1.0e-30);
    assert!(y[(0, 0)].is_finite() && y[(0, 1)].is_finite());
}

// dataset form: records as the array form, everything else passes through unchanged
// @unit class=bounded tier=thorough mem=heavy bound="n=2,p=2,1 target column; names of 1-2 bytes" timeout=900 fns=linfa_preprocessing::norm_scaling::NormScaler::transform
#[kani::proof]
#[kani::unwind(7)]
#[kani::stub(alloc::fmt::format, fmt_stub)]
fn c16_norm_dataset_passthrough() {
    let (_xi, _xf, rec) = c16_rows_2x2();
    let (t0, t1): (u8, u8) = (kani::any(), kani::any());
    let (w0, w1): (f32, f32) = (kani::any(), kani::any());
    kani::assume(w0.is_finite() && w1.is_finite());
    let ds = DatasetBase::new(rec.clone(), Array1::from(vec![t0, t1]))
        .with_weights(Array1::from(vec![w0, w1]))
        .with_feature_names(vec!["f0", "g"])
        .with_target_names(vec!["t"]);
    let out = NormScaler::max().transform(ds);
    let want: Array2<f32> = NormScaler::max().transform(rec);
    assert!(*out.records() == want);
    assert!(out.targets().len() == 2 && out.targets()[0] == t0 && out.targets()[1] == t1);
    let w = out.weights().unwrap();
    assert!(w.len() == 2 && w[0] == w0 && w[1] == w1);
    assert!(out.feature_names().len() == 2 && out.feature_names()[0] == "f0" && out.feature_names()[1] == "g");
    assert!(out.target_names().len() == 1 && out.target_names()[0] == "t");
    kani::cover!(t0 != t1 && w0 != w1);
}
