//! property: C16
//! attach: algorithms/linfa-preprocessing/src/linear_scaling.rs
//! module: vk_c16_map
// @include common/prelude.rs
// @include common/ghost_f32.rs
// @include C16/helpers.rs
use super::*;
use ndarray::{Array1, Array2};
use linfa::dataset::DatasetBase;
use linfa::traits::Transformer;

// "Each fitted transform is a fixed affine map applied row by row - identical on unseen data, commuting
// with row selection and reordering": the scaler is built from ARBITRARY parameters (not fitted on the
// data it transforms = unseen data); the matrix result must equal (a) the documented per-element map
// (x - offset) * scale [+ offset for the no-mean variant], then the range map *(hi-lo)+lo for min-max,
// evaluated in exact integer arithmetic - the expectation for element (i,j) reads only x[i][j], offset[j],
// scale[j] and the range, which is the row-wise claim - and (b) (c16_map_row_selection) what the same
// scaler returns for a row alone and for the rows in swapped order.
fn c16_scaler(method: ScalingMethod<f32>) -> (LinearScaler<f32>, [i32; 2], [i32; 2]) {
    let (o0, o0f) = c16_si(4);
    let (o1, o1f) = c16_si(4);
    let (s0, s0f) = c16_si(4);
    let (s1, s1f) = c16_si(4);
    kani::assume(s0 >= 1 && s1 >= 1);
    (LinearScaler { offsets: Array1::from(vec![o0f, o1f]), scales: Array1::from(vec![s0f, s1f]), method }, [o0, o1], [s0, s1])
}

fn c16_map_check(sc: &LinearScaler<f32>, o: [i32; 2], s: [i32; 2], add_back: bool, range: Option<(i32, i32)>, rows: usize) -> [[i32; 2]; 2] {
    let mut xi = [[0i32; 2]; 2];
    let mut xf = [[0f32; 2]; 2];
    for i in 0..2 { for j in 0..2 { let (v, f) = c16_si(8); xi[i][j] = v; xf[i][j] = f; } }
    let m = if rows == 2 { Array2::from_shape_vec((2, 2), vec![xf[0][0], xf[0][1], xf[1][0], xf[1][1]]).unwrap() }
            else { Array2::from_shape_vec((1, 2), vec![xf[0][0], xf[0][1]]).unwrap() };
    let y = sc.transform(m);
    assert!(y.dim() == (rows, 2));
    for i in 0..rows { for j in 0..2 {
        let mut e = (xi[i][j] - o[j]) * s[j];
        if add_back { e += o[j]; }
        if let Some((lo, hi)) = range { e = e * (hi - lo) + lo; }
        assert!(y[(i, j)] == e as f32);                                     // (a) documented affine map
    } }
    xi
}

// @unit class=bounded tier=quick mem=heavy bound="n=2,p=2,|x|<=8,|offset|<=4,scale in 1..4, integer-valued f32" timeout=900 fns=linfa_preprocessing::linear_scaling::LinearScaler::transform
#[kani::proof]
#[kani::unwind(7)]
#[kani::stub(alloc::fmt::format, fmt_stub)]
fn c16_map_standard() {
    let with_std: bool = kani::any();
    let (sc, o, s) = c16_scaler(ScalingMethod::Standard(true, with_std));
    let xi = c16_map_check(&sc, o, s, false, None, 2);
    kani::cover!(xi[0][0] != xi[1][0] && o[0] != 0 && s[0] > 1);
    kani::cover!(with_std);
    kani::cover!(!with_std);
}

// @unit class=bounded tier=thorough mem=heavy bound="n=2,p=2,|x|<=8,|offset|<=4,scale in 1..4, integer-valued f32" timeout=900 fns=linfa_preprocessing::linear_scaling::LinearScaler::transform
#[kani::proof]
#[kani::unwind(7)]
#[kani::stub(alloc::fmt::format, fmt_stub)]
fn c16_map_standard_nomean() {
    let with_std: bool = kani::any();
    let (sc, o, s) = c16_scaler(ScalingMethod::Standard(false, with_std));
    let xi = c16_map_check(&sc, o, s, true, None, 2);
    kani::cover!(xi[0][0] != xi[1][0] && o[0] != 0 && s[0] > 1);
    kani::cover!(with_std);
    kani::cover!(!with_std);
}

// @unit class=bounded tier=quick mem=heavy bound="n=2,p=2,|x|<=8,|offset|<=4,scale in 1..4,range ends |.|<=4, integer-valued f32" timeout=900 fns=linfa_preprocessing::linear_scaling::LinearScaler::transform
#[kani::proof]
#[kani::unwind(7)]
#[kani::stub(alloc::fmt::format, fmt_stub)]
fn c16_map_minmax() {
    let (lo, lof) = c16_si(4);
    let (hi, hif) = c16_si(4);
    kani::assume(lo <= hi);
    let (sc, o, s) = c16_scaler(ScalingMethod::MinMax(lof, hif));
    let xi = c16_map_check(&sc, o, s, false, Some((lo, hi)), 2);
    kani::cover!(xi[0][1] != xi[1][1] && o[1] != 0 && s[1] > 1 && lo != 0 && hi - lo > 1);
    kani::cover!(lo == hi);
}

// @unit class=bounded tier=thorough mem=heavy bound="n=2,p=2,|x|<=8,|offset|<=4,scale in 1..4, integer-valued f32" timeout=900 fns=linfa_preprocessing::linear_scaling::LinearScaler::transform
#[kani::proof]
#[kani::unwind(7)]
#[kani::stub(alloc::fmt::format, fmt_stub)]
fn c16_map_maxabs() {
    let (sc, o, s) = c16_scaler(ScalingMethod::MaxAbs);
    let xi = c16_map_check(&sc, o, s, false, None, 2);
    kani::cover!(xi[0][0] != xi[1][0] && o[0] != 0 && s[0] > 1);
}

// (b) row selection and reordering: second row alone / rows swapped give the same values
// @unit class=bounded tier=thorough mem=heavy bound="n=2,p=2 vs n=1,p=2 and swapped rows; |x|<=8,|offset|<=4,scale in 1..4,range ends |.|<=4" timeout=900 fns=linfa_preprocessing::linear_scaling::LinearScaler::transform
#[kani::proof]
#[kani::unwind(7)]
#[kani::stub(alloc::fmt::format, fmt_stub)]
fn c16_map_row_selection() {
    let which: u8 = kani::any();
    kani::assume(which < 4);
    let (_lo, lof) = c16_si(4);
    let (_hi, hif) = c16_si(4);
    kani::assume(lof <= hif);
    let method = match which { 0 => ScalingMethod::Standard(true, true), 1 => ScalingMethod::Standard(false, true), 2 => ScalingMethod::MinMax(lof, hif), _ => ScalingMethod::MaxAbs };
    let (sc, _o, _s) = c16_scaler(method);
    let mut xf = [0f32; 4];
    for i in 0..4 { let (_v, f) = c16_si(8); xf[i] = f; }
    let y = sc.transform(Array2::from_shape_vec((2, 2), vec![xf[0], xf[1], xf[2], xf[3]]).unwrap());
    let alone = sc.transform(Array2::from_shape_vec((1, 2), vec![xf[2], xf[3]]).unwrap());
    assert!(alone.dim() == (1, 2) && alone[(0, 0)] == y[(1, 0)] && alone[(0, 1)] == y[(1, 1)]);
    let ys = sc.transform(Array2::from_shape_vec((2, 2), vec![xf[2], xf[3], xf[0], xf[1]]).unwrap());
    assert!(ys[(0, 0)] == y[(1, 0)] && ys[(0, 1)] == y[(1, 1)] && ys[(1, 0)] == y[(0, 0)] && ys[(1, 1)] == y[(0, 1)]);
    kani::cover!(which == 0 && xf[0] != xf[2]);
    kani::cover!(which == 1);
    kani::cover!(which == 2 && lof < hif);
    kani::cover!(which == 3);
}

// dataset form: records are transformed exactly as the array form does; targets, weights, feature names
// and target names pass through unchanged
// @unit class=bounded tier=quick mem=heavy bound="n=2,p=2,1 target column; names of 1-2 bytes" timeout=900 fns=linfa_preprocessing::linear_scaling::LinearScaler::transform
#[kani::proof]
#[kani::unwind(7)]
#[kani::stub(alloc::fmt::format, fmt_stub)]
fn c16_map_dataset_passthrough() {
    let (sc, o, s) = c16_scaler(ScalingMethod::Standard(true, true));
    let mut xf = [0f32; 4];
    let mut xi = [0i32; 4];
    for i in 0..4 { let (v, f) = c16_si(8); xi[i] = v; xf[i] = f; }
    let (t0, t1): (u8, u8) = (kani::any(), kani::any());
    let (w0, w1): (f32, f32) = (kani::any(), kani::any());
    kani::assume(w0.is_finite() && w1.is_finite());
    let rec = Array2::from_shape_vec((2, 2), xf.to_vec()).unwrap();
    let ds = DatasetBase::new(rec, Array1::from(vec![t0, t1]))
        .with_weights(Array1::from(vec![w0, w1]))
        .with_feature_names(vec!["f0", "g"])
        .with_target_names(vec!["t"]);
    let out = sc.transform(ds);
    assert!(out.records().dim() == (2, 2));
    for i in 0..2 { for j in 0..2 { assert!(out.records()[(i, j)] == ((xi[2 * i + j] - o[j]) * s[j]) as f32); } }
    assert!(out.targets().len() == 2 && out.targets()[0] == t0 && out.targets()[1] == t1);
    let w = out.weights().unwrap();
    assert!(w.len() == 2 && w[0] == w0 && w[1] == w1);
    assert!(out.feature_names().len() == 2 && out.feature_names()[0] == "f0" && out.feature_names()[1] == "g");
    assert!(out.target_names().len() == 1 && out.target_names()[0] == "t");
    kani::cover!(t0 != t1 && w0 != w1);
    kani::cover!(xi[0] != xi[2] && o[0] != 0 && s[0] > 1);
}
