//! property: C01
//! unit: V-C01-crossval-mean
//! tier: quick
//! fns: linfa::DatasetBase::cross_validate (zero start, sum over the fold evaluations, division by the fold count, error propagation)
//@ extract CV from src/dataset/impl_dataset.rs anchor "pub fn cross_validate<O, ER, M, FACC, C>(" body
//@ rewrite CV "Array::from_elem(" => "EvalArr::from_elem("
//@ rewrite CV "self.targets.raw_dim().nsamples(parameters.len())," => "parameters.len(),   /* targets.raw_dim().nsamples(#models): one row per model */"
//@ rewrite CV "FACC::zero()," => "FTok::zero(),"
//@ drop CV from "let folds_evaluations: std::result::Result<Vec<_>, ER> = self" through "            .collect();" as "        let folds_evaluations = self.fold_evaluations_abs(k, parameters, &eval);   /* dropped: iter_fold(k, fit every model).map(predict + eval on the validation part).collect() */"
//@ rewrite CV "for fold_evaluation in folds_evaluations? {" => "let fe = folds_evaluations?; for t in 0..fe.len() { let fold_evaluation = &fe[t];   /* `for fold_evaluation in folds_evaluations?` as an index loop */"
//@ rewrite CV "evaluations.add_assign(&fold_evaluation)" => "evaluations.add_assign_tok(fold_evaluation)"
//@ rewrite CV "evaluations / FACC::from(" => "evaluations.div_count("
//@ rewrite CV ").unwrap())" => "))"
//@ insert CV before-brace "for t in 0..fe.len() " : invariant fe@.len() == k, evaluations.div@ is None, evaluations.terms@ =~= Seq::new(t as nat, |f: int| f), forall|f: int| 0 <= f < fe@.len() ==> (#[trigger] fe@[f]).terms@ == seq![f] && fe@[f].div@ is None,
//@ expect-fail vacuity_guard_cv
use vstd::prelude::*;
verus! {
pub struct FTok;
impl FTok { pub fn zero() -> FTok { FTok } }
// an array of scores (one row per model): which fold evaluations have been summed into it, in order, and by what it was divided
pub struct EvalArr { pub terms: Ghost<Seq<int>>, pub div: Ghost<Option<int>> }
impl EvalArr {
    #[verifier::external_body]
    pub fn from_elem(rows: usize, z: FTok) -> (r: EvalArr) ensures r.terms@ == Seq::<int>::empty(), r.div@ is None { unimplemented!() }     // all zeros
    #[verifier::external_body]
    pub fn add_assign_tok(&mut self, o: &EvalArr)                                                                                       // ndarray `+=`
        requires old(self).div@ is None, o.div@ is None,
        ensures final(self).terms@ == old(self).terms@ + o.terms@, final(self).div@ is None,
    { unimplemented!() }
    #[verifier::external_body]
    pub fn div_count(self, c: usize) -> (r: EvalArr) requires self.div@ is None, ensures r.terms@ == self.terms@, r.div@ == Some(c as int) { unimplemented!() }   // `/ FACC::from(c).unwrap()`
}
pub struct ParamsTok { pub n: Ghost<int> }
impl ParamsTok { #[verifier::external_body] pub fn len(&self) -> (r: usize) ensures r == self.n@ { unimplemented!() } }
pub struct EvalFn;
#[derive(Debug)]
pub struct ErrTok;
pub struct DatasetV { pub n: Ghost<int> }
impl DatasetV {
    #[verifier::external_body]
    pub fn nsamples(&self) -> (r: usize) ensures r == self.n@ { unimplemented!() }
    // ASSUMED (the dropped middle of cross_validate): iter_fold yields exactly k (models, validation part) pairs - proved for iter_fold
    // itself in V-C01-iterfold -, entry f of the collected vector is the evaluation of the models fitted on fold f's training part on
    // validation part f, and the first failing fit or evaluation makes the whole result that error
    #[verifier::external_body]
    pub fn fold_evaluations_abs(&mut self, k: usize, p: &ParamsTok, e: &EvalFn) -> (r: Result<Vec<EvalArr>, ErrTok>)
        requires 0 < k <= old(self).n@,
        ensures final(self).n@ == old(self).n@,
            r is Ok ==> r->Ok_0@.len() == k && forall|f: int| 0 <= f < k ==> (#[trigger] r->Ok_0@[f]).terms@ == seq![f] && r->Ok_0@[f].div@ is None,
    { unimplemented!() }

    // ---- cross_validate, body extracted from /repo on every run ----
    // C01: "the cross-validation score reported for each model is the arithmetic mean over the k folds of the evaluation closure ...;
    // a failing fit or evaluation surfaces as that error": sum of the k fold evaluations, each once, divided by k
    pub fn cross_validate(&mut self, k: usize, parameters: &ParamsTok, eval: EvalFn) -> (r: Result<EvalArr, ErrTok>)
        requires 2 <= k <= old(self).n@, old(self).n@ <= usize::MAX,
        ensures r is Ok ==> r->Ok_0.terms@ =~= Seq::new(k as nat, |f: int| f) && r->Ok_0.div@ == Some(k as int),
    {
/*@CV*/
    }
    pub fn vacuity_guard_cv(&mut self, k: usize, parameters: &ParamsTok, eval: EvalFn) -> (r: Result<EvalArr, ErrTok>)
        requires 2 <= k <= old(self).n@, old(self).n@ <= usize::MAX,
        ensures false,
    {
        Err(ErrTok)
    }
}
} // verus!
fn main() {}
