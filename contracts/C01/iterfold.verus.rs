//! property: C01
//! unit: V-C01-iterfold
//! tier: quick
//! fns: linfa::dataset::impl_dataset::assist_swap_array2 (macro arm), linfa::DatasetBase::iter_fold (prologue: asserts + fold_size)
//@ extract MACRO from src/dataset/impl_dataset.rs anchor "($slice: expr, $index: expr, $fold_size: expr, $features: expr) => {" body
//@ rewrite MACRO "$slice" => "slice"
//@ rewrite MACRO "$index" => "index"
//@ rewrite MACRO "$fold_size" => "fold_size"
//@ rewrite MACRO "$features" => "features"
//@ insert MACRO before "let adj_fold_size" : proof { assert(slice@.len() <= usize::MAX) by { assert(slice@.len() == vstd::slice::spec_slice_len(slice)); } lemma_mul_bounds(fold_size as int, features as int, index as int, slice@.len() as int); }
//@ extract PROLOGUE from src/dataset/impl_dataset.rs anchor "assert!(k > 0);" until "let features = self.nfeatures();"
//@ rewrite PROLOGUE "assert!(k > 0);" => "if !(k > 0) { return None; }  /* assert!(k > 0) : panics, modelled as the None exit */"
//@ rewrite PROLOGUE "assert!(k <= self.nsamples());" => "if !(k <= nsamples) { return None; }  /* assert!(k <= self.nsamples()) */"
//@ rewrite PROLOGUE "self.nsamples()" => "nsamples"
//@ extract LOOP from src/dataset/impl_dataset.rs anchor "            for i in " block
//@ rewrite LOOP "assist_swap_array2!(" => "assist_swap("
//@ insert LOOP before-brace "for i in " : invariant 1 <= k <= samples_count, fold_size == samples_count / k, records_sl@ == r0, targets_sl@ == t0, r0.len() == samples_count * features, t0.len() == samples_count * targets, trained@ =~= Seq::new(i as nat, |j: int| j),
//@ insert LOOP after "for i in " : proof { lemma_fold_arith(samples_count as int, k as int, features as int, i as int); lemma_fold_arith(samples_count as int, k as int, targets as int, i as int); assert(fold_size * features * (i + 1) <= samples_count * features); assert(fold_size * targets * (i + 1) <= samples_count * targets); }
//@ drop LOOP from "let train = DatasetBase::new(" through "objs.push(obj);" as "proof { training_view_facts(r0, records_sl@, i as int, fold_size as int, features as int, samples_count as int, k as int); training_view_facts(t0, targets_sl@, i as int, fold_size as int, targets as int, samples_count as int, k as int); trained@ = trained@.push(i as int); }"
//@ expect-fail vacuity_guard_swap
//@ expect-fail vacuity_guard_loop
//@ expect-fail vacuity_guard_prologue
use vstd::prelude::*;
verus! {
pub assume_specification<T> [ <[T]>::swap_with_slice ] (a: &mut [T], b: &mut [T])
    requires old(a)@.len() == old(b)@.len(),
    ensures final(a)@ == old(b)@, final(b)@ == old(a)@;

// spec: sequence with block at `start` and block 0 (each `w` long) exchanged
pub open spec fn swap_blocks<T>(s: Seq<T>, start: int, w: int) -> Seq<T> {
    Seq::new(s.len(), |p: int|
        if 0 <= p < w { s[start + p] }
        else if start <= p < start + w { s[p - start] }
        else { s[p] })
}

proof fn lemma_mul_bounds(fs: int, f: int, i: int, len: int)
    requires 0 <= fs, 0 <= f, 1 <= i, fs * f * (i + 1) <= len,
    ensures fs * f >= 0, fs * f <= len, (fs * f) * i <= len, (fs * f) * i >= fs * f, (fs * f) * i + fs * f <= len,
{
    assert(fs * f >= 0) by (nonlinear_arith) requires 0 <= fs, 0 <= f;
    assert((fs * f) * i >= fs * f) by (nonlinear_arith) requires fs * f >= 0, i >= 1;
    assert((fs * f) * i + fs * f == fs * f * (i + 1)) by (nonlinear_arith);
}

// ---- the macro arm of assist_swap_array2, text extracted from /repo on every run ----
// (macro metavariables become parameters; element type is an opaque token type: the code only moves values)
fn assist_swap<T>(slice: &mut [T], index: usize, fold_size: usize, features: usize)
    requires fold_size * features * (index + 1) <= old(slice)@.len(),
    ensures
        final(slice)@.len() == old(slice)@.len(),
        index != 0 ==> final(slice)@ =~= swap_blocks(old(slice)@, (fold_size * features * index) as int, (fold_size * features) as int),
        index == 0 ==> final(slice)@ == old(slice)@,
{
/*@MACRO*/
}

fn vacuity_guard_swap<T>(slice: &mut [T], index: usize, fold_size: usize, features: usize)
    requires fold_size * features * (index + 1) <= old(slice)@.len(),
    ensures false,
{
}

// involution: swapping twice restores the buffer (start >= w: blocks do not overlap)
proof fn lemma_swap_involution<T>(s: Seq<T>, start: int, w: int)
    requires 0 <= w <= start, start + w <= s.len(),
    ensures swap_blocks(swap_blocks(s, start, w), start, w) =~= s,
{
}

// after the first swap, the front block is validation block i and the tail holds exactly the other rows
proof fn lemma_swap_front_is_block<T>(s: Seq<T>, start: int, w: int)
    requires 0 <= w <= start, start + w <= s.len(),
    ensures swap_blocks(s, start, w).subrange(0, w) =~= s.subrange(start, start + w),
            swap_blocks(s, start, w).subrange(w, s.len() as int).to_multiset()
                =~= s.subrange(0, start).to_multiset().add(s.subrange(start + w, s.len() as int).to_multiset()),
{
    let t = swap_blocks(s, start, w);
    let tail = t.subrange(w, s.len() as int);
    // tail = s[w..start] ++ s[0..w] ++ s[start+w..]
    let a = s.subrange(w, start);
    let b = s.subrange(0, w);
    let c = s.subrange(start + w, s.len() as int);
    assert(tail =~= a + b + c);
    assert(s.subrange(0, start) =~= b + a);
    vstd::seq_lib::lemma_multiset_commutative(a, b);
    vstd::seq_lib::lemma_multiset_commutative(b, a);
    vstd::seq_lib::lemma_multiset_commutative(a + b, c);
    vstd::seq_lib::lemma_multiset_commutative(b + a, c);
}

// ---- prologue of iter_fold: statements extracted from /repo on every run ----
fn iter_fold_prologue(k: usize, nsamples: usize) -> (r: Option<usize>)
    ensures
        r.is_some() <==> (1 <= k <= nsamples),
        r.is_some() ==> r.unwrap() == nsamples / k && r.unwrap() >= 1,
{
/*@PROLOGUE*/
    proof {
        assert(fold_size >= 1) by (nonlinear_arith) requires k >= 1, samples_count >= k, fold_size == samples_count / k;
    }
    Some(fold_size)
}

fn vacuity_guard_prologue(k: usize, nsamples: usize) -> (r: Option<usize>)
    ensures r.is_some() <==> (1 <= k <= nsamples), false,
{
    None
}

// arithmetic facts every call site of the macro and of sample_chunks relies on
proof fn lemma_fold_arith(n: int, k: int, f: int, i: int)
    requires 1 <= k <= n, 0 <= f, 0 <= i < k,
    ensures
        (n / k) >= 1,
        (n / k) * f * (i + 1) <= n * f,       // precondition of assist_swap at iteration i (records and targets)
        (n / k) * k <= n,                     // the k validation blocks fit
        n / (n / k) >= k,                     // sample_chunks(fold_size) yields at least k chunks for the zip
        (n / k) * i + (n / k) <= n,           // validation block i = rows [i*fs, (i+1)*fs)
{
    let fs = n / k;
    assert(fs >= 1) by (nonlinear_arith) requires k >= 1, n >= k, fs == n / k;
    assert(fs * k <= n) by (nonlinear_arith) requires k >= 1, n >= 0, fs == n / k;
    assert(fs * (i + 1) <= fs * k) by (nonlinear_arith) requires 0 <= i < k, fs >= 0;
    assert(fs * f * (i + 1) <= n * f) by (nonlinear_arith) requires fs * (i + 1) <= n, f >= 0, fs >= 0, i >= 0;
    assert(n / fs >= k) by (nonlinear_arith) requires fs >= 1, fs * k <= n, k >= 1;
    assert(fs * i + fs == fs * (i + 1)) by (nonlinear_arith);
}

// what the (dropped) training-view construction reads at iteration i: the buffer after the first
// pair of swaps.  Front block = validation block i; tail = exactly the rows outside block i.
pub open spec fn after_first_swap<T>(s0: Seq<T>, i: int, fs: int, f: int) -> Seq<T> {
    if i == 0 { s0 } else { swap_blocks(s0, fs * f * i, fs * f) }
}
proof fn training_view_facts<T>(s0: Seq<T>, cur: Seq<T>, i: int, fs: int, f: int, n: int, k: int)
    requires 1 <= k <= n, fs == n / k, 0 <= i < k, 0 <= f, s0.len() == n * f,
             cur =~= after_first_swap(s0, i, fs, f),
    ensures
        fs * f <= s0.len(), fs * f * i + fs * f <= s0.len(),
        // the front block the training view skips is validation block i
        cur.subrange(0, fs * f) =~= s0.subrange(fs * f * i, fs * f * i + fs * f),
        // the training view (tail) is, as a multiset, every element outside validation block i
        cur.subrange(fs * f, s0.len() as int).to_multiset()
            =~= s0.subrange(0, fs * f * i).to_multiset().add(s0.subrange(fs * f * i + fs * f, s0.len() as int).to_multiset()),
        // and swapping again restores the original buffer
        i != 0 ==> swap_blocks(cur, fs * f * i, fs * f) =~= s0,
{
    lemma_fold_arith(n, k, f, i);
    let w = fs * f;
    assert(w >= 0) by (nonlinear_arith) requires fs >= 0, f >= 0, w == fs * f;
    assert(fs * f * (i + 1) == w * i + w) by (nonlinear_arith) requires w == fs * f;
    assert(fs * f * i == w * i) by (nonlinear_arith) requires w == fs * f;
    if i != 0 {
        assert(w * i >= w) by (nonlinear_arith) requires w >= 0, i >= 1;
        lemma_swap_front_is_block(s0, w * i, w);
        lemma_swap_involution(s0, w * i, w);
    } else {
        assert(s0.subrange(0, 0) =~= Seq::<T>::empty());
        assert(cur.subrange(w, s0.len() as int) =~= s0.subrange(0 + w, s0.len() as int));
        Seq::<T>::empty().to_multiset_ensures();
        assert(Seq::<T>::empty().to_multiset() =~= vstd::multiset::Multiset::<T>::empty()) by {
            assert forall|x: T| Seq::<T>::empty().to_multiset().count(x) == 0 by {
                if Seq::<T>::empty().to_multiset().count(x) > 0 { assert(Seq::<T>::empty().contains(x)); }
            }
        }
    }
}

// ---- the fold loop of iter_fold: text extracted from /repo on every run; the block that builds the
// training view and calls the user's closure is dropped (ndarray views, user code) and replaced by the
// ghost facts about what that block can observe; macro invocations become calls of assist_swap above ----
fn iter_fold_loop<T, U>(records_sl: &mut [T], targets_sl: &mut [U], k: usize, samples_count: usize, fold_size: usize, features: usize, targets: usize)
    requires 1 <= k <= samples_count, fold_size == samples_count / k,
        old(records_sl)@.len() == samples_count * features,
        old(targets_sl)@.len() == samples_count * targets,
    ensures final(records_sl)@ == old(records_sl)@, final(targets_sl)@ == old(targets_sl)@,   // dataset restored
{
    let ghost r0 = records_sl@;
    let ghost t0 = targets_sl@;
    let mut trained: Ghost<Seq<int>> = Ghost(Seq::empty());   // ghost log: which fold indices the (dropped) closure call saw
/*@LOOP*/
    assert(trained@ =~= Seq::new(k as nat, |j: int| j));             // the closure is called exactly once for each fold 0..k, in order
}

fn vacuity_guard_loop<T, U>(records_sl: &mut [T], targets_sl: &mut [U], k: usize, samples_count: usize, fold_size: usize, features: usize, targets: usize)
    requires 1 <= k <= samples_count, fold_size == samples_count / k,
        old(records_sl)@.len() == samples_count * features,
        old(targets_sl)@.len() == samples_count * targets,
    ensures false,
{
}
} // verus!
fn main() {}
