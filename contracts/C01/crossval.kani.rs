//! property: C01
//! attach: src/dataset/impl_dataset.rs
//! module: vk_c01_crossval
// @include common/prelude.rs
use crate::dataset::{Dataset, DatasetBase, Records};
use crate::traits::{Fit, PredictInplace};
use ndarray::{Array1, Array2, ArrayView1, ArrayView2};

// C01: "the cross-validation score reported for each model is the arithmetic mean over the k folds of the evaluation closure
// applied to that fold's predictions and validation targets", and the dataset is restored afterwards.
// A model that predicts, for every row, the number of rows it was trained on; row i carries the identity tag i as its target,
// so the evaluation closure can tell which validation block it is looking at and answers with a symbolic score for that block.
#[derive(Debug)]
struct NoErr(crate::error::Error);
impl core::fmt::Display for NoErr { fn fmt(&self, _f: &mut core::fmt::Formatter<'_>) -> core::fmt::Result { Ok(()) } }
impl std::error::Error for NoErr {}
impl From<crate::error::Error> for NoErr { fn from(e: crate::error::Error) -> Self { NoErr(e) } }
struct CountParams;
struct CountModel(u8);
impl<'c> Fit<ArrayView2<'c, u8>, ArrayView1<'c, u8>, NoErr> for CountParams {
    type Object = CountModel;
    fn fit(&self, d: &DatasetBase<ArrayView2<'c, u8>, ArrayView1<'c, u8>>) -> Result<CountModel, NoErr> { Ok(CountModel(d.nsamples() as u8)) }
}
impl<'a> PredictInplace<ArrayView2<'a, u8>, Array1<u8>> for CountModel {
    fn predict_inplace(&self, _x: &ArrayView2<'a, u8>, y: &mut Array1<u8>) { y.fill(self.0); }
    fn default_target(&self, x: &ArrayView2<'a, u8>) -> Array1<u8> { Array1::zeros(x.nrows()) }
}

fn check_cross_validate<const N: usize>(k: usize) {
    let fs = N / k;
    let mut rec = Array2::<u8>::zeros((N, 1));
    let mut tar = Array1::<u8>::zeros(N);
    for i in 0..N { rec[(i, 0)] = (10 + i) as u8; tar[i] = i as u8; }
    let mut ds = Dataset::new(rec, tar);
    let score: [i8; N] = kani::any();                         // score[f]: what the closure answers for validation block f
    for f in 0..N { kani::assume(score[f] >= -8 && score[f] <= 8); }
    let res = ds.cross_validate_single(k, &[CountParams], |pred: &Array1<u8>, truth: &ArrayView1<u8>| {
        assert!(pred.len() == fs && truth.len() == fs);
        let f = truth[0] as usize / fs;                       // consecutive blocks of floor(n/k) samples
        for j in 0..fs {
            assert!(truth[j] as usize == f * fs + j);         // the validation targets of block f, in order
            assert!(pred[j] as usize == N - fs);              // predictions of the model fitted on the other N - fs rows
        }
        Ok(score[f] as f32)
    });
    let res = match res { Ok(r) => r, Err(_) => { assert!(false); return; } };
    assert!(res.len() == 1);
    let mut sum = 0.0f32;
    for f in 0..k { sum += score[f] as f32; }
    assert!(res[0] == sum / k as f32);                        // the arithmetic mean over the k folds (small integers: exact)
    for i in 0..N { assert!(ds.records[(i, 0)] == (10 + i) as u8 && ds.targets[i] == i as u8); }     // restored
    kani::cover!(sum != 0.0);
}

// @unit class=bounded tier=quick mem=heavy bound="n=3,k=2 (fold size 1, one training-only tail row), 1 model, scores integers in [-8,8]" timeout=1500 fns=linfa::DatasetBase::cross_validate,linfa::DatasetBase::cross_validate_single
#[kani::proof]
#[kani::unwind(5)]
#[kani::stub(alloc::fmt::format, fmt_stub)]
fn c01_cross_validate_mean_n3_k2() {
    check_cross_validate::<3>(2);
}

// @unit class=bounded tier=thorough mem=heavy bound="n=5,k=2 (fold size 2), 1 model, scores integers in [-8,8]" timeout=2400 fns=linfa::DatasetBase::cross_validate,linfa::DatasetBase::cross_validate_single
#[kani::proof]
#[kani::unwind(7)]
#[kani::stub(alloc::fmt::format, fmt_stub)]
fn c01_cross_validate_mean_n5_k2() {
    check_cross_validate::<5>(2);
}
