//! property: C01
//! unit: V-C01-crossval-fold
//! tier: quick
//! fns: linfa::DatasetBase::cross_validate (the per-fold closure: every fitted model predicts the validation records and is scored against the validation targets)
//@ extract FOLD from src/dataset/impl_dataset.rs anchor "let targets = valid.targets();" until "            })" after "pub fn cross_validate<O, ER, M, FACC, C>("
//@ rewrite FOLD "Array::from_elem(targets.raw_dim().nsamples(models.len()), FACC::zero());" => "EvalArr::zeros(models.len());   /* Array::from_elem(targets.raw_dim().nsamples(models.len()), FACC::zero()) */"
//@ rewrite FOLD "for (i, model) in models.iter().enumerate() {" => "for i in 0..models.len() { let model = &models[i];   /* for (i, model) in models.iter().enumerate() */"
//@ rewrite FOLD "eval(&predicted, targets)" => "eval.call_tok(&predicted, targets)"
//@ rewrite FOLD "ER::from(e)" => "ErrTok::from_eval(e)"
//@ rewrite FOLD ".index_axis_mut(Axis(0), i)" => ""
//@ rewrite FOLD ".add_assign(&eval_pred);" => ".add_row(i, &eval_pred);"
//@ insert FOLD before-brace "for i in 0..models.len() " : invariant valid.wf(), eval_predictions.rows@.len() == models@.len(), targets.fold@ == valid.fold@, (forall|t: int| 0 <= t < i ==> !eval_fails(#[trigger] models@[t].id@, valid.fold@)), forall|t: int| 0 <= t < models@.len() ==> #[trigger] eval_predictions.rows@[t] == (if t < i { Some(scored(models@[t].id@, valid.fold@)) } else { None }),
//@ expect-fail vacuity_guard_fold
use vstd::prelude::*;
verus! {
pub struct ModelTok { pub id: Ghost<int> }
pub struct RecTok { pub fold: Ghost<int> }
pub struct TarTok { pub fold: Ghost<int> }
pub struct PredTok { pub model: Ghost<int>, pub fold: Ghost<int> }        // what model `model` predicts for the validation records of fold `fold`
impl ModelTok { #[verifier::external_body] pub fn predict(&self, r: &RecTok) -> (p: PredTok) ensures p.model@ == self.id@, p.fold@ == r.fold@ { unimplemented!() } }
pub struct ValidV { pub fold: Ghost<int>, pub rec: RecTok, pub tar: TarTok }
impl ValidV {
    pub open spec fn wf(&self) -> bool { self.rec.fold@ == self.fold@ && self.tar.fold@ == self.fold@ }
    pub fn targets(&self) -> (r: &TarTok) requires self.wf(), ensures r.fold@ == self.fold@ { &self.tar }
    pub fn records(&self) -> (r: &RecTok) requires self.wf(), ensures r.fold@ == self.fold@ { &self.rec }
}
// the score of model m on fold f = eval(predictions of m on the validation records of f, validation targets of f)
pub open spec fn scored(m: int, f: int) -> (int, int) { (m, f) }
pub struct EvalRow { pub of: Ghost<(int, int)> }
pub struct EvalErr { pub at: Ghost<(int, int)> }
pub struct ErrTok { pub from_eval_at: Ghost<Option<(int, int)>> }
impl ErrTok { pub fn from_eval(e: EvalErr) -> (r: ErrTok) ensures r.from_eval_at@ == Some(e.at@) { ErrTok { from_eval_at: Ghost(Some(e.at@)) } } }
pub uninterp spec fn eval_fails(m: int, f: int) -> bool;
pub struct EvalFn;
impl EvalFn {
    // the user's evaluation closure: called with (predictions, validation targets)
    #[verifier::external_body]
    pub fn call_tok(&self, p: &PredTok, t: &TarTok) -> (r: Result<EvalRow, EvalErr>)
        requires p.fold@ == t.fold@,                                       // predictions and truth of the SAME fold
        ensures r is Err <==> eval_fails(p.model@, p.fold@), r is Ok ==> r->Ok_0.of@ == scored(p.model@, p.fold@), r is Err ==> r->Err_0.at@ == (p.model@, p.fold@),
    { unimplemented!() }
}
// the (models x ..) array of one fold: row t holds nothing yet or the score it was given
pub struct EvalArr { pub rows: Ghost<Seq<Option<(int, int)>>> }
pub struct RowMut<'a> { pub arr: &'a mut EvalArr, pub i: usize }
impl EvalArr {
    #[verifier::external_body] pub fn zeros(n: usize) -> (r: EvalArr) ensures r.rows@.len() == n, forall|t: int| 0 <= t < n ==> #[trigger] r.rows@[t] is None { unimplemented!() }
    // index_axis_mut(Axis(0), i).add_assign(&row): row i (zero so far) becomes `row`
    #[verifier::external_body]
    pub fn add_row(&mut self, i: usize, row: &EvalRow)
        requires i < old(self).rows@.len(), old(self).rows@[i as int] is None,
        ensures final(self).rows@ == old(self).rows@.update(i as int, Some(row.of@)),
    { unimplemented!() }
}

// ---- the closure `|(models, valid)| { .. }` of cross_validate, body extracted from /repo on every run ----
// C01 "the evaluation closure applied to that fold's predictions and validation targets; a failing fit or evaluation surfaces as that error":
// row t of the fold's result is the score of model t on THIS fold's validation part, for every model; a failed fit (models is Err) or the
// first failing evaluation is returned as the error
pub fn fold_evaluation(models: Result<Vec<ModelTok>, ErrTok>, valid: &ValidV, eval: &EvalFn) -> (r: Result<EvalArr, ErrTok>)
    requires valid.wf(),
    ensures
        models is Err ==> r is Err,
        r is Ok ==> models is Ok && r->Ok_0.rows@.len() == models->Ok_0@.len()
            && forall|t: int| 0 <= t < models->Ok_0@.len() ==> #[trigger] r->Ok_0.rows@[t] == Some(scored(models->Ok_0@[t].id@, valid.fold@)) && !eval_fails(models->Ok_0@[t].id@, valid.fold@),
        models is Ok && (exists|t: int| 0 <= t < models->Ok_0@.len() && eval_fails(#[trigger] models->Ok_0@[t].id@, valid.fold@)) ==> r is Err,
{
/*@FOLD*/
}
pub fn vacuity_guard_fold(models: Result<Vec<ModelTok>, ErrTok>, valid: &ValidV, eval: &EvalFn) -> (r: Result<EvalArr, ErrTok>)
    requires valid.wf(),
    ensures false,
{
    Err(ErrTok { from_eval_at: Ghost(None) })
}
} // verus!
fn main() {}
