//! property: C01
//! unit: V-C01-fold
//! tier: quick
//! fns: linfa::DatasetBase::fold (chunking, rotation of the chunk lists, which chunks feed training / validation)
//@ extract FOLD from src/dataset/impl_dataset.rs anchor "pub fn fold(" body
//@ rewrite FOLD ".axis_chunks_iter(Axis(0), fold_size)" => ".axis_chunks_iter(fold_size)"
//@ drop FOLD from "let mut res = Vec::with_capacity(k);" through "let mut res = Vec::with_capacity(k);" as "        /* dropped: the result vector (owned ndarray copies) */"
//@ drop FOLD from "let remaining_records = concatenate(" through "));" as "            proof { fold_facts(i as int, k as int, n as int, records_chunks@, targets_chunks@, fold_size as int); }"
//@ drop FOLD from "        res" through "        res" as "        /* dropped: the return value */"
//@ insert FOLD after "let fold_size = " : proof { lemma_div_ge1(n as int, k as int); assert(n * self.targets.cols >= n) by (nonlinear_arith) requires self.targets.cols >= 1, n >= 0; lemma_div_ge1(n * self.targets.cols, k as int); }
//@ insert FOLD before "for i in 0..k " : proof { lemma_nchunks(n as int, fold_size as int); assert(nchunks(n as int, fold_size as int) >= 1) by (nonlinear_arith) requires n >= 1, fold_size >= 1; }
//@ insert FOLD before-brace "for i in 0..k " : invariant 1 <= k <= n, n == self.records.rows, self.wf(), fold_size > 0, fold_size == n / k, rotated(records_chunks@, chunk_seq(n as int, fold_size as int), (if i < k { i as int } else { k - 1 })), targets_chunks@ =~= records_chunks@,
//@ insert FOLD after "for i in 0..k " : proof { lemma_nchunks(n as int, fold_size as int); if fold_size == n / k { lemma_fold_arith(n as int, k as int, 1, i as int); } }
//@ expect-fail vacuity_guard_fold
use vstd::prelude::*;
verus! {
pub assume_specification<T> [ <[T]>::swap ] (s: &mut [T], a: usize, b: usize)
    requires a < old(s)@.len(), b < old(s)@.len(),
    ensures final(s)@ == old(s)@.update(a as int, old(s)@[b as int]).update(b as int, old(s)@[a as int]);

// ---- tokens for ndarray objects: a 2-D array (view) is its shape, a chunk is the row range it covers ----
#[derive(Clone, Copy)]
pub struct Chunk { pub lo: usize, pub hi: usize }
#[derive(Clone, Copy)]
pub struct View2 { pub rows: usize, pub cols: usize }
pub struct ChunksIterTok { pub items: Vec<Chunk> }

pub open spec fn nchunks(n: int, size: int) -> int { (n + size - 1) / size }
// the chunking ndarray's axis_chunks_iter(Axis(0), size) produces: consecutive blocks of `size` rows, the last one shorter
pub open spec fn chunk_seq(n: int, size: int) -> Seq<Chunk> {
    Seq::new(nchunks(n, size) as nat, |j: int| Chunk { lo: (j * size) as usize, hi: (if (j + 1) * size <= n { (j + 1) * size } else { n }) as usize })
}

impl View2 {
    // ASSUMED contract of ndarray `ArrayBase::len`: number of ELEMENTS (product of the axis lengths)
    #[verifier::external_body]
    pub fn len(&self) -> (r: usize) requires self.rows * self.cols <= usize::MAX, ensures r == self.rows * self.cols { unimplemented!() }
    // ASSUMED contract of ndarray `axis_chunks_iter(Axis(0), size)`: panics for size == 0, else yields chunk_seq
    #[verifier::external_body]
    pub fn axis_chunks_iter(&self, size: usize) -> (r: ChunksIterTok)
        requires size > 0,
        ensures r.items@ =~= chunk_seq(self.rows as int, size as int),
    { unimplemented!() }
}
impl ChunksIterTok {
    // ASSUMED contracts of Iterator::take / Iterator::collect
    #[verifier::external_body]
    pub fn take(self, k: usize) -> (r: ChunksIterTok)
        ensures r.items@ =~= self.items@.subrange(0, if k <= self.items@.len() { k as int } else { self.items@.len() as int }),
    { unimplemented!() }
    pub fn collect(self) -> (r: Vec<Chunk>) ensures r@ == self.items@ { self.items }
}

pub struct DatasetV { pub records: View2, pub targets: View2 }

// chunk list after `done` rotations: position 0 holds original chunk `done`, positions 1..=done hold 0..done-1, the rest is untouched
pub open spec fn rotated(cur: Seq<Chunk>, full: Seq<Chunk>, done: int) -> bool {
    cur.len() == full.len() && 0 <= done < full.len()
    && cur[0] == full[done]
    && (forall|p: int| 1 <= p <= done ==> cur[p] == #[trigger] full[p - 1])
    && (forall|p: int| done < p < full.len() ==> #[trigger] cur[p] == full[p])
}

proof fn lemma_div_ge1(a: int, k: int)
    requires 1 <= k <= a,
    ensures a / k >= 1,
{
    assert(a / k >= 1) by (nonlinear_arith) requires 1 <= k <= a;
}
proof fn lemma_nchunks(n: int, size: int)
    requires size > 0, n >= 0,
    ensures nchunks(n, size) >= 0, nchunks(n, size) * size >= n, (nchunks(n, size) - 1) * size < n || n == 0,
{
    assert(nchunks(n, size) * size >= n && (nchunks(n, size) - 1) * size < n + 0 || n == 0) by (nonlinear_arith)
        requires size > 0, n >= 0;
    assert(nchunks(n, size) >= 0) by (nonlinear_arith) requires size > 0, n >= 0;
}
proof fn lemma_fold_arith(n: int, k: int, f: int, i: int)
    requires 1 <= k <= n, 0 <= f, 0 <= i < k,
    ensures (n / k) >= 1, (n / k) * k <= n, (n / k) * i + (n / k) <= n, nchunks(n, n / k) >= k,
{
    let fs = n / k;
    assert(fs >= 1) by (nonlinear_arith) requires k >= 1, n >= k, fs == n / k;
    assert(fs * k <= n) by (nonlinear_arith) requires k >= 1, n >= 0, fs == n / k;
    assert(fs * i + fs <= fs * k) by (nonlinear_arith) requires 0 <= i < k, fs >= 0;
    assert((n + fs - 1) / fs >= k) by (nonlinear_arith) requires fs >= 1, fs * k <= n, k >= 1;
}

// What the (dropped) statements that build fold i read: `records_chunks[0]` / `targets_chunks[0]` as validation part and
// `&records_chunks[1..]` / `&targets_chunks[1..]` (concatenated in this order) as training part.  The property (C01) in these terms:
proof fn fold_facts(i: int, k: int, n: int, rc: Seq<Chunk>, tc: Seq<Chunk>, fold_size: int)
    requires 1 <= k <= n, n <= usize::MAX, 0 <= i < k, fold_size > 0, rotated(rc, chunk_seq(n, fold_size), i), tc =~= rc,
        fold_size == n / k,                 // <- "consecutive blocks of floor(n/k) SAMPLES": must be derivable where this lemma is invoked
    ensures
        // validation part i is rows [i*floor(n/k), (i+1)*floor(n/k))
        rc[0].lo == i * (n / k), rc[0].hi == (i + 1) * (n / k),
        // records and targets are cut identically, so every record stays with its own target
        tc[0] == rc[0], tc.subrange(1, tc.len() as int) =~= rc.subrange(1, rc.len() as int),
        // the training part is every other chunk of the complete chunking (including the shorter tail), in original order
        rc.subrange(1, rc.len() as int) =~= chunk_seq(n, n / k).remove(i),
        // and the complete chunking covers all n rows
        chunk_seq(n, n / k).len() >= k, chunk_seq(n, n / k).last().hi == n, chunk_seq(n, n / k)[0].lo == 0,
{
    let fs = n / k;
    lemma_fold_arith(n, k, 1, i);
    lemma_nchunks(n, fs);
    let full = chunk_seq(n, fs);
    let m = full.len() as int;
    assert(m == nchunks(n, fs));
    assert(m >= k);
    assert((i + 1) * fs <= n) by (nonlinear_arith) requires fs * i + fs <= n;
    assert(i * fs >= 0) by (nonlinear_arith) requires i >= 0, fs >= 0;
    assert(full[i] == Chunk { lo: (i * fs) as usize, hi: ((i + 1) * fs) as usize });
    assert(rc[0] == full[i]);
    // last chunk ends at n
    assert(m * fs >= n);
    assert((m - 1) * fs < n);
    assert((m - 1) * fs >= 0) by (nonlinear_arith) requires m >= 1, fs >= 0;
    if (m - 1 + 1) * fs <= n {
        assert(m * fs == n) by (nonlinear_arith) requires m * fs >= n, (m - 1 + 1) * fs <= n;
    }
    assert(full[m - 1].hi == n);
    assert(full.last() == full[m - 1]);
    assert(0 * fs == 0) by (nonlinear_arith);
    assert(full[0].lo == 0);
    // training list = full without chunk i, in order
    let tr = rc.subrange(1, rc.len() as int);
    let ex = full.remove(i);
    assert(tr.len() == ex.len());
    assert forall|p: int| 0 <= p < tr.len() implies tr[p] == ex[p] by {
        if p + 1 <= i { assert(rc[p + 1] == full[(p + 1) - 1]); } else { assert(rc[p + 1] == full[p + 1]); }
    }
}

impl DatasetV {
    pub open spec fn wf(&self) -> bool { self.records.rows == self.targets.rows && self.targets.cols >= 1 && self.targets.rows * self.targets.cols <= usize::MAX }
    pub fn as_targets(&self) -> (r: View2) ensures r == self.targets { self.targets }
    pub fn nsamples(&self) -> (r: usize) ensures r == self.records.rows { self.records.rows }

    // ---- DatasetBase::fold, body extracted from /repo on every run; the statements that allocate the owned copies
    //      (concatenate / into_owned / push) are dropped and replaced by the ghost facts about what they read ----
    pub fn fold(&self, k: usize)
        requires self.wf(), 1 <= k <= self.records.rows,
    {
        let ghost n = self.records.rows;
/*@FOLD*/
    }

    pub fn vacuity_guard_fold(&self, k: usize)
        requires self.wf(), 1 <= k <= self.records.rows,
        ensures false,
    {
    }
}
} // verus!
fn main() {}
