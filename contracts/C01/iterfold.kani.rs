//! property: C01
//! attach: src/dataset/impl_dataset.rs
//! module: vk_c01_iterfold
// @include common/prelude.rs
use crate::dataset::{Dataset, DatasetBase, Records};
use ndarray::{Array1, Array2};

// Bounded companions of the unbounded Verus unit V-C01-iterfold: the REAL iter_fold (ndarray views, as_slice_mut,
// sample_chunks zip) on concrete (n, k) with symbolic record values.  Row i carries the concrete identity tag i in its
// target (and in a second record column), so "every record stays attached to its own target", "validation part i is
// block i", "training = all rows outside block i" and "dataset restored" are checked literally as the statement says.
fn check_iter_fold_ix1<const N: usize>(k: usize) {
    let v: [u8; N] = kani::any();
    let mut rec = Array2::<u8>::zeros((N, 2));
    let mut tar = Array1::<u8>::zeros(N);
    for i in 0..N { rec[(i, 0)] = v[i]; rec[(i, 1)] = i as u8; tar[i] = i as u8; }
    let mut ds = Dataset::new(rec, tar);
    let fs = N / k;
    let calls = core::cell::Cell::new(0usize);
    {
        // the closure sees the training view of fold f (f = number of earlier calls): every row outside block f
        // exactly once, each record with its own target
        let it = ds.iter_fold(k, |tr| {
            let f = calls.get();
            calls.set(f + 1);
            assert!(tr.nsamples() == N - fs && tr.targets().len() == N - fs);
            let mut seen = [0u8; N];
            for j in 0..(N - fs) {
                let id = tr.targets()[j] as usize;
                assert!(id < N);
                assert!(tr.records()[(j, 1)] as usize == id && tr.records()[(j, 0)] == v[id]);
                seen[id] += 1;
            }
            for id in 0..N {
                let in_block = id >= f * fs && id < (f + 1) * fs;
                assert!(seen[id] == if in_block { 0 } else { 1 });
            }
            f
        });
        // validation part f = consecutive block f of floor(n/k) samples, in order, pairs intact
        let mut nfolds = 0;
        for (f, val) in it {
            assert!(f == nfolds);
            assert!(val.nsamples() == fs && val.targets().len() == fs);
            for j in 0..fs {
                let id = f * fs + j;
                assert!(val.targets()[j] as usize == id && val.records()[(j, 1)] as usize == id && val.records()[(j, 0)] == v[id]);
            }
            nfolds += 1;
        }
        assert!(nfolds == k && calls.get() == k);
    }
    // after the iterator is consumed the dataset holds its original rows in their original order
    for i in 0..N {
        assert!(ds.records[(i, 0)] == v[i] && ds.records[(i, 1)] == i as u8 && ds.targets[i] == i as u8);
    }
    kani::cover!(v[0] != v[N - 1]);
}

// multi-column targets (Ix2, 2 columns) with a single feature: the two swap widths differ
fn check_iter_fold_ix2<const N: usize>(k: usize) {
    let v: [u8; N] = kani::any();
    let mut rec = Array2::<u8>::zeros((N, 1));
    let mut tar = Array2::<u8>::zeros((N, 2));
    for i in 0..N { rec[(i, 0)] = v[i]; tar[(i, 0)] = i as u8; tar[(i, 1)] = v[i]; }
    let mut ds = Dataset::new(rec, tar);
    let fs = N / k;
    let calls = core::cell::Cell::new(0usize);
    {
        let it = ds.iter_fold(k, |tr| {
            let f = calls.get();
            calls.set(f + 1);
            assert!(tr.nsamples() == N - fs && tr.targets().nrows() == N - fs);
            let mut seen = [0u8; N];
            for j in 0..(N - fs) {
                let id = tr.targets()[(j, 0)] as usize;
                assert!(id < N);
                assert!(tr.targets()[(j, 1)] == v[id] && tr.records()[(j, 0)] == v[id]);
                seen[id] += 1;
            }
            for id in 0..N {
                let in_block = id >= f * fs && id < (f + 1) * fs;
                assert!(seen[id] == if in_block { 0 } else { 1 });
            }
            f
        });
        let mut nfolds = 0;
        for (f, val) in it {
            assert!(f == nfolds);
            assert!(val.nsamples() == fs && val.targets().nrows() == fs);
            for j in 0..fs {
                let id = f * fs + j;
                assert!(val.targets()[(j, 0)] as usize == id && val.targets()[(j, 1)] == v[id] && val.records()[(j, 0)] == v[id]);
            }
            nfolds += 1;
        }
        assert!(nfolds == k && calls.get() == k);
    }
    for i in 0..N {
        assert!(ds.records[(i, 0)] == v[i] && ds.targets[(i, 0)] == i as u8 && ds.targets[(i, 1)] == v[i]);
    }
    kani::cover!(v[0] != v[N - 1]);
}

// @unit class=bounded tier=quick mem=heavy bound="n=4,k=2,features=2,targets Ix1" timeout=900 fns=linfa::DatasetBase::iter_fold,linfa::DatasetBase::sample_chunks,linfa::dataset::iter::ChunksIter::next
#[kani::proof]
#[kani::unwind(8)]
#[kani::stub(alloc::fmt::format, fmt_stub)]
fn c01_iterfold_n4_k2() {
    check_iter_fold_ix1::<4>(2);
}

// @unit class=bounded tier=quick mem=heavy bound="n=5,k=2,features=2,targets Ix1 (remainder row is training-only)" timeout=900 fns=linfa::DatasetBase::iter_fold,linfa::DatasetBase::sample_chunks,linfa::dataset::iter::ChunksIter::next
#[kani::proof]
#[kani::unwind(8)]
#[kani::stub(alloc::fmt::format, fmt_stub)]
fn c01_iterfold_n5_k2() {
    check_iter_fold_ix1::<5>(2);
}

// @unit class=bounded tier=thorough mem=heavy bound="n=4,k=4,features=2,targets Ix1 (leave-one-out)" timeout=1500 fns=linfa::DatasetBase::iter_fold
#[kani::proof]
#[kani::unwind(8)]
#[kani::stub(alloc::fmt::format, fmt_stub)]
fn c01_iterfold_n4_k4() {
    check_iter_fold_ix1::<4>(4);
}

// @unit class=bounded tier=thorough mem=heavy bound="n=5,k=3,features=2,targets Ix1" timeout=1500 fns=linfa::DatasetBase::iter_fold
#[kani::proof]
#[kani::unwind(8)]
#[kani::stub(alloc::fmt::format, fmt_stub)]
fn c01_iterfold_n5_k3() {
    check_iter_fold_ix1::<5>(3);
}

// @unit class=bounded tier=thorough mem=heavy bound="n=7,k=3,features=2,targets Ix1" timeout=1800 fns=linfa::DatasetBase::iter_fold
#[kani::proof]
#[kani::unwind(10)]
#[kani::stub(alloc::fmt::format, fmt_stub)]
fn c01_iterfold_n7_k3() {
    check_iter_fold_ix1::<7>(3);
}

// @unit class=bounded tier=quick mem=heavy bound="n=4,k=2,features=1,targets Ix2 with 2 columns" timeout=900 fns=linfa::DatasetBase::iter_fold,linfa::DatasetBase::sample_chunks
#[kani::proof]
#[kani::unwind(8)]
#[kani::stub(alloc::fmt::format, fmt_stub)]
fn c01_iterfold_mt_n4_k2() {
    check_iter_fold_ix2::<4>(2);
}

// @unit class=bounded tier=thorough mem=heavy bound="n=5,k=2,features=1,targets Ix2 with 2 columns" timeout=1500 fns=linfa::DatasetBase::iter_fold
#[kani::proof]
#[kani::unwind(8)]
#[kani::stub(alloc::fmt::format, fmt_stub)]
fn c01_iterfold_mt_n5_k2() {
    check_iter_fold_ix2::<5>(2);
}

// documented panics: k == 0 and k > n are rejected by the two assert!s before anything is touched
// @unit class=complete tier=quick mem=light bound="" timeout=600 fns=linfa::DatasetBase::iter_fold
#[kani::proof]
#[kani::unwind(6)]
#[kani::should_panic]
#[kani::stub(alloc::fmt::format, fmt_stub)]
fn c01_iterfold_rejects_k0() {
    let v: [u8; 3] = kani::any();
    let mut ds = Dataset::new(Array2::from_shape_vec((3, 1), v.to_vec()).unwrap(), Array1::<u8>::zeros(3));
    kani::cover!(v[0] != v[1]);
    let _ = ds.iter_fold(0, |tr| tr.nsamples()).count();
}

// @unit class=complete tier=quick mem=light bound="" timeout=600 fns=linfa::DatasetBase::iter_fold
#[kani::proof]
#[kani::unwind(6)]
#[kani::should_panic]
#[kani::stub(alloc::fmt::format, fmt_stub)]
fn c01_iterfold_rejects_k_above_n() {
    let v: [u8; 3] = kani::any();
    let mut ds = Dataset::new(Array2::from_shape_vec((3, 1), v.to_vec()).unwrap(), Array1::<u8>::zeros(3));
    kani::cover!(v[0] != v[1]);
    let _ = ds.iter_fold(4, |tr| tr.nsamples()).count();
}
