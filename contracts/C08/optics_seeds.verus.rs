//! property: C08
//! unit: V-C08-optics-seed-order
//! tier: quick
//! fns: linfa_clustering::optics::OpticsValidParams::transform (the two call sites of get_seeds: a sample hands out reachability distances only once it is itself listed; the three places where a sample is listed: listed once and marked processed)
//@ extract S1 from algorithms/linfa-clustering/src/optics/algorithm.rs anchor "let n = &mut points[points_index];" until "while !seeds.is_empty() {"
//@ rewrite S1 "&mut points[points_index]" => "points.at_mut(points_index)   /* &mut points[points_index] */"
//@ extract S2 from algorithms/linfa-clustering/src/optics/algorithm.rs anchor "let n = &mut points[*min_point];" lines 17
//@ rewrite S2 "&mut points[*min_point]" => "points.at_mut(*min_point)   /* &mut points[*min_point] */"
//@ rewrite S2 "&*nn" => "&nn"
//@ extract S3 from algorithms/linfa-clustering/src/optics/algorithm.rs anchor "} else {" block after "while !seeds.is_empty() {"
//@ rewrite S3 "} else {" => "{   /* } else { : the start sample is not a core sample */"
//@ expect-fail vacuity_guard_seeds
use vstd::prelude::*;
use vstd::iset::ISet;
verus! {
#[derive(Clone, Copy)]
pub struct FT { pub id: Ghost<int> }
#[derive(Clone, Copy)]
pub struct ObsTok {}
pub struct RowTok {}
impl ObsTok { #[verifier::external_body] pub fn row(&self, i: usize) -> (r: RowTok) { unimplemented!() } }
pub struct SampleTok { pub index: usize, pub reachability_distance: Option<FT>, pub core_distance: Option<FT> }
impl SampleTok { #[verifier::external_body] pub fn clone(&self) -> (r: SampleTok) ensures r.index == self.index, r.core_distance == self.core_distance { unimplemented!() } }
pub struct PointsTok {}
pub uninterp spec fn at_index(p: PointsTok, i: usize) -> usize;
impl PointsTok { #[verifier::external_body] pub fn at_mut(&mut self, i: usize) -> (r: &mut SampleTok) ensures r.index == at_index(*old(self), i) { unimplemented!() } }
pub struct NbrTok {}
pub struct NnTok {}
// BTreeSet<usize> `processed`: the samples already listed (every site that pushes a sample onto `result.orderings` inserts it here)
pub struct ProcTok { pub s: Ghost<ISet<usize>> }
impl ProcTok { #[verifier::external_body] pub fn insert(&mut self, i: usize) -> (r: bool) ensures final(self).s@ == old(self).s@.insert(i) { unimplemented!() } }
pub struct OrdTok { pub s: Ghost<Seq<usize>> }                     // the indices listed so far, in order
impl OrdTok { #[verifier::external_body] pub fn push(&mut self, s: SampleTok) ensures final(self).s@ == old(self).s@.push(s.index) { unimplemented!() } }
pub struct ResTok { pub orderings: OrdTok }
pub struct SeedsTok {}
impl SeedsTok {
    #[verifier::external_body] pub fn clear(&mut self) { unimplemented!() }
    #[verifier::external_body] pub fn remove(&mut self, i: usize) -> (r: usize) { unimplemented!() }
}
pub struct OpticsV {}
impl OpticsV {
    #[verifier::external_body] pub fn find_neighbors(&self, nn: &NnTok, candidate: RowTok) -> (r: NbrTok) { unimplemented!() }
    #[verifier::external_body] pub fn set_core_distance(&self, point: &mut SampleTok, neighbors: &NbrTok, dataset: ObsTok) ensures final(point).index == old(point).index { unimplemented!() }
    // ---- C08: "a reachability distance ... equals max(core distance of o, distance to o) for some core point o within the tolerance that is LISTED
    // NO LATER THAN the sample".  get_seeds(sample = o) hands max(core(o), d(o, p)) to samples p that are not listed yet; they will be listed after
    // everything listed so far, so o itself has to be listed already ----
    #[verifier::external_body]
    pub fn get_seeds(&self, observations: ObsTok, sample: SampleTok, neighbors: &NbrTok, points: &mut PointsTok, processed: &ProcTok, seeds: &mut SeedsTok)
        requires processed.s@.contains(sample.index),
    { unimplemented!() }
    // ---- the start sample of a new cluster (first call site), text extracted from /repo on every run ----
    pub fn start_sample(&self, mut points: PointsTok, points_index: usize, neighbors: NbrTok, observations: ObsTok, mut processed: ProcTok, mut result: ResTok, mut seeds: SeedsTok, Ghost(idx): Ghost<usize>) -> (r: (ProcTok, ResTok, bool))
        requires forall|p: PointsTok, i: usize| #![trigger at_index(p, i)] at_index(p, i) == idx,      // the sample at `points_index` has index `idx` (points[k].index == k)
        ensures r.2 ==> r.1.orderings.s@ == result.orderings.s@.push(idx) && r.0.s@ == processed.s@.insert(idx),      // a core start sample: listed once, marked processed
            !r.2 ==> r.1.orderings.s@ == result.orderings.s@ && r.0.s@ == processed.s@,
    {
        let mut was_core = false;
/*@S1*/
            was_core = true;
        }
        (processed, result, was_core)
    }
    // ---- a sample taken from the seed list (second call site) ----
    pub fn seed_sample(&self, mut points: PointsTok, min_point: &usize, i: usize, nn: NnTok, observations: ObsTok, mut processed: ProcTok, mut result: ResTok, mut seeds: SeedsTok, Ghost(idx): Ghost<usize>) -> (r: (ProcTok, ResTok))
        requires forall|p: PointsTok, i: usize| #![trigger at_index(p, i)] at_index(p, i) == idx,
        ensures r.1.orderings.s@ == result.orderings.s@.push(idx), r.0.s@ == processed.s@.insert(idx),
    {
/*@S2*/
        (processed, result)
    }
    // ---- a start sample that is not a core sample (the `else` branch): listed once, marked processed ----
    pub fn noise_sample(&self, n: &mut SampleTok, mut processed: ProcTok, mut result: ResTok) -> (r: (ProcTok, ResTok))
        ensures r.1.orderings.s@ == result.orderings.s@.push(old(n).index), r.0.s@ == processed.s@.insert(old(n).index),
    {
/*@S3*/
        (processed, result)
    }
    pub fn vacuity_guard_seeds(&self, mut processed: ProcTok)
        ensures false,
    {
        let _ = processed.insert(0);
    }
}
} // verus!
fn main() {}
