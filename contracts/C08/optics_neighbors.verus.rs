//! property: C08
//! unit: V-C08-optics-core-distance
//! tier: quick
//! fns: linfa_clustering::optics::OpticsValidParams::find_neighbors (the samples within the tolerance, sorted by their distance to the query), linfa_clustering::optics::OpticsValidParams::set_core_distance (distance to the minimum_points-th entry of that list, undefined when the list is shorter)
//@ extract FN from algorithms/linfa-clustering/src/optics/algorithm.rs anchor "fn find_neighbors(" body
//@ drop? FN from "let mut neighbors: Vec<Sample<F>> = nn" through ".collect();" as "        let mut neighbors = nn.within_range_samples(&candidate, self.tolerance());   /* the within_range(..).unwrap().into_iter().map(|(pt, index)| Sample { index, reachability_distance: Some(dist(pt, candidate)), core_distance: None }).collect() chain */"
//@ drop? FN from "nn.within_range(candidate, self.tolerance())" through ".collect()" as "        nn.within_range_samples(&candidate, self.tolerance())   /* the same chain as a tail expression (the shape before fix b99ff5d) */"
//@ drop? FN from "let neighbors: Vec<Sample<F>> = nn" through ".collect();" as "        let neighbors = nn.within_range_samples(&candidate, self.tolerance());   /* the same chain bound immutably */"
//@ extract CORE from algorithms/linfa-clustering/src/optics/algorithm.rs anchor "fn set_core_distance(" body
//@ rewrite CORE ".map(|x| dataset.row(x.index))" => ".map_row(&dataset)   /* .map(|x| dataset.row(x.index)) */"
//@ rewrite CORE ".map(|x| self.dist_fn().distance(observation, x))" => ".map_dist(self.dist_fn(), &observation)   /* .map(|x| self.dist_fn().distance(observation, x)) */"
//@ expect-fail vacuity_guard_optics
use vstd::prelude::*;
use std::cmp::Ordering;
verus! {
// floats as mathematical numbers (DESIGN.md 4.3): distances are only compared here
pub uninterp spec fn dist(i: int, j: int) -> int;                   // distance between samples i and j
pub uninterp spec fn qdist(q: int, j: int) -> int;                  // distance between the query row q and sample j
#[derive(Clone, Copy)]
pub struct FT { pub v: Ghost<int> }
// Option<F> as stored in Sample::reachability_distance; Option's derived partial_cmp: None < Some, Some by value (ASSUMED of core)
#[derive(Clone, Copy)]
pub struct OptF { pub some: bool, pub v: Ghost<int> }
pub struct OptOrd { pub o: Option<Ordering> }
impl OptF {
    #[verifier::external_body]
    pub fn partial_cmp(&self, o: &OptF) -> (r: OptOrd)
        ensures r.o == Some(if self.some && o.some { if self.v@ < o.v@ { Ordering::Less } else if self.v@ == o.v@ { Ordering::Equal } else { Ordering::Greater } }
                            else if !self.some && !o.some { Ordering::Equal } else if !self.some { Ordering::Less } else { Ordering::Greater }),
    { unimplemented!() }
}
impl OptOrd { pub fn unwrap_or(self, d: Ordering) -> (r: Ordering) ensures r == (match self.o { Some(x) => x, None => d }) { match self.o { Some(x) => x, None => d } } }
pub struct SampleTok { pub index: usize, pub reachability_distance: OptF, pub core_distance: OptF }
pub struct RowTok { pub q: Ghost<int> }
pub struct NbrList { pub s: Ghost<Seq<(int, int)>> }               // (index, distance to the query) of each listed neighbour
pub open spec fn sorted_by_dist(s: Seq<(int, int)>) -> bool { forall|a: int, b: int| 0 <= a < b < s.len() ==> s[a].1 <= s[b].1 }
pub open spec fn same_members(a: Seq<(int, int)>, b: Seq<(int, int)>) -> bool { a.to_multiset() == b.to_multiset() }
impl NbrList {
    // Vec::sort_by with the comparator verified in V-C08-optics-comparator (it orders two samples by their distance to the query): a permutation,
    // ascending in that key (ASSUMED of std)
    #[verifier::external_body]
    pub fn sort_by<G: Fn(&SampleTok, &SampleTok) -> Ordering>(&mut self, f: G) ensures sorted_by_dist(final(self).s@), same_members(final(self).s@, old(self).s@) { unimplemented!() }
    #[verifier::external_body] pub fn len(&self) -> (r: usize) ensures r == self.s@.len() { unimplemented!() }
    // slice::get
    #[verifier::external_body]
    pub fn get(&self, k: usize) -> (r: OptSample) ensures r.some == (k < self.s@.len()), r.some ==> r.idx@ == self.s@[k as int].0 { unimplemented!() }
}
pub struct OptSample { pub some: bool, pub idx: Ghost<int> }
pub struct OptRow { pub some: bool, pub idx: Ghost<int> }
pub struct DatasetTok {}
impl DatasetTok { #[verifier::external_body] pub fn row(&self, i: usize) -> (r: RowTok) ensures r.q@ == i { unimplemented!() } }
impl OptSample {
    // Option::and
    pub fn and(self, o: OptSample) -> (r: OptSample) ensures r.some == (self.some && o.some), r.some ==> r.idx@ == o.idx@ { if self.some { o } else { OptSample { some: false, idx: Ghost(0) } } }
    #[verifier::external_body] pub fn map_row(self, d: &DatasetTok) -> (r: OptRow) ensures r.some == self.some, r.idx@ == self.idx@ { unimplemented!() }
}
pub struct DistTok {}
impl OptRow {
    // .map(|x| dist_fn.distance(observation, x))
    #[verifier::external_body] pub fn map_dist(self, f: &DistTok, obs: &RowTok) -> (r: OptF) ensures r.some == self.some, self.some ==> r.v@ == dist(obs.q@, self.idx@) { unimplemented!() }
}
// what the index answers for a query row: the samples within the tolerance, each once, in NO particular order (the trait promises none; only the
// k-d tree happens to sort), each carrying its distance to the query as `reachability_distance`
pub uninterp spec fn within(q: int) -> Seq<(int, int)>;
pub struct NnTok {}
impl NnTok {
    #[verifier::external_body]
    pub fn within_range_samples(&self, candidate: &RowTok, tol: FT) -> (r: NbrList)
        ensures r.s@ == within(candidate.q@), forall|a: int| 0 <= a < r.s@.len() ==> (#[trigger] r.s@[a]).1 == qdist(candidate.q@, r.s@[a].0),
    { unimplemented!() }
}
pub struct OpticsV { pub mp: usize, pub tol: FT, pub d: DistTok }
impl OpticsV {
    #[verifier::external_body] pub fn tolerance(&self) -> (r: FT) ensures r == self.tol { unimplemented!() }
    #[verifier::external_body] pub fn minimum_points(&self) -> (r: usize) ensures r == self.mp { unimplemented!() }
    #[verifier::external_body] pub fn dist_fn(&self) -> (r: &DistTok) { unimplemented!() }
    // ---- C08 "core distance equal to the distance to its min_points-th NEAREST neighbour ... neither result depends on the choice of neighbour
    // index": the list handed to set_core_distance is sorted by distance to the query, whatever order the index answered in.  Body extracted ----
    pub fn find_neighbors(&self, nn: &NnTok, candidate: RowTok) -> (r: NbrList)
        ensures sorted_by_dist(r.s@), same_members(r.s@, within(candidate.q@)),
    {
/*@FN*/
    }
    // ---- set_core_distance, body extracted: the distance to the minimum_points-th listed neighbour, undefined when fewer are listed ----
    pub fn set_core_distance(&self, point: &mut SampleTok, neighbors: &NbrList, dataset: DatasetTok)
        requires self.mp >= 1,
        ensures final(point).core_distance.some == (neighbors.s@.len() >= self.mp),
            neighbors.s@.len() >= self.mp ==> final(point).core_distance.v@ == dist(old(point).index as int, neighbors.s@[self.mp - 1].0),
            final(point).index == old(point).index,
    {
/*@CORE*/
    }
    pub fn vacuity_guard_optics(&self, nn: &NnTok, candidate: RowTok) -> (r: NbrList)
        ensures false,
    {
        nn.within_range_samples(&candidate, self.tol)
    }
}
} // verus!
fn main() {}
