//! property: C08
//! unit: V-C08-dbscan-loop
//! tier: quick
//! fns: linfa_clustering::dbscan::DbscanValidParams::transform (array form: seed loop, work queue, labelling; partial correctness; find_neighbors by its contract, proved in V-C08-find-neighbors)
//@ extract PRO from algorithms/linfa-clustering/src/dbscan/algorithm.rs anchor "let mut cluster_memberships = Array1::from_elem(observations.nrows(), None);" lines 5 after "fn transform(&self, observations: &ArrayBase<D, Ix2>) -> Array1<Option<usize>> {"
//@ rewrite PRO "Array1::from_elem(observations.nrows(), None)" => "vec_none(observations.nrows())   /* Array1::from_elem(observations.nrows(), None) */"
//@ rewrite PRO "let mut current_cluster_id = 0;" => "let mut current_cluster_id: usize = 0;"
//@ rewrite PRO "vec![false; observations.nrows()]" => "vec_false(observations.nrows())   /* vec![false; observations.nrows()] */"
//@ rewrite PRO "VecDeque::with_capacity(" => "QueueTok::with_capacity("
//@ extract LOOP from algorithms/linfa-clustering/src/dbscan/algorithm.rs anchor "for i in 0..observations.nrows() {" block
//@ rewrite LOOP "for i in 0..observations.nrows() {" => "let n_obs = observations.nrows(); let mut i_next: usize = 0; while i_next < n_obs /*INVO*/ { let i = i_next; i_next += 1;   /* for i in 0..observations.nrows(), as a while loop (the body uses `continue`) */"
//@ rewrite LOOP "&*nn" => "&nn"
//@ rewrite LOOP "neighbors.iter().for_each(|&n| search_found[n] = true);" => "for t in 0..neighbors.len() /*INVF*/ { let n = neighbors[t]; search_found[n] = true; }   /* neighbors.iter().for_each(|&n| search_found[n] = true) */"
//@ rewrite LOOP "search_queue.extend(neighbors.into_iter());" => "search_queue.extend(neighbors);   /* neighbors.into_iter() */"
//@ rewrite LOOP "while let Some(candidate_idx) = search_queue.pop_front() {" => "while !search_queue.is_empty() /*INVW*/ { let ghost q0 = search_queue.q@; let ghost m0 = cluster_memberships@; let candidate_idx = search_queue.pop_front().unwrap();   /* while let Some(candidate_idx) = search_queue.pop_front() */"
//@ rewrite LOOP "for n in neighbors.into_iter() {" => "for t in 0..neighbors.len() /*INVP*/ { let n = neighbors[t]; /*HINTB*/   /* for n in neighbors.into_iter() */"
//@ insert LOOP after "self.find_neighbors(&nn, i, observations, self.tolerance, &cluster_memberships);" : let ghost nb0 = neighbors@;   /* ghost: the seed's unlabelled neighbours */
//@ insert LOOP before "search_queue.extend(" : proof { parent = Seq::new(parent.len(), |k: int| if 0 <= k < n0 && nb0.contains(k as usize) { i as int } else { parent[k] }); }
//@ insert LOOP after "cluster_memberships[i] = Some(current_cluster_id);" : proof { seeds = seeds.push(i as int); assert forall|a: int| 0 <= a < search_queue.q@.len() implies parent[(#[trigger] search_queue.q@[a]) as int] == i as int by { assert(nb0.contains(nb0[a])); } }
//@ insert LOOP after "cluster_memberships[candidate_idx] = Some(current_cluster_id);" : proof { let q1 = search_queue.q@; assert(q0[0] == candidate_idx); assert forall|a: int| 0 <= a < q1.len() implies #[trigger] q1[a] == q0[a + 1] by {} assert forall|k: int| 0 <= k < n0 && #[trigger] search_found@[k] implies q1.contains(k as usize) || cluster_memberships@[k] is Some by { if k != candidate_idx as int && !(m0[k] is Some) { assert(q0.contains(k as usize)); let a = choose|a: int| 0 <= a < q0.len() && q0[a] == k as usize; assert(a != 0); assert(q1[a - 1] == k as usize); } } assert(queue_ok(q1, cluster_memberships@, search_found@, parent, n0, mp, current_cluster_id as int)); assert(base_ok(cluster_memberships@, parent, n0, mp)); assert forall|q: int, p: int| #![trigger nbr(q, p)] 0 <= q < n0 && 0 <= p < n0 && cluster_memberships@[q] == Some(current_cluster_id) && core(q, mp) && nbr(q, p) implies cluster_memberships@[p] is Some || q1.contains(p as usize) || (q == candidate_idx as int && exists|a: int| 0 <= a < neighbors@.len() && #[trigger] neighbors@[a] == p as usize) by { if !(cluster_memberships@[p] is Some) { if q != candidate_idx as int || m0[q] is Some { assert(m0[q] == Some(current_cluster_id)); assert(q0.contains(p as usize)); let a = choose|a: int| 0 <= a < q0.len() && q0[a] == p as usize; assert(a != 0); assert(q1[a - 1] == p as usize); } else { assert(m0[p] is None && p != candidate_idx as int); assert(neighbors@.contains(p as usize)); let a = choose|a: int| 0 <= a < neighbors@.len() && neighbors@[a] == p as usize; assert(neighbors@[a] == p as usize); } } } }
//@ insert LOOP after "    search_found[n] = true;" : proof { let q2 = search_queue.q@; assert(q2[q2.len() - 1] == n); assert forall|k: int| 0 <= k < n0 && #[trigger] search_found@[k] implies q2.contains(k as usize) || cluster_memberships@[k] is Some by { if k == n as int { assert(q2[q2.len() - 1] == k as usize); } else if !(cluster_memberships@[k] is Some) { assert(qp.contains(k as usize)); let a = choose|a: int| 0 <= a < qp.len() && qp[a] == k as usize; assert(q2[a] == k as usize); } } assert forall|x: usize| qp.contains(x) implies q2.contains(x) by { let a = choose|a: int| 0 <= a < qp.len() && qp[a] == x; assert(q2[a] == x); } }
//@ insert LOOP before "search_queue.push_back(n);" : let ghost qp = search_queue.q@;
//@ insert LOOP after "search_queue.push_back(n);" : proof { parent = parent.update(n as int, candidate_idx as int); }
//@ rewrite LOOP "/*INVO*/" => "invariant n_obs == n0, nn.n@ == n0, observations.n@ == n0, mp == self.min_points, cluster_memberships@.len() == n0, search_found@.len() == n0, (forall|k: int| 0 <= k < n0 && #[trigger] search_found@[k] ==> cluster_memberships@[k] is Some), search_queue.q@.len() == 0, base_ok(cluster_memberships@, parent, n0, mp), labels_ok(cluster_memberships@, seeds, n0, current_cluster_id as int), current_cluster_id <= i_next <= n0, (forall|p: int| 0 <= p < i_next ==> (#[trigger] cluster_memberships@[p]) is Some || !core(p, mp)), sym(), closed_ok(cluster_memberships@, n0, mp, current_cluster_id as int), same_ok(cluster_memberships@, n0, mp),"
//@ rewrite LOOP "/*INVF*/" => "invariant search_found@.len() == n0, cluster_memberships@.len() == n0, (forall|a: int| 0 <= a < neighbors@.len() ==> (#[trigger] neighbors@[a]) < n0), (forall|k: int| 0 <= k < n0 && #[trigger] search_found@[k] ==> cluster_memberships@[k] is Some || neighbors@.contains(k as usize)),"
//@ rewrite LOOP "/*INVW*/" => "invariant n_obs == n0, nn.n@ == n0, observations.n@ == n0, mp == self.min_points, i < n0, i_next == i + 1, cluster_memberships@.len() == n0, search_found@.len() == n0, base_ok(cluster_memberships@, parent, n0, mp), labels_ok(cluster_memberships@, seeds, n0, current_cluster_id + 1), current_cluster_id + 1 <= i_next, queue_ok(search_queue.q@, cluster_memberships@, search_found@, parent, n0, mp, current_cluster_id as int), (forall|p: int| 0 <= p < i_next ==> (#[trigger] cluster_memberships@[p]) is Some || !core(p, mp)), sym(), closed_ok(cluster_memberships@, n0, mp, current_cluster_id as int), cur_closed(cluster_memberships@, search_queue.q@, n0, mp, current_cluster_id as int, -1, Seq::<usize>::empty(), 0), same_ok(cluster_memberships@, n0, mp),"
//@ rewrite LOOP "/*INVP*/" => "invariant n_obs == n0, nn.n@ == n0, mp == self.min_points, candidate_idx < n0, cluster_memberships@.len() == n0, search_found@.len() == n0, parent.len() == n0, core(candidate_idx as int, mp), cluster_memberships@[candidate_idx as int] == Some(current_cluster_id), (forall|a: int| 0 <= a < neighbors@.len() ==> (#[trigger] neighbors@[a]) < n0 && nbr(candidate_idx as int, neighbors@[a] as int) && (cluster_memberships@[neighbors@[a] as int] is None || neighbors@[a] == candidate_idx)), base_ok(cluster_memberships@, parent, n0, mp), queue_ok(search_queue.q@, cluster_memberships@, search_found@, parent, n0, mp, current_cluster_id as int), sym(), m0.len() == n0, cluster_memberships@ == m0.update(candidate_idx as int, Some(current_cluster_id)), (forall|j: int| 0 <= j < n0 && nbr(candidate_idx as int, j) && (#[trigger] m0[j]) is None && j != candidate_idx ==> neighbors@.contains(j as usize)), closed_ok(cluster_memberships@, n0, mp, current_cluster_id as int), cur_closed(cluster_memberships@, search_queue.q@, n0, mp, current_cluster_id as int, candidate_idx as int, neighbors@, t as int), same_ok(cluster_memberships@, n0, mp),"
//@ rewrite LOOP "/*HINTB*/" => "let ghost qb = search_queue.q@; proof { assert forall|q: int, p: int| #![trigger nbr(q, p)] 0 <= q < n0 && 0 <= p < n0 && cluster_memberships@[q] == Some(current_cluster_id) && core(q, mp) && nbr(q, p) implies cluster_memberships@[p] is Some || qb.contains(p as usize) || p == n as int || (q == candidate_idx as int && exists|a: int| t + 1 <= a < neighbors@.len() && #[trigger] neighbors@[a] == p as usize) by { if !(cluster_memberships@[p] is Some) && !qb.contains(p as usize) { let a = choose|a: int| t <= a < neighbors@.len() && #[trigger] neighbors@[a] == p as usize; if a == t { assert(neighbors@[t as int] == n); assert(p == n as int); } else { assert(t + 1 <= a && neighbors@[a] == p as usize); } } } }"
//@ expect-fail vacuity_guard_dbscan
use vstd::prelude::*;
verus! {
// ---- the geometry, abstractly: which points lie within the tolerance of which, as the neighbour index decides it (C07) ----
pub uninterp spec fn nbr(i: int, j: int) -> bool;
pub uninterp spec fn deg(i: int) -> int;                       // how many points lie within the tolerance of point i, itself included
pub open spec fn core(i: int, mp: usize) -> bool { deg(i) >= mp }
#[derive(Clone, Copy)]
pub struct FT { pub id: Ghost<int> }
pub struct ObsTok { pub n: Ghost<int> }
impl ObsTok { #[verifier::external_body] pub fn nrows(&self) -> (r: usize) ensures r == self.n@ { unimplemented!() } }
pub open spec fn wr_ok(wr: Seq<usize>, idx: int, n: int) -> bool {
    &&& forall|s: int| 0 <= s < wr.len() ==> (#[trigger] wr[s]) < n && nbr(idx, wr[s] as int)
    &&& forall|a: int, b: int| 0 <= a < b < wr.len() ==> wr[a] != wr[b]
    &&& forall|j: int| 0 <= j < n && nbr(idx, j) ==> exists|s: int| 0 <= s < wr.len() && #[trigger] wr[s] == j
}
// NearestNeighbourIndex::within_range(row idx, eps).unwrap().into_iter() - ASSUMED (this is C07's contract): every point within the
// tolerance exactly once, nothing else; the indices are what the `(point, index)` pairs carry
pub struct NnTok { pub n: Ghost<int> }
impl NnTok {
    #[verifier::external_body]
    pub fn within_range_tok(&self, idx: usize, eps: FT) -> (r: Vec<usize>)
        requires idx < self.n@,
        ensures wr_ok(r@, idx as int, self.n@), r@.len() == deg(idx as int),
    { unimplemented!() }
}
pub struct QueueTok { pub q: Ghost<Seq<usize>> }                // VecDeque<usize>
impl QueueTok {
    #[verifier::external_body] pub fn with_capacity(n: usize) -> (r: QueueTok) ensures r.q@.len() == 0 { unimplemented!() }
    #[verifier::external_body] pub fn is_empty(&self) -> (r: bool) ensures r == (self.q@.len() == 0) { unimplemented!() }
    #[verifier::external_body]
    pub fn pop_front(&mut self) -> (r: Option<usize>)
        ensures old(self).q@.len() == 0 ==> r is None && final(self).q@ == old(self).q@,
            old(self).q@.len() > 0 ==> r == Some(old(self).q@[0]) && final(self).q@ == old(self).q@.subrange(1, old(self).q@.len() as int),
    { unimplemented!() }
    #[verifier::external_body] pub fn push_back(&mut self, x: usize) ensures final(self).q@ == old(self).q@.push(x) { unimplemented!() }
    #[verifier::external_body] pub fn extend(&mut self, v: Vec<usize>) ensures final(self).q@ == old(self).q@ + v@ { unimplemented!() }
}
#[verifier::external_body] pub fn vec_none(n: usize) -> (r: Vec<Option<usize>>) ensures r@.len() == n, forall|k: int| 0 <= k < n ==> (#[trigger] r@[k]) is None { unimplemented!() }
#[verifier::external_body] pub fn vec_false(n: usize) -> (r: Vec<bool>) ensures r@.len() == n, forall|k: int| 0 <= k < n ==> !#[trigger] r@[k] { unimplemented!() }

// ---- C08, the clauses decided here ----
// "a border point carries the label of some core point that reaches it": every labelled point is a core point, or was reached from a core point
// (its `parent`, ghost) within the tolerance that carries the same label
pub open spec fn base_ok(m: Seq<Option<usize>>, parent: Seq<int>, n: int, mp: usize) -> bool {
    &&& m.len() == n && parent.len() == n
    &&& forall|p: int| 0 <= p < n && (#[trigger] m[p]) is Some ==> (core(p, mp) || (0 <= parent[p] < n && core(parent[p], mp) && nbr(parent[p], p) && m[parent[p]] == m[p]))
}
// "labels are 0..c-1 without gaps": every label is below the bound, and every number below the bound is the label of its seed
pub open spec fn labels_ok(m: Seq<Option<usize>>, seeds: Seq<int>, n: int, bound: int) -> bool {
    &&& forall|p: int| 0 <= p < n && (#[trigger] m[p]) is Some ==> m[p]->Some_0 < bound
    &&& seeds.len() == bound
    &&& forall|l: int| 0 <= l < bound ==> 0 <= (#[trigger] seeds[l]) < n && m[seeds[l]] == Some(l as usize)
}
// the work queue: points without a label (or, were one enqueued twice, already carrying the current label), each within the tolerance of a core
// point that already carries the current label; a raised `search_found` flag means "in the queue, or labelled"
pub open spec fn queue_ok(q: Seq<usize>, m: Seq<Option<usize>>, sf: Seq<bool>, parent: Seq<int>, n: int, mp: usize, cur: int) -> bool {
    &&& forall|a: int| 0 <= a < q.len() ==> (#[trigger] q[a]) < n && (m[q[a] as int] is None || m[q[a] as int] == Some(cur as usize))
            && 0 <= parent[q[a] as int] < n && core(parent[q[a] as int], mp) && nbr(parent[q[a] as int], q[a] as int) && m[parent[q[a] as int]] == Some(cur as usize)
    &&& forall|k: int| 0 <= k < n && #[trigger] sf[k] ==> q.contains(k as usize) || m[k] is Some
}
// "a point is labelled exactly when it is a core point or lies within the tolerance of a core point": closure of the finished clusters ...
pub open spec fn closed_ok(m: Seq<Option<usize>>, n: int, mp: usize, lim: int) -> bool {
    forall|q: int, p: int| #![trigger nbr(q, p)] 0 <= q < n && 0 <= p < n && m[q] is Some && m[q]->Some_0 < lim && core(q, mp) && nbr(q, p) ==> m[p] is Some
}
// ... and of the cluster under construction: what an expanded core point reaches is labelled or waits in the queue (for the candidate `c` that
// is being expanded right now: or is among its neighbours not looked at yet)
pub open spec fn cur_closed(m: Seq<Option<usize>>, qs: Seq<usize>, n: int, mp: usize, cur: int, c: int, nbrs: Seq<usize>, t: int) -> bool {
    forall|q: int, p: int| #![trigger nbr(q, p)] 0 <= q < n && 0 <= p < n && m[q] == Some(cur as usize) && core(q, mp) && nbr(q, p)
        ==> m[p] is Some || qs.contains(p as usize) || (q == c && exists|a: int| t <= a < nbrs.len() && #[trigger] nbrs[a] == p as usize)
}
// "two core points within the tolerance of each other carry the same label"
pub open spec fn same_ok(m: Seq<Option<usize>>, n: int, mp: usize) -> bool {
    forall|q: int, p: int| #![trigger nbr(q, p)] 0 <= q < n && 0 <= p < n && m[q] is Some && m[p] is Some && core(q, mp) && core(p, mp) && nbr(q, p) ==> m[q] == m[p]
}
// the tolerance test is symmetric (ASSUMED: the distance is a metric, the same index answers both queries)
pub open spec fn sym() -> bool { forall|i: int, j: int| #![trigger nbr(i, j)] nbr(i, j) == nbr(j, i) }
pub struct DbscanV { pub min_points: usize, pub tolerance: FT }
impl DbscanV {
    // ---- find_neighbors: its contract only (the body is verified against it in V-C08-find-neighbors): the count is the number of points within the tolerance (the point itself
    // included), the list holds only points within the tolerance that carry no label yet, each once, and every such point other than the query itself ----
    #[verifier::external_body]
    pub fn find_neighbors(&self, nn: &NnTok, idx: usize, observations: &ObsTok, eps: FT, clusters: &Vec<Option<usize>>) -> (r: (usize, Vec<usize>))
        requires idx < nn.n@, clusters@.len() == nn.n@,
        ensures r.0 == deg(idx as int),
            forall|a: int| 0 <= a < r.1@.len() ==> (#[trigger] r.1@[a]) < nn.n@ && nbr(idx as int, r.1@[a] as int) && clusters@[r.1@[a] as int] is None,
            forall|a: int, b: int| 0 <= a < b < r.1@.len() ==> r.1@[a] != r.1@[b],
            forall|j: int| 0 <= j < nn.n@ && nbr(idx as int, j) && (#[trigger] clusters@[j]) is None && j != idx ==> r.1@.contains(j as usize),
    { unimplemented!() }
    // ---- the seed loop and the work queue of `transform`, extracted from /repo on every run.  The construction of the neighbour index (and the
    // all-noise answer for zero-dimensional input) is dropped: `nn` is a parameter.  PARTIAL correctness: termination of the queue loop is not proved ----
    #[verifier::exec_allows_no_decreases_clause]
    pub fn transform(&self, observations: &ObsTok, nn: NnTok) -> (r: Vec<Option<usize>>)
        requires nn.n@ == observations.n@, sym(),
        ensures r@.len() == observations.n@,
            // labels are 0..c-1 without gaps
            exists|c: int, seeds: Seq<int>| labels_ok(r@, seeds, observations.n@, c),
            // a labelled point is a core point or lies within the tolerance of a core point with the same label
            forall|p: int| 0 <= p < observations.n@ && (#[trigger] r@[p]) is Some ==> (core(p, self.min_points) || exists|q: int| 0 <= q < observations.n@ && core(q, self.min_points) && nbr(q, p) && #[trigger] r@[q] == r@[p]),
            // every core point is labelled, and so is every point within the tolerance of a core point
            forall|p: int| 0 <= p < observations.n@ && core(p, self.min_points) ==> (#[trigger] r@[p]) is Some,
            forall|q: int, p: int| #![trigger nbr(q, p)] 0 <= q < observations.n@ && 0 <= p < observations.n@ && core(q, self.min_points) && nbr(q, p) ==> r@[p] is Some,
            // two core points within the tolerance of each other carry the same label
            same_ok(r@, observations.n@, self.min_points),
    {
        let ghost n0 = observations.n@;
        let ghost mp = self.min_points;
        let ghost mut parent: Seq<int> = Seq::new(n0 as nat, |k: int| k);
        let ghost mut seeds: Seq<int> = Seq::empty();
/*@PRO*/
/*@LOOP*/
        proof {
            assert(labels_ok(cluster_memberships@, seeds, n0, current_cluster_id as int));
            assert forall|p: int| 0 <= p < n0 && (#[trigger] cluster_memberships@[p]) is Some implies (core(p, mp) || exists|q: int| 0 <= q < n0 && core(q, mp) && nbr(q, p) && #[trigger] cluster_memberships@[q] == cluster_memberships@[p]) by {
                if !core(p, mp) { let q = parent[p]; assert(cluster_memberships@[q] == cluster_memberships@[p]); }
            }
        }
        cluster_memberships
    }
    pub fn vacuity_guard_dbscan(&self, observations: &ObsTok, nn: NnTok) -> (r: Vec<Option<usize>>)
        requires nn.n@ == observations.n@,
        ensures false,
    {
        vec_none(0)
    }
}
} // verus!
fn main() {}
