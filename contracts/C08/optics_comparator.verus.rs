//! property: C08
//! unit: V-C08-optics-comparator
//! tier: quick
//! fns: linfa_clustering::optics::OpticsValidParams::find_neighbors (the comparator closure handed to sort_by)
//@ extract CMP from algorithms/linfa-clustering/src/optics/algorithm.rs anchor "neighbors.sort_by(|a, b| {" body
//@ expect-fail vacuity_guard_cmp
use vstd::prelude::*;
use std::cmp::Ordering;
verus! {
// floats as mathematical numbers (DESIGN.md 4.3): distances are only compared here
pub uninterp spec fn dist(i: int, j: int) -> int;                   // distance between samples i and j
pub uninterp spec fn qdist(q: int, j: int) -> int;                  // distance between the query row q and sample j
#[derive(Clone, Copy)]
pub struct FT { pub v: Ghost<int> }
// Option<F> as stored in Sample::reachability_distance; Option's derived partial_cmp: None < Some, Some by value (ASSUMED of core)
#[derive(Clone, Copy)]
pub struct OptF { pub some: bool, pub v: Ghost<int> }
pub struct OptOrd { pub o: Option<Ordering> }
impl OptF {
    #[verifier::external_body]
    pub fn partial_cmp(&self, o: &OptF) -> (r: OptOrd)
        ensures r.o == Some(if self.some && o.some { if self.v@ < o.v@ { Ordering::Less } else if self.v@ == o.v@ { Ordering::Equal } else { Ordering::Greater } }
                            else if !self.some && !o.some { Ordering::Equal } else if !self.some { Ordering::Less } else { Ordering::Greater }),
    { unimplemented!() }
}
impl OptOrd { pub fn unwrap_or(self, d: Ordering) -> (r: Ordering) ensures r == (match self.o { Some(x) => x, None => d }) { match self.o { Some(x) => x, None => d } } }
pub struct SampleTok { pub index: usize, pub reachability_distance: OptF, pub core_distance: OptF }
pub struct OpticsV {}
impl OpticsV {
    // ---- the comparator closure handed to sort_by, body extracted: orders two samples by their distance to the query ----
    pub fn cmp_body(a: &SampleTok, b: &SampleTok) -> (r: Ordering)
        requires a.reachability_distance.some, b.reachability_distance.some,
        ensures r == (if a.reachability_distance.v@ < b.reachability_distance.v@ { Ordering::Less } else if a.reachability_distance.v@ == b.reachability_distance.v@ { Ordering::Equal } else { Ordering::Greater }),
    {
/*@CMP*/
    }
    pub fn vacuity_guard_cmp(a: &SampleTok, b: &SampleTok) -> (r: Ordering)
        requires a.reachability_distance.some, b.reachability_distance.some,
        ensures false,
    {
        Ordering::Equal
    }
}
} // verus!
fn main() {}
