//! property: C08
//! unit: V-C08-optics-get-seeds
//! tier: quick
//! fns: linfa_clustering::optics::OpticsValidParams::get_seeds (reachability update of the unlisted neighbours of a listed core sample)
//@ extract GS from algorithms/linfa-clustering/src/optics/algorithm.rs anchor "fn get_seeds(" body
//@ rewrite GS "for n in neighbors.iter().filter(|x| !processed.contains(&x.index)) {" => "let n_nb = neighbors.len(); let mut t_next: usize = 0; while t_next < n_nb /*INV*/ { let t = t_next; t_next += 1; let n = neighbors.at(t); if processed.contains(&n.index) { continue; }   /* for n in neighbors.iter().filter(|x| !processed.contains(&x.index)) */"
//@ drop GS from "let dist = self" through ".distance(observations.row(n.index), observations.row(sample.index));" as "            let dist = self.dist_fn().distance(observations.row(n.index), observations.row(sample.index));"
//@ rewrite? GS "F::max(" => "fmax("
//@ rewrite? GS "F::min(" => "fmin("
//@ rewrite GS "match points[n.index].reachability_distance {" => "match points.reach(n.index) {   /* match points[n.index].reachability_distance */"
//@ rewrite GS "points[n.index].reachability_distance = Some(r_dist)" => "points.set_reach(n.index, Some(r_dist))"
//@ rewrite GS "/*INV*/" => "invariant n_nb == neighbors.v@.len(), neighbors.wf(points.r@.len() as int), sample.core_distance is Some, points.r@.len() == r0.len(), (forall|p: int| 0 <= p < r0.len() ==> #[trigger] points.r@[p] == upd(r0[p], p, neighbors.v@, t_next as int, processed.s@, sample.core_distance->Some_0, sample.index as int)), decreases n_nb - t_next,"
//@ expect-fail vacuity_guard_get_seeds
use vstd::prelude::*;
use vstd::iset::ISet;
verus! {
// floats as mathematical numbers (DESIGN.md 4.3): distances are compared and max'ed only
pub type F = i128;
pub uninterp spec fn dist(i: int, j: int) -> i128;
pub fn fmax(a: F, b: F) -> (r: F) ensures r == (if a >= b { a } else { b }) { if a >= b { a } else { b } }
pub fn fmin(a: F, b: F) -> (r: F) ensures r == (if a <= b { a } else { b }) { if a <= b { a } else { b } }
pub struct RowTok { pub i: Ghost<int> }
#[derive(Clone, Copy)]
pub struct ObsTok {}
impl ObsTok { #[verifier::external_body] pub fn row(&self, i: usize) -> (r: RowTok) ensures r.i@ == i { unimplemented!() } }
pub struct DistTok {}
impl DistTok { #[verifier::external_body] pub fn distance(&self, a: RowTok, b: RowTok) -> (r: F) ensures r == dist(a.i@, b.i@) { unimplemented!() } }
pub struct SampleTok { pub index: usize, pub reachability_distance: Option<F>, pub core_distance: Option<F> }
// the neighbour list of `sample`: each listed sample once (ASSUMED of the neighbour index), all valid indices
pub struct NbrTok { pub v: Ghost<Seq<usize>> }
impl NbrTok {
    pub open spec fn wf(&self, n: int) -> bool { (forall|a: int| 0 <= a < self.v@.len() ==> (#[trigger] self.v@[a]) < n) && (forall|a: int, b: int| 0 <= a < b < self.v@.len() ==> self.v@[a] != self.v@[b]) }
    #[verifier::external_body] pub fn len(&self) -> (r: usize) ensures r == self.v@.len() { unimplemented!() }
    #[verifier::external_body] pub fn at(&self, t: usize) -> (r: &SampleTok) requires t < self.v@.len(), ensures r.index == self.v@[t as int] { unimplemented!() }
}
pub struct ProcTok { pub s: Ghost<ISet<usize>> }
impl ProcTok { #[verifier::external_body] pub fn contains(&self, i: &usize) -> (r: bool) ensures r == self.s@.contains(*i) { unimplemented!() } }
// points[..].reachability_distance, one entry per sample
pub struct PointsTok { pub r: Ghost<Seq<Option<F>>> }
impl PointsTok {
    #[verifier::external_body] pub fn reach(&self, i: usize) -> (r: Option<F>) requires i < self.r@.len(), ensures r == self.r@[i as int] { unimplemented!() }
    #[verifier::external_body] pub fn set_reach(&mut self, i: usize, v: Option<F>) requires i < old(self).r@.len(), ensures final(self).r@ == old(self).r@.update(i as int, v) { unimplemented!() }
}
pub struct SeedsTok { pub v: Ghost<Seq<usize>> }
impl SeedsTok { #[verifier::external_body] pub fn push(&mut self, i: usize) ensures final(self).v@ == old(self).v@.push(i) { unimplemented!() } }
// ---- C08: "a reachability distance that is either undefined or equals max(core distance of o, distance to o) for some core point o": what one
// call get_seeds(o) does to the reachability of sample p - nothing unless p is an unlisted neighbour among the first t listed; then the smaller of
// what it had and max(core(o), d(p, o)) ----
pub open spec fn upd(old_r: Option<F>, p: int, nb: Seq<usize>, t: int, processed: ISet<usize>, core_o: F, o: int) -> Option<F> {
    if (exists|a: int| 0 <= a < t && a < nb.len() && #[trigger] nb[a] == p as usize) && !processed.contains(p as usize) && 0 <= p <= usize::MAX {
        let cand = if core_o >= dist(p, o) { core_o } else { dist(p, o) };
        match old_r { None => Some(cand), Some(s) => if cand < s { Some(cand) } else { Some(s) } }
    } else { old_r }
}
pub struct OpticsV { pub d: DistTok }
impl OpticsV {
    #[verifier::external_body] pub fn dist_fn(&self) -> (r: &DistTok) { unimplemented!() }
    // ---- get_seeds, body extracted from /repo on every run ----
    pub fn get_seeds(&self, observations: ObsTok, sample: SampleTok, neighbors: &NbrTok, points: &mut PointsTok, processed: &ProcTok, seeds: &mut SeedsTok)
        requires sample.core_distance is Some, neighbors.wf(old(points).r@.len() as int),
        ensures final(points).r@.len() == old(points).r@.len(),
            forall|p: int| 0 <= p < old(points).r@.len() ==> #[trigger] final(points).r@[p] == upd(old(points).r@[p], p, neighbors.v@, neighbors.v@.len() as int, processed.s@, sample.core_distance->Some_0, sample.index as int),
    {
        let ghost r0 = points.r@;
/*@GS*/
    }
    pub fn vacuity_guard_get_seeds(&self, sample: SampleTok, neighbors: &NbrTok, points: &mut PointsTok)
        requires sample.core_distance is Some, neighbors.wf(old(points).r@.len() as int),
        ensures false,
    {
    }
}
} // verus!
fn main() {}
