//! property: C08
//! unit: V-C08-find-neighbors
//! tier: quick
//! fns: linfa_clustering::dbscan::DbscanValidParams::find_neighbors (count of the points within the tolerance, list of the unlabelled ones)
//@ extract FN from algorithms/linfa-clustering/src/dbscan/algorithm.rs anchor "fn find_neighbors(" body
//@ rewrite FN "Vec::with_capacity(self.min_points)" => "Vec::<usize>::with_capacity(self.min_points)"
//@ rewrite FN "let mut count = 0;" => "let mut count: usize = 0; let ghost mut src: Seq<int> = Seq::empty();   /* ghost: which answer of the index each list element came from */"
//@ rewrite FN "let candidate = observations.row(idx);" => "/* let candidate = observations.row(idx); */"
//@ rewrite FN "for (_, i) in nn.within_range(candidate.view(), eps).unwrap().into_iter() {" => "let wr = nn.within_range_tok(idx, eps); let mut t_next: usize = 0; while t_next < wr.len() /*INVN*/ { let t = t_next; t_next += 1; let i = wr[t];   /* for (_, i) in nn.within_range(candidate.view(), eps).unwrap().into_iter() */"
//@ rewrite FN "/*INVN*/" => "invariant wr@.len() == deg(idx as int), clusters@.len() == nn.n@, idx < nn.n@, wr_ok(wr@, idx as int, nn.n@), count == t_next, t_next <= wr@.len(), (forall|a: int| 0 <= a < res@.len() ==> (#[trigger] res@[a]) < nn.n@ && nbr(idx as int, res@[a] as int) && clusters@[res@[a] as int] is None), src.len() == res@.len(), (forall|a: int| 0 <= a < res@.len() ==> 0 <= (#[trigger] src[a]) < t_next && wr@[src[a]] == res@[a]), (forall|a: int, b: int| 0 <= a < b < res@.len() ==> res@[a] != res@[b]), (forall|s: int| 0 <= s < t_next && clusters@[(#[trigger] wr@[s]) as int] is None && wr@[s] != idx ==> res@.contains(wr@[s])), decreases wr@.len() - t_next,"
//@ insert FN after "res.push(i);" : proof { assert(res@[res@.len() - 1] == i); assert forall|s: int| 0 <= s < t + 1 && clusters@[(#[trigger] wr@[s]) as int] is None && wr@[s] != idx implies res@.contains(wr@[s]) by { if s < t { let k = choose|k: int| 0 <= k < old_res.len() && old_res[k] == wr@[s]; assert(res@[k] == wr@[s]); } else { assert(res@[res@.len() - 1] == wr@[s]); } } }
//@ insert FN before "res.push(i);" : let ghost old_res = res@; proof { assert forall|a: int| 0 <= a < res@.len() implies res@[a] != i by { let s = src[a]; assert(wr@[s] != wr@[t as int]); } src = src.push(t as int); }
//@ expect-fail vacuity_guard_fn
use vstd::prelude::*;
verus! {
// ---- the geometry, abstractly: which points lie within the tolerance of which, as the neighbour index decides it (C07) ----
pub uninterp spec fn nbr(i: int, j: int) -> bool;
pub uninterp spec fn deg(i: int) -> int;                       // how many points lie within the tolerance of point i, itself included
pub open spec fn core(i: int, mp: usize) -> bool { deg(i) >= mp }
#[derive(Clone, Copy)]
pub struct FT { pub id: Ghost<int> }
pub struct ObsTok { pub n: Ghost<int> }
impl ObsTok { #[verifier::external_body] pub fn nrows(&self) -> (r: usize) ensures r == self.n@ { unimplemented!() } }
pub open spec fn wr_ok(wr: Seq<usize>, idx: int, n: int) -> bool {
    &&& forall|s: int| 0 <= s < wr.len() ==> (#[trigger] wr[s]) < n && nbr(idx, wr[s] as int)
    &&& forall|a: int, b: int| 0 <= a < b < wr.len() ==> wr[a] != wr[b]
    &&& forall|j: int| 0 <= j < n && nbr(idx, j) ==> exists|s: int| 0 <= s < wr.len() && #[trigger] wr[s] == j
}
// NearestNeighbourIndex::within_range(row idx, eps).unwrap().into_iter() - ASSUMED (this is C07's contract): every point within the
// tolerance exactly once, nothing else; the indices are what the `(point, index)` pairs carry
pub struct NnTok { pub n: Ghost<int> }
impl NnTok {
    #[verifier::external_body]
    pub fn within_range_tok(&self, idx: usize, eps: FT) -> (r: Vec<usize>)
        requires idx < self.n@,
        ensures wr_ok(r@, idx as int, self.n@), r@.len() == deg(idx as int),
    { unimplemented!() }
}
pub struct QueueTok { pub q: Ghost<Seq<usize>> }                // VecDeque<usize>
impl QueueTok {
    #[verifier::external_body] pub fn with_capacity(n: usize) -> (r: QueueTok) ensures r.q@.len() == 0 { unimplemented!() }
    #[verifier::external_body] pub fn is_empty(&self) -> (r: bool) ensures r == (self.q@.len() == 0) { unimplemented!() }
    #[verifier::external_body]
    pub fn pop_front(&mut self) -> (r: Option<usize>)
        ensures old(self).q@.len() == 0 ==> r is None && final(self).q@ == old(self).q@,
            old(self).q@.len() > 0 ==> r == Some(old(self).q@[0]) && final(self).q@ == old(self).q@.subrange(1, old(self).q@.len() as int),
    { unimplemented!() }
    #[verifier::external_body] pub fn push_back(&mut self, x: usize) ensures final(self).q@ == old(self).q@.push(x) { unimplemented!() }
    #[verifier::external_body] pub fn extend(&mut self, v: Vec<usize>) ensures final(self).q@ == old(self).q@ + v@ { unimplemented!() }
}
#[verifier::external_body] pub fn vec_none(n: usize) -> (r: Vec<Option<usize>>) ensures r@.len() == n, forall|k: int| 0 <= k < n ==> (#[trigger] r@[k]) is None { unimplemented!() }
#[verifier::external_body] pub fn vec_false(n: usize) -> (r: Vec<bool>) ensures r@.len() == n, forall|k: int| 0 <= k < n ==> !#[trigger] r@[k] { unimplemented!() }

// ---- C08, the clauses decided here ----
// "a border point carries the label of some core point that reaches it": every labelled point is a core point, or was reached from a core point
// (its `parent`, ghost) within the tolerance that carries the same label
pub open spec fn base_ok(m: Seq<Option<usize>>, parent: Seq<int>, n: int, mp: usize) -> bool {
    &&& m.len() == n && parent.len() == n
    &&& forall|p: int| 0 <= p < n && (#[trigger] m[p]) is Some ==> (core(p, mp) || (0 <= parent[p] < n && core(parent[p], mp) && nbr(parent[p], p) && m[parent[p]] == m[p]))
}
// "labels are 0..c-1 without gaps": every label is below the bound, and every number below the bound is the label of its seed
pub open spec fn labels_ok(m: Seq<Option<usize>>, seeds: Seq<int>, n: int, bound: int) -> bool {
    &&& forall|p: int| 0 <= p < n && (#[trigger] m[p]) is Some ==> m[p]->Some_0 < bound
    &&& seeds.len() == bound
    &&& forall|l: int| 0 <= l < bound ==> 0 <= (#[trigger] seeds[l]) < n && m[seeds[l]] == Some(l as usize)
}
// the work queue: points without a label (or, were one enqueued twice, already carrying the current label), each within the tolerance of a core
// point that already carries the current label; a raised `search_found` flag means "in the queue, or labelled"
pub open spec fn queue_ok(q: Seq<usize>, m: Seq<Option<usize>>, sf: Seq<bool>, parent: Seq<int>, n: int, mp: usize, cur: int) -> bool {
    &&& forall|a: int| 0 <= a < q.len() ==> (#[trigger] q[a]) < n && (m[q[a] as int] is None || m[q[a] as int] == Some(cur as usize))
            && 0 <= parent[q[a] as int] < n && core(parent[q[a] as int], mp) && nbr(parent[q[a] as int], q[a] as int) && m[parent[q[a] as int]] == Some(cur as usize)
    &&& forall|k: int| 0 <= k < n && #[trigger] sf[k] ==> q.contains(k as usize) || m[k] is Some
}
// "a point is labelled exactly when it is a core point or lies within the tolerance of a core point": closure of the finished clusters ...
pub open spec fn closed_ok(m: Seq<Option<usize>>, n: int, mp: usize, lim: int) -> bool {
    forall|q: int, p: int| #![trigger nbr(q, p)] 0 <= q < n && 0 <= p < n && m[q] is Some && m[q]->Some_0 < lim && core(q, mp) && nbr(q, p) ==> m[p] is Some
}
// ... and of the cluster under construction: what an expanded core point reaches is labelled or waits in the queue (for the candidate `c` that
// is being expanded right now: or is among its neighbours not looked at yet)
pub open spec fn cur_closed(m: Seq<Option<usize>>, qs: Seq<usize>, n: int, mp: usize, cur: int, c: int, nbrs: Seq<usize>, t: int) -> bool {
    forall|q: int, p: int| #![trigger nbr(q, p)] 0 <= q < n && 0 <= p < n && m[q] == Some(cur as usize) && core(q, mp) && nbr(q, p)
        ==> m[p] is Some || qs.contains(p as usize) || (q == c && exists|a: int| t <= a < nbrs.len() && #[trigger] nbrs[a] == p as usize)
}
// "two core points within the tolerance of each other carry the same label"
pub open spec fn same_ok(m: Seq<Option<usize>>, n: int, mp: usize) -> bool {
    forall|q: int, p: int| #![trigger nbr(q, p)] 0 <= q < n && 0 <= p < n && m[q] is Some && m[p] is Some && core(q, mp) && core(p, mp) && nbr(q, p) ==> m[q] == m[p]
}
// the tolerance test is symmetric (ASSUMED: the distance is a metric, the same index answers both queries)
pub open spec fn sym() -> bool { forall|i: int, j: int| #![trigger nbr(i, j)] nbr(i, j) == nbr(j, i) }
pub struct DbscanV { pub min_points: usize, pub tolerance: FT }
impl DbscanV {
    // ---- find_neighbors, body extracted from /repo on every run: the count is the number of points within the tolerance (the point itself
    // included), the list holds only points within the tolerance that carry no label yet, each once, and every such point other than the query itself ----
    pub fn find_neighbors(&self, nn: &NnTok, idx: usize, observations: &ObsTok, eps: FT, clusters: &Vec<Option<usize>>) -> (r: (usize, Vec<usize>))
        requires idx < nn.n@, clusters@.len() == nn.n@,
        ensures r.0 == deg(idx as int),
            forall|a: int| 0 <= a < r.1@.len() ==> (#[trigger] r.1@[a]) < nn.n@ && nbr(idx as int, r.1@[a] as int) && clusters@[r.1@[a] as int] is None,
            forall|a: int, b: int| 0 <= a < b < r.1@.len() ==> r.1@[a] != r.1@[b],
            forall|j: int| 0 <= j < nn.n@ && nbr(idx as int, j) && (#[trigger] clusters@[j]) is None && j != idx ==> r.1@.contains(j as usize),
    {
/*@FN*/
    }
    pub fn vacuity_guard_fn(&self, nn: &NnTok, idx: usize, clusters: &Vec<Option<usize>>) -> (r: usize)
        requires idx < nn.n@, clusters@.len() == nn.n@,
        ensures false,
    {
        idx
    }
}
} // verus!
fn main() {}
