//! property: C07
//! attach: algorithms/linfa-nn/src/heap_elem.rs
//! module: vk_c07_heap
// @include common/prelude.rs
use super::*;
use std::cmp::Ordering;

// The k-nearest searches (linear scan, ball tree) keep candidates in std BinaryHeap, a MAX-heap.
// "ascending distance" / "the k nearest" (property statement) therefore need:
//   MinHeapElem: the element with the SMALLER distance is the GREATER heap element (popped first),
//   MaxHeapElem: the element with the LARGER distance is the GREATER heap element (evicted first),
// and PartialOrd / PartialEq / Ord must agree with one another (BinaryHeap's contract), the payload
// must not take part in the comparison (ties may be broken arbitrarily) and must be stored unchanged.

// @unit class=complete tier=quick mem=light fns=linfa_nn::heap_elem::MinHeapElem::new,linfa_nn::heap_elem::HeapElem::cmp,linfa_nn::heap_elem::HeapElem::partial_cmp,linfa_nn::heap_elem::HeapElem::eq
#[kani::proof]
#[kani::stub(alloc::fmt::format, fmt_stub)]
fn c07_heap_min_order() {
    let (d1, d2): (f32, f32) = (kani::any(), kani::any());
    let (e1, e2): (usize, usize) = (kani::any(), kani::any());
    kani::assume(d1.is_finite() && d2.is_finite());
    let a = MinHeapElem::new(d1, e1);
    let b = MinHeapElem::new(d2, e2);
    let c = a.cmp(&b);
    assert!((c == Ordering::Greater) == (d1 < d2));
    assert!((c == Ordering::Less) == (d1 > d2));
    assert!((c == Ordering::Equal) == (d1 == d2));
    assert!(a.partial_cmp(&b) == Some(c));
    assert!((a == b) == (d1 == d2));
    assert!(b.cmp(&a) == c.reverse());
    assert!(a.elem == e1 && b.elem == e2);
    assert!(a.dist.0.raw() == d1);
    kani::cover!(d1 < d2);
    kani::cover!(d1 > d2);
    kani::cover!(d1 == d2 && e1 != e2);
    kani::cover!(d1 == 0.0 && d2 == 0.0 && d1.is_sign_negative() != d2.is_sign_negative());
}

// @unit class=complete tier=quick mem=light fns=linfa_nn::heap_elem::MaxHeapElem::new,linfa_nn::heap_elem::HeapElem::cmp,linfa_nn::heap_elem::HeapElem::partial_cmp,linfa_nn::heap_elem::HeapElem::eq
#[kani::proof]
#[kani::stub(alloc::fmt::format, fmt_stub)]
fn c07_heap_max_order() {
    let (d1, d2): (f32, f32) = (kani::any(), kani::any());
    let (e1, e2): (usize, usize) = (kani::any(), kani::any());
    kani::assume(d1.is_finite() && d2.is_finite());
    let a = MaxHeapElem::new(d1, e1);
    let b = MaxHeapElem::new(d2, e2);
    let c = a.cmp(&b);
    assert!((c == Ordering::Greater) == (d1 > d2));
    assert!((c == Ordering::Less) == (d1 < d2));
    assert!((c == Ordering::Equal) == (d1 == d2));
    assert!(a.partial_cmp(&b) == Some(c));
    assert!((a == b) == (d1 == d2));
    assert!(b.cmp(&a) == c.reverse());
    assert!(a.elem == e1 && b.elem == e2);
    assert!(a.dist.raw() == d1);
    kani::cover!(d1 < d2);
    kani::cover!(d1 > d2);
    kani::cover!(d1 == d2 && e1 != e2);
}

// Transitivity of the order actually used by the heaps (three elements), both flavours.
// @unit class=complete tier=quick mem=light fns=linfa_nn::heap_elem::HeapElem::cmp
#[kani::proof]
#[kani::stub(alloc::fmt::format, fmt_stub)]
fn c07_heap_transitive() {
    let d: [f32; 3] = kani::any();
    kani::assume(d[0].is_finite() && d[1].is_finite() && d[2].is_finite());
    let mn = [MinHeapElem::new(d[0], ()), MinHeapElem::new(d[1], ()), MinHeapElem::new(d[2], ())];
    let mx = [MaxHeapElem::new(d[0], ()), MaxHeapElem::new(d[1], ()), MaxHeapElem::new(d[2], ())];
    if mn[0] <= mn[1] && mn[1] <= mn[2] { assert!(mn[0] <= mn[2]); assert!(d[0] >= d[2]); }
    if mx[0] <= mx[1] && mx[1] <= mx[2] { assert!(mx[0] <= mx[2]); assert!(d[0] <= d[2]); }
    // the maximum of the min-heap order is the smallest distance and vice versa
    let top_min = core::cmp::max(core::cmp::max(mn[0].clone(), mn[1].clone()), mn[2].clone());
    let top_max = core::cmp::max(core::cmp::max(mx[0].clone(), mx[1].clone()), mx[2].clone());
    assert!(top_min.dist.0.raw() <= d[0] && top_min.dist.0.raw() <= d[1] && top_min.dist.0.raw() <= d[2]);
    assert!(top_max.dist.raw() >= d[0] && top_max.dist.raw() >= d[1] && top_max.dist.raw() >= d[2]);
    kani::cover!(d[0] < d[1] && d[1] < d[2]);
    kani::cover!(d[0] > d[1] && d[1] > d[2]);
}
