//! property: C07
//! attach: algorithms/linfa-nn/src/lib.rs
//! module: vk_c07_errors
// @include common/prelude.rs
use super::*;
use crate::distance::{L1Dist, L2Dist};
use ndarray::{Array1, Array2};

// "malformed builds or queries (zero dimension, zero leaf size, wrong query dimension) are reported as errors rather
// than answered" — for every index kind, through the public NearestNeighbour / NearestNeighbourIndex interface.
// When a build is malformed in both ways either of the two errors is accepted (the statement does not rank them).
fn kind(c: u8) -> CommonNearestNeighbour {
    match c { 0 => CommonNearestNeighbour::LinearSearch, 1 => CommonNearestNeighbour::KdTree, _ => CommonNearestNeighbour::BallTree }
}

// A wrongly successful build must be reported as a violation, not time out: the returned Box<dyn NearestNeighbourIndex> is
// never dropped (its drop glue dispatches to every index kind, incl. the recursive k-d tree drop: unbounded unwinding).
fn classify<'a>(r: Result<NearestNeighbourBox<'a, f32>, BuildError>) -> u8 {
    match r { Ok(b) => { core::mem::forget(b); 0 } Err(BuildError::ZeroDimension) => 1, Err(BuildError::EmptyLeaf) => 2 }
}

// zero-column batch, any number of rows n <= 3, any leaf size: never Ok
// @unit class=complete tier=quick mem=light timeout=300 fns=linfa_nn::LinearSearch::from_batch_with_leaf_size,linfa_nn::KdTree::from_batch_with_leaf_size,linfa_nn::BallTree::from_batch_with_leaf_size,linfa_nn::CommonNearestNeighbour::from_batch_with_leaf_size,linfa_nn::LinearSearchIndex::new,linfa_nn::KdTreeIndex::new,linfa_nn::BallTreeIndex::new
#[kani::proof]
#[kani::unwind(5)]
#[kani::stub(alloc::fmt::format, fmt_stub)]
fn c07_err_zero_dimension() {
    let n: usize = kani::any();
    kani::assume(n <= 3);
    let leaf: usize = kani::any();
    let c: u8 = kani::any();
    kani::assume(c < 3);
    let batch: Array2<f32> = Array2::zeros((n, 0));
    let r = classify(kind(c).from_batch_with_leaf_size(&batch, leaf, L2Dist));
    assert!(r == 1 || (r == 2 && leaf == 0));
    // the concrete kinds directly (not through the dispatch enum)
    let r2 = classify(match c {
        0 => LinearSearch::new().from_batch_with_leaf_size(&batch, leaf, L2Dist),
        1 => KdTree::new().from_batch_with_leaf_size(&batch, leaf, L2Dist),
        _ => BallTree::new().from_batch_with_leaf_size(&batch, leaf, L2Dist),
    });
    assert!(r2 == 1 || (r2 == 2 && leaf == 0));
    // default leaf size: from_batch
    assert!(classify(kind(c).from_batch(&batch, L1Dist)) == 1);
    kani::cover!(c == 0 && leaf > 0 && n == 0);
    kani::cover!(c == 1 && leaf > 0 && n == 3);
    kani::cover!(c == 2 && leaf > 0 && n == 1);
    kani::cover!(leaf == 0);
}

// leaf size 0 on an otherwise well-formed batch (1 x 1, any value): EmptyLeaf for every kind
// @unit class=complete tier=quick mem=light timeout=300 fns=linfa_nn::LinearSearch::from_batch_with_leaf_size,linfa_nn::KdTree::from_batch_with_leaf_size,linfa_nn::BallTree::from_batch_with_leaf_size,linfa_nn::KdTreeIndex::new,linfa_nn::BallTreeIndex::new
#[kani::proof]
#[kani::unwind(5)]
#[kani::stub(alloc::fmt::format, fmt_stub)]
fn c07_err_empty_leaf() {
    let v: f32 = kani::any();
    let c: u8 = kani::any();
    kani::assume(c < 3);
    let batch: Array2<f32> = Array2::from_elem((1, 1), v);
    assert!(classify(kind(c).from_batch_with_leaf_size(&batch, 0, L2Dist)) == 2);
    let r2 = classify(match c {
        0 => LinearSearch.from_batch_with_leaf_size(&batch, 0, L1Dist),
        1 => KdTree.from_batch_with_leaf_size(&batch, 0, L1Dist),
        _ => BallTree.from_batch_with_leaf_size(&batch, 0, L1Dist),
    });
    assert!(r2 == 2);
    kani::cover!(c == 0);
    kani::cover!(c == 1);
    kani::cover!(c == 2 && v.is_nan());
}

// Wrong query dimension.  The index structs are built through their public constructors and queried directly (behind
// the Box<dyn NearestNeighbourIndex> returned by from_batch the model checker cannot see that the shape test is decided
// and explores the answer branch: no result in 10 min); from_batch_with_leaf_size is `new` + Box::new.
// The guard path is loop-free; #[kani::unwind] only stops the symbolic execution of the (infeasible, but not
// syntactically dead) answer branch — its unwinding assertions are proved unreachable.
// Query lengths are concrete (a symbolic length makes the allocation of the query itself intractable): for a batch
// with c columns the lengths c-1 and c+1, and the empty query; k and the radius are arbitrary.
// @unit class=complete tier=quick mem=light timeout=300 fns=linfa_nn::LinearSearchIndex::new,linfa_nn::LinearSearchIndex::k_nearest,linfa_nn::LinearSearchIndex::within_range
#[kani::proof]
#[kani::unwind(4)]
#[kani::stub(alloc::fmt::format, fmt_stub)]
fn c07_err_wrong_dim_linear() {
    let v: [f32; 2] = kani::any();
    let batch: Array2<f32> = Array2::from_shape_vec((1, 2), vec![v[0], v[1]]).unwrap();
    let idx = match LinearSearchIndex::new(&batch, L2Dist) { Ok(i) => i, Err(_) => { assert!(false); return; } };
    let k: usize = kani::any();
    let r: f32 = kani::any();
    let q0: Array1<f32> = Array1::zeros(0);
    let q1: Array1<f32> = Array1::from_elem(1, v[0]);
    let q3: Array1<f32> = Array1::from_elem(3, v[1]);
    assert!(matches!(idx.k_nearest(q0.view(), k), Err(NnError::WrongDimension)));
    assert!(matches!(idx.within_range(q0.view(), r), Err(NnError::WrongDimension)));
    assert!(matches!(idx.k_nearest(q1.view(), k), Err(NnError::WrongDimension)));
    assert!(matches!(idx.within_range(q1.view(), r), Err(NnError::WrongDimension)));
    assert!(matches!(idx.k_nearest(q3.view(), k), Err(NnError::WrongDimension)));
    assert!(matches!(idx.within_range(q3.view(), r), Err(NnError::WrongDimension)));
    kani::cover!(k == 0);
    kani::cover!(k > 1 && r.is_nan());
}

// a well-formed batch with any leaf size >= 1 builds (linear scan ignores the leaf size otherwise)
// @unit class=complete tier=quick mem=light timeout=300 fns=linfa_nn::LinearSearch::from_batch_with_leaf_size,linfa_nn::LinearSearchIndex::new
#[kani::proof]
#[kani::unwind(4)]
#[kani::stub(alloc::fmt::format, fmt_stub)]
fn c07_build_ok_linear() {
    let v: [f32; 2] = kani::any();
    let leaf: usize = kani::any();
    let batch: Array2<f32> = Array2::from_shape_vec((1, 2), vec![v[0], v[1]]).unwrap();
    let r = classify(LinearSearch.from_batch_with_leaf_size(&batch, leaf, L2Dist));
    assert!((r == 0) == (leaf >= 1));
    assert!(r == 0 || r == 2);
    kani::cover!(leaf == 1);
    kani::cover!(leaf == 0);
}

// kd-tree over an EMPTY batch (0 x 2): the dimension check is the external kdtree crate's, mapped by From<ErrorKind>
// @unit class=complete tier=thorough mem=light timeout=600 fns=linfa_nn::KdTreeIndex::new,linfa_nn::KdTreeIndex::k_nearest,linfa_nn::KdTreeIndex::within_range
#[kani::proof]
#[kani::unwind(5)]
#[kani::stub(alloc::fmt::format, fmt_stub)]
fn c07_err_wrong_dim_kdtree_empty() {
    let batch: Array2<f32> = Array2::zeros((0, 2));
    let idx = match KdTreeIndex::new(&batch, 1, L1Dist) { Ok(i) => i, Err(_) => { assert!(false); return; } };
    let q1: Array1<f32> = Array1::zeros(1);
    let q3: Array1<f32> = Array1::zeros(3);
    assert!(matches!(idx.k_nearest(q1.view(), 1), Err(NnError::WrongDimension)));
    assert!(matches!(idx.within_range(q1.view(), 1.0), Err(NnError::WrongDimension)));
    assert!(matches!(idx.k_nearest(q3.view(), 1), Err(NnError::WrongDimension)));
    assert!(matches!(idx.within_range(q3.view(), 1.0), Err(NnError::WrongDimension)));
    kani::cover!(true);
}

// kd-tree holding ONE point (1 x 2, concrete coordinates): the external crate's add + check_point (measured 11 s)
// @unit class=bounded tier=quick mem=light timeout=300 bound="n=1,dim=2,concrete point" fns=linfa_nn::KdTreeIndex::new,linfa_nn::KdTreeIndex::k_nearest,linfa_nn::KdTreeIndex::within_range
#[kani::proof]
#[kani::unwind(5)]
#[kani::stub(alloc::fmt::format, fmt_stub)]
fn c07_err_wrong_dim_kdtree_n1() {
    let batch: Array2<f32> = Array2::from_shape_vec((1, 2), vec![1.0, 2.0]).unwrap();
    let idx = match KdTreeIndex::new(&batch, 1, L1Dist) { Ok(i) => i, Err(_) => { assert!(false); return; } };
    let q1: Array1<f32> = Array1::zeros(1);
    let q3: Array1<f32> = Array1::zeros(3);
    assert!(matches!(idx.k_nearest(q1.view(), 1), Err(NnError::WrongDimension)));
    assert!(matches!(idx.within_range(q1.view(), 1.0), Err(NnError::WrongDimension)));
    assert!(matches!(idx.k_nearest(q3.view(), 1), Err(NnError::WrongDimension)));
    assert!(matches!(idx.within_range(q3.view(), 1.0), Err(NnError::WrongDimension)));
    kani::cover!(true);
}
