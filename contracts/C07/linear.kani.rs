//! property: C07
//! attach: algorithms/linfa-nn/src/linear.rs
//! module: vk_c07_linear
// @include common/prelude.rs
// @include common/ghost_f32.rs
use super::*;
use crate::distance::{L1Dist, L2Dist};
use ndarray::{arr1, Array2};

// Linear scan, 1-dimensional points p_0..p_{n-1}, query q, radius r >= 0, all finite f32.
// Range query: "every point strictly inside the radius and no point strictly outside it ... each returned with its
// coordinates and its row position in the original batch".
//   L1 (= |p-q| in one dimension, no rounding between the two sides):  i is returned  <=>  |p_i - q| < r
//   L2 (compared on the squared scale, powi(x,2) = x*x):                i is returned  <=>  (p_i-q)^2 < r^2
// and the answer lists exactly those rows, in row order, each with its own coordinate and original index.
// n=1: every finite f32.  n=2: integer-valued floats (two rows of full-domain floats: L1 712 s, L2 no answer in 15 min; integer-valued: ~350 s each).
fn batch1(p: f32) -> Array2<f32> { Array2::from_shape_vec((1, 1), vec![p]).unwrap() }
fn batch2(p: [f32; 2]) -> Array2<f32> { Array2::from_shape_vec((2, 1), vec![p[0], p[1]]).unwrap() }

// @unit class=bounded tier=quick mem=light timeout=400 bound="n=1,dim=1" fns=linfa_nn::LinearSearchIndex::new,linfa_nn::LinearSearchIndex::within_range
#[kani::proof]
#[kani::unwind(4)]
#[kani::stub(alloc::fmt::format, fmt_stub)]
fn c07_linear_range_l1_n1() {
    let (p, q, r): (f32, f32, f32) = (kani::any(), kani::any(), kani::any());
    kani::assume(p.is_finite() && q.is_finite() && r.is_finite() && r >= 0.0);
    let b = batch1(p);
    let idx = match LinearSearchIndex::new(&b, L1Dist) { Ok(i) => i, Err(_) => { assert!(false); return; } };
    let qa = arr1(&[q]);
    let res = match idx.within_range(qa.view(), r) { Ok(v) => v, Err(_) => { assert!(false); return; } };
    let inside = (p - q).abs() < r;
    assert!(res.len() == inside as usize);
    if inside { assert!(res[0].1 == 0 && res[0].0.len() == 1 && res[0].0[0].to_bits() == p.to_bits()); }
    kani::cover!(inside);
    kani::cover!(!inside && r > 0.0);
    kani::cover!((p - q).abs() == r && r > 0.0);
    kani::cover!(r == 0.0 && p == q);
}

// @unit class=bounded tier=thorough mem=light timeout=1200 bound="n=2,dim=1,integer values p,q in -8..8,r in 0..16" fns=linfa_nn::LinearSearchIndex::new,linfa_nn::LinearSearchIndex::within_range
#[kani::proof]
#[kani::unwind(5)]
#[kani::stub(alloc::fmt::format, fmt_stub)]
fn c07_linear_range_l1_n2() {
    let v: [i8; 4] = kani::any();
    kani::assume(v[0] >= -8 && v[0] <= 8 && v[1] >= -8 && v[1] <= 8 && v[2] >= -8 && v[2] <= 8 && v[3] >= 0 && v[3] <= 16);
    let (p, q, r) = ([v[0] as f32, v[1] as f32], v[2] as f32, v[3] as f32);
    let b = batch2(p);
    let idx = match LinearSearchIndex::new(&b, L1Dist) { Ok(i) => i, Err(_) => { assert!(false); return; } };
    let qa = arr1(&[q]);
    let res = match idx.within_range(qa.view(), r) { Ok(v) => v, Err(_) => { assert!(false); return; } };
    let in0 = (p[0] - q).abs() < r;
    let in1 = (p[1] - q).abs() < r;
    assert!(res.len() == in0 as usize + in1 as usize);
    let mut j = 0;
    if in0 { assert!(res[j].1 == 0 && res[j].0.len() == 1 && res[j].0[0].to_bits() == p[0].to_bits()); j += 1; }
    if in1 { assert!(res[j].1 == 1 && res[j].0.len() == 1 && res[j].0[0].to_bits() == p[1].to_bits()); }
    kani::cover!(in0 && in1);
    kani::cover!(in0 && !in1);
    kani::cover!(!in0 && in1);
    kani::cover!(!in0 && !in1 && r > 0.0);
    kani::cover!(!in0 && in1 && (p[0] - q).abs() == r);
    kani::cover!(in0 && !in1 && (p[1] - q).abs() == r);
}

// @unit class=bounded tier=thorough mem=light timeout=900 bound="n=1,dim=1" fns=linfa_nn::LinearSearchIndex::new,linfa_nn::LinearSearchIndex::within_range
#[kani::proof]
#[kani::unwind(4)]
#[kani::stub(alloc::fmt::format, fmt_stub)]
#[kani::stub(f32::powi, ghost_powi32)]
fn c07_linear_range_l2_n1() {
    let (p, q, r): (f32, f32, f32) = (kani::any(), kani::any(), kani::any());
    kani::assume(p.is_finite() && q.is_finite() && r.is_finite() && r >= 0.0);
    let b = batch1(p);
    let idx = match LinearSearchIndex::new(&b, L2Dist) { Ok(i) => i, Err(_) => { assert!(false); return; } };
    let qa = arr1(&[q]);
    let res = match idx.within_range(qa.view(), r) { Ok(v) => v, Err(_) => { assert!(false); return; } };
    let inside = (q - p) * (q - p) < r * r;
    assert!(res.len() == inside as usize);
    if inside { assert!(res[0].1 == 0 && res[0].0.len() == 1 && res[0].0[0].to_bits() == p.to_bits()); }
    kani::cover!(inside);
    kani::cover!(!inside && r > 0.0);
    kani::cover!((q - p) * (q - p) == r * r && r > 0.0 && r.is_finite() && (r * r).is_finite());
    kani::cover!(r == 0.0 && p == q);
}

// @unit class=bounded tier=thorough mem=light timeout=1200 bound="n=2,dim=1,integer values p,q in -8..8,r in 0..16" fns=linfa_nn::LinearSearchIndex::new,linfa_nn::LinearSearchIndex::within_range
#[kani::proof]
#[kani::unwind(5)]
#[kani::stub(alloc::fmt::format, fmt_stub)]
#[kani::stub(f32::powi, ghost_powi32)]
fn c07_linear_range_l2_n2() {
    let v: [i8; 4] = kani::any();
    kani::assume(v[0] >= -8 && v[0] <= 8 && v[1] >= -8 && v[1] <= 8 && v[2] >= -8 && v[2] <= 8 && v[3] >= 0 && v[3] <= 16);
    let (p, q, r) = ([v[0] as f32, v[1] as f32], v[2] as f32, v[3] as f32);
    let b = batch2(p);
    let idx = match LinearSearchIndex::new(&b, L2Dist) { Ok(i) => i, Err(_) => { assert!(false); return; } };
    let qa = arr1(&[q]);
    let res = match idx.within_range(qa.view(), r) { Ok(v) => v, Err(_) => { assert!(false); return; } };
    let in0 = (q - p[0]) * (q - p[0]) < r * r;
    let in1 = (q - p[1]) * (q - p[1]) < r * r;
    assert!(res.len() == in0 as usize + in1 as usize);
    let mut j = 0;
    if in0 { assert!(res[j].1 == 0 && res[j].0.len() == 1 && res[j].0[0].to_bits() == p[0].to_bits()); j += 1; }
    if in1 { assert!(res[j].1 == 1 && res[j].0.len() == 1 && res[j].0[0].to_bits() == p[1].to_bits()); }
    kani::cover!(in0 && in1);
    kani::cover!(in0 && !in1);
    kani::cover!(!in0 && in1);
    kani::cover!(!in0 && !in1 && r > 0.0);
    kani::cover!(!in0 && in1 && (q - p[0]) * (q - p[0]) == r * r);
}

// k-nearest on two stored points: min(k,2) answers, ascending distance, the distances are those of the true nearest
// points, each answer carries its own coordinate and original row; ties in any order.  |values| < 2^20 so that no
// distance overflows (the heap elements refuse non-finite distances).
// @unit class=bounded tier=thorough mem=heavy timeout=1200 bound="n=2,dim=1,k<=3,|values|<2^20" fns=linfa_nn::LinearSearchIndex::new,linfa_nn::LinearSearchIndex::k_nearest
#[kani::proof]
#[kani::unwind(6)]
#[kani::stub(alloc::fmt::format, fmt_stub)]
fn c07_linear_knn_l1_n2() {
    let p: [f32; 2] = kani::any();
    let q: f32 = kani::any();
    let k: usize = kani::any();
    kani::assume(p[0].abs() < 1048576.0 && p[1].abs() < 1048576.0 && q.abs() < 1048576.0 && k <= 3);
    let b = batch2(p);
    let idx = match LinearSearchIndex::new(&b, L1Dist) { Ok(i) => i, Err(_) => { assert!(false); return; } };
    let qa = arr1(&[q]);
    let res = match idx.k_nearest(qa.view(), k) { Ok(v) => v, Err(_) => { assert!(false); return; } };
    let d = [(p[0] - q).abs(), (p[1] - q).abs()];
    let (lo, hi) = if d[0] <= d[1] { (d[0], d[1]) } else { (d[1], d[0]) };
    assert!(res.len() == if k < 2 { k } else { 2 });
    if res.len() >= 1 {
        let i0 = res[0].1;
        assert!(i0 < 2 && res[0].0.len() == 1 && res[0].0[0].to_bits() == p[i0].to_bits());
        assert!(d[i0] == lo);
    }
    if res.len() == 2 {
        let (i0, i1) = (res[0].1, res[1].1);
        assert!(i1 < 2 && i1 != i0 && res[1].0.len() == 1 && res[1].0[0].to_bits() == p[i1].to_bits());
        assert!(d[i1] == hi);
    }
    kani::cover!(k == 0);
    kani::cover!(k == 1 && d[1] < d[0]);
    kani::cover!(k == 2 && d[1] < d[0]);
    kani::cover!(k == 3 && d[0] < d[1]);
    kani::cover!(k == 2 && d[0] == d[1] && p[0] != p[1]);
}
