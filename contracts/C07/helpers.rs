// ---- C07/helpers.rs : recording ghost for powf (uninterpreted, functional within one harness run) ----
// powf(x, y) is left completely uninterpreted except: same (x, y) => same result, NaN only from NaN
// arguments or a negative base (only the sign-positive-base half is used as an axiom).  The table records every call so that a postcondition can check the
// ARGUMENTS the code under contract passed (the textbook formula's sub-terms) and re-evaluate.
#[allow(dead_code)]
const PF_CAP: usize = 4;
#[allow(dead_code)] static mut PF_X: [f32; PF_CAP] = [0.0; PF_CAP];
#[allow(dead_code)] static mut PF_Y: [f32; PF_CAP] = [0.0; PF_CAP];
#[allow(dead_code)] static mut PF_R: [f32; PF_CAP] = [0.0; PF_CAP];
#[allow(dead_code)] static mut PF_N: usize = 0;
#[allow(dead_code)]
fn ghost_powf32(x: f32, y: f32) -> f32 {
    let r: f32 = kani::any();
    // pow of a sign-positive base is never NaN and never negative (C99 F.9.4.4); nothing else is assumed
    if !x.is_nan() && !y.is_nan() && x.is_sign_positive() { kani::assume(!r.is_nan() && r >= 0.0); }
    unsafe {
        let mut i = 0;
        while i < PF_N {
            if x.to_bits() == PF_X[i].to_bits() && y.to_bits() == PF_Y[i].to_bits() { kani::assume(r.to_bits() == PF_R[i].to_bits()); }
            i += 1;
        }
        if PF_N < PF_CAP { PF_X[PF_N] = x; PF_Y[PF_N] = y; PF_R[PF_N] = r; PF_N += 1; }
    }
    r
}
// ---- recording ghost for powi: squaring is uninterpreted-monotone ----
// fl(x*x) as a function of |x| is: never NaN for non-NaN x, >= 0, 0 at 0, 1 at 1, monotone non-decreasing (IEEE
// multiplication is correctly rounded and rounding is monotone).  Monotonicity of a 24x24-bit multiplier is out
// of reach of the SAT back end (measured: no answer in 15 min with cadical, kissat, minisat), so it is an AXIOM
// here; c07_conv_l2_exact checks it with the real x*x on a bounded domain.  Other exponents: uninterpreted.
#[allow(dead_code)] static mut PW_X: [f32; PF_CAP] = [0.0; PF_CAP];
#[allow(dead_code)] static mut PW_E: [i32; PF_CAP] = [0; PF_CAP];
#[allow(dead_code)] static mut PW_R: [f32; PF_CAP] = [0.0; PF_CAP];
#[allow(dead_code)] static mut PW_N: usize = 0;
#[allow(dead_code)]
fn ghost_powi32_rec(x: f32, n: i32) -> f32 {
    let r: f32 = kani::any();
    if n == 2 {
        if x.is_nan() { kani::assume(r.is_nan()); } else {
            kani::assume(!r.is_nan() && r >= 0.0);
            if x == 0.0 { kani::assume(r == 0.0); }
            if x.abs() == 1.0 { kani::assume(r == 1.0); }
            if x.is_infinite() { kani::assume(r == f32::INFINITY); }
        }
    }
    unsafe {
        let mut i = 0;
        while i < PW_N {
            if n == 2 && PW_E[i] == 2 && !x.is_nan() && !PW_X[i].is_nan() {
                if x.abs() <= PW_X[i].abs() { kani::assume(r <= PW_R[i]); }
                if x.abs() >= PW_X[i].abs() { kani::assume(r >= PW_R[i]); }
            }
            i += 1;
        }
        if PW_N < PF_CAP { PW_X[PW_N] = x; PW_E[PW_N] = n; PW_R[PW_N] = r; PW_N += 1; }
    }
    r
}
