//! property: C07
//! unit: V-C07-linear-knn
//! tier: quick
//! fns: linfa_nn::linear::LinearSearchIndex::k_nearest (what is pushed on the heap and how many answers are popped)
//@ extract KNN from algorithms/linfa-nn/src/linear.rs anchor "let mut heap = BinaryHeap::with_capacity(self.0.nrows());" until "fn within_range("
//@ rewrite KNN "BinaryHeap::with_capacity(self.0.nrows())" => "HeapTok::with_capacity(self.nrows())"
//@ rewrite KNN "for (i, pt) in self.0.rows().into_iter().enumerate() {" => "for i in 0..self.nrows() { let pt = self.row_tok(i);   /* for (i, pt) in self.0.rows().into_iter().enumerate() */"
//@ rewrite KNN "self.1.rdistance(point.reborrow(), pt.reborrow())" => "self.rdistance_abs(point.reborrow(), pt.reborrow())"
//@ rewrite KNN "dist: Reverse(NoisyFloat::new(dist))," => "dist: Reverse(NoisyFloat::new_tok(dist)),"
//@ rewrite KNN "Ok((0..k.min(heap.len()))" => "Ok(pop_n_abs(&heap, k.min(heap.len()))   /* (0..k.min(heap.len()))"
//@ rewrite KNN ".map(|_| heap.pop().unwrap().elem)" => ".map(|_| heap.pop().unwrap().elem)"
//@ rewrite KNN ".collect())" => ".collect() */ )"
//@ insert KNN before-brace "for i in 0..self.nrows() " : invariant point.id@ == q, heap.pushed@.len() == i, forall|t: int| 0 <= t < i ==> #[trigger] heap.pushed@[t] == (t, t, q),
//@ expect-fail vacuity_guard_knn
use vstd::prelude::*;
verus! {
#[derive(Clone, Copy)]
pub struct PointTok { pub id: Ghost<int> }
impl PointTok { pub fn reborrow(&self) -> (r: PointTok) ensures r.id@ == self.id@ { PointTok { id: Ghost(self.id@) } } }
pub struct DistTok { pub from: Ghost<int>, pub to: Ghost<int> }                       // rdistance(query `from`, stored row `to`)
pub struct NoisyFloat;
pub struct NoisyTok { pub from: Ghost<int>, pub to: Ghost<int> }
impl NoisyFloat { pub fn new_tok(d: DistTok) -> (r: NoisyTok) ensures r.from@ == d.from@, r.to@ == d.to@ { NoisyTok { from: Ghost(d.from@), to: Ghost(d.to@) } } }
pub struct Reverse(pub NoisyTok);
pub struct MinHeapElem { pub elem: (PointTok, usize), pub dist: Reverse }
// the heap: what was pushed (row of the point, index stored with it, query the distance was taken to); its ORDER is decided by K-c07_heap_*
pub struct HeapTok { pub pushed: Ghost<Seq<(int, int, int)>> }
impl HeapTok {
    #[verifier::external_body] pub fn with_capacity(n: usize) -> (r: HeapTok) ensures r.pushed@.len() == 0 { unimplemented!() }
    #[verifier::external_body]
    pub fn push(&mut self, e: MinHeapElem)
        requires e.dist.0.to@ == e.elem.0.id@,                            // the distance pushed with a point is the distance OF that point
        ensures final(self).pushed@ == old(self).pushed@.push((e.elem.0.id@, e.elem.1 as int, e.dist.0.from@)),
    { unimplemented!() }
    #[verifier::external_body] pub fn len(&self) -> (r: usize) ensures r == self.pushed@.len() { unimplemented!() }
}
pub struct Answers { pub count: Ghost<int>, pub of: Ghost<Seq<(int, int, int)>> }    // the `count` smallest elements of this heap content
#[verifier::external_body]
pub fn pop_n_abs(h: &HeapTok, n: usize) -> (r: Answers) requires n <= h.pushed@.len(), ensures r.count@ == n, r.of@ == h.pushed@ { unimplemented!() }
#[derive(Debug)]
pub struct ErrTok;
pub struct IndexV { pub n: Ghost<int> }
impl IndexV {
    #[verifier::external_body] pub fn nrows(&self) -> (r: usize) ensures r == self.n@ { unimplemented!() }
    #[verifier::external_body] pub fn row_tok(&self, i: usize) -> (r: PointTok) requires i < self.n@, ensures r.id@ == i { unimplemented!() }
    #[verifier::external_body] pub fn rdistance_abs(&self, a: PointTok, b: PointTok) -> (r: DistTok) ensures r.from@ == a.id@, r.to@ == b.id@ { unimplemented!() }

    // ---- k_nearest after the dimension check (the `else` branch), extracted from /repo on every run ----
    // C07 (linear scan): every stored point is pushed exactly once, with its OWN row index and its OWN reduced distance to the query, and
    // min(k, n) answers are popped from that heap
    pub fn k_nearest_else(&self, point: PointTok, k: usize, Ghost(q): Ghost<int>) -> (r: Result<Answers, ErrTok>)
        requires point.id@ == q, self.n@ <= usize::MAX,
        ensures r is Ok, r->Ok_0.count@ == (if k <= self.n@ { k as int } else { self.n@ }), r->Ok_0.of@.len() == self.n@,
            forall|t: int| 0 <= t < self.n@ ==> #[trigger] r->Ok_0.of@[t] == (t, t, q),
    {
        {   // the `else` block of k_nearest; the extracted text closes it and the function
/*@KNN*/
    pub fn vacuity_guard_knn(&self, point: PointTok, k: usize, Ghost(q): Ghost<int>) -> (r: Result<Answers, ErrTok>)
        requires point.id@ == q, self.n@ <= usize::MAX,
        ensures false,
    {
        Err(ErrTok)
    }
}
} // verus!
fn main() {}
