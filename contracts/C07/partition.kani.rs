//! property: C07
//! attach: algorithms/linfa-nn/src/balltree.rs
//! module: vk_c07_partition
// @include common/prelude.rs
use super::*;
use ndarray::Array2;

// balltree.rs::partition ("max-spread dimension, order-statistic median, non-empty halves"): two 1-dimensional points, any
// finite values incl. duplicates.  Both halves non-empty (termination of the build), together they are the input (each
// original row exactly once, with its own coordinate), nothing in the left half lies beyond the right half on the split
// dimension, the reported median is the coordinate of a point of the right half and bounds the left half from above.
// @unit class=bounded tier=thorough mem=heavy timeout=900 bound="n=2,dim=1" fns=linfa_nn::balltree::partition
#[kani::proof]
#[kani::unwind(5)]
#[kani::stub(alloc::fmt::format, fmt_stub)]
fn c07_partition_n2() {
    let p: [f32; 2] = kani::any();
    kani::assume(p[0].is_finite() && p[1].is_finite() && (p[0] - p[1]).is_finite());
    let b: Array2<f32> = Array2::from_shape_vec((2, 1), vec![p[0], p[1]]).unwrap();
    let pts: Vec<(Point<f32>, usize)> = vec![(b.row(0), 0), (b.row(1), 1)];
    let (left, median, right) = partition(pts);
    assert!(left.len() == 1 && right.len() == 1);
    let (il, ir) = (left[0].1, right[0].1);
    assert!(il < 2 && ir < 2 && il != ir);
    assert!(left[0].0.len() == 1 && left[0].0[0].to_bits() == p[il].to_bits());
    assert!(right[0].0.len() == 1 && right[0].0[0].to_bits() == p[ir].to_bits());
    assert!(p[il] <= p[ir]);
    assert!(median.len() == 1 && median[0] == p[ir]);
    kani::cover!(p[0] < p[1]);
    kani::cover!(p[0] > p[1]);
    kani::cover!(p[0] == p[1]);
}
