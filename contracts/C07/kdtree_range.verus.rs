//! property: C07
//! unit: V-C07-kdtree-range
//! tier: quick
//! fns: linfa_nn::kdtree::KdTreeIndex::within_range (how the answer of the external kdtree crate is turned into linfa's answer)
//@ extract WR from algorithms/linfa-nn/src/kdtree.rs anchor "let range = self.1.dist_to_rdist(range);" until "/// Implementation of K-D tree"
//@ rewrite WR "self.1.dist_to_rdist(range)" => "self.dist_to_rdist_abs(range)"
//@ rewrite WR ".0" => ".tree"
//@ rewrite WR ".within(" => ".within_abs("
//@ rewrite WR "point.to_slice().expect(\"views should be contiguous\")," => "&point,   /* point.to_slice().expect(..) */"
//@ rewrite WR "&|a, b| self.1.rdistance(aview1(a), aview1(b))," => "/* &|a, b| self.1.rdistance(aview1(a), aview1(b)), */"
//@ rewrite? WR ".filter(|(d, _)| *d < range)" => ".filter_lt_abs(range)   /* .filter(|(d, _)| *d < range) */"
//@ rewrite WR ".map(|(_, (pt, pos))| (pt.reborrow(), *pos))" => ".map_pairs_abs()   /* .map(|(_, (pt, pos))| (pt.reborrow(), *pos)) */"
//@ rewrite WR ".collect())" => ".collect_tok())"
//@ expect-fail vacuity_guard_range
use vstd::prelude::*;
verus! {
#[derive(Clone, Copy)]
pub struct RTok { pub id: Ghost<int> }                 // a reduced-distance radius
pub struct PointTok;
#[derive(Debug)]
pub struct ErrTok;
// an answer: the stored points whose reduced distance to the query is below `radius`, and whether the points exactly ON the radius are in it
pub struct Found { pub radius: Ghost<int>, pub boundary_included: Ghost<bool> }
impl Found {
    #[verifier::external_body] pub fn into_iter(self) -> (r: Found) ensures r == self { unimplemented!() }
    #[verifier::external_body] pub fn filter_lt_abs(self, r: RTok) -> (f: Found) requires r.id@ == self.radius@, ensures f.radius@ == self.radius@, !f.boundary_included@ { unimplemented!() }
    #[verifier::external_body] pub fn map_pairs_abs(self) -> (r: Found) ensures r == self { unimplemented!() }
    #[verifier::external_body] pub fn collect_tok(self) -> (r: Found) ensures r == self { unimplemented!() }
}
pub struct KdTok;
impl KdTok {
    // kdtree 0.6 `within`: every element with `distance <= radius` is kept (kdtree.rs: `if element <= max_dist`) - INCLUSIVE
    #[verifier::external_body]
    pub fn within_abs(&self, p: &PointTok, radius: RTok) -> (r: Result<Found, ErrTok>)
        ensures r is Ok ==> r->Ok_0.radius@ == radius.id@ && r->Ok_0.boundary_included@,
    { unimplemented!() }
}
pub struct IndexV { pub tree: KdTok }
impl IndexV {
    #[verifier::external_body] pub fn dist_to_rdist_abs(&self, r: RTok) -> (q: RTok) ensures q.id@ == r.id@ { unimplemented!() }

    // ---- KdTreeIndex::within_range, body extracted from /repo on every run ----
    // C07: "answers a range query with every point strictly inside the radius and no point strictly outside it. The three kinds therefore agree
    // with one another on every query - including how they treat points lying exactly on the radius": the linear scan and the ball tree keep
    // `rdistance < radius` (K-c07_linear_range_*), so the k-d tree must not return the points ON the radius either
    pub fn within_range(&self, point: PointTok, range: RTok) -> (r: Result<Found, ErrTok>)
        ensures r is Ok ==> r->Ok_0.radius@ == range.id@ && !r->Ok_0.boundary_included@,
    {
/*@WR*/
pub fn vacuity_guard_range(x: &IndexV, point: PointTok, range: RTok) -> (r: Result<Found, ErrTok>)
    ensures false,
{
    Err(ErrTok)
}
} // verus!
fn main() {}
