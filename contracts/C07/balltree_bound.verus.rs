//! property: C07
//! unit: V-C07-balltree-bound
//! tier: quick
//! fns: linfa_nn::balltree::BallTreeInner::rdistance (the lower bound the best-first search prunes with: distance to the ball's edge, clamped at 0, converted into the REDUCED-distance space the point distances and the radius live in)
//@ extract BD from algorithms/linfa-nn/src/balltree.rs anchor "let border_dist = dist_fn.distance(p, center.reborrow()) - *radius;" lines 2
//@ rewrite BD "F::zero()" => "FT::zero()"
//@ expect-fail vacuity_guard_bound
use vstd::prelude::*;
use vstd::std_specs::ops::*;
verus! {
// a float as a mathematical number, tagged with the space it lives in: plain distances or reduced distances (e.g. squared, for L2)
#[derive(Clone, Copy)]
pub struct FT { pub v: Ghost<real>, pub reduced: Ghost<bool> }
impl core::ops::Sub for FT { type Output = FT; #[verifier::external_body] fn sub(self, o: FT) -> (r: FT) { unimplemented!() } }
impl SubSpecImpl<FT> for FT {
    open spec fn obeys_sub_spec() -> bool { true }
    open spec fn sub_req(self, o: FT) -> bool { self.reduced@ == o.reduced@ }        // never mix the two spaces in one difference
    open spec fn sub_spec(self, o: FT) -> FT { FT { v: Ghost(self.v@ - o.v@), reduced: self.reduced } }
}
pub open spec fn rmax(a: real, b: real) -> real { if a >= b { a } else { b } }
impl FT {
    #[verifier::external_body] pub fn zero() -> (r: FT) ensures r.v@ == 0real { unimplemented!() }     // 0 is 0 in either space
    #[verifier::external_body] pub fn max(self, o: FT) -> (r: FT) ensures r.v@ == rmax(self.v@, o.v@), r.reduced@ == self.reduced@ { unimplemented!() }
}
pub struct PointTok { pub id: Ghost<int> }
impl PointTok { #[verifier::external_body] pub fn reborrow(&self) -> (r: PointTok) ensures r.id@ == self.id@ { unimplemented!() } }
pub uninterp spec fn spec_dist(a: int, b: int) -> real;
pub uninterp spec fn to_rdist(d: real) -> real;                  // order-preserving map of the Distance trait (its own contract: K-c07_conv_*)
pub struct DistTok;
impl DistTok {
    #[verifier::external_body] pub fn distance(&self, a: PointTok, b: PointTok) -> (r: FT) ensures r.v@ == spec_dist(a.id@, b.id@), !r.reduced@ { unimplemented!() }
    #[verifier::external_body] pub fn dist_to_rdist(&self, d: FT) -> (r: FT) requires !d.reduced@, ensures r.v@ == to_rdist(d.v@), r.reduced@ { unimplemented!() }
}
// C07 "exactly the true k nearest / every point strictly inside the radius": the search discards a ball when this bound is not below the
// current k-th REDUCED distance (or the reduced radius), so the bound has to be the reduced image of (distance to the centre - ball radius), clamped at 0
pub fn ball_lower_bound(p: PointTok, center: &PointTok, radius: &FT, dist_fn: &DistTok) -> (r: FT)
    requires !radius.reduced@,
    ensures r.reduced@, r.v@ == to_rdist(rmax(spec_dist(p.id@, center.id@) - radius.v@, 0real)),
{
/*@BD*/
}
pub fn vacuity_guard_bound(p: PointTok, center: &PointTok, radius: &FT, dist_fn: &DistTok) -> (r: FT)
    requires !radius.reduced@,
    ensures false,
{
    FT::zero()
}
} // verus!
fn main() {}
