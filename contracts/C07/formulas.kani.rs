//! property: C07
//! attach: algorithms/linfa-nn/src/distance.rs
//! module: vk_c07_formulas
// @include common/prelude.rs
// @include common/ghost_f32.rs
// @include common/ghost_f64.rs
// @include C07/helpers.rs
use super::*;
use ndarray::arr1;

// distance / rdistance of 2-dimensional points against the textbook formulas.  All finite f32
// coordinates; sums are taken in index order (the only order a 2-term sum has), so == is exact;
// results that overflow agree as +inf.  Transcendentals (f64 sqrt of L2, powf of Lp) are
// uninterpreted: their ARGUMENTS are compared with the textbook sub-terms.
fn pts() -> ([f32; 2], [f32; 2]) {
    let (a, b): ([f32; 2], [f32; 2]) = (kani::any(), kani::any());
    kani::assume(a[0].is_finite() && a[1].is_finite() && b[0].is_finite() && b[1].is_finite());
    (a, b)
}
// integer coordinates in [-100,100]: squares and their sum are exact
fn small_pts() -> ([f32; 2], [f32; 2]) {
    let v: [i8; 4] = kani::any();
    kani::assume(v[0] >= -100 && v[0] <= 100 && v[1] >= -100 && v[1] <= 100 && v[2] >= -100 && v[2] <= 100 && v[3] >= -100 && v[3] <= 100);
    ([v[0] as f32, v[1] as f32], [v[2] as f32, v[3] as f32])
}

// @unit class=bounded tier=thorough mem=light timeout=1800 bound="dim=2" fns=linfa_nn::distance::L1Dist::distance,linfa_nn::distance::L1Dist::rdistance
#[kani::proof]
#[kani::unwind(4)]
#[kani::stub(alloc::fmt::format, fmt_stub)]
fn c07_formula_l1_dim2() {
    let (a, b) = pts();
    let (pa, pb) = (arr1(&a), arr1(&b));
    let d: f32 = L1Dist.distance(pa.view(), pb.view());
    let t = (a[0] - b[0]).abs() + (a[1] - b[1]).abs();
    assert!(d == t);
    assert!(<L1Dist as Distance<f32>>::rdistance(&L1Dist, pa.view(), pb.view()) == t);
    assert!(<L1Dist as Distance<f32>>::distance(&L1Dist, pb.view(), pa.view()) == t);
    kani::cover!(d > 0.0 && d.is_finite() && a[0] != b[0] && a[1] != b[1]);
    kani::cover!(d == f32::INFINITY);
    kani::cover!(d == 0.0);
}

// @unit class=bounded tier=thorough mem=light timeout=1800 bound="dim=2" fns=linfa_nn::distance::LInfDist::distance,linfa_nn::distance::LInfDist::rdistance
#[kani::proof]
#[kani::unwind(4)]
#[kani::stub(alloc::fmt::format, fmt_stub)]
fn c07_formula_linf_dim2() {
    let (a, b) = pts();
    let (pa, pb) = (arr1(&a), arr1(&b));
    let d: f32 = LInfDist.distance(pa.view(), pb.view());
    let (x, y) = ((a[0] - b[0]).abs(), (a[1] - b[1]).abs());
    let t = if x >= y { x } else { y };
    assert!(d == t);
    assert!(<LInfDist as Distance<f32>>::rdistance(&LInfDist, pa.view(), pb.view()) == t);
    assert!(<LInfDist as Distance<f32>>::distance(&LInfDist, pb.view(), pa.view()) == t);
    kani::cover!(x > y && y > 0.0);
    kani::cover!(y > x && x > 0.0);
    kani::cover!(d == 0.0);
}

// @unit class=bounded tier=thorough mem=light timeout=1800 bound="dim=2,coords in -100..100" fns=linfa_nn::distance::L2Dist::distance,linfa_nn::distance::L2Dist::rdistance
#[kani::proof]
#[kani::unwind(7)]
#[kani::stub(alloc::fmt::format, fmt_stub)]
#[kani::stub(f64::sqrt, ghost_sqrt64)]
fn c07_formula_l2_dim2() {
    let (a, b) = small_pts();
    let (pa, pb) = (arr1(&a), arr1(&b));
    let t = (a[0] - b[0]) * (a[0] - b[0]) + (a[1] - b[1]) * (a[1] - b[1]);
    let rd: f32 = L2Dist.rdistance(pa.view(), pb.view());
    assert!(rd == t);
    assert!(<L2Dist as Distance<f32>>::rdistance(&L2Dist, pb.view(), pa.view()) == t);
    // distance = sqrt(sum of squares): the library takes the root in f64 and narrows to f32
    let d: f32 = L2Dist.distance(pa.view(), pb.view());
    unsafe {
        assert!(H_SQRT_N == 1 && H_SQRT_A[0] == t as f64);
        assert!(d == H_SQRT_R[0] as f32);
    }
    assert!(!d.is_nan() && d >= 0.0);
    if t == 0.0 { assert!(d == 0.0); }
    kani::cover!(t > 0.0 && t.is_finite() && a[0] != b[0] && a[1] != b[1]);
    kani::cover!(t == 0.0);
}

// Minkowski: (sum |a_i-b_i|^p)^(1/p); powf uninterpreted (recording ghost): three calls with the textbook arguments
// @unit class=bounded tier=thorough mem=light timeout=1800 bound="dim=2,p=q/2 q in 2..16" fns=linfa_nn::distance::LpDist::distance,linfa_nn::distance::LpDist::rdistance
#[kani::proof]
#[kani::unwind(7)]
#[kani::stub(alloc::fmt::format, fmt_stub)]
#[kani::stub(f32::powf, ghost_powf32)]
fn c07_formula_lp_dim2() {
    let (a, b) = pts();
    // exponent p = q/2, q = 2..=16 (1/p is a second divider circuit; arbitrary p is not needed for the wiring)
    let q: u8 = kani::any();
    kani::assume(q >= 2 && q <= 16);
    let p: f32 = q as f32 / 2.0;
    let (pa, pb) = (arr1(&a), arr1(&b));
    let m = LpDist::new(p);
    let d: f32 = m.distance(pa.view(), pb.view());
    unsafe {
        assert!(PF_N == 3);
        assert!(PF_X[0] == (a[0] - b[0]).abs() && PF_Y[0] == p);
        assert!(PF_X[1] == (a[1] - b[1]).abs() && PF_Y[1] == p);
        let s = PF_R[0] + PF_R[1];
        assert!(PF_X[2] == s && PF_Y[2] == 1.0 / p);
        assert!(d.to_bits() == PF_R[2].to_bits());
    }
    // symmetric, and rdistance is the same quantity (no reduced form)
    let d2: f32 = m.distance(pb.view(), pa.view());
    assert!(d2.to_bits() == d.to_bits());
    let rd: f32 = m.rdistance(pa.view(), pb.view());
    assert!(rd.to_bits() == d.to_bits());
    assert!(!d.is_nan() && d >= 0.0);
    kani::cover!(a[0] != b[0] && a[1] != b[1] && d > 0.0);
    kani::cover!(p == 3.5);
}

// Quick companion of c07_formula_lp_dim2 (added after seeded change C07-1): whatever reduced form a metric uses, range filtering
// and pruning compare `rdistance(a, b)` with `dist_to_rdist(r)`, so the two must be the SAME function of the distance:
//   rdistance(a, b) == dist_to_rdist(distance(a, b))   and   rdist_to_dist(rdistance(a, b)) == distance(a, b)
// (powf uninterpreted but functional: equal arguments give equal results, unequal ones are unrelated)
// @unit class=bounded tier=quick mem=light timeout=600 bound="dim=1,p=q/2 q in 2..8" fns=linfa_nn::distance::LpDist::distance,linfa_nn::distance::LpDist::rdistance,linfa_nn::distance::LpDist::dist_to_rdist,linfa_nn::distance::LpDist::rdist_to_dist
#[kani::proof]
#[kani::unwind(7)]
#[kani::stub(alloc::fmt::format, fmt_stub)]
#[kani::stub(f32::powf, ghost_powf32)]
fn c07_link_lp_dim1() {
    let (a, b): (f32, f32) = (kani::any(), kani::any());
    kani::assume(a.is_finite() && b.is_finite());
    let q: u8 = kani::any();
    kani::assume(q >= 2 && q <= 8);
    let p: f32 = q as f32 / 2.0;
    let (pa, pb) = (arr1(&[a]), arr1(&[b]));
    let m = LpDist::new(p);
    let d: f32 = m.distance(pa.view(), pb.view());
    let rd: f32 = m.rdistance(pa.view(), pb.view());
    let conv: f32 = <LpDist<f32> as Distance<f32>>::dist_to_rdist(&m, d);
    let back: f32 = <LpDist<f32> as Distance<f32>>::rdist_to_dist(&m, rd);
    assert!(rd.to_bits() == conv.to_bits());
    assert!(back.to_bits() == d.to_bits());
    kani::cover!(a != b && d > 0.0);
    kani::cover!(p == 1.5);
}
