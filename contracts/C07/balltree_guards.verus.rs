//! property: C07
//! unit: V-C07-balltree-guards
//! tier: quick
//! fns: linfa_nn::balltree::BallTreeIndex::nn_helper (the guards in front of the best-first search: wrong query dimension, empty index, k = 0)
//@ extract NH from algorithms/linfa-nn/src/balltree.rs anchor "fn nn_helper(" body
//@ drop NH from "let mut out: BinaryHeap<MaxHeapElem<_, _>> = BinaryHeap::new();" through ".collect())" as "            self.search_abs(&point, k)   /* dropped: the best-first search over the ball tree (heaps, float distances) - its result heap holds at most k elements and is peeked with unwrap() once it holds k */"
//@ rewrite NH "Err(NnError::WrongDimension)" => "Err(NnErrorV::WrongDimension)"
//@ rewrite NH "Ok(Vec::new())" => "Ok(AnsTok::empty())"
//@ expect-fail vacuity_guard_nn
use vstd::prelude::*;
verus! {
#[derive(Debug, PartialEq, Eq)]
pub enum NnErrorV { WrongDimension }
pub struct PointTok { pub n: usize }
impl PointTok { pub fn len(&self) -> (r: usize) ensures r == self.n { self.n } }
pub struct AnsTok { pub count: Ghost<int>, pub searched: Ghost<bool> }
impl AnsTok {
    #[verifier::external_body] pub fn empty() -> (r: AnsTok) ensures r.count@ == 0, !r.searched@ { unimplemented!() }
}
pub struct BallTreeV { pub dim: usize, pub len: usize }
impl BallTreeV {
    // the search proper (ASSUMED): needs a non-empty tree, and k >= 1 because `out.len() == k && .. out.peek().unwrap()` peeks into the
    // result heap as soon as it holds k elements - with k = 0 that is the empty heap (the repaired defect)
    #[verifier::external_body]
    pub fn search_abs(&self, point: &PointTok, k: usize) -> (r: Result<AnsTok, NnErrorV>)
        requires self.len > 0, k > 0, point.n == self.dim,
        ensures r.is_ok(), r.unwrap().searched@,
    { unimplemented!() }
    // C07: a query of the wrong dimension is an error; "exactly min(k,n) stored points": none for an empty index or k = 0 - and no panic
    pub fn nn_helper(&self, point: PointTok, k: usize, max_radius: u64) -> (r: Result<AnsTok, NnErrorV>)
        ensures point.n != self.dim ==> r == Err::<AnsTok, NnErrorV>(NnErrorV::WrongDimension),
            point.n == self.dim && (self.len == 0 || k == 0) ==> r.is_ok() && r.unwrap().count@ == 0,
            point.n == self.dim && self.len > 0 && k > 0 ==> r.is_ok() && r.unwrap().searched@,
    {
/*@NH*/
    }
    pub fn vacuity_guard_nn(&self, point: PointTok, k: usize, max_radius: u64) -> (r: Result<AnsTok, NnErrorV>)
        ensures false,
    {
        Err(NnErrorV::WrongDimension)
    }
}
} // verus!
fn main() {}
