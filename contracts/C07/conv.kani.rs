//! property: C07
//! attach: algorithms/linfa-nn/src/distance.rs
//! module: vk_c07_dist
// @include common/prelude.rs
// @include common/ghost_f32.rs
// @include common/ghost_f64.rs
// @include C07/helpers.rs
use super::*;
use ndarray::{arr1, Array1};

// ------------------------------------------------------------------------------------------------
// Conversions between the metric and its order-preserving "reduced" form.  Range queries compare
// rdistance(q, p) < dist_to_rdist(radius) and the ball tree prunes with dist_to_rdist(border) —
// "every point strictly inside the radius and no point strictly outside it" needs, for finite d >= 0:
//   (O1) d1 < d2  =>  dist_to_rdist(d1) <= dist_to_rdist(d2)      (nothing outside gets in)
//   (O2) dist_to_rdist(d1) < dist_to_rdist(d2)  =>  d1 <= d2      (and, contrapositive of O1, d1 < d2 strictly)
//   (W)  rdist_to_dist undoes dist_to_rdist (exactly where no transcendental is involved, otherwise
//        sqrt is uninterpreted-monotone and the ARGUMENT handed to it is checked)
//   (C)  in one dimension the textbook distance is |a-b| for every one of the metrics, so
//        rdistance([a],[b]) must be dist_to_rdist(|a-b|): the link between the two sides of the
//        comparison made by within_range.
// ------------------------------------------------------------------------------------------------
// Scalar part (O1, O2, W) for a metric whose reduced form involves no transcendental: loop-free, all finite d >= 0.
fn order_exact<M: Distance<f32>>(m: &M) -> (f32, f32, f32, f32) {
    let (d1, d2): (f32, f32) = (kani::any(), kani::any());
    kani::assume(d1.is_finite() && d2.is_finite() && d1 >= 0.0 && d2 >= 0.0);
    let (r1, r2) = (m.dist_to_rdist(d1), m.dist_to_rdist(d2));
    if d1 < d2 { assert!(r1 <= r2); }
    if r1 < r2 { assert!(d1 < d2); }
    assert!(m.rdist_to_dist(r1) == d1);
    assert!(!r1.is_nan() && r1 >= 0.0);
    (d1, d2, r1, r2)
}
// Link (C) in one dimension, all finite coordinates.
fn link_exact<M: Distance<f32>>(m: &M) -> (f32, f32) {
    let (a, b): (f32, f32) = (kani::any(), kani::any());
    kani::assume(a.is_finite() && b.is_finite());
    let (pa, pb) = (arr1(&[a]), arr1(&[b]));
    let rd = m.rdistance(pa.view(), pb.view());
    let dd = m.distance(pa.view(), pb.view());
    assert!(dd == (a - b).abs());
    assert!(rd == m.dist_to_rdist((a - b).abs()));
    assert!(m.rdistance(pb.view(), pa.view()) == rd);
    assert!(m.rdist_to_dist(rd) == dd);
    (dd, rd)
}

// @unit class=complete tier=quick mem=light fns=linfa_nn::distance::L1Dist::dist_to_rdist,linfa_nn::distance::L1Dist::rdist_to_dist
#[kani::proof]
#[kani::stub(alloc::fmt::format, fmt_stub)]
fn c07_conv_l1() {
    let (d1, d2, r1, r2) = order_exact(&L1Dist);
    kani::cover!(d1 < d2 && r1 < r2);
    kani::cover!(d1 == 0.0 && d2 == f32::MAX);
}

// @unit class=complete tier=quick mem=light fns=linfa_nn::distance::LInfDist::dist_to_rdist,linfa_nn::distance::LInfDist::rdist_to_dist
#[kani::proof]
#[kani::stub(alloc::fmt::format, fmt_stub)]
fn c07_conv_linf() {
    let (d1, d2, r1, r2) = order_exact(&LInfDist);
    kani::cover!(d1 < d2 && r1 < r2);
    kani::cover!(d1 == 0.0 && d2 == f32::MAX);
}

// Lp: no reduced form is defined, so both conversions must be the identity, for every exponent p (even NaN).
// @unit class=complete tier=quick mem=light fns=linfa_nn::distance::LpDist::dist_to_rdist,linfa_nn::distance::LpDist::rdist_to_dist,linfa_nn::distance::LpDist::new
#[kani::proof]
#[kani::stub(alloc::fmt::format, fmt_stub)]
fn c07_conv_lp() {
    let p: f32 = kani::any();
    let m = LpDist::new(p);
    assert!(m.0.to_bits() == p.to_bits());
    let (d1, d2, r1, r2) = order_exact(&m);
    assert!(r1 == d1 && r2 == d2);
    kani::cover!(d1 < d2 && p.is_nan());
    kani::cover!(d1 < d2 && p >= 1.0);
}

// L2: reduced distance = squared distance, way back = square root.
// Wiring is checked through recording ghosts: dist_to_rdist(d) must be powi(d, 2) and nothing else, rdist_to_dist(r)
// must be sqrt(r) and nothing else; O1/O2 then follow from the monotonicity AXIOMS of squaring and sqrt (helpers.rs,
// common/ghost_f32.rs) for every finite d >= 0.
// @unit class=complete tier=quick mem=light fns=linfa_nn::distance::L2Dist::dist_to_rdist,linfa_nn::distance::L2Dist::rdist_to_dist
#[kani::proof]
#[kani::unwind(7)]
#[kani::stub(alloc::fmt::format, fmt_stub)]
#[kani::stub(f32::powi, ghost_powi32_rec)]
#[kani::stub(f32::sqrt, ghost_sqrt32)]
fn c07_conv_l2() {
    let m = L2Dist;
    let (d1, d2): (f32, f32) = (kani::any(), kani::any());
    kani::assume(d1.is_finite() && d2.is_finite() && d1 >= 0.0 && d2 >= 0.0);
    let (r1, r2): (f32, f32) = (m.dist_to_rdist(d1), m.dist_to_rdist(d2));
    unsafe {
        assert!(PW_N == 2);
        assert!(PW_X[0] == d1 && PW_E[0] == 2 && PW_R[0].to_bits() == r1.to_bits());
        assert!(PW_X[1] == d2 && PW_E[1] == 2 && PW_R[1].to_bits() == r2.to_bits());
    }
    if d1 < d2 { assert!(r1 <= r2); }
    if r1 < r2 { assert!(d1 < d2); }
    assert!(!r1.is_nan() && r1 >= 0.0);
    let b1: f32 = m.rdist_to_dist(r1);
    let b2: f32 = m.rdist_to_dist(r2);
    unsafe {
        assert!(G_SQRT_N == 2 && PW_N == 2);
        assert!(G_SQRT_A[0].to_bits() == r1.to_bits() && G_SQRT_R[0].to_bits() == b1.to_bits());
        assert!(G_SQRT_A[1].to_bits() == r2.to_bits() && G_SQRT_R[1].to_bits() == b2.to_bits());
    }
    // the round trip keeps the order, never yields NaN / negative values, fixes 0 and 1
    if d1 <= d2 { assert!(b1 <= b2); }
    if b1 < b2 { assert!(d1 < d2); }
    if d1 == 0.0 { assert!(b1 == 0.0); }
    if d1 == 1.0 { assert!(b1 == 1.0); }
    assert!(!b1.is_nan() && b1 >= 0.0);
    kani::cover!(d1 < d2 && r1 < r2 && b1 < b2);
    kani::cover!(d1 < d2 && r1 == r2);
    kani::cover!(d1 == 0.0 && d2 == f32::MAX);
}

// The same with the REAL multiplication (powi(x,2) = x*x, exact in Rust's lowering) on a bounded domain:
// d = n * 2^-6, n integer < 2^12 (squares are exact): strict order, value equals the exact square.
// @unit class=bounded tier=quick mem=light timeout=400 bound="d=n/64,n<4096" fns=linfa_nn::distance::L2Dist::dist_to_rdist
#[kani::proof]
#[kani::stub(alloc::fmt::format, fmt_stub)]
#[kani::stub(f32::powi, ghost_powi32)]
fn c07_conv_l2_exact() {
    let m = L2Dist;
    let (n1, n2): (u32, u32) = (kani::any(), kani::any());
    kani::assume(n1 < 4096 && n2 < 4096);
    let (d1, d2) = (n1 as f32 / 64.0, n2 as f32 / 64.0);
    let (r1, r2): (f32, f32) = (m.dist_to_rdist(d1), m.dist_to_rdist(d2));
    assert!(r1 == (n1 * n1) as f32 / 4096.0);
    if n1 < n2 { assert!(r1 < r2); }
    if r1 < r2 { assert!(n1 < n2); }
    if r1 == r2 { assert!(n1 == n2); }
    kani::cover!(n1 < n2 && n1 > 0);
    kani::cover!(n1 == 4095);
}

// Link (C): 1-dimensional points, textbook distance |a-b|.
// @unit class=bounded tier=quick mem=light bound="dim=1" fns=linfa_nn::distance::L1Dist::distance,linfa_nn::distance::L1Dist::rdistance,linfa_nn::distance::L1Dist::dist_to_rdist
#[kani::proof]
#[kani::unwind(3)]
#[kani::stub(alloc::fmt::format, fmt_stub)]
fn c07_link_l1_dim1() {
    let (dd, rd) = link_exact(&L1Dist);
    kani::cover!(rd > 0.0 && rd.is_finite());
    kani::cover!(dd == f32::INFINITY);
    kani::cover!(dd == 0.0);
}

// @unit class=bounded tier=quick mem=light bound="dim=1" fns=linfa_nn::distance::LInfDist::distance,linfa_nn::distance::LInfDist::rdistance,linfa_nn::distance::LInfDist::dist_to_rdist
#[kani::proof]
#[kani::unwind(3)]
#[kani::stub(alloc::fmt::format, fmt_stub)]
fn c07_link_linf_dim1() {
    let (dd, rd) = link_exact(&LInfDist);
    kani::cover!(rd > 0.0 && rd.is_finite());
    kani::cover!(dd == f32::INFINITY);
    kani::cover!(dd == 0.0);
}

// L2 link: both sides of within_range's comparison `rdistance(q,p) < dist_to_rdist(r)` live on the same (squared) scale:
// rdistance([a],[b]) = (a-b)^2 = dist_to_rdist(|a-b|); integer coordinates in [-100,100] (a commuted / re-associated
// float multiplier is out of SAT reach on the full domain).  distance = sqrt (f64, uninterpreted) of the same value.
// @unit class=bounded tier=quick mem=light timeout=400 bound="dim=1,coords in -100..100" fns=linfa_nn::distance::L2Dist::distance,linfa_nn::distance::L2Dist::rdistance,linfa_nn::distance::L2Dist::dist_to_rdist
#[kani::proof]
#[kani::unwind(7)]
#[kani::stub(alloc::fmt::format, fmt_stub)]
#[kani::stub(f32::powi, ghost_powi32)]
#[kani::stub(f64::sqrt, ghost_sqrt64)]
fn c07_link_l2_dim1() {
    let (ia, ib): (i8, i8) = (kani::any(), kani::any());
    kani::assume(ia >= -100 && ia <= 100 && ib >= -100 && ib <= 100);
    let (a, b) = (ia as f32, ib as f32);
    let (pa, pb) = (arr1(&[a]), arr1(&[b]));
    let m = L2Dist;
    let rd: f32 = m.rdistance(pa.view(), pb.view());
    let diff = ia as i32 - ib as i32;
    assert!(rd == (diff * diff) as f32);
    assert!(rd == m.dist_to_rdist((a - b).abs()));
    assert!(m.rdistance(pb.view(), pa.view()) == rd);
    let dd: f32 = m.distance(pa.view(), pb.view());
    unsafe { assert!(H_SQRT_N == 1 && H_SQRT_A[0] == (diff * diff) as f64 && dd == H_SQRT_R[0] as f32); }
    if diff == 0 { assert!(dd == 0.0); }
    if diff == 1 || diff == -1 { assert!(dd == 1.0); }
    kani::cover!(diff > 1);
    kani::cover!(diff < -1);
    kani::cover!(diff == 0);
}
