//! property: C07
//! attach: algorithms/linfa-nn/src/distance.rs
//! module: vk_c07_dist
// @include common/prelude.rs
// @include common/ghost_f32.rs
// @include common/ghost_f64.rs
// @include C07/helpers.rs
use super::*;
use ndarray::{arr1, Array1};

// ------------------------------------------------------------------------------------------------
// Conversions between the metric and its order-preserving "reduced" form.  Range queries compare
// rdistance(q, p) < dist_to_rdist(radius) and the ball tree prunes with dist_to_rdist(border) —
// "every point strictly inside the radius and no point strictly outside it" needs, for finite d >= 0:
//   (O1) d1 < d2  =>  dist_to_rdist(d1) <= dist_to_rdist(d2)      (nothing outside gets in)
//   (O2) dist_to_rdist(d1) < dist_to_rdist(d2)  =>  d1 <= d2      (and, contrapositive of O1, d1 < d2 strictly)
//   (W)  rdist_to_dist undoes dist_to_rdist (exactly where no transcendental is involved, otherwise
//        sqrt is uninterpreted-monotone and the ARGUMENT handed to it is checked)
//   (C)  in one dimension the textbook distance is |a-b| for every one of the metrics, so
//        rdistance([a],[b]) must be dist_to_rdist(|a-b|): the link between the two sides of the
//        comparison made by within_range.
// ------------------------------------------------------------------------------------------------
fn order_and_roundtrip_exact<M: Distance<f32>>(m: &M) {
    let (d1, d2): (f32, f32) = (kani::any(), kani::any());
    kani::assume(d1.is_finite() && d2.is_finite() && d1 >= 0.0 && d2 >= 0.0);
    let (r1, r2) = (m.dist_to_rdist(d1), m.dist_to_rdist(d2));
    if d1 < d2 { assert!(r1 <= r2); }
    if r1 < r2 { assert!(d1 < d2); }
    assert!(m.rdist_to_dist(r1) == d1);
    assert!(!r1.is_nan() && r1 >= 0.0);
    let (a, b): (f32, f32) = (kani::any(), kani::any());
    kani::assume(a.is_finite() && b.is_finite());
    let (pa, pb) = (arr1(&[a]), arr1(&[b]));
    let rd = m.rdistance(pa.view(), pb.view());
    let dd = m.distance(pa.view(), pb.view());
    assert!(dd == (a - b).abs());
    assert!(rd == m.dist_to_rdist((a - b).abs()));
    assert!(m.rdistance(pb.view(), pa.view()) == rd);
    kani::cover!(d1 < d2 && r1 < r2);
    kani::cover!(d1 == 0.0);
    kani::cover!(rd > 0.0 && rd.is_finite());
    kani::cover!(rd == f32::INFINITY);
}

// @unit class=complete tier=quick mem=light fns=linfa_nn::distance::L1Dist::dist_to_rdist,linfa_nn::distance::L1Dist::rdist_to_dist,linfa_nn::distance::L1Dist::distance,linfa_nn::distance::L1Dist::rdistance
#[kani::proof]
#[kani::unwind(3)]
#[kani::stub(alloc::fmt::format, fmt_stub)]
fn c07_conv_l1() {
    order_and_roundtrip_exact(&L1Dist);
}

// @unit class=complete tier=quick mem=light fns=linfa_nn::distance::LInfDist::dist_to_rdist,linfa_nn::distance::LInfDist::rdist_to_dist,linfa_nn::distance::LInfDist::distance,linfa_nn::distance::LInfDist::rdistance
#[kani::proof]
#[kani::unwind(3)]
#[kani::stub(alloc::fmt::format, fmt_stub)]
fn c07_conv_linf() {
    order_and_roundtrip_exact(&LInfDist);
}

// L2: reduced distance = squared distance.  powi(x,2) = x*x (exact in Rust's lowering), sqrt uninterpreted monotone.
// @unit class=complete tier=quick mem=light fns=linfa_nn::distance::L2Dist::dist_to_rdist,linfa_nn::distance::L2Dist::rdist_to_dist,linfa_nn::distance::L2Dist::rdistance
#[kani::proof]
#[kani::unwind(7)]
#[kani::stub(alloc::fmt::format, fmt_stub)]
#[kani::stub(f32::powi, ghost_powi32)]
#[kani::stub(f32::sqrt, ghost_sqrt32)]
fn c07_conv_l2() {
    let m = L2Dist;
    let (d1, d2): (f32, f32) = (kani::any(), kani::any());
    kani::assume(d1.is_finite() && d2.is_finite() && d1 >= 0.0 && d2 >= 0.0);
    let (r1, r2): (f32, f32) = (m.dist_to_rdist(d1), m.dist_to_rdist(d2));
    if d1 < d2 { assert!(r1 <= r2); }
    if r1 < r2 { assert!(d1 < d2); }
    assert!(!r1.is_nan() && r1 >= 0.0);
    // the reduced form of the Euclidean distance is the squared distance
    assert!(r1 == d1 * d1);
    // wiring: the way back is sqrt of exactly that value; monotone both ways, fixed points 0 and 1
    let b1: f32 = m.rdist_to_dist(r1);
    let b2: f32 = m.rdist_to_dist(r2);
    unsafe {
        assert!(G_SQRT_N == 2 && G_SQRT_A[0].to_bits() == r1.to_bits() && G_SQRT_R[0].to_bits() == b1.to_bits());
        assert!(G_SQRT_A[1].to_bits() == r2.to_bits() && G_SQRT_R[1].to_bits() == b2.to_bits());
    }
    if d1 <= d2 { assert!(b1 <= b2); }
    if b1 < b2 { assert!(d1 < d2); }
    if d1 == 0.0 { assert!(b1 == 0.0); }
    if d1 == 1.0 { assert!(b1 == 1.0); }
    assert!(!b1.is_nan() && b1 >= 0.0);
    // link to rdistance in one dimension (textbook distance |a-b|)
    let (a, b): (f32, f32) = (kani::any(), kani::any());
    kani::assume(a.is_finite() && b.is_finite());
    let (pa, pb) = (arr1(&[a]), arr1(&[b]));
    let rd: f32 = m.rdistance(pa.view(), pb.view());
    assert!(rd == m.dist_to_rdist((a - b).abs()));
    assert!(rd == (a - b) * (a - b));
    assert!(m.rdistance(pb.view(), pa.view()) == rd);
    kani::cover!(d1 < d2 && r1 < r2);
    kani::cover!(d1 < d2 && r1 == r2);
    kani::cover!(d1 == 0.0);
    kani::cover!(r1 == f32::INFINITY);
    kani::cover!(rd > 0.0 && rd.is_finite());
}

// Lp: no reduced form is defined, so both conversions must be the identity, for every exponent p.
// @unit class=complete tier=quick mem=light fns=linfa_nn::distance::LpDist::dist_to_rdist,linfa_nn::distance::LpDist::rdist_to_dist
#[kani::proof]
#[kani::stub(alloc::fmt::format, fmt_stub)]
fn c07_conv_lp() {
    let p: f32 = kani::any();
    let m = LpDist::new(p);
    assert!(m.0.to_bits() == p.to_bits());
    let (d1, d2): (f32, f32) = (kani::any(), kani::any());
    kani::assume(d1.is_finite() && d2.is_finite() && d1 >= 0.0 && d2 >= 0.0);
    let (r1, r2): (f32, f32) = (m.dist_to_rdist(d1), m.dist_to_rdist(d2));
    if d1 < d2 { assert!(r1 <= r2); }
    if r1 < r2 { assert!(d1 < d2); }
    assert!(m.rdist_to_dist(r1) == d1);
    assert!(r1 == d1);
    kani::cover!(d1 < d2 && p.is_nan());
    kani::cover!(d1 < d2 && p >= 1.0);
}

// @unit class=complete tier=thorough mem=light timeout=900 fns=linfa_nn::distance::L2Dist::dist_to_rdist
#[kani::proof]
#[kani::stub(alloc::fmt::format, fmt_stub)]
#[kani::stub(f32::powi, ghost_powi32)]
fn c07_probe_l2_cadical() {
    let m = L2Dist;
    let (d1, d2): (f32, f32) = (kani::any(), kani::any());
    kani::assume(d1.is_finite() && d2.is_finite() && d1 >= 0.0 && d2 >= 0.0);
    let (r1, r2): (f32, f32) = (m.dist_to_rdist(d1), m.dist_to_rdist(d2));
    if d1 < d2 { assert!(r1 <= r2); }
    kani::cover!(d1 < d2 && r1 < r2);
}

// @unit class=complete tier=thorough mem=light timeout=900 fns=linfa_nn::distance::L2Dist::dist_to_rdist
#[kani::proof]
#[kani::solver(kissat)]
#[kani::stub(alloc::fmt::format, fmt_stub)]
#[kani::stub(f32::powi, ghost_powi32)]
fn c07_probe_l2_kissat() {
    let m = L2Dist;
    let (d1, d2): (f32, f32) = (kani::any(), kani::any());
    kani::assume(d1.is_finite() && d2.is_finite() && d1 >= 0.0 && d2 >= 0.0);
    let (r1, r2): (f32, f32) = (m.dist_to_rdist(d1), m.dist_to_rdist(d2));
    if d1 < d2 { assert!(r1 <= r2); }
    kani::cover!(d1 < d2 && r1 < r2);
}

// @unit class=complete tier=thorough mem=light timeout=900 fns=linfa_nn::distance::L2Dist::dist_to_rdist
#[kani::proof]
#[kani::solver(minisat)]
#[kani::stub(alloc::fmt::format, fmt_stub)]
#[kani::stub(f32::powi, ghost_powi32)]
fn c07_probe_l2_minisat() {
    let m = L2Dist;
    let (d1, d2): (f32, f32) = (kani::any(), kani::any());
    kani::assume(d1.is_finite() && d2.is_finite() && d1 >= 0.0 && d2 >= 0.0);
    let (r1, r2): (f32, f32) = (m.dist_to_rdist(d1), m.dist_to_rdist(d2));
    if d1 < d2 { assert!(r1 <= r2); }
    kani::cover!(d1 < d2 && r1 < r2);
}
