//! property: C07
//! attach: algorithms/linfa-nn/src/balltree.rs
//! module: vk_c07_errors_bt
// @include common/prelude.rs
use super::*;
use crate::distance::L1Dist;
use ndarray::{Array1, Array2};

// Ball tree: the query guard is BallTreeIndex::nn_helper's first test.
// Index built by `new` over an EMPTY batch (0 x 2): no tree to build.  (A one-point tree: CBMC out of memory > 12 GB
// during the leaf build — measured twice — so the guard is exercised on the empty index only.)
// @unit class=complete tier=quick mem=light timeout=300 fns=linfa_nn::BallTreeIndex::new,linfa_nn::BallTreeIndex::k_nearest,linfa_nn::BallTreeIndex::within_range,linfa_nn::balltree::BallTreeIndex::nn_helper
#[kani::proof]
#[kani::unwind(4)]
#[kani::stub(alloc::fmt::format, fmt_stub)]
fn c07_err_wrong_dim_balltree_empty() {
    let batch: Array2<f32> = Array2::zeros((0, 2));
    let idx = match BallTreeIndex::new(&batch, 1, L1Dist) { Ok(i) => i, Err(_) => { assert!(false); return; } };
    assert!(idx.dim == 2 && idx.len == 0);
    let k: usize = kani::any();
    let r: f32 = kani::any();
    let q0: Array1<f32> = Array1::zeros(0);
    let q1: Array1<f32> = Array1::zeros(1);
    let q3: Array1<f32> = Array1::zeros(3);
    assert!(matches!(idx.k_nearest(q0.view(), k), Err(NnError::WrongDimension)));
    assert!(matches!(idx.within_range(q0.view(), r), Err(NnError::WrongDimension)));
    assert!(matches!(idx.k_nearest(q1.view(), k), Err(NnError::WrongDimension)));
    assert!(matches!(idx.within_range(q1.view(), r), Err(NnError::WrongDimension)));
    assert!(matches!(idx.k_nearest(q3.view(), k), Err(NnError::WrongDimension)));
    assert!(matches!(idx.within_range(q3.view(), r), Err(NnError::WrongDimension)));
    // a query of the right length on the empty index is answered with the empty list, not an error
    let q2: Array1<f32> = Array1::zeros(2);
    match idx.k_nearest(q2.view(), k) { Ok(v) => assert!(v.is_empty()), Err(_) => assert!(false) }
    kani::cover!(k == 0);
    kani::cover!(k > 1 && r.is_nan());
}
