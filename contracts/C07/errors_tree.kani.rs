//! property: C07
//! attach: algorithms/linfa-nn/src/balltree.rs
//! module: vk_c07_errors_bt
// @include common/prelude.rs
// @include common/ghost_f32.rs
use super::*;
use crate::distance::L1Dist;
use ndarray::{Array1, Array2};

// ball tree holding ONE point (leaf build: centre = the point, radius = 0): wrong query length is refused
// @unit class=bounded tier=thorough mem=light timeout=500 bound="n=1,dim=1" fns=linfa_nn::BallTreeIndex::new,linfa_nn::BallTreeIndex::k_nearest,linfa_nn::BallTreeIndex::within_range,linfa_nn::balltree::BallTreeIndex::nn_helper
#[kani::proof]
#[kani::unwind(4)]
#[kani::stub(alloc::fmt::format, fmt_stub)]
fn c07_err_wrong_dim_balltree_n1() {
    let v: f32 = kani::any();
    kani::assume(v.is_finite());
    let batch: Array2<f32> = Array2::from_elem((1, 1), v);
    let idx = match BallTreeIndex::new(&batch, 1, L1Dist) { Ok(i) => i, Err(_) => { assert!(false); return; } };
    assert!(idx.dim == 1 && idx.len == 1);
    let k: usize = kani::any();
    let r: f32 = kani::any();
    let q0: Array1<f32> = Array1::zeros(0);
    let q2: Array1<f32> = Array1::zeros(2);
    assert!(matches!(idx.k_nearest(q0.view(), k), Err(NnError::WrongDimension)));
    assert!(matches!(idx.within_range(q0.view(), r), Err(NnError::WrongDimension)));
    assert!(matches!(idx.k_nearest(q2.view(), k), Err(NnError::WrongDimension)));
    assert!(matches!(idx.within_range(q2.view(), r), Err(NnError::WrongDimension)));
    kani::cover!(k == 0);
    kani::cover!(k > 1 && r.is_nan());
}
