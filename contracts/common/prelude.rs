// ---- common/prelude.rs (textually included into every Kani harness module) ----
#[allow(dead_code)]
fn fmt_stub(_a: core::fmt::Arguments<'_>) -> alloc::string::String { alloc::string::String::new() }
