// ---- common/ghost_f32.rs : uninterpreted transcendental functions with axioms (DESIGN 4.1) ----
// Each ghost function returns kani::any() constrained by facts that hold for the correctly
// rounded IEEE function and for every libm in use.  A small table of earlier calls makes the
// function *functional* (same argument => same result) and *monotone* (non-strict) within one
// harness run, so that a postcondition may re-evaluate the documented formula and compare with ==.
// These axioms are ASSUMPTIONS (listed by the scanner through the kani::assume lines below).
// Tables hold GHOST_CAP entries; harness loops need #[kani::unwind(>= GHOST_CAP + 2)].
#[allow(dead_code)]
const GHOST_CAP: usize = 4;
#[allow(dead_code)] static mut G_EXP_A: [f32; GHOST_CAP] = [0.0; GHOST_CAP];
#[allow(dead_code)] static mut G_EXP_R: [f32; GHOST_CAP] = [0.0; GHOST_CAP];
#[allow(dead_code)] static mut G_EXP_N: usize = 0;
#[allow(dead_code)]
fn ghost_exp32(x: f32) -> f32 {
    let r: f32 = kani::any();
    if x.is_nan() { kani::assume(r.is_nan()); return r; }
    kani::assume(!r.is_nan() && r >= 0.0);
    if x <= 0.0 { kani::assume(r <= 1.0); }
    if x >= 0.0 { kani::assume(r >= 1.0); }
    if x == 0.0 { kani::assume(r == 1.0); }
    if x == f32::NEG_INFINITY { kani::assume(r == 0.0); }
    if x == f32::INFINITY { kani::assume(r == f32::INFINITY); }
    if x < 80.0 { kani::assume(r.is_finite()); }          // exp(80) ~ 5.5e34 < f32::MAX
    if x > -80.0 { kani::assume(r > 0.0); }               // exp(-80) ~ 1.8e-35 is a normal f32
    unsafe {
        let mut i = 0;
        while i < G_EXP_N {
            if x <= G_EXP_A[i] { kani::assume(r <= G_EXP_R[i]); }
            if x >= G_EXP_A[i] { kani::assume(r >= G_EXP_R[i]); }
            i += 1;
        }
        if G_EXP_N < GHOST_CAP { G_EXP_A[G_EXP_N] = x; G_EXP_R[G_EXP_N] = r; G_EXP_N += 1; }
    }
    r
}
#[allow(dead_code)] static mut G_LN_A: [f32; GHOST_CAP] = [0.0; GHOST_CAP];
#[allow(dead_code)] static mut G_LN_R: [f32; GHOST_CAP] = [0.0; GHOST_CAP];
#[allow(dead_code)] static mut G_LN_N: usize = 0;
#[allow(dead_code)]
fn ghost_ln32(x: f32) -> f32 {
    let r: f32 = kani::any();
    if x.is_nan() || x < 0.0 { kani::assume(r.is_nan()); return r; }
    kani::assume(!r.is_nan());
    if x == 0.0 { kani::assume(r == f32::NEG_INFINITY); } else { kani::assume(r > f32::NEG_INFINITY); }
    if x == f32::INFINITY { kani::assume(r == f32::INFINITY); } else { kani::assume(r < f32::INFINITY); }
    if x == 1.0 { kani::assume(r == 0.0); }
    if x <= 1.0 { kani::assume(r <= 0.0); }
    if x >= 1.0 { kani::assume(r >= 0.0); }
    unsafe {
        let mut i = 0;
        while i < G_LN_N {
            if x <= G_LN_A[i] { kani::assume(r <= G_LN_R[i]); }
            if x >= G_LN_A[i] { kani::assume(r >= G_LN_R[i]); }
            i += 1;
        }
        if G_LN_N < GHOST_CAP { G_LN_A[G_LN_N] = x; G_LN_R[G_LN_N] = r; G_LN_N += 1; }
    }
    r
}
#[allow(dead_code)] static mut G_SQRT_A: [f32; GHOST_CAP] = [0.0; GHOST_CAP];
#[allow(dead_code)] static mut G_SQRT_R: [f32; GHOST_CAP] = [0.0; GHOST_CAP];
#[allow(dead_code)] static mut G_SQRT_N: usize = 0;
#[allow(dead_code)]
fn ghost_sqrt32(x: f32) -> f32 {
    let r: f32 = kani::any();
    if x.is_nan() || x < 0.0 { kani::assume(r.is_nan()); return r; }
    kani::assume(!r.is_nan() && r >= 0.0);
    if x == 0.0 { kani::assume(r == 0.0); } else { kani::assume(r > 0.0); }
    if x == 1.0 { kani::assume(r == 1.0); }
    if x <= 1.0 { kani::assume(r <= 1.0); }
    if x >= 1.0 { kani::assume(r >= 1.0 && r <= x); }
    if x == f32::INFINITY { kani::assume(r == f32::INFINITY); } else { kani::assume(r.is_finite()); }
    unsafe {
        let mut i = 0;
        while i < G_SQRT_N {
            if x <= G_SQRT_A[i] { kani::assume(r <= G_SQRT_R[i]); }
            if x >= G_SQRT_A[i] { kani::assume(r >= G_SQRT_R[i]); }
            i += 1;
        }
        if G_SQRT_N < GHOST_CAP { G_SQRT_A[G_SQRT_N] = x; G_SQRT_R[G_SQRT_N] = r; G_SQRT_N += 1; }
    }
    r
}
// powi(x, 2) == x * x is exact in Rust's lowering (a single multiplication); other exponents uninterpreted
#[allow(dead_code)]
fn ghost_powi32(x: f32, n: i32) -> f32 {
    if n == 0 { return 1.0; }
    if n == 1 { return x; }
    if n == 2 { return x * x; }
    kani::any()
}
