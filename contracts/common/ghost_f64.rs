// ---- common/ghost_f64.rs : uninterpreted transcendental functions with axioms (DESIGN 4.1) ----
// Each ghost function returns kani::any() constrained by facts that hold for the correctly
// rounded IEEE function and for every libm in use.  A small table of earlier calls makes the
// function *functional* (same argument => same result) and *monotone* (non-strict) within one
// harness run, so that a postcondition may re-evaluate the documented formula and compare with ==.
// These axioms are ASSUMPTIONS (listed by the scanner through the kani::assume lines below).
// Tables hold GHOST_CAP64 entries; harness loops need #[kani::unwind(>= GHOST_CAP64 + 2)].
#[allow(dead_code)]
const GHOST_CAP64: usize = 4;
#[allow(dead_code)] static mut H_EXP_A: [f64; GHOST_CAP64] = [0.0; GHOST_CAP64];
#[allow(dead_code)] static mut H_EXP_R: [f64; GHOST_CAP64] = [0.0; GHOST_CAP64];
#[allow(dead_code)] static mut H_EXP_N: usize = 0;
#[allow(dead_code)]
fn ghost_exp64(x: f64) -> f64 {
    let r: f64 = kani::any();
    if x.is_nan() { kani::assume(r.is_nan()); return r; }
    kani::assume(!r.is_nan() && r >= 0.0);
    if x <= 0.0 { kani::assume(r <= 1.0); }
    if x >= 0.0 { kani::assume(r >= 1.0); }
    if x == 0.0 { kani::assume(r == 1.0); }
    if x == f64::NEG_INFINITY { kani::assume(r == 0.0); }
    if x == f64::INFINITY { kani::assume(r == f64::INFINITY); }
    if x < 700.0 { kani::assume(r.is_finite()); }          // exp(700) ~ 1e304 < f64::MAX
    if x > -700.0 { kani::assume(r > 0.0); }               // exp(-700) ~ 1e-304 is a normal f64
    unsafe {
        let mut i = 0;
        while i < H_EXP_N {
            if x <= H_EXP_A[i] { kani::assume(r <= H_EXP_R[i]); }
            if x >= H_EXP_A[i] { kani::assume(r >= H_EXP_R[i]); }
            i += 1;
        }
        if H_EXP_N < GHOST_CAP64 { H_EXP_A[H_EXP_N] = x; H_EXP_R[H_EXP_N] = r; H_EXP_N += 1; }
    }
    r
}
#[allow(dead_code)] static mut H_LN_A: [f64; GHOST_CAP64] = [0.0; GHOST_CAP64];
#[allow(dead_code)] static mut H_LN_R: [f64; GHOST_CAP64] = [0.0; GHOST_CAP64];
#[allow(dead_code)] static mut H_LN_N: usize = 0;
#[allow(dead_code)]
fn ghost_ln64(x: f64) -> f64 {
    let r: f64 = kani::any();
    if x.is_nan() || x < 0.0 { kani::assume(r.is_nan()); return r; }
    kani::assume(!r.is_nan());
    if x == 0.0 { kani::assume(r == f64::NEG_INFINITY); } else { kani::assume(r > f64::NEG_INFINITY); }
    if x == f64::INFINITY { kani::assume(r == f64::INFINITY); } else { kani::assume(r < f64::INFINITY); }
    if x == 1.0 { kani::assume(r == 0.0); }
    if x <= 1.0 { kani::assume(r <= 0.0); }
    if x >= 1.0 { kani::assume(r >= 0.0); }
    unsafe {
        let mut i = 0;
        while i < H_LN_N {
            if x <= H_LN_A[i] { kani::assume(r <= H_LN_R[i]); }
            if x >= H_LN_A[i] { kani::assume(r >= H_LN_R[i]); }
            i += 1;
        }
        if H_LN_N < GHOST_CAP64 { H_LN_A[H_LN_N] = x; H_LN_R[H_LN_N] = r; H_LN_N += 1; }
    }
    r
}
#[allow(dead_code)] static mut H_SQRT_A: [f64; GHOST_CAP64] = [0.0; GHOST_CAP64];
#[allow(dead_code)] static mut H_SQRT_R: [f64; GHOST_CAP64] = [0.0; GHOST_CAP64];
#[allow(dead_code)] static mut H_SQRT_N: usize = 0;
#[allow(dead_code)]
fn ghost_sqrt64(x: f64) -> f64 {
    let r: f64 = kani::any();
    if x.is_nan() || x < 0.0 { kani::assume(r.is_nan()); return r; }
    kani::assume(!r.is_nan() && r >= 0.0);
    if x == 0.0 { kani::assume(r == 0.0); } else { kani::assume(r > 0.0); }
    if x == 1.0 { kani::assume(r == 1.0); }
    if x <= 1.0 { kani::assume(r <= 1.0); }
    if x >= 1.0 { kani::assume(r >= 1.0 && r <= x); }
    if x == f64::INFINITY { kani::assume(r == f64::INFINITY); } else { kani::assume(r.is_finite()); }
    unsafe {
        let mut i = 0;
        while i < H_SQRT_N {
            if x <= H_SQRT_A[i] { kani::assume(r <= H_SQRT_R[i]); }
            if x >= H_SQRT_A[i] { kani::assume(r >= H_SQRT_R[i]); }
            i += 1;
        }
        if H_SQRT_N < GHOST_CAP64 { H_SQRT_A[H_SQRT_N] = x; H_SQRT_R[H_SQRT_N] = r; H_SQRT_N += 1; }
    }
    r
}
// powi(x, 2) == x * x is exact in Rust's lowering (a single multiplication); other exponents uninterpreted
#[allow(dead_code)]
fn ghost_powi64(x: f64, n: i32) -> f64 {
    if n == 0 { return 1.0; }
    if n == 1 { return x; }
    if n == 2 { return x * x; }
    kani::any()
}
