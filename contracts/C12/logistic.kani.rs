//! property: C12
//! attach: algorithms/linfa-logistic/src/lib.rs
//! module: vk_c12_logistic
// @include common/prelude.rs
// @include common/ghost_f32.rs
// @include common/ghost_f64.rs
// @include C12/helpers.rs
use super::*;
use linfa::traits::Predict;
use ndarray::{Array1, Array2};

// =================================================================================================
// C12, decided clause: "predicted probabilities lie in [0,1] ... even for extreme inputs, and the predicted
// class is exactly the one the probabilities and the decision threshold imply".
// exp/ln are uninterpreted (common/ghost_f32.rs): exp >= 0, exp(x) <= 1 <=> x <= 0, exp(0) = 1, monotone,
// functional; ln(1) = 0, ln(x) >= 0 <=> x >= 1, monotone.  Nothing about sums of exponentials is assumed,
// so "rows sum to one" is NOT decided here.
// =================================================================================================

// ---- scalar kernels, full domain ----------------------------------------------------------------
// sigm(x) = 1/(1+exp(-x)) (rustdoc of LogisticRegression) maps into [0,1]; 1/2 separates the signs.
// @unit class=complete tier=quick mem=light fns=linfa_logistic::logistic
#[kani::proof]
#[kani::unwind(7)]
#[kani::stub(alloc::fmt::format, fmt_stub)]
#[kani::stub(f32::exp, ghost_exp32)]
fn c12_logistic_unit_interval_f32() {
    let x: f32 = kani::any();
    kani::assume(!x.is_nan());                      // +-inf included: "even for extreme inputs"
    let p = logistic(x);
    assert!(!p.is_nan() && p >= 0.0 && p <= 1.0);
    if x >= 0.0 { assert!(p >= 0.5); }
    if x <= 0.0 { assert!(p <= 0.5); }
    kani::cover!(x == f32::INFINITY && p == 1.0);
    kani::cover!(x == f32::NEG_INFINITY && p == 0.0);
    kani::cover!(x > 1000.0 && x.is_finite());
    kani::cover!(x < -1000.0 && x.is_finite());
    kani::cover!(p > 0.0 && p < 1.0);
}

// @unit class=complete tier=quick mem=light fns=linfa_logistic::logistic
#[kani::proof]
#[kani::unwind(7)]
#[kani::stub(alloc::fmt::format, fmt_stub)]
#[kani::stub(f64::exp, ghost_exp64)]
fn c12_logistic_unit_interval_f64() {
    let x: f64 = kani::any();
    kani::assume(!x.is_nan());
    let p = logistic(x);
    assert!(!p.is_nan() && p >= 0.0 && p <= 1.0);
    if x >= 0.0 { assert!(p >= 0.5); }
    if x <= 0.0 { assert!(p <= 0.5); }
    kani::cover!(x == f64::INFINITY && p == 1.0);
    kani::cover!(x < -1000.0 && x.is_finite());
    kani::cover!(p > 0.0 && p < 1.0);
}

// a larger decision value never gets a smaller probability (so thresholding the probability is thresholding the score);
// division axiomatised (C12/helpers.rs): two real dividers compared with each other do not finish.
// @unit class=complete tier=quick mem=light fns=linfa_logistic::logistic
#[kani::proof]
#[kani::unwind(9)]
#[kani::stub(alloc::fmt::format, fmt_stub)]
#[kani::stub(f32::exp, ghost_exp32)]
#[kani::stub(<f32 as core::ops::Div<f32>>::div, c12_div32)]
fn c12_logistic_monotone_f32() {
    let (a, b): (f32, f32) = (kani::any(), kani::any());
    kani::assume(!a.is_nan() && !b.is_nan() && a <= b);
    let (pa, pb) = (logistic(a), logistic(b));
    assert!(pa <= pb);
    assert!(pa >= 0.0 && pb <= 1.0);
    kani::cover!(a < b && pa < pb);
    kani::cover!(a < b && pa == pb);
    kani::cover!(a < 0.0 && b > 0.0);
}

// log of a probability is never positive (and never NaN)
// @unit class=complete tier=quick mem=light fns=linfa_logistic::log_logistic
#[kani::proof]
#[kani::unwind(7)]
#[kani::stub(alloc::fmt::format, fmt_stub)]
#[kani::stub(f32::exp, ghost_exp32)]
#[kani::stub(f32::ln, ghost_ln32)]
fn c12_log_logistic_nonpositive_f32() {
    let x: f32 = kani::any();
    kani::assume(!x.is_nan());
    let l = log_logistic(x);
    assert!(!l.is_nan() && l <= 0.0);
    kani::cover!(x > 0.0 && l < 0.0);
    kani::cover!(x < -1000.0 && x.is_finite());
    kani::cover!(x == f32::INFINITY && l == 0.0);
    kani::cover!(x == f32::NEG_INFINITY);
}

// @unit class=complete tier=quick mem=light fns=linfa_logistic::log_logistic
#[kani::proof]
#[kani::unwind(7)]
#[kani::stub(alloc::fmt::format, fmt_stub)]
#[kani::stub(f64::exp, ghost_exp64)]
#[kani::stub(f64::ln, ghost_ln64)]
fn c12_log_logistic_nonpositive_f64() {
    let x: f64 = kani::any();
    kani::assume(!x.is_nan());
    let l = log_logistic(x);
    assert!(!l.is_nan() && l <= 0.0);
    kani::cover!(x > 0.0 && l < 0.0);
    kani::cover!(x < -1000.0 && x.is_finite());
}

// ---- softmax ------------------------------------------------------------------------------------
// softmax(x) = exp(x)/sum(exp(x_i)) (rustdoc of MultiLogisticRegression): for every finite input each entry is a
// probability, none is NaN, the order of the logits is preserved and a maximal logit gets a maximal probability.
fn c12_softmax_check(v: &[f32]) -> Array1<f32> {
    let n = v.len();
    let mut a = Array1::from(v.to_vec());
    softmax_inplace(&mut a);
    assert!(a.len() == n);
    for i in 0..n {
        assert!(!a[i].is_nan() && a[i] >= 0.0 && a[i] <= 1.0);
        for j in 0..n {
            if v[i] <= v[j] { assert!(a[i] <= a[j]); }
        }
    }
    for i in 0..n {
        let mut is_max = true;
        for j in 0..n { if v[j] > v[i] { is_max = false; } }
        if is_max { assert!(a[i] > 0.0); }                       // the winning class never has probability 0
    }
    a
}

// @unit class=bounded tier=quick mem=light bound="len=2, all finite f32" timeout=900 fns=linfa_logistic::softmax_inplace
#[kani::proof]
#[kani::unwind(7)]
#[kani::stub(alloc::fmt::format, fmt_stub)]
#[kani::stub(f32::exp, ghost_exp32)]
fn c12_softmax_len2() {
    let v: [f32; 2] = kani::any();
    kani::assume(v[0].is_finite() && v[1].is_finite());
    let a = c12_softmax_check(&v);
    kani::cover!(v[0] > 3.0e38 && v[1] < -3.0e38);              // difference overflows to -inf
    kani::cover!(v[0] > 1000.0 && v[1] > 1000.0 && v[0] != v[1]);
    kani::cover!(a[0] < a[1] && a[0] > 0.0);
    kani::cover!(v[0] == v[1]);
}

// len 3: the pairwise order clause needs three symbolic f32 divisions compared with each other and does not finish in
// 20 min (measured); it is split into the range clause (all finite inputs) and the arg-max clause.
// @unit class=bounded tier=quick mem=light bound="len=3, all finite f32; range and no-NaN clause" timeout=900 fns=linfa_logistic::softmax_inplace
#[kani::proof]
#[kani::unwind(7)]
#[kani::stub(alloc::fmt::format, fmt_stub)]
#[kani::stub(f32::exp, ghost_exp32)]
fn c12_softmax_len3_range() {
    let v: [f32; 3] = kani::any();
    kani::assume(v[0].is_finite() && v[1].is_finite() && v[2].is_finite());
    let mut a = Array1::from(v.to_vec());
    softmax_inplace(&mut a);
    assert!(a.len() == 3);
    for i in 0..3 { assert!(!a[i].is_nan() && a[i] >= 0.0 && a[i] <= 1.0); }
    kani::cover!(v[1] > v[0] && v[0] > v[2]);
    kani::cover!(v[2] > 1000.0 && v[0] < -1000.0);
    kani::cover!(a[0] > 0.0 && a[1] > 0.0 && a[2] > 0.0 && a[0] < 1.0);
}

// @unit class=bounded tier=thorough mem=light bound="len=3, all finite f32; order clause, division axiomatised (C12/helpers.rs)" timeout=1800 fns=linfa_logistic::softmax_inplace
#[kani::proof]
#[kani::unwind(9)]
#[kani::stub(alloc::fmt::format, fmt_stub)]
#[kani::stub(f32::exp, ghost_exp32)]
#[kani::stub(<f32 as core::ops::Div<f32>>::div, c12_div32)]
fn c12_softmax_len3_order() {
    let v: [f32; 3] = kani::any();
    kani::assume(v[0].is_finite() && v[1].is_finite() && v[2].is_finite());
    let a = c12_softmax_check(&v);
    kani::cover!(v[1] > v[0] && v[0] > v[2] && a[1] > a[0] && a[0] > a[2]);
    kani::cover!(v[2] > 1000.0 && v[0] < -1000.0);
    kani::cover!(v[0] == v[2] && v[2] > v[1]);
}

// @unit class=bounded tier=quick mem=light bound="len=1, finite f32" timeout=600 fns=linfa_logistic::softmax_inplace
#[kani::proof]
#[kani::unwind(7)]
#[kani::stub(alloc::fmt::format, fmt_stub)]
#[kani::stub(f32::exp, ghost_exp32)]
fn c12_softmax_len1() {
    let v: [f32; 1] = kani::any();
    kani::assume(v[0].is_finite());
    let a = c12_softmax_check(&v);
    assert!(a[0] == 1.0);                                        // a single class has probability one
    kani::cover!(v[0] < -1000.0);
}

// ---- decisions ----------------------------------------------------------------------------------
// Binary model built directly (fields are private to this crate root): classes 7 (negative) and 9 (positive).
// rustdoc: "A threshold can be set ... to decide the minimum probability needed to classify a sample as `1`";
// set_threshold: "the probability threshold for which the 'positive' class will be predicted", in [0,1].
fn c12_binary(w: f32, b: f32, thr: f32) -> FittedLogisticRegression<f32, usize> {
    FittedLogisticRegression {
        threshold: thr,
        intercept: b,
        params: Array1::from(vec![w]),
        labels: BinaryClassLabels {
            pos: ClassLabel { class: 9usize, label: 1.0 },
            neg: ClassLabel { class: 7usize, label: -1.0 },
        },
    }
}

fn c12_binary_check(xs: &[f32], w: f32, b: f32, thr: f32) -> (Array1<f32>, Array1<usize>) {
    let n = xs.len();
    let model = c12_binary(w, b, thr);
    let x = Array2::from_shape_vec((n, 1), xs.to_vec()).unwrap();
    let probs = model.predict_probabilities(&x);
    let y: Array1<usize> = model.predict(&x);
    assert!(probs.len() == n && y.len() == n);
    for i in 0..n {
        assert!(!probs[i].is_nan() && probs[i] >= 0.0 && probs[i] <= 1.0);
        assert!(y[i] == 9 || y[i] == 7);                          // only the two trained classes
        assert!((y[i] == 9) == (probs[i] >= thr));                // positive <=> probability reaches the threshold
        let score = xs[i] * w + b;
        if thr == 0.5 && score > 0.0 { assert!(y[i] == 9); }      // default threshold: the sign of the decision value
        if thr == 0.0 { assert!(y[i] == 9); }
        // row-wise: the same row alone gets the same answer
        let alone = model.predict(&Array2::from_shape_vec((1, 1), vec![xs[i]]).unwrap());
        assert!(alone[0] == y[i]);
    }
    (probs, y)
}

// @unit class=bounded tier=thorough mem=heavy bound="rows=1, 1 feature, all finite f32 weights/inputs, threshold in [0,1]; division axiomatised (C12/helpers.rs)" timeout=1500 fns=linfa_logistic::FittedLogisticRegression::predict_inplace,linfa_logistic::FittedLogisticRegression::predict_probabilities,linfa_logistic::logistic
#[kani::proof]
#[kani::unwind(9)]
#[kani::stub(alloc::fmt::format, fmt_stub)]
#[kani::stub(f32::exp, ghost_exp32)]
#[kani::stub(<f32 as core::ops::Div<f32>>::div, c12_div32)]
fn c12_binary_decision_rows1() {
    let (x0, w, b, thr): (f32, f32, f32, f32) = (kani::any(), kani::any(), kani::any(), kani::any());
    kani::assume(x0.is_finite() && w.is_finite() && b.is_finite() && thr >= 0.0 && thr <= 1.0);
    let model = c12_binary(w, b, thr);
    let x = Array2::from_shape_vec((1, 1), vec![x0]).unwrap();
    let probs = model.predict_probabilities(&x);
    let y: Array1<usize> = model.predict(&x);
    assert!(probs.len() == 1 && y.len() == 1);
    assert!(!probs[0].is_nan() && probs[0] >= 0.0 && probs[0] <= 1.0);
    assert!(y[0] == 9 || y[0] == 7);
    assert!((y[0] == 9) == (probs[0] >= thr));
    let score = x0 * w + b;
    if thr == 0.5 && score > 0.0 { assert!(y[0] == 9); }
    if thr == 0.5 && score < 0.0 && probs[0] < 0.5 { assert!(y[0] == 7); }
    if thr == 0.0 { assert!(y[0] == 9); }
    kani::cover!(y[0] == 9 && thr > 0.5);
    kani::cover!(y[0] == 7 && thr < 0.5);
    kani::cover!(probs[0] == thr && thr > 0.0 && thr < 1.0);
    kani::cover!(x0 * w == f32::INFINITY);
}

// @unit class=bounded tier=quick mem=heavy bound="rows=2, 1 feature, integer-valued inputs/weights in [-8,8], threshold in [0,1]; division axiomatised (C12/helpers.rs)" timeout=900 fns=linfa_logistic::FittedLogisticRegression::predict_inplace,linfa_logistic::FittedLogisticRegression::predict_probabilities
#[kani::proof]
#[kani::unwind(9)]
#[kani::stub(alloc::fmt::format, fmt_stub)]
#[kani::stub(f32::exp, ghost_exp32)]
#[kani::stub(<f32 as core::ops::Div<f32>>::div, c12_div32)]
fn c12_binary_decision_rows2() {
    let xs = [c12_sf(-8, 8), c12_sf(-8, 8)];
    let (w, b) = (c12_sf(-8, 8), c12_sf(-8, 8));
    let thr: f32 = kani::any();
    kani::assume(thr >= 0.0 && thr <= 1.0);
    let (probs, y) = c12_binary_check(&xs, w, b, thr);
    kani::cover!(y[0] == 9 && y[1] == 7);
    kani::cover!(y[0] == 7 && y[1] == 9 && thr == 0.5);
    kani::cover!(probs[0] == thr && probs[1] < thr);
}
fn c12_sf(lo: i8, hi: i8) -> f32 { let v: i8 = kani::any(); kani::assume(v >= lo && v <= hi); v as f32 }

// Multinomial model: "the predicted class is exactly the one the probabilities ... imply": predict returns a class
// whose probability (predict_probabilities) is maximal in its row; with ties any maximal class is allowed
// (ndarray-stats documents the arg-max of equal maxima as unspecified).
fn c12_multi_check(xs: &[f32], w: &[f32], b: &[f32], classes: &[usize]) -> Array1<usize> {
    let (n, k) = (xs.len(), w.len());
    let model = MultiFittedLogisticRegression {
        intercept: Array1::from(b.to_vec()),
        params: Array2::from_shape_vec((1, k), w.to_vec()).unwrap(),
        classes: classes.to_vec(),
    };
    let x = Array2::from_shape_vec((n, 1), xs.to_vec()).unwrap();
    let y: Array1<usize> = model.predict(&x);
    let probs = model.predict_probabilities(&x);
    assert!(y.len() == n && probs.dim() == (n, k));
    for i in 0..n {
        let mut idx = k;
        for c in 0..k { if classes[c] == y[i] { idx = c; } }
        assert!(idx < k);                                          // only trained classes are predicted
        for c in 0..k {
            assert!(!probs[(i, c)].is_nan() && probs[(i, c)] >= 0.0 && probs[(i, c)] <= 1.0);
            assert!(probs[(i, idx)] >= probs[(i, c)]);             // the class the probabilities imply
            assert!(xs[i] * w[idx] + b[idx] >= xs[i] * w[c] + b[c]); // = arg-max of the linear scores
        }
    }
    y
}

// Dense matrix product: ndarray sends every f32 `Array2.dot(Array2)` to the `matrixmultiply` kernel, whose CPU-feature
// detection is inline asm (unsupported by Kani).  In the two multinomial decision units ndarray's private
// `mat_mul_general` (documented "C <- alpha A B + beta C") is replaced by this textbook triple loop -- a TRUSTED MODEL of
// the kernel, listed with the stubs of the evidence.
fn c12_mat_mul<A: ndarray::LinalgScalar>(alpha: A, lhs: &ndarray::ArrayView2<'_, A>, rhs: &ndarray::ArrayView2<'_, A>, beta: A, c: &mut ndarray::ArrayViewMut2<'_, A>) {
    let ((m, k), (_, n)) = (lhs.dim(), rhs.dim());
    for i in 0..m {
        for j in 0..n {
            let mut acc = A::zero();
            for l in 0..k { acc = acc + lhs[(i, l)] * rhs[(l, j)]; }
            c[(i, j)] = if beta.is_zero() { alpha * acc } else { beta * c[(i, j)] + alpha * acc };
        }
    }
}

// @unit class=bounded tier=thorough mem=heavy bound="rows=1, 1 feature, 3 classes, integer-valued inputs/weights in [-8,8]; division axiomatised (C12/helpers.rs), mat-mul kernel modelled" timeout=1200 fns=linfa_logistic::MultiFittedLogisticRegression::predict_inplace,linfa_logistic::MultiFittedLogisticRegression::predict_probabilities,linfa_logistic::softmax_inplace
#[kani::proof]
#[kani::unwind(9)]
#[kani::stub(alloc::fmt::format, fmt_stub)]
#[kani::stub(f32::exp, ghost_exp32)]
#[kani::stub(<f32 as core::ops::Div<f32>>::div, c12_div32)]
#[kani::stub(ndarray::linalg::impl_linalg::mat_mul_general, c12_mat_mul)]
fn c12_multi_decision_rows1_k3() {
    let xs = [c12_sf(-8, 8)];
    let w = [c12_sf(-8, 8), c12_sf(-8, 8), c12_sf(-8, 8)];
    let b = [c12_sf(-8, 8), c12_sf(-8, 8), c12_sf(-8, 8)];
    let y = c12_multi_check(&xs, &w, &b, &[11, 22, 33]);
    kani::cover!(y[0] == 11);
    kani::cover!(y[0] == 22);
    kani::cover!(y[0] == 33);
}

// @unit class=bounded tier=thorough mem=heavy bound="rows=2, 1 feature, 2 classes, integer-valued inputs/weights in [-8,8]; division axiomatised (C12/helpers.rs), mat-mul kernel modelled" timeout=1800 fns=linfa_logistic::MultiFittedLogisticRegression::predict_inplace,linfa_logistic::MultiFittedLogisticRegression::predict_probabilities,linfa_logistic::softmax_inplace
#[kani::proof]
#[kani::unwind(9)]
#[kani::stub(alloc::fmt::format, fmt_stub)]
#[kani::stub(f32::exp, ghost_exp32)]
#[kani::stub(<f32 as core::ops::Div<f32>>::div, c12_div32)]
#[kani::stub(ndarray::linalg::impl_linalg::mat_mul_general, c12_mat_mul)]
fn c12_multi_decision_rows2_k2() {
    let xs = [c12_sf(-8, 8), c12_sf(-8, 8)];
    let w = [c12_sf(-8, 8), c12_sf(-8, 8)];
    let b = [c12_sf(-8, 8), c12_sf(-8, 8)];
    let y = c12_multi_check(&xs, &w, &b, &[11, 22]);
    kani::cover!(y[0] == 11 && y[1] == 22);
    kani::cover!(y[0] == 22 && y[1] == 11);
}

// @unit class=bounded tier=quick mem=heavy bound="rows=1, 1 feature, 2 classes, integer-valued inputs/weights in [-8,8]; division axiomatised (C12/helpers.rs), mat-mul kernel modelled" timeout=900 fns=linfa_logistic::MultiFittedLogisticRegression::predict_inplace,linfa_logistic::MultiFittedLogisticRegression::predict_probabilities,linfa_logistic::softmax_inplace
#[kani::proof]
#[kani::unwind(9)]
#[kani::stub(alloc::fmt::format, fmt_stub)]
#[kani::stub(f32::exp, ghost_exp32)]
#[kani::stub(<f32 as core::ops::Div<f32>>::div, c12_div32)]
#[kani::stub(ndarray::linalg::impl_linalg::mat_mul_general, c12_mat_mul)]
fn c12_multi_decision_rows1_k2() {
    let xs = [c12_sf(-8, 8)];
    let w = [c12_sf(-8, 8), c12_sf(-8, 8)];
    let b = [c12_sf(-8, 8), c12_sf(-8, 8)];
    let y = c12_multi_check(&xs, &w, &b, &[11, 22]);
    kani::cover!(y[0] == 11);
    kani::cover!(y[0] == 22);
}

// ---------------------------------------------------------------- gradient of the binary loss
// C12 "the fitted model is a stationary point of the documented penalised loss": what the optimiser drives to zero must be the gradient of
//     L(w, b) = -sum_i ln logistic(y_i (x_i.w + b)) + alpha/2 |w|^2,   i.e.   dL/dw = sum_i x_i y_i (logistic(y_i z_i) - 1) + alpha w,
//     dL/db = sum_i y_i (logistic(y_i z_i) - 1)   (b is not penalised; without an intercept the same dL/dw with b = 0).
// `logistic` is replaced by a probe (records its argument, returns a value chosen by the harness), so the unit decides the wiring of
// the gradient for EVERY value of the logistic function: the argument y z, the factor (p - 1) y, the feature, and the penalty term
// alpha * w on the weights only - with and without intercept.
static mut C12_LG_N: usize = 0;
static mut C12_LG_ARG: [u32; 2] = [0; 2];
static mut C12_LG_RET: [f32; 2] = [0.0; 2];
fn c12_logistic_probe<F: linfa::Float>(x: F) -> F {
    unsafe {
        let i = C12_LG_N;
        assert!(i < 2);
        C12_LG_ARG[i] = F::to_f32(&x).unwrap().to_bits();
        C12_LG_N += 1;
        F::cast(C12_LG_RET[i])
    }
}
fn c12_logistic_grad_case(with_intercept: bool) {
    let (x0, w0, b) = (c12_sf(-4, 4), c12_sf(-4, 4), c12_sf(-4, 4));
    let y: f32 = if kani::any() { 1.0 } else { -1.0 };
    let alpha = c12_sf(0, 3);
    let pq: u8 = kani::any(); kani::assume(pq <= 4);
    let p = pq as f32 / 4.0;
    let x = Array2::from_shape_vec((1, 1), vec![x0]).unwrap();
    let yv = Array1::from(vec![y]);
    let w = if with_intercept { Array1::from(vec![w0, b]) } else { Array1::from(vec![w0]) };
    unsafe { C12_LG_RET = [p, 0.0]; }
    let g = logistic_grad(&x, &yv, alpha, &w);
    let z = if with_intercept { x0 * w0 + b } else { x0 * w0 };
    let r = (p - 1.0) * y;                                  // y (logistic(y z) - 1)
    unsafe {
        assert!(C12_LG_N == 1);
        assert!(f32::from_bits(C12_LG_ARG[0]) == z * y);    // the logistic function is evaluated at y * (x.w + b)
    }
    assert!(g.len() == if with_intercept { 2 } else { 1 });
    assert!(g[0] == x0 * r + alpha * w0);                   // data term + penalty on the weight
    if with_intercept { assert!(g[1] == r); }               // the intercept is not penalised
    kani::cover!(alpha * w0 != 0.0 && r != 0.0 && x0 != 0.0);
}

// @unit class=bounded tier=quick mem=heavy bound="no intercept; 1 sample, 1 feature; x, w integers in [-4,4], y in {-1,+1}, alpha in {0,1,2,3}, logistic value p in {0,1/4,..,1}; mat-mul kernel modelled" timeout=1500 fns=linfa_logistic::logistic_grad,linfa_logistic::convert_params
#[kani::proof]
#[kani::unwind(6)]
#[kani::stub(alloc::fmt::format, fmt_stub)]
#[kani::stub(logistic, c12_logistic_probe)]
#[kani::stub(ndarray::linalg::impl_linalg::mat_mul_general, c12_mat_mul)]
fn c12_logistic_grad_no_intercept() {
    c12_logistic_grad_case(false);
}

// @unit class=bounded tier=quick mem=heavy bound="with intercept; 1 sample, 1 feature; x, w, b integers in [-4,4], y in {-1,+1}, alpha in {0,1,2,3}, logistic value p in {0,1/4,..,1}; mat-mul kernel modelled" timeout=2400 fns=linfa_logistic::logistic_grad,linfa_logistic::convert_params
#[kani::proof]
#[kani::unwind(6)]
#[kani::stub(alloc::fmt::format, fmt_stub)]
#[kani::stub(logistic, c12_logistic_probe)]
#[kani::stub(ndarray::linalg::impl_linalg::mat_mul_general, c12_mat_mul)]
fn c12_logistic_grad_with_intercept() {
    c12_logistic_grad_case(true);
}

// the loss itself: -sum_i ln logistic(y_i z_i) + alpha/2 |w|^2, `log_logistic` replaced by a probe; the intercept is not penalised
static mut C12_LL_N: usize = 0;
static mut C12_LL_ARG: [u32; 2] = [0; 2];
static mut C12_LL_RET: [f32; 2] = [0.0; 2];
fn c12_log_logistic_probe<F: linfa::Float>(x: F) -> F {
    unsafe {
        let i = C12_LL_N;
        assert!(i < 2);
        C12_LL_ARG[i] = F::to_f32(&x).unwrap().to_bits();
        C12_LL_N += 1;
        F::cast(C12_LL_RET[i])
    }
}
fn c12_logistic_loss_case(with_intercept: bool) {
    let (x0, w0, b) = (c12_sf(-4, 4), c12_sf(-4, 4), c12_sf(-4, 4));
    let y: f32 = if kani::any() { 1.0 } else { -1.0 };
    let alpha = c12_sf(0, 4);
    let l = c12_sf(-8, 0);                                   // ln logistic(..) <= 0
    let x = Array2::from_shape_vec((1, 1), vec![x0]).unwrap();
    let yv = Array1::from(vec![y]);
    let w = if with_intercept { Array1::from(vec![w0, b]) } else { Array1::from(vec![w0]) };
    unsafe { C12_LL_RET = [l, 0.0]; }
    let loss = logistic_loss(&x, &yv, alpha, &w);
    let z = if with_intercept { x0 * w0 + b } else { x0 * w0 };
    unsafe {
        assert!(C12_LL_N == 1);
        assert!(f32::from_bits(C12_LL_ARG[0]) == z * y);
    }
    assert!(loss == -l + 0.5 * alpha * (w0 * w0));           // small integers and halves: exact
    kani::cover!(alpha * w0 != 0.0 && l != 0.0);
}
// @unit class=bounded tier=quick mem=heavy bound="with and without intercept (two concrete runs); 1 sample, 1 feature; x, w, b integers in [-4,4], y in {-1,+1}, alpha in 0..4, ln-logistic value in -8..0; mat-mul kernel modelled" timeout=1500 fns=linfa_logistic::logistic_loss,linfa_logistic::convert_params
#[kani::proof]
#[kani::unwind(6)]
#[kani::stub(alloc::fmt::format, fmt_stub)]
#[kani::stub(log_logistic, c12_log_logistic_probe)]
#[kani::stub(ndarray::linalg::impl_linalg::mat_mul_general, c12_mat_mul)]
fn c12_logistic_loss_wiring() {
    if kani::any() { c12_logistic_loss_case(true); } else { c12_logistic_loss_case(false); }
}
