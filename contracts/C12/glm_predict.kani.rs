//! property: C12
//! attach: algorithms/linfa-linear/src/glm/mod.rs
//! module: vk_c12_tweedie_predict
// @include common/prelude.rs
// @include common/ghost_f32.rs
// @include C12/helpers.rs
use super::*;
use ndarray::Array2;

// C12: "Tweedie GLMs ... with predictions in the link's range": the fitted model (built directly; `link` is a private
// field) predicts h(x.w + b) row by row: identity -> the linear predictor itself, log -> >= 0, logit -> in [0,1].
fn c12_tp_sf(lo: i8, hi: i8) -> f32 { let v: i8 = kani::any(); kani::assume(v >= lo && v <= hi); v as f32 }

fn c12_tp_model(link: Link) -> (TweedieRegressor<f32>, [f32; 2], f32, f32) {
    let xs = [c12_tp_sf(-8, 8), c12_tp_sf(-8, 8)];
    let (w, b) = (c12_tp_sf(-8, 8), c12_tp_sf(-8, 8));
    (TweedieRegressor { coef: Array1::from(vec![w]), intercept: b, link }, xs, w, b)
}

// @unit class=bounded tier=quick mem=heavy bound="rows=2, 1 feature, integer-valued inputs/weights in [-8,8], identity link" timeout=900 fns=linfa_linear::glm::TweedieRegressor::predict_inplace,linfa_linear::glm::link::Link::inverse
#[kani::proof]
#[kani::unwind(7)]
#[kani::stub(alloc::fmt::format, fmt_stub)]
fn c12_tweedie_predict_identity_rows2() {
    let (m, xs, w, b) = c12_tp_model(Link::Identity);
    let x = Array2::from_shape_vec((2, 1), xs.to_vec()).unwrap();
    let y: Array1<f32> = m.predict(&x);
    assert!(y.len() == 2);
    for i in 0..2 { assert!(y[i] == xs[i] * w + b); }
    kani::cover!(y[0] < 0.0 && y[1] > 0.0);
}

fn c12_tp_check(logit: bool) -> Array1<f32> {
    let (m, xs, w, b) = c12_tp_model(if logit { Link::Logit } else { Link::Log });
    let x = Array2::from_shape_vec((2, 1), xs.to_vec()).unwrap();
    let y: Array1<f32> = m.predict(&x);
    assert!(y.len() == 2);
    for i in 0..2 {
        let lp = xs[i] * w + b;
        assert!(!y[i].is_nan() && y[i] >= 0.0);
        if logit {
            assert!(y[i] <= 1.0);
            if lp >= 0.0 { assert!(y[i] >= 0.5); } else { assert!(y[i] <= 0.5); }
        } else {
            assert!(y[i] == ghost_exp32(lp));
            if lp >= 0.0 { assert!(y[i] >= 1.0); } else { assert!(y[i] <= 1.0); }
        }
        // row-wise: the same row alone gets the same prediction
        let alone: Array1<f32> = m.predict(&Array2::from_shape_vec((1, 1), vec![xs[i]]).unwrap());
        assert!(alone[0] == y[i]);
    }
    y
}

// @unit class=bounded tier=quick mem=heavy bound="rows=2, 1 feature, integer-valued inputs/weights in [-8,8], log link" timeout=900 fns=linfa_linear::glm::TweedieRegressor::predict_inplace,linfa_linear::glm::link::Link::inverse
#[kani::proof]
#[kani::unwind(9)]
#[kani::stub(alloc::fmt::format, fmt_stub)]
#[kani::stub(f32::exp, ghost_exp32)]
fn c12_tweedie_predict_log_rows2() {
    let y = c12_tp_check(false);
    kani::cover!(y[0] < 1.0 && y[1] > 1.0);
}

// the row-wise clause compares quotients of two evaluations: division axiomatised (C12/helpers.rs)
// @unit class=bounded tier=quick mem=heavy bound="rows=2, 1 feature, integer-valued inputs/weights in [-8,8], logit link; division axiomatised (C12/helpers.rs)" timeout=900 fns=linfa_linear::glm::TweedieRegressor::predict_inplace,linfa_linear::glm::link::Link::inverse
#[kani::proof]
#[kani::unwind(9)]
#[kani::stub(alloc::fmt::format, fmt_stub)]
#[kani::stub(f32::exp, ghost_exp32)]
#[kani::stub(<f32 as core::ops::Div<f32>>::div, c12_div32)]
fn c12_tweedie_predict_logit_rows2() {
    let y = c12_tp_check(true);
    kani::cover!(y[0] < 0.5 && y[1] > 0.5);
}
