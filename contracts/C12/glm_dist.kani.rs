//! property: C12
//! attach: algorithms/linfa-linear/src/glm/distribution.rs
//! module: vk_c12_tweedie_dist
// @include common/prelude.rs
use super::*;

// =================================================================================================
// C12: "reject targets outside the distribution's support with an error".  The support is taken from the
// distributions named in the rustdoc table of `TweedieRegressor` (glm/mod.rs), not from the code:
//   power 0  Normal: all reals;  power < 0 (extreme stable): all reals;
//   power 1  Poisson and (1,2) compound Poisson-gamma: y >= 0;
//   power 2  Gamma, power 3 inverse Gaussian, every power >= 2 (positive stable): y > 0.
// `fit` turns in_range == false into Err(InvalidTargetRange) before any optimisation (glm/mod.rs).
// =================================================================================================
fn c12_support(power: f32, v: f32) -> bool {
    if power <= 0.0 { true } else if power < 2.0 { v >= 0.0 } else { v > 0.0 }
}

fn c12_in_range_check(power: f32, y: &[f32]) -> bool {
    let d = TweedieDistribution::new(power).unwrap();
    let yv = Array1::from(y.to_vec());
    let got = d.in_range(&yv.view());
    let mut want = true;
    for i in 0..y.len() { if !c12_support(power, y[i]) { want = false; } }
    assert!(got == want);
    got
}

// @unit class=bounded tier=quick mem=light bound="len=2, finite f32 targets, every finite power outside (0,1)" timeout=600 fns=linfa_linear::glm::distribution::TweedieDistribution::in_range,linfa_linear::glm::distribution::TweedieDistribution::new
#[kani::proof]
#[kani::unwind(5)]
#[kani::stub(alloc::fmt::format, fmt_stub)]
fn c12_in_range_len2() {
    let power: f32 = kani::any();
    kani::assume(power.is_finite() && (power <= 0.0 || power >= 1.0));
    let y: [f32; 2] = kani::any();
    kani::assume(y[0].is_finite() && y[1].is_finite());
    let got = c12_in_range_check(power, &y);
    kani::cover!(power == 0.0 && y[0] < 0.0 && got);
    kani::cover!(power < 0.0 && y[1] < 0.0 && got);
    kani::cover!(power == 1.0 && y[0] == 0.0 && y[1] > 0.0 && got);
    kani::cover!(power == 1.0 && y[0] > 0.0 && y[1] < 0.0 && !got);
    kani::cover!(power > 1.0 && power < 2.0 && y[0] == 0.0 && y[1] == 0.0 && got);
    kani::cover!(power == 2.0 && y[0] > 0.0 && y[1] == 0.0 && !got);
    kani::cover!(power == 3.0 && y[0] > 0.0 && y[1] > 0.0 && got);
    kani::cover!(power > 3.0 && y[0] < 0.0 && !got);
}

// @unit class=bounded tier=quick mem=light bound="len=1, finite f32 target, every finite power outside (0,1)" timeout=600 fns=linfa_linear::glm::distribution::TweedieDistribution::in_range,linfa_linear::glm::distribution::TweedieDistribution::new
#[kani::proof]
#[kani::unwind(5)]
#[kani::stub(alloc::fmt::format, fmt_stub)]
fn c12_in_range_len1() {
    let power: f32 = kani::any();
    kani::assume(power.is_finite() && (power <= 0.0 || power >= 1.0));
    let y: [f32; 1] = kani::any();
    kani::assume(y[0].is_finite());
    let got = c12_in_range_check(power, &y);
    kani::cover!(power == 1.0 && y[0] == 0.0 && got);
    kani::cover!(power == 2.0 && y[0] == 0.0 && !got);
    kani::cover!(power < 0.0 && got);
}

// @unit class=bounded tier=thorough mem=light bound="len=2, finite f64 targets, every finite power outside (0,1)" timeout=600 fns=linfa_linear::glm::distribution::TweedieDistribution::in_range,linfa_linear::glm::distribution::TweedieDistribution::new
#[kani::proof]
#[kani::unwind(5)]
#[kani::stub(alloc::fmt::format, fmt_stub)]
fn c12_in_range_len2_f64() {
    let power: f64 = kani::any();
    kani::assume(power.is_finite() && (power <= 0.0 || power >= 1.0));
    let y: [f64; 2] = kani::any();
    kani::assume(y[0].is_finite() && y[1].is_finite());
    let d = TweedieDistribution::new(power).unwrap();
    let yv = Array1::from(y.to_vec());
    let got = d.in_range(&yv.view());
    let ok = |v: f64| if power <= 0.0 { true } else if power < 2.0 { v >= 0.0 } else { v > 0.0 };
    assert!(got == (ok(y[0]) && ok(y[1])));
    kani::cover!(power == 1.5 && y[0] == 0.0 && got);
    kani::cover!(power >= 2.0 && y[1] == 0.0 && !got);
    kani::cover!(power <= 0.0 && y[0] < 0.0 && got);
}

// =================================================================================================
// C12: "a stationary point of 1/2*(deviance + alpha*||w||^2) for every supported power": the Poisson (power 1) unit deviance is
// 2*(y*ln(y/mu) - y + mu) (0*ln 0 = 0) - the textbook formula, which is also what the deviance DERIVATIVE -2*(y - mu)/mu integrates to.
// Repaired defect (/repo f60d5b1): the factor 2 was applied to the logarithmic term only.
// ln is the functional ghost; its value at y/mu is pinned to a small integer so that every association of the sum is exact.
// =================================================================================================
// @include common/ghost_f32.rs
// @unit class=bounded tier=quick mem=light bound="len=1; y in 0..=4, mu in {1,2,4} (exact quotient), ghost ln value in -4..=4" timeout=600 fns=linfa_linear::glm::distribution::TweedieDistribution::unit_deviance
#[kani::proof]
#[kani::unwind(4)]
#[kani::stub(alloc::fmt::format, fmt_stub)]
#[kani::stub(f32::ln, ghost_ln32)]
fn c12_poisson_unit_deviance() {
    let yi: u8 = kani::any();
    let mi: u8 = kani::any();
    kani::assume(yi <= 4 && mi <= 2);
    let y = yi as f32;
    let mu = (1u8 << mi) as f32;
    let d = TweedieDistribution::<f32>::new(1.0).unwrap();
    let r = d.unit_deviance(Array1::from(vec![y]).view(), Array1::from(vec![mu]).view());
    assert!(r.is_ok());
    let got = r.unwrap()[0];
    if y == 0.0 {
        assert!(got == 2.0 * mu);
    } else {
        let l = ghost_ln32(y / mu);          // functional: the value the code was given for the same argument
        kani::assume(l == (l as i8) as f32 && l >= -4.0 && l <= 4.0);
        assert!(got == 2.0 * (y * l - y + mu));
    }
    kani::cover!(y == 0.0);
    kani::cover!(y == 3.0 && mu == 2.0);
}
