// ---- C12/helpers.rs : IEEE division as an axiomatised function (textual include) ----
// CBMC encodes float division through an implicitly defined quotient, so an obligation that compares two quotients
// (sigmoid monotonicity, softmax order, "predict agrees with predict_probabilities") does not finish (measured:
// > 20 min; contracts/C15/ghost_cache.rs records the same).  In those units `/` of the generic code under test
// (`<f32 as Div>::div`) is replaced by c12_div32: the same pair of arguments gives the same quotient, and for a
// finite numerator a >= 0 and a denominator b > 0 only facts that hold for IEEE-754 round-to-nearest division are
// assumed (the exact quotient obeys them and rounding is monotone with 0, 1/4 and 1 representable):
//   not NaN, >= 0;  a == 0 => 0;  a <= b => <= 1;  a >= b (b finite) => >= 1;  a >= 1 and b <= 4 => >= 1/4;  a >= 1 and b <= 2 => >= 1/2;  a <= 1 and b >= 2 => <= 1/2;
//   b == +inf => 0;  monotone: a <= a' and b >= b' => a/b <= a'/b'.
// Outside that domain (negative, NaN, inf/inf) the result is unconstrained.  These are ASSUMPTIONS (scanner lists them).
#[allow(dead_code)] const C12_DIV_CAP: usize = 6;
#[allow(dead_code)] static mut C12_DIV_A: [f32; C12_DIV_CAP] = [0.0; C12_DIV_CAP];
#[allow(dead_code)] static mut C12_DIV_B: [f32; C12_DIV_CAP] = [0.0; C12_DIV_CAP];
#[allow(dead_code)] static mut C12_DIV_R: [f32; C12_DIV_CAP] = [0.0; C12_DIV_CAP];
#[allow(dead_code)] static mut C12_DIV_N: usize = 0;
#[allow(dead_code)]
fn c12_div32(a: f32, b: f32) -> f32 {
    unsafe {
        let mut i = 0;
        while i < C12_DIV_N {
            if C12_DIV_A[i].to_bits() == a.to_bits() && C12_DIV_B[i].to_bits() == b.to_bits() { return C12_DIV_R[i]; }
            i += 1;
        }
    }
    let r: f32 = kani::any();
    let dom = a.is_finite() && a >= 0.0 && b > 0.0;
    if dom {
        kani::assume(!r.is_nan() && r >= 0.0);
        if a == 0.0 { kani::assume(r == 0.0); }
        if a <= b { kani::assume(r <= 1.0); }
        if a >= b { kani::assume(r >= 1.0); }
        if a >= 1.0 && b <= 4.0 { kani::assume(r >= 0.25); }
        if a >= 1.0 && b <= 2.0 { kani::assume(r >= 0.5); }
        if a <= 1.0 && b >= 2.0 { kani::assume(r <= 0.5); }
        if b == f32::INFINITY { kani::assume(r == 0.0); }
        unsafe {
            let mut i = 0;
            while i < C12_DIV_N {
                let (pa, pb, pr) = (C12_DIV_A[i], C12_DIV_B[i], C12_DIV_R[i]);
                if pa.is_finite() && pa >= 0.0 && pb > 0.0 {
                    if a <= pa && b >= pb { kani::assume(r <= pr); }
                    if a >= pa && b <= pb { kani::assume(r >= pr); }
                }
                i += 1;
            }
        }
    }
    unsafe {
        if C12_DIV_N < C12_DIV_CAP { C12_DIV_A[C12_DIV_N] = a; C12_DIV_B[C12_DIV_N] = b; C12_DIV_R[C12_DIV_N] = r; C12_DIV_N += 1; }
    }
    r
}
