//! property: C12
//! unit: V-C12-tweedie-objective
//! tier: quick
//! fns: linfa_linear::glm::TweedieProblem::ypred, linfa_linear::glm::TweedieProblem::cost, linfa_linear::glm::TweedieProblem::gradient (which part of the parameter vector is the intercept, which part enters the linear predictor and which part is penalised - in the objective and in its gradient alike)
//@ extract YP from algorithms/linfa-linear/src/glm/mod.rs anchor "fn ypred(&self, p: &Array1<A>) -> (Array1<A>, Array1<A>, usize) {" body
//@ rewrite YP "A::from(0.).unwrap()" => "ST::zero()"
//@ rewrite YP "*p.get(0).unwrap()" => "p.get0_abs()   /* *p.get(0).unwrap() */"
//@ rewrite-re YP "\.slice\(s!\[(\w+)\.\.\]\)" => ".slice_from_abs(\1)"
//@ rewrite YP ".mapv(|x| x + intercept)" => ".add_scalar_abs(intercept)   /* .mapv(|x| x + intercept) */"
//@ extract COST from algorithms/linfa-linear/src/glm/mod.rs anchor "fn cost(&self, p: &Self::Param) -> std::result::Result<Self::Output, argmin::core::Error> {" body
//@ rewrite-re COST "\.slice\(s!\[(\w+)\.\.\]\)" => ".slice_from_abs(\1)"
//@ rewrite-re COST "\.mapv\(\|x\| x \* A::from\(self\.alpha\)\.unwrap\(\)\)" => ".scale_abs(self.alpha)   /* .mapv(|x| x * alpha) */"
//@ rewrite COST "A::from(0.5).unwrap()" => "ST::half()"
//@ insert COST at-end : proof { reveal_with_fuel(slices_ok, 12); }
//@ extract GRAD from algorithms/linfa-linear/src/glm/mod.rs anchor "fn gradient(&self, p: &Self::Param) -> std::result::Result<Self::Param, argmin::core::Error> {" body
//@ rewrite GRAD "let devp;" => "let devp: AT;"
//@ rewrite? GRAD "concatenate![Axis(0), array![temp.sum()], temp.dot(&self.x)]" => "concat_abs(temp.sum(), temp.dot_x_abs(&self.x))   /* concatenate![Axis(0), array![temp.sum()], temp.dot(&self.x)] */"
//@ rewrite? GRAD "temp.dot(&self.x)" => "temp.dot_x_abs(&self.x)"
//@ rewrite-re GRAD "objp\s*\.slice_mut\(s!\[(\w+)\.\.\]\)\s*\.zip_mut_with\(&pscaled, \|x, y\| \*x \+= \*y\);" => "objp.add_assign_from_abs(\1, &pscaled);   /* objp.slice_mut(s![..]).zip_mut_with(&pscaled, |x, y| *x += *y) */"
//@ rewrite-re GRAD "\.slice\(s!\[(\w+)\.\.\]\)" => ".slice_from_abs(\1)"
//@ rewrite-re GRAD "\.mapv\(\|x\| x \* A::from\(self\.alpha\)\.unwrap\(\)\)" => ".scale_abs(self.alpha)   /* .mapv(|x| x * alpha) */"
//@ rewrite-re GRAD "\.mapv\(\|x\| x \* A::from\(0\.5\)\.unwrap\(\)\)" => ".scale_abs(ST::half())   /* .mapv(|x| x * 0.5) */"
//@ insert GRAD at-end : proof { reveal_with_fuel(slices_ok, 12); }
//@ expect-fail vacuity_guard_tweedie
use vstd::prelude::*;
use vstd::std_specs::ops::*;
verus! {
// ---- scalars and arrays are known by the expression that produced them ----
pub enum E {
    P, Zero, Half, Alpha, P0,                       // the parameter vector; constants; the first parameter
    SliceFrom(Box<E>, int),                         // v[k..]
    XDot(Box<E>), DotX(Box<E>),                     // X . v ; v . X
    AddScalar(Box<E>, Box<E>), LinkInv(Box<E>), LinkInvDer(Box<E>), Dev(Box<E>), DevDer(Box<E>), Sum(Box<E>),
    Dot(Box<E>, Box<E>), Add(Box<E>, Box<E>), Mul(Box<E>, Box<E>), Scale(Box<E>, Box<E>), Concat(Box<E>, Box<E>),
    AddFrom(Box<E>, int, Box<E>),                   // a with b added onto a[k..]
}
// every slice taken of the parameter vector (and every place the penalty gradient is added at) starts at `off`
pub open spec fn slices_ok(e: E, off: int) -> bool decreases e {
    match e {
        E::P | E::Zero | E::Half | E::Alpha | E::P0 => true,
        E::SliceFrom(a, k) => k == off && slices_ok(*a, off),
        E::XDot(a) | E::DotX(a) | E::LinkInv(a) | E::LinkInvDer(a) | E::Dev(a) | E::DevDer(a) | E::Sum(a) => slices_ok(*a, off),
        E::AddScalar(a, b) | E::Dot(a, b) | E::Add(a, b) | E::Mul(a, b) | E::Scale(a, b) | E::Concat(a, b) => slices_ok(*a, off) && slices_ok(*b, off),
        E::AddFrom(a, k, b) => k == off && slices_ok(*a, off) && slices_ok(*b, off),
    }
}
#[derive(Clone, Copy)]
pub struct ST { pub e: Ghost<E> }
pub struct AT { pub e: Ghost<E> }
impl core::ops::Add for ST { type Output = ST; #[verifier::external_body] fn add(self, o: ST) -> (r: ST) { unimplemented!() } }
impl AddSpecImpl<ST> for ST {
    open spec fn obeys_add_spec() -> bool { true }
    open spec fn add_req(self, o: ST) -> bool { true }
    open spec fn add_spec(self, o: ST) -> ST { ST { e: Ghost(E::Add(Box::new(self.e@), Box::new(o.e@))) } }
}
impl core::ops::Mul for ST { type Output = ST; #[verifier::external_body] fn mul(self, o: ST) -> (r: ST) { unimplemented!() } }
impl MulSpecImpl<ST> for ST {
    open spec fn obeys_mul_spec() -> bool { true }
    open spec fn mul_req(self, o: ST) -> bool { true }
    open spec fn mul_spec(self, o: ST) -> ST { ST { e: Ghost(E::Mul(Box::new(self.e@), Box::new(o.e@))) } }
}
impl core::ops::Mul for AT { type Output = AT; #[verifier::external_body] fn mul(self, o: AT) -> (r: AT) { unimplemented!() } }
impl MulSpecImpl<AT> for AT {
    open spec fn obeys_mul_spec() -> bool { true }
    open spec fn mul_req(self, o: AT) -> bool { true }
    open spec fn mul_spec(self, o: AT) -> AT { AT { e: Ghost(E::Mul(Box::new(self.e@), Box::new(o.e@))) } }
}
impl ST {
    #[verifier::external_body] pub fn zero() -> (r: ST) ensures r.e@ == E::Zero { unimplemented!() }
    #[verifier::external_body] pub fn half() -> (r: ST) ensures r.e@ == E::Half { unimplemented!() }
}
// ASSUMED of ndarray: slicing, dot, element-wise maps, sum, concatenation, adding onto a mutable slice
impl AT {
    #[verifier::external_body] pub fn view(&self) -> (r: AT) ensures r.e@ == self.e@ { unimplemented!() }
    #[verifier::external_body] pub fn get0_abs(&self) -> (r: ST) requires self.e@ == E::P, ensures r.e@ == E::P0 { unimplemented!() }
    #[verifier::external_body] pub fn slice_from_abs(&self, k: usize) -> (r: AT) ensures r.e@ == E::SliceFrom(Box::new(self.e@), k as int) { unimplemented!() }
    #[verifier::external_body] pub fn add_scalar_abs(&self, s: ST) -> (r: AT) ensures r.e@ == E::AddScalar(Box::new(self.e@), Box::new(s.e@)) { unimplemented!() }
    #[verifier::external_body] pub fn scale_abs(&self, s: ST) -> (r: AT) ensures r.e@ == E::Scale(Box::new(self.e@), Box::new(s.e@)) { unimplemented!() }
    #[verifier::external_body] pub fn dot(&self, o: &AT) -> (r: ST) ensures r.e@ == E::Dot(Box::new(self.e@), Box::new(o.e@)) { unimplemented!() }
    #[verifier::external_body] pub fn dot_x_abs(&self, x: &XTok) -> (r: AT) ensures r.e@ == E::DotX(Box::new(self.e@)) { unimplemented!() }
    #[verifier::external_body] pub fn sum(&self) -> (r: ST) ensures r.e@ == E::Sum(Box::new(self.e@)) { unimplemented!() }
    #[verifier::external_body] pub fn add_assign_from_abs(&mut self, k: usize, o: &AT) ensures final(self).e@ == E::AddFrom(Box::new(old(self).e@), k as int, Box::new(o.e@)) { unimplemented!() }
}
#[verifier::external_body] pub fn concat_abs(first: ST, rest: AT) -> (r: AT) ensures r.e@ == E::Concat(Box::new(first.e@), Box::new(rest.e@)) { unimplemented!() }
pub struct XTok;
impl XTok {
    #[verifier::external_body] pub fn view(&self) -> (r: XTok) { unimplemented!() }
    #[verifier::external_body] pub fn dot(&self, v: &AT) -> (r: AT) ensures r.e@ == E::XDot(Box::new(v.e@)) { unimplemented!() }
}
#[derive(Clone, Copy)]
pub struct YTok;
pub struct LinkTok;
impl LinkTok {
    #[verifier::external_body] pub fn inverse(&self, a: &AT) -> (r: AT) ensures r.e@ == E::LinkInv(Box::new(a.e@)) { unimplemented!() }
    #[verifier::external_body] pub fn inverse_derviative(&self, a: &AT) -> (r: AT) ensures r.e@ == E::LinkInvDer(Box::new(a.e@)) { unimplemented!() }
}
#[derive(Debug)]
pub struct ErrTok;
pub struct DistTok;
impl DistTok {
    #[verifier::external_body] pub fn deviance(&self, y: YTok, mu: AT) -> (r: Result<ST, ErrTok>) ensures r.is_ok() ==> r.unwrap().e@ == E::Dev(Box::new(mu.e@)) { unimplemented!() }
    #[verifier::external_body] pub fn deviance_derivative(&self, y: YTok, mu: AT) -> (r: AT) ensures r.e@ == E::DevDer(Box::new(mu.e@)) { unimplemented!() }
}
pub open spec fn off_of(fi: bool) -> int { if fi { 1 } else { 0 } }
pub open spec fn lin_of(fi: bool) -> E { E::AddScalar(Box::new(E::XDot(Box::new(E::SliceFrom(Box::new(E::P), off_of(fi))))), Box::new(if fi { E::P0 } else { E::Zero })) }

pub open spec fn grad_shape(e: E, fi: bool) -> bool {
    match e { E::AddFrom(base, _, _) => match *base { E::Scale(inner, _) => (*inner is Concat) == fi, _ => false }, _ => false }
}
pub struct ProblemV { pub x: XTok, pub y: YTok, pub fit_intercept: bool, pub link: LinkTok, pub dist: DistTok, pub alpha: ST }
impl ProblemV {
    // the parameter vector is [intercept, w..] with an intercept and [w..] without: the linear predictor is X.w + b (b = 0 without), its inverse link
    // is the prediction, and the number of leading non-coefficient entries is reported to the callers
    pub fn ypred(&self, p: &AT) -> (r: (AT, AT, usize))
        requires p.e@ == E::P,
        ensures r.2 == off_of(self.fit_intercept), r.1.e@ == lin_of(self.fit_intercept), r.0.e@ == E::LinkInv(Box::new(r.1.e@)),
    {
/*@YP*/
    }
    // C12: "a stationary point of 1/2*(deviance + alpha*||w||^2)": whatever the objective is assembled from, every slice of the parameter vector
    // in it is the coefficient part w (never the intercept with an intercept, never w[1..] without one)
    pub fn cost(&self, p: &AT) -> (r: Result<ST, ErrTok>)
        requires p.e@ == E::P, self.alpha.e@ == E::Alpha,
        ensures r.is_ok() ==> slices_ok(r.unwrap().e@, off_of(self.fit_intercept)),
    {
/*@COST*/
    }
    // the gradient handed to the optimiser: same slices, the penalty gradient is added onto the coefficient part only, and the data term has one
    // leading entry for the intercept exactly when there is one
    pub fn gradient(&self, p: &AT) -> (r: Result<AT, ErrTok>)
        requires p.e@ == E::P, self.alpha.e@ == E::Alpha,
        ensures r.is_ok(), slices_ok(r.unwrap().e@, off_of(self.fit_intercept)),
            grad_shape(r.unwrap().e@, self.fit_intercept),
    {
/*@GRAD*/
    }
    pub fn vacuity_guard_tweedie(&self, p: &AT) -> (r: Result<AT, ErrTok>)
        requires p.e@ == E::P, self.alpha.e@ == E::Alpha,
        ensures false,
    {
        Err(ErrTok)
    }
}
} // verus!
fn main() {}
