//! property: C12
//! attach: algorithms/linfa-linear/src/glm/link.rs
//! module: vk_c12_link
// @include common/prelude.rs
// @include common/ghost_f32.rs
use super::*;

// =================================================================================================
// C12: "Tweedie GLMs ... with predictions in the link's range".  Oracles from the rustdoc of `Link`
// (`g(x)=x`, `g(x)=log(x)`, `g(x)=logit(x)`; `inverse` = h with h(linear predictor) = ypred = E[y]):
//   identity: h(x) = x, h' = g' = 1;   log: h(x) = exp(x) >= 0, h' = exp;   logit: h(x) = expit(x) in [0,1],
//   h' = expit*(1-expit) in [0,1/4].
// exp/ln uninterpreted (common/ghost_f32.rs); "functional" lets the harness name the same exp/ln value.
// =================================================================================================

// @unit class=bounded tier=quick mem=light bound="len=2, all finite f32" timeout=600 fns=linfa_linear::glm::link::Link::link,linfa_linear::glm::link::Link::inverse,linfa_linear::glm::link::Link::inverse_derviative,linfa_linear::glm::link::Link::link_derivative
#[kani::proof]
#[kani::unwind(7)]
#[kani::stub(alloc::fmt::format, fmt_stub)]
fn c12_link_identity_len2() {
    let v: [f32; 2] = kani::any();
    kani::assume(v[0].is_finite() && v[1].is_finite());
    let a = Array1::from(v.to_vec());
    let (l, h, dh, dl) = (Link::Identity.link(&a), Link::Identity.inverse(&a), Link::Identity.inverse_derviative(&a), Link::Identity.link_derivative(&a));
    assert!(l.len() == 2 && h.len() == 2 && dh.len() == 2 && dl.len() == 2);
    for i in 0..2 {
        assert!(l[i] == v[i] && h[i] == v[i]);
        assert!(dh[i] == 1.0 && dl[i] == 1.0);
    }
    kani::cover!(v[0] < 0.0 && v[1] > 1.0e30);
}

// @unit class=bounded tier=quick mem=light bound="len=2, all non-NaN f32 linear predictors" timeout=600 fns=linfa_linear::glm::link::Link::inverse,linfa_linear::glm::link::Link::inverse_derviative
#[kani::proof]
#[kani::unwind(7)]
#[kani::stub(alloc::fmt::format, fmt_stub)]
#[kani::stub(f32::exp, ghost_exp32)]
fn c12_link_log_inverse_len2() {
    let v: [f32; 2] = kani::any();
    kani::assume(!v[0].is_nan() && !v[1].is_nan());
    let a = Array1::from(v.to_vec());
    let h = Link::Log.inverse(&a);
    let dh = Link::Log.inverse_derviative(&a);
    assert!(h.len() == 2 && dh.len() == 2);
    for i in 0..2 {
        assert!(!h[i].is_nan() && h[i] >= 0.0);                  // a mean of a log-link model is never negative
        assert!(h[i] == ghost_exp32(v[i]));                      // h = exp, element by element
        assert!(dh[i] == h[i]);                                  // h' = exp
        if v[i] <= 0.0 { assert!(h[i] <= 1.0); }
        if v[i] >= 0.0 { assert!(h[i] >= 1.0); }
    }
    if v[0] <= v[1] { assert!(h[0] <= h[1]); }
    kani::cover!(v[0] < -1000.0 && v[1] > 1000.0);
    kani::cover!(h[0] > 0.0 && h[0] < 1.0);
    kani::cover!(v[0] == f32::NEG_INFINITY && h[0] == 0.0);
}

// @unit class=bounded tier=quick mem=light bound="len=2, finite positive f32 means" timeout=600 fns=linfa_linear::glm::link::Link::link,linfa_linear::glm::link::Link::link_derivative
#[kani::proof]
#[kani::unwind(7)]
#[kani::stub(alloc::fmt::format, fmt_stub)]
#[kani::stub(f32::ln, ghost_ln32)]
fn c12_link_log_link_len2() {
    let v: [f32; 2] = kani::any();
    kani::assume(v[0].is_finite() && v[1].is_finite() && v[0] > 0.0 && v[1] > 0.0);
    let a = Array1::from(v.to_vec());
    let g = Link::Log.link(&a);
    let dg = Link::Log.link_derivative(&a);
    assert!(g.len() == 2 && dg.len() == 2);
    for i in 0..2 {
        assert!(!g[i].is_nan() && g[i].is_finite());             // log of a positive finite mean
        assert!(g[i] == ghost_ln32(v[i]));
        if v[i] >= 1.0 { assert!(g[i] >= 0.0); }
        if v[i] <= 1.0 { assert!(g[i] <= 0.0); }
        assert!(!dg[i].is_nan() && dg[i] >= 0.0);                // g' = 1/y > 0 (can underflow to 0 only for huge y)
        if v[i] <= 1.0e30 { assert!(dg[i] > 0.0); }
    }
    kani::cover!(v[0] < 1.0e-30 && v[1] > 1.0e30);
    kani::cover!(g[0] < 0.0 && g[1] > 0.0);
}

// @unit class=bounded tier=quick mem=light bound="len=2, all non-NaN f32 linear predictors" timeout=900 fns=linfa_linear::glm::link::Link::inverse,linfa_linear::glm::link::Link::inverse_derviative
#[kani::proof]
#[kani::unwind(7)]
#[kani::stub(alloc::fmt::format, fmt_stub)]
#[kani::stub(f32::exp, ghost_exp32)]
fn c12_link_logit_inverse_len2() {
    let v: [f32; 2] = kani::any();
    kani::assume(!v[0].is_nan() && !v[1].is_nan());
    let a = Array1::from(v.to_vec());
    let h = Link::Logit.inverse(&a);
    let dh = Link::Logit.inverse_derviative(&a);
    assert!(h.len() == 2 && dh.len() == 2);
    for i in 0..2 {
        assert!(!h[i].is_nan() && h[i] >= 0.0 && h[i] <= 1.0);   // a probability
        if v[i] >= 0.0 { assert!(h[i] >= 0.5); }
        if v[i] <= 0.0 { assert!(h[i] <= 0.5); }
        assert!(!dh[i].is_nan() && dh[i] >= 0.0 && dh[i] <= 0.25 * (1.0 + 2.3841858e-7));   // p(1-p) <= 1/4, one rounding of 1-p
    }
    kani::cover!(v[0] < -1000.0 && v[1] > 1000.0);
    kani::cover!(h[0] > 0.0 && h[0] < 1.0 && dh[0] > 0.0);
    kani::cover!(v[0] == f32::INFINITY && h[0] == 1.0);
}

// @unit class=bounded tier=quick mem=light bound="len=1, mean in the open interval (0,1)" timeout=900 fns=linfa_linear::glm::link::Link::link
#[kani::proof]
#[kani::unwind(7)]
#[kani::stub(alloc::fmt::format, fmt_stub)]
#[kani::stub(f32::ln, ghost_ln32)]
fn c12_link_logit_link_len1() {
    let v: [f32; 1] = kani::any();
    kani::assume(v[0] > 0.0 && v[0] < 1.0);
    let a = Array1::from(v.to_vec());
    let g = Link::Logit.link(&a);
    assert!(g.len() == 1);
    assert!(!g[0].is_nan());                                     // logit of a probability strictly inside (0,1)
    if v[0] >= 0.5 { assert!(g[0] >= 0.0); }                     // odds >= 1
    if v[0] <= 0.5 { assert!(g[0] <= 0.0); }
    kani::cover!(v[0] > 0.75);
    kani::cover!(v[0] < 1.0e-30);
}
