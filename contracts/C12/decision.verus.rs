//! property: C12
//! unit: V-C12-decision-closures
//! tier: quick
//! fns: linfa_logistic::FittedLogisticRegression::predict_inplace (per-row decision closure: probability against the threshold), linfa_logistic::MultiFittedLogisticRegression::predict_inplace (per-row decision closure: class of the maximal score)
//@ extract BIN from algorithms/linfa-logistic/src/lib.rs anchor ".for_each(|prob, out| {" body
//@ rewrite? BIN "*prob >= self.threshold" => "prob.ge(&self.threshold)"
//@ rewrite? BIN "*prob > self.threshold" => "prob.gt(&self.threshold)"
//@ rewrite? BIN "self.threshold <= *prob" => "prob.ge(&self.threshold)"
//@ rewrite? BIN "self.threshold < *prob" => "prob.gt(&self.threshold)"
//@ extract MUL from algorithms/linfa-logistic/src/lib.rs anchor "Zip::from(probs.rows()).and(y).for_each(|prob_row, out| {" body
//@ expect-fail vacuity_guard_decision
use vstd::prelude::*;
verus! {
// floats as mathematical numbers (DESIGN.md 4.3): only compared here
pub struct FT { pub v: Ghost<int> }
impl FT {
    #[verifier::external_body] pub fn ge(&self, o: &FT) -> (r: bool) ensures r == (self.v@ >= o.v@) { unimplemented!() }
    #[verifier::external_body] pub fn gt(&self, o: &FT) -> (r: bool) ensures r == (self.v@ > o.v@) { unimplemented!() }
}
pub struct ClassTok { pub id: Ghost<int> }
impl ClassTok { #[verifier::external_body] pub fn clone(&self) -> (r: ClassTok) ensures r.id@ == self.id@ { unimplemented!() } }
pub struct BinaryV { pub threshold: FT }
impl BinaryV {
    // ---- C12 "the predicted class is exactly the one the probabilities and the decision threshold imply": the positive class iff the
    // probability reaches the threshold (set_threshold documents `>=`).  Body of the Zip closure, extracted from /repo ----
    pub fn decide(&self, prob: &FT, out: &mut ClassTok, pos_class: &ClassTok, neg_class: &ClassTok)
        ensures final(out).id@ == (if prob.v@ >= self.threshold.v@ { pos_class.id@ } else { neg_class.id@ }),
    {
/*@BIN*/
    }
    pub fn vacuity_guard_decision(&self, prob: &FT, out: &mut ClassTok, pos_class: &ClassTok, neg_class: &ClassTok)
        ensures false,
    {
    }
}
// one row of (unnormalised) class scores; ndarray-stats argmax: an index of a maximal entry, Err on an empty row (ASSUMED)
pub struct RowTok { pub v: Ghost<Seq<int>> }
#[derive(Debug)]
pub struct ErrTok {}
impl RowTok {
    #[verifier::external_body]
    pub fn argmin(&self) -> (r: Result<usize, ErrTok>)
        ensures self.v@.len() > 0 ==> r is Ok, r is Ok ==> (r->Ok_0 < self.v@.len() && forall|j: int| 0 <= j < self.v@.len() ==> #[trigger] self.v@[j] >= self.v@[r->Ok_0 as int]),
    { unimplemented!() }
    #[verifier::external_body]
    pub fn argmax(&self) -> (r: Result<usize, ErrTok>)
        ensures self.v@.len() > 0 ==> r is Ok, r is Ok ==> (r->Ok_0 < self.v@.len() && forall|j: int| 0 <= j < self.v@.len() ==> #[trigger] self.v@[j] <= self.v@[r->Ok_0 as int]),
    { unimplemented!() }
}
pub struct MultiV { pub classes: Vec<ClassTok> }
impl MultiV {
    // ---- multinomial: the class stored at the position of a maximal score (softmax is monotone, so the maximal probability) ----
    pub fn decide(&self, prob_row: &RowTok, out: &mut ClassTok)
        requires prob_row.v@.len() == self.classes@.len(), self.classes@.len() > 0,
        ensures exists|k: int| 0 <= k < self.classes@.len() && final(out).id@ == (#[trigger] self.classes@[k]).id@ && forall|j: int| 0 <= j < prob_row.v@.len() ==> #[trigger] prob_row.v@[j] <= prob_row.v@[k],
    {
/*@MUL*/
    }
}
} // verus!
fn main() {}
