//! property: C12
//! attach: algorithms/linfa-logistic/src/lib.rs
//! module: vk_c12_labels
// @include common/prelude.rs
use super::*;
use ndarray::Array1;

// =================================================================================================
// C12: "for any label type, label naming and sample order, and report the class set they were trained on".
// Binary label coding (label_classes walks the targets with a two-slot array, no hash map): the reported class set is
// exactly the two distinct target values, the +1/-1 target vector marks exactly the samples of the positive class,
// one distinct value is TooFewClasses, three are TooManyClasses.
// =================================================================================================
fn c12_lab(n: u8) -> usize { let v: u8 = kani::any(); kani::assume(v < n); v as usize }

fn c12_labels_check(y: &[usize]) -> (usize, Option<(usize, usize)>) {
    let n = y.len();
    let mut distinct = 0usize;
    for i in 0..n { let mut seen = false; for j in 0..i { if y[j] == y[i] { seen = true; } } if !seen { distinct += 1; } }
    let r = label_classes::<f32, _, usize>(Array1::from(y.to_vec()));
    let out = match &r {
        Ok((labels, target)) => {
            assert!(distinct == 2);
            let (pos, neg) = (labels.pos.class, labels.neg.class);
            assert!(labels.pos.label == 1.0 && labels.neg.label == -1.0);
            assert!(pos != neg);
            assert!(target.len() == n);
            let (mut has_pos, mut has_neg) = (false, false);
            for i in 0..n {
                assert!(y[i] == pos || y[i] == neg);                 // the class set is the set of target values
                if y[i] == pos { has_pos = true; assert!(target[i] == 1.0); }
                if y[i] == neg { has_neg = true; assert!(target[i] == -1.0); }
            }
            assert!(has_pos && has_neg);                              // the class reported positive is the one coded +1, and both occur
            Some((pos, neg))
        }
        Err(Error::TooFewClasses) => { assert!(distinct < 2); None }
        Err(Error::TooManyClasses) => { assert!(distinct > 2); None }
        Err(_) => { assert!(false); None }
    };
    core::mem::forget(r);
    (distinct, out)
}

// @unit class=bounded tier=quick mem=heavy bound="n=3 samples, labels in {0,1,2}" timeout=1200 fns=linfa_logistic::label_classes
#[kani::proof]
#[kani::unwind(6)]
#[kani::stub(alloc::fmt::format, fmt_stub)]
fn c12_label_classes_n3() {
    let y = [c12_lab(3), c12_lab(3), c12_lab(3)];
    let (distinct, out) = c12_labels_check(&y);
    kani::cover!(distinct == 1);
    kani::cover!(distinct == 3);
    kani::cover!(distinct == 2 && out == Some((2, 0)));
    kani::cover!(distinct == 2 && y[0] == 1 && y[1] == 0 && y[2] == 0);
}

// Which of the two classes is coded +1 is NOT part of the property (stationarity, class set, probabilities and decisions
// hold either way); see findings/C12-label-order-observation.md for the doc/code difference observed there.
