//! property: C17
//! unit: V-C17-vocabulary-filter
//! tier: quick
//! fns: linfa_preprocessing::countgrams::CountVectorizerValidParams::filter_vocabulary (document-frequency window and stop words; the feature cap is dropped)
//@ extract FV from algorithms/linfa-preprocessing/src/countgrams/mod.rs anchor "let (min_df, max_df) = self.document_frequency();" until "if let Some(max_features) = self.max_features() {"
//@ rewrite FV "let len_f32 = n_documents as f32;" => "let len_f32 = as_f32_abs(n_documents);   /* n_documents as f32 */"
//@ rewrite FV "((min_df * len_f32) as usize, (max_df * len_f32) as usize)" => "(frac_of_abs(min_df, len_f32), frac_of_abs(max_df, len_f32))   /* ((min_df * len_f32) as usize, (max_df * len_f32) as usize) */"
//@ rewrite FV ".filter(|(entry, (_, _))| !stopwords.contains(entry))" => ".keep(Pred::NotStop(stopwords))   /* .filter(|(entry, (_, _))| !stopwords.contains(entry)) */"
//@ rewrite FV ".filter(|(_, (_, abs_count))| {" => ".keep(Pred::Df {   /* .filter(|(_, (_, abs_count))| { */"
//@ rewrite FV "*abs_count >= min_abs_df && *abs_count <= max_abs_df" => "ge: min_abs_df, le: max_abs_df"
//@ rewrite FV ".filter(|(entry, (_, abs_count))| {" => ".keep(Pred::DfNotStop {   /* .filter(|(entry, (_, abs_count))| { */"
//@ rewrite FV "*abs_count >= min_abs_df" => "ge: min_abs_df,"
//@ rewrite FV "&& *abs_count <= max_abs_df" => "le: max_abs_df,"
//@ rewrite FV "&& !stopwords.contains(entry)" => "stop: stopwords"
//@ expect-fail vacuity_guard_filter
use vstd::prelude::*;
verus! {
// ---- tokens: the vocabulary is the set of entry ids it holds; df(e) = document frequency learnt for entry e ----
pub uninterp spec fn df(e: int) -> int;
pub uninterp spec fn is_stop(e: int) -> bool;
pub uninterp spec fn spec_frac_of(fraction_id: int, n: int) -> int;     // (fraction * n as f32) as usize
#[derive(Clone, Copy)]
pub struct FracTok { pub id: Ghost<int> }
#[derive(Clone, Copy)]
pub struct F32Tok { pub n: Ghost<int> }
#[verifier::external_body]
pub fn as_f32_abs(n: usize) -> (r: F32Tok) ensures r.n@ == n { unimplemented!() }
#[verifier::external_body]
pub fn frac_of_abs(f: FracTok, n: F32Tok) -> (r: usize) ensures r == spec_frac_of(f.id@, n.n@) { unimplemented!() }
pub struct StopTok;
pub enum Pred<'a> { NotStop(&'a StopTok), Df { ge: usize, le: usize }, DfNotStop { ge: usize, le: usize, stop: &'a StopTok } }
pub open spec fn admits(p: Pred, e: int) -> bool {
    match p {
        Pred::NotStop(_) => !is_stop(e),
        Pred::Df { ge, le } => ge <= df(e) <= le,
        Pred::DfNotStop { ge, le, stop } => ge <= df(e) <= le && !is_stop(e),
    }
}
pub struct VocabTok { pub s: Ghost<Set<int>> }
impl VocabTok {
    #[verifier::external_body] pub fn into_iter(self) -> (r: VocabTok) ensures r.s@ == self.s@ { unimplemented!() }
    // Iterator::filter with the closure named by `p` (the closure text is kept in the comment next to each use)
    #[verifier::external_body] pub fn keep(self, p: Pred) -> (r: VocabTok) ensures r.s@ == self.s@.filter(|e: int| admits(p, e)) { unimplemented!() }
    #[verifier::external_body] pub fn collect(self) -> (r: VocabTok) ensures r.s@ == self.s@ { unimplemented!() }
}
pub struct ParamsV { pub min_df: FracTok, pub max_df: FracTok, pub stop: Option<StopTok> }
impl ParamsV {
    pub fn document_frequency(&self) -> (r: (FracTok, FracTok)) ensures r.0 == self.min_df, r.1 == self.max_df { (self.min_df, self.max_df) }
    pub fn stopwords(&self) -> (r: &Option<StopTok>) ensures *r == self.stop { &self.stop }

    // ---- filter_vocabulary up to the feature cap, extracted from /repo on every run ----
    // C17: "the fitted vocabulary is exactly the set of n-grams of the training corpus that the settings admit": an entry survives iff its
    // document frequency lies in [min_df * n, max_df * n] (absolute, truncated as the code documents) and it is not a stop word.
    // Every learnt entry occurs in at least one and at most n_documents documents (read_document_into_vocabulary counts each document once).
    pub fn filter_vocabulary(&self, vocabulary: VocabTok, n_documents: usize) -> (r: VocabTok)
        requires forall|e: int| vocabulary.s@.contains(e) ==> 1 <= #[trigger] df(e) <= n_documents,
        ensures forall|e: int| r.s@.contains(e) <==> vocabulary.s@.contains(e)
                    && spec_frac_of(self.min_df.id@, n_documents as int) <= df(e) <= spec_frac_of(self.max_df.id@, n_documents as int)
                    && !(self.stop is Some && is_stop(e)),
    {
/*@FV*/
        vocabulary
    }
    pub fn vacuity_guard_filter(&self, vocabulary: VocabTok, n_documents: usize) -> (r: VocabTok)
        requires forall|e: int| vocabulary.s@.contains(e) ==> 1 <= #[trigger] df(e) <= n_documents,
        ensures false,
    {
        vocabulary
    }
}
} // verus!
fn main() {}
