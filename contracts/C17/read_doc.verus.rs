//! property: C17
//! unit: V-C17-document-frequency
//! tier: quick
//! fns: linfa_preprocessing::countgrams::CountVectorizerValidParams::read_document_into_vocabulary (the loop over the distinct n-grams of one document)
//@ extract RD from algorithms/linfa-preprocessing/src/countgrams/mod.rs anchor "for word in document_vocabulary {" block
//@ rewrite RD "for word in document_vocabulary {" => "for t in 0..document_vocabulary.len() { let word = document_vocabulary[t];   /* for word in document_vocabulary (a HashSet: distinct n-grams, any order) */"
//@ rewrite RD "if let Some((_, freq)) = vocabulary.get_mut(&word) {" => "if vocabulary.contains_abs(&word) {   /* if let Some((_, freq)) = vocabulary.get_mut(&word) */"
//@ rewrite RD "*freq += 1;" => "vocabulary.incr_df_abs(&word);   /* *freq += 1 */"
//@ rewrite RD "vocabulary.insert(" => "vocabulary.insert_abs("
//@ insert RD before-brace "for t in 0..document_vocabulary.len() " : invariant distinct(document_vocabulary@), vocabulary.wf(), vocabulary.n@ <= v0.n@ + t, v0.n@ + document_vocabulary@.len() <= usize::MAX / 2, forall|w: int| #![trigger vocabulary.df@.contains_key(w)] (vocabulary.df@.contains_key(w) <==> v0.df@.contains_key(w) || seen(document_vocabulary@, t as int, w)), forall|w: int| #![trigger vocabulary.df@[w]] vocabulary.df@.contains_key(w) ==> vocabulary.df@[w] == (if v0.df@.contains_key(w) { v0.df@[w] } else { 0 }) + (if seen(document_vocabulary@, t as int, w) { 1int } else { 0int }), forall|w: int| #![trigger vocabulary.index@[w]] v0.df@.contains_key(w) ==> vocabulary.index@[w] == v0.index@[w],
//@ insert RD after "for t in 0..document_vocabulary.len() " : proof { lemma_seen_step(document_vocabulary@, t as int); }
//@ expect-fail vacuity_guard_read
use vstd::prelude::*;
verus! {
#[derive(Clone, Copy)]
pub struct WordTok { pub w: Ghost<int> }
pub open spec fn distinct(s: Seq<WordTok>) -> bool { forall|a: int, b: int| #![trigger s[a], s[b]] 0 <= a < s.len() && 0 <= b < s.len() && a != b ==> s[a].w@ != s[b].w@ }
pub open spec fn seen(s: Seq<WordTok>, n: int, w: int) -> bool { exists|j: int| #![trigger s[j]] 0 <= j < n && s[j].w@ == w }
proof fn lemma_seen_step(s: Seq<WordTok>, i: int)
    requires 0 <= i < s.len(), distinct(s),
    ensures !seen(s, i, s[i].w@), forall|w: int| #![trigger seen(s, i + 1, w)] seen(s, i + 1, w) <==> (seen(s, i, w) || w == s[i].w@),
{
    if seen(s, i, s[i].w@) { let j = choose|j: int| #![trigger s[j]] 0 <= j < i && s[j].w@ == s[i].w@; assert(s[j].w@ != s[i].w@); }
    assert forall|w: int| #![trigger seen(s, i + 1, w)] seen(s, i + 1, w) <==> (seen(s, i, w) || w == s[i].w@) by {
        if seen(s, i + 1, w) { let j = choose|j: int| #![trigger s[j]] 0 <= j < i + 1 && s[j].w@ == w; if j < i { assert(seen(s, i, w)); } }
        if seen(s, i, w) { let j = choose|j: int| #![trigger s[j]] 0 <= j < i && s[j].w@ == w; assert(0 <= j < i + 1 && s[j].w@ == w); }
        if w == s[i].w@ { assert(0 <= i < i + 1 && s[i].w@ == w); }
    }
}
// HashMap<String, (index, document frequency)>
pub struct VocabTok { pub df: Ghost<Map<int, int>>, pub index: Ghost<Map<int, int>>, pub n: Ghost<int> }
impl VocabTok {
    pub open spec fn wf(&self) -> bool { 0 <= self.n@ <= usize::MAX / 2 && (forall|w: int| #![trigger self.df@.contains_key(w)] #![trigger self.index@.contains_key(w)] self.df@.contains_key(w) <==> self.index@.contains_key(w)) }
    #[verifier::external_body] pub fn len(&self) -> (r: usize) ensures r == self.n@ { unimplemented!() }
    #[verifier::external_body] pub fn contains_abs(&self, w: &WordTok) -> (r: bool) ensures r == self.df@.contains_key(w.w@) { unimplemented!() }
    #[verifier::external_body]
    pub fn incr_df_abs(&mut self, w: &WordTok)
        requires old(self).df@.contains_key(w.w@),
        ensures final(self).df@ == old(self).df@.insert(w.w@, old(self).df@[w.w@] + 1), final(self).index@ == old(self).index@, final(self).n@ == old(self).n@,
    { unimplemented!() }
    #[verifier::external_body]
    pub fn insert_abs(&mut self, w: WordTok, v: (usize, usize))
        requires !old(self).df@.contains_key(w.w@),
        ensures final(self).df@ == old(self).df@.insert(w.w@, v.1 as int), final(self).index@ == old(self).index@.insert(w.w@, v.0 as int), final(self).n@ == old(self).n@ + 1,
    { unimplemented!() }
}
// ---- read_document_into_vocabulary: the update loop, extracted from /repo on every run ----
// C17: the document frequency of an n-gram is the number of DOCUMENTS it occurs in: one document adds exactly one to every distinct n-gram it
// contains (new n-grams enter with frequency one), leaves all others alone and never changes the index of a known entry
pub fn read_document(vocabulary: &mut VocabTok, document_vocabulary: Vec<WordTok>)
    requires distinct(document_vocabulary@), old(vocabulary).wf(), old(vocabulary).n@ + document_vocabulary@.len() <= usize::MAX / 2,
    ensures
        forall|w: int| #![trigger final(vocabulary).df@.contains_key(w)] final(vocabulary).df@.contains_key(w) <==> old(vocabulary).df@.contains_key(w) || seen(document_vocabulary@, document_vocabulary@.len() as int, w),
        forall|w: int| #![trigger final(vocabulary).df@[w]] final(vocabulary).df@.contains_key(w) ==> final(vocabulary).df@[w] == (if old(vocabulary).df@.contains_key(w) { old(vocabulary).df@[w] } else { 0 }) + (if seen(document_vocabulary@, document_vocabulary@.len() as int, w) { 1int } else { 0int }),
        forall|w: int| #![trigger final(vocabulary).index@[w]] old(vocabulary).df@.contains_key(w) ==> final(vocabulary).index@[w] == old(vocabulary).index@[w],
{
    let ghost v0 = *vocabulary;
/*@RD*/
}
pub fn vacuity_guard_read(vocabulary: &mut VocabTok, document_vocabulary: Vec<WordTok>)
    requires distinct(document_vocabulary@), old(vocabulary).wf(), old(vocabulary).n@ + document_vocabulary@.len() <= usize::MAX / 2,
    ensures false,
{
}
} // verus!
fn main() {}
