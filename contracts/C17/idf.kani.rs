//! property: C17
//! attach: algorithms/linfa-preprocessing/src/tf_idf_vectorization.rs
//! module: vk_c17_idf
// @include common/prelude.rs
// @include common/ghost_f64.rs
use super::*;

// Oracle = rustdoc of the three `TfIdfMethod` variants (tf_idf_vectorization.rs):
//   Smooth    : "log(1+n/1+document_frequency) + 1"   -> ln((1+n)/(1+df)) + 1
//   NonSmooth : "log(n/document_frequency) +1"         -> ln(n/df) + 1   ("division by zero" for df = 0 documented)
//   Textbook  : "log(n/ 1 + document_frequency)"       -> ln(n/(1+df))
// `ln` is uninterpreted (ghost_ln64): the ghost table records the argument of every call, so the
// contract says: exactly ONE logarithm is taken, of exactly the documented quotient, and exactly the
// documented constant is added to it.  Counts are restricted to <= 2^52 (document counts; every such
// count and its successor is exact in f64, so "1+n" means the same in integer and in float arithmetic).
const C17_MAXCNT: usize = 1usize << 52;

fn c17_same(a: f64, b: f64) -> bool { a == b || (a.is_nan() && b.is_nan()) }

// @unit class=complete tier=quick mem=light timeout=300 fns=linfa_preprocessing::tf_idf_vectorization::TfIdfMethod::compute_idf
#[kani::proof]
#[kani::stub(alloc::fmt::format, fmt_stub)]
#[kani::stub(f64::ln, ghost_ln64)]
fn c17_idf_smooth() {
    let (n, df): (usize, usize) = (kani::any(), kani::any());
    kani::assume(n <= C17_MAXCNT && df <= C17_MAXCNT);
    let r = TfIdfMethod::Smooth.compute_idf(n, df);
    let (calls, arg, lnv) = unsafe { (H_LN_N, H_LN_A[0], H_LN_R[0]) };
    assert!(calls == 1);
    assert!(arg == (1. + n as f64) / (1. + df as f64));
    assert!(c17_same(r, lnv + 1.));
    kani::cover!(df == 0 && n == 0);
    kani::cover!(df == n && n > 0);
    kani::cover!(df < n);
    kani::cover!(df > n);
}

// @unit class=complete tier=quick mem=light timeout=300 fns=linfa_preprocessing::tf_idf_vectorization::TfIdfMethod::compute_idf
#[kani::proof]
#[kani::stub(alloc::fmt::format, fmt_stub)]
#[kani::stub(f64::ln, ghost_ln64)]
fn c17_idf_nonsmooth() {
    let (n, df): (usize, usize) = (kani::any(), kani::any());
    kani::assume(n <= C17_MAXCNT && df <= C17_MAXCNT);
    let r = TfIdfMethod::NonSmooth.compute_idf(n, df);
    let (calls, arg, lnv) = unsafe { (H_LN_N, H_LN_A[0], H_LN_R[0]) };
    assert!(calls == 1);
    assert!(c17_same(arg, (n as f64) / (df as f64)));
    assert!(c17_same(r, lnv + 1.));
    kani::cover!(df == 0 && n > 0);
    kani::cover!(df == 0 && n == 0);
    kani::cover!(df == n && n > 0);
    kani::cover!(0 < df && df < n);
}

// @unit class=complete tier=quick mem=light timeout=300 fns=linfa_preprocessing::tf_idf_vectorization::TfIdfMethod::compute_idf
#[kani::proof]
#[kani::stub(alloc::fmt::format, fmt_stub)]
#[kani::stub(f64::ln, ghost_ln64)]
fn c17_idf_textbook() {
    let (n, df): (usize, usize) = (kani::any(), kani::any());
    kani::assume(n <= C17_MAXCNT && df <= C17_MAXCNT);
    let r = TfIdfMethod::Textbook.compute_idf(n, df);
    let (calls, arg, lnv) = unsafe { (H_LN_N, H_LN_A[0], H_LN_R[0]) };
    assert!(calls == 1);
    assert!(arg == (n as f64) / (1. + df as f64));
    assert!(c17_same(r, lnv));                                // nothing added
    kani::cover!(df == 0 && n == 0);
    kani::cover!(df + 1 == n);
    kani::cover!(df == n && n > 0);
    kani::cover!(df + 1 < n);
}
