//! property: C17
//! attach: algorithms/linfa-preprocessing/src/tf_idf_vectorization.rs
//! module: vk_c17_idf
// @include common/prelude.rs
// @include common/ghost_f64.rs
use super::*;

// Oracle = rustdoc of the three `TfIdfMethod` variants (tf_idf_vectorization.rs):
//   Smooth    : "log(1+n/1+document_frequency) + 1"   -> ln((1+n)/(1+df)) + 1 ; "preventing divisions by zero"
//   NonSmooth : "log(n/document_frequency) +1"         -> ln(n/df) + 1 ; "zero document frequency ... will produce a division by zero"
//   Textbook  : "log(n/ 1 + document_frequency)"       -> ln(n/(1+df)) ; "prevents divisions by zero"
// `ln` is uninterpreted (ghost_ln64); its table records the argument of every call.
//
// Two layers (measured: CBMC cannot prove two symbolic f64 divisions of the same operands equal - its
// divider is a relational encoding; 53-bit operands: > 15 min, 8-bit operands: 288 s):
//  * c17_idf_<method>      class=complete, all n, df <= 2^52: exactly ONE logarithm is taken, the result is that
//                          logarithm plus exactly the documented constant (1, 1, 0), and the argument of the
//                          logarithm has the documented division-by-zero behaviour.
//  * c17_idf_quot_<method> class=bounded, n, df <= C17_Q symbolic: the argument of the logarithm is exactly
//                          the documented quotient.
// Counts are restricted to <= 2^52 (every such count and its successor is exact in f64, so "1+n" means the
// same in integer and in floating point arithmetic).
const C17_MAXCNT: usize = 1usize << 52;
const C17_Q: usize = 31;

fn c17_same(a: f64, b: f64) -> bool { a == b || (a.is_nan() && b.is_nan()) }

// @unit class=complete tier=quick mem=light timeout=600 fns=linfa_preprocessing::tf_idf_vectorization::TfIdfMethod::compute_idf
#[kani::proof]
#[kani::stub(alloc::fmt::format, fmt_stub)]
#[kani::stub(f64::ln, ghost_ln64)]
fn c17_idf_smooth() {
    let (n, df): (usize, usize) = (kani::any(), kani::any());
    kani::assume(n <= C17_MAXCNT && df <= C17_MAXCNT);
    let r = TfIdfMethod::Smooth.compute_idf(n, df);
    let (calls, arg, lnv) = unsafe { (H_LN_N, H_LN_A[0], H_LN_R[0]) };
    assert!(calls == 1);                                      // exactly one logarithm
    assert!(c17_same(r, lnv + 1.));                           // ... plus one
    assert!(arg > 0.0 && arg.is_finite());                    // no division by zero, whatever n and df
    assert!(r.is_finite());
    kani::cover!(df == 0 && n == 0);
    kani::cover!(df == n && n > 0);
    kani::cover!(df < n);
    kani::cover!(df > n);
}

// @unit class=complete tier=quick mem=light timeout=600 fns=linfa_preprocessing::tf_idf_vectorization::TfIdfMethod::compute_idf
#[kani::proof]
#[kani::stub(alloc::fmt::format, fmt_stub)]
#[kani::stub(f64::ln, ghost_ln64)]
fn c17_idf_nonsmooth() {
    let (n, df): (usize, usize) = (kani::any(), kani::any());
    kani::assume(n <= C17_MAXCNT && df <= C17_MAXCNT);
    let r = TfIdfMethod::NonSmooth.compute_idf(n, df);
    if n == 0 && df == 0 { assert!(r.is_nan()); return; }     // 0/0: the ghost does not record NaN arguments
    let (calls, arg, lnv) = unsafe { (H_LN_N, H_LN_A[0], H_LN_R[0]) };
    assert!(calls == 1);
    assert!(c17_same(r, lnv + 1.));
    if df > 0 { assert!(arg >= 0.0 && arg.is_finite() && (arg == 0.0) == (n == 0)); }
    if df > 0 && n > 0 { assert!(r.is_finite()); }
    if df == 0 && n > 0 { assert!(arg == f64::INFINITY && r == f64::INFINITY); }   // the documented division by zero
    kani::cover!(df == 0 && n > 0);
    kani::cover!(df == n && n > 0);
    kani::cover!(0 < df && df < n);
}

// @unit class=complete tier=quick mem=light timeout=600 fns=linfa_preprocessing::tf_idf_vectorization::TfIdfMethod::compute_idf
#[kani::proof]
#[kani::stub(alloc::fmt::format, fmt_stub)]
#[kani::stub(f64::ln, ghost_ln64)]
fn c17_idf_textbook() {
    let (n, df): (usize, usize) = (kani::any(), kani::any());
    kani::assume(n <= C17_MAXCNT && df <= C17_MAXCNT);
    let r = TfIdfMethod::Textbook.compute_idf(n, df);
    let (calls, arg, lnv) = unsafe { (H_LN_N, H_LN_A[0], H_LN_R[0]) };
    assert!(calls == 1);
    assert!(c17_same(r, lnv));                                // nothing added
    assert!(arg >= 0.0 && arg.is_finite() && (arg == 0.0) == (n == 0));   // no division by zero
    assert!(!r.is_nan());
    kani::cover!(df == 0 && n == 0 && r == f64::NEG_INFINITY);
    kani::cover!(df + 1 == n);
    kani::cover!(df == n && n > 0);
    kani::cover!(df + 1 < n);
}

// @unit class=bounded tier=quick mem=light bound="n,df<=31 (symbolic)" timeout=1200 fns=linfa_preprocessing::tf_idf_vectorization::TfIdfMethod::compute_idf
#[kani::proof]
#[kani::stub(alloc::fmt::format, fmt_stub)]
#[kani::stub(f64::ln, ghost_ln64)]
fn c17_idf_quot_smooth() {
    let (n, df): (usize, usize) = (kani::any(), kani::any());
    kani::assume(n <= C17_Q && df <= C17_Q);
    let r = TfIdfMethod::Smooth.compute_idf(n, df);
    let arg = unsafe { H_LN_A[0] };
    assert!(arg == ((n + 1) as f64) / ((df + 1) as f64));
    if df == n { assert!(r == 1.0); }                         // "entries that appear in every document ... weight of one"
    if df < n { assert!(r >= 1.0); }
    kani::cover!(n == 30 && df == 6);
    kani::cover!(n == df);
}

// @unit class=bounded tier=quick mem=light bound="n,df<=31 (symbolic)" timeout=1200 fns=linfa_preprocessing::tf_idf_vectorization::TfIdfMethod::compute_idf
#[kani::proof]
#[kani::stub(alloc::fmt::format, fmt_stub)]
#[kani::stub(f64::ln, ghost_ln64)]
fn c17_idf_quot_nonsmooth() {
    let (n, df): (usize, usize) = (kani::any(), kani::any());
    kani::assume(n <= C17_Q && df <= C17_Q);
    kani::assume(n > 0 || df > 0);                            // 0/0 = NaN is not recorded by the ghost; covered by c17_idf_nonsmooth
    let r = TfIdfMethod::NonSmooth.compute_idf(n, df);
    let arg = unsafe { H_LN_A[0] };
    assert!(arg == (n as f64) / (df as f64));
    if df == n && n > 0 { assert!(r == 1.0); }
    kani::cover!(n == 30 && df == 7);
    kani::cover!(n == df && n > 0);
    kani::cover!(df == 0);
}

// @unit class=bounded tier=quick mem=light bound="n,df<=31 (symbolic)" timeout=1200 fns=linfa_preprocessing::tf_idf_vectorization::TfIdfMethod::compute_idf
#[kani::proof]
#[kani::stub(alloc::fmt::format, fmt_stub)]
#[kani::stub(f64::ln, ghost_ln64)]
fn c17_idf_quot_textbook() {
    let (n, df): (usize, usize) = (kani::any(), kani::any());
    kani::assume(n <= C17_Q && df <= C17_Q);
    let r = TfIdfMethod::Textbook.compute_idf(n, df);
    let arg = unsafe { H_LN_A[0] };
    assert!(arg == (n as f64) / ((df + 1) as f64));
    if df + 1 == n { assert!(r == 0.0); }
    if df >= n { assert!(r <= 0.0); }                         // "discards entries that appear in every document"
    kani::cover!(n == 30 && df == 6);
    kani::cover!(df + 1 == n);
    kani::cover!(df == n && n > 0);
}
